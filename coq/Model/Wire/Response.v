(* Response.v — device_response.rs: DeviceResponse / Document / Errors / DocumentError / status. *)
From Isomdl Require Import Lib.Bytes Lib.Cbor Lib.Serde Model.Wire.Tables Model.Wire.Signed.
From Coq Require Import ZArith String.
Open Scope N_scope.

(* NonEmptyMap<String, NonEmptyMap<String, DocumentErrorCode>> *)
Definition errors := list (bytes * list (bytes * doc_error_code)).
(* BTreeMap<String, DocumentErrorCode> *)
Definition document_error := list (bytes * doc_error_code).

(* documented domain of an error code: 0, or a negative application-specific integer (an i128) *)
Definition doc_error_code_wf (c : doc_error_code) : Prop :=
  match c with DataNotReturned => True | ApplicationSpecific z => (- two127z <= z < 0)%Z end.

Section WithCose.
  Variable tb : tables.
  Context {sign1 mac0 : Type} (c_sign1 : codec sign1) (c_mac0 : codec mac0)
          (sign1_P : sign1 -> Prop) (mac0_P : mac0 -> Prop).

  Definition c_errors : codec errors := c_nemap bytes_ltb c_text (c_nemap bytes_ltb c_text (c_doc_error_code tb)).
  Definition errors_P : errors -> Prop := nemap_P bytes_ltb text_ok (nemap_P bytes_ltb text_ok doc_error_code_wf).
  Definition c_document_error : codec document_error := c_map bytes_ltb c_text (c_doc_error_code tb).
  Definition document_error_P : document_error -> Prop := map_P bytes_ltb text_ok doc_error_code_wf.

  Record document := Document {
    doc_doc_type : bytes;
    doc_issuer_signed : @issuer_signed sign1;
    doc_device_signed : @device_signed sign1 mac0;
    doc_errors : option errors }.

  Definition doc_tuple_t := (bytes * (@issuer_signed sign1 * (@device_signed sign1 mac0 * (option errors * unit))))%type.
  Definition doc_fields : fields doc_tuple_t :=
    FReq (bytes_of_string "docType") c_text text_ok
   (FReq (bytes_of_string "issuerSigned") (c_issuer_signed c_sign1 sign1_P) (issuer_signed_wf sign1_P)
   (FReq (bytes_of_string "deviceSigned") (c_device_signed tb c_sign1 c_mac0 sign1_P mac0_P) (device_signed_wf sign1_P mac0_P)
   (FOpt (bytes_of_string "errors") c_errors errors_P FNil))).
  Definition doc_tuple (x : document) : doc_tuple_t :=
    (doc_doc_type x, (doc_issuer_signed x, (doc_device_signed x, (doc_errors x, tt)))).
  Definition doc_untuple (t : doc_tuple_t) : document :=
    Document (fst t) (fst (snd t)) (fst (snd (snd t))) (fst (snd (snd (snd t)))).
  Definition c_document : codec document := c_iso doc_tuple doc_untuple (c_struct true doc_fields).
  Definition document_wf (x : document) : Prop :=
    text_ok (doc_doc_type x) /\ issuer_signed_wf sign1_P (doc_issuer_signed x) /\
    device_signed_wf sign1_P mac0_P (doc_device_signed x) /\ opt_P errors_P (doc_errors x).

  Record device_response := DeviceResponse {
    rsp_version : bytes;
    rsp_documents : option (list document);              (* NonEmptyVec<Document> *)
    rsp_document_errors : option (list document_error);  (* NonEmptyVec<DocumentError> *)
    rsp_status : response_status }.

  Definition rsp_tuple_t := (bytes * (option (list document) * (option (list document_error) * (response_status * unit))))%type.
  Definition rsp_fields : fields rsp_tuple_t :=
    FReq (bytes_of_string "version") c_text text_ok
   (FOpt (bytes_of_string "documents") (c_nelist c_document) (ne_P document_wf)
   (FOpt (bytes_of_string "documentErrors") (c_nelist c_document_error) (ne_P document_error_P)
   (FReq (bytes_of_string "status") (c_response_status tb) any_P FNil))).
  Definition rsp_tuple (x : device_response) : rsp_tuple_t :=
    (rsp_version x, (rsp_documents x, (rsp_document_errors x, (rsp_status x, tt)))).
  Definition rsp_untuple (t : rsp_tuple_t) : device_response :=
    DeviceResponse (fst t) (fst (snd t)) (fst (snd (snd t))) (fst (snd (snd (snd t)))).
  Definition c_device_response : codec device_response := c_iso rsp_tuple rsp_untuple (c_struct true rsp_fields).
  Definition device_response_wf (x : device_response) : Prop :=
    text_ok (rsp_version x) /\ opt_P (ne_P document_wf) (rsp_documents x) /\
    opt_P (ne_P document_error_P) (rsp_document_errors x).
End WithCose.
