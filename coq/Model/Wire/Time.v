(* Time.v — model of how validity_info.rs emits and reads RFC 3339 date-times (tag 0 text).
   An OffsetDateTime is a local civil date-time plus a UTC offset; the serialiser computes
     $date.replace_millisecond(0)?.to_offset(UtcOffset::UTC).format(&Rfc3339)?
   i.e. drops the whole sub-second part, converts to UTC and prints YYYY-MM-DDThh:mm:ssZ.
   Civil-date arithmetic over Z (proleptic Gregorian calendar, days since 1970-01-01).  The `time`
   crate itself is an oracle; this is the specification it is checked against by the harness. *)
From Isomdl Require Import Lib.Bytes Lib.Serde.
From Coq Require Import ZArith.
Open Scope Z_scope.

Record odt := ODT {
  o_year : Z; o_month : Z; o_day : Z;          (* local civil date *)
  o_hour : Z; o_min : Z; o_sec : Z;            (* local time of day *)
  o_nanos : Z;                                 (* 0 .. 999_999_999 *)
  o_offset : Z                                 (* seconds east of UTC *)
}.

Definition is_leap (y : Z) : bool := ((y mod 4 =? 0) && negb (y mod 100 =? 0)) || (y mod 400 =? 0).
Definition days_in_month (y m : Z) : Z :=
  if m =? 2 then (if is_leap y then 29 else 28)
  else if (m =? 4) || (m =? 6) || (m =? 9) || (m =? 11) then 30 else 31.

Definition valid_date (y m d : Z) : bool := (1 <=? m) && (m <=? 12) && (1 <=? d) && (d <=? days_in_month y m).
Definition valid_tod (h mi s : Z) : bool := (0 <=? h) && (h <? 24) && (0 <=? mi) && (mi <? 60) && (0 <=? s) && (s <? 60).

(* days since 1970-01-01 of a civil date, and back *)
Definition days_from_civil (y m d : Z) : Z :=
  let y' := if m <=? 2 then y - 1 else y in
  let era := y' / 400 in
  let yoe := y' - era * 400 in
  let mp := (m + 9) mod 12 in
  let doy := (153 * mp + 2) / 5 + d - 1 in
  let doe := yoe * 365 + yoe / 4 - yoe / 100 + doy in
  era * 146097 + doe - 719468.

Definition civil_from_days (z : Z) : Z * Z * Z :=
  let z := z + 719468 in
  let era := z / 146097 in
  let doe := z - era * 146097 in
  let yoe := (doe - doe / 1460 + doe / 36524 - doe / 146096) / 365 in
  let y := yoe + era * 400 in
  let doy := doe - (365 * yoe + yoe / 4 - yoe / 100) in
  let mp := (5 * doy + 2) / 153 in
  let d := doy - (153 * mp + 2) / 5 + 1 in
  let m := if mp <? 10 then mp + 3 else mp - 9 in
  (if m <=? 2 then y + 1 else y, m, d).

Definition tod_secs (h mi s : Z) : Z := h * 3600 + mi * 60 + s.
Definition local_secs (x : odt) : Z :=
  days_from_civil (o_year x) (o_month x) (o_day x) * 86400 + tod_secs (o_hour x) (o_min x) (o_sec x).
(* the instant, in whole seconds since the epoch (the fraction is dropped: floor) *)
Definition instant (x : odt) : Z := local_secs x - o_offset x.

(* replace_millisecond(0) then to_offset(UTC) *)
Definition utc_of_secs (t : Z) : odt :=
  let '(y, m, d) := civil_from_days (t / 86400) in
  let r := t mod 86400 in
  ODT y m d (r / 3600) ((r mod 3600) / 60) (r mod 60) 0 0.
Definition to_utc_trunc (x : odt) : odt := utc_of_secs (instant x).

(* ---- formatting (Rfc3339, offset 0, no fraction) ---- *)
Definition digit (z : Z) : N := Z.to_N (48 + z).
Definition pad2 (z : Z) : bytes := [digit (z / 10); digit (z mod 10)].
Definition pad4 (z : Z) : bytes := pad2 (z / 100) ++ pad2 (z mod 100).
Definition fmt_utc (x : odt) : bytes :=
  pad4 (o_year x) ++ 45%N :: pad2 (o_month x) ++ 45%N :: pad2 (o_day x) ++ 84%N ::
  pad2 (o_hour x) ++ 58%N :: pad2 (o_min x) ++ 58%N :: pad2 (o_sec x) ++ [90%N].
(* what the serialiser writes for a date *)
Definition emit (x : odt) : bytes := fmt_utc (to_utc_trunc x).
(* Rfc3339 formatting refuses years outside 0..9999 *)
Definition emit_ok (x : odt) : bool := let y := o_year (to_utc_trunc x) in (0 <=? y) && (y <=? 9999).

(* The serialiser as a function with explicit outcomes (fix 44219c8):
     $date.replace_millisecond(0)?            never fails for 0
          .checked_to_offset(UtcOffset::UTC)  None when the UTC date leaves the crate's range, years -9999 ..= 9999
          .ok_or(Error::UtcOutOfRange)?
          .format(&Rfc3339)?                  refuses years outside 0 ..= 9999
   [EmitPanic] is the outcome the former `to_offset` had for the first case; the current code has no
   path to it (Proofs/TimeProofs.emit_checked_total). *)
Inductive enc_error := UtcOutOfRange | UnableToFormatDate.
Inductive emitted := Emitted (t : bytes) | EmitError (e : enc_error) | EmitPanic.
Definition emit_checked (x : odt) : emitted :=
  let u := to_utc_trunc x in
  if (o_year u <? -9999) || (9999 <? o_year u) then EmitError UtcOutOfRange
  else if o_year u <? 0 then EmitError UnableToFormatDate
  else Emitted (fmt_utc u).

(* ---- parsing (time::OffsetDateTime::parse(_, &Rfc3339) as observed) ---- *)
Definition dval (b : N) : option Z := if ((48 <=? b) && (b <=? 57))%N then Some (Z.of_N b - 48) else None.
Definition take2 (s : bytes) : option (Z * bytes) :=
  match s with
  | a :: b :: r => x <-? dval a ;; y <-? dval b ;; Some (10 * x + y, r)
  | _ => None
  end.
Definition take4 (s : bytes) : option (Z * bytes) :=
  '(hi, r) <-? take2 s ;; '(lo, r') <-? take2 r ;; Some (100 * hi + lo, r').
Definition expect (c : N) (s : bytes) : option bytes :=
  match s with b :: r => if (b =? c)%N then Some r else None | [] => None end.
(* 'T', 't' or a space *)
Definition expect_sep (s : bytes) : option bytes :=
  match s with b :: r => if ((b =? 84) || (b =? 116) || (b =? 32))%N then Some r else None | [] => None end.

Fixpoint take_digits (s : bytes) : list Z * bytes :=
  match s with
  | b :: r => match dval b with
              | Some d => let '(ds, r') := take_digits r in (d :: ds, r')
              | None => ([], s)
              end
  | [] => ([], [])
  end.
(* the first nine digits, right-padded with zeros; further digits are read and ignored *)
Fixpoint nanos_of (k : nat) (ds : list Z) : Z :=
  match k with
  | O => 0
  | S k' => match ds with
            | d :: r => d * 10 ^ Z.of_nat k' + nanos_of k' r
            | [] => 0
            end
  end.
Definition take_fraction (s : bytes) : option (Z * bytes) :=
  match s with
  | 46%N :: r => let '(ds, r') := take_digits r in
                 match ds with [] => None | _ => Some (nanos_of 9 ds, r') end
  | _ => Some (0, s)
  end.
(* 'Z' / 'z', or ±hh:mm with hh <= 23 and mm <= 59, and nothing after it *)
Definition take_offset (s : bytes) : option Z :=
  match s with
  | [c] => if ((c =? 90) || (c =? 122))%N then Some 0 else None
  | sg :: r =>
    '(hh, r1) <-? take2 r ;; r2 <-? expect 58 r1 ;; '(mm, r3) <-? take2 r2 ;;
    match r3 with
    | [] => if (hh <=? 23) && (mm <=? 59) then
              (if (sg =? 43)%N then Some (hh * 3600 + mm * 60)
               else if (sg =? 45)%N then Some (- (hh * 3600 + mm * 60)) else None)
            else None
    | _ => None
    end
  | [] => None
  end.

Definition parse_rfc3339 (s : bytes) : option odt :=
  '(y, s) <-? take4 s ;; s <-? expect 45 s ;; '(m, s) <-? take2 s ;; s <-? expect 45 s ;; '(d, s) <-? take2 s ;;
  s <-? expect_sep s ;;
  '(h, s) <-? take2 s ;; s <-? expect 58 s ;; '(mi, s) <-? take2 s ;; s <-? expect 58 s ;; '(sec, s) <-? take2 s ;;
  '(ns, s) <-? take_fraction s ;;
  off <-? take_offset s ;;
  if valid_date y m d && valid_tod h mi sec then Some (ODT y m d h mi sec ns off) else None.

(* ---- documented domain ---- *)
Definition odt_valid (x : odt) : bool :=
  valid_date (o_year x) (o_month x) (o_day x) && valid_tod (o_hour x) (o_min x) (o_sec x)
  && (0 <=? o_nanos x) && (o_nanos x <? 1000000000).
(* offsets the property quantifies over: up to ±23:59:59 *)
Definition offset_ok (x : odt) : bool := (-86399 <=? o_offset x) && (o_offset x <=? 86399).
(* already in the emitted form: UTC, no fraction *)
Definition odt_normal (x : odt) : bool := (o_nanos x =? 0) && (o_offset x =? 0).
