(* C01: an honest presentation over Model/Session.v — every message delivered once, in order,
   unmodified — for any number of rounds.  Executable definitions only. *)
From Isomdl Require Import Lib.Bytes Model.Iv Model.Session.
Open Scope N_scope.

Record round := {
  rn_req : N;                    (* the request the reader sends *)
  rn_docs : list pdoc;           (* documents the device prepares (prepared order) *)
  rn_errs : N;                   (* document errors of this round *)
  rn_sigs : list bytes           (* the holder's signatures, in the order they are asked for *)
}.

Definition submit_all (d : dev) (sigs : list bytes) : dev * list emission :=
  fold_left (fun acc sg => let '(d', em) := dev_submit (fst acc) sg in (d', snd acc ++ em)) sigs (d, []).

(* what each side observes in one honest round *)
Record round_obs := {
  ro_request : req_out;          (* device: outcome of handle_request *)
  ro_ready : bool;               (* device: response_ready after signing *)
  ro_response : resp_out         (* reader: outcome of handle_response *)
}.

Definition honest_round (s : sys) (r : round) : sys * round_obs * list emission :=
  let '(rd1, w, em1) := rdr_new_request (s_rdr s) (rn_req r) in
  let '(d1, rq, em2) := dev_handle_request (s_dev s) w in
  let '(d2, em3) := dev_prepare d1 (rn_docs r) (rn_errs r) in
  let '(d3, em4) := submit_all d2 (rn_sigs r) in
  let ready := dev_ready d3 in
  let '(d4, wr) := dev_retrieve d3 in
  let '(rd2, rs) := match wr with
                    | Some m => rdr_handle_response rd1 m
                    | None => (rd1, RsHolderError)
                    end in
  ({| s_dev := d4; s_rdr := rd2 |}, {| ro_request := rq; ro_ready := ready; ro_response := rs |}, em1 ++ em2 ++ em3 ++ em4).

Fixpoint honest_run (rounds : list round) (s : sys) : sys * list round_obs * list emission :=
  match rounds with
  | [] => (s, [], [])
  | r :: rest =>
    let '(s1, o, em) := honest_round s r in
    let '(s2, os, ems) := honest_run rest s1 in
    (s2, o :: os, em ++ ems)
  end.

(* the response the reader must see: documents signed from the END of the prepared list *)
Definition expected_response (r : round) : response :=
  {| rs_status := 0; rs_docs := combine (map fst (rev (rn_docs r))) (rn_sigs r); rs_doc_errors := rn_errs r |}.
