(* C09: the observation of a model Mdoc in the shape the specification (Spec/IssuanceSpec.v)
   talks about, and the specification's view of the model's inputs.  Definitions only. *)
From Isomdl Require Import Lib.Bytes Lib.Cbor Model.Cose Model.Issuance Spec.IssuanceSpec.
Open Scope N_scope.

Definition observe (m : mdoc) : issued :=
  {| o_doc_type := m_doc_type m;
     o_mso := encode (mso_cbor (m_mso m));
     o_namespaces := map (fun x => (fst x, map item_bytes (snd x))) (m_namespaces m);
     o_protected := c_protected (m_issuer_auth m);
     o_unprotected := c_unprotected (m_issuer_auth m);
     o_payload := c_payload (m_issuer_auth m);
     o_signature := c_sig (m_issuer_auth m) |}.

Definition request_of (q : request) (x5chain : cbor) : issue_request :=
  {| r_doc_type := q_doc_type q;
     r_namespaces := q_namespaces q;
     r_validity := q_validity q;
     r_alg := alg_name (q_alg q);
     r_device_key_info := q_device_key_info q;
     r_auth_namespaces := match q_auth q with Some a => ka_namespaces a | None => None end;
     r_auth_elements := match q_auth q with Some a => ka_elements a | None => None end;
     r_decoys := q_decoys q;
     r_sig_alg := q_sig_alg q;
     r_x5chain := x5chain |}.
