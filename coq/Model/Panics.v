(* C15: classification of every panic-capable site of the non-test library code (the inventory is
   regenerated from the source on every run into Gen/PanicSites.v).  A site is either
     Guarded      - preceded by a check that excludes the panicking case; the guard is modelled and
                    proved in the named property's model;
     ConstantArg  - its argument is a constant / own-construction for which the callee cannot fail;
     Invariant    - protected by a type invariant the library itself maintains (non-empty containers,
                    a state variant just matched);
     RoundTrip    - the in-code self-check that an emitted DeviceResponse round-trips (C16);
     Bounded      - needs 2^32 - 1 earlier messages in one session (the bound C07 / C15 exclude);
     DeadCode     - in a function nothing calls;
     CompileTime  - inside a procedural macro (runs in the compiler, not in the library). *)
From Isomdl Require Import Lib.Bytes.
Local Open Scope string_scope.

Inductive site_class := Guarded | ConstantArg | Invariant | RoundTrip | Bounded | DeadCode | CompileTime.

(* (file, enclosing item, kind) -> class, reason; all ordinals of that (item, kind) share the class *)
Definition classification : list (String.string * String.string * String.string * site_class * String.string) :=
  [ ("src/definitions/device_engagement.rs", "impl From<DeviceEngagement> for ciborium::Value::from", "unwrap", ConstantArg,
     "cbor::into_value of a u64 and of a Tag24 (a byte string): always serialisable");
    ("src/definitions/device_key/cose_key.rs", "impl TryFrom<CoseKey> for EncodedPoint::try_from", "from_slice", Guarded,
     "both coordinates are length-checked first (fix fe26af8); Model/KeySchedule.v encoded_point, C08_bad_key_refused");
    ("src/definitions/helpers/non_empty_vec.rs", "impl NonEmptyVec<T>::into", "unwrap", Invariant, "a NonEmptyVec maps to a non-empty Vec");
    ("src/definitions/helpers/non_empty_vec.rs", "impl NonEmptyVec<T>::try_into", "unwrap", Invariant, "a NonEmptyVec maps to a non-empty Vec");
    ("src/definitions/namespaces/org_iso_18013_5_1/tdate.rs", "impl FromJson for TDate::from_json", "index", ConstantArg, "full-range slice of a literal");
    ("src/definitions/namespaces/org_iso_18013_5_1/tdate.rs", "impl FromJson for TDate::from_json", "unwrap", ConstantArg, "replace_millisecond(0): 0 is a valid millisecond");
    ("src/definitions/session.rs", "get_shared_secret", "unwrap", Guarded, "CtOption::unwrap after the is_none() check just above");
    ("src/definitions/session.rs", "derive_session_key", "unwrap", ConstantArg, "HKDF expand to 32 bytes <= 255 * 32");
    ("src/definitions/session.rs", "get_initialization_vector", "arith_assign", Bounded, "u32 counter + 1 overflows only at 2^32 - 1");
    ("src/definitions/x509/x5chain.rs", "impl X5Chain::end_entity_certificate", "index", Invariant, "index 0 of a NonEmptyVec");
    ("src/presentation/authentication/mdoc.rs", "device_authentication", "from_slice", Guarded,
     "both coordinates are length-checked first (fix 0d4b321); Model/ReaderAuth.v device_authentication, C05_no_panic");
    ("src/presentation/device.rs", "impl SessionManagerEngaged::process_session_establishment", "from_slice", Guarded,
     "the stored ephemeral key is length-checked first");
    ("src/presentation/device.rs", "impl SessionManager::finalize_if_complete", "unwrap", RoundTrip, "decoding the DeviceResponse it has just encoded");
    ("src/presentation/device.rs", "impl SessionManager::finalize_if_complete", "assert", RoundTrip, "re-encoding reproduces the same bytes");
    ("src/presentation/device.rs", "impl SessionManager::finalize_if_complete", "unreachable", Invariant, "State::Signing has just been matched");
    ("src/presentation/device.rs", "impl SessionManager::retrieve_response", "unreachable", Invariant, "response_ready() has just been checked");
    ("src/presentation/device.rs", "impl From<Mdoc> for Document::from::extract", "unwrap", Invariant, "a NonEmptyVec yields a non-empty map");
    ("src/presentation/device.rs", "impl From<Mdoc> for Document::from", "unwrap", Invariant, "a NonEmptyMap yields a non-empty map");
    ("src/presentation/reader.rs", "_validate_request", "unwrap", DeadCode, "private function without callers");
    ("macros/src/from_json.rs", "named_fields", "unwrap", CompileTime, "derive macro");
    ("macros/src/to_cbor.rs", "named_fields", "unwrap", CompileTime, "derive macro") ].

Definition site_key (s : String.string * String.string * String.string * N) : String.string * String.string * String.string :=
  let '(f, i, k, _) := s in (f, i, k).

Definition classified (s : String.string * String.string * String.string * N) : bool :=
  let '(f, i, k) := site_key s in
  existsb (fun c => let '(f', i', k', _, _) := c in String.eqb f f' && String.eqb i i' && String.eqb k k') classification.

(* and nothing is classified that no longer exists (a stale entry would hide a moved site) *)
Definition still_present (sites : list (String.string * String.string * String.string * N))
           (c : String.string * String.string * String.string * site_class * String.string) : bool :=
  let '(f, i, k, _, _) := c in
  existsb (fun s => let '(f', i', k') := site_key s in String.eqb f f' && String.eqb i i' && String.eqb k k') sites.
