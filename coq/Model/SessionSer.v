(* C14: how the session objects are stringified (serde derive -> ciborium -> base64) and parsed
   back.  Components that have their own encodings (documents, transcript, trust anchors, the
   prepared / signed documents of a response under construction) are carried as opaque CBOR
   values: their round trips are the subject of C10 / C16.  Executable definitions only. *)
From Isomdl Require Import Lib.Bytes Lib.Cbor Lib.Base64.
Open Scope N_scope.
Local Open Scope string_scope.

Definition t (x : String.string) : cbor := CText (bytes_of_string x).

(* ---------- serde struct <-> CBOR map ---------- *)

(* all values stored under key k, in wire order *)
Fixpoint lookup_all (k : cbor) (kvs : list (cbor * cbor)) : list cbor :=
  match kvs with
  | [] => []
  | (k', v) :: r => if cbor_eqb k k' then v :: lookup_all k r else lookup_all k r
  end.

Inductive fres := FOne (v : cbor) | FMissing | FDuplicate.

Definition field (k : cbor) (kvs : list (cbor * cbor)) : fres :=
  match lookup_all k kvs with
  | [] => FMissing
  | [v] => FOne v
  | _ => FDuplicate
  end.

(* a mandatory field; unknown keys are ignored, a repeated field is an error *)
Definition req (k : cbor) (kvs : list (cbor * cbor)) : option cbor :=
  match field k kvs with FOne v => Some v | _ => None end.

(* Vec<u8> / [u8; N] without serde_bytes: an array of unsigned integers *)
Definition u8_array (b : bytes) : cbor := CArray (map CUInt b).
Fixpoint u8s_of (l : list cbor) : option bytes :=
  match l with
  | [] => Some []
  | CUInt n :: r => if n <? 256 then match u8s_of r with Some r' => Some (n :: r') | None => None end else None
  | _ => None
  end.
Definition of_u8_array (c : cbor) : option bytes :=
  match c with CArray l => u8s_of l | _ => None end.
Definition of_u8_array_n (n : nat) (c : cbor) : option bytes :=
  match of_u8_array c with Some b => if Nat.eqb (length b) n then Some b else None | None => None end.

Definition of_u32 (c : cbor) : option N :=
  match c with CUInt n => if n <? 4294967296 then Some n else None | _ => None end.

(* ---------- device::State ---------- *)

Record prepared_ser := {
  ps_prepared : list cbor;       (* Vec<PreparedDocument>, opaque elements *)
  ps_signed : list cbor;         (* Vec<DeviceResponseDoc>, opaque elements *)
  ps_doc_errors : cbor;          (* Option<DocumentErrors>: null or the value *)
  ps_status : N                  (* device_response::Status as its u64 code *)
}.

Inductive state_ser :=
| SAwaiting
| SSigning (p : prepared_ser)
| SReady (msg : bytes).

Definition status_ok_code (n : N) : bool := (n =? 0) || (n =? 10) || (n =? 11) || (n =? 12).

Definition prepared_to_cbor (p : prepared_ser) : cbor :=
  CMap [ (t "prepared_documents", CArray (ps_prepared p));
         (t "signed_documents", CArray (ps_signed p));
         (t "document_errors", ps_doc_errors p);
         (t "status", CUInt (ps_status p)) ].

Definition prepared_of_cbor (c : cbor) : option prepared_ser :=
  match c with
  | CMap kvs =>
    match req (t "prepared_documents") kvs, req (t "signed_documents") kvs, field (t "document_errors") kvs, req (t "status") kvs with
    | Some (CArray pd), Some (CArray sd), de, Some (CUInt st) =>
      if status_ok_code st then
        match de with
        | FOne v => Some {| ps_prepared := pd; ps_signed := sd; ps_doc_errors := v; ps_status := st |}
        | FMissing => Some {| ps_prepared := pd; ps_signed := sd; ps_doc_errors := CNull; ps_status := st |}
        | FDuplicate => None
        end
      else None
    | _, _, _, _ => None
    end
  | _ => None
  end.

(* externally tagged enum *)
Definition state_to_cbor (s : state_ser) : cbor :=
  match s with
  | SAwaiting => t "AwaitingRequest"
  | SSigning p => CMap [(t "Signing", prepared_to_cbor p)]
  | SReady m => CMap [(t "ReadyToRespond", u8_array m)]
  end.

Definition state_of_cbor (c : cbor) : option state_ser :=
  match c with
  | CText k => if bytes_eqb k (bytes_of_string "AwaitingRequest") then Some SAwaiting else None
  | CMap [(CText k, v)] =>
    if bytes_eqb k (bytes_of_string "Signing") then option_map SSigning (prepared_of_cbor v)
    else if bytes_eqb k (bytes_of_string "ReadyToRespond") then option_map SReady (of_u8_array v)
    else if bytes_eqb k (bytes_of_string "AwaitingRequest") then
      match v with CNull => Some SAwaiting | _ => None end
    else None
  | _ => None
  end.

(* ---------- device::SessionManager ---------- *)

Record dev_ser := {
  ds_documents : cbor;
  ds_transcript : cbor;
  ds_sk_device : bytes;
  ds_device_ctr : N;
  ds_sk_reader : bytes;
  ds_reader_ctr : N;
  ds_state : state_ser;
  ds_trusted : cbor;
  ds_auth_type : bool            (* DeviceAuthType: false = Sign1, true = Mac0 *)
}.

Definition auth_to_cbor (b : bool) : cbor := if b then t "Mac0" else t "Sign1".
Definition auth_of_cbor (c : cbor) : option bool :=
  match c with
  | CText k => if bytes_eqb k (bytes_of_string "Sign1") then Some false
               else if bytes_eqb k (bytes_of_string "Mac0") then Some true else None
  | _ => None
  end.

Definition dev_field_names : list String.string :=
  ["documents"; "session_transcript"; "sk_device"; "device_message_counter"; "sk_reader";
   "reader_message_counter"; "state"; "trusted_verifiers"; "device_auth_type"].

Definition dev_to_cbor (d : dev_ser) : cbor :=
  CMap [ (t "documents", ds_documents d);
         (t "session_transcript", ds_transcript d);
         (t "sk_device", u8_array (ds_sk_device d));
         (t "device_message_counter", CUInt (ds_device_ctr d));
         (t "sk_reader", u8_array (ds_sk_reader d));
         (t "reader_message_counter", CUInt (ds_reader_ctr d));
         (t "state", state_to_cbor (ds_state d));
         (t "trusted_verifiers", ds_trusted d);
         (t "device_auth_type", auth_to_cbor (ds_auth_type d)) ].

Definition obind {A B} (o : option A) (f : A -> option B) : option B :=
  match o with Some a => f a | None => None end.

Definition dev_of_cbor (c : cbor) : option dev_ser :=
  match c with
  | CMap kvs =>
    obind (req (t "documents") kvs) (fun docs =>
    obind (req (t "session_transcript") kvs) (fun tr =>
    obind (obind (req (t "sk_device") kvs) (of_u8_array_n 32)) (fun skd =>
    obind (obind (req (t "device_message_counter") kvs) of_u32) (fun dc =>
    obind (obind (req (t "sk_reader") kvs) (of_u8_array_n 32)) (fun skr =>
    obind (obind (req (t "reader_message_counter") kvs) of_u32) (fun rc =>
    obind (obind (req (t "state") kvs) state_of_cbor) (fun st =>
    obind (req (t "trusted_verifiers") kvs) (fun tv =>
    obind (obind (req (t "device_auth_type") kvs) auth_of_cbor) (fun au =>
    Some {| ds_documents := docs; ds_transcript := tr; ds_sk_device := skd; ds_device_ctr := dc;
            ds_sk_reader := skr; ds_reader_ctr := rc; ds_state := st; ds_trusted := tv; ds_auth_type := au |})))))))))
  | _ => None
  end.

(* ---------- reader::SessionManager ---------- *)

Record rdr_ser := {
  rs_transcript : cbor;
  rs_sk_device : bytes;
  rs_device_ctr : N;
  rs_sk_reader : bytes;
  rs_reader_ctr : N;
  rs_registry : cbor
}.

Definition rdr_field_names : list String.string :=
  ["session_transcript"; "sk_device"; "device_message_counter"; "sk_reader"; "reader_message_counter"; "trust_anchor_registry"].

Definition rdr_to_cbor (r : rdr_ser) : cbor :=
  CMap [ (t "session_transcript", rs_transcript r);
         (t "sk_device", u8_array (rs_sk_device r));
         (t "device_message_counter", CUInt (rs_device_ctr r));
         (t "sk_reader", u8_array (rs_sk_reader r));
         (t "reader_message_counter", CUInt (rs_reader_ctr r));
         (t "trust_anchor_registry", rs_registry r) ].

Definition rdr_of_cbor (c : cbor) : option rdr_ser :=
  match c with
  | CMap kvs =>
    obind (req (t "session_transcript") kvs) (fun tr =>
    obind (obind (req (t "sk_device") kvs) (of_u8_array_n 32)) (fun skd =>
    obind (obind (req (t "device_message_counter") kvs) of_u32) (fun dc =>
    obind (obind (req (t "sk_reader") kvs) (of_u8_array_n 32)) (fun skr =>
    obind (obind (req (t "reader_message_counter") kvs) of_u32) (fun rc =>
    obind (req (t "trust_anchor_registry") kvs) (fun reg =>
    Some {| rs_transcript := tr; rs_sk_device := skd; rs_device_ctr := dc; rs_sk_reader := skr;
            rs_reader_ctr := rc; rs_registry := reg |}))))))
  | _ => None
  end.

(* ---------- SessionManagerInit / SessionManagerEngaged ---------- *)

Record engaged_ser := {
  es_documents : cbor;
  es_e_device_key : bytes;       (* Vec<u8> *)
  es_engagement : cbor;          (* Tag24<DeviceEngagement> *)
  es_handover : option cbor      (* None: SessionManagerInit; Some: SessionManagerEngaged *)
}.

Definition init_field_names : list String.string := ["documents"; "e_device_key"; "device_engagement"].
Definition engaged_field_names : list String.string := ["documents"; "e_device_key"; "device_engagement"; "handover"].

Definition engaged_to_cbor (e : engaged_ser) : cbor :=
  CMap ([ (t "documents", es_documents e);
          (t "e_device_key", u8_array (es_e_device_key e));
          (t "device_engagement", es_engagement e) ]
        ++ match es_handover e with Some h => [(t "handover", h)] | None => [] end).

Definition engaged_of_cbor (with_handover : bool) (c : cbor) : option engaged_ser :=
  match c with
  | CMap kvs =>
    obind (req (t "documents") kvs) (fun docs =>
    obind (obind (req (t "e_device_key") kvs) of_u8_array) (fun k =>
    obind (req (t "device_engagement") kvs) (fun de =>
    if with_handover then
      obind (req (t "handover") kvs) (fun h =>
      Some {| es_documents := docs; es_e_device_key := k; es_engagement := de; es_handover := Some h |})
    else Some {| es_documents := docs; es_e_device_key := k; es_engagement := de; es_handover := None |})))
  | _ => None
  end.

(* ---------- Stringify ---------- *)

Definition stringify (c : cbor) : bytes := b64_encode (encode c).
Definition parse_with {A} (of : cbor -> option A) (s : bytes) : option A :=
  obind (b64_decode s) (fun data => obind (decode_first data) of).

Definition dev_stringify (d : dev_ser) : bytes := stringify (dev_to_cbor d).
Definition dev_parse (s : bytes) : option dev_ser := parse_with dev_of_cbor s.
Definition rdr_stringify (r : rdr_ser) : bytes := stringify (rdr_to_cbor r).
Definition rdr_parse (s : bytes) : option rdr_ser := parse_with rdr_of_cbor s.
Definition engaged_stringify (e : engaged_ser) : bytes := stringify (engaged_to_cbor e).
Definition engaged_parse (h : bool) (s : bytes) : option engaged_ser := parse_with (engaged_of_cbor h) s.
