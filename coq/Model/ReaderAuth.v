(* C03 / C04 / C05 (and the reader half of C01): what reader::SessionManager::handle_response does
   with a decrypted DeviceResponse — parse, device_authentication, x5chain validation,
   issuer_authentication, issuer data authentication — as decision logic over
     * the COSE model (Model/Cose.v) and the CBOR / SHA-2 libraries (computed by the model itself),
     * oracles for what third-party crates decide (DER parsing, chain validation = C12's rule,
       ECDSA verification, point validation).
   Executable definitions only. *)
From Isomdl Require Import Lib.Bytes Lib.Cbor Lib.Sha2 Model.Cose Model.KeySchedule.
Open Scope N_scope.
Local Open Scope string_scope.

Definition tx (x : String.string) : cbor := CText (bytes_of_string x).

Inductive status := Unchecked | Invalid | Valid.

(* ---------- the document as received ---------- *)

Inductive device_auth := DSignature (c : cose1) | DMac.

Record rdoc := {
  rd_doc_type : bytes;
  rd_issuer_auth : cose1;
  rd_namespaces : option (list (bytes * list bytes));   (* namespace -> IssuerSignedItemBytes (embedded bytes) *)
  rd_device_ns : bytes;                                 (* DeviceNameSpacesBytes (embedded bytes) *)
  rd_device_auth : device_auth
}.

(* ---------- MSO read from the issuerAuth payload ---------- *)

Definition mso_map (payload : bytes) : option (list (cbor * cbor)) :=
  match decode_first payload with
  | Some (CTag 24 (CBytes inner)) =>
    match decode_first inner with Some (CMap kvs) => Some kvs | _ => None end
  | _ => None
  end.

Inductive digest_alg := Sha256 | Sha384 | Sha512.
Definition digest_alg_of (c : cbor) : option digest_alg :=
  match c with
  | CText s => if bytes_eqb s (bytes_of_string "SHA-256") then Some Sha256
               else if bytes_eqb s (bytes_of_string "SHA-384") then Some Sha384
               else if bytes_eqb s (bytes_of_string "SHA-512") then Some Sha512 else None
  | _ => None
  end.
Definition digest (a : digest_alg) (b : bytes) : bytes :=
  match a with Sha256 => sha256 b | Sha384 => sha384 b | Sha512 => sha512 b end.

(* COSE_Key as definitions::device_key::CoseKey::try_from reads it *)
Definition cose_key_of_cbor (c : cbor) : option cose_key :=
  match c with
  | CMap kvs =>
    match map_get (CUInt 1) kvs, map_get (CNInt 0) kvs, map_get (CNInt 1) kvs with
    | Some (CUInt 2), Some (CUInt crv), Some (CBytes x) =>
      if (crv =? 1) || (crv =? 2) || (crv =? 3) || (crv =? 8) then
        match map_get (CNInt 2) kvs with
        | Some (CBytes y) => Some (EC2 crv x (YValue y))
        | Some (CBool s) => Some (EC2 crv x (YSign s))
        | _ => None
        end
      else None
    | Some (CUInt 1), Some (CUInt crv), Some (CBytes x) =>
      if (4 <=? crv) && (crv <=? 7) then Some (OKP crv x) else None
    | _, _, _ => None
    end
  | _ => None
  end.

(* a member of a serde struct as ciborium's struct visitor finds it: the member name written as a text string
   or as a BYTE string with the same bytes (ciborium accepts both for identifiers; a bit flip of an authentic
   MSO reaches the second form).  Both forms present at once is a duplicate-field error, i.e. e_mso_ok = false. *)
Definition struct_get (name : bytes) (m : list (cbor * cbor)) : option cbor :=
  match map_get (CText name) m with
  | Some v => Some v
  | None => map_get (CBytes name) m
  end.

Definition mso_device_key (mso : list (cbor * cbor)) : option cose_key :=
  match struct_get (bytes_of_string "deviceKeyInfo") mso with
  | Some (CMap dki) => match struct_get (bytes_of_string "deviceKey") dki with Some k => cose_key_of_cbor k | None => None end
  | _ => None
  end.

Definition mso_doc_type (mso : list (cbor * cbor)) : option bytes :=
  match map_get (tx "docType") mso with Some (CText s) => Some s | _ => None end.
Definition mso_digest_alg (mso : list (cbor * cbor)) : option digest_alg :=
  match map_get (tx "digestAlgorithm") mso with Some c => digest_alg_of c | None => None end.
Definition mso_digest (mso : list (cbor * cbor)) (ns : bytes) (id : cbor) : option bytes :=
  match map_get (tx "valueDigests") mso with
  | Some (CMap vd) =>
    match map_get (CText ns) vd with
    | Some (CMap ids) => match map_get id ids with Some (CBytes d) => Some d | _ => None end
    | _ => None
    end
  | _ => None
  end.

(* the fields of an IssuerSignedItem, from its embedded bytes *)
Definition item_map (item_bytes : bytes) : option (list (cbor * cbor)) :=
  match decode_first item_bytes with Some (CMap kvs) => Some kvs | _ => None end.
Definition item_digest_id (item_bytes : bytes) : option cbor :=
  match item_map item_bytes with Some kvs => map_get (tx "digestID") kvs | None => None end.
Definition item_identifier (item_bytes : bytes) : option bytes :=
  match item_map item_bytes with
  | Some kvs => match map_get (tx "elementIdentifier") kvs with Some (CText s) => Some s | _ => None end
  | None => None
  end.
Definition item_value (item_bytes : bytes) : option cbor :=
  match item_map item_bytes with Some kvs => map_get (tx "elementValue") kvs | None => None end.

(* ---------- oracles ---------- *)

Inductive x5 := X5Missing | X5Unparsable | X5Chain.

Record renv := {
  (* this reader's session transcript: exact engagement / reader-key bytes and the handover *)
  e_de : bytes;
  e_erk : bytes;
  e_handover : cbor;
  (* X5Chain::from_cbor on the unprotected header's label 33 *)
  e_x5 : x5;
  (* ValidationRuleset::Mdl.validate(x5chain, registry).errors is empty  (C12) *)
  e_chain_valid : bool;
  (* end_entity_public_key::<NistP256>() succeeds, and verification with that key *)
  e_leaf_key_ok : bool;
  e_issuer_verifier : verifier;
  (* isomdl's deserialisation of the payload as Tag24<Mso> succeeds *)
  e_mso_ok : bool;
  (* VerifyingKey::from_encoded_point on the MSO device key, and verification with that key *)
  e_device_point_ok : bool;
  e_device_verifier : verifier
}.

(* ---------- device authentication (authentication/mdoc.rs device_authentication) ---------- *)

Definition device_authentication_cbor (env : renv) (doc_type device_ns : bytes) : cbor :=
  CArray [tx "DeviceAuthentication"; transcript_cbor (e_de env) (e_erk env) (e_handover env);
          CText doc_type; tag24 device_ns].

(* DeviceAuthenticationBytes = #6.24(bstr .cbor DeviceAuthentication): the detached payload *)
Definition device_authentication_bytes (env : renv) (doc_type device_ns : bytes) : bytes :=
  encode (tag24 (encode (device_authentication_cbor env doc_type device_ns))).

Inductive da_res :=
| DaOk
| DaDetachedIssuerAuth
| DaMsoParsing
| DaKeyError                   (* device key cannot be used: compressed, OKP, not a point *)
| DaSignatureInvalid
| DaMacUnsupported
| DaPanic.

Definition device_authentication (env : renv) (d : rdoc) : da_res :=
  match c_payload (rd_issuer_auth d) with
  | None => DaDetachedIssuerAuth
  | Some payload =>
    if negb (e_mso_ok env) then DaMsoParsing else
    match mso_map payload with
    | None => DaMsoParsing
    | Some mso =>
      match mso_device_key mso with
      | None => DaMsoParsing
      | Some (EC2 _ x (YValue y)) =>
        (* the curve identifier is not consulted: coordinates are taken as a P-256 point *)
        if negb (Nat.eqb (length x) 32 && Nat.eqb (length y) 32) then DaKeyError else
        if negb (e_device_point_ok env) then DaKeyError else
        match rd_device_auth d with
        | DMac => DaMacUnsupported
        | DSignature c =>
          match verify ctx_sign1 (e_device_verifier env) c
                       (Some (device_authentication_bytes env (rd_doc_type d) (rd_device_ns d))) None with
          | VSuccess => DaOk
          | _ => DaSignatureInvalid
          end
        end
      | Some _ => DaKeyError
      end
    end
  end.

(* ---------- issuer authentication ---------- *)

Inductive ia_res :=
| IaOk
| IaKeyError
| IaSignatureInvalid
| IaDataMismatch.              (* issuer data authentication failed (digest / docType) *)

Definition issuer_signature (env : renv) (d : rdoc) : ia_res :=
  if negb (e_leaf_key_ok env) then IaKeyError else
  match verify ctx_sign1 (e_issuer_verifier env) (rd_issuer_auth d) None None with
  | VSuccess => IaOk
  | _ => IaSignatureInvalid
  end.

(* ISO 18013-5 9.1.2.4: every disclosed item's digest is in the MSO; MSO docType = document docType *)
Definition item_bound (mso : list (cbor * cbor)) (alg : digest_alg) (ns : bytes) (item_bytes : bytes) : bool :=
  match item_digest_id item_bytes with
  | Some id =>
    match mso_digest mso ns id with
    | Some d => bytes_eqb d (digest alg (tag24_wrap item_bytes))
    | None => false
    end
  | None => false
  end.

Definition data_bound (d : rdoc) : bool :=
  match c_payload (rd_issuer_auth d) with
  | None => false
  | Some payload =>
    match mso_map payload with
    | None => false
    | Some mso =>
      match mso_doc_type mso, mso_digest_alg mso with
      | Some dt, Some alg =>
        bytes_eqb dt (rd_doc_type d) &&
        match rd_namespaces d with
        | None => true
        | Some nss => forallb (fun ni => forallb (item_bound mso alg (fst ni)) (snd ni)) nss
        end
      | _, _ => false
      end
    end
  end.

Definition issuer_authentication (env : renv) (d : rdoc) : ia_res :=
  match issuer_signature env d with
  | IaOk => if e_mso_ok env && data_bound d then IaOk else IaDataMismatch
  | r => r
  end.

(* ---------- validate_response / handle_response after decryption ---------- *)

Inductive err_class := EParsing | ECertificate | EIssuerAuth | EDeviceAuth.

Record outcome := {
  o_issuer : status;
  o_device : status;
  o_errors : list err_class;
  o_reported : bool              (* a response map is reported *)
}.

(* parse(): document selection is done by the caller; here: x5chain extraction and namespaces *)
Definition namespaces_ok (d : rdoc) : bool :=
  match rd_namespaces d with
  | None => false
  | Some nss => existsb (fun ni => bytes_eqb (fst ni) (bytes_of_string "org.iso.18013.5.1")) nss
  end.

Definition validate_document (env : renv) (d : rdoc) : outcome :=
  match e_x5 env with
  | X5Missing | X5Unparsable =>
    {| o_issuer := Unchecked; o_device := Unchecked; o_errors := [EParsing]; o_reported := false |}
  | X5Chain =>
    if negb (namespaces_ok d) then
      {| o_issuer := Unchecked; o_device := Unchecked; o_errors := [EParsing]; o_reported := false |}
    else
      let da := device_authentication env d in
      let dev_status := match da with DaOk => Valid | _ => Invalid end in
      let dev_errs := match da with DaOk => [] | _ => [EDeviceAuth] end in
      if e_chain_valid env then
        match issuer_authentication env d with
        | IaOk => {| o_issuer := Valid; o_device := dev_status; o_errors := dev_errs; o_reported := true |}
        | _ => {| o_issuer := Invalid; o_device := dev_status; o_errors := dev_errs ++ [EIssuerAuth]; o_reported := true |}
        end
      else {| o_issuer := Invalid; o_device := dev_status; o_errors := dev_errs ++ [ECertificate]; o_reported := true |}
  end.

(* ---------- the whole response: which document ---------- *)

(* reader.rs get_document (the document that is authenticated) and parse_namespaces (the document whose
   elements are reported) each select `documents.iter().find(|doc| doc.doc_type == "org.iso.18013.5.1.mDL")`;
   the translator checks on every run that both still have exactly this shape (item reader_document_lookup) *)
Definition mdl_doc_type : bytes := bytes_of_string "org.iso.18013.5.1.mDL".
Definition select_document (docs : list rdoc) : option rdoc :=
  find (fun d => bytes_eqb (rd_doc_type d) mdl_doc_type) docs.
Definition authenticated_document (docs : list rdoc) : option rdoc := select_document docs.
Definition reported_document (docs : list rdoc) : option rdoc := select_document docs.
