(* C17: COSE_Sign1 / COSE_Mac0 as isomdl uses them (cose/sign1.rs, cose/mac0.rs over coset):
   to-be-signed structure, prepare / finalize, verification.  Executable definitions only. *)
From Isomdl Require Import Lib.Bytes Lib.Cbor Lib.Hmac.
Open Scope N_scope.
Local Open Scope string_scope.

(* RFC 8152 4.4 / 6.3 context strings as coset's SignatureContext::CoseSign1 / MacContext::CoseMac0 print them *)
Definition ctx_sign1 : bytes := bytes_of_string "Signature1".
Definition ctx_mac0 : bytes := bytes_of_string "MAC0".

(* sig_structure_data / mac_structure_data: [context, body_protected, external_aad, payload] *)
Definition tbs_structure (ctx protected aad payload : bytes) : bytes :=
  encode (CArray [CText ctx; CBytes protected; CBytes aad; CBytes payload]).

(* a COSE_Sign1 / COSE_Mac0 value; `protected` are the bytes that go into the bstr (the original
   bytes when decoded from the wire; [] for an empty header) *)
Record cose1 := {
  c_tagged : bool;
  c_protected : bytes;
  c_unprotected : list (cbor * cbor);
  c_payload : option bytes;
  c_sig : bytes                  (* signature, or tag for Mac0 *)
}.

(* the algorithm header parameter (label 1) of the protected bucket, as coset classifies it *)
Inductive alg_field :=
| AlgAbsent
| AlgInt (z : Z)               (* an integer: Assigned if IANA-registered, else private use *)
| AlgText (s : bytes)
| AlgUndecodable.              (* protected bytes are not a header map *)

Definition z_of_int_cbor (c : cbor) : option Z :=
  match c with
  | CUInt n => Some (Z.of_N n)
  | CNInt n => Some (- 1 - Z.of_N n)%Z
  | _ => None
  end.

Definition alg_of_protected (p : bytes) : alg_field :=
  match p with
  | [] => AlgAbsent
  | _ =>
    match decode_first p with
    | Some (CMap kvs) =>
      match map_get (CUInt 1) kvs with
      | None => AlgAbsent
      | Some (CText s) => AlgText s
      | Some c => match z_of_int_cbor c with Some z => AlgInt z | None => AlgUndecodable end
      end
    | _ => AlgUndecodable
    end
  end.

Inductive prep_err := DoublePayload | NoPayload.
Inductive pres (A : Type) := POk (a : A) | PErr (e : prep_err).
Arguments POk {A} a.
Arguments PErr {A} e.

(* payload selection shared by prepare and verify: exactly one of attached / detached *)
Definition select_payload (attached detached : option bytes) : pres bytes :=
  match attached, detached with
  | Some _, Some _ => PErr DoublePayload
  | None, None => PErr NoPayload
  | Some p, None => POk p
  | None, Some p => POk p
  end.

Definition aad_or_empty (aad : option bytes) : bytes := match aad with Some a => a | None => [] end.

(* PreparedCoseSign1::new / PreparedCoseMac0::new: the structure offered for remote signing *)
Definition prepare (ctx : bytes) (c : cose1) (detached aad : option bytes) : pres bytes :=
  match select_payload (c_payload c) detached with
  | PErr e => PErr e
  | POk p => POk (tbs_structure ctx (c_protected c) (aad_or_empty aad) p)
  end.

Definition finalize (c : cose1) (sg : bytes) : cose1 :=
  {| c_tagged := c_tagged c; c_protected := c_protected c; c_unprotected := c_unprotected c;
     c_payload := c_payload c; c_sig := sg |}.

(* ---------- verification ---------- *)

Inductive vres :=
| VSuccess
| VFailAlg                     (* Failure: algorithm mismatch *)
| VFailSig                     (* Failure: signature / tag not authentic *)
| VErrNoPayload
| VErrDoublePayload
| VErrMalformedSig.

(* the verifier: its algorithm identifier, how it parses signature bytes, and its check *)
Record verifier := {
  v_alg : Z;
  v_parse : bytes -> bool;                (* signature bytes have the verifier's format *)
  v_check : bytes -> bytes -> bool        (* check tbs signature_bytes *)
}.

(* the gate of sign1.rs / mac0.rs: any algorithm present in the protected bucket must be the
   verifier's IANA-assigned algorithm (coset: Assigned a; private-use integers and text
   identifiers are never equal to it) *)
Definition alg_gate (v : verifier) (a : alg_field) : bool :=
  match a with
  | AlgAbsent => true
  | AlgInt z => Z.eqb z (v_alg v)
  | AlgText _ => false
  | AlgUndecodable => true       (* cannot occur on a decoded COSE value; gate does not apply *)
  end.

Definition verify (ctx : bytes) (v : verifier) (c : cose1) (detached aad : option bytes) : vres :=
  if negb (alg_gate v (alg_of_protected (c_protected c))) then VFailAlg else
  match select_payload (c_payload c) detached with
  | PErr NoPayload => VErrNoPayload
  | PErr DoublePayload => VErrDoublePayload
  | POk p =>
    if negb (v_parse v (c_sig c)) then VErrMalformedSig else
    if v_check v (tbs_structure ctx (c_protected c) (aad_or_empty aad) p) (c_sig c) then VSuccess else VFailSig
  end.

(* HMAC-SHA-256 verifier for COSE_Mac0 (alg 5), computed by the model itself *)
Definition hmac_verifier (key : bytes) : verifier :=
  {| v_alg := 5; v_parse := fun _ => true; v_check := fun tbs tag => bytes_eqb (hmac_sha256 key tbs) tag |}.

(* ---------- wire form ---------- *)

Definition cose1_to_cbor (tag : N) (c : cose1) : cbor :=
  let body := CArray [CBytes (c_protected c); CMap (c_unprotected c);
                      match c_payload c with Some p => CBytes p | None => CNull end; CBytes (c_sig c)] in
  if c_tagged c then CTag tag body else body.

Definition cose1_of_cbor (tag : N) (v : cbor) : option cose1 :=
  let of_body (tagged : bool) (b : cbor) :=
      match b with
      | CArray [CBytes p; CMap u; pl; CBytes sg] =>
        match pl with
        | CBytes x => Some {| c_tagged := tagged; c_protected := p; c_unprotected := u; c_payload := Some x; c_sig := sg |}
        | CNull => Some {| c_tagged := tagged; c_protected := p; c_unprotected := u; c_payload := None; c_sig := sg |}
        | _ => None
        end
      | _ => None
      end in
  match v with
  | CTag t b => if t =? tag then of_body true b else None
  | b => of_body false b
  end.

Definition tag_sign1 : N := 18.
Definition tag_mac0 : N := 17.
