(* C11: device::SessionManager::{validate_request, reader_authentication} — when does the device report
   reader authentication Valid.  COSE / CBOR by the model; certificate decoding, chain validation
   (MdlReaderOneStep, C12's rule) and ECDSA are oracles attached to each document request.
   Executable definitions only. *)
From Isomdl Require Import Lib.Bytes Lib.Cbor Model.Cose Model.KeySchedule Model.ReaderAuth.
Open Scope N_scope.
Local Open Scope string_scope.

Record docreq := {
  dr_items : bytes;                 (* ItemsRequestBytes: the embedded bytes exactly as received *)
  dr_reader_auth : option cose1;
  (* oracles *)
  dr_x5 : x5;                       (* X5Chain::from_cbor on the unprotected header's label 33 *)
  dr_chain_valid : bool;            (* MdlReaderOneStep.validate(x5chain, trusted_verifiers) has no error *)
  dr_key_ok : bool;                 (* end_entity_public_key::<NistP256>() *)
  dr_verifier : verifier            (* verification under that key *)
}.

(* ReaderAuthentication = ["ReaderAuthentication", SessionTranscript, ItemsRequestBytes] *)
Definition reader_authentication_cbor (de erk : bytes) (ho : cbor) (items : bytes) : cbor :=
  CArray [tx "ReaderAuthentication"; transcript_cbor de erk ho; tag24 items].

(* ReaderAuthenticationBytes = #6.24(bstr .cbor ReaderAuthentication): the detached payload *)
Definition reader_authentication_bytes (de erk : bytes) (ho : cbor) (items : bytes) : bytes :=
  encode (tag24 (encode (reader_authentication_cbor de erk ho items))).

(* reader_authentication(doc_request).errors.is_empty() *)
Definition reader_auth_ok (de erk : bytes) (ho : cbor) (r : docreq) : bool :=
  match dr_reader_auth r with
  | None => false
  | Some c =>
    match dr_x5 r with
    | X5Chain =>
      dr_chain_valid r && dr_key_ok r &&
      match verify ctx_sign1 (dr_verifier r) c (Some (reader_authentication_bytes de erk ho (dr_items r))) None with
      | VSuccess => true
      | _ => false
      end
    | _ => false
    end
  end.

(* validate_request: Valid iff every document request of the message authenticates *)
Definition request_status (de erk : bytes) (ho : cbor) (reqs : list docreq) : status :=
  match reqs with
  | [] => Unchecked
  | _ => if forallb (reader_auth_ok de erk ho) reqs then Valid else Invalid
  end.
