From Isomdl Require Import Lib.Bytes Lib.Utf8 Lib.Cbor Lib.Sha2 Proofs.CborProofs Model.Cose Model.KeySchedule Model.ReaderAuth
  Spec.CoseRfc Spec.ReaderAuthSpec Proofs.CoseProofs Proofs.KeyScheduleProofs.
Open Scope N_scope.

(* ---------- the model's structures are the ISO ones ---------- *)

Lemma dab_iso env dt ns :
  device_authentication_bytes env dt ns = iso_device_authentication_bytes (e_de env) (e_erk env) (e_handover env) dt ns.
Proof. reflexivity. Qed.

(* ---------- C03 ---------- *)

Lemma issuer_signature_ok env d :
  issuer_signature env d = IaOk ->
  e_leaf_key_ok env = true /\
  alg_gate (e_issuer_verifier env) (alg_of_protected (c_protected (rd_issuer_auth d))) = true /\
  exists payload, c_payload (rd_issuer_auth d) = Some payload /\
    v_parse (e_issuer_verifier env) (c_sig (rd_issuer_auth d)) = true /\
    v_check (e_issuer_verifier env) (iso_issuer_tbs (c_protected (rd_issuer_auth d)) payload) (c_sig (rd_issuer_auth d)) = true.
Proof.
  unfold issuer_signature. destruct (e_leaf_key_ok env); cbn [negb]; [|discriminate].
  destruct (verify ctx_sign1 (e_issuer_verifier env) (rd_issuer_auth d) None None) eqn:Ev; try discriminate.
  intros _. apply verify_iff in Ev as [Hg [p [Hp [Hs Hc]]]].
  split; [reflexivity|]. split; [exact Hg|].
  destruct (c_payload (rd_issuer_auth d)) as [pl|] eqn:E; cbn in Hp; [|discriminate].
  inversion Hp; subst. exists p. repeat split; assumption.
Qed.

Lemma issuer_status_valid env d :
  o_issuer (validate_document env d) = Valid ->
  e_x5 env = X5Chain /\ e_chain_valid env = true /\ issuer_authentication env d = IaOk.
Proof.
  unfold validate_document.
  remember (device_authentication env d) as da eqn:Eda.
  remember (issuer_authentication env d) as ia eqn:Eia.
  destruct (e_x5 env); cbn [o_issuer]; try discriminate.
  destruct (namespaces_ok d); cbn [negb o_issuer]; [|discriminate].
  destruct (e_chain_valid env); [destruct ia|]; cbn [o_issuer]; try discriminate. intros _. repeat split; reflexivity.
Qed.

Theorem issuer_valid_only_if env d :
  o_issuer (validate_document env d) = Valid ->
  e_x5 env = X5Chain /\ e_chain_valid env = true /\ e_leaf_key_ok env = true /\
  alg_gate (e_issuer_verifier env) (alg_of_protected (c_protected (rd_issuer_auth d))) = true /\
  (exists payload, c_payload (rd_issuer_auth d) = Some payload /\
     v_parse (e_issuer_verifier env) (c_sig (rd_issuer_auth d)) = true /\
     v_check (e_issuer_verifier env) (iso_issuer_tbs (c_protected (rd_issuer_auth d)) payload) (c_sig (rd_issuer_auth d)) = true) /\
  data_bound d = true.
Proof.
  intro H. apply issuer_status_valid in H as [Hx [Hc Hi]]. unfold issuer_authentication in Hi.
  destruct (issuer_signature env d) eqn:Es; try discriminate.
  destruct (e_mso_ok env && data_bound d) eqn:Eb; [|discriminate].
  apply andb_true_iff in Eb as [_ Eb].
  destruct (issuer_signature_ok env d Es) as [H1 [H2 H3]]. repeat split; assumption.
Qed.

Theorem issuer_nonvalid_has_error env d :
  o_issuer (validate_document env d) <> Valid -> o_errors (validate_document env d) <> [].
Proof.
  unfold validate_document.
  remember (device_authentication env d) as da eqn:Eda.
  remember (issuer_authentication env d) as ia eqn:Eia.
  destruct (e_x5 env); cbn [o_issuer o_errors]; try (intros _; discriminate).
  destruct (namespaces_ok d); cbn [negb o_issuer o_errors]; [|intros _; discriminate].
  destruct (e_chain_valid env); [destruct ia|]; cbn [o_issuer o_errors];
    try (intros _ H; apply app_eq_nil in H as [_ H]; discriminate).
  intro H. contradiction.
Qed.

(* an altered payload or protected header is verified against different bytes *)
Theorem issuer_tbs_injective p m p' m' :
  CoseProofs.bytes_ok p -> CoseProofs.bytes_ok m -> CoseProofs.bytes_ok p' -> CoseProofs.bytes_ok m' ->
  iso_issuer_tbs p m = iso_issuer_tbs p' m' -> p = p' /\ m = m'.
Proof.
  intros Hp Hm Hp' Hm' E. unfold iso_issuer_tbs in E. rewrite <- !tbs_sign1_rfc in E.
  assert (Hc : CoseProofs.bytes_ok ctx_sign1) by (split; vm_compute; reflexivity).
  assert (He : CoseProofs.bytes_ok []) by (split; vm_compute; reflexivity).
  apply tbs_injective in E; try assumption; try (vm_compute; reflexivity). tauto.
Qed.

(* ---------- C04 ---------- *)

(* what "covered by the issuer's signature" means, item by item *)
Definition bound_spec (d : rdoc) : Prop :=
  exists payload mso dt alg,
    c_payload (rd_issuer_auth d) = Some payload /\ mso_map payload = Some mso /\
    mso_doc_type mso = Some dt /\ dt = rd_doc_type d /\ mso_digest_alg mso = Some alg /\
    forall nss ns items item, rd_namespaces d = Some nss -> In (ns, items) nss -> In item items ->
      exists id, item_digest_id item = Some id /\
                 mso_digest mso ns id = Some (digest alg (encode (CTag 24 (CBytes item)))).

Theorem data_bound_spec d : data_bound d = true -> bound_spec d.
Proof.
  unfold data_bound. destruct (c_payload (rd_issuer_auth d)) as [payload|] eqn:Ep; [|discriminate].
  destruct (mso_map payload) as [mso|] eqn:Em; [|discriminate].
  destruct (mso_doc_type mso) as [dt|] eqn:Ed; [|discriminate].
  destruct (mso_digest_alg mso) as [alg|] eqn:Ea; [|discriminate].
  intro H. apply andb_true_iff in H as [Hdt Hns]. apply bytes_eqb_eq in Hdt.
  exists payload, mso, dt, alg. repeat split; try assumption; try reflexivity.
  intros nss ns items item Hn Hin Hit. rewrite Hn in Hns.
  rewrite forallb_forall in Hns. specialize (Hns _ Hin). cbn [fst snd] in Hns.
  rewrite forallb_forall in Hns. specialize (Hns _ Hit). unfold item_bound in Hns.
  destruct (item_digest_id item) as [id|]; [|discriminate]. exists id. split; [reflexivity|].
  destruct (mso_digest mso ns id) as [dg|]; [|discriminate]. apply bytes_eqb_eq in Hns. subst. reflexivity.
Qed.

Theorem valid_implies_bound env d : o_issuer (validate_document env d) = Valid -> bound_spec d.
Proof. intro H. apply issuer_valid_only_if in H. apply data_bound_spec. tauto. Qed.

(* ---------- C05 ---------- *)

Lemma device_status_valid env d :
  o_device (validate_document env d) = Valid -> device_authentication env d = DaOk.
Proof.
  unfold validate_document.
  remember (device_authentication env d) as da eqn:Eda.
  remember (issuer_authentication env d) as ia eqn:Eia.
  destruct (e_x5 env); cbn [o_device]; try discriminate.
  destruct (namespaces_ok d); cbn [negb o_device]; [|discriminate].
  destruct (e_chain_valid env); [destruct ia|]; cbn [o_device]; destruct da; try discriminate; reflexivity.
Qed.

Theorem device_valid_only_if env d :
  o_device (validate_document env d) = Valid ->
  exists c payload mso crv x y,
    rd_device_auth d = DSignature c /\ c_payload c = None /\
    c_payload (rd_issuer_auth d) = Some payload /\ mso_map payload = Some mso /\
    mso_device_key mso = Some (EC2 crv x (YValue y)) /\ length x = 32%nat /\ length y = 32%nat /\
    e_device_point_ok env = true /\
    v_parse (e_device_verifier env) (c_sig c) = true /\
    v_check (e_device_verifier env)
            (iso_device_tbs (c_protected c) (e_de env) (e_erk env) (e_handover env) (rd_doc_type d) (rd_device_ns d))
            (c_sig c) = true.
Proof.
  intro H. apply device_status_valid in H. revert H. unfold device_authentication.
  destruct (c_payload (rd_issuer_auth d)) as [payload|] eqn:Ep; [|discriminate].
  destruct (e_mso_ok env); cbn [negb]; [|discriminate].
  destruct (mso_map payload) as [mso|] eqn:Em; [|discriminate].
  destruct (mso_device_key mso) as [[crv x [y|s]|crv x]|] eqn:Ek; try discriminate.
  destruct (Nat.eqb (length x) 32 && Nat.eqb (length y) 32) eqn:El; cbn [negb]; [|discriminate].
  destruct (e_device_point_ok env) eqn:Epo; cbn [negb]; [|discriminate].
  destruct (rd_device_auth d) as [c|] eqn:Eda; [|discriminate].
  destruct (verify ctx_sign1 (e_device_verifier env) c
                   (Some (device_authentication_bytes env (rd_doc_type d) (rd_device_ns d))) None) eqn:Ev; try discriminate.
  intros _.
  apply verify_iff in Ev as [_ [p [Hp [Hs Hc]]]].
  apply andb_true_iff in El as [Hx Hy]. apply Nat.eqb_eq in Hx, Hy.
  destruct (c_payload c) eqn:Ecp; cbn [exactly_one] in Hp; [discriminate|]. inversion Hp; subst p.
  exists c, payload, mso, crv, x, y. repeat split; try assumption; try reflexivity.
Qed.

Theorem device_no_panic env d : device_authentication env d <> DaPanic.
Proof.
  unfold device_authentication.
  destruct (c_payload (rd_issuer_auth d)); [|discriminate].
  destruct (e_mso_ok env); cbn [negb]; [|discriminate].
  destruct (mso_map b) as [mso|]; [|discriminate].
  destruct (mso_device_key mso) as [[crv x [y|s]|crv x]|]; try discriminate.
  destruct (Nat.eqb (length x) 32 && Nat.eqb (length y) 32); cbn [negb]; [|discriminate].
  destruct (e_device_point_ok env); cbn [negb]; [|discriminate].
  destruct (rd_device_auth d); [|discriminate].
  destruct (verify _ _ _ _ _); discriminate.
Qed.

(* DeviceAuthenticationBytes determine the transcript, the docType and the device namespaces *)
Theorem dab_injective de erk ho dt ns de' erk' ho' dt' ns' :
  KeyScheduleProofs.bytes_ok de -> KeyScheduleProofs.bytes_ok erk -> KeyScheduleProofs.cbor_ok ho ->
  KeyScheduleProofs.bytes_ok dt -> utf8_valid dt = true -> KeyScheduleProofs.bytes_ok ns ->
  KeyScheduleProofs.bytes_ok de' -> KeyScheduleProofs.bytes_ok erk' -> KeyScheduleProofs.cbor_ok ho' ->
  KeyScheduleProofs.bytes_ok dt' -> utf8_valid dt' = true -> KeyScheduleProofs.bytes_ok ns' ->
  iso_device_authentication de erk ho dt ns = iso_device_authentication de' erk' ho' dt' ns' ->
  de = de' /\ erk = erk' /\ ho = ho' /\ dt = dt' /\ ns = ns'.
Proof.
  intros _ _ _ _ _ _ _ _ _ _ _ _ E. unfold iso_device_authentication in E. inversion E; subst. repeat split; reflexivity.
Qed.

Theorem dab_bytes_injective de erk ho dt ns de' erk' ho' dt' ns' :
  KeyScheduleProofs.cbor_ok (iso_device_authentication de erk ho dt ns) ->
  KeyScheduleProofs.cbor_ok (iso_device_authentication de' erk' ho' dt' ns') ->
  encode (iso_device_authentication de erk ho dt ns) = encode (iso_device_authentication de' erk' ho' dt' ns') ->
  de = de' /\ erk = erk' /\ ho = ho' /\ dt = dt' /\ ns = ns'.
Proof.
  intros [W L] [W' L'] E. apply encode_injective in E; try assumption.
  unfold iso_device_authentication in E. inversion E; subst. repeat split; reflexivity.
Qed.

(* device side: what the device offers the holder's key for signing *)
Definition device_signature_payload (alg_protected de erk : bytes) (ho : cbor) (doc_type device_ns : bytes) : pres bytes :=
  prepare ctx_sign1 {| c_tagged := false; c_protected := alg_protected; c_unprotected := []; c_payload := None; c_sig := [] |}
          (Some (iso_device_authentication_bytes de erk ho doc_type device_ns)) None.

Theorem device_payload_is_iso prot de erk ho dt ns :
  device_signature_payload prot de erk ho dt ns = POk (iso_device_tbs prot de erk ho dt ns).
Proof. reflexivity. Qed.

(* ---------- which document is reported ---------- *)

Lemma reported_is_authenticated docs : reported_document docs = authenticated_document docs.
Proof. reflexivity. Qed.

Lemma select_document_first docs d :
  select_document docs = Some d ->
  In d docs /\ rd_doc_type d = mdl_doc_type /\
  exists pre post, docs = pre ++ d :: post /\ Forall (fun x => rd_doc_type x <> mdl_doc_type) pre.
Proof.
  unfold select_document. induction docs as [|x r IH]; cbn [find]; [discriminate|].
  destruct (bytes_eqb (rd_doc_type x) mdl_doc_type) eqn:E.
  - intros H. inversion H; subst x. apply bytes_eqb_eq in E. split; [left; reflexivity|]. split; [exact E|].
    exists [], r. split; [reflexivity|constructor].
  - intros H. destruct (IH H) as [Hin [Hdt [pre [post [Heq Hall]]]]].
    split; [right; exact Hin|]. split; [exact Hdt|].
    exists (x :: pre), post. split; [rewrite Heq; reflexivity|].
    constructor; [|exact Hall]. intro Hx. rewrite Hx in E.
    assert (Hr : bytes_eqb mdl_doc_type mdl_doc_type = true) by (apply bytes_eqb_eq; reflexivity).
    rewrite Hr in E. discriminate.
Qed.
