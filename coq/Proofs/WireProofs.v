(* Round trips of the wire types of Model/Wire (C16).  Everything is stated for an arbitrary
   [tables] satisfying [tables_ok] (decidable facts about the code tables, proved for the tables
   generated from the source) and, where COSE structures are embedded, for arbitrary codecs of the
   COSE component that round-trip on their own domain. *)
From Isomdl Require Import Lib.Bytes Lib.Utf8 Lib.Cbor Lib.Serde Proofs.CborProofs Proofs.SerdeProofs
  Model.Wire.Time Proofs.TimeProofs Model.Wire.Tables Model.Wire.CoseKey Model.Wire.Engagement Model.Wire.Session
  Model.Wire.Cose Model.Wire.Request Model.Wire.Mso Model.Wire.Signed Model.Wire.Response.
From Coq Require Import ZArith String Lia.
Open Scope N_scope.

(* ---------- facts about the tables ---------- *)

Record tables_ok (tb : tables) : Prop := {
  tk_session : forall s, session_status_of_code tb (session_status_code tb s) = Some s /\ session_status_code tb s < two64;
  tk_response : forall s, response_status_of_code tb (response_status_code tb s) = Some s /\ response_status_code tb s < two64;
  tk_doc_error : doc_error_of_i128 tb (doc_error_to_i128 tb DataNotReturned) = Some DataNotReturned
                 /\ (0 <= doc_error_to_i128 tb DataNotReturned < two127z)%Z
                 /\ forallb (fun r => (0 <=? fst r)%Z) (tb_doc_error_of tb) = true;
  tk_ec2 : forall c, ec2_of_code tb (ec2_code tb c) = Some c /\ (- two64z <= ec2_code tb c < two64z)%Z;
  tk_okp : forall c, okp_of_code tb (okp_code tb c) = Some c /\ (- two64z <= okp_code tb c < two64z)%Z;
  tk_digest : forall a, digest_alg_of_wire tb (digest_alg_wire tb a) = Some a /\ name_ok (digest_alg_wire tb a) = true;
  tk_transport : forall t, transport_of_code tb (transport_code tb t) (tb_transport_version tb) = Some t
                           /\ (- two64z <= transport_code tb t < two64z)%Z;
  tk_transport_version : (- two64z <= tb_transport_version tb < two64z)%Z;
  tk_ec2_jwk : forall c, jwk_lookup ec2_curve_name all_ec2 (ec2_jwk_name tb c) (tb_ec2_jwk_of tb) = Some c;
  tk_okp_jwk : forall c, jwk_lookup okp_curve_name all_okp (okp_jwk_name tb c) (tb_okp_jwk_of tb) = Some c;
  tk_device_auth : name_ok (auth_name tb "DeviceSignature") = true /\ name_ok (auth_name tb "DeviceMac") = true
                   /\ bytes_eqb (auth_name tb "DeviceMac") (auth_name tb "DeviceSignature") = false;
  tk_handover : tb_handover_order tb = ["QR"; "NFC"; "OID4VP"]%string;
  tk_nfc : (0 <= tb_nfc_command_min tb)%Z /\ (tb_nfc_command_max tb <= 65535)%Z
           /\ (0 <= tb_nfc_response_min tb)%Z /\ (tb_nfc_response_max tb < 4294967296)%Z;
  tk_version : name_ok (version_bytes tb) = true
}.

Theorem gen_tables_ok : tables_ok gen_tables.
Proof.
  split; try (intros []; vm_compute; repeat split; (reflexivity || discriminate));
    vm_compute; repeat split; try reflexivity; try discriminate.
Qed.

(* ---------- small tactics ---------- *)

Ltac ok_struct_tac :=
  eapply ok_weaken;
  [ apply ok_iso;
    [ apply ok_struct; [ | vm_compute; reflexivity | vm_compute; reflexivity ]
    | intros []; reflexivity ]
  | ].

Lemma two64_le : two64 <= two64. Proof. lia. Qed.

Ltac conjs := repeat match goal with |- _ /\ _ => split | |- True => exact I end.

(* replace [int_to_cbor z] by a constructor-headed value so that the integer-keyed maps compute *)
Ltac abstract_int z :=
  let H := fresh "Hc" in
  pose proof (int_rt z) as H; destruct (int_to_cbor z); try discriminate H;
  cbn [int_of_cbor] in H; injection H as H.

Section Wire.
  Variable tb : tables.
  Hypothesis Htb : tables_ok tb.

  (* ---------- enumerations ---------- *)

  Lemma ok_session_status : codec_ok any_P (c_session_status tb).
  Proof. apply ok_code_enum; intro s; apply (tk_session tb Htb s). Qed.

  Lemma ok_response_status : codec_ok any_P (c_response_status tb).
  Proof. apply ok_code_enum; intro s; apply (tk_response tb Htb s). Qed.

  Lemma ok_digest_alg : codec_ok any_P (c_digest_alg tb).
  Proof.
    split; intros a _; cbn [c_digest_alg enc dec untag wf].
    - apply (tk_digest tb Htb a).
    - destruct (tk_digest tb Htb a) as [_ H]. unfold name_ok in H. exact H.
  Qed.

  Lemma z_assoc_neg z (l : list (Z * string)) :
    forallb (fun r => (0 <=? fst r)%Z) l = true -> (z < 0)%Z -> z_assoc z l = None.
  Proof.
    induction l as [|[k v] r IH]; cbn [forallb z_assoc fst]; intros H Hz; [reflexivity|].
    apply andb_true_iff in H as [H1 H2]. apply Z.leb_le in H1.
    replace (z =? k)%Z with false by (symmetry; apply Z.eqb_neq; lia). apply IH; assumption.
  Qed.

  Lemma ok_doc_error_code : codec_ok doc_error_code_wf (c_doc_error_code tb).
  Proof.
    destruct (tk_doc_error tb Htb) as (H0 & Hr & Hrows). destruct ok_i128 as [Hrt Hwf].
    unfold int_P, two127z in *. cbn [c_i128 enc dec] in Hrt, Hwf.
    split; intros c Hc; cbn [c_doc_error_code enc dec].
    - destruct c as [|z]; cbn [doc_error_code_wf] in Hc.
      + rewrite Hrt by lia. cbn [obind]. exact H0.
      + cbn [doc_error_to_i128]. rewrite Hrt by (unfold two127z in Hc; lia). cbn [obind].
        unfold doc_error_of_i128. rewrite z_assoc_neg by (assumption || lia).
        replace (z <? 0)%Z with true by (symmetry; apply Z.ltb_lt; lia). reflexivity.
    - destruct c as [|z]; cbn [doc_error_code_wf] in Hc; apply Hwf; [lia|cbn [doc_error_to_i128]; unfold two127z in *; lia].
  Qed.

  (* ---------- CoseKey ---------- *)

  Lemma ok_cose_key : codec_ok cose_key_wf (c_cose_key tb).
  Proof.
    split; intros k Hk; cbn [c_cose_key enc dec].
    - destruct k as [crv x y|crv x]; unfold cose_key_to_cbor, cose_key_of_cbor.
      + destruct (tk_ec2 tb Htb crv) as [E _]. abstract_int (ec2_code tb crv); cbn; rewrite Hc, E; destruct y; reflexivity.
      + destruct (tk_okp tb Htb crv) as [E _]. abstract_int (okp_code tb crv); cbn; rewrite Hc, E; reflexivity.
    - destruct k as [crv x y|crv x]; cbn [cose_key_to_cbor wf forallb cose_key_wf] in *.
      + destruct (tk_ec2 tb Htb crv) as [_ R]. rewrite int_wf by exact R.
        destruct y; cbn [y_to_cbor wf] in *; [destruct Hk as [-> ->]|rewrite Hk]; reflexivity.
      + destruct (tk_okp tb Htb crv) as [_ R]. rewrite int_wf by exact R. rewrite Hk. reflexivity.
  Qed.
  (* ---------- device engagement ---------- *)

  Lemma ble_rt o : ble_wf o -> ble_of_cbor (ble_to_cbor o) = Some o.
  Proof.
    destruct o as [[[pu [pa|]]|] [cu|]]; unfold ble_wf, opt_P; cbn [ble_peripheral ble_central fst snd];
      intros H; unfold ble_to_cbor, ble_of_cbor, uuid_ok; cbn;
      repeat match goal with H : _ /\ _ |- _ => destruct H end;
      repeat match goal with H : List.length _ = 16%nat |- _ => rewrite H; clear H end; reflexivity.
  Qed.

  Lemma ble_enc_wf o : ble_wf o -> wf (ble_to_cbor o) = true.
  Proof.
    destruct o as [[[pu [pa|]]|] [cu|]]; unfold ble_wf, opt_P, bytes_ok; cbn [ble_peripheral ble_central fst snd];
      intros H; cbn;
      repeat match goal with H : _ /\ _ |- _ => destruct H end;
      repeat match goal with H : wf_bytes _ = true |- _ => rewrite H; clear H end; reflexivity.
  Qed.

  Lemma wifi_rt o : wifi_of_cbor (wifi_to_cbor o) = Some o.
  Proof. destruct o as [[p|] [c|] [n|] [b|]]; reflexivity. Qed.

  Lemma wifi_enc_wf o : wifi_wf o -> wf (wifi_to_cbor o) = true.
  Proof.
    destruct o as [[p|] [c|] [n|] [b|]]; unfold wifi_wf, opt_P, bytes_ok, text_ok, uint_P;
      cbn [wifi_pass_phrase wifi_operating_class wifi_channel_number wifi_band_info]; intros H; cbn;
      repeat match goal with H : _ /\ _ |- _ => destruct H end;
      repeat match goal with
             | H : wf_bytes _ = true |- _ => rewrite H; clear H
             | H : utf8_valid _ = true |- _ => rewrite H; clear H
             | H : _ < two64 |- _ => apply N.ltb_lt in H; rewrite H; clear H
             end; reflexivity.
  Qed.

  Lemma nfc_rt o : nfc_wf tb o -> nfc_of_cbor tb (nfc_to_cbor o) = Some o.
  Proof.
    destruct (tk_nfc tb Htb) as (A & B & C & D).
    destruct o as [c r]. unfold nfc_wf. cbn [nfc_max_command nfc_max_response]. intros [[H1 H2] [H3 H4]].
    unfold nfc_to_cbor, nfc_of_cbor. cbn.
    replace (Z.of_N c <? 65536)%Z with true by (symmetry; apply Z.ltb_lt; lia).
    replace (tb_nfc_command_min tb <=? Z.of_N c)%Z with true by (symmetry; apply Z.leb_le; lia).
    replace (Z.of_N r <? 4294967296)%Z with true by (symmetry; apply Z.ltb_lt; lia).
    replace (tb_nfc_response_min tb <=? Z.of_N r)%Z with true by (symmetry; apply Z.leb_le; lia).
    replace (Z.of_N r <=? tb_nfc_response_max tb)%Z with true by (symmetry; apply Z.leb_le; lia).
    reflexivity.
  Qed.

  Lemma nfc_enc_wf o : nfc_wf tb o -> wf (nfc_to_cbor o) = true.
  Proof.
    destruct (tk_nfc tb Htb) as (A & B & C & D).
    destruct o as [c r]. unfold nfc_wf. cbn [nfc_max_command nfc_max_response]. intros [[H1 H2] [H3 H4]].
    cbn. replace (c <? two64) with true by (symmetry; apply N.ltb_lt; unfold two64; lia).
    replace (r <? two64) with true by (symmetry; apply N.ltb_lt; unfold two64; lia). reflexivity.
  Qed.

  Lemma ok_method : codec_ok (method_wf tb) (c_method tb).
  Proof.
    split; intros m Hm; cbn [c_method enc dec]; unfold method_to_cbor, method_of_cbor.
    - destruct (tk_transport tb Htb (method_transport m)) as [E _].
      rewrite !int_rt. cbn [obind]. rewrite E. cbn [obind].
      destruct m as [o|o|o]; cbn [method_transport method_wf] in *.
      + rewrite wifi_rt. reflexivity.
      + rewrite ble_rt by exact Hm. reflexivity.
      + rewrite nfc_rt by exact Hm. reflexivity.
    - destruct (tk_transport tb Htb (method_transport m)) as [_ R].
      cbn [wf forallb]. rewrite (int_wf _ R), (int_wf _ (tk_transport_version tb Htb)).
      destruct m as [o|o|o]; cbn [method_wf] in Hm;
        [rewrite wifi_enc_wf|rewrite ble_enc_wf|rewrite nfc_enc_wf]; auto.
  Qed.

  Lemma ok_token : codec_ok token_P c_token.
  Proof. apply ok_tuple3; [apply ok_uint_v, two64_le|apply ok_text|apply ok_text]. Qed.

  Lemma ok_server : codec_ok server_wf (c_server).
  Proof.
    unfold c_server. ok_struct_tac.
    - cbn [fields_good server_fields]. conjs; try apply ok_token; apply nn_tuple3.
    - intros [w o] [H1 H2]. cbn [fields_P server_fields server_tuple fst snd srm_web_api srm_oidc] in *. tauto.
  Qed.

  Lemma ok_security : codec_ok (security_wf tb) (c_security tb).
  Proof.
    unfold c_security. eapply ok_weaken.
    - apply ok_iso; [apply ok_tuple2; [apply ok_uint_v, two64_le|apply ok_tag24]|intros []; reflexivity].
    - intros [s k] H. exact H.
  Qed.

  Lemma opt_dec_enc {T} (P : T -> Prop) (c : codec T) (o : option T) :
    codec_ok P c -> opt_P P o -> opt_dec c (option_map (enc c) o) = Some o.
  Proof. intros [Hrt _] Ho. destruct o as [x|]; cbn [option_map opt_dec opt_P] in *; [rewrite Hrt by exact Ho|]; reflexivity. Qed.

  Lemma ok_engagement : codec_ok (engagement_wf tb) (c_engagement tb).
  Proof.
    pose proof (ok_nelist _ _ ok_method) as [Hm Wm]. destruct ok_server as [Hs Ws]. destruct ok_security as [Hsec Wsec].
    split; intros e (Hv & Hsc & Hme & Hsv & Hpi); destruct e as [ver sec ms sv pi];
      cbn [de_version de_security de_methods de_server de_protocol_info] in *; subst ver;
      cbn [c_engagement enc dec]; unfold engagement_to_cbor, engagement_of_cbor;
      cbn [de_version de_security de_methods de_server de_protocol_info].
    - specialize (Hsec sec Hsc).
      destruct ms as [l|]; destruct sv as [s|]; destruct pi as [p|]; cbn [option_map opt_entry app opt_P] in *; cbn;
        rewrite bytes_eqb_refl; cbn in Hsec |- *; rewrite Hsec; cbn;
        try (cbn in Hm; rewrite (Hm l Hme)); try (cbn in Hs; rewrite (Hs s Hsv)); reflexivity.
    - specialize (Wsec sec Hsc). pose proof (tk_version tb Htb) as Hn. unfold name_ok in Hn.
      destruct ms as [l|]; destruct sv as [s|]; destruct pi as [p|]; cbn [option_map opt_entry app opt_P wf forallb] in *;
        rewrite Hn, Wsec; try rewrite (Wm l Hme); try rewrite (Ws s Hsv); try (unfold value_ok in Hpi; rewrite Hpi); reflexivity.
  Qed.

  (* ---------- session ---------- *)

  Lemma ok_handover : codec_ok handover_wf (c_handover tb).
  Proof.
    split; intros h Hh; cbn [c_handover enc dec].
    - unfold handover_of_cbor; rewrite (tk_handover tb Htb). destruct h as [|s [r|]|a b]; reflexivity.
    - destruct h as [|s [r|]|a b]; unfold handover_wf, opt_P, bytes_ok, text_ok in Hh; cbn;
        repeat match goal with H : _ /\ _ |- _ => destruct H end;
        repeat match goal with
               | H : wf_bytes _ = true |- _ => rewrite H; clear H
               | H : utf8_valid _ = true |- _ => rewrite H; clear H
               end; reflexivity.
  Qed.

  Lemma ok_session_establishment : codec_ok (session_establishment_wf tb) (c_session_establishment tb).
  Proof.
    unfold c_session_establishment. ok_struct_tac.
    - cbn [fields_good se_fields]. conjs; [apply ok_tag24|apply ok_bytestr].
    - intros [k d] [H1 H2]. cbn [fields_P se_fields se_tuple fst snd se_reader_key se_data] in *. tauto.
  Qed.

  Lemma ok_session_data : codec_ok session_data_wf (c_session_data tb).
  Proof.
    unfold c_session_data. ok_struct_tac.
    - cbn [fields_good sd_fields]. conjs; [apply ok_bytestr|apply nn_bytestr|apply ok_session_status|apply nn_code_enum].
    - intros [d st] H. unfold session_data_wf in H.
      cbn [fields_P sd_fields sd_tuple fst snd sd_data sd_status] in *. repeat split; [exact H|]. destruct st; exact I.
  Qed.

  Lemma ok_session_transcript : codec_ok (session_transcript_wf tb) (c_session_transcript tb).
  Proof.
    unfold c_session_transcript. eapply ok_weaken.
    - apply ok_iso; [apply ok_tuple3; [apply ok_tag24|apply ok_tag24|apply ok_handover]|intros []; reflexivity].
    - intros [e k h] H. exact H.
  Qed.

  (* ---------- request ---------- *)

  Lemma ok_data_elements : codec_ok data_elements_P c_data_elements.
  Proof. apply ok_nemap; [apply ok_text|apply ok_bool]. Qed.
  Lemma ok_namespaces : codec_ok namespaces_P c_namespaces.
  Proof. apply ok_nemap; [apply ok_text|apply ok_data_elements]. Qed.

  Lemma ok_items_request : codec_ok items_request_wf c_items_request.
  Proof.
    unfold c_items_request. ok_struct_tac.
    - cbn [fields_good ir_fields]. conjs;
        [apply ok_text|apply ok_namespaces|apply ok_map; [apply ok_text|apply ok_value]|apply nn_map].
    - intros [d n r] H. unfold items_request_wf in H.
      cbn [fields_P ir_fields ir_tuple fst snd ir_doc_type ir_namespaces ir_request_info] in *. tauto.
  Qed.

  (* ---------- validity info ---------- *)

  Lemma date_rt d : date_ok d -> date_of_cbor (date_to_cbor d) = Some (to_utc_trunc d).
  Proof. intros [_ H]. unfold date_of_cbor, date_to_cbor. apply emit_parse, H. Qed.

  Lemma date_enc_wf d : date_ok d -> wf (date_to_cbor d) = true.
  Proof.
    intros [_ H]. destruct (emit_text_ok d H) as [A B]. unfold date_to_cbor. cbn [wf]. rewrite A, B. reflexivity.
  Qed.

  Definition validity_map (a b c : cbor) (e : option cbor) : cbor :=
    CMap ([(CText n_signed, a); (CText n_valid_from, b); (CText n_valid_until, c)]
          ++ match e with Some x => [(CText n_expected_update, x)] | None => [] end).

  (* the map handling, on abstract date encodings *)
  Lemma validity_of_map a b c e :
    validity_of_cbor (validity_map a b c e) =
    (s <-? date_of_cbor a ;; f <-? date_of_cbor b ;; u <-? date_of_cbor c ;;
     e' <-? match e with Some x => option_map Some (date_of_cbor x) | None => Some None end ;;
     Some (ValidityInfo s f u e')).
  Proof. destruct e; reflexivity. Qed.

  Lemma validity_map_wf a b c e :
    wf a = true -> wf b = true -> wf c = true -> opt_P (fun x => wf x = true) e -> wf (validity_map a b c e) = true.
  Proof.
    intros Ha Hb Hc He. unfold validity_map.
    assert (N1 : wf (CText n_signed) = true) by (vm_compute; reflexivity).
    assert (N2 : wf (CText n_valid_from) = true) by (vm_compute; reflexivity).
    assert (N3 : wf (CText n_valid_until) = true) by (vm_compute; reflexivity).
    assert (N4 : wf (CText n_expected_update) = true) by (vm_compute; reflexivity).
    destruct e as [x|]; cbn [app opt_P] in *; cbn [wf forallb]; fold (wf (CText n_signed)); fold (wf (CText n_valid_from));
      fold (wf (CText n_valid_until)); fold (wf (CText n_expected_update));
      rewrite N1, N2, N3, ?N4, Ha, Hb, Hc, ?He; reflexivity.
  Qed.

  Lemma validity_to_map v :
    validity_to_cbor v = validity_map (date_to_cbor (vi_signed v)) (date_to_cbor (vi_valid_from v))
                                      (date_to_cbor (vi_valid_until v)) (option_map date_to_cbor (vi_expected_update v)).
  Proof. unfold validity_to_cbor, validity_map. destruct (vi_expected_update v); reflexivity. Qed.

  (* decode-after-encode normalises every date to UTC without fraction *)
  Lemma validity_rt_norm v : validity_wf v -> validity_of_cbor (validity_to_cbor v) = Some (validity_norm v).
  Proof.
    intros (Hs & Hf & Hu & He). rewrite validity_to_map, validity_of_map.
    rewrite !date_rt by assumption. cbn [obind]. unfold validity_norm.
    destruct (vi_expected_update v) as [d|]; cbn [option_map opt_P] in *; [rewrite date_rt by assumption|]; reflexivity.
  Qed.

  Lemma validity_enc_wf v : validity_wf v -> wf (validity_to_cbor v) = true.
  Proof.
    intros (Hs & Hf & Hu & He). rewrite validity_to_map.
    apply validity_map_wf; try (apply date_enc_wf; assumption).
    destruct (vi_expected_update v); cbn [option_map opt_P] in *; [apply date_enc_wf; assumption|exact I].
  Qed.

  Lemma date_exact_trunc d : date_exact d -> to_utc_trunc d = d.
  Proof. intros [[H1 _] H2]. apply to_utc_trunc_normal; assumption. Qed.

  Lemma validity_exact_wf v : validity_exact v -> validity_wf v.
  Proof.
    destruct v as [s f u e]. unfold validity_exact, validity_wf, date_exact.
    cbn [vi_signed vi_valid_from vi_valid_until vi_expected_update]. intros (A & B & C & D).
    destruct A as [A _], B as [B _], C as [C _]. refine (conj A (conj B (conj C _))).
    destruct e; cbn [opt_P] in *; [exact (proj1 D)|exact I].
  Qed.

  Lemma validity_exact_norm v : validity_exact v -> validity_norm v = v.
  Proof.
    destruct v as [s f u e]. unfold validity_exact, validity_norm.
    cbn [vi_signed vi_valid_from vi_valid_until vi_expected_update]. intros (A & B & C & D).
    rewrite !date_exact_trunc by assumption. destruct e as [d|]; cbn [option_map opt_P] in *; [rewrite date_exact_trunc by assumption|]; reflexivity.
  Qed.

  Lemma ok_validity_info : codec_ok validity_exact c_validity_info.
  Proof.
    split; intros v Hv; cbn [c_validity_info enc dec].
    - rewrite validity_rt_norm by (apply validity_exact_wf, Hv). rewrite validity_exact_norm by exact Hv. reflexivity.
    - apply validity_enc_wf, validity_exact_wf, Hv.
  Qed.

  (* encoding a ValidityInfo never panics: it succeeds exactly when every date has a four-digit UTC
     year, and reports an error otherwise *)
  Lemma first_failure_none ds : forallb emit_ok ds = true -> first_failure ds = None.
  Proof.
    induction ds as [|d r IH]; cbn [forallb first_failure]; intro H; [reflexivity|].
    apply andb_true_iff in H as [H1 H2]. rewrite (emit_checked_ok d H1). apply IH, H2.
  Qed.

  Lemma first_failure_some ds : forallb emit_ok ds = false -> exists e, first_failure ds = Some (EmitError e).
  Proof.
    induction ds as [|d r IH]; cbn [forallb first_failure]; intro H; [discriminate|].
    destruct (emit_ok d) eqn:E.
    - rewrite (emit_checked_ok d E). apply IH. exact H.
    - destruct (emit_checked_error d E) as [e He]. rewrite He. exists e. reflexivity.
  Qed.

  Theorem validity_encode_total v :
    (validity_encodable v = true /\ validity_encode v = EncOk (validity_to_cbor v)) \/
    (validity_encodable v = false /\ exists e, validity_encode v = EncErr e).
  Proof.
    unfold validity_encodable, validity_encode. destruct (forallb emit_ok (validity_dates v)) eqn:E.
    - left. rewrite (first_failure_none _ E). split; reflexivity.
    - right. destruct (first_failure_some _ E) as [e He]. rewrite He. split; [reflexivity|exists e; reflexivity].
  Qed.

  Corollary validity_encode_no_panic v : validity_encode v <> EncPanic.
  Proof.
    destruct (validity_encode_total v) as [[_ H]|[_ [e H]]]; rewrite H; discriminate.
  Qed.

  Lemma validity_wf_encodable v : validity_wf v -> validity_encodable v = true.
  Proof.
    destruct v as [s f u e]. unfold validity_wf, validity_encodable, validity_dates.
    cbn [vi_signed vi_valid_from vi_valid_until vi_expected_update]. intros ([_ A] & [_ B] & [_ C] & D).
    destruct e as [d|]; cbn [app forallb opt_P] in *; [destruct D as [_ D]; rewrite D|]; rewrite A, B, C; reflexivity.
  Qed.

  Lemma date_ok_trunc d : date_ok d -> date_exact (to_utc_trunc d).
  Proof.
    intros [H1 H2]. destruct (to_utc_trunc_valid d) as [V N].
    split; [split|]; [exact V| |exact N]. rewrite emit_ok_trunc. exact H2.
  Qed.

  (* the normal form is in the exact domain, and encodes to the same CBOR: the encoding is a fixed point *)
  Lemma validity_norm_exact v : validity_wf v -> validity_exact (validity_norm v).
  Proof.
    destruct v as [s f u e]. unfold validity_exact, validity_wf, validity_norm.
    cbn [vi_signed vi_valid_from vi_valid_until vi_expected_update]. intros (A & B & C & D).
    repeat split; try (apply date_ok_trunc; assumption).
    destruct e; cbn [option_map opt_P] in *; [apply date_ok_trunc; assumption|exact I].
  Qed.

  Lemma validity_norm_enc v : validity_to_cbor (validity_norm v) = validity_to_cbor v.
  Proof.
    destruct v as [s f u e]. unfold validity_to_cbor, validity_norm, date_to_cbor.
    cbn [vi_signed vi_valid_from vi_valid_until vi_expected_update]. rewrite !emit_trunc.
    destruct e; cbn [option_map]; [rewrite emit_trunc|]; reflexivity.
  Qed.

  (* ---------- key info, MSO ---------- *)

  Lemma ok_key_authorizations : codec_ok key_authorizations_wf c_key_authorizations.
  Proof.
    unfold c_key_authorizations. ok_struct_tac.
    - cbn [fields_good ka_fields]. conjs;
        [apply ok_nelist, ok_text|apply nn_nelist|apply ok_nemap; [apply ok_text|apply ok_nelist, ok_text]|apply nn_nemap].
    - intros [n d] H. unfold key_authorizations_wf in H.
      cbn [fields_P ka_fields ka_tuple fst snd ka_namespaces ka_data_elements] in *. tauto.
  Qed.

  Lemma ok_digest_id : codec_ok digest_id_P c_digest_id.
  Proof.
    unfold c_digest_id, digest_id_P. eapply ok_weaken; [apply ok_int; unfold two64z; lia|].
    unfold int_P. intros z H. lia.
  Qed.

  Lemma ok_digest_ids : codec_ok digest_ids_P c_digest_ids.
  Proof. apply ok_map; [apply ok_digest_id|apply ok_bytestr]. Qed.

  Lemma ok_device_key_info : codec_ok (device_key_info_wf) (c_device_key_info tb).
  Proof.
    unfold c_device_key_info. ok_struct_tac.
    - cbn [fields_good dk_fields]. conjs;
        [apply ok_cose_key|apply ok_key_authorizations|apply nn_iso_struct
        |apply ok_map; [apply ok_i128|apply ok_value]|apply nn_map].
    - intros [k a i] H. unfold device_key_info_wf in H.
      cbn [fields_P dk_fields dk_tuple fst snd dk_device_key dk_key_authorizations dk_key_info] in *. tauto.
  Qed.

  Lemma ok_mso : codec_ok (mso_exact) (c_mso tb).
  Proof.
    unfold c_mso. ok_struct_tac.
    - cbn [fields_good mso_fields]. conjs;
        [apply ok_text|apply ok_digest_alg|apply ok_map; [apply ok_text|apply ok_digest_ids]
        |apply ok_device_key_info|apply ok_text|apply ok_validity_info].
    - intros [v a d k t i] [(H1 & H2 & H3 & H4) H5].
      cbn [fields_P mso_fields mso_tuple fst snd mso_version mso_digest_algorithm mso_value_digests
           mso_device_key_info mso_doc_type mso_validity_info] in *.
      exact (conj H1 (conj I (conj H2 (conj H3 (conj H4 (conj H5 I)))))).
  Qed.

  (* the full domain (any offset, any fraction): decode-after-encode is the value with its times
     normalised, and the normal form has the same encoding *)
  Lemma mso_norm_enc m : enc (c_mso tb) (mso_norm m) = enc (c_mso tb) m.
  Proof.
    destruct m as [v a d k t i]. cbn [c_mso c_iso c_struct enc mso_norm mso_tuple mso_version mso_digest_algorithm
      mso_value_digests mso_device_key_info mso_doc_type mso_validity_info mso_fields enc_fields fst snd].
    cbn [c_validity_info enc]. rewrite validity_norm_enc. reflexivity.
  Qed.

  Lemma mso_norm_exact m : mso_wf m -> mso_exact (mso_norm m).
  Proof.
    destruct m as [v a d k t i]. intros [H1 H2]. split; [exact H1|].
    cbn [mso_norm mso_validity_info] in *. apply validity_norm_exact, H2.
  Qed.

  Theorem mso_rt_norm m : mso_wf m -> dec (c_mso tb) (enc (c_mso tb) m) = Some (mso_norm m).
  Proof.
    intro H. rewrite <- mso_norm_enc. apply (ok_rt _ _ ok_mso), mso_norm_exact, H.
  Qed.

  (* ---------- issuer-signed items ---------- *)

  Lemma ok_issuer_signed_item : codec_ok issuer_signed_item_wf c_issuer_signed_item.
  Proof.
    unfold c_issuer_signed_item. ok_struct_tac.
    - cbn [fields_good isi_fields]. conjs; [apply ok_digest_id|apply ok_bytestr|apply ok_text|apply ok_value].
    - intros [d r i v] H. unfold issuer_signed_item_wf in H.
      cbn [fields_P isi_fields isi_tuple fst snd isi_digest_id isi_random isi_element_identifier isi_element_value] in *. tauto.
  Qed.

  Lemma ok_issuer_namespaces : codec_ok issuer_namespaces_P c_issuer_namespaces.
  Proof. apply ok_nemap; [apply ok_text|apply ok_nelist, ok_tag24]. Qed.

  Lemma ok_device_namespaces : codec_ok device_namespaces_P c_device_namespaces.
  Proof. apply ok_map; [apply ok_text|apply ok_nemap; [apply ok_text|apply ok_value]]. Qed.

  (* ---------- everything that embeds COSE structures ---------- *)

  Section WithCose.
    Context {sign1 mac0 : Type} (c_sign1 : codec sign1) (c_mac0 : codec mac0)
            (sign1_P : sign1 -> Prop) (mac0_P : mac0 -> Prop).
    Hypothesis Hs1 : codec_ok sign1_P c_sign1.
    Hypothesis Hm0 : codec_ok mac0_P c_mac0.
    Hypothesis Ns1 : nonnull sign1_P c_sign1.

    Lemma ok_doc_request : codec_ok (doc_request_wf sign1_P) (c_doc_request c_sign1 sign1_P).
    Proof.
      unfold c_doc_request. ok_struct_tac.
      - cbn [fields_good dr_fields]. conjs; [apply ok_tag24|exact Hs1|exact Ns1].
      - intros [i r] H. unfold doc_request_wf in H.
        cbn [fields_P dr_fields dr_tuple fst snd dr_items_request dr_reader_auth] in *. tauto.
    Qed.

    Lemma ok_device_request : codec_ok (device_request_wf sign1_P) (c_device_request c_sign1 sign1_P).
    Proof.
      unfold c_device_request. ok_struct_tac.
      - cbn [fields_good dq_fields]. conjs; [apply ok_text|apply ok_nelist, ok_doc_request].
      - intros [v r] H. unfold device_request_wf in H.
        cbn [fields_P dq_fields dq_tuple fst snd dq_version dq_doc_requests] in *. tauto.
    Qed.

    Lemma ok_issuer_signed : codec_ok (issuer_signed_wf sign1_P) (c_issuer_signed c_sign1 sign1_P).
    Proof.
      unfold c_issuer_signed. ok_struct_tac.
      - cbn [fields_good is_fields]. conjs; [apply ok_issuer_namespaces|apply nn_nemap|exact Hs1].
      - intros [n a] H. unfold issuer_signed_wf in H.
        cbn [fields_P is_fields is_tuple fst snd is_namespaces is_issuer_auth] in *. tauto.
    Qed.

    Lemma ok_device_auth : codec_ok (device_auth_wf sign1_P mac0_P) (c_device_auth tb c_sign1 c_mac0).
    Proof.
      destruct (tk_device_auth tb Htb) as (N1 & N2 & Hne). destruct Hs1 as [R1 W1]. destruct Hm0 as [R2 W2].
      split; intros a Ha; cbn [c_device_auth enc dec]; unfold device_auth_to_cbor, device_auth_of_cbor, variant_cbor, variant_entry.
      - destruct a as [s|m]; cbn [untag key_name obind device_auth_wf] in *.
        + rewrite bytes_eqb_refl, R1 by exact Ha. reflexivity.
        + rewrite Hne, bytes_eqb_refl, R2 by exact Ha. reflexivity.
      - unfold name_ok in N1, N2. destruct a as [s|m]; cbn [wf forallb device_auth_wf] in *.
        + rewrite N1, W1 by exact Ha. reflexivity.
        + rewrite N2, W2 by exact Ha. reflexivity.
    Qed.

    Lemma ok_device_signed :
      codec_ok (device_signed_wf sign1_P mac0_P) (c_device_signed tb c_sign1 c_mac0 sign1_P mac0_P).
    Proof.
      unfold c_device_signed. ok_struct_tac.
      - cbn [fields_good ds_fields]. conjs; [apply ok_tag24|apply ok_device_auth].
      - intros [n a] H. unfold device_signed_wf in H.
        cbn [fields_P ds_fields ds_tuple fst snd ds_namespaces ds_device_auth] in *. tauto.
    Qed.

    Lemma ok_errors : codec_ok (errors_P) (c_errors tb).
    Proof. apply ok_nemap; [apply ok_text|apply ok_nemap; [apply ok_text|apply ok_doc_error_code]]. Qed.

    Lemma ok_document_error : codec_ok document_error_P (c_document_error tb).
    Proof. apply ok_map; [apply ok_text|apply ok_doc_error_code]. Qed.

    Lemma ok_document :
      codec_ok (document_wf sign1_P mac0_P) (c_document tb c_sign1 c_mac0 sign1_P mac0_P).
    Proof.
      unfold c_document. ok_struct_tac.
      - cbn [fields_good doc_fields]. conjs;
          [apply ok_text|apply ok_issuer_signed|apply ok_device_signed|apply ok_errors|apply nn_nemap].
      - intros [t i d e] H. unfold document_wf in H.
        cbn [fields_P doc_fields doc_tuple fst snd doc_doc_type doc_issuer_signed doc_device_signed doc_errors] in *. tauto.
    Qed.

    Lemma ok_device_response :
      codec_ok (device_response_wf sign1_P mac0_P) (c_device_response tb c_sign1 c_mac0 sign1_P mac0_P).
    Proof.
      unfold c_device_response. ok_struct_tac.
      - cbn [fields_good rsp_fields]. conjs;
          [apply ok_text|apply ok_nelist, ok_document|apply nn_nelist|apply ok_nelist, ok_document_error|apply nn_nelist
          |apply ok_response_status].
      - intros [v d e st] H. unfold device_response_wf in H.
        cbn [fields_P rsp_fields rsp_tuple fst snd rsp_version rsp_documents rsp_document_errors rsp_status] in *.
        destruct H as (H1 & H2 & H3). exact (conj H1 (conj H2 (conj H3 (conj I I)))).
    Qed.
  End WithCose.

  (* ---------- CoseKey <-> JWK ---------- *)

  Theorem cose_jwk_rt k :
    match k with
    | EC2 _ _ (YSign _) => cose_to_jwk tb k = None
    | _ => exists j, cose_to_jwk tb k = Some j /\ jwk_to_cose tb j = Some k
    end.
  Proof.
    destruct k as [crv x [y|sg]|crv x]; cbn [cose_to_jwk].
    - eexists. split; [reflexivity|]. cbn [jwk_to_cose obind]. rewrite (tk_ec2_jwk tb Htb). reflexivity.
    - reflexivity.
    - eexists. split; [reflexivity|]. cbn [jwk_to_cose obind]. rewrite (tk_okp_jwk tb Htb). reflexivity.
  Qed.

End Wire.

(* ---------- the executable COSE stand-in round-trips on its own domain ---------- *)

Lemma ok_cose_shallow tag : codec_ok (cose_shallow_P tag) (c_cose_shallow tag).
Proof.
  split; intros v [H1 H2]; cbn [c_cose_shallow enc dec]; [rewrite H2; reflexivity|exact H1].
Qed.

Lemma nn_cose_shallow tag : nonnull (cose_shallow_P tag) (c_cose_shallow tag).
Proof. intros v [_ H] E. cbn [c_cose_shallow enc] in E. subst v. discriminate H. Qed.

(* ---------- statement shapes used by Props/C16.v ---------- *)

(* to_cbor / of_cbor round trip, its byte-level form, and the fixed point of re-encoding *)
Definition codec_rt {T} (P : T -> Prop) (c : codec T) : Prop :=
  forall x, P x ->
    dec c (enc c x) = Some x /\
    (blen (to_bytes c x) < two64 ->
       from_bytes c (to_bytes c x) = Some x /\
       forall y, from_bytes c (to_bytes c x) = Some y -> to_bytes c y = to_bytes c x).

Lemma codec_rt_of_ok {T} (P : T -> Prop) c : codec_ok P c -> codec_rt P c.
Proof.
  intros H x Hx. split; [apply (ok_rt _ _ H), Hx|]. intro Hlen.
  pose proof (bytes_rt P c x H Hx Hlen) as E. split; [exact E|]. intros y Hy. rewrite E in Hy. inversion Hy. reflexivity.
Qed.
