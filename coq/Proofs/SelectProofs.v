From Isomdl Require Import Lib.Bytes Model.Select Spec.SelectSpec.
Open Scope N_scope.

Lemma mem_In k l : mem k l = true <-> In k l.
Proof.
  unfold mem. rewrite existsb_exists. split.
  - intros [x [Hx He]]. apply bytes_eqb_eq in He. subst. exact Hx.
  - intro H. exists k. split; [exact H|apply bytes_eqb_refl].
Qed.

Lemma in_flat_map_single {X Y} (f : X -> list Y) l y : In y (flat_map f l) <-> exists x, In x l /\ In y (f x).
Proof. apply in_flat_map. Qed.

Lemma entries_of_in dt req nss : In nss (entries_of dt req) <-> In (dt, nss) req.
Proof.
  unfold entries_of. rewrite in_map_iff. split.
  - intros [[dt' nss'] [E H]]. cbn in E. subst. apply filter_In in H as [H Hb]. cbn in Hb.
    apply bytes_eqb_eq in Hb. subst. exact H.
  - intro H. exists (dt, nss). split; [reflexivity|]. apply filter_In. split; [exact H|]. cbn. apply bytes_eqb_refl.
Qed.

Lemma req_elems_of_in ns es ids :
  In ids (req_elems_of ns es) <-> exists nss, In nss es /\ aget ns nss = Some ids.
Proof.
  unfold req_elems_of. rewrite in_flat_map. split.
  - intros [nss [Hin H]]. destruct (aget ns nss) as [i|] eqn:E; [|destruct H]. destruct H as [<-|[]].
    exists nss. split; assumption.
  - intros [nss [Hin E]]. exists nss. split; [exact Hin|]. rewrite E. left. reflexivity.
Qed.

Lemma filter_ns_in es nss ns out :
  In (ns, out) (filter_ns es nss) <->
  exists elems, In (ns, elems) nss /\ req_elems_of ns es <> [] /\
                out = filter (fun e => existsb (mem e) (req_elems_of ns es)) elems.
Proof.
  unfold filter_ns. rewrite in_flat_map. split.
  - intros [[ns' elems] [Hin H]]. destruct (req_elems_of ns' es) as [|x l] eqn:E; [destruct H|].
    destruct H as [H|[]]. inversion H; subst. exists elems. rewrite E. repeat split; [exact Hin|discriminate].
  - intros [elems [Hin [Hne ->]]]. exists (ns, elems). split; [exact Hin|].
    destruct (req_elems_of ns es) as [|x l] eqn:E; [contradiction|left; reflexivity].
Qed.

Lemma filter_permitted_in req perm dt fn :
  In (dt, fn) (filter_permitted req perm) <->
  exists nss, In (dt, nss) perm /\ entries_of dt req <> [] /\ fn = filter_ns (entries_of dt req) nss.
Proof.
  unfold filter_permitted. rewrite in_flat_map. split.
  - intros [[dt' nss] [Hin H]]. destruct (entries_of dt' req) as [|x l] eqn:E; [destruct H|].
    destruct H as [H|[]]. inversion H; subst. exists nss. rewrite E. repeat split; [exact Hin|discriminate].
  - intros [nss [Hin [Hne ->]]]. exists (dt, nss). split; [exact Hin|].
    destruct (entries_of dt req) as [|x l] eqn:E; [contradiction|left; reflexivity].
Qed.

Lemma requested_filter req dt ns id :
  existsb (mem id) (req_elems_of ns (entries_of dt req)) = true <-> requested req dt ns id.
Proof.
  rewrite existsb_exists. split.
  - intros [ids [Hin Hm]]. apply req_elems_of_in in Hin as [nss [Hn E]]. apply entries_of_in in Hn.
    exists nss, ids. repeat split; assumption.
  - intros [nss [ids [Hn [E Hm]]]]. exists ids. split; [|exact Hm].
    apply req_elems_of_in. exists nss. split; [apply entries_of_in; exact Hn|exact E].
Qed.

Section Proofs.
  Context {A : Type}.
  Notation document := (document A).
  Notation selection := (selection A).

  Lemma pick_in (items : list (key * A)) elems it :
    In it (pick items elems) <-> exists id, In id elems /\ aget id items = Some it.
  Proof.
    unfold pick. rewrite in_flat_map. split.
    - intros [id [Hin H]]. destruct (aget id items) as [x|] eqn:E; [|destruct H].
      destruct H as [<-|[]]. exists id. split; assumption.
    - intros [id [Hin E]]. exists id. split; [exact Hin|]. rewrite E. left. reflexivity.
  Qed.

  Lemma missing_in (items : list (key * A)) elems id :
    In id (missing items elems) <-> In id elems /\ aget id items = None.
  Proof.
    unfold missing. rewrite filter_In. split; intros [H1 H2]; (split; [exact H1|]);
      destruct (aget id items); congruence.
  Qed.

  Lemma select_doc_disclosed (d : document) dt nss ns items :
    In (ns, items) (pd_disclosed (select_doc d dt nss)) <->
    exists elems held_items, In (ns, elems) nss /\ aget ns (d_ns d) = Some held_items /\
                             items = pick held_items elems /\ items <> [].
  Proof.
    cbn [select_doc pd_disclosed]. rewrite in_flat_map. split.
    - intros [[ns' elems] [Hin H]]. destruct (aget ns' (d_ns d)) as [hi|] eqn:E; [|destruct H].
      destruct (pick hi elems) as [|x l] eqn:Ep; [destruct H|].
      destruct H as [H|[]]. inversion H; subst. exists elems, hi. repeat split; try assumption.
      + symmetry; exact Ep.
      + discriminate.
    - intros [elems [hi [Hin [E [-> Hne]]]]]. exists (ns, elems). split; [exact Hin|]. rewrite E.
      destruct (pick hi elems); [contradiction|left; reflexivity].
  Qed.

  Lemma select_doc_errors (d : document) dt nss ns ids :
    In (ns, ids) (pd_errors (select_doc d dt nss)) <->
    exists elems, In (ns, elems) nss /\ ids <> [] /\
      ids = match aget ns (d_ns d) with Some items => missing items elems | None => elems end.
  Proof.
    cbn [select_doc pd_errors]. rewrite in_flat_map. split.
    - intros [[ns' elems] [Hin H]].
      destruct (match aget ns' (d_ns d) with Some items => missing items elems | None => elems end) as [|x l] eqn:Em; [destruct H|].
      destruct H as [H|[]]. inversion H; subst. exists elems. split; [exact Hin|]. split; [discriminate|]. symmetry; exact Em.
    - intros [elems [Hin [Hne ->]]]. exists (ns, elems). split; [exact Hin|].
      destruct (match aget ns (d_ns d) with Some items => missing items elems | None => elems end); [contradiction|left; reflexivity].
  Qed.

  Lemma select_all_docs (docs : list (key * document)) f pd :
    In pd (sel_docs (select_all docs f)) <->
    exists dt nss d, In (dt, nss) f /\ aget dt docs = Some d /\ d_can_sign d = true /\ pd = select_doc d dt nss.
  Proof.
    induction f as [|[dt nss] rest IH]; cbn [select_all].
    - cbn. split; [intros []|intros [? [? [? [[] _]]]]].
    - destruct (aget dt docs) as [d|] eqn:E.
      + destruct (d_can_sign d) eqn:Ec; cbn [sel_docs].
        * split.
          -- intros [<-|H]; [exists dt, nss, d; repeat split; [left; reflexivity|assumption|assumption]|].
             apply IH in H as [dt' [nss' [d' [Hin H]]]]. exists dt', nss', d'. split; [right; exact Hin|exact H].
          -- intros [dt' [nss' [d' [[Hin|Hin] [E' [Ec' ->]]]]]].
             ++ inversion Hin; subst. rewrite E in E'. inversion E'; subst. left. reflexivity.
             ++ right. apply IH. exists dt', nss', d'. repeat split; assumption.
        * rewrite IH. split.
          -- intros [dt' [nss' [d' [Hin H]]]]. exists dt', nss', d'. split; [right; exact Hin|exact H].
          -- intros [dt' [nss' [d' [[Hin|Hin] [E' [Ec' ->]]]]]].
             ++ inversion Hin; subst. rewrite E in E'. inversion E'; subst. congruence.
             ++ exists dt', nss', d'. repeat split; assumption.
      + cbn [sel_docs]. rewrite IH. split.
        * intros [dt' [nss' [d' [Hin H]]]]. exists dt', nss', d'. split; [right; exact Hin|exact H].
        * intros [dt' [nss' [d' [[Hin|Hin] [E' [Ec' ->]]]]]].
          -- inversion Hin; subst. congruence.
          -- exists dt', nss', d'. repeat split; assumption.
  Qed.

  Lemma select_all_doc_errors (docs : list (key * document)) f dt :
    In dt (sel_doc_errors (select_all docs f)) <->
    exists nss, In (dt, nss) f /\
      (aget dt docs = None \/ exists d, aget dt docs = Some d /\ d_can_sign d = false).
  Proof.
    induction f as [|[dt' nss'] rest IH]; cbn [select_all].
    - cbn. split; [intros []|intros [? [[] _]]].
    - destruct (aget dt' docs) as [d|] eqn:E.
      + destruct (d_can_sign d) eqn:Ec; cbn [sel_doc_errors].
        * rewrite IH. split.
          -- intros [nss [Hin H]]. exists nss. split; [right; exact Hin|exact H].
          -- intros [nss [[Hin|Hin] H]].
             ++ inversion Hin; subst. destruct H as [H|[d' [H1 H2]]]; congruence.
             ++ exists nss. split; assumption.
        * split.
          -- intros [<-|H]; [exists nss'; split; [left; reflexivity|right; exists d; split; assumption]|].
             apply IH in H as [nss [Hin H]]. exists nss. split; [right; exact Hin|exact H].
          -- intros [nss [[Hin|Hin] H]]; [inversion Hin; subst; left; reflexivity|].
             right. apply IH. exists nss. split; assumption.
      + cbn [sel_doc_errors]. split.
        * intros [<-|H]; [exists nss'; split; [left; reflexivity|left; exact E]|].
          apply IH in H as [nss [Hin H]]. exists nss. split; [right; exact Hin|exact H].
        * intros [nss [[Hin|Hin] H]]; [inversion Hin; subst; left; reflexivity|].
          right. apply IH. exists nss. split; assumption.
  Qed.

  (* ---------- soundness ---------- *)

  Theorem sound (docs : list (key * document)) req perm dt ns it :
    disclosed (prepare_response docs req perm) dt ns it ->
    exists id, requested req dt ns id /\ is_permitted perm dt ns id /\ held docs dt ns id it.
  Proof.
    intros [pd [items [Hpd [Hdt [Hns Hit]]]]]. unfold prepare_response in Hpd.
    apply select_all_docs in Hpd as [dt' [fn [d [Hf [Hd [Hc ->]]]]]]. cbn [pd_doc_type select_doc] in Hdt. subst dt'.
    apply filter_permitted_in in Hf as [nss [Hperm [Hreq ->]]].
    apply select_doc_disclosed in Hns as [elems [hi [Hfn [Hh [-> _]]]]].
    apply filter_ns_in in Hfn as [elems0 [Hnss [Hrq ->]]].
    apply pick_in in Hit as [id [Hid Hget]]. apply filter_In in Hid as [Hid Hm].
    exists id. split; [|split].
    - apply requested_filter. exact Hm.
    - exists nss, elems0. repeat split; assumption.
    - exists d, hi. repeat split; assumption.
  Qed.

  (* nothing from an unrequested or unpermitted docType / namespace appears, not even as an error *)
  Theorem nothing_unrequested (docs : list (key * document)) req perm pd :
    In pd (sel_docs (prepare_response docs req perm)) ->
    (exists nss, In (pd_doc_type pd, nss) perm /\ (exists rq, In (pd_doc_type pd, rq) req) /\
       (forall ns items, In (ns, items) (pd_disclosed pd) ->
          (exists rq, In (pd_doc_type pd, rq) req /\ aget ns rq <> None) /\ exists e, In (ns, e) nss) /\
       (forall ns ids, In (ns, ids) (pd_errors pd) ->
          (exists rq, In (pd_doc_type pd, rq) req /\ aget ns rq <> None) /\ exists e, In (ns, e) nss)).
  Proof.
    intro Hpd. unfold prepare_response in Hpd.
    apply select_all_docs in Hpd as [dt [fn [d [Hf [Hd [Hc ->]]]]]]. cbn [pd_doc_type select_doc].
    apply filter_permitted_in in Hf as [nss [Hperm [Hreq ->]]].
    assert (Hns : forall ns e, In (ns, e) (filter_ns (entries_of dt req) nss) ->
                  (exists rq, In (dt, rq) req /\ aget ns rq <> None) /\ exists e0, In (ns, e0) nss).
    { intros ns e H. apply filter_ns_in in H as [e0 [Hn [Hr _]]]. split; [|exists e0; exact Hn].
      destruct (req_elems_of ns (entries_of dt req)) as [|ids l] eqn:E; [contradiction|].
      assert (Hi : In ids (req_elems_of ns (entries_of dt req))) by (rewrite E; left; reflexivity).
      apply req_elems_of_in in Hi as [rq [Hrq Ha]]. apply entries_of_in in Hrq. exists rq. split; [exact Hrq|congruence]. }
    exists nss. split; [exact Hperm|]. split.
    { destruct (entries_of dt req) as [|rq l] eqn:E; [contradiction|].
      exists rq. apply entries_of_in. rewrite E. left. reflexivity. }
    split.
    - intros ns items H. apply select_doc_disclosed in H as [elems [hi [Hfn _]]]. eapply Hns. exact Hfn.
    - intros ns ids H. apply select_doc_errors in H as [elems [Hfn _]]. eapply Hns. exact Hfn.
  Qed.

  Theorem document_errors_requested (docs : list (key * document)) req perm dt :
    document_error (prepare_response docs req perm) dt ->
    (exists rq, In (dt, rq) req) /\ (exists nss, In (dt, nss) perm) /\
    (aget dt docs = None \/ exists d, aget dt docs = Some d /\ d_can_sign d = false).
  Proof.
    unfold document_error, prepare_response. intro H.
    apply select_all_doc_errors in H as [fn [Hf H]].
    apply filter_permitted_in in Hf as [nss [Hperm [Hreq _]]].
    split; [|split; [exists nss; exact Hperm|exact H]].
    destruct (entries_of dt req) as [|rq l] eqn:E; [contradiction|].
    exists rq. apply entries_of_in. rewrite E. left. reflexivity.
  Qed.

  (* ---------- completeness ---------- *)

  Theorem complete (docs : list (key * document)) req perm dt ns id :
    requested req dt ns id -> is_permitted perm dt ns id ->
    match aget dt docs with
    | None => document_error (prepare_response docs req perm) dt
    | Some d =>
      if d_can_sign d then
        match aget ns (d_ns d) with
        | Some items =>
          match aget id items with
          | Some it => disclosed (prepare_response docs req perm) dt ns it
          | None => element_error (prepare_response docs req perm) dt ns id
          end
        | None => element_error (prepare_response docs req perm) dt ns id
        end
      else document_error (prepare_response docs req perm) dt
    end.
  Proof.
    intros Hrequested [nss [elems [Hperm [Hnss Hid]]]].
    pose proof (proj2 (requested_filter req dt ns id) Hrequested) as Hm.
    set (es := entries_of dt req) in *. set (res := req_elems_of ns es) in *.
    assert (Hes : es <> []).
    { destruct Hrequested as [rq [ids [Hr _]]]. apply entries_of_in in Hr. fold es in Hr. intro E. rewrite E in Hr. destruct Hr. }
    assert (Hres : res <> []).
    { intro E. rewrite E in Hm. discriminate. }
    assert (Hf : In (dt, filter_ns es nss) (filter_permitted req perm)).
    { apply filter_permitted_in. exists nss. repeat split; assumption. }
    set (fe := filter (fun e => existsb (mem e) res) elems).
    assert (Hfn : In (ns, fe) (filter_ns es nss)).
    { apply filter_ns_in. exists elems. repeat split; assumption. }
    assert (Hidf : In id fe) by (apply filter_In; split; assumption).
    destruct (aget dt docs) as [d|] eqn:Ed.
    - destruct (d_can_sign d) eqn:Ec.
      + assert (Hpd : In (select_doc d dt (filter_ns es nss)) (sel_docs (prepare_response docs req perm))).
        { apply select_all_docs. exists dt, (filter_ns es nss), d. repeat split; assumption. }
        destruct (aget ns (d_ns d)) as [items|] eqn:En.
        * destruct (aget id items) as [it|] eqn:Ei.
          -- exists (select_doc d dt (filter_ns es nss)), (pick items fe).
             split; [exact Hpd|]. split; [reflexivity|].
             assert (Hin : In it (pick items fe)) by (apply pick_in; exists id; split; assumption).
             split; [|exact Hin]. apply select_doc_disclosed.
             exists fe, items. repeat split; try assumption.
             intro Hnil. rewrite Hnil in Hin. destruct Hin.
          -- exists (select_doc d dt (filter_ns es nss)), (missing items fe).
             split; [exact Hpd|]. split; [reflexivity|].
             assert (Hin : In id (missing items fe)) by (apply missing_in; split; assumption).
             split; [|exact Hin]. apply select_doc_errors.
             exists fe. split; [exact Hfn|]. rewrite En. split; [|reflexivity].
             intro Hnil. rewrite Hnil in Hin. destruct Hin.
        * exists (select_doc d dt (filter_ns es nss)), fe.
          split; [exact Hpd|]. split; [reflexivity|]. split; [|exact Hidf]. apply select_doc_errors.
          exists fe. split; [exact Hfn|]. rewrite En. split; [|reflexivity].
          intro Hnil. rewrite Hnil in Hidf. destruct Hidf.
      + apply select_all_doc_errors. exists (filter_ns es nss). split; [exact Hf|]. right. exists d. split; assumption.
    - apply select_all_doc_errors. exists (filter_ns es nss). split; [exact Hf|]. left. exact Ed.
  Qed.

End Proofs.

(* a request naming the same docType in two entries: both entries are honoured *)
Example dup_doctype_honoured :
  let dt := [100] in let ns := [110] in
  let req : request := [(dt, [(ns, [[1]])]); (dt, [(ns, [[2]])])] in
  let perm : permitted := [(dt, [(ns, [[1]; [2]; [3]])])] in
  let docs : list (key * document N) := [(dt, {| d_can_sign := true; d_ns := [(ns, [([1], 11); ([2], 22); ([3], 33)])] |})] in
  prepare_response docs req perm =
    {| sel_docs := [{| pd_doc_type := dt; pd_disclosed := [(ns, [11; 22])]; pd_errors := [] |}]; sel_doc_errors := [] |}.
Proof. vm_compute. reflexivity. Qed.

(* round isolation: what prepare_response leaves in the session depends on the documents and this
   round's arguments only, never on what an earlier round left in the state *)
From Isomdl Require Import Model.Iv Model.Session.
Lemma prepare_forgets_state d st docs errs :
  dev_prepare (set_state d st) docs errs = dev_prepare d docs errs.
Proof. reflexivity. Qed.
