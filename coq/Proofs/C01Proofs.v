From Isomdl Require Import Lib.Bytes Lib.Cbor Lib.Base64 Lib.Sha2 Lib.Hkdf Gen.Constants
  Model.Cose Model.KeySchedule Model.ReaderAuth Model.Select Model.Render Spec.SelectSpec
  Spec.CoseRfc Spec.ReaderAuthSpec Proofs.CoseProofs Proofs.SelectProofs Proofs.ReaderAuthProofs.
Open Scope N_scope.

(* ---------- keys ---------- *)

(* the reader recovers the engagement bytes from the QR code exactly; both sides then hash the same
   transcript bytes; with equal ECDH outputs the session keys are equal, and so is the BLE ident *)
Theorem keys_agree de erk ho zab_device zab_reader ek reader :
  wf_bytes de = true -> zab_device = zab_reader ->
  exists de', b64url_decode (b64url_encode de) = Some de' /\
    session_key zab_device (transcript_bytes de erk ho) reader = session_key zab_reader (transcript_bytes de' erk ho) reader /\
    ble_ident ek = ble_ident ek.
Proof.
  intros Hwf ->. exists de. split; [apply b64url_decode_encode; exact Hwf|]. split; reflexivity.
Qed.

(* ---------- rendering: what the reader reports for a namespace ---------- *)

Definition key_in (k : bytes) (l : list (bytes * cbor)) : Prop := exists v, In (k, v) l.

Lemma obj_insert_in k v l k' v' :
  In (k', v') (obj_insert k v l) -> (k' = k /\ v' = v) \/ In (k', v') l.
Proof.
  induction l as [|[k0 v0] l IH]; cbn [obj_insert].
  - intros [H|[]]. inversion H; subst. left. split; reflexivity.
  - destruct (bytes_eqb k k0) eqn:E.
    + intros [H|H]; [inversion H; subst; left; split; reflexivity|right; right; exact H].
    + destruct (bytes_ltb k k0).
      * intros [H|H]; [inversion H; subst; left; split; reflexivity|right; exact H].
      * intros [H|H]; [right; left; exact H|]. destruct (IH H) as [H'|H']; [left; exact H'|right; right; exact H'].
Qed.

Lemma obj_insert_key k v l : key_in k (obj_insert k v l).
Proof.
  induction l as [|[k0 v0] l IH]; cbn [obj_insert].
  - exists v. left. reflexivity.
  - destruct (bytes_eqb k k0) eqn:E; [exists v; left; reflexivity|].
    destruct (bytes_ltb k k0); [exists v; left; reflexivity|].
    destruct IH as [v' H]. exists v'. right. exact H.
Qed.

Lemma obj_insert_keeps k v l k' : key_in k' l -> key_in k' (obj_insert k v l).
Proof.
  intros [v' H]. induction l as [|[k0 v0] l IH]; [destruct H|]. cbn [obj_insert].
  destruct (bytes_eqb k k0) eqn:E.
  - apply bytes_eqb_eq in E. subst k0. destruct H as [H|H].
    + inversion H; subst. exists v. left. reflexivity.
    + exists v'. right. exact H.
  - destruct (bytes_ltb k k0).
    + exists v'. right. exact H.
    + destruct H as [H|H]; [exists v'; left; exact H|].
      destruct (IH H) as [v'' H'']. exists v''. right. exact H''.
Qed.

Definition rendered_items (items : list (bytes * cbor)) : list (bytes * cbor) :=
  fold_left (fun acc it => match render (snd it) with Some v => obj_insert (fst it) v acc | None => acc end) items [].

Lemma rendered_items_sound_gen items : forall acc k v,
  In (k, v) (fold_left (fun acc it => match render (snd it) with Some v => obj_insert (fst it) v acc | None => acc end) items acc) ->
  In (k, v) acc \/ exists x, In (k, x) items /\ render x = Some v.
Proof.
  induction items as [|[id x] items IH]; intros acc k v H; cbn [fold_left fst snd] in H; [left; exact H|].
  apply IH in H as [H|[y [Hy Hr]]].
  - destruct (render x) as [vx|] eqn:E.
    + apply obj_insert_in in H as [[-> ->]|H]; [right; exists x; split; [left; reflexivity|exact E]|left; exact H].
    + left. exact H.
  - right. exists y. split; [right; exact Hy|exact Hr].
Qed.

(* every reported (identifier, value) of a namespace is the rendering of a disclosed element *)
Theorem rendered_sound items k v :
  In (k, v) (rendered_items items) -> exists x, In (k, x) items /\ render x = Some v.
Proof. intro H. apply rendered_items_sound_gen in H as [[]|H]. exact H. Qed.

Lemma rendered_items_complete_gen items : forall acc k,
  (key_in k acc \/ exists x, In (k, x) items /\ render x <> None) ->
  key_in k (fold_left (fun acc it => match render (snd it) with Some v => obj_insert (fst it) v acc | None => acc end) items acc).
Proof.
  induction items as [|[id x] items IH]; intros acc k H; cbn [fold_left fst snd].
  - destruct H as [H|[y [[] _]]]. exact H.
  - apply IH. destruct H as [H|[y [[Hy|Hy] Hr]]].
    + left. destruct (render x); [apply obj_insert_keeps; exact H|exact H].
    + inversion Hy; subst. left. destruct (render y) as [vy|]; [apply obj_insert_key|contradiction].
    + right. exists y. split; assumption.
Qed.

(* every disclosed element whose value can be rendered is reported under its identifier *)
Theorem rendered_complete items k x :
  In (k, x) items -> render x <> None -> key_in k (rendered_items items).
Proof. intros Hi Hr. apply rendered_items_complete_gen. right. exists x. split; assumption. Qed.

(* ---------- both authentication statuses are Valid in an honest presentation ---------- *)

Theorem honest_both_valid env d c payload mso crv x y :
  e_x5 env = X5Chain -> e_chain_valid env = true -> e_leaf_key_ok env = true -> e_mso_ok env = true ->
  namespaces_ok d = true ->
  (* issuer: the signer's signature over the issued MSO, algorithm ES256 or absent *)
  c_payload (rd_issuer_auth d) = Some payload ->
  alg_gate (e_issuer_verifier env) (alg_of_protected (c_protected (rd_issuer_auth d))) = true ->
  v_parse (e_issuer_verifier env) (c_sig (rd_issuer_auth d)) = true ->
  v_check (e_issuer_verifier env) (iso_issuer_tbs (c_protected (rd_issuer_auth d)) payload) (c_sig (rd_issuer_auth d)) = true ->
  (* the disclosed items are the issued ones: digests and docType match (C09) *)
  data_bound d = true ->
  (* device: the holder signed with the issued device key over this session's structure *)
  mso_map payload = Some mso -> mso_device_key mso = Some (EC2 crv x (YValue y)) ->
  length x = 32%nat -> length y = 32%nat -> e_device_point_ok env = true ->
  rd_device_auth d = DSignature c -> c_payload c = None ->
  alg_gate (e_device_verifier env) (alg_of_protected (c_protected c)) = true ->
  v_parse (e_device_verifier env) (c_sig c) = true ->
  v_check (e_device_verifier env)
          (iso_device_tbs (c_protected c) (e_de env) (e_erk env) (e_handover env) (rd_doc_type d) (rd_device_ns d)) (c_sig c) = true ->
  validate_document env d = {| o_issuer := Valid; o_device := Valid; o_errors := []; o_reported := true |}.
Proof.
  intros Hx Hcv Hlk Hmo Hns Hp Hig His Hic Hdb Hmm Hdk Hlx Hly Hdp Hda Hcp Hdg Hds Hdc.
  assert (Hdev : device_authentication env d = DaOk).
  { unfold device_authentication. rewrite Hp, Hmo. cbn [negb]. rewrite Hmm, Hdk, Hlx, Hly. cbn [Nat.eqb andb negb].
    rewrite Hdp. cbn [negb]. rewrite Hda.
    assert (Hv : verify ctx_sign1 (e_device_verifier env) c
                        (Some (device_authentication_bytes env (rd_doc_type d) (rd_device_ns d))) None = VSuccess).
    { apply verify_iff. split; [exact Hdg|]. eexists. rewrite Hcp. split; [reflexivity|]. split; [exact Hds|exact Hdc]. }
    rewrite Hv. reflexivity. }
  assert (Hiss : issuer_authentication env d = IaOk).
  { unfold issuer_authentication, issuer_signature. rewrite Hlk. cbn [negb].
    assert (Hv : verify ctx_sign1 (e_issuer_verifier env) (rd_issuer_auth d) None None = VSuccess).
    { apply verify_iff. split; [exact Hig|]. exists payload. rewrite Hp. split; [reflexivity|]. split; [exact His|exact Hic]. }
    rewrite Hv, Hmo, Hdb. reflexivity. }
  unfold validate_document. rewrite Hx, Hns, Hdev, Hcv, Hiss. reflexivity.
Qed.
