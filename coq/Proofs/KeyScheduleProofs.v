From Isomdl Require Import Lib.Bytes Lib.Cbor Lib.Sha2 Lib.Hkdf Gen.Constants Proofs.CborProofs Model.KeySchedule Spec.Iso9_1_1.
Open Scope N_scope.

Theorem keys_spec zab de erk ho :
  session_key zab (transcript_bytes de erk ho) true = iso_sk_reader zab (iso_session_transcript de erk ho) /\
  session_key zab (transcript_bytes de erk ho) false = iso_sk_device zab (iso_session_transcript de erk ho).
Proof. split; reflexivity. Qed.

Theorem ble_spec ek : ble_ident ek = iso_ble_ident (encode (CTag 24 (CBytes ek))).
Proof. reflexivity. Qed.

Theorem key_lengths zab tb r ek : blen (session_key zab tb r) = 32 /\ blen (ble_ident ek) = 16.
Proof.
  split; unfold session_key, ble_ident, hkdf_sha256.
  - apply hkdf_expand_length. destruct r; vm_compute; discriminate.
  - apply hkdf_expand_length. vm_compute; discriminate.
Qed.

(* both roles compute from the same transcript bytes and the same shared secret, hence the same keys *)
Theorem both_roles_equal zab zab' tb tb' r : zab = zab' -> tb = tb' -> session_key zab tb r = session_key zab' tb' r.
Proof. intros -> ->. reflexivity. Qed.

Definition bytes_ok (b : bytes) : Prop := wf_bytes b = true /\ blen b < two64.
Definition cbor_ok (v : cbor) : Prop := wf v = true /\ len_ok v = true.

Lemma transcript_ok de erk ho : bytes_ok de -> bytes_ok erk -> cbor_ok ho -> cbor_ok (transcript_cbor de erk ho).
Proof.
  intros [H1 H2] [H3 H4] [H5 H6]. apply N.ltb_lt in H2, H4.
  split; cbn; rewrite ?H1, ?H3, ?H5, ?H6, ?H2, ?H4; reflexivity.
Qed.

(* different exchanged bytes or a different handover give different transcript bytes *)
Theorem transcript_injective de erk ho de' erk' ho' :
  bytes_ok de -> bytes_ok erk -> cbor_ok ho -> bytes_ok de' -> bytes_ok erk' -> cbor_ok ho' ->
  transcript_bytes de erk ho = transcript_bytes de' erk' ho' -> de = de' /\ erk = erk' /\ ho = ho'.
Proof.
  intros H1 H2 H3 H1' H2' H3' E. unfold transcript_bytes in E.
  destruct (transcript_ok de erk ho H1 H2 H3) as [W L]. destruct (transcript_ok de' erk' ho' H1' H2' H3') as [W' L'].
  apply encode_injective in E; try assumption. inversion E; subst. repeat split; reflexivity.
Qed.

(* ---------- peer key handling ---------- *)

Definition well_shaped (k : cose_key) : Prop :=
  match k with
  | EC2 1 x (YValue y) => length x = 32%nat /\ length y = 32%nat
  | EC2 1 x (YSign _) => length x = 32%nat
  | _ => False
  end.

Theorem shared_secret_well_shaped valid dh k :
  well_shaped k ->
  exists pt, encoded_point k = KOk pt /\
    shared_secret valid dh k = if valid pt then KOk (dh pt) else KErr.
Proof.
  destruct k as [crv x [y|s]|crv x]; cbn [well_shaped]; try contradiction;
    repeat (destruct crv as [|crv]; try contradiction; try (destruct crv as [crv|crv|]; try contradiction)).
  - intros [Hx Hy]. unfold shared_secret. cbn [encoded_point]. rewrite Hx, Hy. cbn. eexists. split; reflexivity.
  - intro Hx. unfold shared_secret. cbn [encoded_point]. rewrite Hx. cbn. eexists. split; reflexivity.
Qed.

(* the conversion never panics, whatever the key *)
Theorem encoded_point_total k : encoded_point k <> KPanic.
Proof.
  destruct k as [crv x [y|s]|crv x]; cbn [encoded_point]; try discriminate;
    repeat (destruct crv as [|crv]; try discriminate; try (destruct crv as [crv|crv|]; try discriminate)).
  - destruct (Nat.eqb (length x) 32), (Nat.eqb (length y) 32); discriminate.
  - destruct (Nat.eqb (length x) 32); discriminate.
Qed.

Definition well_shaped_b (k : cose_key) : bool :=
  match k with
  | EC2 1 x (YValue y) => Nat.eqb (length x) 32 && Nat.eqb (length y) 32
  | EC2 1 x (YSign _) => Nat.eqb (length x) 32
  | _ => false
  end.

(* a key that is not a well-shaped P-256 key is refused; a well-shaped one is refused exactly when
   the point oracle rejects it; nothing ever panics *)
Theorem bad_key_refused valid dh k :
  shared_secret valid dh k <> KPanic /\
  (well_shaped_b k = false -> shared_secret valid dh k = KErr) /\
  (forall pt, encoded_point k = KOk pt -> valid pt = false -> shared_secret valid dh k = KErr).
Proof.
  split; [|split].
  - unfold shared_secret. pose proof (encoded_point_total k) as H.
    destruct (encoded_point k) as [pt| |]; [destruct (valid pt); discriminate|discriminate|contradiction].
  - unfold shared_secret.
    destruct k as [crv x [y|s]|crv x]; cbn [well_shaped_b encoded_point]; try reflexivity;
      repeat (destruct crv as [|crv]; try reflexivity; try (destruct crv as [crv|crv|]; try reflexivity)).
    + destruct (Nat.eqb (length x) 32), (Nat.eqb (length y) 32); cbn; try discriminate; reflexivity.
    + destruct (Nat.eqb (length x) 32); cbn; try discriminate; reflexivity.
  - intros pt E Hv. unfold shared_secret. rewrite E, Hv. reflexivity.
Qed.
