(* Finite sweeps over one 400-year era of the proleptic Gregorian calendar (kept in their own file:
   they take about half a minute to evaluate). *)
From Isomdl Require Import Lib.Bytes Lib.Serde Model.Wire.Time.
From Coq Require Import ZArith Lia.
Open Scope Z_scope.

(* ---------- finite sweeps ---------- *)

Fixpoint all_from (n : nat) (z : Z) (f : Z -> bool) : bool :=
  match n with O => true | S k => if f z then all_from k (z + 1) f else false end.

Lemma all_from_spec n : forall z f, all_from n z f = true -> forall i, 0 <= i < Z.of_nat n -> f (z + i) = true.
Proof.
  induction n as [|n IH]; intros z f H i Hi; [lia|].
  cbn [all_from] in H. destruct (f z) eqn:E; [|discriminate].
  destruct (Z.eq_dec i 0) as [->|Hne]; [rewrite Z.add_0_r; exact E|].
  replace (z + i) with ((z + 1) + (i - 1)) by lia. apply (IH _ _ H). lia.
Qed.

Lemma all_from_spec_nat n : forall z f, all_from n z f = true -> forall i, (i < n)%nat -> f (z + Z.of_nat i) = true.
Proof. intros z f H i Hi. apply (all_from_spec n z f H). lia. Qed.

Definition triple_eqb (a b : Z * Z * Z) : bool :=
  let '(a1, a2, a3) := a in let '(b1, b2, b3) := b in (a1 =? b1) && (a2 =? b2) && (a3 =? b3).

Definition chk_day (z : Z) : bool :=
  let '(y, m, d) := civil_from_days z in (days_from_civil y m d =? z) && valid_date y m d.

Lemma sweep_days : all_from (Z.to_nat 146097) (-719468) chk_day = true.
Proof. vm_cast_no_check (eq_refl true). Qed.

Definition chk_date (y m d : Z) : bool :=
  if valid_date y m d then triple_eqb (civil_from_days (days_from_civil y m d)) (y, m, d) else true.

Lemma sweep_dates :
  all_from 400 0 (fun y => all_from 12 1 (fun m => all_from 31 1 (fun d => chk_date y m d))) = true.
Proof. vm_cast_no_check (eq_refl true). Qed.

