From Isomdl Require Import Lib.Bytes Gen.Constants Model.Iv Model.Session Spec.IsoIv Proofs.IvProofs.
Open Scope N_scope.

Lemma decrypt_some k nonce c p : decrypt k nonce c = Some p -> c = Enc k nonce p.
Proof.
  destruct c as [k' nonce' p'|]; cbn [decrypt]; [|discriminate].
  destruct (N.eqb_spec k k') as [->|]; cbn [andb]; [|discriminate].
  destruct (bytes_eqb nonce nonce') eqn:E; [|discriminate].
  apply bytes_eqb_eq in E. subst. intro H; inversion H; reflexivity.
Qed.

Lemma decrypt_enc k nonce p : decrypt k nonce (Enc k nonce p) = Some p.
Proof. cbn [decrypt]. rewrite N.eqb_refl, bytes_eqb_refl. reflexivity. Qed.

Lemma decrypt_none k nonce c : (forall p, c <> Enc k nonce p) -> decrypt k nonce c = None.
Proof.
  intro H. destruct (decrypt k nonce c) as [p|] eqn:E; [|reflexivity].
  apply decrypt_some in E. exfalso. apply (H p). exact E.
Qed.

Definition cipher_iv (c : cipher) : bytes := match c with Enc _ nonce _ => nonce | Junk => [] end.
Definition cipher_key (c : cipher) : N := match c with Enc k _ _ => k | Junk => 0 end.

Definition bump_recv (d : dev) : dev :=
  {| d_kr := d_kr d; d_kd := d_kd d; d_send := d_send d; d_recv := incr (d_recv d); d_state := d_state d |}.
Definition bump_rrecv (r : rdr) : rdr :=
  {| r_kr := r_kr r; r_kd := r_kd r; r_send := r_send r; r_recv := incr (r_recv r) |}.

(* the device acts on a plaintext only if the ciphertext is an encryption under sk_reader with
   the reader identifier and the device's receive counter + 1 *)
Theorem dev_accept_only_next d c d' ro em :
  dev_handle_request d (WData c) = (d', ro, em) ->
  ro <> RoDecryptionError ->
  exists p, c = Enc (d_kr d) (iv Reader (incr (d_recv d))) p.
Proof.
  unfold dev_handle_request, next_iv.
  destruct (decrypt (d_kr d) (iv Reader (incr (d_recv d))) c) as [p|] eqn:E.
  - intros _ _. exists p. apply decrypt_some. exact E.
  - intros H Hn. inversion H; subst. contradiction.
Qed.

(* every other ciphertext: decryption error, nothing derived from it, state and send counter
   untouched, nothing encrypted *)
Theorem dev_reject_shape d c :
  (forall p, c <> Enc (d_kr d) (iv Reader (incr (d_recv d))) p) ->
  dev_handle_request d (WData c) = (bump_recv d, RoDecryptionError, []).
Proof. intro H. unfold dev_handle_request, next_iv. rewrite decrypt_none by exact H. reflexivity. Qed.

Theorem dev_undecodable d : 
  dev_handle_request d WGarbage = (d, RoParsingError, []) /\ dev_handle_request d WNoData = (d, RoParsingError, []).
Proof. split; reflexivity. Qed.

Theorem rdr_accept_only_next r c r' ro :
  rdr_handle_response r (WData c) = (r', ro) ->
  ro <> RsDecryptionError ->
  exists p, c = Enc (r_kd r) (iv Device (incr (r_recv r))) p.
Proof.
  unfold rdr_handle_response, next_iv.
  destruct (decrypt (r_kd r) (iv Device (incr (r_recv r))) c) as [p|] eqn:E.
  - intros _ _. exists p. apply decrypt_some. exact E.
  - intros H Hn. inversion H; subst. contradiction.
Qed.

Theorem rdr_reject_shape r c :
  (forall p, c <> Enc (r_kd r) (iv Device (incr (r_recv r))) p) ->
  rdr_handle_response r (WData c) = (bump_rrecv r, RsDecryptionError).
Proof. intro H. unfold rdr_handle_response, next_iv. rewrite decrypt_none by exact H. reflexivity. Qed.

(* the peer's next message is accepted (completeness of the channel) *)
Theorem dev_accepts_next d p :
  exists d' ro em, dev_handle_request d (WData (Enc (d_kr d) (iv Reader (incr (d_recv d))) p)) = (d', ro, em)
                   /\ ro <> RoDecryptionError /\ ro <> RoParsingError.
Proof.
  unfold dev_handle_request, next_iv. rewrite decrypt_enc.
  destruct p; try (destruct (dev_finalize _) as [d'' em'']); eexists; eexists; eexists; (split; [reflexivity|split; discriminate]).
Qed.

Theorem rdr_accepts_next r p :
  exists r' ro, rdr_handle_response r (WData (Enc (r_kd r) (iv Device (incr (r_recv r))) p)) = (r', ro)
                /\ ro <> RsDecryptionError.
Proof.
  unfold rdr_handle_response, next_iv. rewrite decrypt_enc.
  destruct p; eexists; eexists; (split; [reflexivity|discriminate]).
Qed.

(* ---- instances named by the property ---- *)

Lemma iv_role_differs n m : iv Reader n <> iv Device m.
Proof.
  rewrite !iv_iso. unfold iso_iv. intro E. apply app_inj_pref in E; [|reflexivity]. destruct E as [E _]. discriminate.
Qed.

Lemma iv_ctr_inj r n m : n < two32 -> m < two32 -> iv r n = iv r m -> n = m.
Proof. intros Hn Hm E. rewrite !iv_iso in E. apply iso_iv_inj in E; [tauto|exact Hn|exact Hm]. Qed.

(* reflection: whatever a device-role encryption is, no device accepts it as a request, and no
   reader accepts a reader-role encryption as a response — whatever the keys *)
Theorem reflection_rejected_dev d k n p :
  dev_handle_request d (WData (Enc k (iv Device n) p)) = (bump_recv d, RoDecryptionError, []).
Proof. apply dev_reject_shape. intros p' E. pose proof (f_equal cipher_iv E) as Hiv; cbn [cipher_iv] in Hiv. symmetry in Hiv. exact (iv_role_differs _ _ Hiv). Qed.

Theorem reflection_rejected_rdr r k n p :
  rdr_handle_response r (WData (Enc k (iv Reader n) p)) = (bump_rrecv r, RsDecryptionError).
Proof. apply rdr_reject_shape. intros p' E. pose proof (f_equal cipher_iv E) as Hiv; cbn [cipher_iv] in Hiv. exact (iv_role_differs _ _ Hiv). Qed.

(* other keys *)
Theorem foreign_key_rejected_dev d k nonce p : k <> d_kr d ->
  dev_handle_request d (WData (Enc k nonce p)) = (bump_recv d, RoDecryptionError, []).
Proof. intro Hk. apply dev_reject_shape. intros p' E. apply (f_equal cipher_key) in E. cbn [cipher_key] in E. contradiction. Qed.

Theorem foreign_key_rejected_rdr r k nonce p : k <> r_kd r ->
  rdr_handle_response r (WData (Enc k nonce p)) = (bump_rrecv r, RsDecryptionError).
Proof. intro Hk. apply rdr_reject_shape. intros p' E. apply (f_equal cipher_key) in E. cbn [cipher_key] in E. contradiction. Qed.

(* modified / truncated ciphertexts are Junk under the ideal-AEAD abstraction *)
Theorem junk_rejected d r :
  dev_handle_request d (WData Junk) = (bump_recv d, RoDecryptionError, []) /\
  rdr_handle_response r (WData Junk) = (bump_rrecv r, RsDecryptionError).
Proof. split; [apply dev_reject_shape|apply rdr_reject_shape]; intros p E; discriminate. Qed.

(* replay and reordering: a ciphertext carrying counter m is accepted only when the receive
   counter is m - 1; in particular once accepted (or once the counter has passed it) it is never
   accepted again below 2^32 attempts *)
Theorem wrong_counter_rejected_dev d k m p :
  m < two32 -> d_recv d + 1 < two32 -> m <> d_recv d + 1 ->
  dev_handle_request d (WData (Enc k (iv Reader m) p)) = (bump_recv d, RoDecryptionError, []).
Proof.
  intros Hm Hd Hne. apply dev_reject_shape. intros p' E. pose proof (f_equal cipher_iv E) as Hiv; cbn [cipher_iv] in Hiv.
  apply iv_ctr_inj in Hiv; [|exact Hm|rewrite incr_small by exact Hd; exact Hd].
  rewrite incr_small in Hiv by exact Hd. contradiction.
Qed.

Theorem wrong_counter_rejected_rdr r k m p :
  m < two32 -> r_recv r + 1 < two32 -> m <> r_recv r + 1 ->
  rdr_handle_response r (WData (Enc k (iv Device m) p)) = (bump_rrecv r, RsDecryptionError).
Proof.
  intros Hm Hd Hne. apply rdr_reject_shape. intros p' E. pose proof (f_equal cipher_iv E) as Hiv; cbn [cipher_iv] in Hiv.
  apply iv_ctr_inj in Hiv; [|exact Hm|rewrite incr_small by exact Hd; exact Hd].
  rewrite incr_small in Hiv by exact Hd. contradiction.
Qed.

(* along a whole history: the device's receive counter equals the number of decryption attempts,
   so "next in sequence" is relative to the attempts made so far *)
Definition dev_attempt (o : op) : bool := match o with OHandleRequest (WData _) => true | _ => false end.
Definition rdr_attempt (o : op) : bool := match o with OHandleResponse (WData _) => true | _ => false end.

Lemma step_recv s o s' x em :
  step s o = (s', x, em) ->
  d_recv (s_dev s') = (if dev_attempt o then incr (d_recv (s_dev s)) else d_recv (s_dev s)) /\
  r_recv (s_rdr s') = (if rdr_attempt o then incr (r_recv (s_rdr s)) else r_recv (s_rdr s)) /\
  d_kr (s_dev s') = d_kr (s_dev s) /\ r_kd (s_rdr s') = r_kd (s_rdr s).
Proof.
  destruct o; cbn [step dev_attempt rdr_attempt]; intro H.
  - unfold rdr_new_request, next_iv in H. inversion H; subst. repeat split; reflexivity.
  - destruct (dev_handle_request (s_dev s) w) as [[d' ro] em'] eqn:E. inversion H; subst; clear H. cbn [s_dev s_rdr].
    unfold dev_handle_request, next_iv in E. destruct w as [| |c].
    + inversion E; subst. repeat split; reflexivity.
    + inversion E; subst. repeat split; reflexivity.
    + destruct (decrypt _ _ c) as [pl|].
      * destruct pl;
          try (inversion E; subst; repeat split; reflexivity);
          match type of E with context [dev_finalize ?x] => destruct (dev_finalize x) as [d'' em''] eqn:Ef end;
          inversion E; subst; apply dev_finalize_spec in Ef; cbn in Ef; destruct Ef as [H1 [_ [H3 _]]];
          repeat split; try reflexivity; assumption.
      * inversion E; subst. repeat split; reflexivity.
  - destruct (dev_prepare (s_dev s) docs errs) as [d' em'] eqn:E. inversion H; subst; clear H. cbn [s_dev s_rdr].
    unfold dev_prepare in E. apply dev_finalize_spec in E. cbn in E. destruct E as [H1 [_ [H3 _]]].
    repeat split; try reflexivity; assumption.
  - inversion H; subst. repeat split; reflexivity.
  - destruct (dev_submit (s_dev s) sg) as [d' em'] eqn:E. inversion H; subst; clear H. cbn [s_dev s_rdr].
    unfold dev_submit in E. destruct (d_state (s_dev s)).
    + inversion E; subst. repeat split; reflexivity.
    + apply dev_finalize_spec in E. cbn in E. destruct E as [H1 [_ [H3 _]]]. repeat split; try reflexivity; assumption.
    + inversion E; subst. repeat split; reflexivity.
  - inversion H; subst. repeat split; reflexivity.
  - destruct (dev_retrieve (s_dev s)) as [d' w] eqn:E. inversion H; subst; clear H. cbn [s_dev s_rdr].
    unfold dev_retrieve in E. destruct (d_state (s_dev s)); inversion E; subst; repeat split; reflexivity.
  - destruct (rdr_handle_response (s_rdr s) w) as [r' ro] eqn:E. inversion H; subst; clear H. cbn [s_dev s_rdr].
    unfold rdr_handle_response, next_iv in E. destruct w as [| |c].
    + inversion E; subst. repeat split; reflexivity.
    + inversion E; subst. repeat split; reflexivity.
    + destruct (decrypt _ _ c) as [[]|]; inversion E; subst; repeat split; reflexivity.
  - inversion H; subst. repeat split; reflexivity.
  - inversion H; subst. repeat split; reflexivity.
Qed.

Fixpoint count_b {X} (f : X -> bool) (l : list X) : N :=
  match l with [] => 0 | x :: r => (if f x then 1 else 0) + count_b f r end.

Lemma run_recv ops : forall s,
  d_recv (s_dev s) + count_b dev_attempt ops < two32 ->
  r_recv (s_rdr s) + count_b rdr_attempt ops < two32 ->
  let s' := fst (fst (run ops s)) in
  d_recv (s_dev s') = d_recv (s_dev s) + count_b dev_attempt ops /\
  r_recv (s_rdr s') = r_recv (s_rdr s) + count_b rdr_attempt ops /\
  d_kr (s_dev s') = d_kr (s_dev s) /\ r_kd (s_rdr s') = r_kd (s_rdr s).
Proof.
  induction ops as [|o ops IH]; intros s Hd Hr; cbn [run count_b] in *.
  - cbn. repeat split; lia.
  - destruct (step s o) as [[s1 x] em] eqn:Es. destruct (step_recv _ _ _ _ _ Es) as [H1 [H2 [H3 H4]]].
    specialize (IH s1). destruct (run ops s1) as [[s2 xs] ems]. cbn [fst] in *.
    rewrite H1, H2, H3, H4 in IH.
    destruct (dev_attempt o), (rdr_attempt o).
    all: try rewrite (incr_small (d_recv (s_dev s))) in IH by lia.
    all: try rewrite (incr_small (r_recv (s_rdr s))) in IH by lia.
    all: specialize (IH ltac:(lia) ltac:(lia)); destruct IH as [I1 [I2 [I3 I4]]].
    all: repeat split; try assumption; lia.
Qed.

(* the history-level statement: in any history from a fresh session, whenever the device acts on
   a delivered ciphertext, that ciphertext is the encryption under sk_reader whose IV is
   reader-identifier || (number of decryption attempts so far + 1) *)
Theorem accept_only_next_in_history pre c kr kd :
  count_b dev_attempt pre + 1 < two32 -> count_b rdr_attempt pre < two32 ->
  let s := fst (fst (run pre (fresh kr kd))) in
  forall d' ro em, dev_handle_request (s_dev s) (WData c) = (d', ro, em) ->
  ro <> RoDecryptionError ->
  exists p, c = Enc kr (iso_iv Reader (count_b dev_attempt pre + 1)) p.
Proof.
  intros Hd Hr. cbv zeta. intros d' ro em H Hn.
  destruct (run_recv pre (fresh kr kd)) as [H1 [_ [H3 _]]]; [cbn; lia|cbn; lia|].
  apply dev_accept_only_next in H; [|exact Hn]. destruct H as [p ->]. exists p.
  cbn in H1, H3. rewrite H1, H3. rewrite incr_small by lia. rewrite iv_iso. f_equal; try (f_equal; lia).
Qed.

Theorem rdr_accept_only_next_in_history pre c kr kd :
  count_b dev_attempt pre < two32 -> count_b rdr_attempt pre + 1 < two32 ->
  let s := fst (fst (run pre (fresh kr kd))) in
  forall r' ro, rdr_handle_response (s_rdr s) (WData c) = (r', ro) ->
  ro <> RsDecryptionError ->
  exists p, c = Enc kd (iso_iv Device (count_b rdr_attempt pre + 1)) p.
Proof.
  intros Hd Hr. cbv zeta. intros r' ro H Hn.
  destruct (run_recv pre (fresh kr kd)) as [_ [H2 [_ H4]]]; [cbn; lia|cbn; lia|].
  apply rdr_accept_only_next in H; [|exact Hn]. destruct H as [p ->]. exists p.
  cbn in H2, H4. rewrite H2, H4. rewrite incr_small by lia. rewrite iv_iso. f_equal; try (f_equal; lia).
Qed.
