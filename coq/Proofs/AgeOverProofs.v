From Isomdl Require Import Lib.Bytes Lib.Cbor Model.AgeOver Spec.AgeOverSpec.
Open Scope N_scope.

Section Proofs.
  Context {A : Type}.
  Notation entry := (@entry A).

  Lemma partition_filter {X} (f : X -> bool) l :
    partition f l = (filter f l, filter (fun x => negb (f x)) l).
  Proof.
    induction l as [|x l IH]; cbn [partition filter]; [reflexivity|].
    rewrite IH. destruct (f x); reflexivity.
  Qed.

  (* number_claims: succeeds iff every identifier parses; result pairs each entry with its age *)
  Lemma number_claims_ok (l : list entry) nl :
    number_claims l = AOk nl ->
    map snd nl = l /\ Forall (fun x => parse_age (e_id (snd x)) = AOk (fst x)) nl.
  Proof.
    revert nl; induction l as [|e l IH]; intros nl H; cbn [number_claims] in H.
    - inversion H; subst. split; [reflexivity|constructor].
    - destruct (parse_age (e_id e)) as [n|] eqn:En; [|discriminate].
      destruct (number_claims l) as [r'|] eqn:Er; [|discriminate].
      inversion H; subst. destruct (IH _ eq_refl) as [Hm Hf].
      split; [cbn; f_equal; exact Hm|]. constructor; [exact En|exact Hf].
  Qed.

  Lemma number_claims_total (l : list entry) :
    (forall e, In e l -> exists n, parse_age (e_id e) = AOk n) ->
    exists nl, number_claims l = AOk nl.
  Proof.
    induction l as [|e l IH]; intro H; cbn [number_claims]; [eexists; reflexivity|].
    destruct (H e (or_introl eq_refl)) as [n ->].
    destruct IH as [nl ->]; [intros e' He'; apply H; right; exact He'|].
    eexists; reflexivity.
  Qed.

  Lemma number_claims_err (l : list entry) x :
    number_claims l = AErr x -> exists e, In e l /\ parse_age (e_id e) = AErr x.
  Proof.
    induction l as [|e l IH]; cbn [number_claims]; intro H; [discriminate|].
    destruct (parse_age (e_id e)) as [n|y] eqn:En.
    - destruct (number_claims l) as [r'|y] eqn:Er; [discriminate|].
      inversion H; subst. destruct (IH eq_refl) as [e' [Hi Hp]]. exists e'. split; [right; exact Hi|exact Hp].
    - inversion H; subst. exists e. split; [left; reflexivity|exact En].
  Qed.

  Lemma min_first_acc_spec (best : N * entry) l :
    let c := min_first_acc best l in
    (c = best \/ In c l) /\ fst c <= fst best /\ forall x, In x l -> fst c <= fst x.
  Proof.
    revert best; induction l as [|x l IH]; intro best; cbn [min_first_acc].
    - split; [left; reflexivity|]. split; [lia|]. intros x [].
    - specialize (IH (if fst x <? fst best then x else best)).
      cbv zeta in IH. destruct IH as [Hin [Hle Hall]].
      destruct (N.ltb_spec (fst x) (fst best)) as [Hlt|Hge].
      + split; [destruct Hin as [->|Hin]; [right; left; reflexivity|right; right; exact Hin]|].
        split; [lia|]. intros y [<-|Hy]; [exact Hle|apply Hall; exact Hy].
      + split; [destruct Hin as [->|Hin]; [left; reflexivity|right; right; exact Hin]|].
        split; [exact Hle|]. intros y [<-|Hy]; [lia|apply Hall; exact Hy].
  Qed.

  Lemma min_first_spec (l : list (N * entry)) :
    match min_first l with
    | Some c => In c l /\ forall x, In x l -> fst c <= fst x
    | None => l = []
    end.
  Proof.
    destruct l as [|x l]; cbn [min_first]; [reflexivity|].
    destruct (min_first_acc_spec x l) as [Hin [Hle Hall]].
    split; [destruct Hin as [->|Hin]; [left; reflexivity|right; exact Hin]|].
    intros y [<-|Hy]; [exact Hle|apply Hall; exact Hy].
  Qed.

  Lemma max_last_acc_spec (best : N * entry) l :
    let c := max_last_acc best l in
    (c = best \/ In c l) /\ fst best <= fst c /\ forall x, In x l -> fst x <= fst c.
  Proof.
    revert best; induction l as [|x l IH]; intro best; cbn [max_last_acc].
    - split; [left; reflexivity|]. split; [lia|]. intros x [].
    - specialize (IH (if fst best <=? fst x then x else best)).
      cbv zeta in IH. destruct IH as [Hin [Hle Hall]].
      destruct (N.leb_spec (fst best) (fst x)) as [Hle'|Hgt].
      + split; [destruct Hin as [->|Hin]; [right; left; reflexivity|right; right; exact Hin]|].
        split; [lia|]. intros y [<-|Hy]; [exact Hle|apply Hall; exact Hy].
      + split; [destruct Hin as [->|Hin]; [left; reflexivity|right; right; exact Hin]|].
        split; [exact Hle|]. intros y [<-|Hy]; [lia|apply Hall; exact Hy].
  Qed.

  Lemma max_last_spec (l : list (N * entry)) :
    match max_last l with
    | Some c => In c l /\ forall x, In x l -> fst x <= fst c
    | None => l = []
    end.
  Proof.
    destruct l as [|x l]; cbn [max_last]; [reflexivity|].
    destruct (max_last_acc_spec x l) as [Hin [Hle Hall]].
    split; [destruct Hin as [->|Hin]; [left; reflexivity|right; exact Hin]|].
    intros y [<-|Hy]; [exact Hle|apply Hall; exact Hy].
  Qed.

  Lemma is_true_val_iff v : is_true_val v = true <-> v = CBool true.
  Proof. destruct v as [| | | | | | |[|]| |]; cbn; split; intro H; try discriminate; try reflexivity. Qed.

  (* membership in the numbered list *)
  Lemma numbered_in (l : list entry) nl x :
    map snd nl = l -> Forall (fun x => parse_age (e_id (snd x)) = AOk (fst x)) nl ->
    In x nl -> In (snd x) l /\ parse_age (e_id (snd x)) = AOk (fst x).
  Proof.
    intros Hm Hf Hi. split; [rewrite <- Hm; apply in_map; exact Hi|].
    rewrite Forall_forall in Hf. apply Hf; exact Hi.
  Qed.

  Lemma numbered_in_rev (l : list entry) nl e n :
    map snd nl = l -> Forall (fun x => parse_age (e_id (snd x)) = AOk (fst x)) nl ->
    In e l -> parse_age (e_id e) = AOk n -> In (n, e) nl.
  Proof.
    intros Hm Hf Hi Hp. rewrite <- Hm in Hi. apply in_map_iff in Hi as [[n' e'] [He Hi]].
    cbn in He; subst e'. rewrite Forall_forall in Hf. specialize (Hf _ Hi). cbn in Hf.
    rewrite Hp in Hf. inversion Hf; subst. exact Hi.
  Qed.

  Theorem nearest_correct (req : bytes) (held : list entry) nn :
    parse_age req = AOk nn -> held_wf held ->
    exists r, nearest req held = AOk r /\ nearest_spec nn held r.
  Proof.
    intros Hreq Hwf. unfold nearest. rewrite Hreq.
    set (owned := filter (fun e => contains age_over_infix (e_id e)) held).
    assert (Hown : forall e, In e owned <-> In e held /\ is_claim e).
    { intro e. unfold owned. rewrite filter_In. reflexivity. }
    destruct (number_claims_total owned) as [nl Hnl].
    { intros e He. apply Hown in He as [Hh Hc]. destruct (Hwf e Hh Hc) as [Hn _]. exact Hn. }
    rewrite Hnl. destruct (number_claims_ok _ _ Hnl) as [Hmap Hall].
    rewrite partition_filter.
    set (ts := filter (fun x => is_true_val (e_val (snd x))) nl).
    set (fs := filter (fun x => negb (is_true_val (e_val (snd x)))) nl).
    (* facts about a numbered claim *)
    assert (Hnum : forall x, In x nl -> In (snd x) held /\ is_claim (snd x) /\ age_of (snd x) (fst x)).
    { intros x Hx. destruct (numbered_in _ _ _ Hmap Hall Hx) as [Hi Hp].
      apply Hown in Hi as [Hh Hc]. repeat split; assumption. }
    assert (Hrev : forall e n, In e held -> is_claim e -> age_of e n -> In (n, e) nl).
    { intros e n Hh Hc Ha. apply (numbered_in_rev owned nl e n Hmap Hall); [apply Hown; split; assumption|exact Ha]. }
    pose proof (min_first_spec (filter (fun x => nn <=? fst x) ts)) as Hmin.
    destruct (min_first (filter (fun x => nn <=? fst x) ts)) as [c|].
    - (* a true claim at least nn *)
      destruct Hmin as [Hcin Hcmin]. apply filter_In in Hcin as [Hcts Hcge].
      unfold ts in Hcts. apply filter_In in Hcts as [Hcnl Hctrue].
      apply is_true_val_iff in Hctrue. apply N.leb_le in Hcge.
      destruct (Hnum c Hcnl) as [Hch [Hcc Hca]].
      exists (Some (snd c)). split; [reflexivity|]. cbn [nearest_spec].
      split; [exact Hch|]. split; [exact Hcc|]. split.
      { exists (fst c). split; [exact Hca|]. left. split; assumption. }
      split.
      + intros _ c' n n' Hh' Hc' Ht' Hn Hn' Hge.
        unfold age_of in Hn, Hca. rewrite Hca in Hn. inversion Hn; subst n.
        specialize (Hcmin (n', c')). cbn in Hcmin. apply Hcmin.
        apply filter_In. split; [|apply N.leb_le; exact Hge].
        unfold ts. apply filter_In. split; [apply Hrev; assumption|].
        cbn. apply is_true_val_iff. exact Ht'.
      + intro Hf. unfold claim_false in Hf. unfold claim_true in Hctrue. congruence.
    - (* no true claim >= nn *)
      assert (Hnotrue : forall c' n', In c' held -> is_claim c' -> claim_true c' -> age_of c' n' -> n' < nn).
      { intros c' n' Hh' Hc' Ht' Hn'.
        destruct (N.lt_ge_cases n' nn) as [Hlt|Hge]; [exact Hlt|exfalso].
        assert (Hin : In (n', c') (filter (fun x => nn <=? fst x) ts)).
        { apply filter_In. split; [|apply N.leb_le; exact Hge].
          unfold ts. apply filter_In. split; [apply Hrev; assumption|].
          cbn. apply is_true_val_iff. exact Ht'. }
        rewrite Hmin in Hin. exact Hin. }
      pose proof (max_last_spec (filter (fun x => fst x <=? nn) fs)) as Hmax.
      destruct (max_last (filter (fun x => fst x <=? nn) fs)) as [c|].
      + destruct Hmax as [Hcin Hcmax]. apply filter_In in Hcin as [Hcfs Hcle].
        unfold fs in Hcfs. apply filter_In in Hcfs as [Hcnl Hcnt].
        apply N.leb_le in Hcle. destruct (Hnum c Hcnl) as [Hch [Hcc Hca]].
        assert (Hcfalse : claim_false (snd c)).
        { destruct (Hwf _ Hch Hcc) as [_ [Ht|Hf]]; [|exact Hf].
          apply is_true_val_iff in Ht. rewrite Ht in Hcnt. discriminate. }
        exists (Some (snd c)). split; [reflexivity|]. cbn [nearest_spec].
        split; [exact Hch|]. split; [exact Hcc|]. split.
        { exists (fst c). split; [exact Hca|]. right. split; assumption. }
        split.
        * intro Ht. unfold claim_true in Ht. unfold claim_false in Hcfalse. congruence.
        * intros _. split; [exact Hnotrue|].
          intros c' n n' Hh' Hc' Hf' Hn Hn' Hle.
          unfold age_of in Hn, Hca. rewrite Hca in Hn. inversion Hn; subst n.
          specialize (Hcmax (n', c')). cbn in Hcmax. apply Hcmax.
          apply filter_In. split; [|apply N.leb_le; exact Hle].
          unfold fs. apply filter_In. split; [apply Hrev; assumption|].
          cbn. unfold claim_false in Hf'. rewrite Hf'. reflexivity.
      + exists None. split; [reflexivity|]. cbn [nearest_spec].
        intros c' n' Hh' Hc' Hn'. split; [intro Ht'; apply (Hnotrue c' n'); assumption|].
        intro Hf'. destruct (N.lt_ge_cases nn n') as [Hlt|Hge]; [exact Hlt|exfalso].
        assert (Hin : In (n', c') (filter (fun x => fst x <=? nn) fs)).
        { apply filter_In. split; [|apply N.leb_le; exact Hge].
          unfold fs. apply filter_In. split; [apply Hrev; assumption|].
          cbn. unfold claim_false in Hf'. rewrite Hf'. reflexivity. }
        rewrite Hmax in Hin. exact Hin.
  Qed.

  (* whatever is returned is an element of the held list, unchanged, and answers the request:
     needs no well-formedness of the held set beyond what the code itself checks *)
  Theorem nearest_unchanged (req : bytes) (held : list entry) c :
    nearest req held = AOk (Some c) -> In c held.
  Proof.
    unfold nearest. destruct (parse_age req) as [nn|]; [|discriminate].
    destruct (number_claims _) as [nl|] eqn:Hnl; [|discriminate].
    destruct (number_claims_ok _ _ Hnl) as [Hmap Hall].
    rewrite partition_filter.
    assert (Hin : forall x, In x nl -> In (snd x) held).
    { intros x Hx. assert (In (snd x) (map snd nl)) as Hi by (apply in_map; exact Hx).
      rewrite Hmap in Hi. apply filter_In in Hi as [Hi _]. exact Hi. }
    match goal with |- context [min_first ?l] => pose proof (min_first_spec l) as Hmin; destruct (min_first l) as [m|] end.
    - intro H; inversion H; subst. destruct Hmin as [Hm _].
      apply filter_In in Hm as [Hm _]. apply filter_In in Hm as [Hm _]. apply Hin; exact Hm.
    - match goal with |- context [max_last ?l] => pose proof (max_last_spec l) as Hmax; destruct (max_last l) as [m|] end.
      + intro H; inversion H; subst. destruct Hmax as [Hm _].
        apply filter_In in Hm as [Hm _]. apply filter_In in Hm as [Hm _]. apply Hin; exact Hm.
      + discriminate.
  Qed.

  Theorem nearest_answers (req : bytes) (held : list entry) c :
    nearest req held = AOk (Some c) ->
    exists nn n, parse_age req = AOk nn /\ parse_age (e_id c) = AOk n /\
      ((e_val c = CBool true /\ nn <= n) \/ (e_val c <> CBool true /\ n <= nn)).
  Proof.
    unfold nearest. destruct (parse_age req) as [nn|]; [|discriminate].
    destruct (number_claims _) as [nl|] eqn:Hnl; [|discriminate].
    destruct (number_claims_ok _ _ Hnl) as [Hmap Hall]. rewrite Forall_forall in Hall.
    rewrite partition_filter.
    match goal with |- context [min_first ?l] => pose proof (min_first_spec l) as Hmin; destruct (min_first l) as [m|] end.
    - intro H; inversion H; subst. destruct Hmin as [Hm _].
      apply filter_In in Hm as [Hm Hge]. apply filter_In in Hm as [Hm Ht].
      exists nn, (fst m). split; [reflexivity|]. split; [apply Hall; exact Hm|].
      left. split; [apply is_true_val_iff; exact Ht|apply N.leb_le; exact Hge].
    - match goal with |- context [max_last ?l] => pose proof (max_last_spec l) as Hmax; destruct (max_last l) as [m|] end.
      + intro H; inversion H; subst. destruct Hmax as [Hm _].
        apply filter_In in Hm as [Hm Hle]. apply filter_In in Hm as [Hm Hf].
        exists nn, (fst m). split; [reflexivity|]. split; [apply Hall; exact Hm|].
        right. split; [|apply N.leb_le; exact Hle].
        intro Ht. apply is_true_val_iff in Ht. rewrite Ht in Hf. discriminate.
      + discriminate.
  Qed.

  Theorem nearest_malformed_request (req : bytes) (held : list entry) e :
    parse_age req = AErr e -> nearest req held = AErr e.
  Proof. intro H. unfold nearest. rewrite H. reflexivity. Qed.
End Proofs.

(* identifier grammar: parse_age accepts exactly "age_over_" [+] digits with value <= 255 *)
Lemma parse_age_prefix id n : parse_age id = AOk n -> exists x, id = age_over_prefix ++ x /\ parse_u8 x = Some n.
Proof.
  unfold parse_age. destruct (strip_prefix age_over_prefix id) as [x|] eqn:E; [|discriminate].
  destruct (parse_u8 x) as [m|] eqn:Em; [|discriminate]. intro H; inversion H; subst.
  exists x. split; [apply strip_prefix_some; exact E|exact Em].
Qed.

Lemma parse_digits_bound acc bs n : acc <= 255 -> parse_digits acc bs = Some n -> n <= 255.
Proof.
  revert acc; induction bs as [|b r IH]; intros acc Hacc; cbn [parse_digits].
  - intro H; inversion H; subst; exact Hacc.
  - destruct (digit b) as [d|]; [|discriminate].
    destruct (N.leb_spec (acc * 10 + d) 255) as [Hle|]; [|discriminate]. apply IH; exact Hle.
Qed.

Lemma parse_age_u8 id n : parse_age id = AOk n -> n <= 255.
Proof.
  intro H. apply parse_age_prefix in H as [x [_ Hx]]. unfold parse_u8 in Hx.
  destruct x as [|b r]; [discriminate|].
  destruct (N.eqb_spec b 43) as [->|Hne].
  - destruct r; [discriminate|]. eapply parse_digits_bound; [|exact Hx]. lia.
  - assert (Hx' : parse_digits 0 (b :: r) = Some n).
    { destruct b as [|p]; [exact Hx|]. repeat (destruct p as [p|p|]; try exact Hx). congruence. }
    eapply parse_digits_bound; [|exact Hx']. lia.
Qed.
