From Isomdl Require Import Lib.Bytes Lib.Utf8 Lib.Cbor Proofs.CborProofs Model.Cose Spec.CoseRfc.
Open Scope N_scope.

Lemma tbs_sign1_rfc p a m : tbs_structure ctx_sign1 p a m = rfc_tbs_sign1 p a m.
Proof. reflexivity. Qed.
Lemma tbs_mac0_rfc p a m : tbs_structure ctx_mac0 p a m = rfc_tbs_mac0 p a m.
Proof. reflexivity. Qed.

Lemma select_exactly_one att det :
  select_payload att det = match exactly_one att det with
                           | Some p => POk p
                           | None => match att with Some _ => PErr DoublePayload | None => PErr NoPayload end
                           end.
Proof. destruct att, det; reflexivity. Qed.

Theorem prepare_is_rfc c det aad :
  prepare ctx_sign1 c det aad =
    match exactly_one (c_payload c) det with
    | Some p => POk (rfc_tbs_sign1 (c_protected c) (match aad with Some a => a | None => [] end) p)
    | None => match c_payload c with Some _ => PErr DoublePayload | None => PErr NoPayload end
    end
  /\
  prepare ctx_mac0 c det aad =
    match exactly_one (c_payload c) det with
    | Some p => POk (rfc_tbs_mac0 (c_protected c) (match aad with Some a => a | None => [] end) p)
    | None => match c_payload c with Some _ => PErr DoublePayload | None => PErr NoPayload end
    end.
Proof.
  unfold prepare. rewrite select_exactly_one.
  destruct (exactly_one (c_payload c) det); [split; reflexivity|]. destruct (c_payload c); split; reflexivity.
Qed.

Theorem finalize_unchanged c sg :
  c_sig (finalize c sg) = sg /\ c_protected (finalize c sg) = c_protected c /\
  c_unprotected (finalize c sg) = c_unprotected c /\ c_payload (finalize c sg) = c_payload c /\
  c_tagged (finalize c sg) = c_tagged c.
Proof. repeat split; reflexivity. Qed.

(* the to-be-signed bytes do not depend on the signature field, so finalising does not change them *)
Theorem prepare_after_finalize ctx c sg det aad : prepare ctx (finalize c sg) det aad = prepare ctx c det aad.
Proof. reflexivity. Qed.

Theorem cose1_wire_roundtrip tag c : cose1_of_cbor tag (cose1_to_cbor tag c) = Some c.
Proof.
  unfold cose1_to_cbor, cose1_of_cbor. destruct c as [tg p u [pl|] sg]; destruct tg; cbn; rewrite ?N.eqb_refl; reflexivity.
Qed.

(* ---------- injectivity of the to-be-signed encoding ---------- *)

Definition bytes_ok (b : bytes) : Prop := wf_bytes b = true /\ blen b < two64.

Lemma tbs_cbor_ok ctx p a m :
  bytes_ok ctx -> utf8_valid ctx = true -> bytes_ok p -> bytes_ok a -> bytes_ok m ->
  wf (CArray [CText ctx; CBytes p; CBytes a; CBytes m]) = true /\
  len_ok (CArray [CText ctx; CBytes p; CBytes a; CBytes m]) = true.
Proof.
  intros [Hc1 Hc2] Hu [Hp1 Hp2] [Ha1 Ha2] [Hm1 Hm2].
  apply N.ltb_lt in Hc2, Hp2, Ha2, Hm2.
  split; cbn; rewrite ?Hc1, ?Hu, ?Hp1, ?Ha1, ?Hm1, ?Hc2, ?Hp2, ?Ha2, ?Hm2; reflexivity.
Qed.

Theorem tbs_injective ctx p a m ctx' p' a' m' :
  bytes_ok ctx -> utf8_valid ctx = true -> bytes_ok p -> bytes_ok a -> bytes_ok m ->
  bytes_ok ctx' -> utf8_valid ctx' = true -> bytes_ok p' -> bytes_ok a' -> bytes_ok m' ->
  tbs_structure ctx p a m = tbs_structure ctx' p' a' m' ->
  ctx = ctx' /\ p = p' /\ a = a' /\ m = m'.
Proof.
  intros H1 H2 H3 H4 H5 H1' H2' H3' H4' H5' E. unfold tbs_structure in E.
  destruct (tbs_cbor_ok ctx p a m H1 H2 H3 H4 H5) as [W L].
  destruct (tbs_cbor_ok ctx' p' a' m' H1' H2' H3' H4' H5') as [W' L'].
  apply encode_injective in E; try assumption. inversion E; subst. repeat split; reflexivity.
Qed.

(* ---------- verification ---------- *)

Theorem verify_iff ctx v c det aad :
  verify ctx v c det aad = VSuccess <->
  alg_gate v (alg_of_protected (c_protected c)) = true /\
  exists p, exactly_one (c_payload c) det = Some p /\
            v_parse v (c_sig c) = true /\
            v_check v (tbs_structure ctx (c_protected c) (aad_or_empty aad) p) (c_sig c) = true.
Proof.
  unfold verify. rewrite select_exactly_one.
  destruct (alg_gate v (alg_of_protected (c_protected c))); cbn [negb].
  - destruct (exactly_one (c_payload c) det) as [p|].
    + destruct (v_parse v (c_sig c)); cbn [negb].
      * destruct (v_check v _ (c_sig c)) eqn:Ec.
        -- split; [intros _; split; [reflexivity|exists p; repeat split; assumption]|reflexivity].
        -- split; [discriminate|]. intros [_ [p' [Hp [_ Hc]]]]. inversion Hp; subst. rewrite Ec in Hc. discriminate.
      * split; [discriminate|]. intros [_ [p' [_ [Hp _]]]]. discriminate.
    + split.
      * destruct (c_payload c); discriminate.
      * intros [_ [p' [Hp _]]]. discriminate.
  - split; [discriminate|]. intros [H _]. discriminate.
Qed.

Theorem exactly_one_payload ctx v c det aad :
  verify ctx v c det aad = VSuccess ->
  (c_payload c <> None /\ det = None) \/ (c_payload c = None /\ det <> None).
Proof.
  intro H. apply verify_iff in H as [_ [p [Hp _]]].
  destruct (c_payload c), det; try discriminate; [left|right]; split; congruence.
Qed.

Theorem alg_mismatch_refused ctx v c det aad :
  (exists z, alg_of_protected (c_protected c) = AlgInt z /\ z <> v_alg v) \/
  (exists s, alg_of_protected (c_protected c) = AlgText s) ->
  verify ctx v c det aad = VFailAlg.
Proof.
  intros [[z [Hz Hne]]|[s Hs]]; unfold verify.
  - rewrite Hz. cbn [alg_gate]. destruct (Z.eqb_spec z (v_alg v)); [contradiction|reflexivity].
  - rewrite Hs. reflexivity.
Qed.

Theorem not_authentic_refused ctx v c det aad p :
  exactly_one (c_payload c) det = Some p ->
  v_check v (tbs_structure ctx (c_protected c) (aad_or_empty aad) p) (c_sig c) = false ->
  verify ctx v c det aad <> VSuccess.
Proof.
  intros Hp Hc H. apply verify_iff in H as [_ [p' [Hp' [_ Hc']]]].
  rewrite Hp in Hp'. inversion Hp'; subst. rewrite Hc in Hc'. discriminate.
Qed.

(* honest completion: a signature the verifier accepts over the prepared structure verifies *)
Theorem honest_verifies ctx v c det aad tbs sg :
  alg_gate v (alg_of_protected (c_protected c)) = true ->
  prepare ctx c det aad = POk tbs -> v_parse v sg = true -> v_check v tbs sg = true ->
  verify ctx v (finalize c sg) det aad = VSuccess.
Proof.
  intros Hg Hp Hs Hc. apply verify_iff. cbn [finalize c_protected c_payload c_sig].
  split; [exact Hg|]. unfold prepare in Hp. rewrite select_exactly_one in Hp.
  destruct (exactly_one (c_payload c) det) as [p|] eqn:E.
  - inversion Hp; subst. exists p. repeat split; assumption.
  - destruct (c_payload c); discriminate.
Qed.
