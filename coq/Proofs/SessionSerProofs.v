From Isomdl Require Import Lib.Bytes Lib.Cbor Lib.Base64 Proofs.CborProofs Model.SessionSer Model.Iv Model.Session.
Open Scope N_scope.
Local Open Scope string_scope.

(* ---------- struct lookup ---------- *)

Lemma req_hit k v r : cbor_eqb k k = true -> lookup_all k r = [] -> req k ((k, v) :: r) = Some v.
Proof. intros Hk Hr. unfold req, field. cbn [lookup_all]. rewrite Hk, Hr. reflexivity. Qed.

Lemma req_skip k k' v r : cbor_eqb k k' = false -> req k ((k', v) :: r) = req k r.
Proof. intro Hk. unfold req, field. cbn [lookup_all]. rewrite Hk. reflexivity. Qed.

Lemma field_hit k v r : cbor_eqb k k = true -> lookup_all k r = [] -> field k ((k, v) :: r) = FOne v.
Proof. intros Hk Hr. unfold field. cbn [lookup_all]. rewrite Hk, Hr. reflexivity. Qed.

Lemma field_skip k k' v r : cbor_eqb k k' = false -> field k ((k', v) :: r) = field k r.
Proof. intro Hk. unfold field. cbn [lookup_all]. rewrite Hk. reflexivity. Qed.

Ltac fields :=
  repeat first [ rewrite req_hit by reflexivity
               | rewrite req_skip by reflexivity
               | rewrite field_hit by reflexivity
               | rewrite field_skip by reflexivity ].

(* ---------- leaves ---------- *)

Lemma u8s_of_map b : wf_bytes b = true -> u8s_of (map CUInt b) = Some b.
Proof.
  induction b as [|x b IH]; cbn [map u8s_of wf_bytes forallb]; [reflexivity|].
  intro H. apply andb_true_iff in H as [Hx Hb]. unfold is_byte in Hx. rewrite Hx, (IH Hb). reflexivity.
Qed.

Lemma of_u8_array_rt b : wf_bytes b = true -> of_u8_array (u8_array b) = Some b.
Proof. intro H. unfold of_u8_array, u8_array. apply u8s_of_map. exact H. Qed.

Lemma of_u8_array_n_rt n b : wf_bytes b = true -> length b = n -> of_u8_array_n n (u8_array b) = Some b.
Proof. intros H L. unfold of_u8_array_n. rewrite of_u8_array_rt by exact H. rewrite L, Nat.eqb_refl. reflexivity. Qed.

Lemma of_u32_rt n : n < 4294967296 -> of_u32 (CUInt n) = Some n.
Proof. intro H. unfold of_u32. apply N.ltb_lt in H. rewrite H. reflexivity. Qed.

Lemma auth_rt b : auth_of_cbor (auth_to_cbor b) = Some b.
Proof. destruct b; reflexivity. Qed.

(* ---------- State ---------- *)

Definition wf_state (s : state_ser) : Prop :=
  match s with
  | SAwaiting => True
  | SSigning p => status_ok_code (ps_status p) = true
  | SReady m => wf_bytes m = true
  end.

Lemma prepared_rt p : status_ok_code (ps_status p) = true -> prepared_of_cbor (prepared_to_cbor p) = Some p.
Proof.
  intro H. unfold prepared_of_cbor, prepared_to_cbor. fields. rewrite H. destruct p; reflexivity.
Qed.

Lemma state_rt s : wf_state s -> state_of_cbor (state_to_cbor s) = Some s.
Proof.
  destruct s as [|p|m]; cbn [wf_state state_to_cbor]; intro H.
  - reflexivity.
  - unfold state_of_cbor, t. change (bytes_eqb (bytes_of_string "Signing") (bytes_of_string "Signing")) with true.
    cbn [option_map]. rewrite prepared_rt by exact H. reflexivity.
  - unfold state_of_cbor, t.
    change (bytes_eqb (bytes_of_string "ReadyToRespond") (bytes_of_string "Signing")) with false.
    change (bytes_eqb (bytes_of_string "ReadyToRespond") (bytes_of_string "ReadyToRespond")) with true.
    rewrite of_u8_array_rt by exact H. reflexivity.
Qed.

(* ---------- session managers ---------- *)

Definition wf_dev (d : dev_ser) : Prop :=
  wf_bytes (ds_sk_device d) = true /\ length (ds_sk_device d) = 32%nat /\
  wf_bytes (ds_sk_reader d) = true /\ length (ds_sk_reader d) = 32%nat /\
  ds_device_ctr d < 4294967296 /\ ds_reader_ctr d < 4294967296 /\ wf_state (ds_state d).

Lemma dev_rt d : wf_dev d -> dev_of_cbor (dev_to_cbor d) = Some d.
Proof.
  intros [H1 [H2 [H3 [H4 [H5 [H6 H7]]]]]]. unfold dev_of_cbor, dev_to_cbor. fields. cbn [obind].
  rewrite (of_u8_array_n_rt 32 _ H1 H2), (of_u8_array_n_rt 32 _ H3 H4), (of_u32_rt _ H5), (of_u32_rt _ H6),
    (state_rt _ H7), auth_rt. cbn [obind]. destruct d; reflexivity.
Qed.

Definition wf_rdr (r : rdr_ser) : Prop :=
  wf_bytes (rs_sk_device r) = true /\ length (rs_sk_device r) = 32%nat /\
  wf_bytes (rs_sk_reader r) = true /\ length (rs_sk_reader r) = 32%nat /\
  rs_device_ctr r < 4294967296 /\ rs_reader_ctr r < 4294967296.

Lemma rdr_rt r : wf_rdr r -> rdr_of_cbor (rdr_to_cbor r) = Some r.
Proof.
  intros [H1 [H2 [H3 [H4 [H5 H6]]]]]. unfold rdr_of_cbor, rdr_to_cbor. fields. cbn [obind].
  rewrite (of_u8_array_n_rt 32 _ H1 H2), (of_u8_array_n_rt 32 _ H3 H4), (of_u32_rt _ H5), (of_u32_rt _ H6).
  cbn [obind]. destruct r; reflexivity.
Qed.

Lemma engaged_rt e : wf_bytes (es_e_device_key e) = true ->
  engaged_of_cbor (match es_handover e with Some _ => true | None => false end) (engaged_to_cbor e) = Some e.
Proof.
  intro H. unfold engaged_of_cbor, engaged_to_cbor. destruct e as [docs k de [h|]]; cbn [es_handover es_documents es_e_device_key es_engagement app] in *;
    fields; cbn [obind]; rewrite (of_u8_array_rt _ H); cbn [obind]; fields; reflexivity.
Qed.

(* ---------- Stringify ---------- *)

Definition cbor_ok (v : cbor) : Prop := wf v = true /\ len_ok v = true.

Lemma parse_stringify {A} (of : cbor -> option A) v : cbor_ok v -> parse_with of (stringify v) = of v.
Proof.
  intros [Hw Hl]. unfold parse_with, stringify.
  rewrite b64_decode_encode by (apply encode_wf_bytes; exact Hw). cbn [obind].
  rewrite <- (app_nil_r (encode v)). rewrite decode_first_encode by assumption. reflexivity.
Qed.

Theorem dev_parse_stringify d : wf_dev d -> cbor_ok (dev_to_cbor d) -> dev_parse (dev_stringify d) = Some d.
Proof. intros Hw Hc. unfold dev_parse, dev_stringify. rewrite parse_stringify by exact Hc. apply dev_rt. exact Hw. Qed.

Theorem rdr_parse_stringify r : wf_rdr r -> cbor_ok (rdr_to_cbor r) -> rdr_parse (rdr_stringify r) = Some r.
Proof. intros Hw Hc. unfold rdr_parse, rdr_stringify. rewrite parse_stringify by exact Hc. apply rdr_rt. exact Hw. Qed.

Theorem engaged_parse_stringify e : wf_bytes (es_e_device_key e) = true -> cbor_ok (engaged_to_cbor e) ->
  engaged_parse (match es_handover e with Some _ => true | None => false end) (engaged_stringify e) = Some e.
Proof. intros Hw Hc. unfold engaged_parse, engaged_stringify. rewrite parse_stringify by exact Hc. apply engaged_rt. exact Hw. Qed.

(* any number of storage cycles *)
Fixpoint cycles (n : nat) (d : dev_ser) : option dev_ser :=
  match n with O => Some d | S k => obind (dev_parse (dev_stringify d)) (cycles k) end.

Theorem dev_cycles n d : wf_dev d -> cbor_ok (dev_to_cbor d) -> cycles n d = Some d.
Proof.
  intros Hw Hc. induction n as [|n IH]; [reflexivity|]. cbn [cycles].
  rewrite dev_parse_stringify by assumption. exact IH.
Qed.

(* ---------- transparency at the level of the session machines ---------- *)

Definition is_restore (o : op) : bool := match o with ORestoreDevice | ORestoreReader => true | _ => false end.

(* a run with serialise-restore steps inserted anywhere behaves as the run without them:
   same final state, same emissions, same outputs at the remaining steps *)
Fixpoint outs_without_restores (ops : list op) (outs : list out) : list out :=
  match ops, outs with
  | o :: ops', x :: outs' => if is_restore o then outs_without_restores ops' outs' else x :: outs_without_restores ops' outs'
  | _, _ => []
  end.

Theorem restore_transparent ops : forall s,
  let '(s1, outs1, ems1) := run ops s in
  let '(s2, outs2, ems2) := run (filter (fun o => negb (is_restore o)) ops) s in
  s1 = s2 /\ ems1 = ems2 /\ outs_without_restores ops outs1 = outs2.
Proof.
  induction ops as [|o ops IH]; intro s; cbn [run filter]; [repeat split; reflexivity|].
  destruct (is_restore o) eqn:Er; cbn [negb].
  - (* a restore step: the state is unchanged and nothing is emitted *)
    assert (Hs : step s o = (s, OutUnit, [])) by (destruct o; try discriminate; reflexivity).
    rewrite Hs. specialize (IH s). destruct (run ops s) as [[s1 outs1] ems1].
    destruct (run (filter _ ops) s) as [[s2 outs2] ems2]. cbn [outs_without_restores]. rewrite Er.
    destruct IH as [-> [-> <-]]. repeat split; reflexivity.
  - cbn [run]. destruct (step s o) as [[s' x] em]. specialize (IH s').
    destruct (run ops s') as [[s1 outs1] ems1]. destruct (run (filter _ ops) s') as [[s2 outs2] ems2].
    cbn [outs_without_restores]. rewrite Er. destruct IH as [-> [-> <-]]. repeat split; reflexivity.
Qed.
