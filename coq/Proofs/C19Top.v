(* C19: the hand-written FromJsonMap types of org.iso.18013.5.1 (age_over_NN, biometric_template_XX,
   issuing_jurisdiction) and the two namespace structs. *)
From Isomdl Require Import Lib.Bytes Lib.Utf8 Lib.Cbor Lib.GenTypes Lib.Civil.
From Isomdl Require Import Gen.Constants Gen.Tables Gen.Fields Model.FromJson Spec.MdlDataModel.
From Isomdl Require Import Proofs.C19Tables Proofs.C19Leaves Proofs.C19Dates Proofs.C19Struct Proofs.C19Main.
Open Scope N_scope.

(* ---------- the hand-written FromJsonMap types of org.iso.18013.5.1 ---------- *)

Section Top.
  Variable b64 : bytes -> option bytes.

  Definition age_row : dm_row := {| dm_id := c19_age_over_prefix; dm_class := VBool; dm_presence := Family FamTwoDigits |}.
  Definition bio_row : dm_row := {| dm_id := c19_biometric_prefix; dm_class := VBytes; dm_presence := Family FamNonEmpty |}.

  Lemma fam_age k : fam_ok FamTwoDigits c19_age_over_prefix k =
                    match strip_prefix c19_age_over_prefix k with Some sfx => age_suffix_ok sfx | None => false end.
  Proof. reflexivity. Qed.

  Lemma age_entries_spec kvs :
    match age_over_entries kvs with
    | Ok l =>
      (forall k v, In (k, v) l -> fam_ok FamTwoDigits c19_age_over_prefix k = true /\
                                 exists x, In (k, JBool x) kvs /\ v = CBool x) /\
      (forall k j, In (k, j) kvs -> fam_ok FamTwoDigits c19_age_over_prefix k = true ->
                   In k (map fst l) /\ exists x, j = JBool x)
    | Err _ => exists k j, In (k, j) kvs /\ fam_ok FamTwoDigits c19_age_over_prefix k = true /\
                           forall x, j <> JBool x
    | Panic _ => False
    end.
  Proof.
    induction kvs as [|[k v] r IH]; cbn [age_over_entries].
    - split; [intros k v []|intros k j []].
    - destruct (strip_prefix c19_age_over_prefix k) as [sfx|] eqn:P.
      + destruct (age_suffix_ok sfx) eqn:A.
        * destruct v; cbn [bool_leaf];
            try (exists k; eexists; split; [left; reflexivity|]; split; [rewrite fam_age, P; exact A|intros x' X; discriminate]).
          destruct (age_over_entries r) as [l|e|p]; cbn [rmap].
          -- destruct IH as [I1 I2]. split.
             ++ intros k' v' [H|H].
                ** inversion H; subst. split; [rewrite fam_age, P; exact A|]. exists x. split; [left; reflexivity|reflexivity].
                ** destruct (I1 k' v' H) as [F (x' & Hin & Ev)]. split; [exact F|]. exists x'. split; [right; exact Hin|exact Ev].
             ++ intros k' j' [H|H] F.
                ** inversion H; subst. split; [left; reflexivity|]. exists x. reflexivity.
                ** destruct (I2 k' j' H F) as [Hk Hx]. split; [right; exact Hk|exact Hx].
          -- destruct IH as (k' & j' & Hin & F & N). exists k', j'. split; [right; exact Hin|]. split; assumption.
          -- exact IH.
        * destruct (age_over_entries r) as [l|e|p].
          -- destruct IH as [I1 I2]. split.
             ++ intros k' v' H. destruct (I1 k' v' H) as [F (x' & Hin & Ev)]. split; [exact F|]. exists x'. split; [right; exact Hin|exact Ev].
             ++ intros k' j' [H|H] F; [inversion H; subst; rewrite fam_age, P, A in F; discriminate|apply (I2 k' j' H F)].
          -- destruct IH as (k' & j' & Hin & F & N). exists k', j'. split; [right; exact Hin|]. split; assumption.
          -- exact IH.
      + destruct (age_over_entries r) as [l|e|p].
        * destruct IH as [I1 I2]. split.
          -- intros k' v' H. destruct (I1 k' v' H) as [F (x' & Hin & Ev)]. split; [exact F|]. exists x'. split; [right; exact Hin|exact Ev].
          -- intros k' j' [H|H] F; [inversion H; subst; rewrite fam_age, P in F; discriminate|apply (I2 k' j' H F)].
        * destruct IH as (k' & j' & Hin & F & N). exists k', j'. split; [right; exact Hin|]. split; assumption.
        * exact IH.
  Qed.

  Lemma fam_bio k : fam_ok FamNonEmpty c19_biometric_prefix k =
                    match strip_prefix c19_biometric_prefix k with Some [] => false | Some _ => true | None => false end.
  Proof. reflexivity. Qed.

  Lemma bio_entries_spec kvs :
    match biometric_entries b64 kvs with
    | Ok l =>
      (forall k v, In (k, v) l -> fam_ok FamNonEmpty c19_biometric_prefix k = true /\
                                 exists s x, In (k, JStr s) kvs /\ b64 s = Some x /\ v = CBytes x) /\
      (forall k j, In (k, j) kvs -> fam_ok FamNonEmpty c19_biometric_prefix k = true ->
                   In k (map fst l) /\ dom0 b64 [] VBytes j = true)
    | Err _ => exists k j, In (k, j) kvs /\ fam_ok FamNonEmpty c19_biometric_prefix k = true /\
                           dom0 b64 [] VBytes j = false
    | Panic _ => False
    end.
  Proof.
    induction kvs as [|[k v] r IH]; cbn [biometric_entries].
    - split; [intros k v []|intros k j []].
    - assert (IH' := IH). clear IH.
      assert (Hskip : fam_ok FamNonEmpty c19_biometric_prefix k = false ->
                match biometric_entries b64 r with
                | Ok l =>
                  (forall k0 v0, In (k0, v0) l -> fam_ok FamNonEmpty c19_biometric_prefix k0 = true /\
                     exists s x, In (k0, JStr s) ((k, v) :: r) /\ b64 s = Some x /\ v0 = CBytes x) /\
                  (forall k0 j, In (k0, j) ((k, v) :: r) -> fam_ok FamNonEmpty c19_biometric_prefix k0 = true ->
                     In k0 (map fst l) /\ dom0 b64 [] VBytes j = true)
                | Err _ => exists k0 j, In (k0, j) ((k, v) :: r) /\ fam_ok FamNonEmpty c19_biometric_prefix k0 = true /\
                                        dom0 b64 [] VBytes j = false
                | Panic _ => False
                end).
      { intro Fk. destruct (biometric_entries b64 r) as [l|e|p].
        * destruct IH' as [I1 I2]. split.
          -- intros k' v' H. destruct (I1 k' v' H) as [F (s' & x' & Hin & Hb & Ev)]. split; [exact F|]. exists s', x'. split; [right; exact Hin|]. auto.
          -- intros k' j' [H|H] F; [inversion H; subst; rewrite Fk in F; discriminate|apply (I2 k' j' H F)].
        * destruct IH' as (k' & j' & Hin & F & N). exists k', j'. split; [right; exact Hin|]. split; assumption.
        * exact IH'. }
      destruct (strip_prefix c19_biometric_prefix k) as [sfx|] eqn:P; [destruct sfx as [|s0 sfx']|].
      + apply Hskip. rewrite fam_bio, P. reflexivity.
      + assert (Fk : fam_ok FamNonEmpty c19_biometric_prefix k = true) by (rewrite fam_bio, P; reflexivity).
        pose proof (bytes_spec b64 [] v) as B. unfold leaf_spec0 in B.
        destruct (bytestr_leaf b64 v) as [cv|e|p] eqn:BL.
        * assert (exists s x, v = JStr s /\ b64 s = Some x /\ cv = CBytes x) as (s & x & -> & Hs & ->).
          { unfold bytestr_leaf, string_leaf, rbind in BL. destruct v; try discriminate.
            destruct (b64 s) as [x|] eqn:Es; [|discriminate]. inversion BL. exists s, x. auto. }
          destruct (biometric_entries b64 r) as [l|e|p]; cbn [rmap].
          -- destruct IH' as [I1 I2]. split.
             ++ intros k' v' [H|H].
                ** inversion H; subst. split; [exact Fk|]. exists s, x. split; [left; reflexivity|]. auto.
                ** destruct (I1 k' v' H) as [F (s' & x' & Hin & Hb & Ev)]. split; [exact F|]. exists s', x'. split; [right; exact Hin|]. auto.
             ++ intros k' j' [H|H] F.
                ** inversion H; subst. split; [left; reflexivity|]. cbn [dom0]. rewrite Hs. reflexivity.
                ** destruct (I2 k' j' H F) as [Hk Hx]. split; [right; exact Hk|exact Hx].
          -- destruct IH' as (k' & j' & Hin & F & N). exists k', j'. split; [right; exact Hin|]. split; assumption.
          -- exact IH'.
        * exists k, v. split; [left; reflexivity|]. split; [exact Fk|exact B].
        * exact B.
      + apply Hskip. rewrite fam_bio, P. reflexivity.
  Qed.

  (* ---------- issuing_jurisdiction ---------- *)

  Definition jur_row : dm_row := {| dm_id := b "issuing_jurisdiction"; dm_class := VJurisdiction; dm_presence := Optional |}.
  Definition ic_row : dm_row := {| dm_id := b "issuing_country"; dm_class := c_alpha2; dm_presence := Mandatory |}.

  Lemma age_row_in : In age_row mdl_dm. Proof. unfold mdl_dm; cbn [In]. repeat (first [left; reflexivity | right]). Qed.
  Lemma bio_row_in : In bio_row mdl_dm. Proof. unfold mdl_dm; cbn [In]. repeat (first [left; reflexivity | right]). Qed.
  Lemma jur_row_in : In jur_row mdl_dm. Proof. unfold mdl_dm. cbn. tauto. Qed.
  Lemma ic_row_in : In ic_row mdl_dm. Proof. unfold mdl_dm. cbn. tauto. Qed.

  Notation D8 kvs := (den b64 spec_fuel Mdl kvs).
  Notation DOM8 kvs := (dom b64 spec_fuel Mdl kvs).

  Lemma jurisdiction_spec kvs f :
    fd_many f = false -> fd_wire f = b "issuing_jurisdiction" ->
    match issuing_jurisdiction_map kvs with
    | Ok fv => jget (b "issuing_country") kvs <> None -> field_post (D8 kvs) (DOM8 kvs) jur_row kvs f fv
    | Err _ => record_dom (DOM8 kvs) mdl_dm kvs = false
    | Panic _ => False
    end.
  Proof.
    intros Hm Hw. unfold issuing_jurisdiction_map.
    destruct (jget (b "issuing_jurisdiction") kvs) as [v|] eqn:J.
    2:{ intros _. split.
        - unfold row_dom. cbn [jur_row dm_presence dm_id]. rewrite J. reflexivity.
        - cbn [jur_row dm_presence dm_id dm_class]. split; [exact Hm|]. split; [exact Hw|]. left. split; [reflexivity|].
          unfold supplied. rewrite J. reflexivity. }
    assert (Hbad : is_null v = false -> dom0 b64 kvs VJurisdiction v = false ->
                   record_dom (DOM8 kvs) mdl_dm kvs = false).
    { intros H1 H2. rewrite record_dom_rows. eapply forallb_false; [exact jur_row_in|].
      unfold row_dom. cbn [jur_row dm_presence dm_id dm_class]. rewrite J, H1. cbn [orb]. exact H2. }
    destruct v; cbn [string_leaf]; try (apply Hbad; reflexivity).
    { (* null: absent *)
      intros _. split.
      - unfold row_dom. cbn [jur_row dm_presence dm_id]. rewrite J. reflexivity.
      - cbn [jur_row dm_presence dm_id dm_class]. split; [exact Hm|]. split; [exact Hw|]. left. split; [reflexivity|].
        unfold supplied. rewrite J. reflexivity. }
    destruct (jget (b "issuing_country") kvs) as [c|] eqn:C.
    2:{ intro X. exfalso. apply X. reflexivity. }
    pose proof (codetext_spec b64 kvs tbl_mdl_Alpha2 iso3166_alpha2 NormNone c alpha2_ok eq_refl) as A. unfold leaf_spec0 in A.
    assert (Hic : dom0 b64 kvs c_alpha2 c = false -> record_dom (DOM8 kvs) mdl_dm kvs = false).
    { intro H. rewrite record_dom_rows. eapply forallb_false; [exact ic_row_in|].
      unfold row_dom. cbn [ic_row dm_presence dm_id dm_class]. rewrite C. exact H. }
    destruct c; try (apply Hic; reflexivity).
    unfold str_enum_leaf, string_leaf, rbind, rmap in *.
    destruct (str_table_code tbl_mdl_Alpha2 s0) as [code|e|p].
    - cbn [den0 c_alpha2] in A. apply andb_true_iff in A as [_ A]. apply bytes_eqb_eq in A. cbn [normalise] in A. subst code.
      destruct (is_prefix s0 s) eqn:Pf.
      + intros _. split.
        * unfold row_dom. cbn [jur_row dm_presence dm_id dm_class]. rewrite J. cbn [is_null orb dom dom0 spec_fuel].
          rewrite C. exact Pf.
        * cbn [jur_row dm_presence dm_id dm_class]. split; [exact Hm|]. split; [exact Hw|]. right.
          exists (JStr s), (CText s). split; [exact J|]. split; [reflexivity|].
          cbn [den den0 spec_fuel]. rewrite bytes_eqb_refl, C. exact Pf.
      + apply Hbad; [reflexivity|]. cbn [dom0]. rewrite C. exact Pf.
    - apply Hic. exact A.
    - exact A.
  Qed.

  (* ---------- the two namespace structs ---------- *)

  Lemma row_of_field_regular n f r : row_of_field n f = Some r -> fd_many f || fd_dyn f = false -> is_family r = false.
  Proof.
    unfold row_of_field. intros H R. rewrite R in H.
    destruct (fd_ty f) as [x|t| |]; try discriminate.
    - destruct (class_of_name n x); [|discriminate]. inversion H. reflexivity.
    - destruct t as [x| | |]; try discriminate. destruct (class_of_name n x); [|discriminate]. inversion H. reflexivity.
  Qed.

  Lemma iso_in n fds dm f r : map (row_of_field n) fds = map Some dm -> In f fds -> row_of_field n f = Some r -> In r dm.
  Proof.
    intros Hiso Hin Hrow. apply (in_map (row_of_field n)) in Hin. rewrite Hiso, Hrow in Hin.
    apply in_map_iff in Hin as (r' & E & Hr'). congruence.
  Qed.

  Lemma fields_iso_mdl : map (row_of_field Mdl) (ns_fields Mdl) = map Some mdl_dm.
  Proof. vm_compute. reflexivity. Qed.
  Lemma fields_iso_aamva : map (row_of_field Aamva) (ns_fields Aamva) = map Some aamva_dm.
  Proof. vm_compute. reflexivity. Qed.
  Lemma mdl_dm_wf : dm_wf_b mdl_dm = true. Proof. vm_compute. reflexivity. Qed.
  Lemma aamva_dm_wf : dm_wf_b aamva_dm = true. Proof. vm_compute. reflexivity. Qed.

  Theorem ns_spec n kvs : NoDup (map fst kvs) ->
    match ns_from_json b64 n (JObj kvs) with
    | Ok vals => ns_den b64 n kvs (to_ns_map vals) = true /\ ns_dom b64 n kvs = true
    | Err _ => ns_dom b64 n kvs = false
    | Panic _ => False
    end.
  Proof.
    intros Hnd. unfold ns_from_json, ns_den, ns_dom, top_leaf.
    change top_fuel with spec_fuel.
    assert (Hreg : forall f r, In f (ns_fields n) -> row_of_field n f = Some r -> fd_many f || fd_dyn f = false ->
              map (row_of_field n) (ns_fields n) = map Some (ns_dm n) ->
              field_ok (ty_leaf (name_leaf b64 spec_fuel n)) (top_map_leaf b64) (den b64 spec_fuel n kvs) (dom b64 spec_fuel n kvs)
                       (ns_fields n) (ns_dm n) kvs f r).
    { intros f r Hin Hrow R Hiso. apply regular_field_ok; try assumption.
      - apply name_leaf_spec.
      - apply (iso_in n _ _ f r Hiso Hin Hrow). }
    destruct n.
    - (* org.iso.18013.5.1 *)
      apply (struct_spec Mdl _ _ _ _ (den_null b64 spec_fuel Mdl kvs) _ _ kvs fields_iso_mdl (dm_wf_b_spec _ mdl_dm_wf)).
      intros f r Hin Hrow.
      destruct (fd_many f || fd_dyn f) eqn:R; [|apply Hreg; try assumption; exact fields_iso_mdl].
      change (ns_fields Mdl) with struct_mdl_OrgIso1801351 in Hin. unfold struct_mdl_OrgIso1801351 in Hin. cbn [In] in Hin.
      repeat (destruct Hin as [<-|Hin]; [try (cbn in R; discriminate R)|]); [| | |destruct Hin].
      + (* age_over_NN *)
        assert (Er : r = age_row) by (vm_compute in Hrow; inversion Hrow; reflexivity). subst r. clear Hrow R.
        unfold field_ok.
        unfold field_from_json at 1. cbn [fd_many fd_dyn fd_ty orb].
        change (top_map_leaf b64 (TName (b "AgeOver")) kvs) with (rmap FMany (age_over_entries kvs)).
        pose proof (age_entries_spec kvs) as A.
        destruct (age_over_entries kvs) as [l|e|p]; cbn [rmap].
        * destruct A as [A1 A2]. intros _. split.
          -- unfold row_dom. cbn [age_row dm_presence dm_id dm_class]. apply forallb_forall. intros [k j] Hkj. cbn [fst snd].
             destruct (fam_ok FamTwoDigits c19_age_over_prefix k) eqn:F; [|reflexivity].
             destruct (A2 k j Hkj F) as [_ [x ->]]. reflexivity.
          -- cbn [age_row dm_presence dm_id dm_class]. split; [reflexivity|]. exists l. split; [reflexivity|]. split.
             ++ intros k v Hkv. destruct (A1 k v Hkv) as [F (x & Hin' & ->)]. split; [exact F|].
                exists (JBool x). split; [apply In_jget; assumption|]. cbn [den den0 spec_fuel]. destruct x; reflexivity.
             ++ intros k Hk F. apply in_map_iff in Hk as ([k' j] & Ek & Hkj). cbn in Ek. subst k'.
                apply (A2 k j Hkj F).
        * destruct A as (k & j & Hkj & F & N). rewrite record_dom_rows.
          eapply forallb_false; [exact age_row_in|].
          unfold row_dom. cbn [age_row dm_presence dm_id dm_class]. eapply forallb_false; [exact Hkj|].
          cbn [fst snd]. rewrite F. cbn [negb orb]. destruct j; try reflexivity. exfalso. apply (N x). reflexivity.
        * exact A.
      + (* issuing_jurisdiction *)
        assert (Er : r = jur_row) by (vm_compute in Hrow; inversion Hrow; reflexivity). subst r. clear Hrow R.
        unfold field_ok.
        unfold field_from_json at 1. cbn [fd_many fd_dyn fd_ty orb].
        change (top_map_leaf b64 (TOption (TName (b "IssuingJurisdiction"))) kvs) with (issuing_jurisdiction_map kvs).
        pose proof (jurisdiction_spec kvs {| fd_rust := b "issuing_jurisdiction"; fd_wire := b "issuing_jurisdiction"; fd_ty := TOption (TName (b "IssuingJurisdiction")); fd_many := false; fd_dyn := true |} eq_refl eq_refl) as J.
        destruct (issuing_jurisdiction_map kvs) as [fv|e|p]; [|exact J|exact J].
        intro Hall. apply J.
        (* issuing_country is a mandatory field of the same struct: Ok means it is present *)
        destruct (Hall {| fd_rust := b "issuing_country"; fd_wire := b "issuing_country"; fd_ty := TName (b "Alpha2"); fd_many := false; fd_dyn := false |}) as [fv' Hfv'].
        { change (ns_fields Mdl) with struct_mdl_OrgIso1801351. unfold struct_mdl_OrgIso1801351. cbn [In]. tauto. }
        unfold field_from_json in Hfv'. cbn [fd_many fd_dyn fd_ty fd_wire orb] in Hfv'.
        destruct (jget (b "issuing_country") kvs); [discriminate|discriminate Hfv'].
      + (* biometric_template_XX *)
        assert (Er : r = bio_row) by (vm_compute in Hrow; inversion Hrow; reflexivity). subst r. clear Hrow R.
        unfold field_ok.
        unfold field_from_json at 1. cbn [fd_many fd_dyn fd_ty orb].
        change (top_map_leaf b64 (TName (b "BiometricTemplate")) kvs) with (rmap FMany (biometric_entries b64 kvs)).
        pose proof (bio_entries_spec kvs) as A.
        destruct (biometric_entries b64 kvs) as [l|e|p]; cbn [rmap].
        * destruct A as [A1 A2]. intros _. split.
          -- unfold row_dom. cbn [bio_row dm_presence dm_id dm_class]. apply forallb_forall. intros [k j] Hkj. cbn [fst snd].
             destruct (fam_ok FamNonEmpty c19_biometric_prefix k) eqn:F; [|reflexivity].
             destruct (A2 k j Hkj F) as [_ Hd]. cbn [negb orb dom spec_fuel].
             destruct j; try discriminate. cbn [dom0] in *. exact Hd.
          -- cbn [bio_row dm_presence dm_id dm_class]. split; [reflexivity|]. exists l. split; [reflexivity|]. split.
             ++ intros k v Hkv. destruct (A1 k v Hkv) as [F (s & x & Hin' & Hb & ->)]. split; [exact F|].
                exists (JStr s). split; [apply In_jget; assumption|]. cbn [den den0 spec_fuel]. rewrite Hb. apply bytes_eqb_refl.
             ++ intros k Hk F. apply in_map_iff in Hk as ([k' j] & Ek & Hkj). cbn in Ek. subst k'.
                apply (A2 k j Hkj F).
        * destruct A as (k & j & Hkj & F & N). rewrite record_dom_rows.
          eapply forallb_false; [exact bio_row_in|].
          unfold row_dom. cbn [bio_row dm_presence dm_id dm_class]. eapply forallb_false; [exact Hkj|].
          cbn [fst snd]. rewrite F. cbn [negb orb dom spec_fuel].
          destruct j; try reflexivity. cbn [dom0] in *. exact N.
        * exact A.
    - (* org.iso.18013.5.1.aamva: every field is a regular one *)
      apply (struct_spec Aamva _ _ _ _ (den_null b64 spec_fuel Aamva kvs) _ _ kvs fields_iso_aamva (dm_wf_b_spec _ aamva_dm_wf)).
      intros f r Hin Hrow. apply Hreg; try assumption; [|exact fields_iso_aamva].
      change (ns_fields Aamva) with struct_aamva_OrgIso1801351Aamva in Hin. unfold struct_aamva_OrgIso1801351Aamva in Hin. cbn [In] in Hin.
      repeat (destruct Hin as [<-|Hin]; [reflexivity|]). destruct Hin.
  Qed.

  (* ---------- no conversion of either namespace can panic, whatever the JSON value ---------- *)

  Lemma iso_row n fds dm f : map (row_of_field n) fds = map Some dm -> In f fds -> exists r, In r dm /\ row_of_field n f = Some r.
  Proof.
    intros Hiso Hf. apply (in_map (row_of_field n)) in Hf. rewrite Hiso in Hf.
    apply in_map_iff in Hf as (r & E & Hr). exists r. split; [exact Hr|congruence].
  Qed.

  Lemma field_no_panic n kvs f s : In f (ns_fields n) ->
    field_from_json (ty_leaf (name_leaf b64 spec_fuel n)) (top_map_leaf b64) f kvs <> Panic s.
  Proof.
    intros Hin HP.
    assert (Hiso : map (row_of_field n) (ns_fields n) = map Some (ns_dm n)) by (destruct n; [exact fields_iso_mdl|exact fields_iso_aamva]).
    destruct (fd_many f || fd_dyn f) eqn:R.
    - destruct n.
      + change (ns_fields Mdl) with struct_mdl_OrgIso1801351 in Hin. unfold struct_mdl_OrgIso1801351 in Hin. cbn [In] in Hin.
        repeat (destruct Hin as [<-|Hin]; [try (cbn in R; discriminate R)|]); [| | |destruct Hin];
          unfold field_from_json in HP; cbn [fd_many fd_dyn fd_ty orb] in HP.
        * change (top_map_leaf b64 (TName (b "AgeOver")) kvs) with (rmap FMany (age_over_entries kvs)) in HP.
          pose proof (age_entries_spec kvs) as A. destruct (age_over_entries kvs); [discriminate|discriminate|exact A].
        * change (top_map_leaf b64 (TOption (TName (b "IssuingJurisdiction"))) kvs) with (issuing_jurisdiction_map kvs) in HP.
          pose proof (jurisdiction_spec kvs {| fd_rust := b "issuing_jurisdiction"; fd_wire := b "issuing_jurisdiction"; fd_ty := TOption (TName (b "IssuingJurisdiction")); fd_many := false; fd_dyn := true |} eq_refl eq_refl) as J.
          destruct (issuing_jurisdiction_map kvs); [discriminate|discriminate|exact J].
        * change (top_map_leaf b64 (TName (b "BiometricTemplate")) kvs) with (rmap FMany (biometric_entries b64 kvs)) in HP.
          pose proof (bio_entries_spec kvs) as A. destruct (biometric_entries b64 kvs); [discriminate|discriminate|exact A].
      + change (ns_fields Aamva) with struct_aamva_OrgIso1801351Aamva in Hin. unfold struct_aamva_OrgIso1801351Aamva in Hin. cbn [In] in Hin.
        repeat (destruct Hin as [<-|Hin]; [cbn in R; discriminate R|]). destruct Hin.
    - destruct (iso_row n _ _ f Hiso Hin) as (r & Hr & Hrow).
      pose proof (regular_field_ok b64 spec_fuel n (top_map_leaf b64) (ns_fields n) (ns_dm n) kvs f r
                    (name_leaf_spec b64 spec_fuel n) Hrow R Hr) as F.
      unfold field_ok in F. rewrite HP in F. exact F.
  Qed.

  Theorem ns_no_panic n j s : ns_from_json b64 n j <> Panic s.
  Proof.
    unfold ns_from_json, top_leaf. change top_fuel with spec_fuel.
    destruct j; try discriminate. cbn [struct_from_json].
    destruct (run_fields (ty_leaf (name_leaf b64 spec_fuel n)) (top_map_leaf b64) (ns_fields n) kvs) as [vals errs|p] eqn:Rn.
    - destruct errs as [|e1 [|e2 es]]; discriminate.
    - intro H. inversion H; subst p. apply run_fields_panic in Rn as (f & Hf & HP).
      exact (field_no_panic n kvs f s Hf HP).
  Qed.
End Top.
