(* Theorems about the executable CBOR encoder / decoder of Lib/Cbor.v.

   Main results (all closed under the global context):
     cbor_ind'            induction principle for the nested inductive [cbor]
     cbor_eqb_eq          [cbor_eqb] decides equality
     encode_nonempty      encodings are never empty
     encode_wf_bytes      encodings of well-formed values are byte strings
     decode_fuel_mono     more fuel never changes a successful decode
     decode_encode        round trip (with arbitrary trailing bytes)
     decode_first_encode, decode_all_encode
     encode_injective, encode_prefix_free

   DEVIATION.  The round-trip / injectivity / prefix-freeness statements are FALSE for [wf] alone:
   [wf] does not bound the *lengths* of byte strings, text strings, arrays and maps, whereas
   [head] writes a length that does not fit 64 bits modulo 2^64 ([be_bytes 8]).  For instance
   [CBytes (repeat 0 (N.to_nat two64))] is [wf], its encoding starts with [91;0;0;0;0;0;0;0;0], and it
   decodes to [CBytes []] (this is proved below: [decode_encode_needs_len_ok]).  Likewise, with
   Z = CUInt 0, X = CArray (Z^(2^64)), Y = CArray (Z^(2^65)), the two distinct [wf] values
   CArray (X :: Z^(2^64) ++ Z^(2^64-1)) (2^65 items) and CArray (Y :: Z^(2^64-1)) (2^64 items) have the
   same encoding, so [encode] is not injective on [wf] values.
   The theorems are therefore stated under the extra hypothesis [len_ok v = true] (every string /
   array / map length inside [v] is below 2^64).  [encode_short_len_ok] shows that this holds as soon
   as the encoding itself is shorter than 2^64 bytes, which is true of anything that exists in a
   machine; the [_short] corollaries use that formulation. *)
From Isomdl Require Import Lib.Bytes Lib.Utf8 Lib.Cbor.
From Coq Require Import Lia ZifyN ZifyNat ZifyBool.
Open Scope N_scope.

(* ------------------------------------------------------------------------------------------ *)
(** * Induction principle for the nested inductive *)

Section CborInd.
  Variable P : cbor -> Prop.
  Hypothesis HUInt : forall n, P (CUInt n).
  Hypothesis HNInt : forall n, P (CNInt n).
  Hypothesis HBytes : forall b, P (CBytes b).
  Hypothesis HText : forall b, P (CText b).
  Hypothesis HArray : forall l, Forall P l -> P (CArray l).
  Hypothesis HMap : forall kvs, Forall (fun kv => P (fst kv) /\ P (snd kv)) kvs -> P (CMap kvs).
  Hypothesis HTag : forall t v, P v -> P (CTag t v).
  Hypothesis HBool : forall b, P (CBool b).
  Hypothesis HNull : P CNull.
  Hypothesis HFloat : forall w bits, P (CFloat w bits).

  Fixpoint cbor_ind' (v : cbor) : P v :=
    match v with
    | CUInt n => HUInt n
    | CNInt n => HNInt n
    | CBytes b => HBytes b
    | CText b => HText b
    | CArray l =>
      HArray l
        ((fix go (l : list cbor) : Forall P l :=
            match l with
            | [] => @Forall_nil _ P
            | x :: xs => @Forall_cons _ P x xs (cbor_ind' x) (go xs)
            end) l)
    | CMap kvs =>
      HMap kvs
        ((fix go (l : list (cbor * cbor)) : Forall (fun kv => P (fst kv) /\ P (snd kv)) l :=
            match l with
            | [] => @Forall_nil _ _
            | kv :: xs =>
              @Forall_cons _ (fun kv => P (fst kv) /\ P (snd kv)) kv xs
                (match kv as kv0 return P (fst kv0) /\ P (snd kv0) with
                 | (k, x) => conj (cbor_ind' k) (cbor_ind' x)
                 end)
                (go xs)
            end) kvs)
    | CTag t x => HTag t x (cbor_ind' x)
    | CBool b => HBool b
    | CNull => HNull
    | CFloat w bits => HFloat w bits
    end.
End CborInd.

(* ------------------------------------------------------------------------------------------ *)
(** * Small tactics *)

(* decide closed / lia-decidable N comparisons occurring in the goal *)
Ltac nb :=
  repeat match goal with
  | |- context [N.ltb ?a ?b] =>
    first [ replace (N.ltb a b) with true by (symmetry; apply N.ltb_lt; lia)
          | replace (N.ltb a b) with false by (symmetry; apply N.ltb_ge; lia) ]
  | |- context [N.eqb ?a ?b] =>
    first [ replace (N.eqb a b) with true by (symmetry; apply N.eqb_eq; lia)
          | replace (N.eqb a b) with false by (symmetry; apply N.eqb_neq; lia) ]
  | |- context [N.leb ?a ?b] =>
    first [ replace (N.leb a b) with true by (symmetry; apply N.leb_le; lia)
          | replace (N.leb a b) with false by (symmetry; apply N.leb_gt; lia) ]
  end.

(* ------------------------------------------------------------------------------------------ *)
(** * [cbor_eqb] *)

Theorem cbor_eqb_eq : forall a b, cbor_eqb a b = true <-> a = b.
Proof.
  induction a as [n|n|b|b|l H|kvs H|t a IHa|b| |w bits] using cbor_ind'; intros c;
    destruct c as [n'|n'|b'|b'|l0|kvs0|t' a'|b'| |w' bits']; cbn [cbor_eqb];
    try (split; intro; discriminate).
  - rewrite N.eqb_eq. split; congruence.
  - rewrite N.eqb_eq. split; congruence.
  - rewrite bytes_eqb_eq. split; congruence.
  - rewrite bytes_eqb_eq. split; congruence.
  - match goal with |- ?g l l0 = true <-> _ => assert (E : forall l', g l l' = true <-> l = l') end.
    { clear l0. induction H as [|x l Hx Hl IH]; intros [|y l'];
        try (split; intro; (reflexivity || discriminate)).
      rewrite andb_true_iff, Hx, IH. split; [intros [-> ->]; reflexivity|intro E; inversion E; auto]. }
    rewrite E. split; congruence.
  - match goal with |- ?g kvs kvs0 = true <-> _ => assert (E : forall l', g kvs l' = true <-> kvs = l') end.
    { clear kvs0. induction H as [|[k x] l [Hk Hx] Hl IH]; intros [|[k' y] l'];
        try (split; intro; (reflexivity || discriminate)).
      cbn [fst snd] in Hk, Hx.
      rewrite !andb_true_iff, Hk, Hx, IH.
      split; [intros [[-> ->] ->]; reflexivity|intro E; inversion E; auto]. }
    rewrite E. split; congruence.
  - rewrite andb_true_iff, N.eqb_eq, IHa. split; [intros [-> ->]; reflexivity|intro E; inversion E; auto].
  - rewrite Bool.eqb_true_iff. split; congruence.
  - split; reflexivity.
  - rewrite andb_true_iff, !N.eqb_eq. split; [intros [-> ->]; reflexivity|intro E; inversion E; auto].
Qed.

(* ------------------------------------------------------------------------------------------ *)
(** * Heads *)

Lemma first_byte major c : major < 8 -> c < 32 ->
  major * 32 + c < 256 /\ (major * 32 + c) / 32 = major /\ (major * 32 + c) mod 32 = c.
Proof.
  intros Hm Hc. repeat split.
  - lia.
  - rewrite N.div_add_l by lia. rewrite N.div_small by lia. lia.
  - rewrite N.add_comm, N.mod_add by lia. apply N.mod_small; lia.
Qed.

Lemma take_drop_be k n r : take_drop k (be_bytes k n ++ r) = Some (be_bytes k n, r).
Proof. pose proof (take_drop_app (be_bytes k n) r) as H. rewrite be_bytes_length in H. exact H. Qed.

Lemma read_head_imm major c r : major < 8 -> c < 24 ->
  read_head ((major * 32 + c) :: r) = DOk (major, c, HVal c, r).
Proof.
  intros Hm Hc. destruct (first_byte major c) as (H1 & H2 & H3); [lia|lia|].
  cbn [read_head]. rewrite H2, H3. nb. reflexivity.
Qed.

Lemma read_head_24 major x r : major < 8 ->
  read_head ((major * 32 + 24) :: x :: r) = DOk (major, 24, HVal x, r).
Proof.
  intros Hm. destruct (first_byte major 24) as (H1 & H2 & H3); [lia|lia|].
  cbn [read_head]. rewrite H2, H3. nb. reflexivity.
Qed.

Lemma read_head_arg major ai k x r : major < 8 ->
  (ai = 25 /\ k = 2%nat) \/ (ai = 26 /\ k = 4%nat) \/ (ai = 27 /\ k = 8%nat) ->
  read_head ((major * 32 + ai) :: be_bytes k x ++ r)
  = DOk (major, ai, HVal (be_value (be_bytes k x)), r).
Proof.
  intros Hm Hk. destruct (first_byte major ai) as (H1 & H2 & H3); [lia|lia|].
  cbn [read_head]. rewrite H2, H3.
  destruct Hk as [[-> ->]|[[-> ->]|[-> ->]]]; nb; cbn [negb]; rewrite take_drop_be; reflexivity.
Qed.

Definition head_ai (n : N) : N :=
  if n <? 24 then n else if n <? 256 then 24 else if n <? 65536 then 25
  else if n <? 4294967296 then 26 else 27.

Lemma read_head_head major n r : major < 8 -> n < two64 ->
  read_head (head major n ++ r) = DOk (major, head_ai n, HVal n, r).
Proof.
  intros Hm Hn. unfold head, head_ai, two64 in *.
  destruct (N.ltb_spec n 24); [cbn [app]; apply read_head_imm; lia|].
  destruct (N.ltb_spec n 256); [cbn [app]; apply read_head_24; lia|].
  destruct (N.ltb_spec n 65536).
  { cbn [app]. rewrite read_head_arg; [|lia|left; auto].
    rewrite be_value_be_bytes; [reflexivity|]. change (256 ^ N.of_nat 2) with 65536. lia. }
  destruct (N.ltb_spec n 4294967296).
  { cbn [app]. rewrite read_head_arg; [|lia|right; left; auto].
    rewrite be_value_be_bytes; [reflexivity|]. change (256 ^ N.of_nat 4) with 4294967296. lia. }
  cbn [app]. rewrite read_head_arg; [|lia|right; right; auto].
  rewrite be_value_be_bytes; [reflexivity|]. change (256 ^ N.of_nat 8) with 18446744073709551616. lia.
Qed.

Lemma head_length_pos major n : (1 <= length (head major n))%nat.
Proof.
  unfold head. repeat match goal with |- context [if ?c then _ else _] => destruct c end;
    cbn [length]; lia.
Qed.

Lemma wf_bytes_app a b : wf_bytes (a ++ b) = wf_bytes a && wf_bytes b.
Proof. apply forallb_app. Qed.

Lemma wf_bytes_be k n : wf_bytes (be_bytes k n) = true.
Proof.
  apply forallb_forall. intros x Hx. pose proof (be_bytes_wf k n) as F.
  rewrite Forall_forall in F. apply N.ltb_lt. auto.
Qed.

Lemma head_wf major n : major < 8 -> wf_bytes (head major n) = true.
Proof.
  intros Hm. unfold head.
  destruct (N.ltb_spec n 24); [cbn [wf_bytes forallb]; unfold is_byte; nb; reflexivity|].
  destruct (N.ltb_spec n 256); [cbn [wf_bytes forallb]; unfold is_byte; nb; reflexivity|].
  repeat match goal with |- context [if ?c then _ else _] => destruct c end;
    change (wf_bytes (?a :: ?l)) with (is_byte a && wf_bytes l); rewrite wf_bytes_be;
    unfold is_byte; nb; reflexivity.
Qed.

(* ------------------------------------------------------------------------------------------ *)
(** * Encodings are non-empty byte strings *)

Lemma encode_length_pos v : (1 <= length (encode v))%nat.
Proof.
  destruct v as [n|n|b|b|l|kvs|t x|[|]| |w bits]; cbn [encode length];
    rewrite ?app_length; try lia;
    match goal with |- context [head ?m ?n] => pose proof (head_length_pos m n); lia end.
Qed.

Theorem encode_nonempty v : encode v <> [].
Proof. intro E. pose proof (encode_length_pos v) as H. rewrite E in H. cbn in H. lia. Qed.

Theorem encode_wf_bytes : forall v, wf v = true -> wf_bytes (encode v) = true.
Proof.
  induction v as [n|n|b|b|l H|kvs H|t x IH|b| |w bits] using cbor_ind'; cbn [encode wf]; intros Hwf.
  - apply head_wf; lia.
  - apply head_wf; lia.
  - rewrite wf_bytes_app, head_wf, Hwf by lia. reflexivity.
  - apply andb_true_iff in Hwf as [Hb _]. rewrite wf_bytes_app, head_wf, Hb by lia. reflexivity.
  - rewrite wf_bytes_app, head_wf by lia. cbn [andb].
    induction H as [|x l Hx Hl IHl]; [reflexivity|].
    cbn [forallb] in Hwf. apply andb_true_iff in Hwf as [H1 H2].
    cbn [flat_map]. rewrite wf_bytes_app, Hx, IHl by assumption. reflexivity.
  - rewrite wf_bytes_app, head_wf by lia. cbn [andb].
    induction H as [|[k x] l [Hk Hx] Hl IHl]; [reflexivity|].
    cbn [forallb] in Hwf. apply andb_true_iff in Hwf as [H1 H2]. apply andb_true_iff in H1 as [H1 H3].
    cbn [fst snd] in Hk, Hx.
    cbn [flat_map]. rewrite !wf_bytes_app, Hk, Hx, IHl by assumption. reflexivity.
  - apply andb_true_iff in Hwf as [Hwf _]. apply andb_true_iff in Hwf as [_ Hx].
    rewrite wf_bytes_app, head_wf, IH by (assumption || lia). reflexivity.
  - destruct b; reflexivity.
  - reflexivity.
  - change (wf_bytes (?a :: ?l)) with (is_byte a && wf_bytes l). rewrite wf_bytes_be.
    unfold float_ai. repeat match goal with |- context [if ?c then _ else _] => destruct c end; reflexivity.
Qed.

(* ------------------------------------------------------------------------------------------ *)
(** * One-step unfoldings of the decoder *)

Lemma decode_S f bs : decode (S f) bs =
    '(major, ai, a, r) <- read_head bs ;;
    match major, a with
    | 0, HVal n => DOk (CUInt n, r)
    | 1, HVal n => DOk (CNInt n, r)
    | 2, HVal n => '(b, r') <- of_opt (split_at n r) ;; DOk (CBytes b, r')
    | 2, HIndef => '(b, r') <- decode_chunks f 2 r ;; DOk (CBytes b, r')
    | 3, HVal n => '(b, r') <- of_opt (split_at n r) ;;
                   if utf8_valid b then DOk (CText b, r') else DErr
    | 3, HIndef => '(b, r') <- decode_chunks f 3 r ;; DOk (CText b, r')
    | 4, HVal n => '(l, r') <- decode_n f n r ;; DOk (CArray l, r')
    | 4, HIndef => '(l, r') <- decode_until f r ;; DOk (CArray l, r')
    | 5, HVal n => '(l, r') <- decode_pairs_n f n r ;; DOk (CMap l, r')
    | 5, HIndef => '(l, r') <- decode_pairs_until f r ;; DOk (CMap l, r')
    | 6, HVal t => '(v, r') <- decode f r ;; DOk (norm_tag t v, r')
    | 7, HVal n =>
      if ai =? 20 then DOk (CBool false, r)
      else if ai =? 21 then DOk (CBool true, r)
      else if ai =? 22 then DOk (CNull, r)
      else if ai =? 23 then DOk (CNull, r)
      else if ai =? 25 then DOk (CFloat 2 n, r)
      else if ai =? 26 then DOk (CFloat 4 n, r)
      else if ai =? 27 then DOk (CFloat 8 n, r)
      else DErr
    | _, _ => DErr
    end.
Proof. reflexivity. Qed.

Lemma decode_n_S f n bs : decode_n (S f) n bs =
    if n =? 0 then DOk ([], bs) else
    '(v, r) <- decode f bs ;;
    '(vs, r') <- decode_n f (n - 1) r ;;
    DOk (v :: vs, r').
Proof. reflexivity. Qed.

Lemma decode_until_S f bs : decode_until (S f) bs =
    match bs with
    | 255 :: r => DOk ([], r)
    | _ =>
      '(v, r) <- decode f bs ;;
      '(vs, r') <- decode_until f r ;;
      DOk (v :: vs, r')
    end.
Proof. reflexivity. Qed.

Lemma decode_pairs_n_S f n bs : decode_pairs_n (S f) n bs =
    if n =? 0 then DOk ([], bs) else
    '(k, r) <- decode f bs ;;
    '(v, r') <- decode f r ;;
    '(kvs, r'') <- decode_pairs_n f (n - 1) r' ;;
    DOk ((k, v) :: kvs, r'').
Proof. reflexivity. Qed.

Lemma decode_pairs_until_S f bs : decode_pairs_until (S f) bs =
    match bs with
    | 255 :: r => DOk ([], r)
    | _ =>
      '(k, r) <- decode f bs ;;
      '(v, r') <- decode f r ;;
      '(kvs, r'') <- decode_pairs_until f r' ;;
      DOk ((k, v) :: kvs, r'')
    end.
Proof. reflexivity. Qed.

Lemma decode_chunks_S f major bs : decode_chunks (S f) major bs =
    match bs with
    | 255 :: r => DOk ([], r)
    | _ =>
      '(m, _, a, r) <- read_head bs ;;
      if negb (m =? major) then DErr else
      match a with
      | HIndef => DErr
      | HVal n =>
        '(c, r') <- of_opt (split_at n r) ;;
        if (major =? 3) && negb (utf8_valid c) then DErr else
        '(cs, r'') <- decode_chunks f major r' ;;
        DOk (c ++ cs, r'')
      end
    end.
Proof. reflexivity. Qed.

(* ------------------------------------------------------------------------------------------ *)
(** * Fuel monotonicity *)

Definition le_res {A} (x y : dres A) : Prop := forall a, x = DOk a -> y = DOk a.

Lemma le_res_refl {A} (x : dres A) : le_res x x.
Proof. intros a H; exact H. Qed.

Lemma le_res_bind {A B} (x y : dres A) (k k' : A -> dres B) :
  le_res x y -> (forall a, le_res (k a) (k' a)) -> le_res (dbind x k) (dbind y k').
Proof.
  intros H1 H2 b. destruct x as [a| |]; cbn [dbind]; try discriminate.
  intro E. rewrite (H1 a eq_refl). cbn [dbind]. apply H2. exact E.
Qed.

Ltac mono_step ih :=
  first
    [ apply le_res_refl
    | ih
    | apply le_res_bind; [ | intro ]
    | match goal with |- le_res (match ?x with _ => _ end) _ => destruct x end ].

Lemma decode_chunks_mono : forall f f' m bs, (f <= f')%nat ->
  le_res (decode_chunks f m bs) (decode_chunks f' m bs).
Proof.
  induction f as [|f IH]; intros f' m bs Hf.
  - intros a H; discriminate.
  - destruct f' as [|f']; [lia|]. rewrite !decode_chunks_S.
    repeat mono_step ltac:(apply IH; lia).
Qed.

Lemma decode_mono_all : forall f,
  (forall f' bs, (f <= f')%nat -> le_res (decode f bs) (decode f' bs)) /\
  (forall f' n bs, (f <= f')%nat -> le_res (decode_n f n bs) (decode_n f' n bs)) /\
  (forall f' bs, (f <= f')%nat -> le_res (decode_until f bs) (decode_until f' bs)) /\
  (forall f' n bs, (f <= f')%nat -> le_res (decode_pairs_n f n bs) (decode_pairs_n f' n bs)) /\
  (forall f' bs, (f <= f')%nat -> le_res (decode_pairs_until f bs) (decode_pairs_until f' bs)).
Proof.
  induction f as [|f (IH1 & IH2 & IH3 & IH4 & IH5)].
  - repeat split; intros; intros a H'; discriminate.
  - repeat split; intros f'; intros; (destruct f' as [|f']; [lia|]);
      rewrite ?decode_S, ?decode_n_S, ?decode_until_S, ?decode_pairs_n_S, ?decode_pairs_until_S;
      repeat mono_step ltac:(first [ apply IH1; lia | apply IH2; lia | apply IH3; lia
                                   | apply IH4; lia | apply IH5; lia
                                   | apply decode_chunks_mono; lia ]).
Qed.

Theorem decode_fuel_mono : forall f f' bs r,
  decode f bs = DOk r -> (f <= f')%nat -> decode f' bs = DOk r.
Proof. intros f f' bs r H Hf. exact (proj1 (decode_mono_all f) f' bs Hf r H). Qed.

Lemma decode_n_fuel_mono : forall f f' n bs r,
  decode_n f n bs = DOk r -> (f <= f')%nat -> decode_n f' n bs = DOk r.
Proof. intros f f' n bs r H Hf. exact (proj1 (proj2 (decode_mono_all f)) f' n bs Hf r H). Qed.

Lemma decode_until_fuel_mono : forall f f' bs r,
  decode_until f bs = DOk r -> (f <= f')%nat -> decode_until f' bs = DOk r.
Proof. intros f f' bs r H Hf. exact (proj1 (proj2 (proj2 (decode_mono_all f))) f' bs Hf r H). Qed.

Lemma decode_pairs_n_fuel_mono : forall f f' n bs r,
  decode_pairs_n f n bs = DOk r -> (f <= f')%nat -> decode_pairs_n f' n bs = DOk r.
Proof.
  intros f f' n bs r H Hf. exact (proj1 (proj2 (proj2 (proj2 (decode_mono_all f)))) f' n bs Hf r H).
Qed.

Lemma decode_pairs_until_fuel_mono : forall f f' bs r,
  decode_pairs_until f bs = DOk r -> (f <= f')%nat -> decode_pairs_until f' bs = DOk r.
Proof.
  intros f f' bs r H Hf. exact (proj2 (proj2 (proj2 (proj2 (decode_mono_all f)))) f' bs Hf r H).
Qed.

Lemma decode_chunks_fuel_mono : forall f f' m bs r,
  decode_chunks f m bs = DOk r -> (f <= f')%nat -> decode_chunks f' m bs = DOk r.
Proof. intros f f' m bs r H Hf. exact (decode_chunks_mono f f' m bs Hf r H). Qed.

(* ------------------------------------------------------------------------------------------ *)
(** * The extra hypothesis: lengths fit in 64 bits *)

Fixpoint len_ok (v : cbor) : bool :=
  match v with
  | CBytes b | CText b => blen b <? two64
  | CArray l => (N.of_nat (length l) <? two64) && forallb len_ok l
  | CMap kvs => (N.of_nat (length kvs) <? two64)
                && forallb (fun kv => let '(k, x) := kv in len_ok k && len_ok x) kvs
  | CTag _ x => len_ok x
  | _ => true
  end.

(* ------------------------------------------------------------------------------------------ *)
(** * Round trip *)

Definition dec_ok (v : cbor) : Prop :=
  wf v = true -> len_ok v = true ->
  forall f r, (2 * length (encode v) <= f)%nat -> decode f (encode v ++ r) = DOk (v, r).

Lemma decode_n_flat l :
  Forall dec_ok l -> forallb wf l = true -> forallb len_ok l = true ->
  forall f r, (2 * length (flat_map encode l) + 1 <= f)%nat ->
  decode_n f (N.of_nat (length l)) (flat_map encode l ++ r) = DOk (l, r).
Proof.
  induction 1 as [|x l Hx Hl IH]; intros Hwf Hlen f r Hf.
  - destruct f; [lia|]. rewrite decode_n_S. cbn [length flat_map app]. nb. reflexivity.
  - cbn [forallb] in Hwf, Hlen.
    apply andb_true_iff in Hwf as [Hw1 Hw2]. apply andb_true_iff in Hlen as [Hl1 Hl2].
    cbn [flat_map length] in *. rewrite app_length in Hf. pose proof (encode_length_pos x).
    destruct f; [lia|]. rewrite decode_n_S. nb.
    rewrite <- app_assoc. rewrite (Hx Hw1 Hl1) by lia. cbn [dbind].
    replace (N.of_nat (S (length l)) - 1) with (N.of_nat (length l)) by lia.
    rewrite (IH Hw2 Hl2) by lia. reflexivity.
Qed.

Definition enc_pair (kv : cbor * cbor) : bytes := let '(k, x) := kv in encode k ++ encode x.

Lemma decode_pairs_n_flat kvs :
  Forall (fun kv => dec_ok (fst kv) /\ dec_ok (snd kv)) kvs ->
  forallb (fun kv => let '(k, x) := kv in wf k && wf x) kvs = true ->
  forallb (fun kv => let '(k, x) := kv in len_ok k && len_ok x) kvs = true ->
  forall f r, (2 * length (flat_map enc_pair kvs) + 1 <= f)%nat ->
  decode_pairs_n f (N.of_nat (length kvs)) (flat_map enc_pair kvs ++ r) = DOk (kvs, r).
Proof.
  induction 1 as [|[k x] l [Hk Hx] Hl IH]; intros Hwf Hlen f r Hf.
  - destruct f; [lia|]. rewrite decode_pairs_n_S. cbn [length flat_map app]. nb. reflexivity.
  - cbn [forallb] in Hwf, Hlen. cbn [fst snd] in Hk, Hx.
    apply andb_true_iff in Hwf as [Hw1 Hw2]. apply andb_true_iff in Hw1 as [Hw1 Hw3].
    apply andb_true_iff in Hlen as [Hl1 Hl2]. apply andb_true_iff in Hl1 as [Hl1 Hl3].
    cbn [flat_map length enc_pair] in *. rewrite !app_length in Hf.
    pose proof (encode_length_pos k). pose proof (encode_length_pos x).
    destruct f; [lia|]. rewrite decode_pairs_n_S. nb.
    rewrite <- !app_assoc. rewrite (Hk Hw1 Hl1) by lia. cbn [dbind].
    rewrite (Hx Hw3 Hl3) by lia. cbn [dbind].
    replace (N.of_nat (S (length l)) - 1) with (N.of_nat (length l)) by lia.
    rewrite (IH Hw2 Hl2) by lia. reflexivity.
Qed.

Lemma norm_tag_wf t x :
  match x with
  | CBytes b => negb (((t =? 2) || (t =? 3)) && (be_value b <? two64) && (blen b <=? 16))
  | _ => true
  end = true -> norm_tag t x = CTag t x.
Proof.
  destruct x; try reflexivity. unfold norm_tag, two64.
  destruct (t =? 2), (t =? 3), (be_value b <? 18446744073709551616), (blen b <=? 16);
    cbn [andb orb negb]; intro H; (reflexivity || discriminate).
Qed.

Lemma read_head_simple7 c r : c < 24 -> read_head ((224 + c) :: r) = DOk (7, c, HVal c, r).
Proof. intro H. change 224 with (7 * 32). apply read_head_imm; lia. Qed.

Lemma decode_encode_fuel : forall v, dec_ok v.
Proof.
  induction v as [n|n|b|b|l H|kvs H|t x IH|b| |w bits] using cbor_ind';
    intros Hwf Hlen f r Hf; 
    match type of Hf with context [encode ?v] => pose proof (encode_length_pos v) as Hpos end.
  all: destruct f as [|f]; [lia|]; rewrite decode_S; cbn [encode wf len_ok] in *.
  - apply N.ltb_lt in Hwf. rewrite read_head_head by lia. reflexivity.
  - apply N.ltb_lt in Hwf. rewrite read_head_head by lia. reflexivity.
  - apply N.ltb_lt in Hlen. rewrite <- app_assoc, read_head_head by lia. cbn [dbind].
    rewrite split_at_app. reflexivity.
  - apply N.ltb_lt in Hlen. apply andb_true_iff in Hwf as [_ Hu].
    rewrite <- app_assoc, read_head_head by lia. cbn [dbind].
    rewrite split_at_app. cbn [of_opt dbind]. rewrite Hu. reflexivity.
  - apply andb_true_iff in Hlen as [Hn Hlen]. apply N.ltb_lt in Hn.
    rewrite <- app_assoc, read_head_head by lia. cbn [dbind].
    rewrite app_length in Hf. pose proof (head_length_pos 4 (N.of_nat (length l))).
    rewrite (decode_n_flat l H Hwf Hlen) by lia. reflexivity.
  - apply andb_true_iff in Hlen as [Hn Hlen]. apply N.ltb_lt in Hn.
    rewrite <- app_assoc, read_head_head by lia. cbn [dbind].
    rewrite app_length in Hf. pose proof (head_length_pos 5 (N.of_nat (length kvs))).
    change (fun kv : cbor * cbor => let '(k, x) := kv in encode k ++ encode x) with enc_pair in *.
    rewrite (decode_pairs_n_flat kvs H Hwf Hlen) by lia. reflexivity.
  - apply andb_true_iff in Hwf as [Hwf Hnt]. apply andb_true_iff in Hwf as [Ht Hx].
    apply N.ltb_lt in Ht.
    rewrite <- app_assoc, read_head_head by lia. cbn [dbind].
    rewrite app_length in Hf. pose proof (head_length_pos 6 t).
    rewrite (IH Hx Hlen) by lia. cbn [dbind]. rewrite norm_tag_wf by exact Hnt. reflexivity.
  - destruct b.
    + cbn [app]. rewrite (read_head_simple7 21) by lia. reflexivity.
    + cbn [app]. rewrite (read_head_simple7 20) by lia. reflexivity.
  - cbn [app]. rewrite (read_head_simple7 22) by lia. reflexivity.
  - apply andb_true_iff in Hwf as [Hw Hb]. apply N.ltb_lt in Hb.
    change 224 with (7 * 32). cbn [app].
    destruct (N.eqb_spec w 2) as [->|N2]; [|destruct (N.eqb_spec w 4) as [->|N4];
      [|destruct (N.eqb_spec w 8) as [->|N8]; [|discriminate]]].
    + change (float_ai 2) with 25. change (float_len 2) with 2%nat.
      rewrite read_head_arg; [|lia|left; auto]. cbn [dbind].
      rewrite be_value_be_bytes by exact Hb. reflexivity.
    + change (float_ai 4) with 26. change (float_len 4) with 4%nat.
      rewrite read_head_arg; [|lia|right; left; auto]. cbn [dbind].
      rewrite be_value_be_bytes by exact Hb. reflexivity.
    + change (float_ai 8) with 27. change (float_len 8) with 8%nat.
      rewrite read_head_arg; [|lia|right; right; auto]. cbn [dbind].
      rewrite be_value_be_bytes by exact Hb. reflexivity.
Qed.

Lemma fuel_for_enough v r : (2 * length (encode v) <= fuel_for (encode v ++ r))%nat.
Proof. unfold fuel_for. rewrite app_length. lia. Qed.

Theorem decode_encode : forall v r, wf v = true -> len_ok v = true ->
  decode (fuel_for (encode v ++ r)) (encode v ++ r) = DOk (v, r).
Proof. intros v r Hwf Hlen. apply decode_encode_fuel; auto using fuel_for_enough. Qed.

Theorem decode_first_encode : forall v r, wf v = true -> len_ok v = true ->
  decode_first (encode v ++ r) = Some v.
Proof. intros v r Hwf Hlen. unfold decode_first. rewrite decode_encode by assumption. reflexivity. Qed.

Theorem decode_all_encode : forall v, wf v = true -> len_ok v = true ->
  decode_all (encode v) = Some v.
Proof.
  intros v Hwf Hlen. pose proof (decode_encode v [] Hwf Hlen) as H. rewrite app_nil_r in H.
  unfold decode_all. rewrite H. reflexivity.
Qed.

Theorem encode_prefix_free : forall v v' r r',
  wf v = true -> len_ok v = true -> wf v' = true -> len_ok v' = true ->
  encode v ++ r = encode v' ++ r' -> v = v' /\ r = r'.
Proof.
  intros v v' r r' Hwf Hlen Hwf' Hlen' E.
  pose proof (decode_encode v r Hwf Hlen) as H. pose proof (decode_encode v' r' Hwf' Hlen') as H'.
  rewrite E, H' in H. inversion H. split; reflexivity.
Qed.

Theorem encode_injective : forall v v',
  wf v = true -> len_ok v = true -> wf v' = true -> len_ok v' = true ->
  encode v = encode v' -> v = v'.
Proof.
  intros v v' Hwf Hlen Hwf' Hlen' E.
  apply (encode_prefix_free v v' [] [] Hwf Hlen Hwf' Hlen'). rewrite E. reflexivity.
Qed.

(* ------------------------------------------------------------------------------------------ *)
(** * [len_ok] follows from the encoding being shorter than 2^64 bytes *)

Lemma flat_map_length_ge {A} (g : A -> bytes) l :
  (forall x, (1 <= length (g x))%nat) -> (length l <= length (flat_map g l))%nat.
Proof.
  intro Hg. induction l as [|x l IH]; cbn [flat_map length]; [lia|].
  rewrite app_length. pose proof (Hg x). lia.
Qed.

Theorem encode_short_len_ok : forall v, N.of_nat (length (encode v)) < two64 -> len_ok v = true.
Proof.
  induction v as [n|n|b|b|l H|kvs H|t x IH|b| |w bits] using cbor_ind';
    cbn [encode len_ok]; rewrite ?app_length; intros Hs; try reflexivity.
  - apply N.ltb_lt. unfold blen. lia.
  - apply N.ltb_lt. unfold blen. lia.
  - apply andb_true_iff. split.
    + apply N.ltb_lt. pose proof (flat_map_length_ge encode l encode_length_pos). lia.
    + assert (Hs' : N.of_nat (length (flat_map encode l)) < two64) by lia. clear Hs.
      induction H as [|x l Hx Hl IHl]; [reflexivity|].
      cbn [flat_map forallb] in *. rewrite app_length in Hs'.
      rewrite Hx, IHl by lia. reflexivity.
  - apply andb_true_iff. split.
    + apply N.ltb_lt.
      assert (Hp : forall kv : cbor * cbor,
                 (1 <= length (let '(k, x) := kv in encode k ++ encode x))%nat).
      { intros [k x]. rewrite app_length. pose proof (encode_length_pos k). lia. }
      pose proof (flat_map_length_ge _ kvs Hp). lia.
    + match type of Hs with context [flat_map ?g kvs] =>
        assert (Hs' : N.of_nat (length (flat_map g kvs)) < two64) by lia end. clear Hs.
      induction H as [|[k x] l [Hk Hx] Hl IHl]; [reflexivity|].
      cbn [flat_map forallb fst snd] in *. rewrite !app_length in Hs'.
      rewrite Hk, Hx, IHl by lia. reflexivity.
  - apply IH. lia.
Qed.

Corollary decode_encode_short : forall v r, wf v = true -> N.of_nat (length (encode v)) < two64 ->
  decode (fuel_for (encode v ++ r)) (encode v ++ r) = DOk (v, r).
Proof. intros. apply decode_encode; auto using encode_short_len_ok. Qed.

Corollary decode_first_encode_short : forall v r, wf v = true ->
  N.of_nat (length (encode v)) < two64 -> decode_first (encode v ++ r) = Some v.
Proof. intros. apply decode_first_encode; auto using encode_short_len_ok. Qed.

Corollary decode_all_encode_short : forall v, wf v = true ->
  N.of_nat (length (encode v)) < two64 -> decode_all (encode v) = Some v.
Proof. intros. apply decode_all_encode; auto using encode_short_len_ok. Qed.

Corollary encode_injective_short : forall v v', wf v = true -> wf v' = true ->
  N.of_nat (length (encode v)) < two64 -> encode v = encode v' -> v = v'.
Proof.
  intros v v' Hwf Hwf' Hs E. apply encode_injective; auto using encode_short_len_ok.
  apply encode_short_len_ok. rewrite <- E. exact Hs.
Qed.

Corollary encode_prefix_free_short : forall v v' r r', wf v = true -> wf v' = true ->
  N.of_nat (length (encode v)) < two64 -> N.of_nat (length (encode v')) < two64 ->
  encode v ++ r = encode v' ++ r' -> v = v' /\ r = r'.
Proof. intros. apply encode_prefix_free; auto using encode_short_len_ok. Qed.

(* ------------------------------------------------------------------------------------------ *)
(** * Why [len_ok] is needed: [wf] alone does not give the round trip *)

Lemma wf_bytes_repeat0 k : wf_bytes (repeat 0 k) = true.
Proof. induction k as [|k IH]; [reflexivity|]. cbn [repeat]. change (wf_bytes (0 :: ?l)) with (wf_bytes l). exact IH. Qed.

Theorem decode_encode_needs_len_ok :
  exists v, wf v = true /\ decode_first (encode v) = Some (CBytes []) /\ decode_all (encode v) = None.
Proof.
  assert (G : forall k, N.of_nat k = two64 ->
              let v := CBytes (repeat 0 k) in
              wf v = true /\ decode_first (encode v) = Some (CBytes []) /\ decode_all (encode v) = None).
  { intros k Hk v. subst v. split; [apply wf_bytes_repeat0|].
    assert (E : encode (CBytes (repeat 0 k)) = [91; 0; 0; 0; 0; 0; 0; 0; 0] ++ repeat 0 k).
    { cbn [encode]. unfold blen. rewrite repeat_length, Hk. reflexivity. }
    assert (D : decode (fuel_for (encode (CBytes (repeat 0 k)))) (encode (CBytes (repeat 0 k)))
                = DOk (CBytes [], repeat 0 k)).
    { rewrite E. unfold fuel_for.
      match goal with |- decode ?f _ = _ => replace f with (S (2 * length (repeat 0 k) + 19)) end.
      2:{ rewrite app_length. cbn [length]. lia. }
      rewrite decode_S. cbn [app read_head].
      change (91 / 32) with 2. change (91 mod 32) with 27. nb. cbn [negb take_drop of_opt dbind].
      change (be_value [0; 0; 0; 0; 0; 0; 0; 0]) with 0.
      unfold split_at. nb. reflexivity. }
    unfold decode_first, decode_all. rewrite D. split; [reflexivity|].
    destruct k as [|k]; [discriminate Hk|]. reflexivity. }
  exists (CBytes (repeat 0 (N.to_nat two64))). apply G. apply N2Nat.id.
Qed.

(* ------------------------------------------------------------------------------------------ *)
Print Assumptions cbor_ind'.
Print Assumptions cbor_eqb_eq.
Print Assumptions encode_nonempty.
Print Assumptions encode_wf_bytes.
Print Assumptions decode_fuel_mono.
Print Assumptions decode_encode.
Print Assumptions decode_first_encode.
Print Assumptions decode_all_encode.
Print Assumptions encode_injective.
Print Assumptions encode_prefix_free.
Print Assumptions encode_short_len_ok.
Print Assumptions decode_encode_needs_len_ok.
