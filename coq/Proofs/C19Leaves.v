(* C19: each hand-written leaf conversion realises its value class: for an input outside the known
   defect classes, Ok v => v is the prescribed encoding, Err => the input is outside the domain,
   and no panic. *)
From Isomdl Require Import Lib.Bytes Lib.Utf8 Lib.Cbor Lib.GenTypes Lib.Civil.
From Isomdl Require Import Gen.Constants Gen.Tables Gen.Fields Model.FromJson Spec.MdlDataModel Proofs.C19Tables.
Open Scope N_scope.

(* ---------- decimal digits ---------- *)

Lemma digit_z_spec c z : digit_z c = Some z -> (0 <= z <= 9)%Z /\ c = 48 + Z.to_N z.
Proof.
  unfold digit_z. destruct ((48 <=? c) && (c <=? 57)) eqn:E; [|discriminate].
  intro H; inversion H; subst. apply andb_true_iff in E as [E1 E2].
  apply N.leb_le in E1. apply N.leb_le in E2. split; [lia|]. rewrite N2Z.id. lia.
Qed.

Lemma digit_z_of q : q < 10 -> digit_z (48 + q) = Some (Z.of_N q).
Proof.
  intro H. unfold digit_z.
  destruct (N.leb_spec 48 (48 + q)); [|lia]. destruct (N.leb_spec (48 + q) 57); [|lia].
  cbn [andb]. f_equal. f_equal. lia.
Qed.

Lemma div_mod_unique a q r k : k <> 0 -> r < k -> a = k * q + r -> a / k = q /\ a mod k = r.
Proof.
  intros Hk Hr Ha. split.
  - symmetry. apply (N.div_unique a k q r Hr Ha).
  - symmetry. apply (N.mod_unique a k q r Hr Ha).
Qed.

Lemma digits2_spec a c z : digits2 a c = Some z ->
  exists x y, x < 10 /\ y < 10 /\ a = 48 + x /\ c = 48 + y /\ z = Z.of_N (10 * x + y).
Proof.
  unfold digits2. destruct (digit_z a) as [x|] eqn:Ea; [|discriminate].
  destruct (digit_z c) as [y|] eqn:Ec; [|discriminate].
  intro H. assert (Hz : z = (10 * x + y)%Z) by congruence. clear H. subst z.
  apply digit_z_spec in Ea as [Hx ->]. apply digit_z_spec in Ec as [Hy ->].
  exists (Z.to_N x), (Z.to_N y). repeat split; lia.
Qed.

Lemma pad2_digits2 a c z : digits2 a c = Some z -> pad2 z = [a; c].
Proof.
  intro H. apply digits2_spec in H as (x & y & Hx & Hy & -> & -> & ->).
  unfold pad2. rewrite N2Z.id.
  destruct (div_mod_unique (10 * x + y) x y 10) as [-> ->]; [lia|lia|lia|reflexivity].
Qed.

Lemma digits2_pad2 z : (0 <= z < 100)%Z ->
  digits2 (48 + Z.to_N z / 10) (48 + Z.to_N z mod 10) = Some z.
Proof.
  intro Hz. set (n := Z.to_N z).
  assert (Hn : n < 100) by (unfold n; lia).
  pose proof (N.div_mod' n 10) as Hdm. pose proof (N.mod_lt n 10 ltac:(lia)) as Hr.
  assert (Hq : n / 10 < 10) by (apply N.div_lt_upper_bound; lia).
  unfold digits2. rewrite (digit_z_of _ Hq), (digit_z_of _ Hr). f_equal. unfold n in *. lia.
Qed.

Lemma digits4_spec a c d e z : digits4 a c d e = Some z ->
  exists x1 x2 x3 x4, x1 < 10 /\ x2 < 10 /\ x3 < 10 /\ x4 < 10 /\
    a = 48 + x1 /\ c = 48 + x2 /\ d = 48 + x3 /\ e = 48 + x4 /\
    z = Z.of_N (1000 * x1 + 100 * x2 + 10 * x3 + x4).
Proof.
  unfold digits4. destruct (digits2 a c) as [x|] eqn:E1; [|discriminate].
  destruct (digits2 d e) as [y|] eqn:E2; [|discriminate].
  intro H. assert (Hz : z = (100 * x + y)%Z) by congruence. clear H. subst z.
  apply digits2_spec in E1 as (x1 & x2 & ? & ? & -> & -> & ->).
  apply digits2_spec in E2 as (x3 & x4 & ? & ? & -> & -> & ->).
  exists x1, x2, x3, x4. repeat split; try assumption; lia.
Qed.

Lemma pad4_digits4 a c d e z : digits4 a c d e = Some z -> pad4 z = [a; c; d; e].
Proof.
  intro H. apply digits4_spec in H as (x1 & x2 & x3 & x4 & H1 & H2 & H3 & H4 & -> & -> & -> & -> & ->).
  unfold pad4. rewrite N2Z.id. set (n := 1000 * x1 + 100 * x2 + 10 * x3 + x4).
  destruct (div_mod_unique n x1 (100 * x2 + 10 * x3 + x4) 1000) as [-> _]; [lia|lia|unfold n; lia|].
  destruct (div_mod_unique n (10 * x1 + x2) (10 * x3 + x4) 100) as [-> _]; [lia|lia|unfold n; lia|].
  destruct (div_mod_unique n (100 * x1 + 10 * x2 + x3) x4 10) as [-> ->]; [lia|lia|unfold n; lia|].
  destruct (div_mod_unique (10 * x1 + x2) x1 x2 10) as [_ ->]; [lia|lia|lia|].
  destruct (div_mod_unique (100 * x1 + 10 * x2 + x3) (10 * x1 + x2) x3 10) as [_ ->]; [lia|lia|lia|].
  reflexivity.
Qed.

Lemma digits4_pad4 z : (0 <= z < 10000)%Z ->
  match pad4 z with
  | [a; c; d; e] => digits4 a c d e = Some z
  | _ => False
  end.
Proof.
  intro Hz. unfold pad4. set (n := Z.to_N z).
  assert (Hn : n < 10000) by (unfold n; lia).
  pose proof (N.div_mod' n 10) as D1. pose proof (N.mod_lt n 10 ltac:(lia)) as R1.
  pose proof (N.div_mod' (n / 10) 10) as D2. pose proof (N.mod_lt (n / 10) 10 ltac:(lia)) as R2.
  pose proof (N.div_mod' (n / 100) 10) as D3. pose proof (N.mod_lt (n / 100) 10 ltac:(lia)) as R3.
  assert (E100 : n / 100 = n / 10 / 10) by (rewrite N.div_div by lia; reflexivity).
  assert (E1000 : n / 1000 = n / 100 / 10) by (rewrite N.div_div by lia; reflexivity).
  assert (Hq : n / 1000 < 10) by (apply N.div_lt_upper_bound; lia).
  unfold digits4, digits2.
  rewrite (digit_z_of _ Hq), (digit_z_of _ R3), (digit_z_of _ R2), (digit_z_of _ R1).
  f_equal. unfold n in *. lia.
Qed.

(* a four-digit number of at least 1000 is printed by Display exactly as its four digits *)
Lemma dec_z_4 z : (1000 <= z < 10000)%Z -> dec_z z = pad4 z.
Proof.
  intro Hz. unfold dec_z. destruct (Z.ltb_spec z 0); [lia|]. unfold pad4, dec_n. set (n := Z.to_N z).
  assert (Hn : 1000 <= n < 10000) by (unfold n; lia).
  assert (E100 : n / 10 / 10 = n / 100) by (rewrite N.div_div by lia; reflexivity).
  assert (E1000 : n / 10 / 10 / 10 = n / 1000) by (rewrite E100, N.div_div by lia; reflexivity).
  assert (L1 : 100 <= n / 10) by (apply N.div_le_lower_bound; lia).
  assert (L2 : 10 <= n / 100) by (apply N.div_le_lower_bound; lia).
  assert (L3 : n / 1000 < 10) by (apply N.div_lt_upper_bound; lia).
  change (dec_fuel 40 n) with
    (if n <? 10 then [48 + n] else
       (if n / 10 <? 10 then [48 + n / 10] else
          (if n / 10 / 10 <? 10 then [48 + n / 10 / 10] else
             (if n / 10 / 10 / 10 <? 10 then [48 + n / 10 / 10 / 10]
              else dec_fuel 36 (n / 10 / 10 / 10 / 10) ++ [48 + (n / 10 / 10 / 10) mod 10])
             ++ [48 + (n / 10 / 10) mod 10]) ++ [48 + (n / 10) mod 10]) ++ [48 + n mod 10]).
  rewrite E1000, E100.
  destruct (N.ltb_spec n 10); [lia|]. destruct (N.ltb_spec (n / 10) 10); [lia|].
  destruct (N.ltb_spec (n / 100) 10); [lia|]. destruct (N.ltb_spec (n / 1000) 10); [|lia].
  reflexivity.
Qed.

(* ---------- Latin1 ---------- *)

Lemma two_byte_latin1 c c2 : 194 <= c <= 223 -> 128 <= c2 <= 191 ->
  latin1_scalar ((c - 192) * 64 + (c2 - 128)) = ((c =? 194) && (160 <=? c2)) || (c =? 195).
Proof.
  intros Hc Hc2. unfold latin1_scalar. set (v := (c - 192) * 64 + (c2 - 128)).
  destruct (N.eqb_spec c 194) as [E1|N1]; [|destruct (N.eqb_spec c 195) as [E2|N2]]; cbn [andb orb].
  - assert (v = c2) by (unfold v; lia).
    destruct (N.eqb_spec c 195); [lia|].
    destruct (N.leb_spec 160 c2), (N.leb_spec 32 v), (N.leb_spec v 126), (N.leb_spec 160 v), (N.leb_spec v 255);
      cbn [andb orb]; try reflexivity; lia.
  - assert (192 <= v <= 255) by (unfold v; lia).
    destruct (N.leb_spec 32 v), (N.leb_spec v 126), (N.leb_spec 160 v), (N.leb_spec v 255);
      cbn [andb orb]; try reflexivity; lia.
  - assert (256 <= v) by (unfold v; lia).
    destruct (N.leb_spec 32 v), (N.leb_spec v 126), (N.leb_spec 160 v), (N.leb_spec v 255);
      cbn [andb orb]; try reflexivity; lia.
Qed.

Lemma latin1_equiv_n : forall n s, (length s <= n)%nat ->
  latin1_chars_ok s = match utf8_scalars_lt_800 s with
                      | Some cs => forallb latin1_scalar cs
                      | None => false
                      end
  /\ forall cs, utf8_scalars_lt_800 s = Some cs -> (length cs <= length s)%nat.
Proof.
  induction n as [|n IH]; intros s Hl.
  - destruct s; [|cbn in Hl; lia]. split; [reflexivity|]. intros cs H; inversion H; cbn; lia.
  - destruct s as [|c r]; [split; [reflexivity|intros cs H; inversion H; cbn; lia]|].
    cbn [length] in Hl. cbn [latin1_chars_ok utf8_scalars_lt_800].
    destruct (N.ltb_spec c 128) as [Hc|Hc].
    + destruct (IH r ltac:(lia)) as [E L]. rewrite E.
      destruct (utf8_scalars_lt_800 r) as [cs|]; cbn [option_map].
      * split.
        -- cbn [forallb]. f_equal. unfold latin1_scalar.
           destruct (N.leb_spec 32 c), (N.ltb_spec c 127), (N.leb_spec c 126), (N.leb_spec 160 c); cbn; try reflexivity; lia.
        -- intros cs' H; inversion H; subst. cbn [length]. specialize (L cs eq_refl). lia.
      * split; [rewrite andb_false_r; reflexivity|discriminate].
    + destruct r as [|c2 r'].
      * destruct ((194 <=? c) && (c <=? 223)); split; try reflexivity; discriminate.
      * cbn [length] in Hl. destruct (IH r' ltac:(lia)) as [E L]. rewrite E.
        destruct (N.leb_spec 194 c) as [H1|H1]; destruct (N.leb_spec c 223) as [H2|H2]; cbn [andb].
        -- destruct (N.leb_spec 128 c2) as [H3|H3]; destruct (N.leb_spec c2 191) as [H4|H4]; cbn [andb].
           ++ destruct (utf8_scalars_lt_800 r') as [cs|]; cbn [option_map].
              ** split.
                 --- cbn [forallb]. rewrite two_byte_latin1 by lia.
                     destruct (N.eqb_spec c 194), (N.eqb_spec c 195), (N.leb_spec 160 c2); cbn [andb orb]; try reflexivity; lia.
                 --- intros cs' H; inversion H; subst. cbn [length]. specialize (L cs eq_refl). lia.
              ** split; [rewrite andb_false_r; reflexivity|discriminate].
           ++ split; [rewrite andb_false_r; reflexivity|discriminate].
           ++ split; [|discriminate].
              destruct (N.eqb_spec c 194), (N.eqb_spec c 195), (N.leb_spec 160 c2); cbn [andb orb]; try reflexivity; lia.
           ++ split; [|discriminate].
              destruct (N.eqb_spec c 194), (N.eqb_spec c 195), (N.leb_spec 160 c2); cbn [andb orb]; try reflexivity; lia.
        -- split; [|discriminate].
           destruct (N.eqb_spec c 194), (N.eqb_spec c 195); cbn [andb orb]; try reflexivity; lia.
        -- split; [|discriminate].
           destruct (N.eqb_spec c 194), (N.eqb_spec c 195); cbn [andb orb]; try reflexivity; lia.
        -- split; [|discriminate].
           destruct (N.eqb_spec c 194), (N.eqb_spec c 195); cbn [andb orb]; try reflexivity; lia.
Qed.

Lemma latin1_equiv s :
  latin1_chars_ok s = match utf8_scalars_lt_800 s with
                      | Some cs => forallb latin1_scalar cs
                      | None => false
                      end.
Proof. apply (latin1_equiv_n (length s) s (le_n _)). Qed.

Lemma scalars_length s cs : utf8_scalars_lt_800 s = Some cs -> (length cs <= length s)%nat.
Proof. apply (latin1_equiv_n (length s) s (le_n _)). Qed.

Lemma scalars_count_n : forall n s, (length s <= n)%nat ->
  forall cs, utf8_scalars_lt_800 s = Some cs ->
  length (filter (fun c => negb (cont c)) s) = length cs.
Proof.
  induction n as [|n IH]; intros s Hl cs.
  - destruct s; [|cbn in Hl; lia]. intro H; inversion H; reflexivity.
  - destruct s as [|c r]; [intro H; inversion H; reflexivity|].
    cbn [length] in Hl. cbn [utf8_scalars_lt_800 filter].
    destruct (N.ltb_spec c 128) as [Hc|Hc].
    + assert (Ec : cont c = false) by (unfold cont, in_range; destruct (N.leb_spec 128 c); [lia|reflexivity]).
      rewrite Ec. cbn [negb]. destruct (utf8_scalars_lt_800 r) as [cs'|] eqn:E; [|discriminate].
      intro H; inversion H; subst. cbn [length]. f_equal. apply (IH r); [lia|exact E].
    + destruct ((194 <=? c) && (c <=? 223)) eqn:R; [|discriminate].
      apply andb_true_iff in R as [R1 R2]. apply N.leb_le in R1. apply N.leb_le in R2.
      destruct r as [|c2 r']; [discriminate|].
      destruct ((128 <=? c2) && (c2 <=? 191)) eqn:R'; [|discriminate].
      assert (Ec : cont c = false) by (unfold cont, in_range; destruct (N.leb_spec 128 c), (N.leb_spec c 191); try reflexivity; lia).
      assert (Ec2 : cont c2 = true) by (exact R').
      rewrite Ec. cbn [negb filter]. rewrite Ec2. cbn [negb].
      destruct (utf8_scalars_lt_800 r') as [cs'|] eqn:E; [|discriminate].
      intro H; inversion H; subst. cbn [length] in *. f_equal. apply (IH r'); [lia|exact E].
Qed.

Lemma scalars_count s cs : utf8_scalars_lt_800 s = Some cs -> utf8_chars s = N.of_nat (length cs).
Proof. intro H. unfold utf8_chars. f_equal. apply (scalars_count_n (length s) s (le_n _) cs H). Qed.

(* ---------- leaf specification ---------- *)

Section Leaves.
  Variable b64 : bytes -> option bytes.

  (* Ok v => v is the prescribed encoding of j; Err => j is outside the domain; never a panic *)
  Definition leaf_spec0 (ctx : list (bytes * json)) (c : vclass) (j : json) (r : res cbor) : Prop :=
    match r with
    | Ok v => den0 b64 ctx c j v = true
    | Err _ => dom0 b64 ctx c j = false
    | Panic _ => False
    end.

  Lemma text_spec ctx j : leaf_spec0 ctx VText j (rmap CText (string_leaf j)).
  Proof. unfold leaf_spec0. destruct j; cbn; try reflexivity. apply bytes_eqb_refl. Qed.

  Lemma u32_spec ctx j : leaf_spec0 ctx VUInt32 j (rmap CUInt (u32_leaf j)).
  Proof.
    unfold leaf_spec0. destruct j; cbn [u32_leaf rmap]; try reflexivity.
    unfold two32. destruct (N.ltb_spec n 4294967296) as [H|H]; cbn [rmap den0 dom0].
    - destruct (N.ltb_spec n 4294967296); [|lia]. rewrite N.eqb_refl. reflexivity.
    - destruct (N.ltb_spec n 4294967296); [lia|]. reflexivity.
  Qed.

  Lemma bytes_spec ctx j : leaf_spec0 ctx VBytes j (bytestr_leaf b64 j).
  Proof.
    unfold leaf_spec0. destruct j; cbn [bytestr_leaf string_leaf rbind]; try reflexivity.
    destruct (b64 s) as [x|] eqn:E; cbn [den0 dom0]; rewrite E; [apply bytes_eqb_refl|reflexivity].
  Qed.

  Lemma county_spec ctx j : leaf_spec0 ctx VCounty j (county_leaf j).
  Proof.
    unfold leaf_spec0. destruct j; cbn [county_leaf string_leaf rbind]; try reflexivity.
    destruct s as [|a [|c [|d [|e r]]]]; try reflexivity.
    cbn [den0 dom0 spec_county].
    destruct (is_digit a && is_digit c && is_digit d); cbn [rmap andb]; [apply (bytes_eqb_refl [a; c; d])|reflexivity].
  Qed.

  Lemma present_spec ctx j : leaf_spec0 ctx VPresent j (present_leaf j).
  Proof.
    unfold leaf_spec0. destruct j; try reflexivity.
    unfold present_leaf, u32_leaf, rbind, two32.
    destruct (N.ltb_spec n 4294967296) as [H|H].
    - destruct (N.eqb_spec n 1) as [E|E].
      + subst n. reflexivity.
      + cbn [dom0]. destruct (N.eqb_spec n 1); [contradiction|reflexivity].
    - cbn [dom0]. destruct (N.eqb_spec n 1) as [E|E]; [|reflexivity].
      exfalso. rewrite E in H. apply H. reflexivity.
  Qed.

  Lemma latin1_spec ctx j : leaf_spec0 ctx VLatin1 j (latin1_leaf j).
  Proof.
    unfold leaf_spec0. destruct j; try reflexivity.
    cbn [latin1_leaf string_leaf rbind den0 dom0].
    change latin1_max_len with 150.
    unfold spec_latin1. rewrite latin1_equiv.
    destruct (utf8_scalars_lt_800 s) as [cs|] eqn:E.
    - rewrite (scalars_count _ _ E).
      destruct (N.ltb_spec 150 (N.of_nat (length cs))) as [Hb|Hb].
      + destruct (N.leb_spec (N.of_nat (length cs)) 150); [lia|]. apply andb_false_r.
      + destruct (N.leb_spec (N.of_nat (length cs)) 150); [|lia].
        destruct (forallb latin1_scalar cs); cbn [andb]; [apply bytes_eqb_refl|reflexivity].
    - destruct (150 <? utf8_chars s); reflexivity.
  Qed.

  (* ---------- code tables ---------- *)

  Lemma codetext_spec ctx t codes fold j : str_table_ok t codes fold = true -> st_passthrough t = false ->
    leaf_spec0 ctx (VCodeText codes fold) j (str_enum_leaf t j).
  Proof.
    intros Hok Hp. unfold leaf_spec0. destruct j; try reflexivity.
    unfold str_enum_leaf, string_leaf, rbind, rmap.
    pose proof (str_table_code_spec t codes fold Hok Hp s) as H.
    destruct (str_table_code t s) as [c|e|p]; cbn [den0 dom0].
    - destruct H as [-> ->]. cbn. apply bytes_eqb_refl.
    - exact H.
    - exact H.
  Qed.

  Lemma codeuint_spec ctx t codes j : int_table_ok t codes = true ->
    forallb (fun c => c <? 4294967296) codes = true ->
    leaf_spec0 ctx (VCodeUInt codes) j (int_enum_leaf t j).
  Proof.
    intros Hok Hsmall. unfold leaf_spec0. destruct j; try reflexivity.
    unfold int_enum_leaf, u32_leaf, rbind, rmap, two32.
    destruct (N.ltb_spec n 4294967296) as [Hn|Hn].
    - pose proof (int_table_code_spec t codes Hok n) as H.
      destruct (int_table_code t n) as [c|e|p]; cbn [den0 dom0].
      + destruct H as [-> ->]. cbn. apply N.eqb_refl.
      + exact H.
      + exact H.
    - cbn [dom0]. destruct (mem_n n codes) eqn:M; [|reflexivity].
      exfalso. apply mem_n_In in M. rewrite forallb_forall in Hsmall. apply Hsmall in M.
      apply N.ltb_lt in M. lia.
  Qed.

  Lemma freecode_spec ctx t j : str_table_rt t = true -> st_norm t = NormNone -> st_passthrough t = true ->
    leaf_spec0 ctx VFreeCode j (str_enum_leaf t j).
  Proof.
    intros H1 H2 H3. unfold leaf_spec0. destruct j; try reflexivity.
    unfold str_enum_leaf, string_leaf, rbind, rmap.
    rewrite (str_table_code_passthrough t H1 H2 H3). cbn [den0]. apply bytes_eqb_refl.
  Qed.
End Leaves.
