(* C09: (1) the executable checker of Spec/IssuanceSpec.v is sound for the Prop-level statement;
        (2) the model's issued documents satisfy the Prop-level statement. *)
From Isomdl Require Import Lib.Bytes Lib.Utf8 Lib.Cbor Lib.Sha2 Proofs.CborProofs Model.Cose Spec.CoseRfc
     Proofs.CoseProofs Model.Issuance Spec.IssuanceSpec Model.IssuanceObs Proofs.IssuanceProofs.
From Coq Require Import Permutation.
Open Scope N_scope.
Local Open Scope string_scope.

(* ------------------------------------------------------------------------------------------ *)
(** * Soundness of the checker *)

Lemma need_none c why k : need c why k = None -> c = true /\ k = None.
Proof. unfold need. destruct c; [auto|discriminate]. Qed.

Lemma remove_first_perm {A} (eqb : A -> A -> bool) (Heq : forall x y, eqb x y = true -> x = y) x :
  forall l l', remove_first eqb x l = Some l' -> Permutation l (x :: l').
Proof.
  induction l as [|y r IH]; intros l' H; cbn [remove_first] in H; [discriminate|].
  destruct (eqb x y) eqn:E.
  - inversion H; subst. apply Heq in E. subst. apply Permutation_refl.
  - destruct (remove_first eqb x r) as [r'|] eqn:Er; [|discriminate]. inversion H; subst.
    eapply perm_trans; [apply perm_skip; apply IH; reflexivity|apply perm_swap].
Qed.

Lemma perm_b_sound {A} (eqb : A -> A -> bool) (Heq : forall x y, eqb x y = true -> x = y) :
  forall l1 l2, perm_b eqb l1 l2 = true -> Permutation l1 l2.
Proof.
  induction l1 as [|x r IH]; intros l2 H; cbn [perm_b] in H.
  - destruct l2; [constructor|discriminate].
  - destruct (remove_first eqb x l2) as [l2'|] eqn:E; [|discriminate].
    apply (remove_first_perm eqb Heq) in E. apply IH in H.
    eapply perm_trans; [apply perm_skip; exact H|apply Permutation_sym; exact E].
Qed.

Lemma nodup_b_sound {A} (eqb : A -> A -> bool) (Hrefl : forall x, eqb x x = true) :
  forall l, nodup_b eqb l = true -> NoDup l.
Proof.
  induction l as [|x r IH]; cbn [nodup_b]; intro H; [constructor|].
  apply andb_true_iff in H as [H1 H2]. constructor; [|apply IH; exact H2].
  intro Hin. apply negb_true_iff in H1.
  assert (existsb (eqb x) r = true) by (apply existsb_exists; exists x; split; [exact Hin|apply Hrefl]). congruence.
Qed.

Lemma cbor_eqb_refl c : cbor_eqb c c = true.
Proof. apply cbor_eqb_eq. reflexivity. Qed.

Lemma elem_eqb_eq a b : elem_eqb a b = true -> a = b.
Proof.
  unfold elem_eqb. intro H. apply andb_true_iff in H as [H1 H2]. apply bytes_eqb_eq in H1. apply cbor_eqb_eq in H2.
  destruct a, b; cbn in *; congruence.
Qed.

Lemma parse_items_sound : forall ibs sis, parse_items ibs = Some sis -> map parse_item ibs = map Some sis.
Proof.
  induction ibs as [|ib r IH]; intros sis H; cbn [parse_items] in H.
  - inversion H; reflexivity.
  - destruct (parse_item ib) as [s|] eqn:E; [|discriminate]. destruct (parse_items r) as [ss|]; [|discriminate].
    inversion H; subst. cbn [map]. rewrite E, (IH ss eq_refl). reflexivity.
Qed.

Lemma opt_cbor_eqb_eq a b : opt_cbor_eqb a b = true -> a = Some b.
Proof. destruct a as [x|]; cbn; [|discriminate]. intro H. apply cbor_eqb_eq in H. congruence. Qed.

Lemma digests_b_sound H vd : forall sis ibs, digests_b H vd sis ibs = true ->
  Forall2 (fun s ib => map_get (si_id s) vd = Some (CBytes (H (item_bytes_tagged ib)))) sis ibs.
Proof.
  induction sis as [|s sr IH]; intros [|ib ir] Hd; cbn [digests_b] in Hd; try discriminate; [constructor|].
  apply andb_true_iff in Hd as [H1 H2]. constructor; [apply opt_cbor_eqb_eq; exact H1|apply IH; exact H2].
Qed.

Lemma forallb_Forall {A} (f : A -> bool) l : forallb f l = true -> Forall (fun x => f x = true) l.
Proof. intro H. apply Forall_forall. apply forallb_forall. exact H. Qed.

Lemma ns_check_sound H decoys els ibs vd : ns_check H decoys els ibs vd = None -> ns_ok H decoys els ibs vd.
Proof.
  unfold ns_check. destruct (parse_items ibs) as [sis|] eqn:Ep; [|discriminate]. intro Hc.
  apply need_none in Hc as [C1 Hc]. apply need_none in Hc as [C2 Hc]. apply need_none in Hc as [C3 Hc].
  apply need_none in Hc as [C4 Hc]. apply need_none in Hc as [C5 Hc]. apply need_none in Hc as [C6 Hc].
  apply need_none in Hc as [C7 Hc]. apply need_none in Hc as [C8 _].
  exists sis. split; [apply parse_items_sound; exact Ep|].
  split; [apply (perm_b_sound elem_eqb elem_eqb_eq); exact C1|].
  split. { apply forallb_Forall in C2. eapply Forall_impl; [|exact C2]. cbn. intros s Hs. apply Nat.leb_le. exact Hs. }
  split; [apply forallb_Forall; exact C3|].
  split; [apply (nodup_b_sound cbor_eqb cbor_eqb_refl); exact C4|].
  split; [apply digests_b_sound; exact C5|].
  split; [apply forallb_Forall; exact C6|].
  split; [apply (nodup_b_sound cbor_eqb cbor_eqb_refl); exact C7|].
  intros -> k Hk. cbn [orb] in C8. rewrite forallb_forall in C8. specialize (C8 _ Hk).
  apply existsb_exists in C8 as [x [Hx E]]. apply cbor_eqb_eq in E. subst. exact Hx.
Qed.

Lemma nss_check_sound H decoys vds : forall inp obs, nss_check H decoys vds inp obs = None ->
  Forall2 (ns_entry_ok H decoys vds) inp obs.
Proof.
  induction inp as [|[ns els] ir IH]; intros [|[ns' ibs] or] Hc; cbn [nss_check] in Hc; try discriminate; [constructor|].
  apply need_none in Hc as [C1 Hc]. apply bytes_eqb_eq in C1. subst.
  destruct (map_get (CText ns) vds) as [[| | | | |vd| | | |]|] eqn:Eg; try discriminate.
  destruct (ns_check H decoys els ibs vd) eqn:En; [discriminate|].
  constructor; [|apply IH; exact Hc]. split; [reflexivity|]. exists vd. split; [exact Eg|apply ns_check_sound; exact En].
Qed.

Lemma cbor_list_eqb_eq : forall a b, cbor_list_eqb a b = true -> a = b.
Proof.
  induction a as [|x a IH]; intros [|y b] H; cbn [cbor_list_eqb] in H; try discriminate; [reflexivity|].
  apply andb_true_iff in H as [H1 H2]. apply cbor_eqb_eq in H1. apply IH in H2. congruence.
Qed.

Theorem issued_check_sound verify_sig req o :
  issued_check verify_sig req o = None -> issued_ok verify_sig req o.
Proof.
  unfold issued_check. intro Hc.
  apply need_none in Hc as [C1 Hc]. apply need_none in Hc as [C2 Hc]. apply need_none in Hc as [C3 Hc].
  apply need_none in Hc as [C4 Hc]. apply need_none in Hc as [C5 Hc].
  apply bytes_eqb_eq in C1, C2. apply opt_cbor_eqb_eq in C3.
  assert (C4' : o_payload o = Some (mso_payload_of o)).
  { unfold opt_bytes_eqb in C4. destruct (o_payload o); [|discriminate]. apply bytes_eqb_eq in C4. congruence. }
  split; [exact C1|]. split; [unfold issuer_auth_ok; auto|].
  destruct (iso_hash (r_alg req)) as [H|] eqn:Eh; [|discriminate].
  destruct (decode_all (o_mso o)) as [[| | | | |kvs| | | |]|] eqn:Ed; try discriminate.
  apply need_none in Hc as [D1 Hc]. apply need_none in Hc as [D2 Hc]. apply need_none in Hc as [D3 Hc].
  apply need_none in Hc as [D4 Hc]. apply need_none in Hc as [D5 Hc].
  destruct (map_get (ctext "valueDigests") kvs) as [[| | | | |vds| | | |]|] eqn:Ev; try discriminate.
  apply need_none in Hc as [D6 Hc].
  exists H, kvs, vds. repeat (split; [first [reflexivity|apply opt_cbor_eqb_eq; assumption|assumption]|]).
  split; [apply cbor_list_eqb_eq; exact D6|]. apply nss_check_sound. exact Hc.
Qed.

Lemma bmem_s_iff b l : bmem_s b l = true <-> In b l.
Proof.
  unfold bmem_s. rewrite existsb_exists. split.
  - intros [x [Hin E]]. apply bytes_eqb_eq in E. subst. exact Hin.
  - intro H. exists b. split; [exact H|apply bytes_eqb_refl].
Qed.

Theorem must_refuse_b_iff req : must_refuse_b req = true <-> must_refuse req.
Proof.
  unfold must_refuse_b, must_refuse. rewrite !orb_true_iff. split.
  - intros [[H|H]|H].
    + left. destruct (r_namespaces req); [reflexivity|discriminate].
    + right. left. apply existsb_exists in H as [[ns els] [Hin E]]. cbn in E. destruct els; [|discriminate]. exists ns. exact Hin.
    + right. right. unfold contradictory_b in H. unfold contradictory.
      destruct (r_auth_namespaces req) as [nss|]; [|discriminate]. destruct (r_auth_elements req) as [des|]; [|discriminate].
      apply existsb_exists in H as [ns [H1 H2]]. apply bmem_s_iff in H2. exists nss, des, ns. auto.
  - intros [H|[[ns H]|[nss [des [ns [H1 [H2 [H3 H4]]]]]]]].
    + left. left. rewrite H. reflexivity.
    + left. right. apply existsb_exists. exists (ns, []). split; [exact H|reflexivity].
    + right. unfold contradictory_b. rewrite H1, H2. apply existsb_exists. exists ns. split; [exact H3|apply bmem_s_iff; exact H4].
Qed.

(* ------------------------------------------------------------------------------------------ *)
(** * The model's documents satisfy the ISO-level statement *)

Definition text_ok (b : bytes) : Prop := wf_bytes b = true /\ utf8_valid b = true.
Definition elem_wf (e : bytes * cbor) : Prop := text_ok (fst e) /\ wf (snd e) = true.

(* inputs that have a CBOR encoding at all: strings are UTF-8, values are well-formed CBOR,
   the namespaces form a map (distinct names) *)
Definition request_wf (q : request) : Prop :=
  NoDup (map fst (q_namespaces q)) /\
  Forall (fun x => text_ok (fst x) /\ Forall elem_wf (snd x)) (q_namespaces q) /\
  text_ok (q_doc_type q) /\ wf (q_validity q) = true /\ wf (q_device_key_info q) = true.

(* no encoded component reaches 2^64 bytes *)
Definition sizes_ok (m : mdoc) : Prop :=
  blen (encode (mso_cbor (m_mso m))) < two64 /\
  Forall (fun x => Forall (fun it => blen (item_bytes it) < two64) (snd x)) (m_namespaces m).

Lemma int_cbor_inj a b : int_cbor a = int_cbor b -> a = b.
Proof.
  unfold int_cbor. destruct (Z.ltb_spec a 0), (Z.ltb_spec b 0); intro HE; try discriminate.
  - remember (-1 - a)%Z as x. remember (-1 - b)%Z as y. injection HE as E. apply Z2N.inj in E; lia.
  - injection HE as E. apply Z2N.inj in E; lia.
Qed.

Lemma int_cbor_wf z : in_i32 z = true -> wf (int_cbor z) = true.
Proof.
  intro H. apply in_i32_iff in H. unfold i32_min, i32_max in H. unfold int_cbor.
  destruct (Z.ltb_spec z 0); cbn [wf]; apply N.ltb_lt; unfold two64; lia.
Qed.

Lemma int_cbor_id_ok z : (0 <= z < 2147483648)%Z -> id_ok (int_cbor z) = true.
Proof.
  intro H. unfold int_cbor. destruct (Z.ltb_spec z 0); [lia|]. cbn [id_ok]. apply N.ltb_lt. lia.
Qed.

Lemma id_from_draw_in release z : id_from_draw release z -> in_i32 z = true.
Proof.
  intro H. apply id_from_draw_range in H.
  apply in_i32_iff. unfold i32_min, i32_max. lia.
Qed.

Lemma map_get_nodup {K V} (fk : K -> cbor) (fv : V -> cbor) (Hinj : forall a b, fk a = fk b -> a = b) :
  forall (l : list (K * V)) k v, NoDup (map fst l) -> In (k, v) l ->
  map_get (fk k) (map (fun kv => (fk (fst kv), fv (snd kv))) l) = Some (fv v).
Proof.
  induction l as [|[k' v'] r IH]; intros k v Hnd Hin; [contradiction|].
  cbn [map fst snd map_get]. inversion Hnd as [|? ? Hk Hnd']; subst.
  destruct (cbor_eqb (fk k) (fk k')) eqn:E.
  - apply cbor_eqb_eq in E. apply Hinj in E. subst. destruct Hin as [Hin|Hin]; [inversion Hin; reflexivity|].
    exfalso. apply Hk. apply in_map_iff. exists (k', v). split; [reflexivity|exact Hin].
  - destruct Hin as [Hin|Hin]; [inversion Hin; subst; rewrite cbor_eqb_refl in E; discriminate|]. apply IH; assumption.
Qed.

Lemma nodup_map_inj {A B} (f : A -> B) (Hinj : forall a b, f a = f b -> a = b) l : NoDup l -> NoDup (map f l).
Proof.
  induction 1 as [|x l Hx Hnd IH]; cbn [map]; constructor; [|exact IH].
  intro Hin. apply in_map_iff in Hin as [y [E Hy]]. apply Hinj in E. subst. contradiction.
Qed.

Definition si_of (it : item) : signed_item :=
  {| si_id := int_cbor (it_id it); si_random := it_random it; si_ident := it_ident it; si_value := it_value it |}.

Lemma ctext_keys_wf :
  wf (ctext "digestID") = true /\ wf (ctext "random") = true /\ wf (ctext "elementIdentifier") = true /\
  wf (ctext "elementValue") = true /\ wf (ctext "version") = true /\ wf (ctext "digestAlgorithm") = true /\
  wf (ctext "valueDigests") = true /\ wf (ctext "deviceKeyInfo") = true /\ wf (ctext "docType") = true /\
  wf (ctext "validityInfo") = true.
Proof. vm_compute. repeat split. Qed.

Lemma item_cbor_wf it :
  in_i32 (it_id it) = true -> wf_bytes (it_random it) = true -> text_ok (it_ident it) -> wf (it_value it) = true ->
  wf (item_cbor it) = true.
Proof.
  intros H1 H2 [H3 H4] H5. destruct ctext_keys_wf as [K1 [K2 [K3 [K4 _]]]].
  unfold item_cbor. cbn [wf forallb]. rewrite K1, K2, K3, K4, (int_cbor_wf _ H1), H2, H3, H4, H5. reflexivity.
Qed.

Lemma parse_item_bytes it : wf (item_cbor it) = true -> blen (item_bytes it) < two64 ->
  parse_item (item_bytes it) = Some (si_of it).
Proof.
  intros Hwf Hlen. unfold parse_item, item_bytes.
  rewrite decode_all_encode; [|exact Hwf|apply encode_short_len_ok; exact Hlen]. reflexivity.
Qed.

Lemma iso_hash_alg alg : iso_hash (alg_name alg) = Some (hash alg).
Proof. destruct alg; reflexivity. Qed.

Lemma alg_name_text alg : text_ok (alg_name alg).
Proof. destruct alg; split; vm_compute; reflexivity. Qed.

Definition vd_wf (vd : list (Z * bytes)) : Prop := Forall (fun kv => in_i32 (fst kv) = true /\ wf_bytes (snd kv) = true) vd.

Lemma digest_ids_cbor_wf vd : vd_wf vd -> wf (digest_ids_cbor vd) = true.
Proof.
  unfold digest_ids_cbor. cbn [wf]. induction 1 as [|[k v] r [H1 H2] Hr IH]; cbn [map forallb fst snd]; [reflexivity|].
  cbn [fst snd] in H1, H2. rewrite (int_cbor_wf _ H1). cbn [wf]. rewrite H2, IH. reflexivity.
Qed.

Lemma value_digests_cbor_wf vds : Forall (fun x => text_ok (fst x) /\ vd_wf (snd x)) vds -> wf (value_digests_cbor vds) = true.
Proof.
  unfold value_digests_cbor. cbn [wf]. induction 1 as [|[k v] r [[H1 H2] H3] Hr IH]; cbn [map forallb fst snd]; [reflexivity|].
  cbn [wf]. cbn [fst snd] in *. rewrite H1, H2, (digest_ids_cbor_wf _ H3), IH. reflexivity.
Qed.

Lemma nth_error_map_some {A B} (f : A -> B) : forall l i b, nth_error (map f l) i = Some b ->
  exists a, nth_error l i = Some a /\ b = f a.
Proof.
  induction l as [|x l IH]; intros [|i] b H; cbn in *; try discriminate.
  - inversion H. eexists; split; reflexivity.
  - apply IH. exact H.
Qed.

Lemma Forall2_of_nth {A B} (R : A -> B -> Prop) : forall l l', length l = length l' ->
  (forall i a b, nth_error l i = Some a -> nth_error l' i = Some b -> R a b) -> Forall2 R l l'.
Proof.
  induction l as [|x l IH]; intros [|y l'] Hl H; cbn in Hl; try discriminate; constructor.
  - apply (H O); reflexivity.
  - apply IH; [lia|]. intros i a b Ha Hb. apply (H (S i)); assumption.
Qed.

Lemma nth_error_same_length {A B} (l : list A) (l' : list B) i a : length l = length l' ->
  nth_error l i = Some a -> exists b, nth_error l' i = Some b.
Proof.
  intros Hl H. destruct (nth_error l' i) eqn:E; [eexists; reflexivity|].
  apply nth_error_None in E. assert (i < length l)%nat by (apply nth_error_Some; congruence). lia.
Qed.

Section MeetsSpec.
  Variables (verify_sig : bytes -> bytes -> bool).
  Variables (release : bool) (q : request) (t : tape) (x5 : cbor) (sign : bytes -> option bytes) (m : mdoc).
  Hypothesis Hwf : request_wf q.
  Hypothesis Htape : wf_bytes (t_salt t) = true.
  Hypothesis Hdecoy : stream_wf (t_decoy t).
  Hypothesis Hissue : issue release q t x5 sign = Ok m.
  Hypothesis Hsizes : sizes_ok m.
  (* the signer's signatures are accepted by the verifier for the signer's key *)
  Hypothesis Hsign : forall tbs sg, sign tbs = Some sg -> verify_sig tbs sg = true.

  Let o := observe m.
  Let req := request_of q x5.

  Lemma items_wf_issued : Forall items_wf (m_namespaces m).
  Proof.
    destruct (issue_ok _ _ _ _ _ _ Hissue) as [p [sg [Hp [_ ->]]]]. apply prepare_ok in Hp.
    cbn [complete m_namespaces]. apply Hp. exact Htape.
  Qed.

  (* every id of valueDigests (elements and decoys) is a proper DigestID *)
  Lemma vd_ids_proper ns its vd kv : ns_of m ns its vd -> In kv vd ->
    id_from_draw release (fst kv) /\ (0 <= fst kv < 2147483648)%Z /\ wf_bytes (snd kv) = true.
  Proof.
    intros Hns Hin. destruct (issued_digests _ _ _ _ _ _ Hissue _ _ _ Hns) as [Hi [ds [He [_ [_ [_ [Hd _]]]]]]].
    destruct (issued_items _ _ _ _ _ _ Hissue _ _ Hi) as [_ [_ [_ Hdraw]]].
    assert (Hfrom : id_from_draw release (fst kv) /\ wf_bytes (snd kv) = true).
    { split.
      - apply He in Hin as [Hin|Hin]; apply in_map_iff in Hin as [x [<- Hx]]; cbn [item_entry decoy_entry fst snd].
        + rewrite Forall_forall in Hdraw. exact (Hdraw _ Hx).
        + rewrite Forall_forall in Hd. exact (Hd _ Hx).
      - pose proof (issued_vd_wf _ _ _ _ _ _ Hissue Hdecoy) as Hw. rewrite Forall_forall in Hw.
        destruct Hns as [i [_ Hv]]. apply nth_error_In in Hv. exact (Hw _ Hv kv Hin). }
    destruct Hfrom as [Hf Hw]. split; [exact Hf|]. split; [|exact Hw].
    exact (id_from_draw_range _ _ Hf).
  Qed.

  Lemma request_ns_text i x : nth_error (q_namespaces q) i = Some x -> text_ok (fst x) /\ Forall elem_wf (snd x).
  Proof. intro H. destruct Hwf as [_ [Hf _]]. rewrite Forall_forall in Hf. apply Hf. eapply nth_error_In; exact H. Qed.

  Lemma mso_wf : wf (mso_cbor (m_mso m)) = true.
  Proof.
    destruct (issued_mso_fields _ _ _ _ _ _ Hissue) as [F1 [F2 [F3 [F4 [F5 _]]]]].
    destruct Hwf as [_ [Hns [[D1 D2] [Hv Hk]]]]. destruct ctext_keys_wf as [_ [_ [_ [_ [K1 [K2 [K3 [K4 [K5 K6]]]]]]]]].
    destruct (alg_name_text (mso_alg (m_mso m))) as [A1 A2].
    unfold mso_cbor. cbn [wf forallb]. rewrite K1, K2, K3, K4, K5, K6, F1, F3, F4, F5, A1, A2, D1, D2, Hv, Hk.
    rewrite value_digests_cbor_wf; [reflexivity|].
    apply Forall_forall. intros [ns vd] Hin. apply In_nth_error in Hin as [i Hi]. cbn [fst snd].
    destruct (issued_namespaces _ _ _ _ _ _ Hissue) as [E1 E2].
    assert (Hl1 : length (mso_value_digests (m_mso m)) = length (m_namespaces m)).
    { rewrite <- (map_length fst), E2, <- E1, map_length. reflexivity. }
    destruct (nth_error_same_length _ (m_namespaces m) _ _ Hl1 Hi) as [[ns' its] Hi'].
    assert (ns' = ns).
    { assert (nth_error (map fst (m_namespaces m)) i = Some ns') by (rewrite (map_nth_error fst _ _ Hi'); reflexivity).
      assert (nth_error (map fst (mso_value_digests (m_mso m))) i = Some ns) by (rewrite (map_nth_error fst _ _ Hi); reflexivity).
      rewrite E1 in H. rewrite E2 in H0. congruence. }
    subst ns'. split.
    - assert (Hq : nth_error (map fst (q_namespaces q)) i = Some ns) by (rewrite <- E2; rewrite (map_nth_error fst _ _ Hi); reflexivity).
      apply nth_error_map_some in Hq as [x [Hx ->]]. exact (proj1 (request_ns_text _ _ Hx)).
    - apply Forall_forall. intros kv Hkv.
      destruct (vd_ids_proper ns its vd kv (ex_intro _ i (conj Hi' Hi)) Hkv) as [Hf [_ Hw]].
      split; [eapply id_from_draw_in; exact Hf|exact Hw].
  Qed.

  Lemma mso_decodes : decode_all (o_mso o) = Some (mso_cbor (m_mso m)).
  Proof.
    unfold o, observe. cbn [o_mso]. apply decode_all_encode; [exact mso_wf|].
    apply encode_short_len_ok. exact (proj1 Hsizes).
  Qed.

  Lemma ns_meets i inp its ns vd :
    nth_error (q_namespaces q) i = Some inp ->
    nth_error (m_namespaces m) i = Some (ns, its) ->
    nth_error (mso_value_digests (m_mso m)) i = Some (ns, vd) ->
    ns = fst inp /\
    ns_ok (hash (q_alg q)) (q_decoys q) (snd inp) (map item_bytes its)
          (map (fun kv => (int_cbor (fst kv), CBytes (snd kv))) vd).
  Proof.
    intros Hq Hm Hv.
    assert (Hns : ns_of m ns its vd) by (exists i; auto).
    destruct (issued_digests _ _ _ _ _ _ Hissue _ _ _ Hns) as [Hin [ds [He [Hsorted [Hdn [Hdf [_ Hcount]]]]]]].
    destruct (issued_items _ _ _ _ _ _ Hissue _ _ Hin) as [_ [Hnd [Hlen Hdraw]]].
    pose proof (issued_elements _ _ _ _ _ _ Hissue) as Hel.
    assert (Hinp : inp = (ns, map (fun it => (it_ident it, it_value it)) its)).
    { rewrite <- Hel in Hq. rewrite (map_nth_error _ _ _ Hm) in Hq. inversion Hq. reflexivity. }
    subst inp. cbn [fst snd]. split; [reflexivity|].
    destruct (request_ns_text _ _ Hq) as [_ Helems]. cbn [snd] in Helems.
    pose proof items_wf_issued as Hiw. rewrite Forall_forall in Hiw. specialize (Hiw _ Hin). unfold items_wf in Hiw. cbn [snd] in Hiw.
    assert (Hsz : Forall (fun it => blen (item_bytes it) < two64) its).
    { destruct Hsizes as [_ Hs]. rewrite Forall_forall in Hs. exact (Hs _ Hin). }
    assert (Hkeys : NoDup (map fst vd)) by (apply zsorted_nodup; exact Hsorted).
    assert (Hproper : forall it, In it its -> (0 <= it_id it < 2147483648)%Z).
    { intros it Hit. apply (vd_ids_proper ns its vd (item_entry (q_alg q) it) Hns). apply He. left. apply in_map. exact Hit. }
    exists (map si_of its). repeat split.
    - (* items parse *)
      rewrite !map_map. apply map_ext_in. intros it Hit. apply parse_item_bytes.
      + apply item_cbor_wf.
        * rewrite Forall_forall in Hdraw. eapply id_from_draw_in. exact (Hdraw _ Hit).
        * rewrite Forall_forall in Hiw. exact (Hiw _ Hit).
        * rewrite Forall_forall in Helems. exact (proj1 (Helems _ (in_map (fun it => (it_ident it, it_value it)) _ _ Hit))).
        * rewrite Forall_forall in Helems. exact (proj2 (Helems _ (in_map (fun it => (it_ident it, it_value it)) _ _ Hit))).
      + rewrite Forall_forall in Hsz. exact (Hsz _ Hit).
    - rewrite map_map. apply Permutation_refl.
    - apply Forall_forall. intros s Hs. apply in_map_iff in Hs as [it [<- Hit]]. cbn [si_of si_random].
      rewrite Forall_forall in Hlen. rewrite (Hlen _ Hit). apply le_n.
    - apply Forall_forall. intros s Hs. apply in_map_iff in Hs as [it [<- Hit]]. cbn [si_of si_id].
      apply int_cbor_id_ok. exact (Hproper _ Hit).
    - rewrite map_map. cbn [si_of si_id]. rewrite <- (map_map it_id int_cbor). apply nodup_map_inj; [exact int_cbor_inj|exact Hnd].
    - (* digests *)
      clear Hq Hm Hel. assert (Hall : forall it, In it its ->
         map_get (si_id (si_of it)) (map (fun kv => (int_cbor (fst kv), CBytes (snd kv))) vd)
         = Some (CBytes (hash (q_alg q) (item_bytes_tagged (item_bytes it))))).
      { intros it Hit. cbn [si_of si_id].
        apply (map_get_nodup int_cbor CBytes int_cbor_inj vd (it_id it) (hash (q_alg q) (item_tagged it)) Hkeys).
        apply He. left. apply (in_map (item_entry (q_alg q)) _ _ Hit). }
      clear -Hall. induction its as [|it r IH]; cbn [map]; constructor.
      + apply Hall. left. reflexivity.
      + apply IH. intros it' Hit'. apply Hall. right. exact Hit'.
    - apply Forall_forall. intros kv Hkv. apply in_map_iff in Hkv as [kv0 [<- Hkv0]]. cbn [fst].
      apply int_cbor_id_ok. exact (proj1 (proj2 (vd_ids_proper ns its vd kv0 Hns Hkv0))).
    - rewrite map_map. cbn [fst]. rewrite <- (map_map fst int_cbor). apply nodup_map_inj; [exact int_cbor_inj|exact Hkeys].
    - intros Hd k Hk. destruct Hcount as [[_ ->]|[Hd' _]]; [|congruence].
      rewrite map_map in Hk. cbn [fst] in Hk. apply in_map_iff in Hk as [kv [<- Hkv]].
      apply He in Hkv as [Hkv|[]]. apply in_map_iff in Hkv as [it [<- Hit]]. cbn [item_entry fst].
      rewrite map_map. cbn [si_of si_id]. apply (in_map (fun x => int_cbor (it_id x)) _ _ Hit).
  Qed.

  Theorem issue_meets_spec : issued_ok verify_sig req o.
  Proof.
    destruct (issued_mso_fields _ _ _ _ _ _ Hissue) as [F1 [F2 [F3 [F4 [F5 F6]]]]].
    destruct (issued_auth _ _ _ _ _ _ Hissue) as [sg [Hsg Hauth]].
    destruct (issued_namespaces _ _ _ _ _ _ Hissue) as [E1 E2].
    split; [exact F6|]. split.
    - unfold issuer_auth_ok, o, observe, req, request_of. cbn [o_protected o_unprotected o_payload o_signature o_mso r_sig_alg r_x5chain].
      rewrite Hauth. cbn [c_protected c_unprotected c_payload c_sig].
      split; [reflexivity|]. split; [reflexivity|]. split; [reflexivity|]. apply Hsign. exact Hsg.
    - exists (hash (q_alg q)), (match mso_cbor (m_mso m) with CMap kvs => kvs | _ => [] end),
        (map (fun kv => (CText (fst kv), digest_ids_cbor (snd kv))) (mso_value_digests (m_mso m))).
      unfold req, request_of. cbn [r_alg r_doc_type r_validity r_device_key_info r_namespaces r_decoys].
      split; [apply iso_hash_alg|]. split; [exact mso_decodes|].
      unfold mso_cbor. rewrite F1, F2, F3, F4, F5.
      repeat (split; [reflexivity|]).
      split. { rewrite map_map. cbn [fst]. rewrite <- (map_map fst CText (q_namespaces q)), <- E2, map_map. reflexivity. }
      assert (Hl1 : length (q_namespaces q) = length (m_namespaces m)) by (rewrite <- (map_length fst), <- E1, map_length; reflexivity).
      assert (Hl2 : length (m_namespaces m) = length (mso_value_digests (m_mso m))).
      { rewrite <- (map_length fst), E1, <- E2, map_length. reflexivity. }
      apply Forall2_of_nth.
      + unfold o, observe. cbn [o_namespaces]. rewrite map_length. exact Hl1.
      + intros i inp obs Hq Ho. unfold o, observe in Ho. cbn [o_namespaces] in Ho.
        apply nth_error_map_some in Ho as [[ns its] [Hm ->]]. cbn [fst snd].
        destruct (nth_error_same_length _ (mso_value_digests (m_mso m)) _ _ Hl2 Hm) as [[ns' vd] Hv].
        assert (ns' = ns).
        { assert (nth_error (map fst (m_namespaces m)) i = Some ns) by (rewrite (map_nth_error fst _ _ Hm); reflexivity).
          assert (nth_error (map fst (mso_value_digests (m_mso m))) i = Some ns') by (rewrite (map_nth_error fst _ _ Hv); reflexivity).
          rewrite E1 in H. rewrite E2 in H0. congruence. }
        subst ns'. destruct (ns_meets i inp its ns vd Hq Hm Hv) as [-> Hok].
        split; [reflexivity|]. cbn [fst snd]. exists (map (fun kv => (int_cbor (fst kv), CBytes (snd kv))) vd).
        split; [|exact Hok].
        apply (map_get_nodup CText digest_ids_cbor (fun a b H => ltac:(congruence)) (mso_value_digests (m_mso m)) (fst inp) vd).
        * rewrite E2. exact (proj1 Hwf).
        * eapply nth_error_In. exact Hv.
  Qed.
End MeetsSpec.

(* ------------------------------------------------------------------------------------------ *)
(** * The pinned statements of Props/C09.v *)

Lemma c09_digest_id_range : forall (release : bool) (i : Z),
  in_i32 i = true ->
  digest_id_new release i = Z.min (Z.abs i) 2147483647 /\ digest_id_in_range (digest_id_new release i).
Proof.
  intros release i Hin. split; [exact (digest_id_new_sat release i Hin)|exact (digest_id_new_range release i Hin)].
Qed.

Lemma c09_draws_are_i32 :
  (forall w, in_i32 (i32_of_word w) = true) /\
  (forall i, in_i32 i = true -> exists w, w < 4294967296 /\ i32_of_word w = i).
Proof. split; [exact i32_of_word_in|exact i32_of_word_surj]. Qed.

Lemma c09_every_element_once : forall release q t x5 sign m,
  issue release q t x5 sign = Ok m ->
  map (fun x => (fst x, map (fun it => (it_ident it, it_value it)) (snd x))) (m_namespaces m) = q_namespaces q /\
  map fst (mso_value_digests (m_mso m)) = map fst (q_namespaces q).
Proof.
  intros release q t x5 sign m H. split; [exact (issued_elements _ _ _ _ _ _ H)|exact (proj2 (issued_namespaces _ _ _ _ _ _ H))].
Qed.

Lemma c09_random_len : forall release q t x5 sign m,
  issue release q t x5 sign = Ok m ->
  forall ns its, In (ns, its) (m_namespaces m) ->
    its <> [] /\ Forall (fun it => length (it_random it) = 16%nat) its.
Proof.
  intros release q t x5 sign m H ns its Hin. destruct (issued_items _ _ _ _ _ _ H _ _ Hin) as [H1 [_ [H2 _]]]. auto.
Qed.

Lemma c09_ids_unique : forall release q t x5 sign m,
  issue release q t x5 sign = Ok m ->
  forall ns its vd, ns_of m ns its vd ->
    NoDup (map it_id its) /\ NoDup (map fst vd) /\
    exists decoys : list (Z * decoy_fill),
      NoDup (map fst decoys) /\
      (forall z, In z (map fst decoys) -> ~ In z (map it_id its)) /\
      (forall k, In k (map fst vd) <-> In k (map it_id its) \/ In k (map fst decoys)).
Proof.
  intros release q t x5 sign m H ns its vd Hns.
  destruct (issued_digests _ _ _ _ _ _ H _ _ _ Hns) as [Hin [ds [He [Hs [Hdn [Hdf _]]]]]].
  destruct (issued_items _ _ _ _ _ _ H _ _ Hin) as [_ [Hnd _]].
  split; [exact Hnd|]. split; [apply zsorted_nodup; exact Hs|]. exists ds. split; [exact Hdn|]. split; [exact Hdf|].
  intro k. split.
  - intro Hk. apply in_map_iff in Hk as [kv [<- Hkv]]. apply He in Hkv as [Hkv|Hkv]; apply in_map_iff in Hkv as [x [<- Hx]].
    + left. apply (in_map it_id _ _ Hx).
    + right. apply (in_map fst _ _ Hx).
  - intros [Hk|Hk]; apply in_map_iff in Hk as [x [<- Hx]].
    + apply (in_map fst vd (item_entry (q_alg q) x)). apply He. left. apply (in_map _ _ _ Hx).
    + apply (in_map fst vd (decoy_entry (q_alg q) x)). apply He. right. apply (in_map _ _ _ Hx).
Qed.

Lemma c09_ids_in_range : forall release q t x5 sign m,
  issue release q t x5 sign = Ok m ->
  forall ns its vd, ns_of m ns its vd ->
    (forall it, In it its -> In (it_id it) (map fst vd)) /\
    forall k, In k (map fst vd) -> digest_id_in_range k.
Proof.
  intros release q t x5 sign m H ns its vd Hns.
  destruct (issued_digests _ _ _ _ _ _ H _ _ _ Hns) as [Hin [ds [He [_ [_ [_ [Hd _]]]]]]].
  destruct (issued_items _ _ _ _ _ _ H _ _ Hin) as [_ [_ [_ Hdraw]]].
  split.
  - intros it Hit. apply (in_map fst vd (item_entry (q_alg q) it)). apply He. left. apply (in_map _ _ _ Hit).
  - intros k Hk. apply in_map_iff in Hk as [kv [<- Hkv]].
    assert (Hf : id_from_draw release (fst kv)).
    { apply He in Hkv as [Hkv|Hkv]; apply in_map_iff in Hkv as [x [<- Hx]]; cbn [item_entry decoy_entry fst].
      - rewrite Forall_forall in Hdraw. exact (Hdraw _ Hx).
      - rewrite Forall_forall in Hd. exact (Hd _ Hx). }
    exact (id_from_draw_range _ _ Hf).
Qed.

Lemma c09_never_panics : forall release q t x5 sign,
  prepare release q t <> Panic /\ issue release q t x5 sign <> Panic.
Proof. intros. split; [apply prepare_no_panic|apply issue_no_panic]. Qed.

Lemma c09_build_mode_irrelevant : forall q t x5 sign,
  (forall i, digest_id_new true i = digest_id_new false i) /\
  prepare true q t = prepare false q t /\ issue true q t x5 sign = issue false q t x5 sign.
Proof. intros. split; [exact digest_id_new_build_mode|]. split; [apply prepare_build_mode|apply issue_build_mode]. Qed.

Lemma c09_digests_correct : forall release q t x5 sign m,
  issue release q t x5 sign = Ok m ->
  forall ns its vd, ns_of m ns its vd ->
  forall it, In it its ->
    let item_bytes_tag24 := encode (CTag 24 (CBytes (encode (item_cbor it)))) in
    let digest := match q_alg q with
                  | SHA256 => sha256 item_bytes_tag24
                  | SHA384 => sha384 item_bytes_tag24
                  | SHA512 => sha512 item_bytes_tag24
                  end in
    In (it_id it, digest) vd /\ forall d, In (it_id it, d) vd -> d = digest.
Proof.
  intros release q t x5 sign m H ns its vd Hns it Hit item_bytes_tag24 digest.
  destruct (issued_digests _ _ _ _ _ _ H _ _ _ Hns) as [Hin [ds [He [Hs _]]]].
  assert (Hd : digest = hash (q_alg q) (item_tagged it)) by (unfold digest, hash; destruct (q_alg q); reflexivity).
  assert (H1 : In (it_id it, digest) vd).
  { rewrite Hd. apply He. left. apply (in_map (item_entry (q_alg q)) _ _ Hit). }
  split; [exact H1|]. intros d Hd'. apply zsorted_nodup in Hs.
  clear -H1 Hd' Hs. induction vd as [|[k v] r IH]; [contradiction|]. cbn [map fst] in Hs. inversion Hs as [|? ? Hnin Hnd]; subst.
  destruct H1 as [E1|H1], Hd' as [E2|Hd2].
  - congruence.
  - inversion E1; subst. exfalso. apply Hnin. apply (in_map fst _ _ Hd2).
  - inversion E2; subst. exfalso. apply Hnin. apply (in_map fst _ _ H1).
  - apply IH; assumption.
Qed.

Lemma c09_decoys_are_decoys : forall release q t x5 sign m,
  issue release q t x5 sign = Ok m ->
  forall ns its vd, ns_of m ns its vd ->
  exists decoys : list (Z * decoy_fill),
    (forall kv, In kv vd <-> In kv (map (item_entry (q_alg q)) its) \/ In kv (map (decoy_entry (q_alg q)) decoys)) /\
    (forall z, In z (map fst decoys) -> ~ In z (map it_id its)) /\
    ((q_decoys q = false /\ decoys = []) \/ (q_decoys q = true /\ (5 <= length decoys <= 9)%nat)).
Proof.
  intros release q t x5 sign m H ns its vd Hns.
  destruct (issued_digests _ _ _ _ _ _ H _ _ _ Hns) as [_ [ds [He [_ [_ [Hdf [_ Hc]]]]]]].
  exists ds. auto.
Qed.

Lemma c09_issuer_auth : forall release q t x5 sign m,
  issue release q t x5 sign = Ok m ->
  let payload := encode (CTag 24 (CBytes (encode (mso_cbor (m_mso m))))) in
  let protected := encode (CMap [(CUInt 1, int_cbor (q_sig_alg q))]) in
  c_payload (m_issuer_auth m) = Some payload /\
  c_protected (m_issuer_auth m) = protected /\
  c_unprotected (m_issuer_auth m) = [(CUInt 33, x5)] /\
  sign (rfc_tbs_sign1 protected [] payload) = Some (c_sig (m_issuer_auth m)) /\
  (m_doc_type m = q_doc_type q /\ mso_doc_type (m_mso m) = q_doc_type q /\ mso_validity (m_mso m) = q_validity q /\
   mso_device_key_info (m_mso m) = q_device_key_info q /\ mso_alg (m_mso m) = q_alg q) /\
  forall v : verifier,
    in_i32 (q_sig_alg q) = true -> v_alg v = q_sig_alg q ->
    v_parse v (c_sig (m_issuer_auth m)) = true ->
    v_check v (rfc_tbs_sign1 protected [] payload) (c_sig (m_issuer_auth m)) = true ->
    verify ctx_sign1 v (m_issuer_auth m) None None = VSuccess.
Proof.
  intros release q t x5 sign m H payload protected.
  destruct (issued_auth _ _ _ _ _ _ H) as [sg [Hs Ha]].
  destruct (issued_mso_fields _ _ _ _ _ _ H) as [_ [F2 [F3 [F4 [F5 F6]]]]].
  rewrite Ha. cbn [c_payload c_protected c_unprotected c_sig].
  split; [reflexivity|]. split; [reflexivity|]. split; [reflexivity|]. split; [exact Hs|]. split; [auto|].
  intros v Hz Hv Hp Hc. rewrite <- Ha. eapply issued_verifies; try eassumption; rewrite Ha; assumption.
Qed.

Lemma c09_refusals : forall release q t,
  (forall e, prepare release q t = Err e ->
     (exists ns, e = EDoubleAuthorized ns /\ contradictory_auth q) \/
     (e = ENoNamespaces /\ q_namespaces q = []) \/
     (e = EEmptyNamespace /\ exists ns, In (ns, []) (q_namespaces q))) /\
  (refusal_case q -> forall p, prepare release q t <> Ok p) /\
  (contradictory_auth q -> exists ns, prepare release q t = Err (EDoubleAuthorized ns)) /\
  (~ contradictory_auth q -> q_namespaces q = [] -> prepare release q t = Err ENoNamespaces).
Proof.
  intros release q t. split; [intros e H; exact (proj2 (prepare_err _ _ _ _ H))|].
  split; [intros Hr p; apply prepare_refuses; exact Hr|].
  split; [apply prepare_refuses_auth|apply prepare_refuses_no_namespace].
Qed.
