(* C03 x C12 and C11 x C12: the chain verdict the authentication models consult is the one C12
   characterises.

   Model/ReaderAuth.v (C03/C04/C05) and Model/DeviceReaderAuth.v (C11) treat X.509 chain validation
   as an oracle: the boolean [e_chain_valid env] ("ValidationRuleset::Mdl.validate(x5chain,
   registry).errors is empty", reader.rs) and [dr_chain_valid r] ("MdlReaderOneStep.validate(
   x5chain, trusted_verifiers) has no error", device.rs).  Model/X509.v (C12) models that very
   function.  Here the oracle is INSTANTIATED by the C12 model and the two families of theorems
   are composed:

     Valid status  ==>  the first certificate of the chain is Annex-B conformant and anchored in a
                        registry entry of the right purpose (C12_sound), and the signature
                        conjuncts of C03 / C11 hold;
     any [deviation] of the chain / registry from the Annex B rule (C12_single_deviation)
                   ==>  the status is never Valid.

   The authentication models carry no [x5chain] value (the decoded chain lives on the Rust side
   of the oracle).  The chain, the registry, the clock and the two primitives are therefore
   universally quantified arguments, related to the environment ONLY through the oracle equation
   [chain_oracle_is_c12] / [reader_chain_oracle_is_c12].  All statements are unbounded. *)
From Isomdl Require Import Lib.Bytes Lib.Cbor Lib.Sha2 Lib.Hmac Model.Cose Model.KeySchedule Model.ReaderAuth
  Model.DeviceReaderAuth Model.X509 Spec.CoseRfc Spec.ReaderAuthSpec Spec.AnnexB
  Proofs.CoseProofs Proofs.ReaderAuthProofs Proofs.DeviceReaderAuthProofs Proofs.AnnexBProofs Proofs.X509Proofs.
Open Scope N_scope.

(* ================================================================================================
   1. the oracle, instantiated
   ================================================================================================ *)

(* `ValidationRuleset::validate(..).errors.is_empty()`: [success] of Model/X509.v *)
Definition chain_verdict (ski_of_key : bytes -> bytes) (verifies : cert -> cert -> bool)
           (rs : ruleset) (now : Z) (x : x5chain) (reg : list anchor) : bool :=
  success (validate ski_of_key verifies rs now x reg).

Lemma chain_verdict_true ski_of_key verifies rs now x reg :
  chain_verdict ski_of_key verifies rs now x reg = true <-> validate ski_of_key verifies rs now x reg = [].
Proof.
  unfold chain_verdict, success, is_nil.
  destruct (validate ski_of_key verifies rs now x reg); split; intro H; try reflexivity; discriminate.
Qed.

Lemma chain_verdict_false ski_of_key verifies rs now x reg :
  chain_verdict ski_of_key verifies rs now x reg = false <-> validate ski_of_key verifies rs now x reg <> [].
Proof.
  unfold chain_verdict, success, is_nil.
  destruct (validate ski_of_key verifies rs now x reg); split; intro H; try reflexivity; try discriminate.
  contradiction H; reflexivity.
Qed.

(* reader.rs validate_document: ValidationRuleset::Mdl.validate(&x5chain, &self.trust_anchor_registry).errors.is_empty() *)
Definition chain_oracle_is_c12 (ski_of_key : bytes -> bytes) (verifies : cert -> cert -> bool)
           (now : Z) (x : x5chain) (reg : list anchor) (env : renv) : Prop :=
  e_chain_valid env = chain_verdict ski_of_key verifies Mdl now x reg.

(* device.rs reader_authentication: ValidationRuleset::MdlReaderOneStep.validate(&x5chain, &self.trusted_verifiers)
   contributes no error *)
Definition reader_chain_oracle_is_c12 (ski_of_key : bytes -> bytes) (verifies : cert -> cert -> bool)
           (now : Z) (x : x5chain) (reg : list anchor) (r : docreq) : Prop :=
  dr_chain_valid r = chain_verdict ski_of_key verifies MdlReaderOneStep now x reg.

(* ================================================================================================
   2. C03 x C12
   ================================================================================================ *)

Section IssuerSide.
Variable ski_of_key : bytes -> bytes.
Variable verifies : cert -> cert -> bool.
Variable now : Z.
Variable x : x5chain.
Variable reg : list anchor.
Variable env : renv.
Variable d : rdoc.
Hypothesis Horacle : chain_oracle_is_c12 ski_of_key verifies now x reg env.

(* (a) Valid  ==>  document signer conformant and anchored, and C03's signature / binding conjuncts *)
Theorem issuer_valid_implies_conformant :
  clock_ok now -> inputs_wf Mdl (x_first x) reg ->
  o_issuer (validate_document env d) = Valid ->
  conformant ski_of_key verifies Mdl now (x_first x) reg /\
  e_x5 env = X5Chain /\ e_leaf_key_ok env = true /\
  alg_gate (e_issuer_verifier env) (alg_of_protected (c_protected (rd_issuer_auth d))) = true /\
  (exists payload, c_payload (rd_issuer_auth d) = Some payload /\
     v_parse (e_issuer_verifier env) (c_sig (rd_issuer_auth d)) = true /\
     v_check (e_issuer_verifier env) (iso_issuer_tbs (c_protected (rd_issuer_auth d)) payload) (c_sig (rd_issuer_auth d)) = true) /\
  data_bound d = true.
Proof.
  intros Hclock Hwf Hvalid.
  destruct (issuer_valid_only_if env d Hvalid) as [Hx5 [Hchain [Hkey [Hgate [Hsig Hbound]]]]].
  split.
  - apply (validate_sound ski_of_key verifies Mdl now x reg Hclock Hwf).
    apply chain_verdict_true. rewrite <- Horacle. exact Hchain.
  - repeat split; assumption.
Qed.

(* the conclusion spelt out: an IACA entry of the registry anchors the document signer *)
Corollary issuer_valid_implies_anchored :
  clock_ok now -> inputs_wf Mdl (x_first x) reg ->
  o_issuer (validate_document env d) = Valid ->
  within_validity now (x_first x) /\
  profile ski_of_key DocumentSigner (x_first x) /\
  exists a, In a reg /\ a_purpose a = Iaca /\
    c_subject (a_cert a) = c_issuer (x_first x) /\ key_ids_match (x_first x) (a_cert a) /\
    within_validity now (a_cert a) /\ verifies (x_first x) (a_cert a) = true /\
    profile ski_of_key IacaRoot (a_cert a) /\ same_subject_attribute at_country_name (x_first x) (a_cert a).
Proof.
  intros Hclock Hwf Hvalid.
  destruct (issuer_valid_implies_conformant Hclock Hwf Hvalid) as [[Hv [Hp [a [Hin [Hpu [[Hs [Hk [Hw Hsig]]] [Hpa [Hco _]]]]]]]] _].
  split; [exact Hv|]. split; [exact Hp|].
  exists a. split; [exact Hin|]. split; [exact Hpu|]. split; [exact Hs|]. split; [exact Hk|].
  split; [exact Hw|]. split; [exact Hsig|]. split; [exact Hpa | exact Hco].
Qed.

(* (b) any single deviation of the chain / registry from the Annex B rule  ==>  never Valid *)
Theorem untrusted_never_valid :
  clock_ok now -> deviation ski_of_key verifies Mdl now (x_first x) reg ->
  o_issuer (validate_document env d) <> Valid.
Proof.
  intros Hclock Hdev Hvalid.
  destruct (issuer_valid_only_if env d Hvalid) as [_ [Hchain _]].
  apply (single_deviation ski_of_key verifies Mdl now x reg Hclock Hdev).
  apply chain_verdict_true. rewrite <- Horacle. exact Hchain.
Qed.

(* ... and when the document got as far as validation, the status is Invalid with a certificate error *)
Theorem untrusted_reported_invalid :
  clock_ok now -> deviation ski_of_key verifies Mdl now (x_first x) reg ->
  e_x5 env = X5Chain -> namespaces_ok d = true ->
  o_issuer (validate_document env d) = Invalid /\ In ECertificate (o_errors (validate_document env d)).
Proof.
  intros Hclock Hdev Hx5 Hns.
  assert (Hc : e_chain_valid env = false).
  { rewrite Horacle. apply chain_verdict_false. exact (single_deviation ski_of_key verifies Mdl now x reg Hclock Hdev). }
  unfold validate_document. rewrite Hx5, Hns, Hc. cbn [negb o_issuer o_errors].
  split; [reflexivity|]. apply in_or_app. right. left. reflexivity.
Qed.

(* named causes *)

Corollary no_iaca_anchor_never_valid :
  clock_ok now ->
  (forall a, In a reg -> ~ (a_purpose a = Iaca /\ anchors verifies now (x_first x) (a_cert a))) ->
  o_issuer (validate_document env d) <> Valid.
Proof. intros Hclock H. apply untrusted_never_valid; [exact Hclock|]. apply DevNoMatchingAnchor. exact H. Qed.

Corollary empty_registry_never_valid :
  clock_ok now -> reg = [] -> o_issuer (validate_document env d) <> Valid.
Proof. intros Hclock H. apply untrusted_never_valid; [exact Hclock|]. apply DevRegistryEmpty. exact H. Qed.

(* every entry of the registry (whatever certificate it holds, the right IACA included) is
   registered for reader authentication *)
Corollary other_purpose_never_valid :
  clock_ok now -> (forall a, In a reg -> a_purpose a = ReaderCa) ->
  o_issuer (validate_document env d) <> Valid.
Proof.
  intros Hclock H. apply untrusted_never_valid; [exact Hclock|]. apply DevOnlyOtherPurpose.
  intros a Ha. rewrite (H a Ha). discriminate.
Qed.

Corollary unknown_issuer_never_valid :
  clock_ok now ->
  (forall a, In a reg -> a_purpose a = Iaca -> c_subject (a_cert a) <> c_issuer (x_first x)) ->
  o_issuer (validate_document env d) <> Valid.
Proof. intros Hclock H. apply untrusted_never_valid; [exact Hclock|]. apply DevIssuerNameUnknown. exact H. Qed.

Corollary leaf_not_signed_by_anchor_never_valid :
  clock_ok now ->
  (forall a, In a reg -> a_purpose a = Iaca -> verifies (x_first x) (a_cert a) = false) ->
  o_issuer (validate_document env d) <> Valid.
Proof. intros Hclock H. apply untrusted_never_valid; [exact Hclock|]. apply DevBadSignature. exact H. Qed.

Corollary expired_anchor_never_valid :
  clock_ok now ->
  (forall a, In a reg -> a_purpose a = Iaca -> (c_not_after (a_cert a) < now)%Z) ->
  o_issuer (validate_document env d) <> Valid.
Proof.
  intros Hclock H. apply untrusted_never_valid; [exact Hclock|]. apply DevAnchorOutOfValidity.
  intros a Ha Hp [_ Hw]. specialize (H a Ha Hp). lia.
Qed.

Corollary expired_leaf_never_valid :
  clock_ok now -> (c_not_after (x_first x) < now)%Z -> o_issuer (validate_document env d) <> Valid.
Proof. intros Hclock H. apply untrusted_never_valid; [exact Hclock|]. apply DevLeafExpired. exact H. Qed.

Corollary not_yet_valid_leaf_never_valid :
  clock_ok now -> (now < c_not_before (x_first x))%Z -> o_issuer (validate_document env d) <> Valid.
Proof. intros Hclock H. apply untrusted_never_valid; [exact Hclock|]. apply DevLeafNotYetValid. exact H. Qed.

(* the leaf is not a document signer certificate (e.g. a reader certificate: wrong extended key usage) *)
Corollary leaf_off_profile_never_valid :
  clock_ok now -> profile_deviation ski_of_key DocumentSigner (x_first x) ->
  o_issuer (validate_document env d) <> Valid.
Proof.
  intros Hclock [H | [H | [H | H]]]; apply untrusted_never_valid; try exact Hclock.
  - apply DevLeafExtMissing. exact H.
  - apply DevLeafExtWrong. exact H.
  - apply DevLeafProhibited. exact H.
  - apply DevLeafUnknownCritical. exact H.
Qed.

(* the converse direction of the instantiation: under C12's completeness domain a conformant
   chain turns the oracle on, so the verdict then rests on the signature and the data binding only *)
Theorem conformant_chain_accepted :
  clock_ok now -> unambiguous_anchor verifies Mdl now (x_first x) reg ->
  conformant ski_of_key verifies Mdl now (x_first x) reg ->
  e_chain_valid env = true.
Proof.
  intros Hclock Hu Hconf. rewrite Horacle. apply chain_verdict_true.
  exact (validate_complete ski_of_key verifies Mdl now x reg Hclock Hu Hconf).
Qed.

End IssuerSide.

(* The link "verification with THAT key" (comment on [e_issuer_verifier] in Model/ReaderAuth.v) made
   explicit: if the verifier the reader uses is the one the leaf's SubjectPublicKeyInfo determines,
   a Valid status means the MSO is signed under the public key of a conformant, IACA-anchored
   document signer certificate. *)
Theorem issuer_valid_signed_by_anchored_key
        (ski_of_key : bytes -> bytes) (verifies : cert -> cert -> bool) (verifier_of_spki : bytes -> verifier)
        (now : Z) (x : x5chain) (reg : list anchor) (env : renv) (d : rdoc) :
  chain_oracle_is_c12 ski_of_key verifies now x reg env ->
  e_issuer_verifier env = verifier_of_spki (c_spki (x_first x)) ->
  clock_ok now -> inputs_wf Mdl (x_first x) reg ->
  o_issuer (validate_document env d) = Valid ->
  conformant ski_of_key verifies Mdl now (x_first x) reg /\
  exists payload, c_payload (rd_issuer_auth d) = Some payload /\
    v_check (verifier_of_spki (c_spki (x_first x)))
            (iso_issuer_tbs (c_protected (rd_issuer_auth d)) payload) (c_sig (rd_issuer_auth d)) = true.
Proof.
  intros Ho Hv Hclock Hwf Hvalid.
  destruct (issuer_valid_implies_conformant ski_of_key verifies now x reg env d Ho Hclock Hwf Hvalid)
    as [Hconf [_ [_ [_ [[payload [Hp [_ Hc]]] _]]]]].
  split; [exact Hconf|]. exists payload. split; [exact Hp|]. rewrite <- Hv. exact Hc.
Qed.

(* ================================================================================================
   3. C11 x C12
   ================================================================================================ *)

Section DeviceSide.
Variable ski_of_key : bytes -> bytes.
Variable verifies : cert -> cert -> bool.
Variable now : Z.
Variable x : x5chain.
Variable reg : list anchor.
Variable de erk : bytes.
Variable ho : cbor.
Variable reqs : list docreq.
Variable r : docreq.
Hypothesis Hin : In r reqs.
Hypothesis Horacle : reader_chain_oracle_is_c12 ski_of_key verifies now x reg r.

Theorem reader_valid_implies_conformant :
  clock_ok now -> inputs_wf MdlReaderOneStep (x_first x) reg ->
  request_status de erk ho reqs = Valid ->
  conformant ski_of_key verifies MdlReaderOneStep now (x_first x) reg /\
  exists c, dr_reader_auth r = Some c /\ c_payload c = None /\
    dr_x5 r = X5Chain /\ dr_key_ok r = true /\
    alg_gate (dr_verifier r) (alg_of_protected (c_protected c)) = true /\
    v_parse (dr_verifier r) (c_sig c) = true /\
    v_check (dr_verifier r) (iso_reader_tbs (c_protected c) de erk ho (dr_items r)) (c_sig c) = true.
Proof.
  intros Hclock Hwf Hvalid.
  destruct (valid_only_if de erk ho reqs Hvalid) as [_ Hall].
  destruct (Hall r Hin) as [c [Hc [Hp [Hx5 [Hchain [Hkey [Hgate [Hparse Hcheck]]]]]]]].
  split.
  - apply (validate_sound ski_of_key verifies MdlReaderOneStep now x reg Hclock Hwf).
    apply chain_verdict_true. rewrite <- Horacle. exact Hchain.
  - exists c. repeat split; assumption.
Qed.

Corollary reader_valid_implies_anchored :
  clock_ok now -> inputs_wf MdlReaderOneStep (x_first x) reg ->
  request_status de erk ho reqs = Valid ->
  within_validity now (x_first x) /\
  profile ski_of_key MdocReader (x_first x) /\
  exists a, In a reg /\ a_purpose a = ReaderCa /\
    c_subject (a_cert a) = c_issuer (x_first x) /\ key_ids_match (x_first x) (a_cert a) /\
    within_validity now (a_cert a) /\ verifies (x_first x) (a_cert a) = true.
Proof.
  intros Hclock Hwf Hvalid.
  destruct (reader_valid_implies_conformant Hclock Hwf Hvalid) as [[Hv [Hp [a [Ha [Hpu [[Hs [Hk [Hw Hsig]]] _]]]]]] _].
  split; [exact Hv|]. split; [exact Hp|]. exists a.
  split; [exact Ha|]. split; [exact Hpu|]. split; [exact Hs|]. split; [exact Hk|]. split; [exact Hw | exact Hsig].
Qed.

Theorem untrusted_reader_never_valid :
  clock_ok now -> deviation ski_of_key verifies MdlReaderOneStep now (x_first x) reg ->
  request_status de erk ho reqs <> Valid.
Proof.
  intros Hclock Hdev. apply (untrusted_not_valid de erk ho reqs r Hin).
  rewrite Horacle. apply chain_verdict_false.
  exact (single_deviation ski_of_key verifies MdlReaderOneStep now x reg Hclock Hdev).
Qed.

Corollary reader_empty_registry_never_valid :
  clock_ok now -> reg = [] -> request_status de erk ho reqs <> Valid.
Proof. intros Hclock H. apply untrusted_reader_never_valid; [exact Hclock|]. apply DevRegistryEmpty. exact H. Qed.

(* every entry is registered as an IACA (issuer purpose), none as a reader CA *)
Corollary reader_other_purpose_never_valid :
  clock_ok now -> (forall a, In a reg -> a_purpose a = Iaca) -> request_status de erk ho reqs <> Valid.
Proof.
  intros Hclock H. apply untrusted_reader_never_valid; [exact Hclock|]. apply DevOnlyOtherPurpose.
  intros a Ha. rewrite (H a Ha). discriminate.
Qed.

Corollary reader_not_signed_by_anchor_never_valid :
  clock_ok now ->
  (forall a, In a reg -> a_purpose a = ReaderCa -> verifies (x_first x) (a_cert a) = false) ->
  request_status de erk ho reqs <> Valid.
Proof. intros Hclock H. apply untrusted_reader_never_valid; [exact Hclock|]. apply DevBadSignature. exact H. Qed.

Corollary reader_expired_anchor_never_valid :
  clock_ok now ->
  (forall a, In a reg -> a_purpose a = ReaderCa -> (c_not_after (a_cert a) < now)%Z) ->
  request_status de erk ho reqs <> Valid.
Proof.
  intros Hclock H. apply untrusted_reader_never_valid; [exact Hclock|]. apply DevAnchorOutOfValidity.
  intros a Ha Hp [_ Hw]. specialize (H a Ha Hp). lia.
Qed.

(* a document signer certificate presented as a reader certificate, and any other departure from B.7 *)
Corollary reader_off_profile_never_valid :
  clock_ok now -> profile_deviation ski_of_key MdocReader (x_first x) ->
  request_status de erk ho reqs <> Valid.
Proof.
  intros Hclock [H | [H | [H | H]]]; apply untrusted_reader_never_valid; try exact Hclock.
  - apply DevLeafExtMissing. exact H.
  - apply DevLeafExtWrong. exact H.
  - apply DevLeafProhibited. exact H.
  - apply DevLeafUnknownCritical. exact H.
Qed.

End DeviceSide.

(* every request of a Valid message at once: each has its own chain and is validated at its own
   reading of the clock; the registry is the session's *)
Theorem reader_valid_all_conformant
        (ski_of_key : bytes -> bytes) (verifies : cert -> cert -> bool)
        (now_of : docreq -> Z) (chain_of : docreq -> x5chain) (reg : list anchor)
        (de erk : bytes) (ho : cbor) (reqs : list docreq) :
  (forall r, In r reqs ->
     reader_chain_oracle_is_c12 ski_of_key verifies (now_of r) (chain_of r) reg r /\
     clock_ok (now_of r) /\ inputs_wf MdlReaderOneStep (x_first (chain_of r)) reg) ->
  request_status de erk ho reqs = Valid ->
  reqs <> [] /\
  forall r, In r reqs ->
    conformant ski_of_key verifies MdlReaderOneStep (now_of r) (x_first (chain_of r)) reg /\ authentic de erk ho r.
Proof.
  intros H Hvalid. destruct (valid_only_if de erk ho reqs Hvalid) as [Hne Hall].
  split; [exact Hne|]. intros r Hin. destruct (H r Hin) as [Ho [Hc Hwf]].
  split; [|exact (Hall r Hin)].
  exact (proj1 (reader_valid_implies_conformant ski_of_key verifies (now_of r) (chain_of r) reg de erk ho reqs r Hin Ho Hc Hwf Hvalid)).
Qed.

(* ================================================================================================
   4. witnesses: the hypotheses above are inhabited by concrete, non-trivial instances
      (certificates and registry of Proofs/X509Proofs.v section H)
   ================================================================================================ *)

Local Open Scope string_scope.

(* a toy signature scheme, enough to make "signed under the leaf's key" concrete: the public key
   is the HMAC key, ES256's identifier, 32-octet signatures *)
Definition w_verifier_of_spki (spki : bytes) : verifier :=
  {| v_alg := (-7)%Z; v_parse := fun s => Nat.eqb (length s) 32;
     v_check := fun tbs s => bytes_eqb (hmac_sha256 spki tbs) s |}.
Definition w_sign (spki protected payload : bytes) : bytes := hmac_sha256 spki (iso_issuer_tbs protected payload).

Definition w_ns : bytes := bytes_of_string "org.iso.18013.5.1".
Definition w_doc_type : bytes := bytes_of_string "org.iso.18013.5.1.mDL".
Definition w_item : bytes :=
  encode (CMap [(tx "digestID", CUInt 0); (tx "random", CBytes [7; 7; 7; 7; 7; 7; 7; 7; 7; 7; 7; 7; 7; 7; 7; 7]);
                (tx "elementIdentifier", tx "family_name"); (tx "elementValue", tx "Doe")]).
Definition w_mso : cbor :=
  CMap [(tx "version", tx "1.0"); (tx "digestAlgorithm", tx "SHA-256");
        (tx "valueDigests", CMap [(CText w_ns, CMap [(CUInt 0, CBytes (sha256 (tag24_wrap w_item)))])]);
        (tx "docType", CText w_doc_type)].
Definition w_mso_bytes : bytes := tag24_wrap (encode w_mso).
Definition w_protected : bytes := [161; 1; 38].                   (* {1: -7} *)

(* issuerAuth signed with the key of certificate [signer] *)
Definition w_issuer_auth (signer : cert) : cose1 :=
  {| c_tagged := false; c_protected := w_protected; c_unprotected := []; c_payload := Some w_mso_bytes;
     c_sig := w_sign (c_spki signer) w_protected w_mso_bytes |}.
Definition w_doc (signer : cert) : rdoc :=
  {| rd_doc_type := w_doc_type; rd_issuer_auth := w_issuer_auth signer;
     rd_namespaces := Some [(w_ns, [w_item])]; rd_device_ns := [160]; rd_device_auth := DMac |}.

(* the reader's environment when it receives chain [x] with registry [reg] at time [now]: the
   chain verdict is C12's, the issuer verifier is the leaf key's *)
Definition w_env (now : Z) (x : x5chain) (reg : list anchor) : renv :=
  {| e_de := [1]; e_erk := [2]; e_handover := CNull; e_x5 := X5Chain;
     e_chain_valid := chain_verdict w_ski w_verifies Mdl now x reg;
     e_leaf_key_ok := true; e_issuer_verifier := w_verifier_of_spki (c_spki (x_first x));
     e_mso_ok := true; e_device_point_ok := true; e_device_verifier := w_verifier_of_spki [] |}.

Lemma w_env_oracle now x reg : chain_oracle_is_c12 w_ski w_verifies now x reg (w_env now x reg).
Proof. reflexivity. Qed.

(* (a): all hypotheses of [issuer_valid_implies_conformant] / [issuer_valid_signed_by_anchored_key] hold *)
Lemma w_issuer_valid_inhabited :
  chain_oracle_is_c12 w_ski w_verifies w_now (w_chain w_ds) [w_anchor w_iaca] (w_env w_now (w_chain w_ds) [w_anchor w_iaca]) /\
  e_issuer_verifier (w_env w_now (w_chain w_ds) [w_anchor w_iaca]) = w_verifier_of_spki (c_spki (x_first (w_chain w_ds))) /\
  clock_ok w_now /\ inputs_wf Mdl (x_first (w_chain w_ds)) [w_anchor w_iaca] /\
  o_issuer (validate_document (w_env w_now (w_chain w_ds) [w_anchor w_iaca]) (w_doc w_ds)) = Valid.
Proof.
  split; [reflexivity|]. split; [reflexivity|]. split; [exact w_clock|].
  split; [apply -> inputs_wf_b_iff; vm_compute; reflexivity|]. vm_compute. reflexivity.
Qed.

(* (b): deviations, one per named cause, each with the oracle instantiated and the reader's verdict.
   The document is authentic and correctly signed by the document signer in every case: only the
   registry / the clock / the chain change. *)
Definition w_reader_anchor (c : cert) : anchor := {| a_cert := c; a_purpose := ReaderCa |}.
(* a certificate with the IACA's name and key identifier whose key did not sign the document signer *)
Definition w_iaca_other_key : cert :=
  {| c_not_before := 0; c_not_after := 1000; c_issuer := w_name_ca; c_subject := w_name_ca;
     c_key := [1]; c_spki := [9]; c_sigkeys := [[9]]; c_exts := w_iaca_head ++ [w_bc; w_ian; w_crl] |}.
Definition w_late : Z := 950.     (* the IACA (0..1000) is still valid, the document signer (100..900) is not *)
Definition w_later : Z := 2000.   (* both have expired *)

Lemma w_untrusted_inhabited :
  (* empty registry *)
  (clock_ok w_now /\ deviation w_ski w_verifies Mdl w_now (x_first (w_chain w_ds)) [] /\
   o_issuer (validate_document (w_env w_now (w_chain w_ds) []) (w_doc w_ds)) = Invalid) /\
  (* the right IACA certificate, registered for reader authentication only *)
  (deviation w_ski w_verifies Mdl w_now (x_first (w_chain w_ds)) [w_reader_anchor w_iaca] /\
   o_issuer (validate_document (w_env w_now (w_chain w_ds) [w_reader_anchor w_iaca]) (w_doc w_ds)) = Invalid) /\
  (* an anchor of the right name and key identifier that did not sign the leaf *)
  (deviation w_ski w_verifies Mdl w_now (x_first (w_chain w_ds)) [w_anchor w_iaca_other_key] /\
   o_issuer (validate_document (w_env w_now (w_chain w_ds) [w_anchor w_iaca_other_key]) (w_doc w_ds)) = Invalid) /\
  (* the anchor has expired *)
  (clock_ok w_later /\ deviation w_ski w_verifies Mdl w_later (x_first (w_chain w_ds)) [w_anchor w_iaca] /\
   o_issuer (validate_document (w_env w_later (w_chain w_ds) [w_anchor w_iaca]) (w_doc w_ds)) = Invalid) /\
  (* the document signer certificate has expired *)
  (clock_ok w_late /\ deviation w_ski w_verifies Mdl w_late (x_first (w_chain w_ds)) [w_anchor w_iaca] /\
   o_issuer (validate_document (w_env w_late (w_chain w_ds) [w_anchor w_iaca]) (w_doc w_ds)) = Invalid).
Proof.
  assert (Hlater : clock_ok w_later) by (unfold clock_ok, w_later; split; [intro H; discriminate H | reflexivity]).
  assert (Hlate : clock_ok w_late) by (unfold clock_ok, w_late; split; [intro H; discriminate H | reflexivity]).
  split; [|split; [|split; [|split]]].
  - split; [exact w_clock|]. split; [apply DevRegistryEmpty; reflexivity | vm_compute; reflexivity].
  - split; [|vm_compute; reflexivity]. apply DevOnlyOtherPurpose. intros a [<- | []]. discriminate.
  - split; [|vm_compute; reflexivity]. apply DevBadSignature. intros a [<- | []] _. vm_compute. reflexivity.
  - split; [exact Hlater|]. split; [|vm_compute; reflexivity].
    apply DevAnchorOutOfValidity. intros a [<- | []] _ [_ H]. vm_compute in H. apply H. reflexivity.
  - split; [exact Hlate|]. split; [|vm_compute; reflexivity].
    apply DevLeafExpired. vm_compute. reflexivity.
Qed.

(* ---------- device side ---------- *)

(* an mdoc reader certificate issued by the CA of section H (B.7 profile: reader-auth EKU) *)
Definition w_reader_cert : cert :=
  w_ds_with [w_x oid_subject_key_identifier false (DSki [2]); w_x oid_authority_key_identifier false (DAki (Some [1]));
             w_ku_ds true; w_crl; w_x oid_ext_key_usage true (DExtKeyUsage [eku_mdl_reader_auth]); w_ian].

Definition w_items : bytes := encode (CMap [(tx "docType", CText w_doc_type); (tx "nameSpaces", CMap [])]).
Definition w_reader_tbs (protected de erk : bytes) (ho : cbor) (items : bytes) : bytes :=
  iso_reader_tbs protected de erk ho items.
(* readerAuth over this session's transcript ([1], [2], null) signed with the key of [signer] *)
Definition w_reader_auth (signer : cert) : cose1 :=
  {| c_tagged := false; c_protected := w_protected; c_unprotected := []; c_payload := None;
     c_sig := hmac_sha256 (c_spki signer) (w_reader_tbs w_protected [1] [2] CNull w_items) |}.
Definition w_req (now : Z) (x : x5chain) (reg : list anchor) : docreq :=
  {| dr_items := w_items; dr_reader_auth := Some (w_reader_auth (x_first x)); dr_x5 := X5Chain;
     dr_chain_valid := chain_verdict w_ski w_verifies MdlReaderOneStep now x reg;
     dr_key_ok := true; dr_verifier := w_verifier_of_spki (c_spki (x_first x)) |}.

Lemma w_reader_valid_inhabited :
  let r := w_req w_now (w_chain w_reader_cert) [w_reader_anchor w_iaca] in
  In r [r] /\
  reader_chain_oracle_is_c12 w_ski w_verifies w_now (w_chain w_reader_cert) [w_reader_anchor w_iaca] r /\
  clock_ok w_now /\ inputs_wf MdlReaderOneStep (x_first (w_chain w_reader_cert)) [w_reader_anchor w_iaca] /\
  request_status [1] [2] CNull [r] = Valid.
Proof.
  cbv zeta. split; [left; reflexivity|]. split; [reflexivity|]. split; [exact w_clock|].
  split; [apply -> inputs_wf_b_iff; vm_compute; reflexivity|]. vm_compute. reflexivity.
Qed.

Lemma w_untrusted_reader_inhabited :
  (* empty registry *)
  (let r := w_req w_now (w_chain w_reader_cert) [] in
   In r [r] /\ reader_chain_oracle_is_c12 w_ski w_verifies w_now (w_chain w_reader_cert) [] r /\ clock_ok w_now /\
   deviation w_ski w_verifies MdlReaderOneStep w_now (x_first (w_chain w_reader_cert)) [] /\
   request_status [1] [2] CNull [r] = Invalid) /\
  (* the reader CA's certificate registered as an IACA only *)
  (let r := w_req w_now (w_chain w_reader_cert) [w_anchor w_iaca] in
   reader_chain_oracle_is_c12 w_ski w_verifies w_now (w_chain w_reader_cert) [w_anchor w_iaca] r /\
   deviation w_ski w_verifies MdlReaderOneStep w_now (x_first (w_chain w_reader_cert)) [w_anchor w_iaca] /\
   request_status [1] [2] CNull [r] = Invalid) /\
  (* a document signer certificate presented for reader authentication *)
  (let r := w_req w_now (w_chain w_ds) [w_reader_anchor w_iaca] in
   reader_chain_oracle_is_c12 w_ski w_verifies w_now (w_chain w_ds) [w_reader_anchor w_iaca] r /\
   deviation w_ski w_verifies MdlReaderOneStep w_now (x_first (w_chain w_ds)) [w_reader_anchor w_iaca] /\
   request_status [1] [2] CNull [r] = Invalid).
Proof.
  cbv zeta. split; [|split].
  - split; [left; reflexivity|]. split; [reflexivity|]. split; [exact w_clock|].
    split; [apply DevRegistryEmpty; reflexivity | vm_compute; reflexivity].
  - split; [reflexivity|]. split; [|vm_compute; reflexivity].
    apply DevOnlyOtherPurpose. intros a [<- | []]. discriminate.
  - split; [reflexivity|]. split; [|vm_compute; reflexivity].
    apply DevLeafExtWrong. exists oid_ext_key_usage, (eku_only eku_mdl_reader_auth), (w_x oid_ext_key_usage true (DExtKeyUsage [eku_mdl_ds])).
    split; [right; right; left; reflexivity|]. split; [vm_compute; tauto|]. split; [reflexivity|].
    intros [oids [Ho [_ Hall]]]. cbn [e_val w_x] in Ho. inversion Ho; subst oids.
    specialize (Hall eku_mdl_ds (or_introl eq_refl)). vm_compute in Hall. discriminate Hall.
Qed.

(* the four causes the property names, in one statement (for Props/C03.v and Props/C11.v) *)
Theorem untrusted_named_causes
        (ski_of_key : bytes -> bytes) (verifies : cert -> cert -> bool)
        (now : Z) (x : x5chain) (reg : list anchor) (env : renv) (d : rdoc) :
  chain_oracle_is_c12 ski_of_key verifies now x reg env -> clock_ok now ->
  (reg = [] \/
   (forall a, In a reg -> a_purpose a = ReaderCa) \/
   (forall a, In a reg -> a_purpose a = Iaca -> verifies (x_first x) (a_cert a) = false) \/
   (forall a, In a reg -> a_purpose a = Iaca -> (c_not_after (a_cert a) < now)%Z)) ->
  o_issuer (validate_document env d) <> Valid.
Proof.
  intros Ho Hc [H | [H | [H | H]]].
  - exact (empty_registry_never_valid ski_of_key verifies now x reg env d Ho Hc H).
  - exact (other_purpose_never_valid ski_of_key verifies now x reg env d Ho Hc H).
  - exact (leaf_not_signed_by_anchor_never_valid ski_of_key verifies now x reg env d Ho Hc H).
  - exact (expired_anchor_never_valid ski_of_key verifies now x reg env d Ho Hc H).
Qed.

Theorem untrusted_reader_named_causes
        (ski_of_key : bytes -> bytes) (verifies : cert -> cert -> bool)
        (now : Z) (x : x5chain) (reg : list anchor) (de erk : bytes) (ho : cbor) (reqs : list docreq) (r : docreq) :
  In r reqs -> reader_chain_oracle_is_c12 ski_of_key verifies now x reg r -> clock_ok now ->
  (reg = [] \/
   (forall a, In a reg -> a_purpose a = Iaca) \/
   (forall a, In a reg -> a_purpose a = ReaderCa -> verifies (x_first x) (a_cert a) = false) \/
   (forall a, In a reg -> a_purpose a = ReaderCa -> (c_not_after (a_cert a) < now)%Z)) ->
  request_status de erk ho reqs <> Valid.
Proof.
  intros Hin Ho Hc [H | [H | [H | H]]].
  - exact (reader_empty_registry_never_valid ski_of_key verifies now x reg de erk ho reqs r Hin Ho Hc H).
  - exact (reader_other_purpose_never_valid ski_of_key verifies now x reg de erk ho reqs r Hin Ho Hc H).
  - exact (reader_not_signed_by_anchor_never_valid ski_of_key verifies now x reg de erk ho reqs r Hin Ho Hc H).
  - exact (reader_expired_anchor_never_valid ski_of_key verifies now x reg de erk ho reqs r Hin Ho Hc H).
Qed.
