(* C19: the statements pinned in Props/C19.v, derived from ns_spec / name_leaf_spec. *)
From Isomdl Require Import Lib.Bytes Lib.Utf8 Lib.Cbor Lib.GenTypes Lib.Civil.
From Isomdl Require Import Gen.Constants Gen.Tables Gen.Fields Model.FromJson Spec.MdlDataModel.
From Isomdl Require Import Proofs.C19Tables Proofs.C19Leaves Proofs.C19Dates Proofs.C19Struct Proofs.C19Main Proofs.C19Top.
Open Scope N_scope.

(* ---------- the generated field lists are the data-model tables ---------- *)

Lemma fields_iso_all n : Forall (struct_matches_spec n) (structs n).
Proof.
  destruct n; unfold structs, structs_mdl, structs_aamva;
    repeat (constructor; [unfold struct_matches_spec; cbn [snd fst];
                          first [split; [vm_compute; reflexivity|first [left; vm_compute; reflexivity|right; vm_compute; reflexivity]]
                                |split; [vm_compute; reflexivity|vm_compute; discriminate]]|]);
    constructor.
Qed.

(* ---------- code tables ---------- *)

Lemma tables_roundtrip_str n name t : In (name, t) (str_tables n) ->
  (forall v c, In (v, c) (st_to t) -> assoc_b (normalise (st_norm t) c) (st_from t) = Some v) /\
  NoDup (map snd (st_to t)) /\
  (forall s v, assoc_b (normalise (st_norm t) s) (st_from t) = Some v ->
               assoc_b v (st_to t) = Some (normalise (st_norm t) s)).
Proof.
  intro Hin. apply str_table_rt_spec.
  pose proof (all_str_tables_rt n) as H. rewrite forallb_forall in H. apply (H (name, t) Hin).
Qed.

Lemma tables_roundtrip_int n name t : In (name, t) (int_tables n) ->
  (forall v c, In (v, c) (it_to t) -> assoc_n c (it_from t) = Some v) /\
  NoDup (map snd (it_to t)) /\
  (forall x v, assoc_n x (it_from t) = Some v -> assoc_b v (it_to t) = Some x).
Proof.
  intro Hin. apply int_table_rt_spec.
  pose proof (all_int_tables_rt n) as H. rewrite forallb_forall in H. apply (H (name, t) Hin).
Qed.

Section Thms.
  Variable b64 : bytes -> option bytes.

  (* ---------- what record_den says, as propositions ---------- *)

  Lemma record_den_faithful n kvs out :
    ns_den b64 n kvs out = true -> faithful b64 n kvs out.
  Proof.
    unfold ns_den, record_den, faithful. intro H.
    apply andb_true_iff in H as [H H3]. apply andb_true_iff in H as [H1 H2].
    rewrite forallb_forall in H2. rewrite forallb_forall in H3.
    assert (W : dm_wf (ns_dm n)) by (destruct n; apply dm_wf_b_spec; [exact mdl_dm_wf|exact aamva_dm_wf]).
    split; [apply ssorted_NoDup, strictly_ssorted, H1|]. split.
    - intro k. split.
      + intro Hk. apply in_map_iff in Hk as ([k' v] & E & Hkv). cbn in E. subst k'.
        specialize (H2 _ Hkv). cbn [fst snd] in H2.
        destruct (row_for (ns_dm n) k) as [r|] eqn:R; [|discriminate].
        destruct (jget k kvs) as [j|] eqn:J; [|discriminate].
        unfold row_for in R. apply find_some in R as [Hr Hm].
        exists r. split; [exact Hr|]. unfold row_matches in Hm.
        destruct (dm_presence r) as [| |f].
        * apply bytes_eqb_eq in Hm. split; [exact Hm|]. unfold supplied. rewrite J.
          destruct j; try reflexivity. rewrite den_null in H2. discriminate.
        * apply bytes_eqb_eq in Hm. split; [exact Hm|]. unfold supplied. rewrite J.
          destruct j; try reflexivity. rewrite den_null in H2. discriminate.
        * split; [exact Hm|]. apply jget_In in J. apply (in_map fst) in J. exact J.
      + intros (r & Hr & Hk). specialize (H3 r Hr).
        destruct (dm_presence r) as [| |f].
        * destruct Hk as [<- Hs]. apply andb_true_iff in H3 as [_ H3]. apply mem_b_In, H3.
        * destruct Hk as [<- Hs]. rewrite Hs in H3. cbn [negb orb] in H3. apply mem_b_In, H3.
        * destruct Hk as [Hf Hin]. apply in_map_iff in Hin as ([k' j] & E & Hkj). cbn in E. subst k'.
          rewrite forallb_forall in H3. specialize (H3 _ Hkj). cbn [fst] in H3. rewrite Hf in H3. apply mem_b_In, H3.
    - intros k v Hkv. specialize (H2 _ Hkv). cbn [fst snd] in H2.
      destruct (row_for (ns_dm n) k) as [r|]; [|discriminate].
      destruct (jget k kvs) as [j|]; [|discriminate]. exists r, j. auto.
  Qed.

  Lemma elements_ok n j out : ns_elements b64 n j = Ok out ->
    exists vals, ns_from_json b64 n j = Ok vals /\ out = to_ns_map vals.
  Proof.
    unfold ns_elements. destruct (ns_from_json b64 n j) as [vals|e|p]; cbn [rmap]; try discriminate.
    intro H; inversion H. exists vals. auto.
  Qed.

  Theorem faithful_elements n kvs out :
    NoDup (map fst kvs) ->
    ns_elements b64 n (JObj kvs) = Ok out -> faithful b64 n kvs out.
  Proof.
    intros Hnd H. apply elements_ok in H as (vals & Hv & ->).
    pose proof (ns_spec b64 n kvs Hnd) as S. rewrite Hv in S. apply record_den_faithful, S.
  Qed.

  Theorem exactly_supplied n kvs out :
    NoDup (map fst kvs) ->
    ns_elements b64 n (JObj kvs) = Ok out ->
    NoDup (map fst out) /\ forall k, In k (map fst out) <-> expected_id n kvs k.
  Proof. intros Hnd H. destruct (faithful_elements n kvs out Hnd H) as (A & B & _). auto. Qed.

  Theorem value_preserved n kvs out :
    NoDup (map fst kvs) ->
    ns_elements b64 n (JObj kvs) = Ok out ->
    forall k v, In (k, v) out ->
      exists r j, row_for (ns_dm n) k = Some r /\ jget k kvs = Some j /\
                  den b64 spec_fuel n kvs (dm_class r) j v = true.
  Proof. intros Hnd H. destruct (faithful_elements n kvs out Hnd H) as (_ & _ & C). exact C. Qed.

  Ltac brk := repeat match goal with
    | H : _ && _ = true |- _ => let A := fresh in let B := fresh in apply andb_true_iff in H as [A B]
    | H : (_ =? _) = true |- _ => apply N.eqb_eq in H; subst
    | H : bytes_eqb _ _ = true |- _ => apply bytes_eqb_eq in H; subst
    | H : (_ <? _) = true |- _ => apply N.ltb_lt in H
    | H : mem_b _ _ = true |- _ => apply mem_b_In in H
    | H : mem_n _ _ = true |- _ => apply mem_n_In in H
    end.

  Lemma tdate_part s o t :
    (t =? 0) && match spec_date_time s, spec_tdate_canonical o with
                | Some i, Some i' => (i =? i')%Z
                | _, _ => false
                end = true ->
    t = 0 /\ exists i, spec_tdate_canonical o = Some i.
  Proof.
    intro H. apply andb_true_iff in H as [H0 H]. apply N.eqb_eq in H0. split; [exact H0|].
    destruct (spec_date_time s); [|discriminate]. destruct (spec_tdate_canonical o) as [i|]; [|discriminate]. eauto.
  Qed.

  Lemma den_type f n ctx c j v : den b64 f n ctx c j v = true -> cbor_type_ok c v.
  Proof.
    destruct c; try (destruct f; [discriminate|]); try (rewrite den_scalar by reflexivity);
      destruct j; try discriminate; destruct v; try discriminate; cbn [den den0 cbor_type_ok]; intro H;
      try (match type of H with context [match ?x with CText _ => _ | _ => _ end] => destruct x; try discriminate end);
      try (apply tdate_part in H as [-> [i Hi]]; eauto);
      try solve [brk; eauto];
      try solve [destruct l; discriminate].
    - (* tdate or full-date *)
      apply orb_true_iff in H as [H|H].
      + apply tdate_part in H as [-> [i Hi]]. left. eauto.
      + right. brk. eauto.
    - destruct (untext kvs0) as [out|] eqn:U; [|discriminate]. eauto.
  Qed.

  Theorem types n kvs out :
    NoDup (map fst kvs) ->
    ns_elements b64 n (JObj kvs) = Ok out ->
    forall k v, In (k, v) out -> exists r, row_for (ns_dm n) k = Some r /\ cbor_type_ok (dm_class r) v.
  Proof.
    intros Hnd H k v Hkv. destruct (value_preserved n kvs out Hnd H k v Hkv) as (r & j & R & _ & D).
    exists r. split; [exact R|]. apply (den_type _ _ _ _ _ _ D).
  Qed.

  (* ---------- rejection and acceptance ---------- *)

  Theorem out_of_domain_rejected n kvs :
    NoDup (map fst kvs) ->
    ns_dom b64 n kvs = false -> exists e, ns_elements b64 n (JObj kvs) = Err e.
  Proof.
    intros Hnd Hd. pose proof (ns_spec b64 n kvs Hnd) as S. unfold ns_elements.
    destruct (ns_from_json b64 n (JObj kvs)) as [vals|e|p]; cbn [rmap].
    - destruct S as [_ S]. rewrite S in Hd. discriminate.
    - eauto.
    - contradiction.
  Qed.

  Theorem accepts_valid n kvs :
    NoDup (map fst kvs) ->
    ns_dom b64 n kvs = true -> exists out, ns_elements b64 n (JObj kvs) = Ok out /\ faithful b64 n kvs out.
  Proof.
    intros Hnd Hd. pose proof (ns_spec b64 n kvs Hnd) as S. unfold ns_elements.
    destruct (ns_from_json b64 n (JObj kvs)) as [vals|e|p]; cbn [rmap].
    - exists (to_ns_map vals). split; [reflexivity|]. apply record_den_faithful, S.
    - rewrite S in Hd. discriminate.
    - contradiction.
  Qed.

  Theorem no_panic n j s : ns_elements b64 n j <> Panic s.
  Proof.
    unfold ns_elements. pose proof (ns_no_panic b64 n j) as P.
    destruct (ns_from_json b64 n j) as [vals|e|p]; cbn [rmap]; try discriminate.
    intro H. inversion H; subst. apply (P s). reflexivity.
  Qed.

  Theorem not_object_rejected n j : (forall kvs, j <> JObj kvs) -> exists e, ns_elements b64 n j = Err e.
  Proof.
    intro H. unfold ns_elements, ns_from_json, struct_from_json. destruct j; cbn [rmap]; eauto.
    exfalso. apply (H kvs). reflexivity.
  Qed.

  Lemma ns_dom_rows n kvs : ns_dom b64 n kvs = forallb (fun r => row_dom (dom b64 spec_fuel n kvs) r kvs) (ns_dm n).
  Proof. reflexivity. Qed.

  Theorem missing_rejected n kvs r :
    NoDup (map fst kvs) ->
    In r (ns_dm n) -> dm_presence r = Mandatory -> supplied kvs (dm_id r) = false ->
    exists e, ns_elements b64 n (JObj kvs) = Err e.
  Proof.
    intros Hnd Hr Hp Hs. apply out_of_domain_rejected; try assumption.
    rewrite ns_dom_rows. eapply forallb_false; [exact Hr|]. unfold row_dom. rewrite Hp.
    unfold supplied in Hs. destruct (jget (dm_id r) kvs) as [j|]; [|reflexivity].
    destruct j; try discriminate. apply dom_null.
  Qed.

  Theorem bad_value_rejected n kvs r j :
    NoDup (map fst kvs) ->
    In r (ns_dm n) -> is_family r = false -> jget (dm_id r) kvs = Some j -> j <> JNull ->
    dom b64 spec_fuel n kvs (dm_class r) j = false ->
    exists e, ns_elements b64 n (JObj kvs) = Err e.
  Proof.
    intros Hnd Hr Hf Hj Hn Hd. apply out_of_domain_rejected; try assumption.
    rewrite ns_dom_rows. eapply forallb_false; [exact Hr|]. unfold row_dom, is_family in *.
    destruct (dm_presence r); try discriminate; rewrite Hj; [exact Hd|].
    rewrite Hd. destruct j; try reflexivity. contradiction.
  Qed.

  Theorem bad_family_value_rejected n kvs r f k j :
    NoDup (map fst kvs) ->
    In r (ns_dm n) -> dm_presence r = Family f -> In (k, j) kvs -> fam_ok f (dm_id r) k = true ->
    dom b64 spec_fuel n kvs (dm_class r) j = false ->
    exists e, ns_elements b64 n (JObj kvs) = Err e.
  Proof.
    intros Hnd Hr Hp Hkj Hf Hd. apply out_of_domain_rejected; try assumption.
    rewrite ns_dom_rows. eapply forallb_false; [exact Hr|]. unfold row_dom. rewrite Hp.
    eapply forallb_false; [exact Hkj|]. cbn [fst snd]. rewrite Hf, Hd. reflexivity.
  Qed.
End Thms.
