(* C19: the derive-macro interpreter.  Generic facts about BTreeMap insertion, run_fields and
   to_ns_map, and the theorem that a struct whose fields realise their rows realises its table. *)
From Isomdl Require Import Lib.Bytes Lib.Utf8 Lib.Cbor Lib.GenTypes Lib.Civil.
From Isomdl Require Import Gen.Constants Gen.Tables Gen.Fields Model.FromJson Spec.MdlDataModel.
From Isomdl Require Import Proofs.C19Tables Proofs.C19Leaves.
Open Scope N_scope.

(* ---------- byte-lexicographic order ---------- *)

Lemma bytes_ltb_irrefl a : bytes_ltb a a = false.
Proof.
  induction a as [|x a IH]; cbn [bytes_ltb]; [reflexivity|].
  destruct (N.ltb_spec x x); [lia|]. exact IH.
Qed.

Lemma bytes_ltb_trans a : forall c d, bytes_ltb a c = true -> bytes_ltb c d = true -> bytes_ltb a d = true.
Proof.
  induction a as [|x a IH]; intros [|y c] [|z d]; cbn [bytes_ltb]; try discriminate; try reflexivity.
  destruct (N.ltb_spec x y), (N.ltb_spec y x), (N.ltb_spec y z), (N.ltb_spec z y), (N.ltb_spec x z), (N.ltb_spec z x);
    try discriminate; try reflexivity; try lia.
  apply IH.
Qed.

Lemma bytes_ltb_not_eqb a : forall c, bytes_ltb a c = true -> bytes_eqb a c = false.
Proof.
  intros c H. destruct (bytes_eqb a c) eqn:E; [|reflexivity].
  apply bytes_eqb_eq in E. subst. rewrite bytes_ltb_irrefl in H. discriminate.
Qed.

Lemma bytes_trichotomy a : forall c, bytes_ltb a c = false -> bytes_eqb a c = false -> bytes_ltb c a = true.
Proof.
  induction a as [|x a IH]; intros [|y c]; cbn [bytes_ltb bytes_eqb]; try discriminate; try reflexivity.
  destruct (N.ltb_spec x y), (N.ltb_spec y x), (N.eqb_spec x y); try discriminate; try reflexivity; try lia.
  cbn [andb]. apply IH.
Qed.

(* strictly_sorted as "every later key is greater" *)
Fixpoint ssorted (l : list bytes) : Prop :=
  match l with
  | [] => True
  | a :: r => (forall x, In x r -> bytes_ltb a x = true) /\ ssorted r
  end.

Lemma ssorted_strictly l : ssorted l -> strictly_sorted l = true.
Proof.
  induction l as [|a r IH]; [reflexivity|]. intros [H1 H2]. cbn [strictly_sorted].
  destruct r as [|c r']; [reflexivity|]. rewrite (H1 c (or_introl eq_refl)). cbn [andb]. apply IH, H2.
Qed.

Lemma strictly_ssorted l : strictly_sorted l = true -> ssorted l.
Proof.
  induction l as [|a r IH]; [intros _; exact I|]. cbn [strictly_sorted].
  destruct r as [|c r'].
  - intros _. split; [intros x []|exact I].
  - intro H. apply andb_true_iff in H as [H1 H2]. specialize (IH H2). split; [|exact IH].
    intros x [<-|Hx]; [exact H1|]. destruct IH as [IH1 _]. apply (bytes_ltb_trans a c x H1), IH1, Hx.
Qed.

Lemma ssorted_NoDup l : ssorted l -> NoDup l.
Proof.
  induction l as [|a r IH]; [constructor|]. intros [H1 H2]. constructor; [|apply IH, H2].
  intro Hin. apply H1 in Hin. rewrite bytes_ltb_irrefl in Hin. discriminate.
Qed.

(* ---------- BTreeMap insertion ---------- *)

Lemma bt_insert_In k v m k' v' : In (k', v') (bt_insert k v m) -> (k' = k /\ v' = v) \/ In (k', v') m.
Proof.
  induction m as [|[k0 v0] r IH]; cbn [bt_insert].
  - intros [H|[]]. inversion H; auto.
  - destruct (bytes_ltb k k0).
    + intros [H|H]; [inversion H; auto|right; exact H].
    + destruct (bytes_eqb k k0).
      * intros [H|H]; [inversion H; auto|right; right; exact H].
      * intros [H|H]; [right; left; exact H|]. destruct (IH H) as [?|?]; [left; assumption|right; right; assumption].
Qed.

Lemma bt_insert_keys k v m k' : In k' (map fst (bt_insert k v m)) <-> k' = k \/ In k' (map fst m).
Proof.
  induction m as [|[k0 v0] r IH]; cbn [bt_insert map fst In].
  - split; [intros [<-|[]]; auto|intros [->|[]]; auto].
  - destruct (bytes_ltb k k0) eqn:L; cbn [map fst In].
    + split; [intros [<-|H]; auto|intros [->|H]; auto].
    + destruct (bytes_eqb k k0) eqn:E; cbn [map fst In].
      * apply bytes_eqb_eq in E. subst k0. split; [intros [<-|H]; auto|intros [->|[<-|H]]; auto].
      * rewrite IH. split; [intros [<-|[->|H]]; auto|intros [->|[<-|H]]; auto].
Qed.

Lemma bt_insert_sorted k v m : ssorted (map fst m) -> ssorted (map fst (bt_insert k v m)).
Proof.
  induction m as [|[k0 v0] r IH]; cbn [bt_insert map fst ssorted].
  - intros _. split; [intros x []|exact I].
  - intros [H1 H2]. destruct (bytes_ltb k k0) eqn:L; cbn [map fst ssorted].
    + split; [|split; assumption]. intros x [<-|Hx]; [exact L|]. apply (bytes_ltb_trans k k0 x L), H1, Hx.
    + destruct (bytes_eqb k k0) eqn:E; cbn [map fst ssorted].
      * apply bytes_eqb_eq in E. subst k0. split; assumption.
      * split; [|apply IH, H2]. intros x Hx. apply bt_insert_keys in Hx as [->|Hx]; [|apply H1, Hx].
        apply bytes_trichotomy; assumption.
Qed.

Lemma bt_insert_mono k v m kv : In kv m -> fst kv <> k -> In kv (bt_insert k v m).
Proof.
  induction m as [|[k0 v0] r IH]; cbn [bt_insert]; [intros []|].
  intros Hin Hne. destruct (bytes_ltb k k0); [right; exact Hin|].
  destruct (bytes_eqb k k0) eqn:E.
  - apply bytes_eqb_eq in E. subst k0. destruct Hin as [<-|Hin]; [cbn in Hne; contradiction|right; exact Hin].
  - destruct Hin as [<-|Hin]; [left; reflexivity|right; apply IH; assumption].
Qed.

Lemma bt_extend_In l : forall m k v, In (k, v) (bt_extend l m) -> In (k, v) l \/ In (k, v) m.
Proof.
  unfold bt_extend. induction l as [|[k0 v0] l IH]; intros m k v; cbn [fold_left]; [auto|].
  intro H. apply IH in H as [H|H]; [left; right; exact H|].
  cbn [fst snd] in H. apply bt_insert_In in H as [[-> ->]|H]; [left; left; reflexivity|right; exact H].
Qed.

Lemma bt_extend_keys l : forall m k, In k (map fst (bt_extend l m)) <-> In k (map fst l) \/ In k (map fst m).
Proof.
  unfold bt_extend. induction l as [|[k0 v0] l IH]; intros m k; cbn [fold_left map fst In]; [tauto|].
  rewrite IH, bt_insert_keys. cbn [fst]. split; [intros [?|[->|?]]; auto|intros [[<-|?]|?]; auto].
Qed.

Lemma bt_extend_sorted l : forall m, ssorted (map fst m) -> ssorted (map fst (bt_extend l m)).
Proof.
  unfold bt_extend. induction l as [|[k0 v0] l IH]; intros m H; cbn [fold_left]; [exact H|].
  apply IH, bt_insert_sorted, H.
Qed.

(* ---------- to_ns_map ---------- *)

(* what a field value contributes to the namespace map *)
Definition emits (f : field_desc) (fv : fval) (k : bytes) (v : cbor) : Prop :=
  if fd_many f then exists l, fv = FMany l /\ In (k, v) l
  else fv = FVal v /\ k = fd_wire f.

Definition ns_step (m : list (bytes * cbor)) (fv : field_desc * fval) : list (bytes * cbor) :=
  let '(f, v) := fv in
  if fd_many f then match v with FMany l => bt_extend l m | _ => m end
  else match v with FVal c => bt_insert (fd_wire f) c m | _ => m end.

Lemma to_ns_map_fold vals : to_ns_map vals = fold_left ns_step vals [].
Proof. reflexivity. Qed.

Lemma ns_fold_In vals : forall m k v, In (k, v) (fold_left ns_step vals m) ->
  In (k, v) m \/ exists f fv, In (f, fv) vals /\ emits f fv k v.
Proof.
  induction vals as [|[f fv] vals IH]; intros m k v; cbn [fold_left]; [auto|].
  intro H. apply IH in H as [H|(f' & fv' & Hin & He)]; [|right; exists f', fv'; split; [right; exact Hin|exact He]].
  unfold ns_step in H. destruct (fd_many f) eqn:M.
  - destruct fv as [c| |l]; auto. apply bt_extend_In in H as [H|H]; [|auto].
    right. exists f, (FMany l). split; [left; reflexivity|]. unfold emits. rewrite M. exists l; auto.
  - destruct fv as [c| |l]; auto. apply bt_insert_In in H as [[-> ->]|H]; [|auto].
    right. exists f, (FVal c). split; [left; reflexivity|]. unfold emits. rewrite M. auto.
Qed.

Lemma ns_fold_keys_mono vals : forall m k, In k (map fst m) -> In k (map fst (fold_left ns_step vals m)).
Proof.
  induction vals as [|[f fv] vals IH]; intros m k H; cbn [fold_left]; [exact H|].
  apply IH. unfold ns_step. destruct (fd_many f).
  - destruct fv as [c| |l]; auto. apply bt_extend_keys. auto.
  - destruct fv as [c| |l]; auto. apply bt_insert_keys. auto.
Qed.

Lemma ns_fold_keys vals : forall m f fv k v, In (f, fv) vals -> emits f fv k v ->
  In k (map fst (fold_left ns_step vals m)).
Proof.
  induction vals as [|[f0 fv0] vals IH]; intros m f fv k v Hin He; [destruct Hin|].
  cbn [fold_left]. destruct Hin as [Heq|Hin]; [|apply (IH _ f fv k v); assumption].
  inversion Heq; subst. apply ns_fold_keys_mono. unfold ns_step, emits in *.
  destruct (fd_many f).
  - destruct He as (l & -> & Hl). apply bt_extend_keys. left. apply (in_map fst) in Hl. exact Hl.
  - destruct He as [-> ->]. apply bt_insert_keys. auto.
Qed.

Lemma ns_fold_sorted vals : forall m, ssorted (map fst m) -> ssorted (map fst (fold_left ns_step vals m)).
Proof.
  induction vals as [|[f fv] vals IH]; intros m H; cbn [fold_left]; [exact H|].
  apply IH. unfold ns_step. destruct (fd_many f).
  - destruct fv as [c| |l]; auto. apply bt_extend_sorted, H.
  - destruct fv as [c| |l]; auto. apply bt_insert_sorted, H.
Qed.

Lemma to_ns_map_In vals k v : In (k, v) (to_ns_map vals) -> exists f fv, In (f, fv) vals /\ emits f fv k v.
Proof. rewrite to_ns_map_fold. intro H. apply ns_fold_In in H as [[]|H]. exact H. Qed.

Lemma to_ns_map_keys vals f fv k v : In (f, fv) vals -> emits f fv k v -> In k (map fst (to_ns_map vals)).
Proof. rewrite to_ns_map_fold. apply ns_fold_keys. Qed.

Lemma to_ns_map_sorted vals : ssorted (map fst (to_ns_map vals)).
Proof. rewrite to_ns_map_fold. apply ns_fold_sorted. exact I. Qed.

(* ---------- run_fields ---------- *)

Section Run.
  Variable leaf : rty -> json -> res cbor.
  Variable mleaf : rty -> list (bytes * json) -> res fval.
  Notation ffj := (field_from_json leaf mleaf).

  Lemma run_fields_panic fds kvs s : run_fields leaf mleaf fds kvs = FPanic s ->
    exists f, In f fds /\ ffj f kvs = Panic s.
  Proof.
    induction fds as [|f r IH]; cbn [run_fields]; [discriminate|].
    destruct (ffj f kvs) as [v|e|p] eqn:E.
    - destruct (run_fields leaf mleaf r kvs) as [vs es|p]; [discriminate|].
      intro H. inversion H; subst. destruct (IH eq_refl) as (f' & Hin & Hf). exists f'. split; [right|]; assumption.
    - destruct (run_fields leaf mleaf r kvs) as [vs es|p]; [discriminate|].
      intro H. inversion H; subst. destruct (IH eq_refl) as (f' & Hin & Hf). exists f'. split; [right|]; assumption.
    - intro H. inversion H; subst. exists f. split; [left; reflexivity|exact E].
  Qed.

  Lemma run_fields_FR fds kvs : forall vals errs, run_fields leaf mleaf fds kvs = FR vals errs ->
    (forall f, In f fds -> match ffj f kvs with
                           | Ok fv => In (f, fv) vals
                           | Err e => errs <> []
                           | Panic _ => False
                           end) /\
    (forall f fv, In (f, fv) vals -> In f fds /\ ffj f kvs = Ok fv) /\
    (errs <> [] -> exists f e, In f fds /\ ffj f kvs = Err e).
  Proof.
    induction fds as [|f r IH]; cbn [run_fields]; intros vals errs H.
    - inversion H; subst. split; [intros f []|]. split; [intros f fv []|]. intro N; contradiction.
    - destruct (ffj f kvs) as [v|e|p] eqn:E.
      + destruct (run_fields leaf mleaf r kvs) as [vs es|p]; [|discriminate].
        inversion H; subst. destruct (IH vs errs eq_refl) as (A & B & C). split; [|split].
        * intros f' [<-|Hin]; [rewrite E; left; reflexivity|]. specialize (A f' Hin).
          destruct (ffj f' kvs); auto. right; exact A.
        * intros f' fv [Heq|Hin]; [inversion Heq; subst; split; [left; reflexivity|exact E]|].
          destruct (B f' fv Hin). split; [right|]; assumption.
        * intro N. destruct (C N) as (f' & e & Hin & Hf). exists f', e. split; [right|]; assumption.
      + destruct (run_fields leaf mleaf r kvs) as [vs es|p]; [|discriminate].
        inversion H; subst. destruct (IH vals es eq_refl) as (A & B & C). split; [|split].
        * intros f' [<-|Hin]; [rewrite E; discriminate|]. specialize (A f' Hin).
          destruct (ffj f' kvs); auto. discriminate.
        * intros f' fv Hin. destruct (B f' fv Hin). split; [right|]; assumption.
        * intros _. exists f, e. split; [left; reflexivity|exact E].
      + discriminate.
  Qed.
End Run.

(* ---------- data-model tables: each identifier belongs to one row ---------- *)

Definition dm_wf (dm : list dm_row) : Prop :=
  forall r r' k, In r dm -> In r' dm -> row_matches r k = true -> row_matches r' k = true -> r = r'.

Definition is_family (r : dm_row) : bool := match dm_presence r with Family _ => true | _ => false end.

(* decidable sufficient condition: identifiers pairwise distinct; a family prefix never matches a
   fixed identifier; two family prefixes start with different bytes *)
Definition pair_ok (r r' : dm_row) : bool :=
  bytes_eqb (dm_id r) (dm_id r') ||
  match dm_presence r, dm_presence r' with
  | Family f, Family _ => match dm_id r, dm_id r' with a :: _, c :: _ => negb (a =? c) | _, _ => false end
  | Family f, _ => negb (fam_ok f (dm_id r) (dm_id r'))
  | _, Family f' => negb (fam_ok f' (dm_id r') (dm_id r))
  | _, _ => true
  end.

Definition dm_wf_b (dm : list dm_row) : bool :=
  nodup_b (map dm_id dm) && forallb (fun r => forallb (pair_ok r) dm) dm.

Lemma NoDup_map_eq {A B} (f : A -> B) l x y : NoDup (map f l) -> In x l -> In y l -> f x = f y -> x = y.
Proof.
  induction l as [|a l IH]; [intros _ []|]. cbn [map]. intro H. inversion H as [|? ? Hn Hd]; subst.
  intros [<-|Hx] [<-|Hy] E; try reflexivity.
  - exfalso. apply Hn. rewrite E. apply in_map, Hy.
  - exfalso. apply Hn. rewrite <- E. apply in_map, Hx.
  - apply IH; assumption.
Qed.

Lemma fam_ok_prefix f p k : fam_ok f p k = true -> exists s, k = p ++ s.
Proof.
  unfold fam_ok. destruct (strip_prefix p k) as [s|] eqn:E; [|discriminate].
  intros _. exists s. apply strip_prefix_some, E.
Qed.

Lemma dm_wf_b_spec dm : dm_wf_b dm = true -> dm_wf dm.
Proof.
  unfold dm_wf_b. intro H. apply andb_true_iff in H as [Hn Hp]. apply nodup_b_NoDup in Hn.
  intros r r' k Hr Hr' M M'.
  rewrite forallb_forall in Hp. specialize (Hp r Hr). rewrite forallb_forall in Hp. specialize (Hp r' Hr').
  unfold pair_ok in Hp.
  destruct (bytes_eqb (dm_id r) (dm_id r')) eqn:E.
  { apply bytes_eqb_eq in E. apply (NoDup_map_eq dm_id dm); assumption. }
  cbn [orb] in Hp. exfalso.
  assert (Hne : dm_id r <> dm_id r') by (intro X; rewrite X, bytes_eqb_refl in E; discriminate).
  unfold row_matches in M, M'.
  destruct (dm_presence r) as [| |f]; destruct (dm_presence r') as [| |f'];
    try (apply bytes_eqb_eq in M); try (apply bytes_eqb_eq in M'); try congruence.
  - subst k. rewrite M' in Hp. discriminate.
  - subst k. rewrite M' in Hp. discriminate.
  - subst k. rewrite M in Hp. discriminate.
  - subst k. rewrite M in Hp. discriminate.
  - apply fam_ok_prefix in M as [s Hs]. apply fam_ok_prefix in M' as [s' Hs'].
    destruct (dm_id r) as [|a p]; [discriminate|]. destruct (dm_id r') as [|c p']; [discriminate|].
    subst k. inversion Hs'. subst. rewrite N.eqb_refl in Hp. discriminate.
Qed.

Lemma row_for_unique dm r k : dm_wf dm -> In r dm -> row_matches r k = true -> row_for dm k = Some r.
Proof.
  intros W Hr M. unfold row_for.
  destruct (find (fun r0 => row_matches r0 k) dm) as [r'|] eqn:F.
  - apply find_some in F as [Hin Hm]. f_equal. apply (W r' r k); assumption.
  - exfalso. apply (find_none _ _ F) in Hr. rewrite M in Hr. discriminate.
Qed.

Lemma forallb_false {A} (p : A -> bool) l x : In x l -> p x = false -> forallb p l = false.
Proof.
  intros Hin Hp. destruct (forallb p l) eqn:E; [|reflexivity].
  rewrite forallb_forall in E. rewrite (E x Hin) in Hp. discriminate.
Qed.

(* ---------- a struct whose fields realise their rows realises its table ---------- *)

Section StructSpec.
  Variable n : ns.
  Variable leaf : rty -> json -> res cbor.
  Variable mleaf : rty -> list (bytes * json) -> res fval.
  Variable D : vclass -> json -> cbor -> bool.
  Variable DOM : vclass -> json -> bool.
  Hypothesis D_null : forall c v, D c JNull v = false.
  Notation ffj := (field_from_json leaf mleaf).

  (* the record_dom conjunct of one row *)
  Definition row_dom (r : dm_row) (kvs : list (bytes * json)) : bool :=
    match dm_presence r with
    | Mandatory => match jget (dm_id r) kvs with Some j => DOM (dm_class r) j | None => false end
    | Optional => match jget (dm_id r) kvs with
                  | Some j => is_null j || DOM (dm_class r) j
                  | None => true
                  end
    | Family f => forallb (fun kj => negb (fam_ok f (dm_id r) (fst kj)) || DOM (dm_class r) (snd kj)) kvs
    end.

  Lemma record_dom_rows dm kvs : record_dom DOM dm kvs = forallb (fun r => row_dom r kvs) dm.
  Proof. reflexivity. Qed.

  (* meaning of an Ok field value for its row *)
  Definition field_post (r : dm_row) (kvs : list (bytes * json)) (f : field_desc) (fv : fval) : Prop :=
    row_dom r kvs = true /\
    match dm_presence r with
    | Mandatory =>
      fd_many f = false /\ fd_wire f = dm_id r /\
      exists j v, jget (dm_id r) kvs = Some j /\ fv = FVal v /\ D (dm_class r) j v = true
    | Optional =>
      fd_many f = false /\ fd_wire f = dm_id r /\
      ((fv = FNone /\ supplied kvs (dm_id r) = false) \/
       (exists j v, jget (dm_id r) kvs = Some j /\ fv = FVal v /\ D (dm_class r) j v = true))
    | Family fam =>
      fd_many f = true /\ exists l, fv = FMany l /\
        (forall k v, In (k, v) l -> fam_ok fam (dm_id r) k = true /\
                                   exists j, jget k kvs = Some j /\ D (dm_class r) j v = true) /\
        (forall k, In k (map fst kvs) -> fam_ok fam (dm_id r) k = true -> In k (map fst l))
    end.

  Definition field_ok (fds : list field_desc) (dm : list dm_row) (kvs : list (bytes * json))
             (f : field_desc) (r : dm_row) : Prop :=
    match ffj f kvs with
    | Ok fv => (forall f', In f' fds -> exists fv', ffj f' kvs = Ok fv') -> field_post r kvs f fv
    | Err _ => record_dom DOM dm kvs = false
    | Panic _ => False
    end.

  Lemma D_supplied c j v kvs k : jget k kvs = Some j -> D c j v = true -> supplied kvs k = true.
  Proof.
    intros Hj Hd. unfold supplied. rewrite Hj. destruct j; try reflexivity. rewrite D_null in Hd. discriminate.
  Qed.

  Theorem struct_spec fds dm kvs :
    map (row_of_field n) fds = map Some dm ->
    dm_wf dm ->
    (forall f r, In f fds -> row_of_field n f = Some r -> field_ok fds dm kvs f r) ->
    match struct_from_json leaf mleaf fds (JObj kvs) with
    | Ok vals => record_den D dm kvs (to_ns_map vals) = true /\ record_dom DOM dm kvs = true
    | Err _ => record_dom DOM dm kvs = false
    | Panic _ => False
    end.
  Proof.
    intros Hiso W Hok.
    assert (Hfr : forall f, In f fds -> exists r, In r dm /\ row_of_field n f = Some r).
    { intros f Hf. apply (in_map (row_of_field n)) in Hf. rewrite Hiso in Hf.
      apply in_map_iff in Hf as (r & E & Hr). exists r. split; [exact Hr|congruence]. }
    assert (Hrf : forall r, In r dm -> exists f, In f fds /\ row_of_field n f = Some r).
    { intros r Hr. apply (in_map Some) in Hr. rewrite <- Hiso in Hr.
      apply in_map_iff in Hr as (f & E & Hf). exists f. split; assumption. }
    cbn [struct_from_json].
    destruct (run_fields leaf mleaf fds kvs) as [vals errs|p] eqn:R.
    2:{ apply run_fields_panic in R as (f & Hf & Hp). destruct (Hfr f Hf) as (r & Hr & Hrow).
        specialize (Hok f r Hf Hrow). unfold field_ok in Hok. rewrite Hp in Hok. exact Hok. }
    destruct (run_fields_FR leaf mleaf fds kvs vals errs R) as (A & B & C).
    assert (Herr : errs <> [] -> record_dom DOM dm kvs = false).
    { intro N. destruct (C N) as (f & e & Hf & He). destruct (Hfr f Hf) as (r & Hr & Hrow).
      specialize (Hok f r Hf Hrow). unfold field_ok in Hok. rewrite He in Hok. exact Hok. }
    destruct errs as [|e1 [|e2 es]]; [|apply Herr; discriminate|apply Herr; discriminate].
    (* no error: every field is Ok *)
    assert (Hall : forall f', In f' fds -> exists fv', ffj f' kvs = Ok fv').
    { intros f' Hf'. specialize (A f' Hf'). destruct (ffj f' kvs) as [fv'|e|p]; [eauto|contradiction|contradiction]. }
    assert (Hpost : forall f fv r, In (f, fv) vals -> row_of_field n f = Some r -> field_post r kvs f fv).
    { intros f fv r Hin Hrow. destruct (B f fv Hin) as [Hf Hv].
      specialize (Hok f r Hf Hrow). unfold field_ok in Hok. rewrite Hv in Hok. apply Hok, Hall. }
    assert (Hval : forall f, In f fds -> exists fv, In (f, fv) vals).
    { intros f Hf. specialize (A f Hf). destruct (ffj f kvs) as [fv|e|p]; [eauto|contradiction|contradiction]. }
    split.
    - unfold record_den. apply andb_true_iff. split; [apply andb_true_iff; split|].
      + apply ssorted_strictly, to_ns_map_sorted.
      + apply forallb_forall. intros [k v] Hkv. cbn [fst snd].
        apply to_ns_map_In in Hkv as (f & fv & Hin & He).
        destruct (B f fv Hin) as [Hf _]. destruct (Hfr f Hf) as (r & Hr & Hrow).
        pose proof (Hpost f fv r Hin Hrow) as [_ P]. unfold emits in He.
        destruct (dm_presence r) as [| |fam] eqn:Pr.
        * destruct P as (M & Hw & j & v' & Hj & Hfv & Hd). rewrite M in He. destruct He as [He ->].
          rewrite Hw in *. rewrite (row_for_unique dm r (dm_id r) W Hr); [|unfold row_matches; rewrite Pr; apply bytes_eqb_refl].
          rewrite Hj. congruence.
        * destruct P as (M & Hw & [[Hfv _]|(j & v' & Hj & Hfv & Hd)]); rewrite M in He; destruct He as [He ->]; [congruence|].
          rewrite Hw in *. rewrite (row_for_unique dm r (dm_id r) W Hr); [|unfold row_matches; rewrite Pr; apply bytes_eqb_refl].
          rewrite Hj. congruence.
        * destruct P as (M & l & Hfv & P1 & _). rewrite M in He. destruct He as (l' & Hl' & Hin').
          assert (l' = l) by congruence. subst l'. destruct (P1 k v Hin') as (Hfam & j & Hj & Hd).
          rewrite (row_for_unique dm r k W Hr); [|unfold row_matches; rewrite Pr; exact Hfam].
          rewrite Hj. exact Hd.
      + apply forallb_forall. intros r Hr. destruct (Hrf r Hr) as (f & Hf & Hrow).
        destruct (Hval f Hf) as (fv & Hin). pose proof (Hpost f fv r Hin Hrow) as [_ P].
        destruct (dm_presence r) as [| |fam] eqn:Pr.
        * destruct P as (M & Hw & j & v' & Hj & Hfv & Hd). apply andb_true_iff. split.
          -- apply (D_supplied _ _ _ _ _ Hj Hd).
          -- apply mem_b_In. apply (to_ns_map_keys vals f fv (dm_id r) v' Hin). unfold emits. rewrite M. split; congruence.
        * destruct P as (M & Hw & [[Hfv Hs]|(j & v' & Hj & Hfv & Hd)]).
          -- rewrite Hs. reflexivity.
          -- apply orb_true_iff. right. apply mem_b_In.
             apply (to_ns_map_keys vals f fv (dm_id r) v' Hin). unfold emits. rewrite M. split; congruence.
        * destruct P as (M & l & Hfv & _ & P2). apply forallb_forall. intros [k j] Hkj. cbn [fst].
          destruct (fam_ok fam (dm_id r) k) eqn:Fk; [|reflexivity]. cbn [negb orb]. apply mem_b_In.
          assert (Hk : In k (map fst l)) by (apply P2; [apply (in_map fst) in Hkj; exact Hkj|exact Fk]).
          apply in_map_iff in Hk as ([k' v] & Ek & Hkv). cbn in Ek. subst k'.
          apply (to_ns_map_keys vals f fv k v Hin). unfold emits. rewrite M. exists l. split; assumption.
    - rewrite record_dom_rows. apply forallb_forall. intros r Hr. destruct (Hrf r Hr) as (f & Hf & Hrow).
      destruct (Hval f Hf) as (fv & Hin). apply (Hpost f fv r Hin Hrow).
  Qed.
End StructSpec.
