(* C18 proofs: the messages composed by Model/Emit.v satisfy the validators of Spec/Cddl.v. *)
From Isomdl Require Import Lib.Bytes Lib.Utf8 Lib.Cbor Proofs.CborProofs Model.Cose Spec.Cddl Model.Emit
     Gen.SigAlgTable Gen.EmitLiterals.

Open Scope N_scope.
Local Open Scope string_scope.

(* ------------------------------------------------------------------------------------------ *)
(** * verdict algebra *)

Lemma andv_ok a b : (a &> b) = Ok <-> a = Ok /\ b = Ok.
Proof. destruct a; cbn [andv]; split; [auto|intros [_ H]; exact H|discriminate|intros [H _]; discriminate]. Qed.

Lemma req_ok b r : req b r = Ok <-> b = true.
Proof. destruct b; cbn [req]; split; auto; discriminate. Qed.

Lemma allv_ok {A} (f : A -> verdict) l : allv f l = Ok <-> Forall (fun x => f x = Ok) l.
Proof.
  induction l as [|x l IH]; cbn [allv].
  - split; [constructor|reflexivity].
  - rewrite andv_ok, IH. split; [intros [H1 H2]; constructor; assumption|intro H; inversion H; auto].
Qed.

Lemma allv_map {A B} (g : A -> B) (f : B -> verdict) l : allv f (map g l) = allv (fun x => f (g x)) l.
Proof. induction l as [|x l IH]; cbn [allv map]; [reflexivity|]. rewrite IH. reflexivity. Qed.

(* ------------------------------------------------------------------------------------------ *)
(** * keys *)

Lemma cbor_eqb_refl k : cbor_eqb k k = true.
Proof. apply cbor_eqb_eq. reflexivity. Qed.

Lemma cbor_eqb_neq a b : a <> b -> cbor_eqb a b = false.
Proof. intro H. destruct (cbor_eqb a b) eqn:E; [|reflexivity]. apply cbor_eqb_eq in E. contradiction. Qed.

Lemma mem_key_in k ks : mem_key k ks = true <-> In k ks.
Proof.
  unfold mem_key. rewrite existsb_exists. split.
  - intros [x [Hin Heq]]. apply cbor_eqb_eq in Heq. subst. exact Hin.
  - intro H. exists k. split; [exact H|apply cbor_eqb_refl].
Qed.

Lemma mem_key_false k ks : mem_key k ks = false <-> ~ In k ks.
Proof.
  rewrite <- mem_key_in. destruct (mem_key k ks); split; intro H; try reflexivity; try discriminate.
  exfalso. apply H. reflexivity.
Qed.

Lemma keys_nodupb_nodup ks : keys_nodupb ks = true <-> NoDup ks.
Proof.
  induction ks as [|k r IH]; cbn [keys_nodupb].
  - split; [constructor|reflexivity].
  - rewrite andb_true_iff, negb_true_iff, mem_key_false, IH.
    split; [intros [H1 H2]; constructor; assumption|intro H; inversion H; auto].
Qed.

Lemma map_get_nil k : map_get k [] = None.
Proof. reflexivity. Qed.
Lemma map_get_hit k v r : map_get k ((k, v) :: r) = Some v.
Proof. cbn [map_get]. rewrite cbor_eqb_refl. reflexivity. Qed.
Lemma map_get_miss k k' v r : cbor_eqb k k' = false -> map_get k ((k', v) :: r) = map_get k r.
Proof. intro H. cbn [map_get]. rewrite H. reflexivity. Qed.

Ltac mg := repeat first [ rewrite map_get_hit | rewrite map_get_miss by reflexivity | rewrite map_get_nil ].

Lemma map_get_not_in k l : ~ In k (map fst l) -> map_get k l = None.
Proof.
  induction l as [|[k' v] r IH]; intro H; [reflexivity|].
  cbn [map_get]. cbn [map fst In] in H.
  rewrite cbor_eqb_neq by (intro E; apply H; left; congruence). apply IH. tauto.
Qed.

Lemma build_keys_incl es k : In k (map fst (build es)) -> In k (map fst es).
Proof.
  induction es as [|[k' [v|]] r IH]; cbn [build map fst In]; [tauto| |]; intro H.
  - destruct H; [left; assumption|right; auto].
  - right; auto.
Qed.

Lemma build_keys_nodup es : NoDup (map fst es) -> NoDup (map fst (build es)).
Proof.
  induction es as [|[k [v|]] r IH]; cbn [build map fst]; intro H; inversion H; subst; auto.
  constructor; auto. intro Hin. apply build_keys_incl in Hin. contradiction.
Qed.

Lemma map_get_build es k o : NoDup (map fst es) -> In (k, o) es -> map_get k (build es) = o.
Proof.
  induction es as [|[k' o'] r IH]; intros Hnd Hin; [inversion Hin|].
  cbn [map fst] in Hnd. inversion Hnd as [|? ? Hnot Hnd']; subst.
  destruct Hin as [E|Hin].
  - inversion E; subst. destruct o as [v|]; cbn [build].
    + apply map_get_hit.
    + apply map_get_not_in. intro H. apply build_keys_incl in H. contradiction.
  - assert (Hne : k <> k').
    { intro E; subst. apply Hnot. change k' with (fst (k', o)). apply in_map. exact Hin. }
    destruct o' as [v'|]; cbn [build].
    + rewrite map_get_miss by (apply cbor_eqb_neq; exact Hne). apply IH; assumption.
    + apply IH; assumption.
Qed.

(* ------------------------------------------------------------------------------------------ *)
(** * a struct built from entries in the order of its definition *)

Definition field_ok (f : field) (e : cbor * option cbor) : Prop :=
  f_key f = fst e /\ match snd e with Some v => f_val f v = Ok | None => f_req f = false end.

Lemma check_fields_build what es : NoDup (map fst es) ->
  forall fields es', Forall2 field_ok fields es' -> incl es' es ->
  check_fields what fields (build es) = Ok.
Proof.
  intros Hnd fields es' HF. induction HF as [|f [k o] fields es' [Hk Hv] HF IH]; intro Hincl; cbn [check_fields].
  - reflexivity.
  - cbn [fst snd] in Hk, Hv. apply andv_ok. split.
    + rewrite Hk. rewrite (map_get_build es k o Hnd) by (apply Hincl; left; reflexivity).
      destruct o as [v|]; [exact Hv|]. rewrite Hv. reflexivity.
    + apply IH. intros e He. apply Hincl. right. exact He.
Qed.

Lemma check_struct_build what extra fields es :
  keys_nodupb (map fst es) = true ->
  Forall2 field_ok fields es ->
  check_struct what extra fields (mk_map es) = Ok.
Proof.
  intros Hnd HF. apply keys_nodupb_nodup in Hnd. unfold mk_map, check_struct.
  assert (Hkeys : map f_key fields = map fst es).
  { clear Hnd. induction HF as [|f e fields es' [Hk _] _ IH]; cbn [map]; [reflexivity|]. rewrite Hk, IH. reflexivity. }
  repeat (apply andv_ok; split).
  - apply req_ok. apply keys_nodupb_nodup. apply build_keys_nodup. exact Hnd.
  - apply req_ok. apply forallb_forall. intros k Hk. apply build_keys_incl in Hk.
    apply orb_true_iff. left. apply mem_key_in. rewrite Hkeys. exact Hk.
  - apply (check_fields_build what es Hnd fields es HF). apply incl_refl.
Qed.

(* value of a key in a built struct, keys compared by computation *)
Lemma map_get_mk es k o : keys_nodupb (map fst es) = true -> In (k, o) es -> map_get k (build es) = o.
Proof. intros H. apply map_get_build. apply keys_nodupb_nodup. exact H. Qed.

(* ------------------------------------------------------------------------------------------ *)
(** * tag 24 *)

Definition embeddable (v : cbor) : Prop := wf v = true /\ N.of_nat (length (encode v)) < two64.

Lemma check_tag24_encode what inner v : embeddable v -> inner v = Ok ->
  check_tag24 what inner (tag24 (encode v)) = Ok.
Proof.
  intros [Hwf Hlen] Hin. unfold check_tag24, tag24.
  rewrite (decode_all_encode_short v Hwf Hlen). exact Hin.
Qed.

(* ------------------------------------------------------------------------------------------ *)
(** * maps and arrays of names *)

Lemma keys_nodupb_ctext names : NoDup names -> keys_nodupb (map CText names) = true.
Proof.
  intro H. apply keys_nodupb_nodup. induction H as [|x l Hnot Hnd IH]; cbn [map]; constructor; [|exact IH].
  intro Hin. apply in_map_iff in Hin as [y [E Hy]]. inversion E; subst. contradiction.
Qed.

Lemma forallb_tstr_ctext names : forallb is_tstr (map CText names) = true.
Proof. induction names as [|x l IH]; [reflexivity|exact IH]. Qed.

(* a map { + tstr => T } composed from an association list with distinct names *)
Lemma check_map_of_names {A} what nonempty (val : cbor -> verdict) (g : A -> cbor) (l : list (bytes * A)) :
  (nonempty = true -> l <> []) ->
  NoDup (map fst l) ->
  Forall (fun e => val (g (snd e)) = Ok) l ->
  check_map_of what nonempty is_tstr val (CMap (map (fun e => (CText (fst e), g (snd e))) l)) = Ok.
Proof.
  intros Hne Hnd Hall. unfold check_map_of.
  assert (Hk : map fst (map (fun e : bytes * A => (CText (fst e), g (snd e))) l) = map CText (map fst l)).
  { rewrite !map_map. reflexivity. }
  repeat (apply andv_ok; split).
  - apply req_ok. destruct nonempty; [|reflexivity]. destruct l; [exfalso; apply Hne; reflexivity|reflexivity].
  - apply req_ok. rewrite Hk. apply keys_nodupb_ctext. exact Hnd.
  - apply req_ok. rewrite Hk. apply forallb_tstr_ctext.
  - apply allv_ok. rewrite map_map. cbn [snd]. apply Forall_map. exact Hall.
Qed.

Lemma check_array_of_ok what nonempty (val : cbor -> verdict) l :
  (nonempty = true -> l <> []) -> Forall (fun x => val x = Ok) l ->
  check_array_of what nonempty val (CArray l) = Ok.
Proof.
  intros Hne Hall. unfold check_array_of. apply andv_ok. split.
  - apply req_ok. destruct nonempty; [|reflexivity]. destruct l; [exfalso; apply Hne; reflexivity|reflexivity].
  - apply allv_ok. exact Hall.
Qed.

(* ------------------------------------------------------------------------------------------ *)
(** * generated tables are the ISO tables *)

Lemma session_status_table_is_iso :
  map snd gen_session_data_status = session_status_codes /\
  session_status "SessionEncryptionError" = 10 /\ session_status "CborDecodingError" = 11 /\
  session_status "SessionTermination" = 20.
Proof. repeat split; reflexivity. Qed.

Lemma response_status_table_is_iso :
  map snd gen_device_response_status = response_status_codes /\
  response_status "OK" = 0 /\ response_status "GeneralError" = 10 /\
  response_status "CborDecodingError" = 11 /\ response_status "CborValidationError" = 12.
Proof. repeat split; reflexivity. Qed.

Lemma transport_types_are_iso : gen_transport_type = [("NFC", 1); ("BLE", 2); ("WIFI", 3)].
Proof. reflexivity. Qed.

Lemma versions_are_iso :
  gen_device_response_version = bytes_of_string "1.0" /\ gen_device_request_version = bytes_of_string "1.0" /\
  gen_engagement_version = bytes_of_string "1.0" /\ gen_engagement_cipher_suite = 1.
Proof. repeat split; reflexivity. Qed.

(* ------------------------------------------------------------------------------------------ *)
(** * signature algorithm table *)

Definition sig_alg_row_ok (k : key_curve) : bool :=
  match curve_ids k with
  | Some (kty, crv) =>
    match signature_algorithm k, spec_sig_alg kty crv with
    | Some a, Some b => Z.eqb a b
    | None, None => true
    | _, _ => false
    end
  | None => false
  end.

Lemma sig_alg_table_sweep : forallb sig_alg_row_ok all_key_curves = true.
Proof. vm_compute. reflexivity. Qed.

Lemma sig_alg_table_is_rfc : forall k, In k all_key_curves ->
  exists kty crv, curve_ids k = Some (kty, crv) /\ signature_algorithm k = spec_sig_alg kty crv.
Proof.
  intros k Hin. pose proof (proj1 (forallb_forall _ _) sig_alg_table_sweep k Hin) as H.
  unfold sig_alg_row_ok in H. destruct (curve_ids k) as [[kty crv]|]; [|discriminate].
  exists kty, crv. split; [reflexivity|].
  destruct (signature_algorithm k), (spec_sig_alg kty crv); try discriminate; [|reflexivity].
  apply Z.eqb_eq in H. congruence.
Qed.

Lemma assoc_in {A} k (l : list (String.string * A)) v : assoc k l = Some v -> In k (map fst l).
Proof.
  induction l as [|[k' v'] r IH]; cbn [assoc]; [discriminate|].
  destruct (String.eqb k k') eqn:E; intro H.
  - apply String.eqb_eq in E. left. symmetry. exact E.
  - right. apply IH. exact H.
Qed.

Lemma curve_ids_in k p : curve_ids k = Some p -> In k all_key_curves.
Proof.
  destruct k as [kty crv]. unfold curve_ids, all_key_curves. cbn [kc_kty kc_crv]. intro H.
  apply in_or_app.
  destruct (String.eqb kty "EC2") eqn:E1.
  - apply String.eqb_eq in E1. subst. left.
    destruct (assoc crv gen_ec2_curve_ids) eqn:E; [|discriminate].
    apply assoc_in in E. apply in_map_iff in E as [r [Hr Hin]]. apply in_map_iff. exists r. split; [|exact Hin].
    rewrite Hr. reflexivity.
  - destruct (String.eqb kty "OKP") eqn:E2; [|discriminate].
    apply String.eqb_eq in E2. subst. right.
    destruct (assoc crv gen_okp_curve_ids) eqn:E; [|discriminate].
    apply assoc_in in E. apply in_map_iff in E as [r [Hr Hin]]. apply in_map_iff. exists r. split; [|exact Hin].
    rewrite Hr. reflexivity.
Qed.

Lemma signature_algorithm_spec k kty crv :
  curve_ids k = Some (kty, crv) -> signature_algorithm k = spec_sig_alg kty crv.
Proof.
  intro H. destruct (sig_alg_table_is_rfc k (curve_ids_in k _ H)) as [kty' [crv' [H1 H2]]].
  rewrite H in H1. inversion H1; subst. exact H2.
Qed.

Lemma signature_algorithm_values k alg : signature_algorithm k = Some alg ->
  alg = alg_ES256 \/ alg = alg_ES384 \/ alg = alg_ES512 \/ alg = alg_EdDSA.
Proof.
  unfold signature_algorithm. destruct (first_arm _ _ _) as [a|]; [|discriminate].
  unfold iana_alg. repeat (destruct (String.eqb a _); [intro H; inversion H; auto|]). discriminate.
Qed.

(* ------------------------------------------------------------------------------------------ *)
(** * session messages *)

Lemma session_data_finalized enc : session_data (finalize_session_data enc) = Ok.
Proof. destruct enc as [ct|]; vm_compute; reflexivity. Qed.

Lemma session_data_new_request ct : session_data (new_request_session_data ct) = Ok.
Proof. vm_compute. reflexivity. Qed.

(* data xor status, for every status the code table has *)
Lemma session_data_general data st :
  (data <> None /\ st = None) \/ (data = None /\ exists n, st = Some n /\ In n (map snd gen_session_data_status)) ->
  session_data (compose_session_data data st) = Ok.
Proof.
  intros [[Hd Hs]|[Hd [n [Hs Hin]]]]; subst.
  - destruct data as [d|]; [|contradiction]. vm_compute. reflexivity.
  - cbn in Hin. destruct Hin as [<-|[<-|[<-|[]]]]; vm_compute; reflexivity.
Qed.

Lemma session_data_one_of data st : session_data (compose_session_data data st) = Ok ->
  (data = None -> st <> None) /\ (st = Some 10 \/ st = Some 11 -> data = None).
Proof.
  intro H. split.
  - intros -> ->. vm_compute in H. discriminate.
  - intros [->| ->]; destruct data; try reflexivity; vm_compute in H; discriminate.
Qed.

Lemma cose_key_ephemeral what x y : blen x = 32 -> blen y = 32 -> cose_key what (compose_ephemeral_key x y) = Ok.
Proof.
  intros Hx Hy. unfold compose_ephemeral_key, compose_cose_key_ec2, cose_key.
  change (int_cbor 1) with (CUInt 1).
  change (map fst [(CUInt 1, CUInt 2); (CNInt 0, CUInt 1); (CNInt 1, CBytes x); (CNInt 2, CBytes y)])
    with [CUInt 1; CNInt 0; CNInt 1; CNInt 2].
  unfold kty_label, crv_label, x_label, y_label. mg.
  change (keys_nodupb [CUInt 1; CNInt 0; CNInt 1; CNInt 2]) with true.
  change (forallb label_ok [CUInt 1; CNInt 0; CNInt 1; CNInt 2]) with true.
  change (int_val (CUInt 1)) with (Some 1%Z). change (ec2_coord_len 1) with (Some 32).
  rewrite Hx, Hy. reflexivity.
Qed.

Lemma session_establishment_ok key ct : embeddable key -> cose_key "EReaderKey" key = Ok ->
  session_establishment (compose_session_establishment key ct) = Ok.
Proof.
  intros He Hk. unfold session_establishment, compose_session_establishment.
  apply check_struct_build; [reflexivity|].
  repeat constructor; cbn [fld f_val f_req fst snd].
  - apply check_tag24_encode; assumption.
Qed.

(* ------------------------------------------------------------------------------------------ *)
(** * device request *)

(* what NonEmptyMap<String, NonEmptyMap<String, bool>> guarantees: no empty map, distinct keys *)
Definition namespaces_nonempty_distinct {A} (nss : list (bytes * list (bytes * A))) : Prop :=
  nss <> [] /\ NoDup (map fst nss) /\ Forall (fun n => snd n <> [] /\ NoDup (map fst (snd n))) nss.

Lemma data_elements_ok els : els <> [] -> NoDup (map fst els) -> data_elements (compose_data_elements els) = Ok.
Proof.
  intros Hne Hnd. unfold data_elements, compose_data_elements.
  apply (check_map_of_names "DataElements" true (boolean "IntentToRetain") CBool els); auto.
  apply Forall_forall. intros e _. reflexivity.
Qed.

Lemma request_namespaces_ok nss : namespaces_nonempty_distinct nss ->
  request_namespaces (compose_namespaces nss) = Ok.
Proof.
  intros [Hne [Hnd Hall]]. unfold request_namespaces, compose_namespaces.
  apply (check_map_of_names "NameSpaces" true data_elements compose_data_elements nss); auto.
  eapply Forall_impl; [|exact Hall]. intros n [H1 H2]. apply data_elements_ok; assumption.
Qed.

Lemma items_request_ok dt nss : namespaces_nonempty_distinct nss ->
  items_request (compose_items_request dt nss) = Ok.
Proof.
  intro H. unfold items_request, compose_items_request.
  apply check_struct_build; [reflexivity|].
  repeat constructor; cbn [fld f_val f_req fst snd].
  apply request_namespaces_ok. exact H.
Qed.

Lemma build_request_ok nss : namespaces_nonempty_distinct nss ->
  embeddable (compose_items_request gen_request_doc_type nss) ->
  device_request (build_request nss) = Ok.
Proof.
  intros Hn He. unfold device_request, build_request.
  apply check_struct_build; [reflexivity|].
  repeat constructor; cbn [fld f_val f_req fst snd].
  apply check_array_of_ok; [intros _; discriminate|].
  repeat constructor. unfold doc_request.
  apply check_struct_build; [reflexivity|].
  repeat constructor; cbn [fld f_val f_req fst snd].
  apply check_tag24_encode; [exact He|]. apply items_request_ok. exact Hn.
Qed.

(* well-formedness of the composed ItemsRequest from that of the names *)
Definition name_ok (b : bytes) : bool := wf_bytes b && utf8_valid b.

Lemma wf_data_elements els : Forall (fun e => name_ok (fst e) = true) els -> wf (compose_data_elements els) = true.
Proof.
  intro H. unfold compose_data_elements. cbn [wf]. induction H as [|e l He _ IH]; [reflexivity|].
  cbn [map forallb wf fst snd]. unfold name_ok in He. rewrite He, IH. reflexivity.
Qed.

Lemma wf_namespaces nss :
  Forall (fun n => name_ok (fst n) = true /\ Forall (fun e => name_ok (fst e) = true) (snd n)) nss ->
  wf (compose_namespaces nss) = true.
Proof.
  intro H. unfold compose_namespaces. cbn [wf]. induction H as [|n l [Hn He] _ IH]; [reflexivity|].
  cbn [map forallb fst snd]. rewrite IH, (wf_data_elements _ He). cbn [wf]. unfold name_ok in Hn. rewrite Hn. reflexivity.
Qed.

Lemma wf_items_request nss :
  Forall (fun n => name_ok (fst n) = true /\ Forall (fun e => name_ok (fst e) = true) (snd n)) nss ->
  wf (compose_items_request gen_request_doc_type nss) = true.
Proof.
  intro H. unfold compose_items_request, mk_map. cbn [build]. cbn [wf forallb].
  rewrite (wf_namespaces _ H). vm_compute. reflexivity.
Qed.

(* ------------------------------------------------------------------------------------------ *)
(** * device response *)

Definition is_sig_alg (alg : Z) : Prop :=
  alg = alg_ES256 \/ alg = alg_ES384 \/ alg = alg_ES512 \/ alg = alg_EdDSA.

Lemma device_signature_ok alg sg : is_sig_alg alg -> device_signature (compose_device_signature alg sg) = Ok.
Proof. intros [->|[->|[->| ->]]]; vm_compute; reflexivity. Qed.

Lemma device_auth_ok alg sg : is_sig_alg alg -> device_auth (compose_device_auth_signature alg sg) = Ok.
Proof.
  intro H. unfold device_auth, compose_device_auth_signature. apply andv_ok. split; [|reflexivity].
  change (CMap [(ctext "deviceSignature", compose_device_signature alg sg)])
    with (mk_map [(ctext "deviceSignature", Some (compose_device_signature alg sg)); (ctext "deviceMac", None)]).
  apply check_struct_build; [reflexivity|].
  repeat constructor; cbn [fld f_val f_req fst snd]. apply device_signature_ok. exact H.
Qed.

Lemma device_signed_ok alg sg : is_sig_alg alg -> device_signed (compose_device_signed alg sg) = Ok.
Proof.
  intro H. unfold device_signed, compose_device_signed.
  apply check_struct_build; [reflexivity|].
  repeat constructor; cbn [fld f_val f_req fst snd];
    first [apply device_auth_ok; exact H | vm_compute; reflexivity].
Qed.

(* exactly one of deviceSignature and deviceMac: the composed deviceAuth has the first and not the second *)
Lemma device_auth_one_of alg sg :
  match compose_device_auth_signature alg sg with
  | CMap kvs => map_get (ctext "deviceSignature") kvs <> None /\ map_get (ctext "deviceMac") kvs = None /\ length kvs = 1%nat
  | _ => False
  end.
Proof. unfold compose_device_auth_signature. mg. repeat split. discriminate. Qed.

(* and the validator refuses both, neither, or anything else *)
Lemma device_auth_validator_one_of v : device_auth v = Ok ->
  exists k x, v = CMap [(k, x)] /\ (k = ctext "deviceSignature" \/ k = ctext "deviceMac").
Proof.
  unfold device_auth. intro H. apply andv_ok in H as [H1 H2].
  destruct v as [| | | | |kvs| | | |]; try discriminate.
  destruct kvs as [|[k x] [|]]; try discriminate.
  exists k, x. split; [reflexivity|].
  unfold check_struct in H1. apply andv_ok in H1 as [_ H1]. apply andv_ok in H1 as [H1 _].
  apply req_ok in H1. cbn [map fst forallb] in H1. rewrite andb_true_r in H1.
  unfold closed in H1. rewrite orb_false_r in H1. apply mem_key_in in H1.
  cbn [map f_key fld] in H1. destruct H1 as [<-|[<-|[]]]; auto.
Qed.

Lemma device_signed_sig_alg_composed alg sg : is_sig_alg alg ->
  device_signed_sig_alg (compose_device_signed alg sg) = Some (Some alg).
Proof. intros [->|[->|[->| ->]]]; vm_compute; reflexivity. Qed.

Definition errors_nonempty_distinct := @namespaces_nonempty_distinct Z.

Lemma errors_ok errs : (errs = [] \/ errors_nonempty_distinct errs) ->
  match compose_errors errs with Some v => errors v = Ok | None => True end.
Proof.
  intros [->|[Hne [Hnd Hall]]]; [exact I|].
  unfold compose_errors, opt_map. destruct errs as [|e0 errs0] eqn:E; [exact I|]. rewrite <- E in *.
  match goal with |- match (match ?l with _ => _ end) with _ => _ end => replace (match l with [] => None | _ :: _ => Some (CMap l) end) with (Some (CMap l)) by (subst errs; reflexivity) end.
  unfold errors.
  apply (check_map_of_names "Errors" true (check_map_of "ErrorItems" true is_tstr error_code)
           (fun els => CMap (map (fun e => (CText (fst e), int_cbor (snd e))) els)) errs); auto.
  eapply Forall_impl; [|exact Hall]. intros n [H1 H2].
  apply (check_map_of_names "ErrorItems" true error_code int_cbor (snd n)); auto.
  apply Forall_forall. intros e _. unfold error_code, int, int_cbor. destruct (0 <=? snd e)%Z; reflexivity.
Qed.

Lemma document_ok d v kc :
  compose_document d = Some v ->
  issuer_signed (d_issuer_signed d) = Ok ->
  curve_ids (d_key d) = Some kc ->
  issuer_signed_key_curve (d_issuer_signed d) = Some kc ->
  (d_errors d = [] \/ errors_nonempty_distinct (d_errors d)) ->
  document v = Ok.
Proof.
  unfold compose_document. destruct (signature_algorithm (d_key d)) as [alg|] eqn:Ealg; [|discriminate].
  intros Hv Hi Hk Hik He. inversion Hv; subst v; clear Hv.
  assert (Halg : is_sig_alg alg) by (eapply signature_algorithm_values; exact Ealg).
  pose proof (errors_ok _ He) as Herr.
  set (es := [(ctext "docType", Some (CText (d_doc_type d))); (ctext "issuerSigned", Some (d_issuer_signed d));
              (ctext "deviceSigned", Some (compose_device_signed alg (d_signature d)));
              (ctext "errors", compose_errors (d_errors d))]).
  assert (Hnd : keys_nodupb (map fst es) = true) by reflexivity.
  unfold document. apply andv_ok. split.
  - apply check_struct_build; [exact Hnd|].
    repeat constructor; cbn [fld f_val f_req fst snd]; auto.
    + apply device_signed_ok. exact Halg.
    + destruct (compose_errors (d_errors d)); [exact Herr|reflexivity].
  - unfold mk_map. fold es.
    rewrite (map_get_mk es (ctext "issuerSigned") (Some (d_issuer_signed d)) Hnd) by (right; left; reflexivity).
    rewrite (map_get_mk es (ctext "deviceSigned") (Some (compose_device_signed alg (d_signature d))) Hnd)
      by (right; right; left; reflexivity).
    unfold sig_alg_matches_key. rewrite (device_signed_sig_alg_composed _ _ Halg), Hik.
    destruct kc as [kty crv]. rewrite <- (signature_algorithm_spec _ _ _ Hk), Ealg.
    apply req_ok. apply Z.eqb_refl.
Qed.

Lemma document_error_ok dt : document_error (compose_document_error dt) = Ok.
Proof. reflexivity. Qed.

Lemma finalize_response_ok docs errs st :
  Forall (fun v => document v = Ok) docs ->
  Forall (fun v => document_error v = Ok) errs ->
  In st response_status_codes ->
  (st <> 0 -> docs = []) ->
  device_response (finalize_response docs errs st) = Ok.
Proof.
  intros Hd He Hst Hnd0.
  set (es := [(ctext "version", Some (CText gen_device_response_version)); (ctext "documents", opt_array docs);
              (ctext "documentErrors", opt_array errs); (ctext "status", Some (CUInt st))]).
  assert (Hnd : keys_nodupb (map fst es) = true) by reflexivity.
  unfold device_response, finalize_response. fold es. apply andv_ok. split.
  - apply check_struct_build; [exact Hnd|].
    repeat constructor; cbn [fld f_val f_req fst snd].
    + destruct docs as [|x l]; [reflexivity|]. cbn [opt_array].
      apply check_array_of_ok; [intros _; discriminate|exact Hd].
    + destruct errs as [|x l]; [reflexivity|]. cbn [opt_array].
      apply check_array_of_ok; [intros _; discriminate|exact He].
    + unfold uint_in. apply req_ok. apply existsb_exists. exists st. split; [exact Hst|apply N.eqb_refl].
  - unfold mk_map.
    rewrite (map_get_mk es (ctext "status") (Some (CUInt st)) Hnd) by (do 3 right; left; reflexivity).
    rewrite (map_get_mk es (ctext "documents") (opt_array docs) Hnd) by (right; left; reflexivity).
    destruct (N.eq_dec st 0) as [->|Hne]; [reflexivity|].
    rewrite (Hnd0 Hne). cbn [opt_array]. destruct st; reflexivity.
Qed.

Lemma ok_response_ok docs error_types :
  Forall (fun v => document v = Ok) docs -> device_response (ok_response docs error_types) = Ok.
Proof.
  intro Hd. unfold ok_response. apply finalize_response_ok; auto.
  - apply Forall_map. apply Forall_forall. intros dt _. apply document_error_ok.
  - left. reflexivity.
  - intro H. exfalso. apply H. reflexivity.
Qed.

Lemma error_response_ok name : In name (map fst gen_device_response_status) ->
  device_response (error_response name) = Ok.
Proof. cbn. intros [<-|[<-|[<-|[<-|[]]]]]; vm_compute; reflexivity. Qed.

Lemma error_response_no_documents name :
  match error_response name with
  | CMap kvs => map_get (ctext "documents") kvs = None /\ map_get (ctext "documentErrors") kvs = None
  | _ => False
  end.
Proof. unfold error_response, finalize_response, mk_map. cbn [opt_array build]. mg. split; reflexivity. Qed.

(* ------------------------------------------------------------------------------------------ *)
(** * device engagement *)

Lemma bstr_len_ok what n b : blen b = n -> bstr_len what n (CBytes b) = Ok.
Proof. intro H. unfold bstr_len. rewrite H, N.eqb_refl. reflexivity. Qed.

(* Uuid is 16 bytes *)
Definition ble_uuids_16 (o : ble_opts) : Prop :=
  match ble_central_uuid o with Some u => blen u = 16 | None => True end /\
  match ble_peripheral o with Some (u, _) => blen u = 16 | None => True end.

Definition field_holds (kvs : list (cbor * cbor)) (f : field) : Prop :=
  match map_get (f_key f) kvs with Some x => f_val f x = Ok | None => f_req f = false end.

Lemma check_struct_direct what extra fields kvs :
  keys_nodupb (map fst kvs) = true ->
  forallb (fun k => mem_key k (map f_key fields) || extra k) (map fst kvs) = true ->
  Forall (field_holds kvs) fields ->
  check_struct what extra fields (CMap kvs) = Ok.
Proof.
  intros H1 H2 H3. unfold check_struct. rewrite H1, H2. cbn [req andv]. clear H1 H2.
  induction H3 as [|f l Hf _ IH]; [reflexivity|]. cbn [check_fields]. apply andv_ok. split; [|exact IH].
  unfold field_holds in Hf. destruct (map_get (f_key f) kvs); [exact Hf|]. rewrite Hf. reflexivity.
Qed.

Ltac fields_direct :=
  apply check_struct_direct; [reflexivity|reflexivity|];
  repeat (apply Forall_cons || apply Forall_nil); unfold field_holds; cbn [ifld fld f_key f_val f_req]; mg;
  try reflexivity.

Lemma ble_options_ok o : ble_uuids_16 o -> ble_options (compose_ble o) = Ok.
Proof.
  destruct o as [[cu|] [[pu [addr|]]|]]; unfold ble_uuids_16, compose_ble; cbn [ble_central_uuid ble_peripheral app];
    intros [Hc Hp]; unfold ble_options; apply andv_ok; (split; [|mg; reflexivity]);
    fields_direct; apply bstr_len_ok; assumption.
Qed.

Lemma wifi_options_ok o : wifi_options (compose_wifi o) = Ok.
Proof.
  destruct o as [[p|] [c|] [n|] [b|]]; unfold compose_wifi, mk_map; cbn [option_map build wifi_pass_phrase wifi_operating_class wifi_channel_number wifi_band_info];
    unfold wifi_options; fields_direct.
Qed.

(* ISO range of the NFC lengths *)
Definition nfc_iso_range (o : nfc_opts) : Prop :=
  255 <= nfc_max_command o <= 65535 /\ 256 <= nfc_max_response o <= 65536.

Lemma uint_range_ok what lo hi n : lo <= n <= hi -> uint_range what lo hi (CUInt n) = Ok.
Proof.
  intros [H1 H2]. unfold uint_range. apply req_ok. apply andb_true_iff. split; apply N.leb_le; assumption.
Qed.

Lemma nfc_options_ok o : nfc_iso_range o -> nfc_options (compose_nfc o) = Ok.
Proof.
  intros [H1 H2]. unfold nfc_options, compose_nfc. fields_direct; apply uint_range_ok; assumption.
Qed.

(* the domain the Rust types guarantee is the ISO range *)
Lemma nfc_rust_domain_iso o : nfc_rust_domain o = true -> nfc_iso_range o.
Proof.
  unfold nfc_rust_domain, nfc_iso_range. intro H.
  apply andb_true_iff in H as [H H4]. apply andb_true_iff in H as [H H3]. apply andb_true_iff in H as [H1 H2].
  apply N.leb_le in H1, H3, H4. apply N.ltb_lt in H2. lia.
Qed.

Definition method_ok (m : retrieval_method) : Prop :=
  match m with
  | DrmWifi _ => True
  | DrmBle o => ble_uuids_16 o
  | DrmNfc o => nfc_iso_range o
  end.

Lemma retrieval_method_ok m : method_ok m -> device_retrieval_method (compose_retrieval_method m) = Ok.
Proof.
  destruct m as [o|o|o]; cbn [method_ok]; intro H; unfold compose_retrieval_method, device_retrieval_method.
  - change (transport_type (DrmWifi o)) with 3. cbn [req andv N.eqb]. apply wifi_options_ok.
  - change (transport_type (DrmBle o)) with 2. apply ble_options_ok. exact H.
  - change (transport_type (DrmNfc o)) with 1. apply nfc_options_ok. exact H.
Qed.

Lemma server_methods_ok w o : server_retrieval_methods (compose_server_methods w o) = Ok.
Proof.
  unfold server_retrieval_methods, compose_server_methods.
  apply check_struct_build; [reflexivity|].
  repeat constructor; cbn [fld f_val f_req fst snd option_map].
  - destruct w as [[[v a] b]|]; reflexivity.
  - destruct o as [[[v a] b]|]; reflexivity.
Qed.

Lemma engagement_ok key methods server :
  embeddable key -> cose_key "EDeviceKey" key = Ok ->
  match methods with Some ms => ms <> [] /\ Forall method_ok ms | None => True end ->
  device_engagement (compose_engagement key methods server) = Ok.
Proof.
  intros He Hk Hm. unfold device_engagement, compose_engagement.
  apply check_struct_build; [reflexivity|].
  repeat constructor; cbn [ifld f_val f_req fst snd].
  - unfold security. apply andv_ok. split; [reflexivity|]. apply check_tag24_encode; assumption.
  - destruct methods as [ms|]; cbn [option_map]; [|reflexivity]. destruct Hm as [Hne Hall].
    apply check_array_of_ok; [intros _ E; apply map_eq_nil in E; contradiction|].
    apply Forall_map. eapply Forall_impl; [|exact Hall]. intros m. apply retrieval_method_ok.
  - destruct server as [[w o]|]; cbn [option_map fst snd]; [|reflexivity]. apply server_methods_ok.
Qed.

(* ------------------------------------------------------------------------------------------ *)
(** * from values to the emitted bytes *)

Lemma validate_bytes_encode k v : embeddable v -> validate_bytes k (encode v) = validator k v.
Proof. intros [Hwf Hlen]. unfold validate_bytes. rewrite (decode_all_encode_short v Hwf Hlen). reflexivity. Qed.
