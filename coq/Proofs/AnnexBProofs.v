(* C12: the executable specification agrees with the Prop-level one (Spec/AnnexB.v). *)
From Isomdl Require Import Lib.Bytes Model.X509 Spec.AnnexB.
Open Scope N_scope.
Set Warnings "-unused-intro-pattern".

(* ---------- equality tests ---------- *)

Lemma oid_eqb_eq a b : oid_eqb a b = true <-> a = b.
Proof. apply bytes_eqb_eq. Qed.

Lemma oid_eqb_refl a : oid_eqb a a = true.
Proof. apply bytes_eqb_refl. Qed.

Lemma oid_eqb_neq a b : oid_eqb a b = false <-> a <> b.
Proof.
  split.
  - intros H E. apply oid_eqb_eq in E. congruence.
  - intro H. destruct (oid_eqb a b) eqn:E; [apply oid_eqb_eq in E; contradiction | reflexivity].
Qed.

Lemma oid_eqb_sym a b : oid_eqb a b = oid_eqb b a.
Proof.
  destruct (oid_eqb a b) eqn:E; symmetry.
  - apply oid_eqb_eq in E. subst. apply oid_eqb_refl.
  - apply oid_eqb_neq. apply oid_eqb_neq in E. congruence.
Qed.

Lemma list_eqb_eq {A} (eqb : A -> A -> bool) :
  (forall x y, eqb x y = true <-> x = y) -> forall a b, list_eqb eqb a b = true <-> a = b.
Proof.
  intros H a. induction a as [|x a IH]; intros [|y b]; cbn [list_eqb]; split; intro E;
    try reflexivity; try discriminate.
  - apply andb_true_iff in E as [E1 E2]. apply H in E1. apply IH in E2. congruence.
  - inversion E; subst. apply andb_true_iff. split; [apply H | apply IH]; reflexivity.
Qed.

Lemma attr_eqb_eq (x y : attr) : attr_eqb x y = true <-> x = y.
Proof.
  unfold attr_eqb. destruct x as [o v], y as [o' v']. cbn [fst snd]. rewrite andb_true_iff, oid_eqb_eq, bytes_eqb_eq.
  split; [intros [-> ->]; reflexivity | intro E; inversion E; auto].
Qed.

Lemma name_eqb_eq a b : name_eqb a b = true <-> a = b.
Proof. unfold name_eqb. apply list_eqb_eq. apply list_eqb_eq. apply attr_eqb_eq. Qed.

Lemma purpose_eqb_eq a b : purpose_eqb a b = true <-> a = b.
Proof. destruct a, b; cbn; split; intro; try reflexivity; discriminate. Qed.

Lemma oid_in_iff o l : oid_in o l = true <-> In o l.
Proof.
  unfold oid_in. rewrite existsb_exists. split.
  - intros [x [Hx E]]. apply oid_eqb_eq in E. subst. exact Hx.
  - intro H. exists o. split; [exact H | apply oid_eqb_refl].
Qed.

Lemma bool_eq_iff (a b : bool) : (a = true <-> b = true) -> a = b.
Proof.
  destruct a, b; intros [H1 H2]; try reflexivity.
  - symmetry. apply H1. reflexivity.
  - apply H2. reflexivity.
Qed.

Section Agreement.
Variable ski_of_key : bytes -> bytes.
Variable verifies : cert -> cert -> bool.

(* ---------- required values ---------- *)

Lemma ski_matches_key_b_iff c d : ski_matches_key_b ski_of_key c d = true <-> ski_matches_key ski_of_key c d.
Proof.
  unfold ski_matches_key_b, ski_matches_key. destruct d; split; intro H; try discriminate.
  - apply bytes_eqb_eq in H. congruence.
  - inversion H. apply bytes_eqb_refl.
Qed.

Lemma ku_only_b_iff bits d : ku_only_b bits d = true <-> ku_only bits d.
Proof.
  unfold ku_only_b, ku_only. destruct d; split; intro H; try discriminate.
  - apply N.eqb_eq in H. congruence.
  - inversion H. apply N.eqb_refl.
Qed.

Lemma eku_only_b_iff o d : eku_only_b o d = true <-> eku_only o d.
Proof.
  unfold eku_only_b, eku_only. split.
  - destruct d as [| oids | | | | | | |]; try discriminate. destruct oids as [|x r]; [discriminate|].
    intro H. exists (x :: r). split; [reflexivity|]. split; [discriminate|].
    intros y Hy. rewrite forallb_forall in H. apply oid_eqb_eq. apply H. exact Hy.
  - intros [oids [-> [Hne Hall]]]. destruct oids as [|x r]; [contradiction|].
    apply forallb_forall. intros y Hy. apply oid_eqb_eq. apply Hall. exact Hy.
Qed.

Lemma bc_ca_pathlen0_b_iff d : bc_ca_pathlen0_b d = true <-> bc_ca_pathlen0 d.
Proof.
  unfold bc_ca_pathlen0_b, bc_ca_pathlen0. split.
  - destruct d as [| | ca pl | | | | | |]; try discriminate. destruct ca; [|discriminate]. destruct pl as [n|]; [|discriminate].
    intro H. apply N.eqb_eq in H. subst. reflexivity.
  - intros ->. reflexivity.
Qed.

Lemma uri_point_b_iff p : uri_point_b p = true <-> uri_point p.
Proof.
  unfold uri_point_b, uri_point. rewrite !andb_true_iff, !negb_true_iff. split.
  - intros [[H1 H2] H3]. split; [exact H1|]. split; [exact H2|].
    destruct (dp_name_of p) as [|names|]; try discriminate. exists names. split; [reflexivity|].
    apply existsb_exists in H3 as [g [Hg E]]. destruct g; try discriminate. exact Hg.
  - intros [H1 [H2 [names [E Hin]]]]. split; [split; assumption|]. rewrite E.
    apply existsb_exists. exists GnUri. split; [exact Hin | reflexivity].
Qed.

Lemma crl_uri_b_iff d : crl_uri_b d = true <-> crl_uri d.
Proof.
  unfold crl_uri_b, crl_uri. split.
  - destruct d as [| | | pts | | | | |]; try discriminate. destruct pts as [|p r]; [discriminate|].
    intro H. exists (p :: r). split; [reflexivity|]. split; [discriminate|].
    intros q Hq. rewrite forallb_forall in H. apply uri_point_b_iff. apply H. exact Hq.
  - intros [pts [-> [Hne Hall]]]. destruct pts as [|p r]; [contradiction|].
    apply forallb_forall. intros q Hq. apply uri_point_b_iff. apply Hall. exact Hq.
Qed.

Lemma ian_contact_b_iff d : ian_contact_b d = true <-> ian_contact d.
Proof.
  unfold ian_contact_b, ian_contact. split.
  - destruct d as [| | | | names | | | |]; try discriminate. destruct names as [|g r]; [discriminate|].
    intro H. exists (g :: r). split; [reflexivity|]. split; [discriminate|].
    intros h Hh. rewrite forallb_forall in H. specialize (H h Hh). destruct h; auto; discriminate.
  - intros [names [-> [Hne Hall]]]. destruct names as [|g r]; [contradiction|].
    apply forallb_forall. intros h Hh. destruct (Hall h Hh) as [-> | ->]; reflexivity.
Qed.

Lemma carries_b_iff c o (Pb : decoded -> bool) (P : decoded -> Prop) :
  (forall d, Pb d = true <-> P d) -> (carries_b c o Pb = true <-> carries c o P).
Proof.
  intro H. unfold carries_b, carries. destruct (exts_with c o) as [|e [|e' r]]; split; intro E; try discriminate.
  - destruct E as [e [E _]]. discriminate.
  - exists e. split; [reflexivity | apply H; exact E].
  - destruct E as [e0 [E0 HP]]. inversion E0; subst. apply H. exact HP.
  - destruct E as [e0 [E0 _]]. discriminate.
Qed.

(* the two requirement tables are the same table *)
Definition req_agree (p : oid * (decoded -> Prop)) (pb : oid * (decoded -> bool)) : Prop :=
  fst p = fst pb /\ forall d, snd pb d = true <-> snd p d.

Lemma requirements_agree r c : Forall2 req_agree (requirements ski_of_key r c) (requirements_b ski_of_key r c).
Proof.
  destruct r; cbn [requirements requirements_b];
    repeat (apply Forall2_cons; [split; [reflexivity | cbn [fst snd]; intro d;
      first [ apply ski_matches_key_b_iff | apply ku_only_b_iff | apply eku_only_b_iff
            | apply bc_ca_pathlen0_b_iff | apply crl_uri_b_iff | apply ian_contact_b_iff ]] |]);
    apply Forall2_nil.
Qed.

Lemma requirements_oids r c : map fst (requirements_b ski_of_key r c) = map fst (requirements ski_of_key r c).
Proof. destruct r; reflexivity. Qed.

Lemma forall2_carries c l lb :
  Forall2 req_agree l lb ->
  (forallb (fun op : oid * (decoded -> bool) => carries_b c (fst op) (snd op)) lb = true <->
   forall o P, In (o, P) l -> carries c o P).
Proof.
  induction 1 as [|p pb l lb [Ho HP] _ IH]; cbn [forallb].
  - split; [intros _ o P [] | reflexivity].
  - rewrite andb_true_iff, IH. destruct p as [o P], pb as [ob Pb]. cbn [fst snd] in *. subst ob.
    rewrite (carries_b_iff c o Pb P HP). split.
    + intros [H1 H2] o' P' [E | Hin]; [inversion E; subst; exact H1 | apply H2; exact Hin].
    + intro H. split; [apply H; left; reflexivity | intros o' P' Hin; apply H; right; exact Hin].
Qed.

Lemma profile_b_iff r c : profile_b ski_of_key r c = true <-> profile ski_of_key r c.
Proof.
  unfold profile_b, profile. rewrite !andb_true_iff, (forall2_carries c _ _ (requirements_agree r c)), !forallb_forall.
  rewrite requirements_oids.
  split.
  - intros [[H1 H2] H3]. split; [exact H1|]. split.
    + intros e He Hin. specialize (H2 e He). apply negb_true_iff in H2. apply oid_in_iff in Hin. congruence.
    + intros e He Hc. specialize (H3 e He). rewrite Hc in H3. cbn in H3. apply oid_in_iff. exact H3.
  - intros [H1 [H2 H3]]. split; [split; [exact H1|]|].
    + intros e He. apply negb_true_iff. destruct (oid_in (e_oid e) prohibited_extensions) eqn:E; [|reflexivity].
      apply oid_in_iff in E. exfalso. exact (H2 e He E).
    + intros e He. destruct (e_crit e) eqn:Hc; [|reflexivity]. cbn. apply oid_in_iff. apply H3; assumption.
Qed.

Lemma within_validity_b_iff now c : within_validity_b now c = true <-> within_validity now c.
Proof. unfold within_validity_b, within_validity. rewrite andb_true_iff, !Z.leb_le. reflexivity. Qed.

Lemma key_ids_match_b_iff leaf a : key_ids_match_b leaf a = true <-> key_ids_match leaf a.
Proof.
  unfold key_ids_match_b, key_ids_match. rewrite existsb_exists. split.
  - intros [e_l [Hl H]]. apply andb_true_iff in H as [Ho H]. apply oid_eqb_eq in Ho.
    destruct (e_val e_l) as [| | | | | | [id|] | |] eqn:Ev; try discriminate.
    apply existsb_exists in H as [e_a [Ha H]]. apply andb_true_iff in H as [Ho' H]. apply oid_eqb_eq in Ho'.
    destruct (e_val e_a) as [| | | | | id' | | |] eqn:Ev'; try discriminate. apply bytes_eqb_eq in H. subst id'.
    exists id, e_l, e_a. repeat split; assumption.
  - intros [id [e_l [e_a [Hl [Ho [Ev [Ha [Ho' Ev']]]]]]]]. exists e_l. split; [exact Hl|].
    rewrite Ho, oid_eqb_refl, Ev. cbn [andb]. apply existsb_exists. exists e_a. split; [exact Ha|].
    rewrite Ho', oid_eqb_refl, Ev'. cbn [andb]. apply bytes_eqb_refl.
Qed.

Lemma anchors_b_iff now leaf a : anchors_b verifies now leaf a = true <-> anchors verifies now leaf a.
Proof.
  unfold anchors_b, anchors. rewrite !andb_true_iff, name_eqb_eq, key_ids_match_b_iff, within_validity_b_iff. tauto.
Qed.

Lemma same_subject_attribute_b_iff o leaf a : same_subject_attribute_b o leaf a = true <-> same_subject_attribute o leaf a.
Proof.
  unfold same_subject_attribute_b, same_subject_attribute.
  destruct (subject_attribute_values leaf o) as [|v [|v' r]]; destruct (subject_attribute_values a o) as [|w [|w' r']];
    split; intro H; try discriminate; try (destruct H as [x [H1 H2]]; discriminate).
  - apply bytes_eqb_eq in H. subst. exists w. split; reflexivity.
  - destruct H as [x [H1 H2]]. inversion H1; inversion H2; subst. apply bytes_eqb_refl.
Qed.

Lemma no_subject_attribute_b_iff o c : no_subject_attribute_b o c = true <-> no_subject_attribute o c.
Proof. unfold no_subject_attribute_b, no_subject_attribute. destruct (subject_attribute_values c o); cbn; split; intro; try reflexivity; discriminate. Qed.

Lemma issuer_chain_rules_b_iff rs leaf a :
  issuer_chain_rules_b ski_of_key rs leaf a = true <-> issuer_chain_rules ski_of_key rs leaf a.
Proof.
  destruct rs; cbn [issuer_chain_rules_b issuer_chain_rules].
  - rewrite !andb_true_iff, orb_true_iff, andb_true_iff, profile_b_iff, !same_subject_attribute_b_iff, !no_subject_attribute_b_iff. tauto.
  - rewrite !andb_true_iff, profile_b_iff, !same_subject_attribute_b_iff. tauto.
  - tauto.
Qed.

Theorem conformant_b_iff rs now leaf reg :
  conformant_b ski_of_key verifies rs now leaf reg = true <-> conformant ski_of_key verifies rs now leaf reg.
Proof.
  unfold conformant_b, conformant. rewrite !andb_true_iff, within_validity_b_iff, profile_b_iff, existsb_exists.
  split.
  - intros [[H1 H2] [a [Ha H]]]. split; [exact H1|]. split; [exact H2|]. exists a.
    rewrite !andb_true_iff, purpose_eqb_eq, anchors_b_iff, issuer_chain_rules_b_iff in H. tauto.
  - intros [H1 [H2 [a [Ha H]]]]. split; [split; assumption|]. exists a. split; [exact Ha|].
    rewrite !andb_true_iff, purpose_eqb_eq, anchors_b_iff, issuer_chain_rules_b_iff. tauto.
Qed.

Lemma unambiguous_anchor_b_iff rs now leaf reg :
  unambiguous_anchor_b verifies rs now leaf reg = true <-> unambiguous_anchor verifies rs now leaf reg.
Proof.
  unfold unambiguous_anchor_b, unambiguous_anchor.
  destruct rs; try tauto; destruct (anchoring_entries verifies _ now leaf reg) as [|a [|b r]]; cbn [length];
    split; intro H; try reflexivity; try discriminate; try lia.
Qed.

End Agreement.

(* ---------- the domain restrictions ---------- *)

Lemma nodup_b_iff l : nodup_b l = true <-> NoDup l.
Proof.
  induction l as [|x r IH]; cbn [nodup_b].
  - split; [constructor | reflexivity].
  - rewrite andb_true_iff, negb_true_iff, IH. split.
    + intros [H1 H2]. constructor; [|exact H2]. intro Hin. apply oid_in_iff in Hin. congruence.
    + intro H. inversion H; subst. split; [|assumption].
      destruct (oid_in x r) eqn:E; [apply oid_in_iff in E; contradiction | reflexivity].
Qed.

Lemma rfc5280_wf_b_iff c : rfc5280_wf_b c = true <-> rfc5280_wf c.
Proof. unfold rfc5280_wf_b, rfc5280_wf. apply nodup_b_iff. Qed.

Lemma inputs_wf_b_iff rs leaf reg : inputs_wf_b rs leaf reg = true <-> inputs_wf rs leaf reg.
Proof.
  unfold inputs_wf_b, inputs_wf. rewrite andb_true_iff, rfc5280_wf_b_iff.
  assert (H : forallb (fun a => negb (purpose_eqb (a_purpose a) Iaca) || rfc5280_wf_b (a_cert a)) reg = true <->
              forall a, In a reg -> a_purpose a = Iaca -> rfc5280_wf (a_cert a)).
  { rewrite forallb_forall. split.
    - intros H a Ha Hp. specialize (H a Ha). rewrite Hp in H. cbn in H. apply rfc5280_wf_b_iff. exact H.
    - intros H a Ha. destruct (purpose_eqb (a_purpose a) Iaca) eqn:E; [|reflexivity]. cbn.
      apply rfc5280_wf_b_iff. apply H; [exact Ha | apply purpose_eqb_eq; exact E]. }
  destruct rs; rewrite ?H; tauto.
Qed.

