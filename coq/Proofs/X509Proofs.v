(* C12: proofs about Model/X509.v against Spec/AnnexB.v. *)
From Isomdl Require Import Lib.Bytes Gen.X509Consts Model.X509 Spec.AnnexB Proofs.AnnexBProofs.
Open Scope N_scope.
Set Warnings "-unused-intro-pattern".

(* ================================================================================================
   A. the literals copied from the source equal the Annex B / RFC 5280 values
   ================================================================================================ *)

Definition constants_iso : Prop :=
  eku_document_signer = eku_mdl_ds /\
  eku_mdoc_reader = eku_mdl_reader_auth /\
  ku_document_signer = ku_digital_signature_only /\
  ku_mdoc_reader = ku_digital_signature_only /\
  ku_iaca = ku_key_cert_sign_and_crl_sign /\
  oid_validator_ski = oid_subject_key_identifier /\
  oid_validator_eku = oid_ext_key_usage /\
  oid_validator_ku = oid_key_usage /\
  oid_validator_bc = oid_basic_constraints /\
  oid_validator_crl = oid_crl_distribution_points /\
  oid_validator_ian = oid_issuer_alt_name /\
  disallowed_extensions = prohibited_extensions /\
  oid_kic_issuer_ext = oid_subject_key_identifier /\
  oid_kic_subject_ext = oid_authority_key_identifier /\
  oid_country_name = at_country_name /\
  oid_state_or_province_name = at_state_or_province_name /\
  oid_mdl_has_rdn = at_state_or_province_name /\
  validators_document_signer = [GSki; GEku eku_mdl_ds; GKu ku_digital_signature_only; GCrl; GIan] /\
  validators_mdoc_reader = [GSki; GEku eku_mdl_reader_auth; GKu ku_digital_signature_only; GCrl; GIan] /\
  validators_iaca = [GSki; GKu ku_key_cert_sign_and_crl_sign; GBc; GCrl; GIan].

Lemma constants_iso_holds : constants_iso.
Proof. unfold constants_iso. repeat split; vm_compute; reflexivity. Qed.

Lemma gen_disallowed : disallowed_extensions = prohibited_extensions.
Proof. apply constants_iso_holds. Qed.
Lemma gen_kic_issuer : oid_kic_issuer_ext = oid_subject_key_identifier.
Proof. apply constants_iso_holds. Qed.
Lemma gen_kic_subject : oid_kic_subject_ext = oid_authority_key_identifier.
Proof. apply constants_iso_holds. Qed.
Lemma gen_country : oid_country_name = at_country_name.
Proof. apply constants_iso_holds. Qed.
Lemma gen_state : oid_state_or_province_name = at_state_or_province_name.
Proof. apply constants_iso_holds. Qed.
Lemma gen_has_rdn : oid_mdl_has_rdn = at_state_or_province_name.
Proof. apply constants_iso_holds. Qed.
Lemma gen_validators_ds : validators_document_signer = [GSki; GEku eku_mdl_ds; GKu ku_digital_signature_only; GCrl; GIan].
Proof. apply constants_iso_holds. Qed.
Lemma gen_validators_reader : validators_mdoc_reader = [GSki; GEku eku_mdl_reader_auth; GKu ku_digital_signature_only; GCrl; GIan].
Proof. apply constants_iso_holds. Qed.
Lemma gen_validators_iaca : validators_iaca = [GSki; GKu ku_key_cert_sign_and_crl_sign; GBc; GCrl; GIan].
Proof. apply constants_iso_holds. Qed.
Lemma gen_v_oid v :
  v_oid v = match v with
            | GSki => oid_subject_key_identifier | GEku _ => oid_ext_key_usage | GKu _ => oid_key_usage
            | GBc => oid_basic_constraints | GCrl => oid_crl_distribution_points | GIan => oid_issuer_alt_name
            end.
Proof. destruct v; apply constants_iso_holds. Qed.

(* ================================================================================================
   generic list facts
   ================================================================================================ *)

Lemma flat_map_nil_iff {A B} (f : A -> list B) l : flat_map f l = [] <-> forall x, In x l -> f x = [].
Proof.
  induction l as [|a l IH]; cbn [flat_map].
  - split; [intros _ x [] | reflexivity].
  - split.
    + intro H. apply app_eq_nil in H as [H1 H2]. intros x [<- | Hx]; [exact H1 | apply IH; assumption].
    + intro H. rewrite (H a (or_introl eq_refl)). cbn. apply IH. intros x Hx. apply H. right. exact Hx.
Qed.

Lemma map_nil_iff {A B} (f : A -> B) l : map f l = [] <-> l = [].
Proof. destruct l; cbn; split; intro; try reflexivity; discriminate. Qed.

Lemma filter_nil_iff {A} (p : A -> bool) l : filter p l = [] <-> forall x, In x l -> p x = false.
Proof.
  induction l as [|a l IH]; cbn [filter].
  - split; [intros _ x [] | reflexivity].
  - destruct (p a) eqn:E; split.
    + discriminate.
    + intro H. rewrite (H a (or_introl eq_refl)) in E. discriminate.
    + intros H x [<- | Hx]; [exact E | apply IH; assumption].
    + intro H. apply IH. intros x Hx. apply H. right. exact Hx.
Qed.

Lemma app_nil_iff {A} (a b : list A) : a ++ b = [] <-> a = [] /\ b = [].
Proof. split; [apply app_eq_nil | intros [-> ->]; reflexivity]. Qed.

Lemma NoDup_map_inj {A B} (f : A -> B) l x y : NoDup (map f l) -> In x l -> In y l -> f x = f y -> x = y.
Proof.
  induction l as [|a l IH]; cbn [map]; intros Hnd Hx Hy E; [destruct Hx|].
  inversion Hnd as [|? ? Hnotin Hnd']; subst.
  destruct Hx as [<- | Hx], Hy as [<- | Hy]; try reflexivity.
  - exfalso. apply Hnotin. rewrite E. apply in_map. exact Hy.
  - exfalso. apply Hnotin. rewrite <- E. apply in_map. exact Hx.
  - apply IH; assumption.
Qed.

(* in a list without two elements of the same key, the elements with a given key are that one element *)
Lemma filter_unique {A} (key : A -> oid) l x :
  NoDup (map key l) -> In x l -> filter (fun y => oid_eqb (key y) (key x)) l = [x].
Proof.
  induction l as [|a l IH]; cbn [map filter]; intros Hnd Hx; [destruct Hx|].
  inversion Hnd as [|? ? Hnotin Hnd']; subst. destruct Hx as [<- | Hx].
  - rewrite oid_eqb_refl. f_equal. apply filter_nil_iff. intros y Hy. apply oid_eqb_neq. intro E.
    apply Hnotin. rewrite <- E. apply in_map. exact Hy.
  - destruct (oid_eqb (key a) (key x)) eqn:E; [|apply IH; assumption].
    apply oid_eqb_eq in E. exfalso. apply Hnotin. rewrite E. apply in_map. exact Hx.
Qed.

Lemma filter_singleton_in {A} (p : A -> bool) l x : filter p l = [x] -> In x l /\ p x = true.
Proof. intro H. apply filter_In. rewrite H. left. reflexivity. Qed.

Lemma filter_singleton_all {A} (p : A -> bool) l x y : filter p l = [x] -> In y l -> p y = true -> y = x.
Proof.
  intros H Hy Hp. assert (Hin : In y (filter p l)) by (apply filter_In; split; assumption).
  rewrite H in Hin. destruct Hin as [<- | []]. reflexivity.
Qed.

Lemma find_some_first {A} (p : A -> bool) l x : find p l = Some x -> In x l /\ p x = true.
Proof. apply find_some. Qed.

(* ================================================================================================
   B. ExtensionValidators::validate_extensions, in closed form
   ================================================================================================ *)

Section Proofs.
Variable ski_of_key : bytes -> bytes.
Variable verifies : cert -> cert -> bool.

Notation v_validate := (v_validate ski_of_key).
Notation visit := (visit ski_of_key).
Notation validate_loop := (validate_loop ski_of_key).
Notation validate_extensions := (validate_extensions ski_of_key).
Notation validate_role_extensions := (validate_role_extensions ski_of_key).

Definition r_oid (r : required_extension) : oid := v_oid (r_validator r).

Definition mark_all (o : oid) (rs : list required_extension) : list required_extension :=
  map (fun r => if oid_eqb (r_oid r) o then {| r_found := true; r_validator := r_validator r |} else r) rs.

Lemma mark_all_nomatch o rs : (forall r, In r rs -> oid_eqb (r_oid r) o = false) -> mark_all o rs = rs.
Proof.
  induction rs as [|r rs IH]; intro H; cbn [mark_all map]; [reflexivity|].
  rewrite (H r (or_introl eq_refl)). f_equal. apply IH. intros r' Hr'. apply H. right. exact Hr'.
Qed.

Lemma mark_all_validators o rs : map r_validator (mark_all o rs) = map r_validator rs.
Proof.
  unfold mark_all. rewrite map_map. apply map_ext. intro r. destruct (oid_eqb (r_oid r) o); reflexivity.
Qed.

Lemma mark_all_oids o rs : map r_oid (mark_all o rs) = map r_oid rs.
Proof.
  unfold mark_all. rewrite map_map. apply map_ext. intro r. destruct (oid_eqb (r_oid r) o); reflexivity.
Qed.

(* what one extension contributes, given the validators *)
Definition ext_errs (key : bytes) (vs : list validator) (e : ext) : list ekind :=
  match find (fun v => oid_eqb (v_oid v) (e_oid e)) vs with
  | Some v => map (KExt (v_name v)) (v_validate key v (e_val e))
  | None => if e_crit e then [KUnknownCritical] else []
  end.

Lemma visit_spec key e rs :
  NoDup (map r_oid rs) ->
  visit key e rs =
  match find (fun v => oid_eqb (v_oid v) (e_oid e)) (map r_validator rs) with
  | Some v => Some (mark_all (e_oid e) rs, map (KExt (v_name v)) (v_validate key v (e_val e)))
  | None => None
  end.
Proof.
  induction rs as [|r rs IH]; intro Hnd; cbn [visit map find]; [reflexivity|].
  inversion Hnd as [|? ? Hnotin Hnd']; subst.
  destruct (oid_eqb (v_oid (r_validator r)) (e_oid e)) eqn:E.
  - cbn [mark_all map]. unfold r_oid at 1. rewrite E. f_equal. f_equal. f_equal.
    symmetry. apply mark_all_nomatch. intros r' Hr'. apply oid_eqb_neq. intro E'.
    apply oid_eqb_eq in E. apply Hnotin. unfold r_oid at 1. rewrite E, <- E'. apply in_map. exact Hr'.
  - rewrite (IH Hnd'). destruct (find _ (map r_validator rs)) as [v|]; [|reflexivity].
    cbn [mark_all map]. unfold r_oid at 1. rewrite E. reflexivity.
Qed.

Lemma find_none_nomatch e rs :
  find (fun v => oid_eqb (v_oid v) (e_oid e)) (map r_validator rs) = None ->
  forall r, In r rs -> oid_eqb (r_oid r) (e_oid e) = false.
Proof.
  intros H r Hr. apply (find_none _ _ H (r_validator r)). apply in_map. exact Hr.
Qed.

Lemma loop_spec key exts : forall rs errs,
  NoDup (map r_oid rs) ->
  validate_loop key exts rs errs =
  (fold_left (fun rs e => mark_all (e_oid e) rs) exts rs,
   errs ++ flat_map (ext_errs key (map r_validator rs)) exts).
Proof.
  induction exts as [|e exts IH]; intros rs errs Hnd; cbn [validate_loop fold_left flat_map].
  - rewrite app_nil_r. reflexivity.
  - rewrite (visit_spec key e rs Hnd).
    assert (Hx : ext_errs key (map r_validator rs) e =
                 match find (fun v => oid_eqb (v_oid v) (e_oid e)) (map r_validator rs) with
                 | Some v => map (KExt (v_name v)) (v_validate key v (e_val e))
                 | None => if e_crit e then [KUnknownCritical] else []
                 end) by reflexivity.
    rewrite Hx. clear Hx.
    destruct (find _ (map r_validator rs)) as [v|] eqn:F.
    + rewrite IH by (rewrite mark_all_oids; exact Hnd). rewrite mark_all_validators, app_assoc. reflexivity.
    + rewrite (mark_all_nomatch (e_oid e) rs (find_none_nomatch e rs F)).
      destruct (e_crit e); rewrite IH by exact Hnd; [rewrite <- app_assoc|]; reflexivity.
Qed.

Lemma fold_mark_all exts : forall rs,
  fold_left (fun rs e => mark_all (e_oid e) rs) exts rs =
  map (fun r => {| r_found := r_found r || existsb (fun e => oid_eqb (r_oid r) (e_oid e)) exts;
                   r_validator := r_validator r |}) rs.
Proof.
  induction exts as [|e exts IH]; intro rs; cbn [fold_left existsb].
  - rewrite <- (map_id rs) at 1. apply map_ext. intros [f v]. cbn. rewrite orb_false_r. reflexivity.
  - rewrite IH. unfold mark_all. rewrite map_map. apply map_ext. intro r. unfold r_oid.
    destruct (oid_eqb (v_oid (r_validator r)) (e_oid e)); cbn [r_found r_validator orb].
    + rewrite orb_true_r. reflexivity.
    + reflexivity.
Qed.

Lemma missing_eq exts vs :
  map (fun r => KMissingExt (v_name (r_validator r)))
      (filter (fun r => negb (r_found r))
         (map (fun r => {| r_found := r_found r || existsb (fun e => oid_eqb (r_oid r) (e_oid e)) exts;
                           r_validator := r_validator r |}) (map required_new vs))) =
  map (fun v => KMissingExt (v_name v))
      (filter (fun v => negb (existsb (fun e => oid_eqb (v_oid v) (e_oid e)) exts)) vs).
Proof.
  induction vs as [|v vs IH]; cbn [map filter]; [reflexivity|].
  unfold r_oid at 1. cbn [required_new r_found r_validator orb].
  destruct (existsb (fun e => oid_eqb (v_oid v) (e_oid e)) exts); cbn [negb map r_validator]; rewrite IH; reflexivity.
Qed.

Theorem validate_extensions_eq key vs exts :
  NoDup (map v_oid vs) ->
  validate_extensions key vs exts =
  flat_map (ext_errs key vs) exts ++
  map (fun v => KMissingExt (v_name v))
      (filter (fun v => negb (existsb (fun e => oid_eqb (v_oid v) (e_oid e)) exts)) vs).
Proof.
  intro Hnd. unfold validate_extensions.
  assert (Hv : map r_validator (map required_new vs) = vs) by (rewrite map_map; apply map_id).
  assert (Ho : map r_oid (map required_new vs) = map v_oid vs) by (rewrite map_map; reflexivity).
  rewrite loop_spec by (rewrite Ho; exact Hnd). rewrite Hv, fold_mark_all. cbn [app]. f_equal.
  apply missing_eq.
Qed.

(* ---------- "no error" in terms of the certificate ---------- *)

Definition lax_profile (vs : list validator) (c : cert) : Prop :=
  (forall e, In e (c_exts c) -> ~ In (e_oid e) disallowed_extensions) /\
  (forall e v, In e (c_exts c) -> In v vs -> v_oid v = e_oid e -> v_validate (c_key c) v (e_val e) = []) /\
  (forall e, In e (c_exts c) -> e_crit e = true -> exists v, In v vs /\ v_oid v = e_oid e) /\
  (forall v, In v vs -> exists e, In e (c_exts c) /\ e_oid e = v_oid v).

Lemma ext_errs_nil_iff key vs e :
  NoDup (map v_oid vs) ->
  (ext_errs key vs e = [] <->
   (forall v, In v vs -> v_oid v = e_oid e -> v_validate key v (e_val e) = []) /\
   (e_crit e = true -> exists v, In v vs /\ v_oid v = e_oid e)).
Proof.
  intro Hnd. unfold ext_errs. destruct (find _ vs) as [v|] eqn:F.
  - apply find_some in F as [Hv Ev]. apply oid_eqb_eq in Ev. rewrite map_nil_iff. split.
    + intro H. split.
      * intros v' Hv' Ev'. assert (v' = v) as -> by (apply (NoDup_map_inj v_oid vs); congruence). exact H.
      * intros _. exists v. split; assumption.
    + intros [H _]. apply H; assumption.
  - split.
    + intro H. split.
      * intros v Hv Ev. apply (find_none _ _ F) in Hv. cbn in Hv. rewrite Ev, oid_eqb_refl in Hv. discriminate.
      * intro Hc. rewrite Hc in H. discriminate.
    + intros [_ H]. destruct (e_crit e); [|reflexivity].
      destruct (H eq_refl) as [v [Hv Ev]]. apply (find_none _ _ F) in Hv. cbn in Hv. rewrite Ev, oid_eqb_refl in Hv. discriminate.
Qed.

Theorem role_errors_nil_iff vs c :
  NoDup (map v_oid vs) ->
  (validate_role_extensions vs c = [] <-> lax_profile vs c).
Proof.
  intro Hnd. unfold validate_role_extensions, lax_profile.
  rewrite app_nil_iff, (validate_extensions_eq _ _ _ Hnd), app_nil_iff, map_nil_iff, filter_nil_iff.
  unfold check_for_disallowed_x509_extensions. rewrite !flat_map_nil_iff.
  split.
  - intros [H1 [H2 H3]]. split; [|split; [|split]].
    + intros e He Hin. specialize (H1 e He).
      destruct (existsb (fun d => oid_eqb d (e_oid e)) disallowed_extensions) eqn:E; [discriminate|].
      assert (Hx : existsb (fun d => oid_eqb d (e_oid e)) disallowed_extensions = true)
        by (apply existsb_exists; exists (e_oid e); split; [exact Hin | apply oid_eqb_refl]).
      congruence.
    + intros e v He Hv Ev. pose proof (proj1 (ext_errs_nil_iff _ _ _ Hnd) (H2 e He)) as [Ha _]. apply Ha; assumption.
    + intros e He Hc. pose proof (proj1 (ext_errs_nil_iff _ _ _ Hnd) (H2 e He)) as [_ Hb]. apply Hb; assumption.
    + intros v Hv. specialize (H3 v Hv). apply negb_false_iff in H3. apply existsb_exists in H3 as [e [He Ev]].
      apply oid_eqb_eq in Ev. exists e. split; [exact He | symmetry; exact Ev].
  - intros [H1 [H2 [H3 H4]]]. split; [|split].
    + intros e He. destruct (existsb (fun d => oid_eqb d (e_oid e)) disallowed_extensions) eqn:E; [|reflexivity].
      apply existsb_exists in E as [d [Hd Ed]]. apply oid_eqb_eq in Ed. subst d. exfalso. exact (H1 e He Hd).
    + intros e He. apply (ext_errs_nil_iff _ _ _ Hnd). split.
      * intros v Hv Ev. apply H2; assumption.
      * intro Hc. apply H3; assumption.
    + intros v Hv. apply negb_false_iff. apply existsb_exists. destruct (H4 v Hv) as [e [He Ev]].
      exists e. split; [exact He | rewrite Ev; apply oid_eqb_refl].
Qed.

(* ================================================================================================
   C. each validator against the value Annex B requires
   ================================================================================================ *)

(* [v] answers to the OID of requirement [r] and accepts exactly the values [r] allows *)
Definition v_agrees (key : bytes) (v : validator) (r : oid * (decoded -> Prop)) : Prop :=
  v_oid v = fst r /\
  (forall d, snd r d -> v_validate key v d = []) /\
  (forall d, v_validate key v d = [] -> snd r d).

Lemma agree_ski c : v_agrees (c_key c) GSki (oid_subject_key_identifier, ski_matches_key ski_of_key c).
Proof.
  split; [rewrite gen_v_oid; reflexivity|]. cbn [snd]. unfold ski_matches_key. split.
  - intros d ->. cbn. rewrite bytes_eqb_refl. reflexivity.
  - intros d H. destruct d; cbn in H; try discriminate.
    destruct (bytes_eqb (ski_of_key (c_key c)) id) eqn:E; [|discriminate]. apply bytes_eqb_eq in E. congruence.
Qed.

Lemma agree_ku key bits : v_agrees key (GKu bits) (oid_key_usage, ku_only bits).
Proof.
  split; [rewrite gen_v_oid; reflexivity|]. cbn [snd]. unfold ku_only. split.
  - intros d ->. cbn. rewrite N.eqb_refl. reflexivity.
  - intros d H. destruct d; cbn in H; try discriminate.
    destruct (N.eqb_spec bits0 bits); [congruence | discriminate].
Qed.

Lemma agree_eku key o : v_agrees key (GEku o) (oid_ext_key_usage, eku_only o).
Proof.
  split; [rewrite gen_v_oid; reflexivity|]. cbn [snd]. unfold eku_only. split.
  - intros d [oids [-> [Hne Hall]]]. cbn.
    assert (F : forallb (fun x => oid_eqb x o) oids = true)
      by (apply forallb_forall; intros x Hx; apply oid_eqb_eq; apply Hall; exact Hx).
    rewrite F. cbn. destruct oids; [contradiction | reflexivity].
  - intros d H. destruct d as [| oids | | | | | | |]; cbn in H; try discriminate.
    destruct (forallb (fun x => oid_eqb x o) oids) eqn:F; cbn in H; [|discriminate].
    destruct oids as [|x r]; cbn in H; [discriminate|].
    exists (x :: r). split; [reflexivity|]. split; [discriminate|].
    intros y Hy. rewrite forallb_forall in F. apply oid_eqb_eq. apply F. exact Hy.
Qed.

Lemma agree_bc key : v_agrees key GBc (oid_basic_constraints, bc_ca_pathlen0).
Proof.
  split; [rewrite gen_v_oid; reflexivity|]. cbn [snd]. unfold bc_ca_pathlen0. split.
  - intros d ->. reflexivity.
  - intros d H. destruct d as [| | ca pl | | | | | |]; cbn in H; try discriminate.
    destruct pl as [n|]; [|discriminate]. destruct (N.eqb_spec n 0); cbn in H; [|discriminate].
    destruct ca; cbn in H; [|discriminate]. subst. reflexivity.
Qed.

Lemma crl_point_errors_nil p : crl_point_errors p = [] <-> uri_point p.
Proof.
  unfold crl_point_errors, uri_point. split.
  - intro H. apply app_eq_nil in H as [H1 H]. apply app_eq_nil in H as [H2 H3].
    destruct (dp_crl_issuer p); [discriminate|]. destruct (dp_reasons p); [discriminate|].
    split; [reflexivity|]. split; [reflexivity|].
    destruct (dp_name_of p) as [|names|]; try discriminate. exists names. split; [reflexivity|].
    destruct (existsb gn_is_uri names) eqn:E; [|discriminate].
    apply existsb_exists in E as [g [Hg Eg]]. destruct g; try discriminate. exact Hg.
  - intros [-> [-> [names [-> Hin]]]]. cbn.
    assert (E : existsb gn_is_uri names = true) by (apply existsb_exists; exists GnUri; split; [exact Hin | reflexivity]).
    rewrite E. reflexivity.
Qed.

Lemma agree_crl key : v_agrees key GCrl (oid_crl_distribution_points, crl_uri).
Proof.
  split; [rewrite gen_v_oid; reflexivity|]. cbn [snd]. unfold crl_uri. split.
  - intros d [pts [-> [Hne Hall]]]. cbn. destruct pts as [|p r]; [contradiction|]. cbn [is_nil].
    apply flat_map_nil_iff. intros q Hq. apply crl_point_errors_nil. apply Hall. exact Hq.
  - intros d H. destruct d as [| | | pts | | | | |]; cbn in H; try discriminate.
    destruct pts as [|p r]; cbn [is_nil] in H; [discriminate|].
    exists (p :: r). split; [reflexivity|]. split; [discriminate|].
    intros q Hq. apply crl_point_errors_nil. rewrite flat_map_nil_iff in H. apply H. exact Hq.
Qed.

Lemma agree_ian key : v_agrees key GIan (oid_issuer_alt_name, ian_contact).
Proof.
  split; [rewrite gen_v_oid; reflexivity|]. cbn [snd]. unfold ian_contact. split.
  - intros d [names [-> [Hne Hall]]]. cbn. destruct names as [|g r]; [contradiction|]. cbn [is_nil].
    assert (F : forallb gn_is_rfc822_or_uri (g :: r) = true)
      by (apply forallb_forall; intros h Hh; destruct (Hall h Hh) as [-> | ->]; reflexivity).
    rewrite F. reflexivity.
  - intros d H. destruct d as [| | | | names | | | |]; cbn in H; try discriminate.
    destruct names as [|g r]; cbn [is_nil] in H; [discriminate|].
    destruct (forallb gn_is_rfc822_or_uri (g :: r)) eqn:F; cbn in H; [|discriminate].
    exists (g :: r). split; [reflexivity|]. split; [discriminate|].
    intros h Hh. rewrite forallb_forall in F. specialize (F h Hh). destruct h; auto; discriminate.
Qed.

Definition tables_agree (key : bytes) (vs : list validator) (reqs : list (oid * (decoded -> Prop))) : Prop :=
  (forall v, In v vs -> exists r, In r reqs /\ v_agrees key v r) /\
  (forall r, In r reqs -> exists v, In v vs /\ v_agrees key v r).

Ltac in_list := cbn [In requirements]; repeat (first [left; reflexivity | right]).
Ltac agree_any :=
  first [ apply agree_ski | apply agree_ku | apply agree_eku | apply agree_bc | apply agree_crl | apply agree_ian ].

Lemma tables_ds c : tables_agree (c_key c) validators_document_signer (requirements ski_of_key DocumentSigner c).
Proof.
  rewrite gen_validators_ds. split.
  - intros v Hv. cbn [In] in Hv. repeat (destruct Hv as [<- | Hv]; [eexists; split; [|agree_any]; in_list|]). destruct Hv.
  - intros r Hr. cbn [In requirements] in Hr.
    repeat (destruct Hr as [<- | Hr]; [eexists; split; [|agree_any]; in_list|]). destruct Hr.
Qed.

Lemma tables_reader c : tables_agree (c_key c) validators_mdoc_reader (requirements ski_of_key MdocReader c).
Proof.
  rewrite gen_validators_reader. split.
  - intros v Hv. cbn [In] in Hv. repeat (destruct Hv as [<- | Hv]; [eexists; split; [|agree_any]; in_list|]). destruct Hv.
  - intros r Hr. cbn [In requirements] in Hr.
    repeat (destruct Hr as [<- | Hr]; [eexists; split; [|agree_any]; in_list|]). destruct Hr.
Qed.

Lemma tables_iaca c : tables_agree (c_key c) validators_iaca (requirements ski_of_key IacaRoot c).
Proof.
  rewrite gen_validators_iaca. split.
  - intros v Hv. cbn [In] in Hv. repeat (destruct Hv as [<- | Hv]; [eexists; split; [|agree_any]; in_list|]). destruct Hv.
  - intros r Hr. cbn [In requirements] in Hr.
    repeat (destruct Hr as [<- | Hr]; [eexists; split; [|agree_any]; in_list|]). destruct Hr.
Qed.

Lemma nodup_ds : NoDup (map v_oid validators_document_signer).
Proof. apply nodup_b_iff. vm_compute. reflexivity. Qed.
Lemma nodup_reader : NoDup (map v_oid validators_mdoc_reader).
Proof. apply nodup_b_iff. vm_compute. reflexivity. Qed.
Lemma nodup_iaca : NoDup (map v_oid validators_iaca).
Proof. apply nodup_b_iff. vm_compute. reflexivity. Qed.

(* ================================================================================================
   D. a role's extension errors against the role's profile
   ================================================================================================ *)

Definition profile_of (reqs : list (oid * (decoded -> Prop))) (c : cert) : Prop :=
  (forall o P, In (o, P) reqs -> carries c o P) /\
  (forall e, In e (c_exts c) -> ~ In (e_oid e) prohibited_extensions) /\
  (forall e, In e (c_exts c) -> e_crit e = true -> In (e_oid e) (map fst reqs)).

Lemma exts_with_in c o e : In e (exts_with c o) <-> In e (c_exts c) /\ e_oid e = o.
Proof. unfold exts_with. rewrite filter_In, oid_eqb_eq. reflexivity. Qed.

Lemma lax_profile_complete vs reqs c :
  tables_agree (c_key c) vs reqs -> profile_of reqs c -> lax_profile vs c.
Proof.
  intros [T1 T2] [P1 [P2 P3]]. unfold lax_profile. rewrite gen_disallowed. split; [exact P2|]. split; [|split].
  - intros e v He Hv Ev. destruct (T1 v Hv) as [[o P] [Hr [A1 [A2 _]]]]. cbn [fst snd] in *.
    destruct (P1 o P Hr) as [e0 [E0 HP]].
    assert (e = e0) as ->.
    { assert (Hin : In e (exts_with c o)) by (apply exts_with_in; split; congruence).
      rewrite E0 in Hin. destruct Hin as [<- | []]. reflexivity. }
    apply A2. exact HP.
  - intros e He Hc. specialize (P3 e He Hc). apply in_map_iff in P3 as [r [Er Hr]].
    destruct (T2 r Hr) as [v [Hv [A1 _]]]. exists v. split; [exact Hv | congruence].
  - intros v Hv. destruct (T1 v Hv) as [[o P] [Hr [A1 _]]]. cbn [fst] in A1.
    destruct (P1 o P Hr) as [e0 [E0 _]].
    assert (Hin : In e0 (exts_with c o)) by (rewrite E0; left; reflexivity).
    apply exts_with_in in Hin as [Hin Eo]. exists e0. split; [exact Hin | congruence].
Qed.

Lemma lax_profile_sound vs reqs c :
  tables_agree (c_key c) vs reqs -> rfc5280_wf c -> lax_profile vs c -> profile_of reqs c.
Proof.
  intros [T1 T2] Wnd [L1 [L2 [L3 L4]]]. rewrite gen_disallowed in L1. split; [|split; [exact L1|]].
  - intros o P Hr. destruct (T2 (o, P) Hr) as [v [Hv [A1 [_ A3]]]]. cbn [fst snd] in *.
    destruct (L4 v Hv) as [e [He Eo]]. exists e. split.
    + unfold exts_with. rewrite <- A1, <- Eo. apply (filter_unique e_oid); assumption.
    + apply A3. apply L2; [exact He | exact Hv | congruence].
  - intros e He Hc. destruct (L3 e He Hc) as [v [Hv Ev]]. destruct (T1 v Hv) as [r [Hr [A1 _]]].
    apply in_map_iff. exists r. split; [congruence | exact Hr].
Qed.

Lemma profile_unfold r c : profile ski_of_key r c <-> profile_of (requirements ski_of_key r c) c.
Proof. reflexivity. Qed.

(* the three roles *)
Definition role_validators (r : role) : list validator :=
  match r with
  | DocumentSigner => validators_document_signer
  | MdocReader => validators_mdoc_reader
  | IacaRoot => validators_iaca
  end.

Lemma role_tables r c : tables_agree (c_key c) (role_validators r) (requirements ski_of_key r c).
Proof. destruct r; [apply tables_ds | apply tables_reader | apply tables_iaca]. Qed.
Lemma role_nodup r : NoDup (map v_oid (role_validators r)).
Proof. destruct r; [apply nodup_ds | apply nodup_reader | apply nodup_iaca]. Qed.

Theorem role_complete r c : profile ski_of_key r c -> validate_role_extensions (role_validators r) c = [].
Proof.
  intro H. apply (role_errors_nil_iff _ _ (role_nodup r)).
  apply (lax_profile_complete _ _ _ (role_tables r c)). exact H.
Qed.

Theorem role_sound r c :
  validate_role_extensions (role_validators r) c = [] -> rfc5280_wf c -> profile ski_of_key r c.
Proof.
  intros H W. apply (role_errors_nil_iff _ _ (role_nodup r)) in H.
  apply (lax_profile_sound _ _ _ (role_tables r c) W H).
Qed.

(* a deviation of the profile is an error, without any well-formedness assumption *)
Theorem role_deviation r c :
  profile_deviation ski_of_key r c -> validate_role_extensions (role_validators r) c <> [].
Proof.
  intros D H. apply (role_errors_nil_iff _ _ (role_nodup r)) in H. destruct H as [L1 [L2 [L3 L4]]].
  destruct (role_tables r c) as [T1 T2]. rewrite gen_disallowed in L1.
  destruct D as [[o [Ho Habs]] | [[o [P [e [Hr [He [Eo HnP]]]]]] | [[e [He Hp]] | [e [He [Hc Hn]]]]]].
  - apply in_map_iff in Ho as [rq [Eo Hr]]. destruct (T2 rq Hr) as [v [Hv [A1 _]]].
    destruct (L4 v Hv) as [e [He Ee]]. apply (Habs e He). congruence.
  - destruct (T2 (o, P) Hr) as [v [Hv [A1 [_ A3]]]]. cbn [fst snd] in *.
    apply HnP. apply A3. apply L2; [exact He | exact Hv | congruence].
  - exact (L1 e He Hp).
  - destruct (L3 e He Hc) as [v [Hv Ev]]. destruct (T1 v Hv) as [rq [Hr [A1 _]]].
    apply Hn. apply in_map_iff. exists rq. split; [congruence | exact Hr].
Qed.

(* ================================================================================================
   E. validity, key identifiers, the candidate pipeline
   ================================================================================================ *)

Lemma now_in_range now : clock_ok now -> i64_as_u64 now = now.
Proof.
  unfold clock_ok, i64_as_u64. change (2 ^ 63)%Z with 9223372036854775808%Z. intro H. apply Z.mod_small. lia.
Qed.

Lemma validity_nil_iff now c : clock_ok now -> (check_validity_period now c = [] <-> within_validity now c).
Proof.
  intro Hc. unfold check_validity_period, within_validity. rewrite (now_in_range _ Hc), app_nil_iff.
  destruct (Z.ltb_spec (c_not_after c) now), (Z.ltb_spec now (c_not_before c)); split;
    try (intros [H1 H2]; try discriminate; lia); intro; try lia; split; reflexivity.
Qed.

Lemma validity_is_nil now c : clock_ok now -> is_nil (check_validity_period now c) = within_validity_b now c.
Proof.
  intro Hc. apply bool_eq_iff. rewrite within_validity_b_iff, <- (validity_nil_iff now c Hc).
  destruct (check_validity_period now c); cbn; split; intro; try reflexivity; discriminate.
Qed.

Lemma in_subject_akis id exts :
  In id (subject_akis exts) <->
  exists e, In e exts /\ e_oid e = oid_authority_key_identifier /\ e_val e = DAki (Some id).
Proof.
  unfold subject_akis. rewrite in_flat_map, gen_kic_subject. split.
  - intros [e [He H]]. destruct (oid_eqb (e_oid e) oid_authority_key_identifier) eqn:E; [|destruct H].
    apply oid_eqb_eq in E. destruct (e_val e) as [| | | | | | [k|] | |] eqn:Ev; cbn [In] in H; try contradiction.
    destruct H as [<- | []]. exists e. auto.
  - intros [e [He [Eo Ev]]]. exists e. split; [exact He|]. rewrite Eo, oid_eqb_refl, Ev. left. reflexivity.
Qed.

Lemma in_issuer_skis id exts :
  In id (issuer_skis exts) <->
  exists e, In e exts /\ e_oid e = oid_subject_key_identifier /\ e_val e = DSki id.
Proof.
  unfold issuer_skis. rewrite in_flat_map, gen_kic_issuer. split.
  - intros [e [He H]]. destruct (oid_eqb (e_oid e) oid_subject_key_identifier) eqn:E; [|destruct H].
    apply oid_eqb_eq in E. destruct (e_val e) eqn:Ev; cbn [In] in H; try contradiction.
    destruct H as [<- | []]. exists e. auto.
  - intros [e [He [Eo Ev]]]. exists e. split; [exact He|]. rewrite Eo, oid_eqb_refl, Ev. left. reflexivity.
Qed.

Lemma key_identifier_check_iff leaf a :
  key_identifier_check (c_exts a) (c_exts leaf) = true <-> key_ids_match leaf a.
Proof.
  unfold key_identifier_check, key_ids_match. rewrite existsb_exists. split.
  - intros [ki [Hki H]]. apply existsb_exists in H as [ski [Hski E]]. apply bytes_eqb_eq in E. subst ski.
    apply in_subject_akis in Hki as [e_l [Hl [Ol Vl]]]. apply in_issuer_skis in Hski as [e_a [Ha [Oa Va]]].
    exists ki, e_l, e_a. repeat split; assumption.
  - intros [id [e_l [e_a [Hl [Ol [Vl [Ha [Oa Va]]]]]]]]. exists id. split.
    + apply in_subject_akis. exists e_l. auto.
    + apply existsb_exists. exists id. split; [|apply bytes_eqb_refl]. apply in_issuer_skis. exists e_a. auto.
Qed.

Lemma pipeline_eq {A B} (c : A -> bool) (g : A -> B) (f1 f2 f3 f4 : B -> bool) (l : list A) :
  filter f4 (filter f3 (filter f2 (filter f1 (flat_map (fun a => if c a then [g a] else []) l)))) =
  map g (filter (fun a => c a && (f1 (g a) && f2 (g a) && f3 (g a) && f4 (g a))) l).
Proof.
  induction l as [|a l IH]; cbn [flat_map filter map]; [reflexivity|].
  destruct (c a); cbn [app andb filter]; [|exact IH].
  destruct (f1 (g a)); cbn [andb filter]; [|exact IH].
  destruct (f2 (g a)); cbn [andb filter]; [|exact IH].
  destruct (f3 (g a)); cbn [andb filter]; [|exact IH].
  destruct (f4 (g a)); cbn [andb filter map]; [|exact IH].
  f_equal. exact IH.
Qed.

Lemma purpose_eqb_sym a b : purpose_eqb a b = purpose_eqb b a.
Proof. destruct a, b; reflexivity. Qed.

Theorem candidates_eq rs now leaf reg :
  clock_ok now ->
  find_trust_anchor_candidates verifies now leaf reg (anchor_purpose rs) =
  map a_cert (anchoring_entries verifies rs now leaf reg).
Proof.
  intro Hc. unfold find_trust_anchor_candidates, anchoring_entries. rewrite pipeline_eq. f_equal.
  apply filter_ext. intro a. rewrite purpose_eqb_sym. f_equal. unfold anchors_b.
  rewrite (validity_is_nil _ _ Hc).
  assert (K : key_identifier_check (c_exts (a_cert a)) (c_exts leaf) = key_ids_match_b leaf (a_cert a))
    by (apply bool_eq_iff; rewrite key_identifier_check_iff, key_ids_match_b_iff; reflexivity).
  rewrite K. destruct (name_eqb _ _), (key_ids_match_b _ _), (verifies _ _), (within_validity_b _ _); reflexivity.
Qed.

Lemma in_anchoring_entries rs now leaf reg a :
  In a (anchoring_entries verifies rs now leaf reg) <-> In a reg /\ matching_anchor verifies rs now leaf a.
Proof.
  unfold anchoring_entries, matching_anchor. rewrite filter_In, andb_true_iff, purpose_eqb_eq, anchors_b_iff. reflexivity.
Qed.

(* ================================================================================================
   F. names
   ================================================================================================ *)

Lemma get_rdns_eq c o : get_rdns c o = subject_attribute_values c o.
Proof.
  unfold get_rdns, subject_attribute_values. induction (c_subject c) as [|r n IH]; cbn [flat_map concat]; [reflexivity|].
  rewrite filter_app, map_app, IH. f_equal. clear.
  induction r as [|a r IH]; cbn [flat_map filter map]; [reflexivity|].
  destruct (oid_eqb (fst a) o); cbn [app map]; rewrite IH; reflexivity.
Qed.

Lemma name_matches_none_iff o w this that :
  name_matches o w this that = None <-> same_subject_attribute o this that.
Proof.
  unfold name_matches, same_subject_attribute. rewrite !get_rdns_eq.
  destruct (subject_attribute_values this o) as [|v [|v' r]]; destruct (subject_attribute_values that o) as [|u [|u' r']];
    cbn [is_nil negb]; split; intro H; try discriminate; try (destruct H as [x [H1 H2]]; discriminate).
  - destruct (bytes_eqb v u) eqn:E; [|discriminate]. apply bytes_eqb_eq in E. subst. exists u. auto.
  - destruct H as [x [H1 H2]]. inversion H1; inversion H2; subst. rewrite bytes_eqb_refl. reflexivity.
Qed.

Lemma has_rdn_false_iff c o : has_rdn c o = false <-> no_subject_attribute o c.
Proof.
  unfold has_rdn, no_subject_attribute. rewrite get_rdns_eq.
  destruct (subject_attribute_values c o); cbn; split; intro; try reflexivity; discriminate.
Qed.

Lemma country_none_iff leaf a : country_name_matches leaf a = None <-> same_subject_attribute at_country_name leaf a.
Proof. unfold country_name_matches. rewrite gen_country. apply name_matches_none_iff. Qed.

Lemma state_none_iff leaf a :
  state_or_province_name_matches leaf a = None <-> same_subject_attribute at_state_or_province_name leaf a.
Proof. unfold state_or_province_name_matches. rewrite gen_state. apply name_matches_none_iff. Qed.

(* ================================================================================================
   G. the three rule sets
   ================================================================================================ *)

Notation validate := (validate ski_of_key verifies).
Notation conformant := (conformant ski_of_key verifies).

Lemma with_ctx_nil c l : with_ctx c l = [] <-> l = [].
Proof. apply map_nil_iff. Qed.

Lemma opt_err_nil c o : opt_err c o = [] <-> o = None.
Proof. destruct o; cbn; split; intro; try reflexivity; discriminate. Qed.

(* the state / province part, after mdl_validate_inner *)
Definition issuer_tail (rs : ruleset) (ds iaca : cert) : list error :=
  match rs with
  | Mdl => if has_rdn ds oid_mdl_has_rdn || has_rdn iaca oid_mdl_has_rdn
           then opt_err CtxComparison (state_or_province_name_matches ds iaca) else []
  | AamvaMdl => opt_err CtxComparison (state_or_province_name_matches ds iaca)
  | MdlReaderOneStep => []
  end.

(* exactly when the model reports no error *)
Definition accepts (rs : ruleset) (now : Z) (leaf : cert) (reg : list anchor) : Prop :=
  check_validity_period now leaf = [] /\
  validate_role_extensions (role_validators (leaf_role rs)) leaf = [] /\
  match find_trust_anchor_candidates verifies now leaf reg (anchor_purpose rs) with
  | [] => False
  | a :: _ =>
    match rs with
    | MdlReaderOneStep => True
    | _ => country_name_matches leaf a = None /\
           validate_role_extensions validators_iaca a = [] /\
           issuer_tail rs leaf a = []
    end
  end.

Theorem validate_nil_iff rs now x reg : validate rs now x reg = [] <-> accepts rs now (x_first x) reg.
Proof.
  unfold accepts. destruct rs; cbn [X509.validate leaf_role anchor_purpose role_validators issuer_tail].
  - unfold mdl_validate, mdl_validate_inner, end_entity_certificate.
    destruct (find_trust_anchor_candidates verifies now (x_first x) reg Iaca) as [|a rest].
    + rewrite !app_nil_iff. split; [intros [_ H]; discriminate | tauto].
    + unfold validate_document_signer_certificate_extensions, validate_iaca_extensions.
      destruct (has_rdn (x_first x) oid_mdl_has_rdn || has_rdn a oid_mdl_has_rdn);
        rewrite !app_nil_iff, !with_ctx_nil, !opt_err_nil; try rewrite opt_err_nil; tauto.
  - unfold aamva_mdl_validate, mdl_validate_inner, end_entity_certificate.
    destruct (find_trust_anchor_candidates verifies now (x_first x) reg Iaca) as [|a rest].
    + rewrite !app_nil_iff. split; [intros [_ H]; discriminate | tauto].
    + unfold validate_document_signer_certificate_extensions, validate_iaca_extensions.
      rewrite !app_nil_iff, !with_ctx_nil, !opt_err_nil. tauto.
  - unfold mdl_reader_one_step_validate, end_entity_certificate.
    destruct (find_trust_anchor_candidates verifies now (x_first x) reg ReaderCa) as [|a rest].
    + rewrite !app_nil_iff. split; [intros [_ H]; discriminate | tauto].
    + unfold validate_mdoc_reader_certificate_extensions. rewrite !app_nil_iff, !with_ctx_nil. tauto.
Qed.

Definition state_rule (rs : ruleset) (leaf a : cert) : Prop :=
  match rs with
  | Mdl => same_subject_attribute at_state_or_province_name leaf a \/
           (no_subject_attribute at_state_or_province_name leaf /\ no_subject_attribute at_state_or_province_name a)
  | AamvaMdl => same_subject_attribute at_state_or_province_name leaf a
  | MdlReaderOneStep => True
  end.

Lemma issuer_tail_nil_iff rs leaf a : issuer_tail rs leaf a = [] <-> state_rule rs leaf a.
Proof.
  destruct rs; cbn [issuer_tail state_rule].
  - rewrite gen_has_rdn.
    destruct (has_rdn leaf at_state_or_province_name) eqn:H1; destruct (has_rdn a at_state_or_province_name) eqn:H2;
      cbn [orb]; rewrite ?opt_err_nil, ?state_none_iff.
    + split; [auto|]. intros [H | [H _]]; [exact H|]. apply has_rdn_false_iff in H. congruence.
    + split; [auto|]. intros [H | [H _]]; [exact H|]. apply has_rdn_false_iff in H. congruence.
    + split; [auto|]. intros [H | [_ H]]; [exact H|]. apply has_rdn_false_iff in H. congruence.
    + split; [|reflexivity]. intros _. right. split; apply has_rdn_false_iff; assumption.
  - rewrite opt_err_nil. apply state_none_iff.
  - tauto.
Qed.

Lemma issuer_chain_rules_unfold rs leaf a :
  issuer_chain_rules ski_of_key rs leaf a <->
  match rs with
  | MdlReaderOneStep => True
  | _ => profile ski_of_key IacaRoot a /\ same_subject_attribute at_country_name leaf a /\ state_rule rs leaf a
  end.
Proof. destruct rs; reflexivity. Qed.

Lemma singleton_of_le1 {A} (l : list A) a : In a l -> (length l <= 1)%nat -> l = [a].
Proof.
  destruct l as [|b [|c r]]; cbn; intros H L; [destruct H | | lia].
  destruct H as [<- | []]. reflexivity.
Qed.

(* ---------- soundness: no error => conformant (certificates well-formed w.r.t. RFC 5280) ---------- *)

Theorem validate_sound rs now x reg :
  clock_ok now -> inputs_wf rs (x_first x) reg ->
  validate rs now x reg = [] -> conformant rs now (x_first x) reg.
Proof.
  intros Hc [Wl Wa] H. apply validate_nil_iff in H as [Hv [Hr Hcand]].
  set (leaf := x_first x) in *.
  split; [apply (validity_nil_iff now leaf Hc); exact Hv|].
  split; [apply role_sound; assumption|].
  rewrite (candidates_eq rs now leaf reg Hc) in Hcand.
  destruct (anchoring_entries verifies rs now leaf reg) as [|a rest] eqn:E; cbn [map] in Hcand; [contradiction|].
  assert (Ha : In a (anchoring_entries verifies rs now leaf reg)) by (rewrite E; left; reflexivity).
  apply in_anchoring_entries in Ha as [Hin [Hp Hanch]].
  exists a. split; [exact Hin|]. split; [exact Hp|]. split; [exact Hanch|].
  apply issuer_chain_rules_unfold.
  destruct rs; [| |exact I]; destruct Hcand as [Hco [Hi Ht]];
    (split; [apply (role_sound IacaRoot); [exact Hi | apply Wa; assumption]|]);
    (split; [apply country_none_iff; exact Hco | apply issuer_tail_nil_iff; exact Ht]).
Qed.

(* ---------- completeness: conformant => no error (at most one anchoring registry entry) ---------- *)

Theorem validate_complete rs now x reg :
  clock_ok now -> unambiguous_anchor verifies rs now (x_first x) reg ->
  conformant rs now (x_first x) reg -> validate rs now x reg = [].
Proof.
  intros Hc U [Hv [Hp [a [Hin [Hpur [Hanch Hrules]]]]]]. apply validate_nil_iff.
  set (leaf := x_first x) in *.
  split; [apply (validity_nil_iff now leaf Hc); exact Hv|].
  split; [apply role_complete; exact Hp|].
  rewrite (candidates_eq rs now leaf reg Hc).
  assert (Ha : In a (anchoring_entries verifies rs now leaf reg))
    by (apply in_anchoring_entries; split; [exact Hin | split; assumption]).
  apply issuer_chain_rules_unfold in Hrules.
  destruct rs; cbn [unambiguous_anchor] in U.
  - rewrite (singleton_of_le1 _ a Ha U). cbn [map]. destruct Hrules as [R1 [R2 R3]].
    split; [apply country_none_iff; exact R2|]. split; [apply (role_complete IacaRoot); exact R1|].
    apply issuer_tail_nil_iff. exact R3.
  - rewrite (singleton_of_le1 _ a Ha U). cbn [map]. destruct Hrules as [R1 [R2 R3]].
    split; [apply country_none_iff; exact R2|]. split; [apply (role_complete IacaRoot); exact R1|].
    apply issuer_tail_nil_iff. exact R3.
  - destruct (anchoring_entries verifies MdlReaderOneStep now leaf reg); [destruct Ha | exact I].
Qed.

Theorem validate_iff rs now x reg :
  clock_ok now -> inputs_wf rs (x_first x) reg -> unambiguous_anchor verifies rs now (x_first x) reg ->
  (validate rs now x reg = [] <-> conformant rs now (x_first x) reg).
Proof.
  intros Hc W U. split; [apply validate_sound; assumption | apply validate_complete; assumption].
Qed.

(* ---------- purpose separation ---------- *)

Lemma candidates_filter_purpose now leaf reg p :
  find_trust_anchor_candidates verifies now leaf (filter (fun a => purpose_eqb (a_purpose a) p) reg) p =
  find_trust_anchor_candidates verifies now leaf reg p.
Proof.
  unfold find_trust_anchor_candidates. do 4 f_equal.
  induction reg as [|a reg IH]; cbn [filter flat_map]; [reflexivity|].
  rewrite (purpose_eqb_sym p (a_purpose a)).
  destruct (purpose_eqb (a_purpose a) p) eqn:E; cbn [flat_map]; [rewrite (purpose_eqb_sym p), E|]; rewrite IH; reflexivity.
Qed.

Theorem purpose_separation rs now x reg :
  validate rs now x reg = validate rs now x (filter (fun a => purpose_eqb (a_purpose a) (anchor_purpose rs)) reg).
Proof.
  destruct rs; cbn [X509.validate anchor_purpose];
    unfold mdl_validate, aamva_mdl_validate, mdl_validate_inner, mdl_reader_one_step_validate;
    rewrite candidates_filter_purpose; reflexivity.
Qed.

(* ---------- single deviations ---------- *)

Lemma no_anchor_error rs now x reg :
  clock_ok now ->
  (forall a, In a reg -> ~ matching_anchor verifies rs now (x_first x) a) -> validate rs now x reg <> [].
Proof.
  intros Hc Hno H. apply validate_nil_iff in H as [_ [_ Hcand]].
  rewrite (candidates_eq rs now _ reg Hc) in Hcand.
  destruct (anchoring_entries verifies rs now (x_first x) reg) as [|a rest] eqn:E; cbn [map] in Hcand; [contradiction|].
  assert (Ha : In a (anchoring_entries verifies rs now (x_first x) reg)) by (rewrite E; left; reflexivity).
  apply in_anchoring_entries in Ha as [Hin Hm]. exact (Hno a Hin Hm).
Qed.

(* the first candidate is a registry entry that anchors the leaf *)
Lemma first_candidate rs now leaf reg c rest :
  clock_ok now ->
  find_trust_anchor_candidates verifies now leaf reg (anchor_purpose rs) = c :: rest ->
  exists a, In a reg /\ matching_anchor verifies rs now leaf a /\ a_cert a = c.
Proof.
  intros Hc H. rewrite (candidates_eq rs now leaf reg Hc) in H.
  destruct (anchoring_entries verifies rs now leaf reg) as [|a r] eqn:E; cbn [map] in H; [discriminate|].
  inversion H; subst. assert (Ha : In a (anchoring_entries verifies rs now leaf reg)) by (rewrite E; left; reflexivity).
  apply in_anchoring_entries in Ha as [Hin Hm]. exists a. auto.
Qed.

Theorem single_deviation rs now x reg :
  clock_ok now -> deviation ski_of_key verifies rs now (x_first x) reg -> validate rs now x reg <> [].
Proof.
  intros Hc D.
  destruct D as [D | D | D | D | D | D | D | D | D | D | D | D | D | D | D | Hrs D | Hrs D | Hrs D | Hrs D].
  - intro H. apply validate_nil_iff in H as [Hv _]. apply (validity_nil_iff now _ Hc) in Hv. unfold within_validity in Hv. lia.
  - intro H. apply validate_nil_iff in H as [Hv _]. apply (validity_nil_iff now _ Hc) in Hv. unfold within_validity in Hv. lia.
  - intro H. apply validate_nil_iff in H as [_ [Hr _]]. revert Hr. apply role_deviation. left. exact D.
  - intro H. apply validate_nil_iff in H as [_ [Hr _]]. revert Hr. apply role_deviation. right. left. exact D.
  - intro H. apply validate_nil_iff in H as [_ [Hr _]]. revert Hr. apply role_deviation. right. right. left. exact D.
  - intro H. apply validate_nil_iff in H as [_ [Hr _]]. revert Hr. apply role_deviation. right. right. right. exact D.
  - apply no_anchor_error; assumption.
  - apply no_anchor_error; [exact Hc|]. subst reg. intros a [].
  - apply no_anchor_error; [exact Hc|]. intros a Ha [Hp _]. exact (D a Ha Hp).
  - apply no_anchor_error; [exact Hc|]. intros a Ha [Hp [Hs _]]. exact (D a Ha Hp Hs).
  - apply no_anchor_error; [exact Hc|]. intros a Ha [Hp [_ [[id [e_l [e_a [Hl [Ol _]]]]] _]]]. exact (D e_l Hl Ol).
  - apply no_anchor_error; [exact Hc|]. intros a Ha [Hp [_ [[id [e_l [e_a [Hl [Ol [Vl _]]]]]] _]]]. exact (D e_l Hl Ol id Vl).
  - apply no_anchor_error; [exact Hc|]. intros a Ha [Hp [_ [Hk _]]]. exact (D a Ha Hp Hk).
  - apply no_anchor_error; [exact Hc|]. intros a Ha [Hp [_ [_ [_ Hv]]]]. rewrite (D a Ha Hp) in Hv. discriminate.
  - apply no_anchor_error; [exact Hc|]. intros a Ha [Hp [_ [_ [Hw _]]]]. exact (D a Ha Hp Hw).
  - intro H. apply validate_nil_iff in H as [_ [_ Hcand]].
    destruct (find_trust_anchor_candidates verifies now (x_first x) reg (anchor_purpose rs)) as [|c rest] eqn:E; [contradiction|].
    destruct (first_candidate rs now _ reg c rest Hc E) as [a [Hin [Hm <-]]].
    destruct rs; [| |contradiction]; destruct Hcand as [_ [Hi _]]; revert Hi; apply (role_deviation IacaRoot); apply D; assumption.
  - intro H. apply validate_nil_iff in H as [_ [_ Hcand]].
    destruct (find_trust_anchor_candidates verifies now (x_first x) reg (anchor_purpose rs)) as [|c rest] eqn:E; [contradiction|].
    destruct (first_candidate rs now _ reg c rest Hc E) as [a [Hin [Hm <-]]].
    destruct rs; [| |contradiction]; destruct Hcand as [Hco _]; apply country_none_iff in Hco; exact (D a Hin Hm Hco).
  - subst rs. intro H. apply validate_nil_iff in H as [_ [_ Hcand]].
    destruct (find_trust_anchor_candidates verifies now (x_first x) reg (anchor_purpose AamvaMdl)) as [|c rest] eqn:E; [contradiction|].
    destruct (first_candidate AamvaMdl now _ reg c rest Hc E) as [a [Hin [Hm <-]]].
    destruct Hcand as [_ [_ Ht]]. apply issuer_tail_nil_iff in Ht. exact (D a Hin Hm Ht).
  - subst rs. intro H. apply validate_nil_iff in H as [_ [_ Hcand]].
    destruct (find_trust_anchor_candidates verifies now (x_first x) reg (anchor_purpose Mdl)) as [|c rest] eqn:E; [contradiction|].
    destruct (first_candidate Mdl now _ reg c rest Hc E) as [a [Hin [Hm <-]]].
    destruct Hcand as [_ [_ Ht]]. apply issuer_tail_nil_iff in Ht. exact (D a Hin Hm Ht).
Qed.

End Proofs.

(* ================================================================================================
   H. witnesses: the hypotheses above are inhabited, and each of them is necessary
   ================================================================================================ *)

(* any function will do as the digest, and signatures are given by the carried key lists *)
Definition w_ski (k : bytes) : bytes := k.
Definition w_verifies (s i : cert) : bool := existsb (bytes_eqb (c_spki i)) (c_sigkeys s).

Definition w_us : bytes := [19; 2; 85; 83].                      (* PrintableString "US" *)
Definition w_cn (b : N) : attr := (id_at 3, [12; 1; b]).
Definition w_name_ca : name := [[(at_country_name, w_us)]; [w_cn 65]].
Definition w_name_ds : name := [[(at_country_name, w_us)]; [w_cn 66]].
Definition w_uri_point : dist_point := {| dp_name_of := DpFullName [GnUri]; dp_reasons := false; dp_crl_issuer := false |}.
Definition w_x (o : oid) (crit : bool) (v : decoded) : ext := {| e_oid := o; e_crit := crit; e_val := v |}.

Definition w_ian := w_x oid_issuer_alt_name false (DIssuerAltName [GnRfc822]).
Definition w_crl := w_x oid_crl_distribution_points false (DCrlDp [w_uri_point]).
Definition w_bc := w_x oid_basic_constraints true (DBasicConstraints true (Some 0)).
Definition w_ku_ds (crit : bool) := w_x oid_key_usage crit (DKeyUsage ku_digital_signature_only).

Definition w_iaca_with (exts : list ext) : cert :=
  {| c_not_before := 0; c_not_after := 1000; c_issuer := w_name_ca; c_subject := w_name_ca;
     c_key := [1]; c_spki := [1]; c_sigkeys := [[1]]; c_exts := exts |}.
Definition w_iaca_head : list ext :=
  [w_x oid_subject_key_identifier false (DSki [1]); w_x oid_key_usage true (DKeyUsage ku_key_cert_sign_and_crl_sign)].
Definition w_iaca : cert := w_iaca_with (w_iaca_head ++ [w_bc; w_ian; w_crl]).
(* an earlier certificate for the same IACA key and name, issued without basic constraints *)
Definition w_iaca_old : cert := w_iaca_with (w_iaca_head ++ [w_ian; w_crl]).
Definition w_iaca_empty_ian : cert :=
  w_iaca_with (w_iaca_head ++ [w_bc; w_x oid_issuer_alt_name false (DIssuerAltName []); w_crl]).

Definition w_ds_with (exts : list ext) : cert :=
  {| c_not_before := 100; c_not_after := 900; c_issuer := w_name_ca; c_subject := w_name_ds;
     c_key := [2]; c_spki := [2]; c_sigkeys := [[1]]; c_exts := exts |}.
Definition w_ds_head (ku_critical : bool) : list ext :=
  [w_x oid_subject_key_identifier false (DSki [2]); w_x oid_authority_key_identifier false (DAki (Some [1]));
   w_ku_ds ku_critical; w_crl; w_x oid_ext_key_usage true (DExtKeyUsage [eku_mdl_ds])].
Definition w_ds : cert := w_ds_with (w_ds_head true ++ [w_ian]).
Definition w_ds_dup : cert := w_ds_with (w_ds_head true ++ [w_ian; w_ku_ds true]).
Definition w_ds_empty_ian : cert := w_ds_with (w_ds_head true ++ [w_x oid_issuer_alt_name false (DIssuerAltName [])]).
Definition w_ds_noncritical_ku : cert := w_ds_with (w_ds_head false ++ [w_ian]).
Definition w_ds_expired : cert :=
  {| c_not_before := 100; c_not_after := 400; c_issuer := w_name_ca; c_subject := w_name_ds;
     c_key := [2]; c_spki := [2]; c_sigkeys := [[1]]; c_exts := w_ds_head true ++ [w_ian] |}.

Definition w_chain (c : cert) : x5chain := {| x_first := c; x_rest := [] |}.
Definition w_anchor (c : cert) : anchor := {| a_cert := c; a_purpose := Iaca |}.
Definition w_now : Z := 500.

Lemma w_clock : clock_ok w_now.
Proof. unfold clock_ok, w_now. split; [intro H; discriminate H | reflexivity]. Qed.

Lemma w_hypotheses_inhabited :
  clock_ok w_now /\ inputs_wf Mdl w_ds [w_anchor w_iaca] /\ unambiguous_anchor w_verifies Mdl w_now w_ds [w_anchor w_iaca] /\
  validate w_ski w_verifies Mdl w_now (w_chain w_ds) [w_anchor w_iaca] = [] /\
  validate w_ski w_verifies AamvaMdl w_now (w_chain w_ds) [w_anchor w_iaca] = [(CtxComparison, KNameMissing NState)] /\
  validate w_ski w_verifies Mdl w_now (w_chain w_ds_expired) [w_anchor w_iaca] = [(CtxDs, KExpired)] /\
  validate w_ski w_verifies Mdl w_now (w_chain w_ds) [] = [(CtxIaca, KNoTrustAnchor)].
Proof.
  split; [exact w_clock|]. split; [apply -> inputs_wf_b_iff; vm_compute; reflexivity|].
  split; [apply -> unambiguous_anchor_b_iff; vm_compute; reflexivity|].
  repeat split; vm_compute; reflexivity.
Qed.

(* the implementation only warns about a non-critical key usage / extended key usage / basic
   constraints; the property text does not ask for criticality either *)
Lemma w_noncritical_key_usage_accepted :
  validate w_ski w_verifies Mdl w_now (w_chain w_ds_noncritical_ku) [w_anchor w_iaca] = [].
Proof. vm_compute. reflexivity. Qed.

Definition iff_statement : Prop :=
  forall ski_of_key verifies rs now x reg,
    clock_ok now ->
    (validate ski_of_key verifies rs now x reg = [] <-> conformant ski_of_key verifies rs now (x_first x) reg).

(* the restriction to certificates that repeat no extension is needed for the equivalence as
   stated: [conformant] asks for exactly one instance of each required extension, the
   implementation is content when every instance validates.  (Not a defect: the property text
   neither requires nor forbids accepting such a certificate.) *)
Theorem needs_unique_extensions :
  exists ski_of_key verifies rs now x reg,
    clock_ok now /\ unambiguous_anchor verifies rs now (x_first x) reg /\
    validate ski_of_key verifies rs now x reg = [] /\
    ~ conformant ski_of_key verifies rs now (x_first x) reg.
Proof.
  exists w_ski, w_verifies, Mdl, w_now, (w_chain w_ds_dup), [w_anchor w_iaca].
  split; [exact w_clock|]. split; [apply -> unambiguous_anchor_b_iff; vm_compute; reflexivity|].
  split; [vm_compute; reflexivity|].
  intro H. apply <- conformant_b_iff in H. vm_compute in H. discriminate.
Qed.

(* an issuer alternative name that names nobody is an error (since the fix e4f7676), for the
   leaf and for the IACA *)
Lemma w_empty_issuer_alt_name_rejected :
  validate w_ski w_verifies Mdl w_now (w_chain w_ds_empty_ian) [w_anchor w_iaca] = [(CtxDs, KExt XIan VIanEmpty)] /\
  validate w_ski w_verifies MdlReaderOneStep w_now (w_chain w_ds_empty_ian) [] =
    [(CtxReader, KExt XEku VValue); (CtxReader, KExt XIan VIanEmpty); (CtxReaderCa, KNoTrustAnchor)] /\
  validate w_ski w_verifies Mdl w_now (w_chain w_ds) [w_anchor w_iaca_empty_ian] = [(CtxIaca, KExt XIan VIanEmpty)].
Proof. repeat split; vm_compute; reflexivity. Qed.

(* two registry entries anchor the leaf, the second one is a conformant IACA: rejected, because
   only the first candidate is examined *)
Theorem refuted_ambiguous_anchor :
  exists ski_of_key verifies rs now x reg,
    clock_ok now /\ inputs_wf rs (x_first x) reg /\
    conformant ski_of_key verifies rs now (x_first x) reg /\
    validate ski_of_key verifies rs now x reg <> [] /\
    validate ski_of_key verifies rs now x (rev reg) = [].
Proof.
  exists w_ski, w_verifies, Mdl, w_now, (w_chain w_ds), [w_anchor w_iaca_old; w_anchor w_iaca].
  split; [exact w_clock|]. split; [apply -> inputs_wf_b_iff; vm_compute; reflexivity|].
  split; [apply -> conformant_b_iff; vm_compute; reflexivity|].
  split; [vm_compute; discriminate | vm_compute; reflexivity].
Qed.

Theorem iff_refuted : ~ iff_statement.
Proof.
  intro H. destruct refuted_ambiguous_anchor as [s [v [rs [now [x [reg [Hc [_ [Hconf [Hne _]]]]]]]]]].
  apply Hne. apply (H s v rs now x reg Hc). exact Hconf.
Qed.

(* only the first certificate of the x5chain is looked at *)
Theorem chain_tail_ignored ski_of_key verifies rs now leaf rest rest' reg :
  validate ski_of_key verifies rs now {| x_first := leaf; x_rest := rest |} reg =
  validate ski_of_key verifies rs now {| x_first := leaf; x_rest := rest' |} reg.
Proof. destruct rs; reflexivity. Qed.
