(* C19: FullDate, TDate and TDateOrFullDate realise the full-date / tdate value classes. *)
From Coq Require Import Znumtheory.
From Isomdl Require Import Lib.Bytes Lib.Utf8 Lib.Cbor Lib.GenTypes Lib.Civil.
From Isomdl Require Import Gen.Constants Model.FromJson Spec.MdlDataModel Proofs.C19Leaves.
Open Scope N_scope.

(* ---------- calendar facts ---------- *)

Lemma mod_opp_zero y k : (k <> 0)%Z -> ((- y) mod k =? 0)%Z = (y mod k =? 0)%Z.
Proof.
  intro Hk. destruct (Z.eqb_spec (y mod k) 0) as [E|E].
  - rewrite (Z_mod_zero_opp_full _ _ E). reflexivity.
  - destruct (Z.eqb_spec ((- y) mod k) 0) as [E'|E']; [|reflexivity].
    exfalso. apply E. replace y with (- - y)%Z by lia. apply Z_mod_zero_opp_full. exact E'.
Qed.

Lemma is_leap_opp y : is_leap (- y) = is_leap y.
Proof. unfold is_leap. rewrite !mod_opp_zero by lia. reflexivity. Qed.

Lemma valid_date_opp y m d : valid_date (- y) m d = valid_date y m d.
Proof. unfold valid_date, days_in_month. rewrite is_leap_opp. reflexivity. Qed.

(* ---------- FullDate ---------- *)

Lemma spec_fdf_inv s y m d : spec_full_date_fields s = Some (y, m, d) ->
  exists y1 y2 y3 y4 m1 m2 d1 d2, s = [y1; y2; y3; y4; 45; m1; m2; 45; d1; d2] /\
    digits4 y1 y2 y3 y4 = Some y /\ digits2 m1 m2 = Some m /\ digits2 d1 d2 = Some d /\
    valid_date y m d = true.
Proof.
  unfold spec_full_date_fields.
  do 11 (destruct s as [|? s]; try discriminate).
  destruct (N.eqb_spec n3 45) as [->|]; [|discriminate].
  destruct (N.eqb_spec n6 45) as [->|]; [|discriminate]. cbn [andb].
  destruct (digits4 n n0 n1 n2) as [y'|] eqn:E1; [|discriminate].
  destruct (digits2 n4 n5) as [m'|] eqn:E2; [|discriminate].
  destruct (digits2 n7 n8) as [d'|] eqn:E3; [|discriminate].
  destruct (valid_date y' m' d') eqn:V; [|discriminate].
  intro H. assert (y' = y /\ m' = m /\ d' = d) as (-> & -> & ->) by (split; [|split]; congruence).
  exists n, n0, n1, n2, n4, n5, n7, n8. repeat split; assumption.
Qed.

(* the code's parser once the optional sign has been taken off *)
Definition fd_body (neg : bool) (r : bytes) : option (Z * Z * Z) :=
  match r with
  | [y1; y2; y3; y4; c1; m1; m2; c2; d1; d2] =>
    if (c1 =? 45) && (c2 =? 45) then
      match digits4 y1 y2 y3 y4, digits2 m1 m2, digits2 d1 d2 with
      | Some y, Some m, Some d =>
        let y := if neg then (- y)%Z else y in
        if valid_date y m d then Some (y, m, d) else None
      | _, _, _ => None
      end
    else None
  | _ => None
  end.

Lemma time_date_parse_cons c r :
  time_date_parse (c :: r) = if c =? 43 then fd_body false r else if c =? 45 then fd_body true r else fd_body false (c :: r).
Proof. unfold time_date_parse. destruct (c =? 43); [reflexivity|]. destruct (c =? 45); reflexivity. Qed.

Lemma fd_body_pos r : fd_body false r = spec_full_date_fields r.
Proof. reflexivity. Qed.

Lemma fd_body_neg r : fd_body true r = match spec_full_date_fields r with
                                       | Some (y, m, d) => Some ((- y)%Z, m, d)
                                       | None => None
                                       end.
Proof.
  unfold fd_body, spec_full_date_fields.
  do 11 (destruct r as [|? r]; try reflexivity).
  destruct ((n3 =? 45) && (n6 =? 45)); [|reflexivity].
  destruct (digits4 n n0 n1 n2) as [y|]; [|reflexivity].
  destruct (digits2 n4 n5) as [m|]; [|reflexivity].
  destruct (digits2 n7 n8) as [d|]; [|reflexivity].
  rewrite valid_date_opp. destruct (valid_date y m d); reflexivity.
Qed.

Lemma spec_fdf_digit c r y m d : spec_full_date_fields (c :: r) = Some (y, m, d) -> digit_z c <> None.
Proof.
  intro H. apply spec_fdf_inv in H as (y1 & y2 & y3 & y4 & m1 & m2 & d1 & d2 & E & H4 & _).
  inversion E; subst. unfold digits4, digits2 in H4. destruct (digit_z y1); [discriminate|discriminate].
Qed.

Lemma fulldate_render_id s y m d : spec_full_date_fields s = Some (y, m, d) -> fulldate_render y m d = s.
Proof.
  intros H. apply spec_fdf_inv in H as (y1 & y2 & y3 & y4 & m1 & m2 & d1 & d2 & -> & H4 & Hm & Hd & _).
  unfold fulldate_render, fmt04.
  assert (Hr : (0 <= y < 10000)%Z).
  { apply digits4_spec in H4 as (x1 & x2 & x3 & x4 & ? & ? & ? & ? & _ & _ & _ & _ & ->). lia. }
  destruct (Z.leb_spec 0 y); [|lia]. destruct (Z.ltb_spec y 10000); [|lia]. cbn [andb].
  rewrite (pad4_digits4 _ _ _ _ _ H4), (pad2_digits2 _ _ _ Hm), (pad2_digits2 _ _ _ Hd).
  reflexivity.
Qed.

Lemma is_digit_digit_z c : is_digit c = true <-> digit_z c <> None.
Proof. unfold is_digit, digit_z. destruct ((48 <=? c) && (c <=? 57)); split; try discriminate; try reflexivity; intro H; exfalso; apply H; reflexivity. Qed.

(* positions of the separator and of the seconds in a string time's RFC 3339 parser can split *)
Lemma tdate_fields_pos s y mo d h mi sec off sep :
  tdate_fields s = Some (y, mo, d, h, mi, sec, off, sep) ->
  nth_error s 10 = Some sep /\
  exists a c, nth_error s 17 = Some a /\ nth_error s 18 = Some c /\ digits2 a c = Some sec.
Proof.
  unfold tdate_fields.
  do 19 (destruct s as [|? s]; try discriminate).
  destruct ((n3 =? 45) && (n6 =? 45) && (n12 =? 58) && (n15 =? 58)); [|discriminate].
  destruct (digits4 n n0 n1 n2); [|discriminate].
  destruct (digits2 n4 n5); [|discriminate]. destruct (digits2 n7 n8); [|discriminate].
  destruct (digits2 n10 n11); [|discriminate]. destruct (digits2 n13 n14); [|discriminate].
  destruct (digits2 n16 n17) as [sc|] eqn:E; [|discriminate].
  destruct (tdate_skip_fraction s) as [rr|]; [|discriminate]. destruct (tdate_offset rr); [|discriminate].
  intro H. assert (sc = sec /\ n9 = sep) as [-> ->] by (split; congruence).
  split; [reflexivity|]. exists n16, n17. auto.
Qed.

Lemma tdate_fields_short s : nth_error s 10 = None -> tdate_fields s = None.
Proof.
  intro H. destruct (tdate_fields s) as [[[[[[[[y mo] d] h] mi] sec] off] sep]|] eqn:F; [|reflexivity].
  apply tdate_fields_pos in F as [F _]. congruence.
Qed.

Lemma digits2_60 a c : digits2 a c = Some 60%Z <-> (a = 54 /\ c = 48).
Proof.
  split.
  - intro H. apply digits2_spec in H as (x & y & Hx & Hy & -> & -> & E). split; lia.
  - intros [-> ->]. reflexivity.
Qed.

Section Dates.
  Variable b64 : bytes -> option bytes.

  Lemma fulldate_spec ctx j : leaf_spec0 b64 ctx VFullDate j (fulldate_leaf j).
  Proof.
    unfold leaf_spec0. destruct j; try reflexivity.
    unfold fulldate_leaf, string_leaf, rbind, fulldate_parse.
    destruct s as [|c r]; [reflexivity|].
    destruct (is_digit c) eqn:Dg.
    - rewrite time_date_parse_cons.
      destruct (N.eqb_spec c 43) as [->|_]; [discriminate|]. destruct (N.eqb_spec c 45) as [->|_]; [discriminate|].
      change (fd_body false (c :: r)) with (spec_full_date_fields (c :: r)).
      destruct (spec_full_date_fields (c :: r)) as [[[y m] d]|] eqn:E.
      + cbn [den0]. change fulldate_tag with 1004. rewrite N.eqb_refl.
        unfold spec_full_date. rewrite E. rewrite (fulldate_render_id _ _ _ _ E).
        cbn [andb]. apply bytes_eqb_refl.
      + cbn [dom0]. unfold spec_full_date. rewrite E. reflexivity.
    - cbn [dom0]. unfold spec_full_date.
      destruct (spec_full_date_fields (c :: r)) as [[[y m] d]|] eqn:E; [|reflexivity].
      apply spec_fdf_digit in E. apply is_digit_digit_z in E. congruence.
  Qed.

  (* ---------- TDate ---------- *)

  Lemma tdate_fields_build y1 y2 y3 y4 m1 m2 d1 d2 sep h1 h2 i1 i2 s1 s2 rest y mo d h mi sec r off :
    digits4 y1 y2 y3 y4 = Some y -> digits2 m1 m2 = Some mo -> digits2 d1 d2 = Some d ->
    digits2 h1 h2 = Some h -> digits2 i1 i2 = Some mi -> digits2 s1 s2 = Some sec ->
    tdate_skip_fraction rest = Some r -> tdate_offset r = Some off ->
    tdate_fields (y1 :: y2 :: y3 :: y4 :: 45 :: m1 :: m2 :: 45 :: d1 :: d2 :: sep :: h1 :: h2 :: 58 :: i1 :: i2 :: 58 :: s1 :: s2 :: rest)
    = Some (y, mo, d, h, mi, sec, off, sep).
  Proof.
    intros H1 H2 H3 H4 H5 H6 H7 H8. unfold tdate_fields.
    rewrite !N.eqb_refl. cbn [andb]. rewrite H1, H2, H3, H4, H5, H6, H7, H8. reflexivity.
  Qed.

  Lemma digits4_pad4_eq z : (0 <= z < 10000)%Z ->
    digits4 (48 + Z.to_N z / 1000) (48 + (Z.to_N z / 100) mod 10) (48 + (Z.to_N z / 10) mod 10) (48 + Z.to_N z mod 10) = Some z.
  Proof. intro H. exact (digits4_pad4 z H). Qed.

  Lemma canonical_render y mo d h mi sec :
    (0 <= y < 10000)%Z -> valid_date y mo d = true ->
    (0 <= h <= 23)%Z -> (0 <= mi <= 59)%Z -> (0 <= sec <= 59)%Z ->
    spec_tdate_canonical (tdate_render y mo d h mi sec) = Some (epoch_seconds y mo d h mi sec 0).
  Proof.
    intros Hy Hv Hh Hmi Hs.
    assert (Hmd : (1 <= mo <= 12 /\ 1 <= d <= 31)%Z).
    { unfold valid_date in Hv. repeat (apply andb_true_iff in Hv as [Hv ?]).
      apply Z.leb_le in Hv. apply Z.leb_le in H. apply Z.leb_le in H0. apply Z.leb_le in H1.
      unfold days_in_month in H. destruct (mo =? 2)%Z; [destruct (is_leap y)|destruct ((mo =? 4)%Z || (mo =? 6)%Z || (mo =? 9)%Z || (mo =? 11)%Z)]; lia. }
    unfold spec_tdate_canonical, tdate_render, pad4, pad2. cbn [app].
    match goal with |- context [blen ?l] => change (blen l) with 20 end.
    rewrite N.eqb_refl.
    rewrite (tdate_fields_build _ _ _ _ _ _ _ _ 84 _ _ _ _ _ _ [90] y mo d h mi sec [90] 0%Z).
    - rewrite N.eqb_refl. cbn [nth]. rewrite N.eqb_refl. cbn [andb]. rewrite Hv. cbn [andb].
      destruct (Z.leb_spec h 23); [|lia]. destruct (Z.leb_spec mi 59); [|lia]. destruct (Z.leb_spec sec 59); [|lia].
      reflexivity.
    - apply digits4_pad4_eq; lia.
    - apply digits2_pad2; lia.
    - apply digits2_pad2; lia.
    - apply digits2_pad2; lia.
    - apply digits2_pad2; lia.
    - apply digits2_pad2; lia.
    - reflexivity.
    - reflexivity.
  Qed.

  Lemma sod_split a : (0 <= a < 86400)%Z ->
    (0 <= a / 3600 <= 23 /\ 0 <= (a mod 3600) / 60 <= 59 /\ 0 <= a mod 60 <= 59 /\
     (a / 3600) * 3600 + ((a mod 3600) / 60) * 60 + a mod 60 = a)%Z.
  Proof.
    intro H.
    pose proof (Z.div_mod a 3600 ltac:(lia)) as D1. pose proof (Z.mod_pos_bound a 3600 ltac:(lia)) as B1.
    pose proof (Z.div_mod (a mod 3600) 60 ltac:(lia)) as D2. pose proof (Z.mod_pos_bound (a mod 3600) 60 ltac:(lia)) as B2.
    assert (E : ((a mod 3600) mod 60 = a mod 60)%Z).
    { symmetry. apply Zmod_div_mod; [lia|lia|]. exists 60%Z. reflexivity. }
    rewrite E in *.
    assert (0 <= a / 3600)%Z by (apply Z.div_pos; lia).
    assert (a / 3600 < 24)%Z by (apply Z.div_lt_upper_bound; lia).
    assert (0 <= (a mod 3600) / 60)%Z by (apply Z.div_pos; lia).
    assert ((a mod 3600) / 60 < 60)%Z by (apply Z.div_lt_upper_bound; lia).
    lia.
  Qed.

  (* time's part, for a string whose seconds field is not 60 *)
  Lemma time_convert_spec s y mo d h mi sec off sep :
    tdate_fields s = Some (y, mo, d, h, mi, sec, off, sep) -> sec <> 60%Z ->
    (sep =? 84) || (sep =? 116) || (sep =? 32) = true ->
    match time_convert s with
    | Ok o => match spec_date_time s, spec_tdate_canonical o with
              | Some i, Some i' => (i =? i')%Z
              | _, _ => false
              end = true
    | Err _ => spec_date_time s = None
    | Panic _ => False
    end.
  Proof.
    intros F N60 Esep. unfold time_convert, spec_date_time, spec_date_time_instant. rewrite F, Esep.
    destruct (Z.eqb_spec sec 60) as [E60|_]; [contradiction|]. cbn [andb].
    destruct ((valid_date y mo d && (h <=? 23) && (mi <=? 59) && (sec <=? 59))%Z) eqn:V; cbn [negb]; [|reflexivity].
    set (total := epoch_seconds y mo d h mi sec off).
    pose proof (civil_from_days_spec (total / 86400)) as C.
    pose proof (civil_year_range (total / 86400)) as Y.
    pose proof (civil_year_range_conv (total / 86400)) as Y'.
    destruct (civil_from_days (total / 86400)) as [[uy um] ud]. destruct C as [Cv Cd].
    pose proof (Z.mod_pos_bound total 86400 ltac:(lia)) as Hsod.
    pose proof (Z.div_mod total 86400 ltac:(lia)) as Hdm.
    assert (Hiff : ((tdate_min <=? total) && (total <=? tdate_max))%Z = true <->
                   (days_from_civil 0 1 1 <= total / 86400 <= days_from_civil 9999 12 31)%Z).
    { unfold tdate_min, tdate_max, epoch_seconds. rewrite andb_true_iff, !Z.leb_le. split.
      - intros [R1 R2]. split.
        + apply Z.div_le_lower_bound; lia.
        + assert (total / 86400 < days_from_civil 9999 12 31 + 1)%Z; [|lia]. apply Z.div_lt_upper_bound; lia.
      - intros [R1 R2]. split; nia. }
    destruct (Z.ltb_spec 9999 uy) as [Hhi|Hhi].
    { destruct ((tdate_min <=? total) && (total <=? tdate_max))%Z; [|reflexivity].
      specialize (Y (proj1 Hiff eq_refl)). lia. }
    destruct (Z.ltb_spec uy 0) as [Hlo|Hlo].
    { destruct ((tdate_min <=? total) && (total <=? tdate_max))%Z; [|reflexivity].
      specialize (Y (proj1 Hiff eq_refl)). lia. }
    assert (R : ((tdate_min <=? total) && (total <=? tdate_max))%Z = true) by (apply Hiff, Y'; lia).
    rewrite R.
    destruct (sod_split _ Hsod) as (Hh & Hm & Hs & Hsum).
    rewrite canonical_render by (try assumption; lia).
    apply Z.eqb_eq. unfold epoch_seconds at 1. rewrite Cd. lia.
  Qed.

  Lemma time_convert_none s : tdate_fields s = None -> time_convert s = Err EParsing.
  Proof. intro F. unfold time_convert. rewrite F. reflexivity. Qed.

  Lemma tdate_spec ctx j : leaf_spec0 b64 ctx VTDate j (tdate_leaf j).
  Proof.
    unfold leaf_spec0. destruct j; try reflexivity.
    unfold tdate_leaf, string_leaf, rbind, rmap. cbn [dom0 den0].
    assert (Hgoal : match tdate_convert s with
                    | Ok o => match spec_date_time s, spec_tdate_canonical o with
                              | Some i, Some i' => (i =? i')%Z
                              | _, _ => false
                              end = true
                    | Err _ => spec_date_time s = None
                    | Panic _ => False
                    end).
    { unfold tdate_convert.
      destruct (tdate_fields s) as [[[[[[[[y mo] d] h] mi] sec] off] sep]|] eqn:F.
      - destruct (tdate_fields_pos _ _ _ _ _ _ _ _ _ F) as (P10 & a & c & P17 & P18 & Dsec).
        rewrite P10, P17, P18.
        destruct ((sep =? 84) || (sep =? 116) || (sep =? 32)) eqn:Esep.
        + destruct ((a =? 54) && (c =? 48)) eqn:E60.
          * apply andb_true_iff in E60 as [Ea Ec]. apply N.eqb_eq in Ea. apply N.eqb_eq in Ec.
            assert (sec = 60%Z) by (assert (X : digits2 a c = Some 60%Z) by (apply digits2_60; auto); congruence).
            subst sec. unfold spec_date_time, spec_date_time_instant. rewrite F, Esep. cbn [andb].
            rewrite !andb_false_r. reflexivity.
          * apply (time_convert_spec s y mo d h mi sec off sep F); [|exact Esep].
            intro X. subst sec. apply digits2_60 in Dsec as [-> ->]. discriminate.
        + unfold spec_date_time, spec_date_time_instant. rewrite F, Esep. reflexivity.
      - assert (Hn : spec_date_time s = None) by (unfold spec_date_time, spec_date_time_instant; rewrite F; reflexivity).
        rewrite (time_convert_none s F).
        destruct (nth_error s 10) as [sep|]; [|exact Hn].
        destruct ((sep =? 84) || (sep =? 116) || (sep =? 32)); [|exact Hn].
        destruct (nth_error s 17) as [a|]; [|exact Hn]. destruct (nth_error s 18) as [c|]; [|exact Hn].
        destruct ((a =? 54) && (c =? 48)); exact Hn. }
    destruct (tdate_convert s) as [o|e|p].
    - change tdate_tag with 0. rewrite N.eqb_refl. exact Hgoal.
    - rewrite Hgoal. reflexivity.
    - exact Hgoal.
  Qed.

  Lemma tdate_or_fulldate_spec ctx j : leaf_spec0 b64 ctx VTDateOrFullDate j (tdate_or_fulldate_leaf j).
  Proof.
    unfold leaf_spec0. destruct j; try reflexivity.
    pose proof (tdate_spec ctx (JStr s)) as T. pose proof (fulldate_spec ctx (JStr s)) as D.
    unfold leaf_spec0 in T, D. unfold tdate_or_fulldate_leaf.
    destruct (tdate_leaf (JStr s)) as [v|e|p].
    - cbn [den0] in T. destruct v; try discriminate. destruct v; try discriminate.
      cbn [den0]. rewrite T. reflexivity.
    - cbn [dom0] in T.
      destruct (fulldate_leaf (JStr s)) as [v|e'|p].
      + cbn [den0] in D. destruct v; try discriminate. destruct v; try discriminate.
        cbn [den0]. rewrite D. apply orb_true_r.
      + cbn [dom0] in *. destruct (spec_date_time s); [discriminate|exact D].
      + exact D.
    - exact T.
  Qed.
End Dates.
