From Isomdl Require Import Lib.Bytes Lib.Cbor Proofs.CborProofs Model.Cose Model.KeySchedule Model.ReaderAuth Model.DeviceReaderAuth
  Spec.CoseRfc Spec.ReaderAuthSpec Proofs.CoseProofs Proofs.KeyScheduleProofs.
Open Scope N_scope.

Definition authentic (de erk : bytes) (ho : cbor) (r : docreq) : Prop :=
  exists c, dr_reader_auth r = Some c /\ c_payload c = None /\
    dr_x5 r = X5Chain /\ dr_chain_valid r = true /\ dr_key_ok r = true /\
    alg_gate (dr_verifier r) (alg_of_protected (c_protected c)) = true /\
    v_parse (dr_verifier r) (c_sig c) = true /\
    v_check (dr_verifier r) (iso_reader_tbs (c_protected c) de erk ho (dr_items r)) (c_sig c) = true.

Lemma reader_auth_ok_iff de erk ho r : reader_auth_ok de erk ho r = true <-> authentic de erk ho r.
Proof.
  unfold reader_auth_ok, authentic. split.
  - destruct (dr_reader_auth r) as [c|]; [|discriminate].
    destruct (dr_x5 r); try discriminate.
    destruct (dr_chain_valid r); [|discriminate]. destruct (dr_key_ok r); [|discriminate]. cbn [andb].
    destruct (verify ctx_sign1 (dr_verifier r) c _ None) eqn:Ev; try discriminate. intros _.
    apply verify_iff in Ev as [Hg [p [Hp [Hs Hc]]]].
    destruct (c_payload c) eqn:Ecp; cbn [exactly_one] in Hp; [discriminate|]. inversion Hp; subst p.
    exists c. repeat split; try assumption; reflexivity.
  - intros [c [-> [Hp [-> [-> [-> [Hg [Hs Hc]]]]]]]]. cbn [andb].
    assert (Hv : verify ctx_sign1 (dr_verifier r) c (Some (reader_authentication_bytes de erk ho (dr_items r))) None = VSuccess).
    { apply verify_iff. split; [exact Hg|]. exists (reader_authentication_bytes de erk ho (dr_items r)).
      rewrite Hp. repeat split; assumption. }
    rewrite Hv. reflexivity.
Qed.

Theorem valid_only_if de erk ho reqs :
  request_status de erk ho reqs = Valid -> reqs <> [] /\ forall r, In r reqs -> authentic de erk ho r.
Proof.
  unfold request_status. destruct reqs as [|r0 rs]; [discriminate|].
  destruct (forallb (reader_auth_ok de erk ho) (r0 :: rs)) eqn:E; [|discriminate]. intros _.
  split; [discriminate|]. intros r Hin. rewrite forallb_forall in E. apply reader_auth_ok_iff. apply E. exact Hin.
Qed.

Theorem complete de erk ho reqs :
  reqs <> [] -> (forall r, In r reqs -> authentic de erk ho r) -> request_status de erk ho reqs = Valid.
Proof.
  intros Hne H. unfold request_status. destruct reqs as [|r0 rs]; [contradiction|].
  assert (E : forallb (reader_auth_ok de erk ho) (r0 :: rs) = true).
  { apply forallb_forall. intros r Hin. apply reader_auth_ok_iff. apply H. exact Hin. }
  rewrite E. reflexivity.
Qed.

Theorem absent_not_valid de erk ho reqs r :
  In r reqs -> dr_reader_auth r = None -> request_status de erk ho reqs <> Valid.
Proof.
  intros Hin Hn Hv. apply valid_only_if in Hv as [_ Hv]. destruct (Hv r Hin) as [c [Hc _]]. congruence.
Qed.

Theorem untrusted_not_valid de erk ho reqs r :
  In r reqs -> dr_chain_valid r = false -> request_status de erk ho reqs <> Valid.
Proof.
  intros Hin Hn Hv. apply valid_only_if in Hv as [_ Hv]. destruct (Hv r Hin) as [c [_ [_ [_ [Hc _]]]]]. congruence.
Qed.

(* another session or other items give different signed bytes *)
Theorem rab_injective de erk ho items de' erk' ho' items' :
  cbor_ok (iso_reader_authentication de erk ho items) -> cbor_ok (iso_reader_authentication de' erk' ho' items') ->
  encode (iso_reader_authentication de erk ho items) = encode (iso_reader_authentication de' erk' ho' items') ->
  de = de' /\ erk = erk' /\ ho = ho' /\ items = items'.
Proof.
  intros [W L] [W' L'] E. apply encode_injective in E; try assumption.
  unfold iso_reader_authentication in E. inversion E; subst. repeat split; reflexivity.
Qed.
