(* C19: every type name realises its value class (induction on the nesting depth), and the two
   namespace structs realise the data-model tables. *)
From Isomdl Require Import Lib.Bytes Lib.Utf8 Lib.Cbor Lib.GenTypes Lib.Civil.
From Isomdl Require Import Gen.Constants Gen.Tables Gen.Fields Model.FromJson Spec.MdlDataModel.
From Isomdl Require Import Proofs.C19Tables Proofs.C19Leaves Proofs.C19Dates Proofs.C19Struct.
Open Scope N_scope.

(* ---------- jget ---------- *)

Lemma jget_In k kvs j : jget k kvs = Some j -> In (k, j) kvs.
Proof.
  induction kvs as [|[k' v] r IH]; cbn [jget]; [discriminate|].
  destruct (bytes_eqb k k') eqn:E.
  - intro H; inversion H; subst. apply bytes_eqb_eq in E. subst. left; reflexivity.
  - intro H. right. apply IH, H.
Qed.

Lemma jget_None k kvs : jget k kvs = None -> ~ In k (map fst kvs).
Proof.
  induction kvs as [|[k' v] r IH]; cbn [jget map fst In]; [tauto|].
  destruct (bytes_eqb k k') eqn:E; [discriminate|].
  intros H [X|X]; [subst; rewrite bytes_eqb_refl in E; discriminate|apply (IH H X)].
Qed.

Lemma In_jget kvs k j : NoDup (map fst kvs) -> In (k, j) kvs -> jget k kvs = Some j.
Proof.
  induction kvs as [|[k' v] r IH]; [intros _ []|]. cbn [map fst jget]. intro N. inversion N as [|? ? Hn Hd]; subst.
  intros [H|H].
  - inversion H; subst. rewrite bytes_eqb_refl. reflexivity.
  - destruct (bytes_eqb k k') eqn:E.
    + apply bytes_eqb_eq in E. subst. exfalso. apply Hn. apply (in_map fst) in H. exact H.
    + apply IH; assumption.
Qed.

Section Main.
  Variable b64 : bytes -> option bytes.

  Definition LS (f : nat) (n : ns) (ctx : list (bytes * json)) (c : vclass) (j : json) (r : res cbor) : Prop :=
    match r with
    | Ok v => den b64 f n ctx c j v = true /\ dom b64 f n ctx c j = true
    | Err _ => dom b64 f n ctx c j = false
    | Panic _ => False
    end.

  Definition is_scalar (c : vclass) : bool :=
    match c with VArray _ | VNonEmptyArray _ | VRecord _ => false | _ => true end.

  Lemma den_scalar f n ctx c j v : is_scalar c = true -> den b64 f n ctx c j v = den0 b64 ctx c j v.
  Proof. destruct f, c; try discriminate; reflexivity. Qed.
  Lemma dom_scalar f n ctx c j : is_scalar c = true -> dom b64 f n ctx c j = dom0 b64 ctx c j.
  Proof. destruct f, c; try discriminate; reflexivity. Qed.

  Lemma den0_dom0 ctx c j v : den0 b64 ctx c j v = true -> dom0 b64 ctx c j = true.
  Proof.
    destruct c; destruct j; try discriminate; destruct v; try discriminate; cbn [den0 dom0]; intro H;
      try reflexivity.
    - apply andb_true_iff in H as [H _]. exact H.
    - destruct v; try discriminate. apply andb_true_iff in H as [H _]. apply andb_true_iff in H as [_ H]. exact H.
    - destruct v; try discriminate. apply andb_true_iff in H as [_ H]. destruct (spec_date_time s); [reflexivity|discriminate].
    - destruct v; try discriminate. destruct (spec_date_time s); [reflexivity|].
      rewrite andb_false_r in H. cbn [orb] in H. apply andb_true_iff in H as [H _]. apply andb_true_iff in H as [_ H]. exact H.
    - destruct (b64 s); [reflexivity|discriminate].
    - apply andb_true_iff in H as [H _]. exact H.
    - apply andb_true_iff in H as [H1 H2]. apply bytes_eqb_eq in H2. subst. exact H1.
    - apply andb_true_iff in H as [H1 H2]. apply N.eqb_eq in H2. subst. exact H1.
    - apply andb_true_iff in H as [H _]. exact H.
    - apply andb_true_iff in H as [H _]. exact H.
    - apply andb_true_iff in H as [_ H]. exact H.
  Qed.

  Lemma den0_null ctx c v : den0 b64 ctx c JNull v = false.
  Proof. destruct c; reflexivity. Qed.
  Lemma den_null f n ctx c v : den b64 f n ctx c JNull v = false.
  Proof. destruct f, c; reflexivity. Qed.
  Lemma dom_null f n ctx c : dom b64 f n ctx c JNull = false.
  Proof. destruct f, c; reflexivity. Qed.

  Lemma LS_scalar f n ctx c j r : is_scalar c = true -> leaf_spec0 b64 ctx c j r -> LS f n ctx c j r.
  Proof.
    intros S H. unfold LS, leaf_spec0 in *.
    destruct r as [v|e|p].
    - rewrite den_scalar, dom_scalar by exact S. split; [exact H|apply (den0_dom0 _ _ _ _ H)].
    - rewrite dom_scalar by exact S. exact H.
    - exact H.
  Qed.

  (* ---------- collections ---------- *)

  Lemma collect_spec f n c g js :
    (forall j, In j js -> LS f n [] c j (g j)) ->
    match collect_res g js with
    | Ok vs => forall2b (den b64 f n [] c) js vs = true /\ forallb (dom b64 f n [] c) js = true
    | Err _ => forallb (dom b64 f n [] c) js = false
    | Panic _ => False
    end.
  Proof.
    induction js as [|j js IH]; intros H; cbn [collect_res]; [split; reflexivity|].
    pose proof (H j (or_introl eq_refl)) as Hj. unfold LS in Hj.
    assert (IH' := IH (fun j' Hin => H j' (or_intror Hin))). clear IH.
    destruct (g j) as [v|e|p].
    - destruct Hj as [Hd Ho]. destruct (collect_res g js) as [vs|e|p].
      + destruct IH' as [A B]. cbn [forall2b forallb]. rewrite Hd, Ho, A, B. split; reflexivity.
      + cbn [forallb]. rewrite IH'. apply andb_false_r.
      + exact IH'.
    - cbn [forallb]. rewrite Hj. reflexivity.
    - exact Hj.
  Qed.

  Lemma untext_map (m : list (bytes * cbor)) : untext (map (fun kv => (CText (fst kv), snd kv)) m) = Some m.
  Proof. induction m as [|[k v] m IH]; cbn [map untext fst snd]; [reflexivity|]. rewrite IH. reflexivity. Qed.

  (* ---------- regular fields of a derived struct ---------- *)

  Lemma regular_field_ok f n mleaf fds dm kvs f0 r :
    (forall x c' ctx' j', class_of_name n x = Some c' -> LS f n ctx' c' j' (name_leaf b64 f n x j')) ->
    row_of_field n f0 = Some r -> fd_many f0 || fd_dyn f0 = false -> In r dm ->
    field_ok (ty_leaf (name_leaf b64 f n)) mleaf (den b64 f n kvs) (dom b64 f n kvs) fds dm kvs f0 r.
  Proof.
    intros IH Hrow Hreg Hin. unfold field_ok, field_from_json. rewrite Hreg.
    assert (Hm : fd_many f0 = false) by (destruct (fd_many f0); [discriminate|reflexivity]).
    unfold row_of_field in Hrow. rewrite Hreg in Hrow.
    destruct (fd_ty f0) as [x|t| |] eqn:T; try discriminate.
    - (* mandatory *)
      destruct (class_of_name n x) as [c'|] eqn:C; [|discriminate]. cbn [option_map] in Hrow.
      inversion Hrow; subst r. cbn [dm_id dm_class dm_presence] in *. clear Hrow.
      destruct (jget (fd_wire f0) kvs) as [v|] eqn:J.
      + cbn [ty_leaf]. pose proof (IH x c' kvs v C) as L. unfold LS in L.
        destruct (name_leaf b64 f n x v) as [cv|e|p]; cbn [rmap].
        * destruct L as [Ld Lo]. intros _. split.
          -- unfold row_dom. cbn [dm_presence dm_id dm_class]. rewrite J. exact Lo.
          -- cbn [dm_presence dm_id dm_class]. split; [exact Hm|]. split; [reflexivity|]. exists v, cv. auto.
        * rewrite record_dom_rows. eapply forallb_false; [exact Hin|].
          unfold row_dom. cbn [dm_presence dm_id dm_class]. rewrite J. exact L.
        * exact L.
      + rewrite record_dom_rows. eapply forallb_false; [exact Hin|].
        unfold row_dom. cbn [dm_presence dm_id dm_class]. rewrite J. reflexivity.
    - (* optional *)
      destruct t as [x| | |]; try discriminate.
      destruct (class_of_name n x) as [c'|] eqn:C; [|discriminate]. cbn [option_map] in Hrow.
      inversion Hrow; subst r. cbn [dm_id dm_class dm_presence] in *. clear Hrow.
      destruct (jget (fd_wire f0) kvs) as [v|] eqn:J.
      + assert (Hnn : is_null v = false ->
                 match rmap FVal (ty_leaf (name_leaf b64 f n) (TName x) v) with
                 | Ok fv => (forall f', In f' fds -> exists fv', field_from_json (ty_leaf (name_leaf b64 f n)) mleaf f' kvs = Ok fv') ->
                            field_post (den b64 f n kvs) (dom b64 f n kvs)
                              {| dm_id := fd_wire f0; dm_class := c'; dm_presence := Optional |} kvs f0 fv
                 | Err _ => record_dom (dom b64 f n kvs) dm kvs = false
                 | Panic _ => False
                 end).
        { intro Hv. cbn [ty_leaf]. pose proof (IH x c' kvs v C) as L. unfold LS in L.
          destruct (name_leaf b64 f n x v) as [cv|e|p]; cbn [rmap].
          - destruct L as [Ld Lo]. intros _. split.
            + unfold row_dom. cbn [dm_presence dm_id dm_class]. rewrite J, Lo. apply orb_true_r.
            + cbn [dm_presence dm_id dm_class]. split; [exact Hm|]. split; [reflexivity|]. right. exists v, cv. auto.
          - rewrite record_dom_rows. eapply forallb_false; [exact Hin|].
            unfold row_dom. cbn [dm_presence dm_id dm_class]. rewrite J, L, Hv. reflexivity.
          - exact L. }
        destruct v; try (apply Hnn; reflexivity).
        intros _. split.
        * unfold row_dom. cbn [dm_presence dm_id dm_class]. rewrite J. reflexivity.
        * cbn [dm_presence dm_id dm_class]. split; [exact Hm|]. split; [reflexivity|]. left. split; [reflexivity|].
          unfold supplied. rewrite J. reflexivity.
      + intros _. split.
        * unfold row_dom. cbn [dm_presence dm_id dm_class]. rewrite J. reflexivity.
        * cbn [dm_presence dm_id dm_class]. split; [exact Hm|]. split; [reflexivity|]. left. split; [reflexivity|].
          unfold supplied. rewrite J. reflexivity.
  Qed.

  (* ---------- derived structs and newtypes over Vec / NonEmptyVec ---------- *)

  Definition IHn (f : nat) (n : ns) : Prop :=
    forall x c' ctx' j', class_of_name n x = Some c' -> LS f n ctx' c' j' (name_leaf b64 f n x j').

  Lemma struct_name_spec f n name fds ctx j :
    (forall j', name_leaf b64 (S f) n name j' = struct_leaf (ty_leaf (name_leaf b64 f n)) no_map_leaf fds j') ->
    map (row_of_field n) fds = map Some (spec_struct n name) ->
    dm_wf_b (spec_struct n name) = true ->
    forallb (fun fd => negb (fd_many fd || fd_dyn fd)) fds = true ->
    IHn f n ->
    LS (S f) n ctx (VRecord name) j (name_leaf b64 (S f) n name j).
  Proof.
    intros Hnl Hiso Hwf Hreg IH. rewrite Hnl. unfold LS, struct_leaf.
    destruct j; try reflexivity.
    pose proof (struct_spec n (ty_leaf (name_leaf b64 f n)) no_map_leaf (den b64 f n kvs) (dom b64 f n kvs)
                  (den_null f n kvs) fds (spec_struct n name) kvs Hiso (dm_wf_b_spec _ Hwf)) as S.
    assert (Hf : forall f0 r, In f0 fds -> row_of_field n f0 = Some r ->
                 field_ok (ty_leaf (name_leaf b64 f n)) no_map_leaf (den b64 f n kvs) (dom b64 f n kvs) fds (spec_struct n name) kvs f0 r).
    { intros f0 r Hin Hrow. apply regular_field_ok; try assumption.
      - rewrite forallb_forall in Hreg. specialize (Hreg f0 Hin). destruct (fd_many f0 || fd_dyn f0); [discriminate|reflexivity].
      - apply (in_map (row_of_field n)) in Hin. rewrite Hiso, Hrow in Hin.
        apply in_map_iff in Hin as (r' & E & Hr'). congruence. }
    specialize (S Hf).
    destruct (struct_from_json (ty_leaf (name_leaf b64 f n)) no_map_leaf fds (JObj kvs)) as [vals|e|p]; cbn [rmap].
    - cbn [den dom]. rewrite untext_map. exact S.
    - cbn [dom]. exact S.
    - exact S.
  Qed.

  Lemma vec_name_spec f n name e c' ctx j :
    (forall j', name_leaf b64 (S f) n name j' = ty_leaf (name_leaf b64 f n) (TVec (TName e)) j') ->
    class_of_name n e = Some c' -> IHn f n ->
    LS (S f) n ctx (VArray c') j (name_leaf b64 (S f) n name j).
  Proof.
    intros Hnl Hc IH. rewrite Hnl. unfold LS. cbn [ty_leaf].
    destruct j; try reflexivity.
    pose proof (collect_spec f n c' (name_leaf b64 f n e) l (fun j' _ => IH e c' [] j' Hc)) as C.
    destruct (collect_res (name_leaf b64 f n e) l) as [vs|er|p]; cbn [rmap den dom]; exact C.
  Qed.

  Lemma nevec_name_spec f n name e c' ctx j :
    (forall j', name_leaf b64 (S f) n name j' = ty_leaf (name_leaf b64 f n) (TNonEmptyVec (TName e)) j') ->
    class_of_name n e = Some c' -> IHn f n ->
    LS (S f) n ctx (VNonEmptyArray c') j (name_leaf b64 (S f) n name j).
  Proof.
    intros Hnl Hc IH. rewrite Hnl. unfold LS. cbn [ty_leaf].
    destruct j; try reflexivity.
    pose proof (collect_spec f n c' (name_leaf b64 f n e) l (fun j' _ => IH e c' [] j' Hc)) as C.
    destruct l as [|j0 l'].
    - cbn [collect_res]. reflexivity.
    - destruct (collect_res (name_leaf b64 f n e) (j0 :: l')) as [vs|er|p]; cbn [den dom].
      + destruct vs as [|v0 vs']; [destruct C as [C _]; cbn [forall2b] in C; discriminate|]. exact C.
      + exact C.
      + exact C.
  Qed.

  (* ---------- every type name realises its class ---------- *)

  Ltac scalar_name lem := apply LS_scalar; [reflexivity | exact lem].

  Ltac try_scalars ctx j :=
    first
      [ scalar_name (text_spec b64 ctx j) | scalar_name (u32_spec b64 ctx j) | scalar_name (latin1_spec b64 ctx j)
      | scalar_name (fulldate_spec b64 ctx j) | scalar_name (tdate_spec b64 ctx j)
      | scalar_name (tdate_or_fulldate_spec b64 ctx j) | scalar_name (bytes_spec b64 ctx j)
      | scalar_name (county_spec b64 ctx j) | scalar_name (present_spec b64 ctx j)
      | scalar_name (codetext_spec b64 ctx _ _ _ j alpha2_ok eq_refl)
      | scalar_name (codetext_spec b64 ctx _ _ _ j eye_ok eq_refl)
      | scalar_name (codetext_spec b64 ctx _ _ _ j hair_ok eq_refl)
      | scalar_name (codetext_spec b64 ctx _ _ _ j vcc_ok eq_refl)
      | scalar_name (codetext_spec b64 ctx _ _ _ j suffix_ok eq_refl)
      | scalar_name (codetext_spec b64 ctx _ _ _ j trunc_ok eq_refl)
      | scalar_name (codetext_spec b64 ctx _ _ _ j race_ok eq_refl)
      | scalar_name (codetext_spec b64 ctx _ _ _ j dhs_ok eq_refl)
      | scalar_name (freecode_spec b64 ctx _ j unsign_rt eq_refl eq_refl)
      | scalar_name (codeuint_spec b64 ctx _ _ j sex_ok eq_refl)
      | scalar_name (codeuint_spec b64 ctx _ _ j aamva_sex_ok eq_refl)
      | scalar_name (codeuint_spec b64 ctx _ _ j weight_ok eq_refl)
      | scalar_name (codeuint_spec b64 ctx _ _ j edl_ok eq_refl) ].

  Ltac name_case H :=
    match type of H with
    | (if bytes_eqb ?name ?lit then _ else _) = Some _ =>
      let E := fresh "E" in
      destruct (bytes_eqb name lit) eqn:E;
      [apply bytes_eqb_eq in E; subst name; injection H as H; subst | ]
    end.

  Theorem name_leaf_spec : forall f n, IHn f n.
  Proof.
    induction f as [|f IHf]; intros n name c ctx j Hc.
    - (* depth 0: scalars only; a struct name yields Err and its class has an empty domain *)
      unfold class_of_name in Hc. cbv zeta in Hc.
      repeat (name_case Hc; [try_scalars ctx j|]).
      destruct n; repeat (name_case Hc; [first [try_scalars ctx j | reflexivity]|]); discriminate.
    - specialize (IHf n). unfold class_of_name in Hc. cbv zeta in Hc.
      repeat (name_case Hc; [try_scalars ctx j|]).
      destruct n;
        repeat (name_case Hc;
                [first [try_scalars ctx j
                       | eapply struct_name_spec; [intros; reflexivity | vm_compute; reflexivity | vm_compute; reflexivity | vm_compute; reflexivity | exact IHf]
                       | eapply vec_name_spec; [intros; reflexivity | reflexivity | exact IHf]
                       | eapply nevec_name_spec; [intros; reflexivity | reflexivity | exact IHf] ]|]);
        discriminate.
  Qed.
End Main.

