From Isomdl Require Import Lib.Bytes Gen.Constants Model.Iv Model.Session Spec.IsoIv.
Open Scope N_scope.

Lemma identifier_iso r : identifier r = iso_identifier r.
Proof. destruct r; reflexivity. Qed.

Lemma iv_iso r n : iv r n = iso_iv r n.
Proof. unfold iv, iso_iv. rewrite identifier_iso. reflexivity. Qed.

Lemma app_inj_pref {X} (a a' b b' : list X) : a ++ b = a' ++ b' -> length a = length a' -> a = a' /\ b = b'.
Proof.
  revert a'; induction a as [|x a IH]; intros [|y a'] E L; cbn in *; try discriminate.
  - split; [reflexivity|exact E].
  - inversion E; subst. destruct (IH a' H1) as [-> ->]; [congruence|]. split; reflexivity.
Qed.

Lemma incr_small c : c + 1 < two32 -> incr c = c + 1.
Proof. intro H. unfold incr. apply N.mod_small. exact H. Qed.

Lemma iso_iv_inj r r' n m : n < two32 -> m < two32 -> iso_iv r n = iso_iv r' m -> r = r' /\ n = m.
Proof.
  intros Hn Hm E. unfold iso_iv in E.
  assert (Hl : length (iso_identifier r) = length (iso_identifier r')) by (destruct r, r'; reflexivity).
  apply app_inj_pref in E; [|exact Hl]. destruct E as [Ei Eb]. split.
  - destruct r, r'; try reflexivity; discriminate.
  - apply (be_bytes_inj 4); [exact Hn|exact Hm|exact Eb].
Qed.

Definition ems_of (r : role) (ems : list emission) : list emission :=
  filter (fun e => role_eqb (em_role e) r) ems.

Definition ctr (r : role) (s : sys) : N :=
  match r with Reader => r_send (s_rdr s) | Device => d_send (s_dev s) end.
Definition key (r : role) (s : sys) : N :=
  match r with Reader => r_kr (s_rdr s) | Device => d_kd (s_dev s) end.

(* a message whose IV carries counter `crafted` opens under the IV the receiver computes from its receive counter `ctr`
   exactly when it is the next message: there is no counter below 2^32 that "comes round again" *)
Lemma far_accept_iff r ctr crafted :
  ctr + 1 < two32 -> crafted < two32 ->
  (bytes_eqb (snd (next_iv r ctr)) (iv r crafted) = true <-> crafted = ctr + 1).
Proof.
  intros Hc Hm. unfold next_iv. cbn [snd]. rewrite incr_small by exact Hc. rewrite !iv_iso.
  rewrite bytes_eqb_eq. split.
  - intro H. apply iso_iv_inj in H; [destruct H as [_ H]; symmetry; exact H | exact Hc | exact Hm].
  - intro H. rewrite H. reflexivity.
Qed.

Lemma ems_of_app r a b : ems_of r (a ++ b) = ems_of r a ++ ems_of r b.
Proof. apply filter_app. Qed.

(* finalisation: at most one emission, of the device, under the next device counter *)
Lemma dev_finalize_spec d d' em :
  dev_finalize d = (d', em) ->
  d_kr d' = d_kr d /\ d_kd d' = d_kd d /\ d_recv d' = d_recv d /\
  ((em = [] /\ d_send d' = d_send d) \/
   (exists p, em = [{| em_role := Device; em_key := d_kd d; em_iv := iv Device (incr (d_send d)); em_plain := p |}]
              /\ d_send d' = incr (d_send d))).
Proof.
  unfold dev_finalize. destruct (d_state d) as [|p|m]; intro H.
  - inversion H; subst. repeat split; try reflexivity. left; split; reflexivity.
  - destruct (pr_prepared p).
    + unfold next_iv in H. inversion H; subst; clear H. cbn. repeat split; try reflexivity.
      right. eexists. split; reflexivity.
    + inversion H; subst. repeat split; try reflexivity. left; split; reflexivity.
  - inversion H; subst. repeat split; try reflexivity. left; split; reflexivity.
Qed.

Definition dev_only_emission (s : sys) (d' : dev) (em : list emission) : Prop :=
  d_kr d' = d_kr (s_dev s) /\ d_kd d' = d_kd (s_dev s) /\
  ((em = [] /\ d_send d' = d_send (s_dev s)) \/
   (exists p, em = [{| em_role := Device; em_key := d_kd (s_dev s); em_iv := iv Device (incr (d_send (s_dev s))); em_plain := p |}]
              /\ d_send d' = incr (d_send (s_dev s)))).

Lemma dev_only_step s d' em r :
  dev_only_emission s d' em ->
  let s' := {| s_dev := d'; s_rdr := s_rdr s |} in
  key r s' = key r s /\
    ((ems_of r em = [] /\ ctr r s' = ctr r s) \/
     (exists p, ems_of r em = [{| em_role := r; em_key := key r s; em_iv := iv r (incr (ctr r s)); em_plain := p |}]
                /\ ctr r s' = incr (ctr r s))).
Proof.
  intros [Hkr [Hkd H]]. cbv zeta. destruct r; cbn [key ctr s_dev s_rdr].
  - split; [reflexivity|]. left. split; [|reflexivity].
    destruct H as [[-> _]|[p [-> _]]]; reflexivity.
  - split; [exact Hkd|]. destruct H as [[-> Hs]|[p [-> Hs]]].
    + left. split; [reflexivity|exact Hs].
    + right. exists p. split; [reflexivity|exact Hs].
Qed.

(* one step: at most one emission; it uses the next counter value of its role *)
Lemma step_emission s o s' x em :
  step s o = (s', x, em) ->
  forall r, key r s' = key r s /\
    ((ems_of r em = [] /\ ctr r s' = ctr r s) \/
     (exists p, ems_of r em = [{| em_role := r; em_key := key r s; em_iv := iv r (incr (ctr r s)); em_plain := p |}]
                /\ ctr r s' = incr (ctr r s))).
Proof.
  assert (Hnone : forall r, key r s = key r s /\
    ((ems_of r [] = [] /\ ctr r s = ctr r s) \/
     (exists p, ems_of r [] = [{| em_role := r; em_key := key r s; em_iv := iv r (incr (ctr r s)); em_plain := p |}]
                /\ ctr r s = incr (ctr r s)))).
  { intro r. split; [reflexivity|]. left. split; reflexivity. }
  destruct o; cbn [step]; intro H.
  - (* new request *)
    unfold rdr_new_request, next_iv in H. inversion H; subst; clear H.
    intros [|]; cbn; (split; [reflexivity|]); [right; eexists; split; reflexivity|left; split; reflexivity].
  - (* handle request *)
    destruct (dev_handle_request (s_dev s) w) as [[d' ro] em'] eqn:E. inversion H; subst; clear H.
    intro r. apply dev_only_step. unfold dev_only_emission.
    unfold dev_handle_request, next_iv in E.
    destruct w as [| |c]; try (inversion E; subst; repeat split; try reflexivity; left; split; reflexivity).
    destruct (decrypt _ _ c) as [pl|].
    + destruct pl;
        try (inversion E; subst; cbn; repeat split; try reflexivity; left; split; reflexivity);
        match type of E with context [dev_finalize ?x] => destruct (dev_finalize x) as [d'' em''] eqn:Ef end;
        inversion E; subst; apply dev_finalize_spec in Ef; cbn in Ef;
        destruct Ef as [H1 [H2 [_ H4]]]; repeat split; assumption.
    + inversion E; subst; cbn; repeat split; try reflexivity; left; split; reflexivity.
  - (* prepare *)
    destruct (dev_prepare (s_dev s) docs errs) as [d' em'] eqn:E. inversion H; subst; clear H.
    intro r. apply dev_only_step. unfold dev_only_emission.
    unfold dev_prepare in E. apply dev_finalize_spec in E. cbn in E.
    destruct E as [H1 [H2 [_ H4]]]. repeat split; assumption.
  - inversion H; subst; clear H. exact Hnone.
  - (* submit *)
    destruct (dev_submit (s_dev s) sg) as [d' em'] eqn:E. inversion H; subst; clear H.
    intro r. apply dev_only_step. unfold dev_only_emission.
    unfold dev_submit in E. destruct (d_state (s_dev s)) as [|p|m] eqn:Est.
    + inversion E; subst. repeat split; try reflexivity. left; split; reflexivity.
    + apply dev_finalize_spec in E. cbn in E. destruct E as [H1 [H2 [_ H4]]]. repeat split; assumption.
    + inversion E; subst. repeat split; try reflexivity. left; split; reflexivity.
  - inversion H; subst; clear H. exact Hnone.
  - (* retrieve *)
    destruct (dev_retrieve (s_dev s)) as [d' w] eqn:E. inversion H; subst; clear H.
    intro r. apply dev_only_step. unfold dev_only_emission.
    unfold dev_retrieve in E. destruct (d_state (s_dev s)); inversion E; subst; cbn;
      repeat split; try reflexivity; left; split; reflexivity.
  - (* handle response *)
    destruct (rdr_handle_response (s_rdr s) w) as [r' ro] eqn:E. inversion H; subst; clear H.
    unfold rdr_handle_response, next_iv in E.
    assert (Hk : r_kr r' = r_kr (s_rdr s) /\ r_send r' = r_send (s_rdr s)).
    { destruct w as [| |c]; try (inversion E; subst; split; reflexivity).
      destruct (decrypt _ _ c) as [[]|]; inversion E; subst; split; reflexivity. }
    destruct Hk as [Hk1 Hk2].
    intros [|]; cbn; (split; [try reflexivity; exact Hk1|]); left; split; try reflexivity. exact Hk2.
  - inversion H; subst; clear H. exact Hnone.
  - inversion H; subst; clear H. exact Hnone.
Qed.

(* all emissions of one role in a run: keys constant, IV counters consecutive from ctr + 1 *)
Lemma run_emissions ops : forall s s' xs ems r,
  run ops s = (s', xs, ems) ->
  ctr r s + N.of_nat (length (ems_of r ems)) < two32 ->
  map (fun e => (em_role e, em_key e, em_iv e)) (ems_of r ems)
    = map (fun i => (r, key r s, iv r (ctr r s + 1 + N.of_nat i))) (seq 0 (length (ems_of r ems)))
  /\ ctr r s' = ctr r s + N.of_nat (length (ems_of r ems)) /\ key r s' = key r s.
Proof.
  induction ops as [|o ops IH]; intros s s' xs ems r H Hb; cbn [run] in H.
  - inversion H; subst. cbn. split; [reflexivity|]. split; [lia|reflexivity].
  - destruct (step s o) as [[s1 x] em] eqn:Es.
    destruct (run ops s1) as [[s2 xs'] ems'] eqn:Er. inversion H; subst; clear H.
    rewrite ems_of_app in *. rewrite app_length in *.
    destruct (step_emission _ _ _ _ _ Es r) as [Hk [[He Hc]|[p [He Hc]]]].
    + rewrite He in *. cbn [app length] in *.
      specialize (IH s1 s' xs' ems' r Er). rewrite Hc, Hk in IH. apply IH. lia.
    + rewrite He in *. cbn [app length map] in *.
      assert (Hs : incr (ctr r s) = ctr r s + 1) by (apply incr_small; lia).
      specialize (IH s1 s' xs' ems' r Er). rewrite Hc, Hk, Hs in IH.
      assert (Hpre : ctr r s + 1 + N.of_nat (length (ems_of r ems')) < two32) by lia.
      specialize (IH Hpre). destruct IH as [IH1 [IH2 IH3]].
      split; [|split; [lia|exact IH3]].
      rewrite Hs. cbn [seq map Nat.add em_role em_key em_iv]. replace (ctr r s + 1 + N.of_nat 0) with (ctr r s + 1) by lia.
      f_equal.
      rewrite IH1. rewrite <- seq_shift, map_map. apply map_ext. intro i.
      f_equal. f_equal. lia.
Qed.

Lemma nth_error_seq a k n : (n < k)%nat -> nth_error (seq a k) n = Some (a + n)%nat.
Proof.
  revert a n; induction k as [|k IH]; intros a n H; [lia|].
  destruct n as [|n]; cbn [seq nth_error]; [f_equal; lia|].
  rewrite IH by lia. f_equal; lia.
Qed.

Theorem nth_iv ops kr kd r n e :
  let ems := snd (run ops (fresh kr kd)) in
  N.of_nat (length (ems_of r ems)) < two32 ->
  nth_error (ems_of r ems) n = Some e ->
  em_iv e = iso_iv r (N.of_nat n + 1) /\ em_key e = (match r with Reader => kr | Device => kd end).
Proof.
  cbv zeta. destruct (run ops (fresh kr kd)) as [[s' xs] ems] eqn:Er. cbn [snd].
  intros Hb Hn.
  destruct (run_emissions ops _ _ _ _ r Er) as [Hm _].
  { destruct r; cbn; lia. }
  assert (Hn' : nth_error (map (fun e => (em_role e, em_key e, em_iv e)) (ems_of r ems)) n
                = Some (em_role e, em_key e, em_iv e)) by (rewrite nth_error_map, Hn; reflexivity).
  rewrite Hm in Hn'. rewrite nth_error_map in Hn'.
  assert (Hlt : (n < length (ems_of r ems))%nat) by (apply nth_error_Some; rewrite Hn; discriminate).
  rewrite nth_error_seq in Hn' by exact Hlt. cbn in Hn'. inversion Hn' as [[H1 H2 H3]].
  rewrite iv_iso. split; [f_equal; destruct (em_role e); cbn [ctr fresh s_rdr s_dev r_send d_send]; lia|destruct (em_role e); reflexivity].
Qed.

Lemma NoDup_map_partition {X Y} (f : X -> Y) (p : X -> bool) (l : list X) :
  NoDup (map f (filter p l)) ->
  NoDup (map f (filter (fun x => negb (p x)) l)) ->
  (forall x y, In x l -> In y l -> p x = true -> p y = false -> f x <> f y) ->
  NoDup (map f l).
Proof.
  induction l as [|a l IH]; intros H1 H2 H3; cbn [map]; [constructor|].
  cbn [filter] in H1, H2. constructor.
  - intro Hin. apply in_map_iff in Hin as [b [Hfb Hb]].
    destruct (p a) eqn:Pa; cbn [negb] in *.
    + destruct (p b) eqn:Pb.
      * cbn [map] in H1. inversion H1 as [|? ? Hn _]; subst. apply Hn.
        apply in_map_iff. exists b. split; [exact Hfb|]. apply filter_In. split; assumption.
      * apply (H3 a b); [left; reflexivity|right; exact Hb|exact Pa|exact Pb|symmetry; exact Hfb].
    + destruct (p b) eqn:Pb.
      * apply (H3 b a); [right; exact Hb|left; reflexivity|exact Pb|exact Pa|exact Hfb].
      * cbn [map] in H2. inversion H2 as [|? ? Hn _]; subst. apply Hn.
        apply in_map_iff. exists b. split; [exact Hfb|]. apply filter_In. split; [exact Hb|rewrite Pb; reflexivity].
  - apply IH.
    + destruct (p a); [cbn [map] in H1; inversion H1; assumption|exact H1].
    + destruct (p a); cbn [negb] in H2; [exact H2|cbn [map] in H2; inversion H2; assumption].
    + intros x y Hx Hy. apply H3; right; assumption.
Qed.

Lemma NoDup_map_inj_in {X Y} (f : X -> Y) (l : list X) :
  (forall x y, In x l -> In y l -> f x = f y -> x = y) -> NoDup l -> NoDup (map f l).
Proof.
  induction l as [|a l IH]; intros Hinj Hnd; cbn [map]; [constructor|].
  inversion Hnd as [|? ? Hna Hnd']; subst. constructor.
  - intro Hin. apply in_map_iff in Hin as [b [Hfb Hb]].
    assert (b = a) by (apply Hinj; [right; exact Hb|left; reflexivity|exact Hfb]). subst. contradiction.
  - apply IH; [|exact Hnd']. intros x y Hx Hy. apply Hinj; right; assumption.
Qed.

Lemma NoDup_iv_seq r c k : c + N.of_nat k < two32 ->
  NoDup (map (fun i => iv r (c + 1 + N.of_nat i)) (seq 0 k)).
Proof.
  intro Hb. apply NoDup_map_inj_in; [|apply seq_NoDup].
  intros i j Hi Hj E. apply in_seq in Hi, Hj. rewrite !iv_iso in E.
  apply iso_iv_inj in E as [_ E]; lia.
Qed.

Lemma role_neg r e : negb (role_eqb (em_role e) r) = role_eqb (em_role e) (match r with Reader => Device | Device => Reader end).
Proof. destruct r, (em_role e); reflexivity. Qed.

Theorem no_reuse ops kr kd :
  let ems := snd (run ops (fresh kr kd)) in
  N.of_nat (length (ems_of Reader ems)) < two32 ->
  N.of_nat (length (ems_of Device ems)) < two32 ->
  NoDup (map em_iv ems).
Proof.
  cbv zeta. destruct (run ops (fresh kr kd)) as [[s' xs] ems] eqn:Er. cbn [snd]. intros HbR HbD.
  destruct (run_emissions ops _ _ _ _ Reader Er) as [HmR _]; [cbn; lia|].
  destruct (run_emissions ops _ _ _ _ Device Er) as [HmD _]; [cbn; lia|].
  assert (HR : map em_iv (ems_of Reader ems) = map (fun i => iv Reader (0 + 1 + N.of_nat i)) (seq 0 (length (ems_of Reader ems)))).
  { apply (f_equal (map snd)) in HmR. rewrite !map_map in HmR. exact HmR. }
  assert (HD : map em_iv (ems_of Device ems) = map (fun i => iv Device (0 + 1 + N.of_nat i)) (seq 0 (length (ems_of Device ems)))).
  { apply (f_equal (map snd)) in HmD. rewrite !map_map in HmD. exact HmD. }
  apply (NoDup_map_partition em_iv (fun e => role_eqb (em_role e) Reader)).
  - change (filter _ ems) with (ems_of Reader ems). rewrite HR. apply NoDup_iv_seq. lia.
  - rewrite (filter_ext _ (fun e => role_eqb (em_role e) Device)) by (intro e; apply (role_neg Reader)).
    change (filter _ ems) with (ems_of Device ems). rewrite HD. apply NoDup_iv_seq. lia.
  - intros x y Hx Hy Px Py E.
    assert (Hxr : In x (ems_of Reader ems)) by (apply filter_In; split; assumption).
    assert (Hyd : In y (ems_of Device ems)).
    { apply filter_In; split; [assumption|]. destruct (em_role y); [discriminate|reflexivity]. }
    apply (in_map em_iv) in Hxr, Hyd. rewrite HR in Hxr. rewrite HD in Hyd.
    apply in_map_iff in Hxr as [i [Hi _]]. apply in_map_iff in Hyd as [j [Hj _]].
    rewrite <- Hi, <- Hj, !iv_iso in E. unfold iso_iv in E.
    apply app_inj_pref in E; [|reflexivity]. destruct E as [E _]. discriminate.
Qed.
