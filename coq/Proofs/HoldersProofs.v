(* C10, part 2: the holders (COSE_Sign1 as coset keeps it, IssuerSigned, Mdoc -> Document,
   Stringify cycles, the response path) move the issuer-signed bytes without touching them. *)
From Isomdl Require Import Lib.Bytes Lib.Utf8 Lib.Cbor Lib.CborLoose Lib.Base64 Proofs.CborProofs
  Model.Cose Proofs.CoseProofs Model.Tag24 Proofs.Tag24Proofs.
From Coq Require Import Lia ZifyN ZifyNat ZifyBool Permutation.
Open Scope N_scope.

Definition cbor_ok (v : cbor) : Prop := wf v = true /\ len_ok v = true.

(* ------------------------------------------------------------------------------------------ *)
(** * Byte-string order *)

Lemma bytes_ltb_irrefl a : bytes_ltb a a = false.
Proof.
  induction a as [|x a IH]; cbn [bytes_ltb]; [reflexivity|].
  replace (x <? x) with false by (symmetry; apply N.ltb_irrefl). exact IH.
Qed.

Lemma bytes_ltb_asym a : forall b, bytes_ltb a b = true -> bytes_ltb b a = false.
Proof.
  induction a as [|x a IH]; intros [|y b]; cbn [bytes_ltb]; try discriminate; try reflexivity.
  destruct (N.ltb_spec x y), (N.ltb_spec y x); try lia; try discriminate; try reflexivity; try apply IH.
Qed.

Lemma bytes_ltb_neq a b : bytes_ltb a b = true -> bytes_eqb b a = false.
Proof.
  intro H. destruct (bytes_eqb b a) eqn:E; [|reflexivity].
  apply bytes_eqb_eq in E. subst. rewrite bytes_ltb_irrefl in H. discriminate.
Qed.

Lemma bytes_ltb_trans a : forall c d, bytes_ltb a c = true -> bytes_ltb c d = true -> bytes_ltb a d = true.
Proof.
  induction a as [|x a IH]; intros [|y c] [|z d]; cbn [bytes_ltb]; try discriminate; try reflexivity.
  destruct (N.ltb_spec x y), (N.ltb_spec y x), (N.ltb_spec y z), (N.ltb_spec z y), (N.ltb_spec x z), (N.ltb_spec z x);
    try lia; try discriminate; try reflexivity; try apply IH.
Qed.

Lemma bytes_trichotomy a : forall c, bytes_ltb a c = false -> bytes_eqb a c = false -> bytes_ltb c a = true.
Proof.
  induction a as [|x a IH]; intros [|y c]; cbn [bytes_ltb bytes_eqb]; try discriminate; try reflexivity.
  destruct (N.ltb_spec x y), (N.ltb_spec y x), (N.eqb_spec x y); try lia; try discriminate; try reflexivity;
  try (cbn [andb]; apply IH).
Qed.

(* ------------------------------------------------------------------------------------------ *)
(** * BTreeMap model *)

Fixpoint ssorted {V} (m : list (bytes * V)) : Prop :=
  match m with
  | [] => True
  | kv :: r => (forall kv', In kv' r -> bytes_ltb (fst kv) (fst kv') = true) /\ ssorted r
  end.

Lemma bt_insert_last {V} k (v : V) m :
  (forall kv, In kv m -> bytes_ltb (fst kv) k = true) -> bt_insert k v m = m ++ [(k, v)].
Proof.
  induction m as [|[k' v'] m IH]; intro H; cbn [bt_insert app]; [reflexivity|].
  assert (L : bytes_ltb k' k = true) by (apply (H (k', v')); left; reflexivity).
  rewrite (bytes_ltb_asym _ _ L), (bytes_ltb_neq _ _ L). f_equal. apply IH.
  intros kv Hkv. apply H. right. exact Hkv.
Qed.

Lemma bt_insert_in {V} k (v : V) m kv : In kv (bt_insert k v m) -> kv = (k, v) \/ In kv m.
Proof.
  induction m as [|[k' v'] m IH]; cbn [bt_insert].
  - intros [<-|[]]. left; reflexivity.
  - destruct (bytes_ltb k k'); [intros [<-|H]; [left; reflexivity|right; exact H]|].
    destruct (bytes_eqb k k'); [intros [<-|H]; [left; reflexivity|right; right; exact H]|].
    intros [<-|H]; [right; left; reflexivity|]. destruct (IH H) as [E|E]; [left; exact E|right; right; exact E].
Qed.

Lemma bt_insert_has {V} k (v : V) m : In (k, v) (bt_insert k v m).
Proof.
  induction m as [|[k' v'] m IH]; cbn [bt_insert]; [left; reflexivity|].
  destruct (bytes_ltb k k'); [left; reflexivity|]. destruct (bytes_eqb k k'); [left; reflexivity|].
  right. exact IH.
Qed.

Lemma bt_insert_keeps {V} k (v : V) m kv : In kv m -> fst kv <> k -> In kv (bt_insert k v m).
Proof.
  induction m as [|[k' v'] m IH]; cbn [bt_insert]; [intros []|].
  intros Hin Hne. destruct (bytes_ltb k k'); [right; exact Hin|].
  destruct (bytes_eqb k k') eqn:E.
  - apply bytes_eqb_eq in E. subst k'. destruct Hin as [<-|Hin]; [cbn [fst] in Hne; congruence|right; exact Hin].
  - destruct Hin as [<-|Hin]; [left; reflexivity|right; apply IH; assumption].
Qed.

Lemma bt_insert_sorted {V} k (v : V) m : ssorted m -> ssorted (bt_insert k v m).
Proof.
  induction m as [|[k' v'] m IH]; cbn [bt_insert ssorted]; [intros _; split; [intros ? []|exact I]|].
  intros [H1 H2]. destruct (bytes_ltb k k') eqn:L.
  - cbn [ssorted fst]. split; [|split; assumption].
    intros kv' [<-|Hin]; [exact L|]. apply (bytes_ltb_trans k k' _ L). apply (H1 _ Hin).
  - destruct (bytes_eqb k k') eqn:E.
    + apply bytes_eqb_eq in E. subst k'. cbn [ssorted fst]. split; assumption.
    + cbn [ssorted fst]. split; [|apply IH; exact H2].
      intros kv' Hin. apply bt_insert_in in Hin as [->|Hin]; [cbn [fst]; apply bytes_trichotomy; assumption|].
      apply (H1 _ Hin).
Qed.

Lemma bt_get_in {V} k (m : list (bytes * V)) v : bt_get k m = Some v -> In (k, v) m.
Proof.
  induction m as [|[k' v'] m IH]; cbn [bt_get]; [discriminate|].
  destruct (bytes_eqb k k') eqn:E; [|intro H; right; apply IH, H].
  apply bytes_eqb_eq in E. subst. intro H. inversion H. left; reflexivity.
Qed.

Lemma bt_of_entries_sorted {V} (enc : V -> cbor) (dec : cbor -> option V) (okV : V -> Prop) :
  (forall v, okV v -> dec (enc v) = Some v) ->
  forall rest acc,
  (forall a b, In a acc -> In b rest -> bytes_ltb (fst a) (fst b) = true) ->
  ssorted rest -> Forall (fun kv => okV (snd kv)) rest ->
  bt_of_entries dec (map (fun kv => (CText (fst kv), enc (snd kv))) rest) acc = Some (acc ++ rest).
Proof.
  intro Hde. induction rest as [|[k v] rest IH]; intros acc Hlt Hs Hok.
  - cbn [map bt_of_entries]. rewrite app_nil_r. reflexivity.
  - cbn [map bt_of_entries fst snd text_of]. inversion Hok as [|? ? Hv Hok']; subst. cbn [snd] in Hv.
    rewrite (Hde v Hv). destruct Hs as [Hs1 Hs2]. cbn [fst] in Hs1.
    rewrite bt_insert_last by (intros kv Hkv; apply (Hlt kv (k, v) Hkv); left; reflexivity).
    rewrite IH; [rewrite <- app_assoc; reflexivity| |exact Hs2|exact Hok'].
    intros a b Ha Hb. apply in_app_or in Ha as [Ha|[<-|[]]].
    + apply Hlt; [exact Ha|right; exact Hb].
    + cbn [fst]. apply Hs1, Hb.
Qed.

Theorem nemap_roundtrip {V} (enc : V -> cbor) (dec : cbor -> option V) (okV : V -> Prop) m :
  (forall v, okV v -> dec (enc v) = Some v) ->
  m <> [] -> ssorted m -> Forall (fun kv => okV (snd kv)) m ->
  nemap_of_cbor dec (map_to_cbor enc m) = Some m.
Proof.
  intros Hde Hne Hs Hok. unfold nemap_of_cbor, map_to_cbor.
  rewrite (bt_of_entries_sorted enc dec okV Hde m []); [|intros a b []|exact Hs|exact Hok].
  cbn [app]. destruct m; [contradiction|reflexivity].
Qed.

Lemma all_some_map {A B} (enc : A -> B) (dec : B -> option A) (ok : A -> Prop) l :
  (forall a, ok a -> dec (enc a) = Some a) -> Forall ok l -> all_some dec (map enc l) = Some l.
Proof.
  intros Hde H. induction H as [|x l Hx Hl IH]; [reflexivity|].
  cbn [map all_some]. rewrite (Hde x Hx), IH. reflexivity.
Qed.

Theorem nevec_roundtrip {V} (enc : V -> cbor) (dec : cbor -> option V) (okV : V -> Prop) l :
  (forall v, okV v -> dec (enc v) = Some v) -> l <> [] -> Forall okV l ->
  nevec_of_cbor dec (CArray (map enc l)) = Some l.
Proof.
  intros Hde Hne Hok. unfold nevec_of_cbor. destruct l as [|x l]; [contradiction|].
  cbn [map]. change (enc x :: map enc l) with (map enc (x :: l)). apply (all_some_map enc dec okV); assumption.
Qed.

(* ------------------------------------------------------------------------------------------ *)
(** * Items and namespace maps *)

Definition item_ok (inner : bytes) : Prop := exists it, read_item inner = Some it.

Lemma item_of_cbor_tag24 inner : item_ok inner -> item_of_cbor (tag24 inner) = Some inner.
Proof. intros [it H]. unfold item_of_cbor, tag24. cbn [tag24_of_cbor obind]. rewrite H. reflexivity. Qed.

Lemma item_of_cbor_some v inner : item_of_cbor v = Some inner -> v = tag24 inner /\ item_ok inner.
Proof.
  unfold item_of_cbor, obind. destruct (tag24_of_cbor v) as [i|] eqn:E; [|discriminate].
  destruct (read_item i) as [it|] eqn:R; [|discriminate]. intro H. inversion H; subst.
  split; [|exists it; exact R].
  destruct v as [| | | | | |t x| | |]; try discriminate. cbn [tag24_of_cbor] in E.
  destruct t as [|p]; [discriminate|]. do 5 (destruct p as [p|p|]; try discriminate).
  destruct x; try discriminate. inversion E. reflexivity.
Qed.

Definition items_ok (items : list bytes) : Prop := items <> [] /\ Forall item_ok items.

Definition nss_ok (m : nss) : Prop := m <> [] /\ ssorted m /\ Forall (fun kv => items_ok (snd kv)) m.

Lemma items_roundtrip items : items_ok items ->
  nevec_of_cbor item_of_cbor (CArray (map tag24 items)) = Some items.
Proof. intros [Hne H]. apply (nevec_roundtrip tag24 item_of_cbor item_ok); auto using item_of_cbor_tag24. Qed.

Theorem nss_roundtrip m : nss_ok m -> nss_of_cbor (nss_to_cbor m) = Some m.
Proof.
  intros (Hne & Hs & Hok). unfold nss_of_cbor, nss_to_cbor.
  apply (nemap_roundtrip _ _ items_ok); auto using items_roundtrip.
Qed.

Definition idmap_ok (m : list (bytes * bytes)) : Prop :=
  m <> [] /\ ssorted m /\ Forall (fun kv => item_ok (snd kv)) m.
Definition dns_ok (m : dns) : Prop := m <> [] /\ ssorted m /\ Forall (fun kv => idmap_ok (snd kv)) m.

Theorem dns_roundtrip m : dns_ok m -> dns_of_cbor (dns_to_cbor m) = Some m.
Proof.
  intros (Hne & Hs & Hok). unfold dns_of_cbor, dns_to_cbor.
  apply (nemap_roundtrip _ _ idmap_ok); auto.
  intros v (Hne' & Hs' & Hok'). apply (nemap_roundtrip _ _ item_ok); auto using item_of_cbor_tag24.
Qed.

(* ------------------------------------------------------------------------------------------ *)
(** * COSE headers: coset's normalisation keeps every non-core entry and is idempotent *)

Lemma is_label_eq n k : is_label n k = true -> k = CUInt n.
Proof. unfold is_label. intro H. apply cbor_eqb_eq in H. congruence. Qed.

Lemma cbor_eqb_refl v : cbor_eqb v v = true.
Proof. apply cbor_eqb_eq. reflexivity. Qed.

Lemma map_get_app_none k a b : map_get k a = None -> map_get k (a ++ b) = map_get k b.
Proof.
  induction a as [|[k' v] a IH]; cbn [map_get app]; [reflexivity|].
  destruct (cbor_eqb k k'); [discriminate|exact IH].
Qed.

Lemma map_get_filter_out k (q : cbor -> bool) kvs : q k = false ->
  map_get k (filter (fun kv => q (fst kv)) kvs) = None.
Proof.
  intro Hq. induction kvs as [|[k' v] kvs IH]; cbn [filter fst]; [reflexivity|].
  destruct (q k') eqn:E; [|exact IH]. cbn [map_get].
  destruct (cbor_eqb k k') eqn:E'; [|exact IH]. apply cbor_eqb_eq in E'. subst. congruence.
Qed.

Lemma map_get_filter_in k (q : cbor -> bool) kvs : q k = true ->
  map_get k (filter (fun kv => q (fst kv)) kvs) = map_get k kvs.
Proof.
  intro Hq. induction kvs as [|[k' v] kvs IH]; cbn [filter fst map_get]; [reflexivity|].
  destruct (cbor_eqb k k') eqn:E'.
  - apply cbor_eqb_eq in E'. subst k'. rewrite Hq. cbn [map_get]. rewrite cbor_eqb_refl. reflexivity.
  - destruct (q k'); [cbn [map_get]; rewrite E'|]; exact IH.
Qed.

(* every label that is not alg / kid / iv / partial iv keeps its value (in particular x5chain = 33) *)
Theorem hdr_emit_keeps k kvs : core_label k = false -> map_get k (hdr_emit kvs) = map_get k kvs.
Proof.
  intro Hc. unfold hdr_emit, pick. unfold core_label in Hc.
  apply orb_false_iff in Hc as [Hc H6]. apply orb_false_iff in Hc as [Hc H5]. apply orb_false_iff in Hc as [H1 H4].
  rewrite map_get_app_none by (apply (map_get_filter_out k (is_label 1)); exact H1).
  rewrite map_get_app_none by (apply (map_get_filter_out k (is_label 4)); exact H4).
  rewrite map_get_app_none by (apply (map_get_filter_out k (is_label 5)); exact H5).
  rewrite map_get_app_none by (apply (map_get_filter_out k (is_label 6)); exact H6).
  apply (map_get_filter_in k (fun k => negb (core_label k))). unfold core_label. rewrite H1, H4, H5, H6. reflexivity.
Qed.

Lemma hdr_emit_perm kvs : Permutation (hdr_emit kvs) kvs.
Proof.
  induction kvs as [|[k v] kvs IH]; [apply Permutation_refl|].
  unfold hdr_emit, pick, core_label in *. cbn [filter fst].
  destruct (is_label 1 k) eqn:E1.
  { apply is_label_eq in E1. subst k. cbn. constructor. exact IH. }
  destruct (is_label 4 k) eqn:E4.
  { apply is_label_eq in E4. subst k. cbn. apply Permutation_sym, Permutation_cons_app, Permutation_sym, IH. }
  destruct (is_label 5 k) eqn:E5.
  { apply is_label_eq in E5. subst k. cbn. rewrite !app_assoc. apply Permutation_sym, Permutation_cons_app.
    rewrite <- !app_assoc. apply Permutation_sym, IH. }
  destruct (is_label 6 k) eqn:E6.
  { apply is_label_eq in E6. subst k. cbn. rewrite !app_assoc. apply Permutation_sym, Permutation_cons_app.
    rewrite <- !app_assoc. apply Permutation_sym, IH. }
  cbn [orb negb]. rewrite !app_assoc. apply Permutation_sym, Permutation_cons_app.
  rewrite <- !app_assoc. apply Permutation_sym, IH.
Qed.

Lemma forallb_perm {A} (f : A -> bool) l l' : Permutation l l' -> forallb f l = forallb f l'.
Proof.
  induction 1 as [|x l l' P IH|x y l|l l' l'' P1 IH1 P2 IH2]; cbn [forallb]; try reflexivity.
  - rewrite IH. reflexivity.
  - destruct (f x), (f y); reflexivity.
  - congruence.
Qed.

Lemma existsb_perm {A} (f : A -> bool) l l' : Permutation l l' -> existsb f l = existsb f l'.
Proof.
  induction 1 as [|x l l' P IH|x y l|l l' l'' P1 IH1 P2 IH2]; cbn [existsb]; try reflexivity.
  - rewrite IH. reflexivity.
  - destruct (f x), (f y); reflexivity.
  - congruence.
Qed.

Lemma nodupb_NoDup l : nodupb l = true <-> NoDup l.
Proof.
  induction l as [|x l IH]; cbn [nodupb]; [split; [constructor|reflexivity]|].
  rewrite andb_true_iff, negb_true_iff, IH. split.
  - intros [H1 H2]. constructor; [|exact H2]. intro Hin.
    assert (E : existsb (cbor_eqb x) l = true) by (apply existsb_exists; exists x; split; [exact Hin|apply cbor_eqb_refl]).
    congruence.
  - intro H. inversion H as [|? ? Hn Hd]; subst. split; [|exact Hd].
    destruct (existsb (cbor_eqb x) l) eqn:E; [|reflexivity].
    apply existsb_exists in E as (y & Hy & Ey). apply cbor_eqb_eq in Ey. subst. contradiction.
Qed.

Lemma nodupb_perm l l' : Permutation l l' -> nodupb l = true -> nodupb l' = true.
Proof. intros P H. apply nodupb_NoDup. apply (Permutation_NoDup P). apply nodupb_NoDup, H. Qed.

Lemma filter_idem {A} (p : A -> bool) l : filter p (filter p l) = filter p l.
Proof.
  induction l as [|x l IH]; [reflexivity|]. cbn [filter]. destruct (p x) eqn:E; [cbn [filter]; rewrite E, IH; reflexivity|exact IH].
Qed.

Lemma filter_excl {A} (p q : A -> bool) l : (forall x, q x = true -> p x = false) -> filter p (filter q l) = [].
Proof.
  intro H. induction l as [|x l IH]; [reflexivity|]. cbn [filter]. destruct (q x) eqn:E; [cbn [filter]; rewrite (H x E); exact IH|exact IH].
Qed.

Lemma is_label_excl n m k : n <> m -> is_label n k = true -> is_label m k = false.
Proof.
  intros Hne H. apply is_label_eq in H. subst k. unfold is_label. cbn [cbor_eqb]. apply N.eqb_neq. congruence.
Qed.

Lemma hdr_emit_idem kvs : hdr_emit (hdr_emit kvs) = hdr_emit kvs.
Proof.
  unfold hdr_emit at 1. unfold pick.
  set (p1 := fun kv : cbor * cbor => is_label 1 (fst kv)).
  set (p4 := fun kv : cbor * cbor => is_label 4 (fst kv)).
  set (p5 := fun kv : cbor * cbor => is_label 5 (fst kv)).
  set (p6 := fun kv : cbor * cbor => is_label 6 (fst kv)).
  set (pr := fun kv : cbor * cbor => negb (core_label (fst kv))).
  assert (E : hdr_emit kvs = filter p1 kvs ++ filter p4 kvs ++ filter p5 kvs ++ filter p6 kvs ++ filter pr kvs) by reflexivity.
  rewrite E. rewrite !filter_app, !filter_idem.
  assert (X : forall n m, n <> m -> forall x : cbor * cbor, is_label m (fst x) = true -> is_label n (fst x) = false).
  { intros n m Hne x Hx. apply (is_label_excl m n); [congruence|exact Hx]. }
  assert (R : forall n, (n = 1 \/ n = 4 \/ n = 5 \/ n = 6) -> forall x : cbor * cbor, is_label n (fst x) = true -> pr x = false).
  { intros n Hn x Hx. subst pr. cbn beta. unfold core_label.
    destruct Hn as [-> | [-> | [-> | ->]]]; rewrite Hx; rewrite ?orb_true_r; reflexivity. }
  assert (R' : forall n, (n = 1 \/ n = 4 \/ n = 5 \/ n = 6) -> forall x : cbor * cbor, pr x = true -> is_label n (fst x) = false).
  { intros n Hn x Hx. destruct (is_label n (fst x)) eqn:Ex; [|reflexivity]. rewrite (R n Hn x Ex) in Hx. discriminate. }
  subst p1 p4 p5 p6.
  rewrite (filter_excl _ _ kvs (X 1 4 ltac:(lia))), (filter_excl _ _ kvs (X 1 5 ltac:(lia))), (filter_excl _ _ kvs (X 1 6 ltac:(lia))).
  rewrite (filter_excl _ _ kvs (X 4 1 ltac:(lia))), (filter_excl _ _ kvs (X 4 5 ltac:(lia))), (filter_excl _ _ kvs (X 4 6 ltac:(lia))).
  rewrite (filter_excl _ _ kvs (X 5 1 ltac:(lia))), (filter_excl _ _ kvs (X 5 4 ltac:(lia))), (filter_excl _ _ kvs (X 5 6 ltac:(lia))).
  rewrite (filter_excl _ _ kvs (X 6 1 ltac:(lia))), (filter_excl _ _ kvs (X 6 4 ltac:(lia))), (filter_excl _ _ kvs (X 6 5 ltac:(lia))).
  rewrite (filter_excl _ pr kvs (R' 1 ltac:(auto))), (filter_excl _ pr kvs (R' 4 ltac:(auto))),
          (filter_excl _ pr kvs (R' 5 ltac:(auto))), (filter_excl _ pr kvs (R' 6 ltac:(auto))).
  rewrite (filter_excl pr _ kvs (R 1 ltac:(auto))), (filter_excl pr _ kvs (R 4 ltac:(auto))),
          (filter_excl pr _ kvs (R 5 ltac:(auto))), (filter_excl pr _ kvs (R 6 ltac:(auto))).
  cbn [app]. rewrite !app_nil_r. reflexivity.
Qed.

Theorem hdr_norm_idem kvs u : hdr_norm kvs = HOk u -> hdr_norm u = HOk u.
Proof.
  unfold hdr_norm.
  destruct (forallb entry_ok kvs && nodupb (map fst kvs)) eqn:E1; cbn [negb]; [|discriminate].
  destruct (existsb (fun kv => is_label 5 (fst kv)) kvs && existsb (fun kv => is_label 6 (fst kv)) kvs) eqn:E2; [discriminate|].
  destruct (existsb unmodelled_label kvs) eqn:E3; [discriminate|].
  intro H. inversion H; subst u. clear H.
  pose proof (hdr_emit_perm kvs) as P.
  apply andb_true_iff in E1 as [Ea Eb].
  rewrite (forallb_perm _ _ _ P), Ea.
  rewrite (nodupb_perm (map fst kvs) (map fst (hdr_emit kvs))); [|apply Permutation_map, Permutation_sym, P|exact Eb].
  cbn [andb negb].
  rewrite (existsb_perm _ _ _ P), (existsb_perm (fun kv => is_label 6 (fst kv)) _ _ P), E2.
  rewrite (existsb_perm _ _ _ P), E3. rewrite hdr_emit_idem. reflexivity.
Qed.

(* ------------------------------------------------------------------------------------------ *)
(** * COSE_Sign1 as held by MaybeTagged<CoseSign1> *)

Definition cose_normal (c : cose1) : Prop :=
  hdr_norm (c_unprotected c) = HOk (c_unprotected c) /\ protected_check (c_protected c) = PAccept.

Theorem sign1_roundtrip c : cose_normal c -> sign1_of_cbor (sign1_to_cbor c) = COk c.
Proof.
  intros [Hu Hp]. unfold sign1_of_cbor, sign1_to_cbor. rewrite cose1_wire_roundtrip, Hu, Hp.
  destruct c; reflexivity.
Qed.

(* first reception, from any producer: protected bytes, payload, signature, tagging and every
   non-core unprotected entry (x5chain) are those of the received COSE_Sign1 array; what is held is
   in coset's normal form, so later cycles are exact *)
Theorem sign1_received v c : sign1_of_cbor v = COk c ->
  exists c0, cose1_of_cbor tag_sign1 v = Some c0 /\
    c_protected c = c_protected c0 /\ c_payload c = c_payload c0 /\ c_sig c = c_sig c0 /\
    c_tagged c = c_tagged c0 /\
    (forall k, core_label k = false -> map_get k (c_unprotected c) = map_get k (c_unprotected c0)) /\
    cose_normal c.
Proof.
  unfold sign1_of_cbor. destruct (cose1_of_cbor tag_sign1 v) as [c0|]; [|discriminate].
  destruct (hdr_norm (c_unprotected c0)) as [u| |] eqn:Eu; destruct (protected_check (c_protected c0)) eqn:Ep; try discriminate.
  intro H. inversion H; subst c. clear H. exists c0. cbn [c_protected c_payload c_sig c_tagged c_unprotected].
  repeat split; try reflexivity.
  - intros k Hk. assert (u = hdr_emit (c_unprotected c0)) as ->.
    { unfold hdr_norm in Eu. repeat match type of Eu with (if ?x then _ else _) = _ => destruct x end; try discriminate.
      inversion Eu. reflexivity. }
    apply hdr_emit_keeps, Hk.
  - cbn [c_unprotected]. apply (hdr_norm_idem _ _ Eu).
  - exact Ep.
Qed.

Corollary sign1_received_x5chain v c c0 : sign1_of_cbor v = COk c -> cose1_of_cbor tag_sign1 v = Some c0 ->
  auth_components c = auth_components c0.
Proof.
  intros H H0. destruct (sign1_received v c H) as (c0' & E & Hp & Hpl & Hs & _ & Hk & _).
  rewrite H0 in E. inversion E; subst c0'. unfold auth_components, x5chain_value.
  rewrite Hp, Hpl, Hs, (Hk (CUInt 33)) by reflexivity. reflexivity.
Qed.

(* ------------------------------------------------------------------------------------------ *)
(** * Struct maps with literal keys *)

Lemma lookup_all_hit k v r : lookup_all k ((k, v) :: r) = v :: lookup_all k r.
Proof. cbn [lookup_all]. rewrite cbor_eqb_refl. reflexivity. Qed.

Lemma lookup_all_miss k k' v r : cbor_eqb k k' = false -> lookup_all k ((k', v) :: r) = lookup_all k r.
Proof. intro H. cbn [lookup_all]. rewrite H. reflexivity. Qed.

Ltac lk := repeat (rewrite lookup_all_hit || rewrite lookup_all_miss by reflexivity); cbn [lookup_all].

(* ------------------------------------------------------------------------------------------ *)
(** * IssuerSigned *)

Definition is_ok (x : issuer_signed) : Prop :=
  cose_normal (is_auth x) /\ match is_ns x with Some m => nss_ok m | None => True end /\ cbor_ok (is_to_cbor x).

Theorem is_cbor_roundtrip x : cose_normal (is_auth x) -> match is_ns x with Some m => nss_ok m | None => True end ->
  is_of_cbor (is_to_cbor x) = Some x.
Proof.
  intros Hc Hn. destruct x as [[m|] c]; cbn [is_ns is_auth] in *; unfold is_to_cbor, is_of_cbor; cbn [is_ns is_auth app].
  - unfold req, opt_field. lk. cbn [obind]. unfold sign1_opt. rewrite sign1_roundtrip by exact Hc. cbn [obind].
    unfold nss_to_cbor at 1, map_to_cbor at 1. fold (map_to_cbor (fun items : list bytes => CArray (map tag24 items)) m).
    fold (nss_to_cbor m). rewrite nss_roundtrip by exact Hn. reflexivity.
  - unfold req, opt_field. lk. cbn [obind]. unfold sign1_opt. rewrite sign1_roundtrip by exact Hc. reflexivity.
Qed.

Theorem is_roundtrip x r : is_ok x -> is_decode (is_encode x ++ r) = Some x.
Proof.
  intros (Hc & Hn & [W L]). unfold is_decode, is_encode. rewrite decode_first_encode by assumption.
  cbn [obind]. apply is_cbor_roundtrip; assumption.
Qed.

(* ------------------------------------------------------------------------------------------ *)
(** * Document: Stringify cycles *)

Definition doc_ok (d : document) : Prop :=
  cose_normal (d_auth d) /\ dns_ok (d_ns d) /\ cbor_ok (doc_to_cbor d).

Theorem doc_cbor_roundtrip d : cose_normal (d_auth d) -> dns_ok (d_ns d) -> doc_of_cbor (doc_to_cbor d) = Some d.
Proof.
  intros Hc Hn. destruct d as [i c m ns]. cbn [d_auth d_ns] in *. unfold doc_to_cbor, doc_of_cbor. cbn [d_id d_auth d_mso d_ns].
  unfold req. lk. cbn [obind]. unfold sign1_opt. rewrite sign1_roundtrip by exact Hc. cbn [obind].
  rewrite dns_roundtrip by exact Hn. reflexivity.
Qed.

Theorem doc_stringify_parse d : doc_ok d -> doc_parse (doc_stringify d) = Some d.
Proof.
  intros (Hc & Hn & [W L]). unfold doc_parse, doc_stringify.
  rewrite b64_decode_encode by (apply encode_wf_bytes, W). cbn [obind].
  pose proof (decode_first_encode (doc_to_cbor d) [] W L) as D. rewrite app_nil_r in D. rewrite D. cbn [obind].
  apply doc_cbor_roundtrip; assumption.
Qed.

Fixpoint iter_opt {A} (n : nat) (f : A -> option A) (x : A) : option A :=
  match n with O => Some x | S n' => match f x with Some y => iter_opt n' f y | None => None end end.

Definition doc_cycle (d : document) : option document := doc_parse (doc_stringify d).
Definition is_cycle (x : issuer_signed) : option issuer_signed := is_decode (is_encode x).

Theorem doc_cycles n d : doc_ok d -> iter_opt n doc_cycle d = Some d.
Proof.
  intro H. induction n as [|n IH]; [reflexivity|]. cbn [iter_opt]. unfold doc_cycle at 1.
  rewrite doc_stringify_parse by exact H. exact IH.
Qed.

Theorem is_cycles n x : is_ok x -> iter_opt n is_cycle x = Some x.
Proof.
  intro H. induction n as [|n IH]; [reflexivity|]. cbn [iter_opt]. unfold is_cycle at 1.
  pose proof (is_roundtrip x [] H) as R. rewrite app_nil_r in R. rewrite R. exact IH.
Qed.

(* ------------------------------------------------------------------------------------------ *)
(** * Mdoc -> Document (device storage) *)

Definition id_of (inner : bytes) : bytes := match read_item inner with Some it => it_id it | None => [] end.

Lemma rekey_sound items : forall acc e,
  In e (fold_left (fun m inner => match read_item inner with
                                  | Some it => bt_insert (it_id it) inner m
                                  | None => m end) items acc) ->
  In e acc \/ (In (snd e) items /\ fst e = id_of (snd e) /\ item_ok (snd e)).
Proof.
  induction items as [|x items IH]; intros acc e H; cbn [fold_left] in H; [left; exact H|].
  apply IH in H as [H|(H1 & H2 & H3)]; [|right; split; [right; exact H1|split; assumption]].
  destruct (read_item x) as [it|] eqn:R; [|left; exact H].
  apply bt_insert_in in H as [->|H]; [|left; exact H].
  right. cbn [fst snd]. split; [left; reflexivity|]. split; [unfold id_of; rewrite R; reflexivity|exists it; exact R].
Qed.

(* everything a Document holds came, byte for byte, from the Mdoc's item list of the same namespace *)
Theorem storage_sound id md ns m eid inner :
  In (ns, m) (d_ns (doc_of_mdoc id md)) -> In (eid, inner) m ->
  exists items, In (ns, items) (md_ns md) /\ In inner items /\ eid = id_of inner.
Proof.
  cbn [doc_of_mdoc d_ns]. intros H Hin. apply in_map_iff in H as ([ns' items] & E & Hmd).
  cbn [fst snd] in E. inversion E; subst. exists items. split; [exact Hmd|].
  unfold rekey in Hin. apply rekey_sound in Hin as [[]|(H1 & H2 & _)]. cbn [fst snd] in *. split; assumption.
Qed.

Lemma rekey_complete items : forall acc,
  Forall item_ok items -> NoDup (map id_of items) ->
  let res := fold_left (fun m inner => match read_item inner with
                                       | Some it => bt_insert (it_id it) inner m
                                       | None => m end) items acc in
  (forall inner, In inner items -> In (id_of inner, inner) res) /\
  (forall e, In e acc -> ~ In (fst e) (map id_of items) -> In e res).
Proof.
  induction items as [|x items IH]; intros acc Hok Hnd; cbn [fold_left map] in *.
  - split; [intros ? []|intros e He _; exact He].
  - inversion Hok as [|? ? [it R] Hok']; subst. inversion Hnd as [|? ? Hx Hnd']; subst.
    rewrite R. destruct (IH (bt_insert (it_id it) x acc) Hok' Hnd') as [I1 I2].
    assert (Eid : id_of x = it_id it) by (unfold id_of; rewrite R; reflexivity).
    split.
    + intros inner [<-|Hin]; [|apply I1, Hin].
      apply I2; [rewrite Eid; apply bt_insert_has|cbn [fst]; exact Hx].
    + intros e He Hn. apply I2.
      * apply bt_insert_keeps; [exact He|]. intro E. apply Hn. left. rewrite Eid. symmetry. exact E.
      * intro Hin. apply Hn. right. exact Hin.
Qed.

(* ... and when the identifiers within each namespace are distinct, nothing is dropped *)
Theorem storage_complete id md ns items inner :
  In (ns, items) (md_ns md) -> Forall item_ok items -> NoDup (map id_of items) -> In inner items ->
  exists m, In (ns, m) (d_ns (doc_of_mdoc id md)) /\ In (id_of inner, inner) m.
Proof.
  intros Hmd Hok Hnd Hin. exists (rekey items). split.
  - cbn [doc_of_mdoc d_ns]. apply in_map_iff. exists (ns, items). split; [reflexivity|exact Hmd].
  - unfold rekey. destruct (rekey_complete items [] Hok Hnd) as [I1 _]. apply I1, Hin.
Qed.

Theorem storage_auth id md : d_auth (doc_of_mdoc id md) = md_auth md.
Proof. reflexivity. Qed.

(* ------------------------------------------------------------------------------------------ *)
(** * The response path *)

Definition held (d : document) (ns : bytes) (x : bytes) : Prop :=
  exists m eid, bt_get ns (d_ns d) = Some m /\ bt_get eid m = Some x.

Lemma bt_push_in ns x m ns' l' y : In (ns', l') (bt_push ns x m) -> In y l' ->
  (ns' = ns /\ y = x) \/ (exists l0, In (ns', l0) m /\ In y l0).
Proof.
  unfold bt_push. destruct (bt_get ns m) as [l|] eqn:G; intros H Hy.
  - apply bt_insert_in in H as [E|H]; [|right; exists l'; split; assumption].
    inversion E; subst. apply in_app_or in Hy as [Hy|[<-|[]]]; [|left; split; reflexivity].
    right. exists l. split; [apply bt_get_in, G|exact Hy].
  - apply bt_insert_in in H as [E|H]; [|right; exists l'; split; assumption].
    inversion E; subst. destruct Hy as [<-|[]]. left; split; reflexivity.
Qed.

(* every item in a response is one the Document holds under that namespace: the same bytes *)
Theorem select_items_held d sel ns l x : In (ns, l) (select_items d sel) -> In x l -> held d ns x.
Proof.
  unfold select_items.
  assert (G : forall sel acc, (forall ns l x, In (ns, l) acc -> In x l -> held d ns x) ->
              forall ns l x,
              In (ns, l) (fold_left (fun acc e =>
                match bt_get (fst e) (d_ns d) with
                | None => acc
                | Some hd0 => fold_left (fun acc' id => match bt_get id hd0 with Some y => bt_push (fst e) y acc' | None => acc' end) (snd e) acc
                end) sel acc) -> In x l -> held d ns x).
  { clear. induction sel as [|[ns0 ids] sel IH]; intros acc Hacc ns l x; cbn [fold_left fst snd]; [apply Hacc|].
    apply IH. destruct (bt_get ns0 (d_ns d)) as [hd0|] eqn:G0; [|exact Hacc].
    clear IH. revert acc Hacc. induction ids as [|i ids IHi]; intros acc Hacc; cbn [fold_left]; [exact Hacc|].
    apply IHi. destruct (bt_get i hd0) as [y|] eqn:Gy; [|exact Hacc].
    intros ns1 l1 x1 H1 Hx1. destruct (bt_push_in _ _ _ _ _ _ H1 Hx1) as [[-> ->]|(l0 & Hl0 & Hx0)].
    - exists hd0, i. split; assumption.
    - apply (Hacc ns1 l0 x1); assumption. }
  apply G. intros ? ? ? [].
Qed.

Theorem response_auth d sel : is_auth (response_issuer_signed d sel) = d_auth d.
Proof. reflexivity. Qed.

Theorem response_items_held d sel m ns l x :
  is_ns (response_issuer_signed d sel) = Some m -> In (ns, l) m -> In x l -> held d ns x.
Proof.
  unfold response_issuer_signed. cbn [is_ns]. destruct (select_items d sel) as [|e r] eqn:E; [discriminate|].
  intro H. inversion H; subst m. rewrite <- E. apply select_items_held.
Qed.

(* ------------------------------------------------------------------------------------------ *)
(** * Digests and the issuer signature input are functions of the preserved components *)

Theorem digest_input_stable n d : doc_ok d ->
  forall d', iter_opt n doc_cycle d = Some d' ->
  d_ns d' = d_ns d /\ auth_components (d_auth d') = auth_components (d_auth d) /\
  issuer_tbs (d_auth d') = issuer_tbs (d_auth d).
Proof. intros H d' E. rewrite doc_cycles in E by exact H. inversion E. repeat split; reflexivity. Qed.

(* ------------------------------------------------------------------------------------------ *)
(** * Storage, any number of Stringify cycles, response, transfer to the reader *)

Lemma held_in d ns x : held d ns x -> exists m eid, In (ns, m) (d_ns d) /\ In (eid, x) m.
Proof. intros (m & eid & G1 & G2). exists m, eid. split; apply bt_get_in; assumption. Qed.

Theorem end_to_end id md n sel d' r :
  doc_ok (doc_of_mdoc id md) ->
  iter_opt n doc_cycle (doc_of_mdoc id md) = Some d' ->
  let resp := response_issuer_signed d' sel in
  is_ok resp ->
  is_decode (is_encode resp ++ r) = Some resp /\
  auth_components (is_auth resp) = auth_components (md_auth md) /\
  issuer_tbs (is_auth resp) = issuer_tbs (md_auth md) /\
  (forall m ns l x, is_ns resp = Some m -> In (ns, l) m -> In x l ->
     exists items, In (ns, items) (md_ns md) /\ In x items).
Proof.
  intros Hd E resp Hr. rewrite doc_cycles in E by exact Hd. inversion E; subst d'. clear E.
  split; [apply is_roundtrip, Hr|]. split; [reflexivity|]. split; [reflexivity|].
  intros m ns l x Hm Hl Hx. pose proof (response_items_held _ _ _ _ _ _ Hm Hl Hx) as H.
  apply held_in in H as (m0 & eid & H1 & H2).
  destruct (storage_sound id md ns m0 eid x H1 H2) as (items & Hi & Hin & _). exists items. split; assumption.
Qed.

(* ------------------------------------------------------------------------------------------ *)
(** * Concrete objects: non-vacuity and the places where the faithful model refutes the text *)

Definition ex_item (d : Z) (idb : bytes) (v : cbor) : item :=
  {| it_digest := d; it_random := [1; 2; 3; 4]; it_id := idb; it_value := v |}.
Definition ex_inner (it : item) : bytes := encode (CMap (item_entries it)).
Definition ex_i1 : bytes := ex_inner (ex_item 1 [97] (CText [102; 105; 114; 115; 116])).   (* "a" -> "first" *)
Definition ex_i2 : bytes := ex_inner (ex_item 2 [97] (CText [115; 101; 99; 111; 110; 100])). (* "a" -> "second" *)
Definition ex_i3 : bytes := ex_inner (ex_item 3 [98] (CBool true)).                            (* "b" -> true *)
Definition ex_cose : cose1 :=
  {| c_tagged := false; c_protected := [161; 1; 38]; c_unprotected := [(CUInt 33, CBytes [48; 3; 2; 1; 0])];
     c_payload := Some [216; 24; 65; 160]; c_sig := [9; 9] |}.
Definition ex_ns : bytes := [110; 115].   (* "ns" *)
Definition ex_mdoc (items : list bytes) : mdoc :=
  {| md_doc_type := [100]; md_mso := CMap []; md_ns := [(ex_ns, items)]; md_auth := ex_cose |}.

Example ex_items_ok : item_ok ex_i1 /\ item_ok ex_i2 /\ item_ok ex_i3.
Proof. repeat split; eexists; vm_compute; reflexivity. Qed.

Example ex_doc_ok : doc_ok (doc_of_mdoc CNull (ex_mdoc [ex_i1; ex_i3])).
Proof.
  unfold doc_ok. split; [split; vm_compute; reflexivity|]. split; [|split; vm_compute; reflexivity].
  assert (E : d_ns (doc_of_mdoc CNull (ex_mdoc [ex_i1; ex_i3])) = [(ex_ns, [([97], ex_i1); ([98], ex_i3)])])
    by (vm_compute; reflexivity).
  rewrite E. split; [discriminate|]. split; [split; [intros ? []|exact I]|].
  constructor; [|constructor]. cbn [snd]. split; [discriminate|]. split.
  - split; [intros kv' [<-|[]]; reflexivity|]. split; [intros ? []|exact I].
  - destruct ex_items_ok as (H1 & _ & H3). repeat constructor; assumption.
Qed.

(* FINDING (duplicate element identifiers): From<Mdoc> keeps only the LAST of two items that carry
   the same elementIdentifier in one namespace; the earlier issuer-signed item is dropped *)
Theorem storage_dup_drops_item :
  d_ns (doc_of_mdoc CNull (ex_mdoc [ex_i1; ex_i2])) = [(ex_ns, [([97], ex_i2)])].
Proof. vm_compute. reflexivity. Qed.

Theorem storage_complete_refuted :
  ~ (forall id md ns items inner,
       In (ns, items) (md_ns md) -> Forall item_ok items -> In inner items ->
       exists m, In (ns, m) (d_ns (doc_of_mdoc id md)) /\ In (id_of inner, inner) m).
Proof.
  intro H. destruct ex_items_ok as (H1 & H2 & _).
  destruct (H CNull (ex_mdoc [ex_i1; ex_i2]) ex_ns [ex_i1; ex_i2] ex_i1) as (m & Hm & Hin).
  - left; reflexivity.
  - repeat constructor; assumption.
  - left; reflexivity.
  - rewrite storage_dup_drops_item in Hm. destruct Hm as [E|[]]. inversion E; subst m.
    destruct Hin as [E'|[]]. vm_compute in E'. discriminate E'.
Qed.

(* QUANTIFIER LIMIT (struct keys): an IssuerSignedItem whose map KEY is written as an
   indefinite-length text string -- a valid CBOR encoding -- is refused by the typed reader
   (not altered: refused), although the generic view decodes it *)
Theorem item_indefinite_key_refused :
  let it := ex_item 1 [97] CNull in
  let c := Ch 0 false [] [Ch 0 true [] []] in
  view (encode_with c (CMap (item_entries it))) = Some (CMap (item_entries it)) /\
  read_item (encode_with c (CMap (item_entries it))) = None /\
  read_item (encode_with ch_default (CMap (item_entries it))) = Some it.
Proof. vm_compute. repeat split; reflexivity. Qed.

(* OUTSIDE THE QUANTIFIER (outer framing): a tag-24 item received with a non-shortest or
   indefinite-length OUTER byte string is accepted, its embedded bytes are kept, and it is re-emitted
   with the shortest definite head *)
Theorem outer_framing_normalised :
  let inner := [161; 97; 97; 1] in
  let c := Ch 0 false [] [Ch 0 true [2] []] in
  encode_with c (tag24 inner) = [216; 24; 95; 66; 161; 97; 66; 97; 1; 255] /\
  tag24_decode (encode_with c (tag24 inner)) = Some inner /\
  tag24_encode inner = [216; 24; 68; 161; 97; 97; 1].
Proof. vm_compute. repeat split; reflexivity. Qed.

Print Assumptions hdr_norm_idem.
Print Assumptions sign1_received.
Print Assumptions is_roundtrip.
Print Assumptions doc_cycles.
Print Assumptions storage_complete.
Print Assumptions select_items_held.
Print Assumptions end_to_end.
Print Assumptions storage_complete_refuted.
