From Isomdl Require Import Lib.Bytes Model.Iv Model.Session Spec.DeviceDiagram.
Open Scope N_scope.

(* ---------- invariant and abstraction ---------- *)

Definition dinv (d : dev) : Prop :=
  match d_state d with
  | Awaiting => True
  | Signing p => pr_prepared p <> []
  | Ready m => exists nonce r, m = WData (Enc (d_kd d) nonce (PResponse r))
  end.

Definition abs (d : dev) : rstate :=
  match d_state d with
  | Awaiting => RAwaiting
  | Signing p => RSigning (pr_prepared p) (pr_signed p) (pr_doc_errors p) (pr_status p)
  | Ready (WData (Enc _ _ (PResponse r))) => RReady r
  | Ready _ => RAwaiting
  end.

(* how the device model classifies a delivered message (decides the diagram's input) *)
Definition classify (d : dev) (w : wire) : delivered :=
  match w with
  | WData c =>
    match decrypt (d_kr d) (iv Reader (incr (d_recv d))) c with
    | Some (PRequest id) => DlRequest id
    | Some PNotCbor => DlNotCbor
    | Some _ => DlNotRequest
    | None => DlNothing
    end
  | _ => DlNothing
  end.

Definition rop_of (s : sys) (o : op) : option rop :=
  match o with
  | OHandleRequest w => Some (RHandle (classify (s_dev s) w))
  | OPrepare docs errs => Some (RPrepare docs errs)
  | ONextPayload => Some RNextPayload
  | OSubmit sg => Some (RSubmit sg)
  | OReady => Some RReadyQ
  | ORetrieve => Some RRetrieve
  | _ => None
  end.

Definition response_of_wire (w : wire) : option response :=
  match w with WData (Enc _ _ (PResponse r)) => Some r | _ => None end.

Definition out_matches (x : out) (rx : rout) : Prop :=
  match x, rx with
  | OutReq RoParsingError, ROHandled DlNothing => True
  | OutReq RoDecryptionError, ROHandled DlNothing => True
  | OutReq RoEmpty, ROHandled DlNotCbor => True
  | OutReq RoEmpty, ROHandled DlNotRequest => True
  | OutReq (RoRequest id), ROHandled (DlRequest id') => id = id'
  | OutPayload p, ROPayload p' => p = p'
  | OutBool b, ROBool b' => b = b'
  | OutRetrieved None, RORetrieved None => True
  | OutRetrieved (Some w), RORetrieved (Some r) => response_of_wire w = Some r
  | OutUnit, ROUnit => True
  | _, _ => False
  end.

Lemma last_opt_snoc {A} (r : list A) y : last_opt (r ++ [y]) = Some y.
Proof.
  induction r as [|a r IH]; [reflexivity|]. cbn [app last_opt].
  destruct (r ++ [y]) eqn:E; [destruct r; discriminate|]. exact IH.
Qed.

Lemma pop_last_spec {A} (l : list A) :
  match pop_last l with
  | Some (rest, x) => l = rest ++ [x] /\ last_opt l = Some x
  | None => l = []
  end.
Proof.
  induction l as [|a l IH]; cbn [pop_last]; [reflexivity|].
  destruct l as [|b l]; [split; reflexivity|].
  destruct (pop_last (b :: l)) as [[r y]|]; [|discriminate].
  destruct IH as [Hl _]. rewrite Hl. split; [reflexivity|].
  change (a :: r ++ [y]) with ((a :: r) ++ [y]). apply last_opt_snoc.
Qed.

(* ---------- finalisation ---------- *)

Lemma finalize_complete d p :
  d_state d = Signing p ->
  let d' := fst (dev_finalize d) in
  dinv d' /\ abs d' = complete (pr_prepared p) (pr_signed p) (pr_doc_errors p) (pr_status p)
  /\ d_kr d' = d_kr d /\ d_kd d' = d_kd d /\ d_recv d' = d_recv d.
Proof.
  intro Hs. unfold dev_finalize. rewrite Hs. destruct (pr_prepared p) as [|x l] eqn:Ep.
  - unfold next_iv. cbn. split; [eexists; eexists; reflexivity|]. repeat split; reflexivity.
  - cbn. unfold dinv, abs. rewrite Hs, Ep. split; [discriminate|]. repeat split; reflexivity.
Qed.

Lemma set_state_fields d st :
  d_state (set_state d st) = st /\ d_kr (set_state d st) = d_kr d /\ d_kd (set_state d st) = d_kd d
  /\ d_recv (set_state d st) = d_recv d /\ d_send (set_state d st) = d_send d.
Proof. repeat split; reflexivity. Qed.

(* ---------- one step refines the diagram ---------- *)

Lemma step_refines s o :
  dinv (s_dev s) ->
  let '(s', x, _) := step s o in
  dinv (s_dev s') /\
  match rop_of s o with
  | Some ro => let '(rs', rx) := rstep (abs (s_dev s)) ro in abs (s_dev s') = rs' /\ out_matches x rx
  | None => abs (s_dev s') = abs (s_dev s)
  end.
Proof.
  intro Hinv. destruct o; cbn [step rop_of].
  - (* new request *) cbn. split; [exact Hinv|reflexivity].
  - (* handle request *)
    destruct (dev_handle_request (s_dev s) w) as [[d' ro] em] eqn:E. cbn [s_dev].
    unfold dev_handle_request, next_iv in E. unfold classify.
    destruct w as [| |c].
    + inversion E; subst. cbn. split; [exact Hinv|split; [reflexivity|exact I]].
    + inversion E; subst. cbn. split; [exact Hinv|split; [reflexivity|exact I]].
    + destruct (decrypt (d_kr (s_dev s)) (iv Reader (incr (d_recv (s_dev s)))) c) as [pl|] eqn:Ed.
      * destruct pl as [id| | |r|];
          try (match type of E with context [dev_finalize ?x] => 
                 pose proof (finalize_complete x _ eq_refl) as Hf; destruct (dev_finalize x) as [d'' em''] end;
               cbn [fst] in Hf; destruct Hf as [Hi [Ha _]]; inversion E; subst;
               cbn [rstep]; split; [exact Hi|split; [exact Ha|exact I]]).
        inversion E; subst. cbn [rstep]. split; [exact Hinv|]. split; [reflexivity|exact eq_refl].
      * inversion E; subst. cbn [rstep]. split; [exact Hinv|split; [reflexivity|exact I]].
  - (* prepare *)
    destruct (dev_prepare (s_dev s) docs errs) as [d' em] eqn:E. cbn [s_dev].
    unfold dev_prepare in E.
    match type of E with context [dev_finalize ?x] => pose proof (finalize_complete x _ eq_refl) as Hf end.
    rewrite E in Hf. cbn [fst] in Hf. destruct Hf as [Hi [Ha _]].
    cbn [rstep]. split; [exact Hi|split; [exact Ha|exact I]].
  - (* next payload *)
    cbn [rstep]. split; [exact Hinv|]. split; [reflexivity|].
    cbn [out_matches]. unfold dev_next_payload, abs.
    destruct (d_state (s_dev s)) as [|p|m]; try reflexivity.
    destruct m as [| |[k nonce [| | |r|]|]]; reflexivity.
  - (* submit *)
    destruct (dev_submit (s_dev s) sg) as [d' em] eqn:E. cbn [s_dev].
    unfold dev_submit in E. unfold dinv in Hinv. unfold abs at 1.
    destruct (d_state (s_dev s)) as [|p|m] eqn:Est.
    + inversion E; subst. cbn [rstep]. split; [unfold dinv; rewrite Est; exact I|].
      split; [unfold abs; rewrite Est; reflexivity|exact I].
    + match type of E with context [dev_finalize ?x] => pose proof (finalize_complete x _ eq_refl) as Hf end.
      rewrite E in Hf. cbn [fst] in Hf. destruct Hf as [Hi [Ha _]].
      cbn [rstep]. destruct (pop_last (pr_prepared p)) as [[rest [id pay]]|] eqn:Ep.
      * split; [exact Hi|]. split; [exact Ha|exact I].
      * exfalso. pose proof (pop_last_spec (pr_prepared p)) as Hp. rewrite Ep in Hp. contradiction.
    + inversion E; subst. cbn [rstep].
      destruct Hinv as [nonce [r ->]].
      split; [unfold dinv; rewrite Est; eexists; eexists; reflexivity|].
      split; [unfold abs; rewrite Est; reflexivity|exact I].
  - (* ready *)
    cbn [rstep]. split; [exact Hinv|]. split; [reflexivity|]. cbn [out_matches].
    unfold dev_ready, abs. unfold dinv in Hinv. destruct (d_state (s_dev s)) as [|p|m]; try reflexivity.
    destruct Hinv as [nonce [r ->]]. reflexivity.
  - (* retrieve *)
    destruct (dev_retrieve (s_dev s)) as [d' w] eqn:E. cbn [s_dev].
    unfold dev_retrieve in E. unfold dinv in Hinv. unfold abs at 1.
    destruct (d_state (s_dev s)) as [|p|m] eqn:Est.
    + inversion E; subst. cbn [rstep]. split; [unfold dinv; rewrite Est; exact I|].
      split; [unfold abs; rewrite Est; reflexivity|exact I].
    + inversion E; subst. cbn [rstep]. split; [unfold dinv; rewrite Est; exact Hinv|].
      split; [unfold abs; rewrite Est; reflexivity|exact I].
    + destruct Hinv as [nonce [r ->]]. inversion E; subst. cbn [rstep].
      split; [exact I|]. split; [reflexivity|reflexivity].
  - (* handle response: reader side only *)
    destruct (rdr_handle_response (s_rdr s) w) as [r' ro]. cbn. split; [exact Hinv|reflexivity].
  - cbn. split; [exact Hinv|reflexivity].
  - cbn. split; [exact Hinv|reflexivity].
Qed.

(* ---------- every call sequence refines the diagram ---------- *)

Fixpoint sim (ops : list op) (s : sys) (rs : rstate) : Prop :=
  match ops with
  | [] => True
  | o :: rest =>
    let '(s', x, _) := step s o in
    match rop_of s o with
    | Some ro => let '(rs', rx) := rstep rs ro in out_matches x rx /\ abs (s_dev s') = rs' /\ sim rest s' rs'
    | None => abs (s_dev s') = rs /\ sim rest s' rs
    end
  end.

Lemma sim_from ops : forall s, dinv (s_dev s) -> sim ops s (abs (s_dev s)).
Proof.
  induction ops as [|o ops IH]; intros s Hinv; cbn [sim]; [exact I|].
  pose proof (step_refines s o Hinv) as H.
  destruct (step s o) as [[s' x] em]. destruct H as [Hi H].
  destruct (rop_of s o) as [ro|].
  - destruct (rstep (abs (s_dev s)) ro) as [rs' rx]. destruct H as [Ha Hm].
    split; [exact Hm|]. split; [exact Ha|]. rewrite <- Ha. apply IH. exact Hi.
  - split; [exact H|]. rewrite <- H. apply IH. exact Hi.
Qed.

Theorem refines_diagram ops kr kd : sim ops (fresh kr kd) RAwaiting.
Proof. apply (sim_from ops (fresh kr kd)). exact I. Qed.

(* ---------- reachable states ---------- *)

Definition reachable (s : sys) : Prop := exists ops kr kd, s = fst (fst (run ops (fresh kr kd))).

Lemma run_inv ops : forall s, dinv (s_dev s) -> dinv (s_dev (fst (fst (run ops s)))).
Proof.
  induction ops as [|o ops IH]; intros s Hinv; cbn [run]; [exact Hinv|].
  pose proof (step_refines s o Hinv) as H.
  destruct (step s o) as [[s' x] em]. destruct H as [Hi _].
  specialize (IH s' Hi). destruct (run ops s') as [[s'' xs] ems]. exact IH.
Qed.

Lemma reachable_inv s : reachable s -> dinv (s_dev s).
Proof. intros [ops [kr [kd ->]]]. apply run_inv. exact I. Qed.

(* ---------- the clauses of the property ---------- *)

Definition unsigned (d : dev) : list pdoc :=
  match d_state d with Signing p => pr_prepared p | _ => [] end.
Definition has_response (d : dev) : Prop := d_state d <> Awaiting.

Lemma last_opt_none {A} (l : list A) : last_opt l = None <-> l = [].
Proof.
  induction l as [|x l IH]; cbn; [split; reflexivity|].
  destruct l; [split; discriminate|]. rewrite IH. split; discriminate.
Qed.

Theorem payload_iff s : reachable s ->
  (dev_next_payload (s_dev s) <> None <-> unsigned (s_dev s) <> []).
Proof.
  intro Hr. apply reachable_inv in Hr. unfold dev_next_payload, unsigned, dinv in *.
  destruct (d_state (s_dev s)) as [|p|m].
  - split; intro H; contradiction.
  - rewrite last_opt_none. reflexivity.
  - split; intro H; contradiction.
Qed.

Theorem ready_iff s : reachable s -> has_response (s_dev s) ->
  (dev_ready (s_dev s) = true <-> unsigned (s_dev s) = []).
Proof.
  intros Hr Hh. apply reachable_inv in Hr. unfold dev_ready, unsigned, dinv, has_response in *.
  destruct (d_state (s_dev s)) as [|p|m].
  - contradiction.
  - split; [discriminate|intro; contradiction].
  - split; reflexivity.
Qed.

Definition signed_docs (d : dev) : list sdoc :=
  match d_state d with
  | Signing p => pr_signed p
  | Ready w => match response_of_wire w with Some r => rs_docs r | None => [] end
  | Awaiting => []
  end.

Theorem submit_pairs (d : dev) id payload sg :
  dev_next_payload d = Some (id, payload) ->
  let d' := fst (dev_submit d sg) in
  In (id, sg) (signed_docs d') /\
  exists rest, unsigned d = rest ++ [(id, payload)] /\ unsigned d' = rest /\
    signed_docs d' = signed_docs d ++ [(id, sg)].
Proof.
  unfold dev_next_payload, dev_submit, unsigned, signed_docs. destruct (d_state d) as [|p|m] eqn:Es; try discriminate.
  intro Hl. pose proof (pop_last_spec (pr_prepared p)) as Hp.
  destruct (pop_last (pr_prepared p)) as [[rest [id' pay']]|]; [|rewrite Hp in Hl; discriminate].
  destruct Hp as [Hp1 Hp2]. rewrite Hp2 in Hl. inversion Hl; subst id' pay'.
  unfold dev_finalize. cbn [set_state d_state pr_prepared].
  destruct rest as [|x rest'].
  - unfold next_iv. cbn. split; [apply in_or_app; right; left; reflexivity|].
    exists []. rewrite Hp1. repeat split; reflexivity.
  - cbn. split; [apply in_or_app; right; left; reflexivity|].
    exists (x :: rest'). rewrite Hp1. repeat split; reflexivity.
Qed.

Theorem retrieve_once (d : dev) :
  match dev_retrieve d with
  | (d', Some m) => d_state d = Ready m /\ d_state d' = Awaiting /\ snd (dev_retrieve d') = None
  | (d', None) => d' = d /\ dev_ready d = false
  end.
Proof.
  unfold dev_retrieve, dev_ready. destruct (d_state d) as [|p|m] eqn:E.
  - split; reflexivity.
  - split; reflexivity.
  - cbn. split; [reflexivity|]. split; reflexivity.
Qed.

Theorem noop_when_nothing_pending (d : dev) sg :
  (forall p, d_state d <> Signing p) -> dev_submit d sg = (d, []).
Proof.
  intro H. unfold dev_submit. destruct (d_state d) as [|p|m] eqn:E; try reflexivity.
  exfalso. apply (H p). reflexivity.
Qed.

Theorem error_response (d : dev) c :
  let nonce := iv Reader (incr (d_recv d)) in
  forall pl, decrypt (d_kr d) nonce c = Some pl ->
  (forall id, pl <> PRequest id) ->
  let '(d', ro, _) := dev_handle_request d (WData c) in
  ro = RoEmpty /\ dev_ready d' = true /\
  exists m r, dev_retrieve d' = (set_state d' Awaiting, Some m) /\ response_of_wire m = Some r /\
    rs_docs r = [] /\ rs_status r = (match pl with PNotCbor => 11 | _ => 12 end).
Proof.
  cbv zeta. intros pl Hd Hn. unfold dev_handle_request, next_iv. rewrite Hd.
  destruct pl as [id| | |r|]; try (exfalso; apply (Hn id); reflexivity);
    unfold dev_finalize, next_iv; cbn; (split; [reflexivity|]); (split; [reflexivity|]);
    eexists; eexists; (split; [reflexivity|]); cbn; repeat split; reflexivity.
Qed.
