(* C10, part 1: Tag24<T> keeps the embedded bytes; the typed view is the decoding of those bytes in
   whatever encoding the producer chose; the IssuerSignedItem reader is insensitive to key order
   and to unknown extra entries. *)
From Isomdl Require Import Lib.Bytes Lib.Utf8 Lib.Cbor Lib.CborLoose Proofs.CborProofs Proofs.CborLooseProofs
  Model.Cose Model.Tag24.
From Coq Require Import Lia ZifyN ZifyNat ZifyBool Permutation.
Open Scope N_scope.

(* ------------------------------------------------------------------------------------------ *)
(** * Tag24 *)

Definition bytes_ok (b : bytes) : Prop := wf_bytes b = true /\ blen b < two64.

Lemma tag24_cbor_ok inner : bytes_ok inner -> wf (tag24 inner) = true /\ len_ok (tag24 inner) = true.
Proof.
  intros [Hw Hl]. unfold tag24. cbn [wf len_ok]. rewrite Hw.
  apply N.ltb_lt in Hl. rewrite Hl. split; reflexivity.
Qed.

(* decode . encode keeps ANY embedded bytes (they are not interpreted by this layer) *)
Theorem tag24_preserved inner r : wf_bytes inner = true -> blen inner < two64 ->
  tag24_decode (tag24_encode inner ++ r) = Some inner.
Proof.
  intros Hw Hl. destruct (tag24_cbor_ok inner (conj Hw Hl)) as [W L].
  unfold tag24_decode, tag24_encode. rewrite decode_first_encode by assumption. reflexivity.
Qed.

(* the outer item in any head widths, even with an indefinite-length byte string: same embedded
   bytes; what is re-emitted is [tag24_encode inner], the shortest form *)
Theorem tag24_any_outer c inner r : wf_bytes inner = true -> blen inner < two64 ->
  tag24_decode (encode_with c (tag24 inner) ++ r) = Some inner.
Proof.
  intros Hw Hl. destruct (tag24_cbor_ok inner (conj Hw Hl)) as [W L].
  unfold tag24_decode. rewrite decode_first_encode_with by assumption. reflexivity.
Qed.

(* re-emission is a fixed point of decode . encode *)
Theorem tag24_fixed_point inner : wf_bytes inner = true -> blen inner < two64 ->
  option_map tag24_encode (tag24_decode (tag24_encode inner)) = Some (tag24_encode inner).
Proof.
  intros Hw Hl. pose proof (tag24_preserved inner [] Hw Hl) as H. rewrite app_nil_r in H.
  rewrite H. reflexivity.
Qed.

(* the emitted item determines the embedded bytes: two different embedded byte strings never have
   the same tag-24 encoding (hence never the same digest input) *)
Theorem tag24_encode_injective a b : bytes_ok a -> bytes_ok b -> tag24_encode a = tag24_encode b -> a = b.
Proof.
  intros Ha Hb E. destruct (tag24_cbor_ok a Ha), (tag24_cbor_ok b Hb).
  apply encode_injective in E; try assumption. inversion E. reflexivity.
Qed.

(* the explicit form of what is emitted: D8 18, shortest byte-string head, the bytes *)
Theorem tag24_encode_shape inner : tag24_encode inner = [216; 24] ++ head 2 (blen inner) ++ inner.
Proof. reflexivity. Qed.

(* Tag24<T>: the typed view is exactly the typed reading of the kept bytes *)
Theorem tag24_view_is_decoding {T} (rd : bytes -> option T) bs inner t :
  tag24_decode_as rd bs = Some (inner, t) <-> tag24_decode bs = Some inner /\ rd inner = Some t.
Proof.
  unfold tag24_decode_as, obind. destruct (tag24_decode bs) as [i|]; [|split; [discriminate|intros [H _]; discriminate]].
  destruct (rd i) as [t'|] eqn:E.
  - split; [intro H; inversion H; subst; auto|intros [H1 H2]; inversion H1; subst; rewrite E in H2; inversion H2; reflexivity].
  - split; [discriminate|intros [H1 H2]; inversion H1; subst; rewrite E in H2; discriminate].
Qed.

(* whatever encoding choices the producer of the embedded item made, the view is the value *)
Theorem view_any_encoding c v r : wf v = true -> len_ok v = true -> view (encode_with c v ++ r) = Some v.
Proof. intros. apply decode_first_encode_with; assumption. Qed.

(* ... and the holder keeps and re-emits exactly those bytes, not a re-encoding of the view *)
Theorem tag24_keeps_producer_bytes c v r :
  wf_bytes (encode_with c v) = true -> blen (encode_with c v) < two64 ->
  tag24_decode (tag24_encode (encode_with c v) ++ r) = Some (encode_with c v).
Proof. intros. apply tag24_preserved; assumption. Qed.

(* ------------------------------------------------------------------------------------------ *)
(** * The struct reader on loosely encoded maps *)

Lemma read_key_S f bs : read_key (S f) bs =
    '(major, _, a, r) <- read_head bs ;;
    match major, a with
    | 6, HVal _ => read_key f r
    | 3, HVal n =>
      if n <=? key_max then
        '(k, r') <- of_opt (split_at n r) ;; if utf8_valid k then DOk (k, r') else DErr
      else DErr
    | 2, HVal n =>
      if n <=? key_max then '(k, r') <- of_opt (split_at n r) ;; DOk (k, r') else DErr
    | _, _ => DErr
    end.
Proof. reflexivity. Qed.

Lemma entries_n_S f n bs : entries_n (S f) n bs =
    if n =? 0 then DOk ([], bs) else
    '(k, r) <- read_key f bs ;; '(v, r') <- decode f r ;;
    '(es, r'') <- entries_n f (n - 1) r' ;; DOk ((k, v) :: es, r'').
Proof. reflexivity. Qed.

Lemma entries_until_S_break f r : entries_until (S f) (255 :: r) = DOk ([], r).
Proof. reflexivity. Qed.

Lemma entries_until_S_nb f b t : b <> 255 ->
  entries_until (S f) (b :: t) =
    '(k, r) <- read_key f (b :: t) ;; '(v, r') <- decode f r ;;
    '(es, r'') <- entries_until f r' ;; DOk ((k, v) :: es, r'').
Proof.
  intro H. cbn [entries_until].
  destruct b as [|p]; [reflexivity|];
  do 8 (try (destruct p as [p|p|]; try reflexivity)); exfalso; apply H; reflexivity.
Qed.

Lemma read_struct_fuel_S f bs : read_struct_fuel (S f) bs =
    '(major, _, a, r) <- read_head bs ;;
    match major, a with
    | 6, HVal _ => read_struct_fuel f r
    | 5, HVal n => entries_n f n r
    | 5, HIndef => entries_until f r
    | _, _ => DErr
    end.
Proof. reflexivity. Qed.

(* a struct key as a producer may write it: a text string of at most 4096 bytes, definite length, any head width *)
Definition key_ok (k : bytes) : Prop := wf_bytes k = true /\ utf8_valid k = true /\ blen k <= key_max.

Lemma read_key_text ck k f r : key_ok k -> ch_indef ck = false -> (1 <= f)%nat ->
  read_key f (encode_with ck (CText k) ++ r) = DOk (k, r).
Proof.
  intros (Hw & Hu & Hl) Hd Hf. destruct f; [lia|]. rewrite read_key_S.
  cbn [encode_with]. rewrite Hd. rewrite <- app_assoc.
  unfold key_max in *. rewrite read_head_loose by (unfold two64; lia). cbn [dbind].
  replace (blen k <=? 4096) with true by (symmetry; apply N.leb_le; exact Hl).
  rewrite split_at_app. cbn [of_opt dbind]. rewrite Hu. reflexivity.
Qed.

(* entries: text keys that satisfy key_ok, with definite-length key choices *)
Fixpoint keys_def (cs : list choices) (kvs : list (cbor * cbor)) : Prop :=
  match kvs with
  | [] => True
  | _ :: r => ch_indef (hd ch_default cs) = false /\ keys_def (tl (tl cs)) r
  end.

Definition text_key (k : cbor) : bytes := match k with CText b => b | _ => [] end.
Definition kv_of (kv : cbor * cbor) : bytes * cbor := (text_key (fst kv), snd kv).

Definition entry_okp (kv : cbor * cbor) : Prop :=
  (exists k, fst kv = CText k /\ key_ok k) /\ wf (snd kv) = true /\ len_ok (snd kv) = true.

Lemma entries_n_enc kvs : Forall entry_okp kvs ->
  forall cs f r, keys_def cs kvs -> (2 * length (enc_pairs encode_with cs kvs) + 1 <= f)%nat ->
  entries_n f (N.of_nat (length kvs)) (enc_pairs encode_with cs kvs ++ r) = DOk (map kv_of kvs, r).
Proof.
  induction 1 as [|[k x] l [(kb & Ek & Hk) [Hw Hl]] Hrest IH]; intros cs f r Hd Hf.
  - destruct f; [lia|]. rewrite entries_n_S. cbn [length enc_pairs app map]. nb. reflexivity.
  - cbn [fst snd] in *. subst k. destruct Hd as [Hd1 Hd2].
    cbn [enc_pairs length map] in *. rewrite !app_length in Hf.
    pose proof (encode_with_length_pos (hd ch_default cs) (CText kb)).
    pose proof (encode_with_length_pos (hd ch_default (tl cs)) x).
    destruct f; [lia|]. rewrite entries_n_S. nb.
    rewrite <- !app_assoc. rewrite read_key_text by (assumption || lia). cbn [dbind].
    rewrite (decode_encode_with_fuel x _ Hw Hl) by lia. cbn [dbind].
    replace (N.of_nat (S (length l)) - 1) with (N.of_nat (length l)) by lia.
    rewrite (IH _ _ _ Hd2) by lia. reflexivity.
Qed.

Lemma entries_until_enc kvs : Forall entry_okp kvs ->
  forall cs f r, keys_def cs kvs -> (2 * length (enc_pairs encode_with cs kvs) + 1 <= f)%nat ->
  entries_until f (enc_pairs encode_with cs kvs ++ 255 :: r) = DOk (map kv_of kvs, r).
Proof.
  induction 1 as [|[k x] l [(kb & Ek & Hk) [Hw Hl]] Hrest IH]; intros cs f r Hd Hf.
  - destruct f; [lia|]. cbn [enc_pairs app map]. apply entries_until_S_break.
  - cbn [fst snd] in *. subst k. destruct Hd as [Hd1 Hd2].
    cbn [enc_pairs length map] in *. rewrite !app_length in Hf.
    pose proof (encode_with_length_pos (hd ch_default cs) (CText kb)).
    pose proof (encode_with_length_pos (hd ch_default (tl cs)) x).
    destruct f; [lia|]. rewrite <- !app_assoc.
    destruct (encode_with_first (hd ch_default cs) (CText kb)) as (b & t & E & Hb).
    assert (E' : exists t', encode_with (hd ch_default cs) (CText kb) ++ encode_with (hd ch_default (tl cs)) x
                            ++ enc_pairs encode_with (tl (tl cs)) l ++ 255 :: r = b :: t').
    { rewrite E. eexists. reflexivity. }
    destruct E' as (t' & E'). rewrite E', entries_until_S_nb by exact Hb. rewrite <- E'.
    rewrite read_key_text by (assumption || lia). cbn [dbind].
    rewrite (decode_encode_with_fuel x _ Hw Hl) by lia. cbn [dbind].
    rewrite (IH _ _ _ Hd2) by lia. reflexivity.
Qed.

(* the struct reader on ANY encoding of a map with text keys: head of any width or indefinite
   framing, any encoding of every value, definite-length keys of any head width *)
Theorem read_struct_any_encoding c kvs r :
  Forall entry_okp kvs -> N.of_nat (length kvs) < two64 -> keys_def (ch_sub c) kvs ->
  read_struct (encode_with c (CMap kvs) ++ r) = Some (map kv_of kvs).
Proof.
  intros Hok Hn Hd. unfold read_struct.
  assert (F : (2 * length (encode_with c (CMap kvs)) <= fuel_for (encode_with c (CMap kvs) ++ r))%nat)
    by apply fuel_for_enough_with.
  remember (fuel_for (encode_with c (CMap kvs) ++ r)) as f eqn:Ef. clear Ef.
  pose proof (encode_with_length_pos c (CMap kvs)) as Hpos.
  destruct f; [lia|]. rewrite read_struct_fuel_S. cbn [encode_with] in *. destruct (ch_indef c).
  - cbn [app]. rewrite <- app_assoc. cbn [app].
    change 191 with (5 * 32 + 31). rewrite read_head_indef by lia. cbn [dbind].
    cbn [length] in F. rewrite app_length in F. cbn [length] in F.
    rewrite (entries_until_enc kvs Hok _ _ _ Hd) by lia. reflexivity.
  - rewrite <- app_assoc, read_head_loose by lia. cbn [dbind].
    rewrite app_length in F. pose proof (loose_head_length_pos 5 (ch_w c) (N.of_nat (length kvs))).
    rewrite (entries_n_enc kvs Hok _ _ _ Hd) by lia. reflexivity.
Qed.

(* ------------------------------------------------------------------------------------------ *)
(** * Field collection: order-insensitive, unknown keys ignored, duplicates of known keys rejected *)

Lemma one_of_perm (l l' : list cbor) : Permutation l l' ->
  match l with [v] => Some v | _ => None end = match l' with [v] => Some v | _ => None end.
Proof.
  intro P. pose proof (Permutation_length P) as HL.
  destruct l as [|a [|b l]].
  - apply Permutation_nil in P. subst. reflexivity.
  - apply Permutation_length_1_inv in P. subst. reflexivity.
  - destruct l' as [|a' [|b' l']]; cbn [length] in HL; try discriminate; reflexivity.
Qed.

Lemma vals_perm k es es' : Permutation es es' -> Permutation (vals k es) (vals k es').
Proof.
  intro P. unfold vals. apply Permutation_map.
  induction P as [|x l l' P IH|x y l|l l' l'' P1 IH1 P2 IH2]; cbn [filter].
  - constructor.
  - destruct (bytes_eqb k (fst x)); [constructor|]; exact IH.
  - destruct (bytes_eqb k (fst x)), (bytes_eqb k (fst y)); try apply Permutation_refl. constructor.
  - eapply Permutation_trans; eassumption.
Qed.

Lemma one_perm k es es' : Permutation es es' -> one k es = one k es'.
Proof. intro P. unfold one. apply one_of_perm, vals_perm, P. Qed.

Theorem item_of_entries_perm es es' : Permutation es es' -> item_of_entries es = item_of_entries es'.
Proof.
  intro P. unfold item_of_entries.
  rewrite (one_perm k_digest es es' P), (one_perm k_random es es' P),
          (one_perm k_id es es' P), (one_perm k_value es es' P). reflexivity.
Qed.

Lemma vals_app k a b : vals k (a ++ b) = vals k a ++ vals k b.
Proof. unfold vals. rewrite filter_app, map_app. reflexivity. Qed.

Lemma vals_unknown k ex : known_key k = true ->
  Forall (fun e => known_key (fst e) = false) ex -> vals k ex = [].
Proof.
  intros Hk H. unfold vals. induction H as [|e ex He Hex IH]; [reflexivity|].
  cbn [filter]. destruct (bytes_eqb k (fst e)) eqn:E; [|exact IH].
  apply bytes_eqb_eq in E. rewrite <- E, Hk in He. discriminate.
Qed.

Theorem item_of_entries_extra es ex :
  Forall (fun e => known_key (fst e) = false) ex -> item_of_entries (es ++ ex) = item_of_entries es.
Proof.
  intro H. unfold item_of_entries, one. rewrite !vals_app.
  rewrite !(vals_unknown _ ex) by (reflexivity || exact H). rewrite !app_nil_r. reflexivity.
Qed.

(* a repeated known key is refused, wherever the repetition is *)
Theorem item_of_entries_dup k es v1 v2 rest : known_key k = true ->
  Permutation es ((k, v1) :: (k, v2) :: rest) -> item_of_entries es = None.
Proof.
  intros Hk P. rewrite (item_of_entries_perm _ _ P). unfold item_of_entries.
  assert (D : one k ((k, v1) :: (k, v2) :: rest) = None).
  { unfold one, vals. cbn [filter fst]. rewrite bytes_eqb_refl. cbn [map snd]. reflexivity. }
  unfold known_key in Hk.
  destruct (bytes_eqb k_digest k) eqn:E1; [apply bytes_eqb_eq in E1; subst k; rewrite D; reflexivity|].
  destruct (bytes_eqb k_random k) eqn:E2;
    [apply bytes_eqb_eq in E2; subst k; rewrite D; destruct (one k_digest _); reflexivity|].
  destruct (bytes_eqb k_id k) eqn:E3;
    [apply bytes_eqb_eq in E3; subst k; rewrite D; destruct (one k_digest _); [destruct (one k_random _) as [[]|]|]; reflexivity|].
  destruct (bytes_eqb k_value k) eqn:E4; [|discriminate].
  apply bytes_eqb_eq in E4; subst k; rewrite D.
  destruct (one k_digest _); [destruct (one k_random _) as [[]|]; [..|reflexivity]|reflexivity];
    try reflexivity; destruct (one k_id _); reflexivity.
Qed.

Lemma int_of_z_to_cbor z : int_of (z_to_cbor z) = Some z.
Proof.
  unfold z_to_cbor. destruct (Z.ltb_spec z 0); cbn [int_of]; f_equal; lia.
Qed.

Theorem item_of_entries_canonical it : in_i32 (it_digest it) = true ->
  item_of_entries (map kv_of (item_entries it)) = Some it.
Proof.
  intro Hi. destruct it as [d r i v]. cbn [it_digest] in Hi.
  unfold item_of_entries, item_entries, one, vals. cbn [map kv_of fst snd text_key it_digest it_random it_id it_value].
  change (filter (fun e => bytes_eqb k_digest (fst e)) _) with [(k_digest, z_to_cbor d)].
  change (filter (fun e => bytes_eqb k_random (fst e)) _) with [(k_random, CBytes r)].
  change (filter (fun e => bytes_eqb k_id (fst e)) _) with [(k_id, CText i)].
  change (filter (fun e => bytes_eqb k_value (fst e)) _) with [(k_value, v)].
  cbn [map snd]. rewrite int_of_z_to_cbor. cbn [text_of]. rewrite Hi. reflexivity.
Qed.

(* ------------------------------------------------------------------------------------------ *)
(** * IssuerSignedItem in any encoding, any key order, with any unknown extra entries *)

Definition item_cbor_ok (it : item) : Prop :=
  in_i32 (it_digest it) = true /\ bytes_ok (it_random it) /\
  (wf_bytes (it_id it) = true /\ utf8_valid (it_id it) = true /\ blen (it_id it) < two64) /\
  wf (it_value it) = true /\ len_ok (it_value it) = true.

Definition extra_ok (kv : cbor * cbor) : Prop := entry_okp kv /\ known_key (text_key (fst kv)) = false.

Lemma key_ok_lit k : wf_bytes k = true -> utf8_valid k = true -> blen k <= key_max -> key_ok k.
Proof. intros. repeat split; assumption. Qed.

Lemma item_entries_okp it : item_cbor_ok it -> Forall entry_okp (item_entries it).
Proof.
  intros (Hd & [Hr1 Hr2] & (Hi1 & Hi2 & Hi3) & Hv1 & Hv2). unfold item_entries.
  repeat constructor; cbn [fst snd].
  - exists k_digest. split; [reflexivity|]. apply key_ok_lit; vm_compute; (reflexivity || discriminate).
  - unfold z_to_cbor, in_i32 in *. destruct (Z.ltb_spec (it_digest it) 0); cbn [wf]; apply N.ltb_lt; unfold two64; lia.
  - unfold z_to_cbor. destruct (it_digest it <? 0)%Z; reflexivity.
  - exists k_random. split; [reflexivity|]. apply key_ok_lit; vm_compute; (reflexivity || discriminate).
  - exact Hr1.
  - cbn [len_ok]. apply N.ltb_lt. exact Hr2.
  - exists k_id. split; [reflexivity|]. apply key_ok_lit; vm_compute; (reflexivity || discriminate).
  - cbn [wf]. rewrite Hi1, Hi2. reflexivity.
  - cbn [len_ok]. apply N.ltb_lt. exact Hi3.
  - exists k_value. split; [reflexivity|]. apply key_ok_lit; vm_compute; (reflexivity || discriminate).
  - exact Hv1.
  - exact Hv2.
Qed.

Lemma Forall_perm {A} (P : A -> Prop) l l' : Permutation l l' -> Forall P l -> Forall P l'.
Proof. intros Hp H. rewrite Forall_forall in *. intros x Hx. apply H. eapply Permutation_in; [apply Permutation_sym|]; eassumption. Qed.

Theorem read_item_any_encoding it es extras c r :
  item_cbor_ok it -> Forall extra_ok extras ->
  Permutation es (item_entries it ++ extras) ->        (* any key order *)
  N.of_nat (length es) < two64 -> keys_def (ch_sub c) es ->
  read_item (encode_with c (CMap es) ++ r) = Some it.
Proof.
  intros Hit Hex P Hn Hd. unfold read_item.
  assert (Hall : Forall entry_okp (item_entries it ++ extras)).
  { apply Forall_app. split; [apply item_entries_okp, Hit|].
    eapply Forall_impl; [|exact Hex]. intros a [Ha _]. exact Ha. }
  assert (Hes : Forall entry_okp es) by (eapply Forall_perm; [apply Permutation_sym, P|exact Hall]).
  rewrite (read_struct_any_encoding c es r Hes Hn Hd). cbn [obind].
  rewrite (item_of_entries_perm _ (map kv_of (item_entries it ++ extras))) by (apply Permutation_map, P).
  rewrite map_app, item_of_entries_extra.
  - apply item_of_entries_canonical. apply Hit.
  - rewrite Forall_map. eapply Forall_impl; [|exact Hex]. intros a [_ Ha]. exact Ha.
Qed.

(* and the Tag24 around it keeps the producer's bytes and reports this view *)
Theorem tag24_item_any_encoding it es extras c r :
  item_cbor_ok it -> Forall extra_ok extras -> Permutation es (item_entries it ++ extras) ->
  N.of_nat (length es) < two64 -> keys_def (ch_sub c) es ->
  bytes_ok (encode_with c (CMap es)) ->
  tag24_decode_as read_item (tag24_encode (encode_with c (CMap es)) ++ r)
  = Some (encode_with c (CMap es), it).
Proof.
  intros Hit Hex P Hn Hd [Hw Hl]. apply tag24_view_is_decoding. split.
  - apply tag24_preserved; assumption.
  - pose proof (read_item_any_encoding it es extras c [] Hit Hex P Hn Hd) as H.
    rewrite app_nil_r in H. exact H.
Qed.

Print Assumptions tag24_preserved.
Print Assumptions read_item_any_encoding.
