(* Round-trip lemmas for the combinators of Lib/Serde.v.  [codec_ok P c]: on the domain P, decoding
   the encoding gives the value back and the encoding is a well-formed CBOR value (so that
   CborProofs.decode_encode lifts the statement to bytes: [bytes_rt]). *)
From Isomdl Require Import Lib.Bytes Lib.Utf8 Lib.Cbor Lib.Serde Proofs.CborProofs.
From Coq Require Import Lia.
Open Scope N_scope.

Record codec_ok {T} (P : T -> Prop) (c : codec T) : Prop := {
  ok_rt : forall x, P x -> dec c (enc c x) = Some x;
  ok_wf : forall x, P x -> wf (enc c x) = true }.

(* the encoding is never `null` (needed where the type sits under an Option) *)
Definition nonnull {T} (P : T -> Prop) (c : codec T) : Prop := forall x, P x -> enc c x <> CNull.

Lemma ok_weaken {T} (P Q : T -> Prop) c : codec_ok P c -> (forall x, Q x -> P x) -> codec_ok Q c.
Proof. intros [H1 H2] HQ. split; intros x Hx; auto. Qed.

Lemma obind_some {A B} (o : option A) (f : A -> option B) a : o = Some a -> obind o f = f a.
Proof. intros ->. reflexivity. Qed.

(* ---------- integers ---------- *)

Lemma ok_uint bound : bound <= two64 -> codec_ok (uint_P bound) (c_uint bound).
Proof.
  intro Hb. split; intros n Hn; unfold uint_P in Hn; cbn [c_uint enc dec untag wf].
  - replace (n <? bound) with true by (symmetry; apply N.ltb_lt; exact Hn). reflexivity.
  - apply N.ltb_lt. lia.
Qed.

Lemma ok_uint_v bound : bound <= two64 -> codec_ok (uint_P bound) (c_uint_v bound).
Proof.
  intro Hb. split; intros n Hn; unfold uint_P in Hn; cbn [c_uint_v enc dec wf].
  - replace (n <? bound) with true by (symmetry; apply N.ltb_lt; exact Hn). reflexivity.
  - apply N.ltb_lt. lia.
Qed.

Lemma untag_int z : untag (int_to_cbor z) = int_to_cbor z.
Proof. unfold int_to_cbor. destruct (0 <=? z)%Z; reflexivity. Qed.

Lemma int_rt z : int_of_cbor (int_to_cbor z) = Some z.
Proof.
  unfold int_to_cbor. destruct (Z.leb_spec 0 z) as [H|H]; cbn [int_of_cbor]; f_equal; lia.
Qed.


Lemma int_wf z : (- two64z <= z < two64z)%Z -> wf (int_to_cbor z) = true.
Proof.
  unfold two64z. intro H. unfold int_to_cbor. destruct (Z.leb_spec 0 z); cbn [wf]; apply N.ltb_lt; unfold two64; lia.
Qed.

Lemma ok_int lo hi : (- two64z <= lo)%Z -> (hi <= two64z)%Z ->
  codec_ok (int_P lo hi) (c_int lo hi).
Proof.
  intros Hlo Hhi. split; intros z Hz; unfold int_P in Hz; cbn [c_int enc dec].
  - rewrite untag_int, int_rt. cbn [obind].
    replace ((lo <=? z)%Z && (z <? hi)%Z) with true; [reflexivity|].
    symmetry. apply andb_true_iff. split; [apply Z.leb_le|apply Z.ltb_lt]; lia.
  - apply int_wf. lia.
Qed.

Lemma nbytes_bound n : n < 256 ^ N.of_nat (nbytes n).
Proof.
  unfold nbytes. rewrite N2Nat.id.
  destruct (N.eq_dec n 0) as [->|Hn]; [reflexivity|].
  assert (H : n < 2 ^ N.succ (N.log2 n)) by (apply N.log2_spec; lia).
  eapply N.lt_le_trans; [exact H|].
  change 256 with (2 ^ 8). rewrite <- N.pow_mul_r.
  apply N.pow_le_mono_r; [lia|].
  pose proof (N.div_mod (N.log2 n) 8 ltac:(lia)) as E.
  pose proof (N.mod_lt (N.log2 n) 8 ltac:(lia)). lia.
Qed.

Lemma be_min_value n : be_value (be_min n) = n.
Proof. unfold be_min. apply be_value_be_bytes. apply nbytes_bound. Qed.

Lemma be_min_wf n : wf_bytes (be_min n) = true.
Proof. unfold be_min. apply wf_bytes_be. Qed.


Lemma ok_i128 : codec_ok (int_P (- two127z) two127z) c_i128.
Proof.
  unfold int_P, two127z.
  split; intros z Hz; cbn [c_i128 enc dec]; unfold i128_to_cbor.
  - destruct (Z.leb_spec 0 z) as [H0|H0].
    + destruct (N.ltb_spec (Z.to_N z) two64) as [H|H]; cbn [i128_of_cbor].
      * f_equal. lia.
      * change (2 =? 2) with true. cbn match. rewrite be_min_value.
        replace (Z.to_N z <? two127) with true by (symmetry; apply N.ltb_lt; unfold two127; lia).
        f_equal. lia.
    + destruct (N.ltb_spec (Z.to_N (-1 - z)) two64) as [H|H]; cbn [i128_of_cbor].
      * f_equal. lia.
      * change (3 =? 2) with false. change (3 =? 3) with true. cbn match. rewrite be_min_value.
        replace (Z.to_N (-1 - z) <? two127) with true by (symmetry; apply N.ltb_lt; unfold two127; lia).
        f_equal. lia.
  - destruct (Z.leb_spec 0 z) as [H0|H0].
    + destruct (N.ltb_spec (Z.to_N z) two64) as [H|H]; cbn [wf].
      * apply N.ltb_lt; exact H.
      * rewrite be_min_wf, be_min_value.
        replace (Z.to_N z <? two64) with false by (symmetry; apply N.ltb_ge; exact H).
        reflexivity.
    + destruct (N.ltb_spec (Z.to_N (-1 - z)) two64) as [H|H]; cbn [wf].
      * apply N.ltb_lt; exact H.
      * rewrite be_min_wf, be_min_value.
        replace (Z.to_N (-1 - z) <? two64) with false by (symmetry; apply N.ltb_ge; exact H).
        reflexivity.
Qed.

(* ---------- scalars ---------- *)


Lemma ok_text : codec_ok text_ok c_text.
Proof.
  split; intros b [H1 H2]; cbn [c_text enc dec untag wf]; [reflexivity|]. rewrite H1, H2. reflexivity.
Qed.
Lemma ok_bool : codec_ok (fun _ => True) c_bool.
Proof. split; intros b _; reflexivity. Qed.
Lemma ok_bytestr : codec_ok bytes_ok c_bytestr.
Proof. split; intros b H; cbn [c_bytestr enc dec wf]; [reflexivity|exact H]. Qed.
Lemma ok_value : codec_ok value_ok c_value.
Proof. split; intros v H; cbn [c_value enc dec]; [reflexivity|exact H]. Qed.


Lemma ok_option {T} (P : T -> Prop) c : codec_ok P c -> nonnull P c -> codec_ok (opt_P P) (c_option c).
Proof.
  intros [Hrt Hwf] Hnn. split; intros [x|] Hx; cbn [c_option enc dec opt_P] in *; try reflexivity.
  - specialize (Hrt x Hx). specialize (Hnn x Hx).
    destruct (enc c x); try (rewrite Hrt; reflexivity). congruence.
  - apply Hwf; exact Hx.
Qed.

Lemma ok_iso {T U} (f : T -> U) (g : U -> T) (P : U -> Prop) c :
  codec_ok P c -> (forall x, g (f x) = x) -> codec_ok (fun x => P (f x)) (c_iso f g c).
Proof.
  intros [Hrt Hwf] Hgf. split; intros x Hx; cbn [c_iso enc dec].
  - rewrite Hrt by exact Hx. cbn. rewrite Hgf. reflexivity.
  - apply Hwf; exact Hx.
Qed.

Lemma ok_guard {T} (P : T -> Prop) (ok : T -> bool) c :
  codec_ok P c -> codec_ok (fun x => P x /\ ok x = true) (c_guard ok c).
Proof.
  intros [Hrt Hwf]. split; intros x [Hx Hok]; cbn [c_guard enc dec].
  - rewrite Hrt by exact Hx. cbn [obind]. rewrite Hok. reflexivity.
  - apply Hwf; exact Hx.
Qed.

(* ---------- sequences ---------- *)

Lemma mapM_map {A B} (e : A -> B) (d : B -> option A) (P : A -> Prop) l :
  (forall x, P x -> d (e x) = Some x) -> Forall P l -> mapM d (map e l) = Some l.
Proof.
  intros H HF. induction HF as [|x l Hx _ IH]; cbn [map mapM]; [reflexivity|].
  rewrite H by exact Hx. cbn [obind]. rewrite IH. reflexivity.
Qed.

Lemma forallb_map_wf {A} (e : A -> cbor) (P : A -> Prop) l :
  (forall x, P x -> wf (e x) = true) -> Forall P l -> forallb wf (map e l) = true.
Proof.
  intros H HF. induction HF as [|x l Hx _ IH]; cbn [map forallb]; [reflexivity|].
  rewrite H by exact Hx. exact IH.
Qed.

Lemma ok_list {T} (P : T -> Prop) c : codec_ok P c -> codec_ok (Forall P) (c_list c).
Proof.
  intros [Hrt Hwf]. split; intros l Hl; cbn [c_list enc dec untag wf].
  - eapply mapM_map; eauto.
  - eapply forallb_map_wf; eauto.
Qed.


Lemma ok_nelist {T} (P : T -> Prop) c : codec_ok P c -> codec_ok (ne_P P) (c_nelist c).
Proof.
  intro H. unfold c_nelist. eapply ok_weaken; [apply ok_guard, ok_list, H|].
  intros l [HF Hne]. split; [exact HF|]. destruct l; [congruence|reflexivity].
Qed.

Lemma wf_bytes_Forall b : wf_bytes b = true -> Forall (fun n => n < 256) b.
Proof.
  unfold wf_bytes, is_byte. intro H. apply Forall_forall. intros x Hx.
  rewrite forallb_forall in H. apply N.ltb_lt, H, Hx.
Qed.

Lemma ok_u8seq : codec_ok bytes_ok c_u8seq.
Proof.
  pose proof (ok_uint 256 ltac:(unfold two64; lia)) as [Hrt Hwf].
  split; intros b Hb; cbn [c_u8seq enc dec untag wf]; apply wf_bytes_Forall in Hb.
  - eapply mapM_map; [|exact Hb]. exact Hrt.
  - eapply forallb_map_wf; [|exact Hb]. exact Hwf.
Qed.

Lemma ok_u8array n : codec_ok (fun b => bytes_ok b /\ length b = n) (c_u8array n).
Proof.
  pose proof (ok_uint 256 ltac:(unfold two64; lia)) as [Hrt Hwf].
  split; intros b [Hb Hn]; cbn [c_u8array c_guard c_u8seq enc dec untag wf]; apply wf_bytes_Forall in Hb.
  - rewrite <- Hn, <- (map_length CUInt b), firstn_all.
    erewrite mapM_map; [|exact Hrt|exact Hb]. cbn [obind]. rewrite map_length, Nat.eqb_refl. reflexivity.
  - eapply forallb_map_wf; [|exact Hb]. exact Hwf.
Qed.

Lemma ok_tuple2 {A B} (PA : A -> Prop) (PB : B -> Prop) a b :
  codec_ok PA a -> codec_ok PB b -> codec_ok (tuple2_P PA PB) (c_tuple2 a b).
Proof.
  intros [Ha Wa] [Hb Wb]. split; intros [x y] [Hx Hy]; cbn [c_tuple2 enc dec untag wf fst snd forallb] in *.
  - rewrite Ha, Hb by assumption. reflexivity.
  - rewrite Wa, Wb by assumption. reflexivity.
Qed.

Lemma ok_tuple3 {A B C} (PA : A -> Prop) (PB : B -> Prop) (PC : C -> Prop) a b c :
  codec_ok PA a -> codec_ok PB b -> codec_ok PC c ->
  codec_ok (tuple3_P PA PB PC) (c_tuple3 a b c).
Proof.
  intros [Ha Wa] [Hb Wb] [Hc Wc].
  split; intros [[x y] z] (Hx & Hy & Hz); cbn [c_tuple3 enc dec untag wf fst snd forallb] in *.
  - rewrite Ha, Hb, Hc by assumption. reflexivity.
  - rewrite Wa, Wb, Wc by assumption. reflexivity.
Qed.

(* ---------- BTreeMap ---------- *)

Section BTreeProofs.
  Context {K V : Type}.
  Variable ltb : K -> K -> bool.

  Definition below (k : K) (l : list (K * V)) : Prop :=
    forall kv, In kv l -> ltb (fst kv) k = true /\ ltb k (fst kv) = false.

  Lemma bt_insert_last k v l : below k l -> bt_insert ltb k v l = l ++ [(k, v)].
  Proof.
    induction l as [|[k' v'] r IH]; intro Hb; cbn [bt_insert app]; [reflexivity|].
    destruct (Hb (k', v') (or_introl eq_refl)) as [H1 H2]. cbn [fst] in H1, H2.
    rewrite H2, H1. f_equal. apply IH. intros kv Hkv. apply Hb. right; exact Hkv.
  Qed.

  Lemma bt_sorted_app_below l1 k v l2 : bt_sorted ltb (l1 ++ (k, v) :: l2) = true -> below k l1.
  Proof.
    induction l1 as [|[k1 v1] r IH]; cbn [app bt_sorted]; intros H kv Hkv; [destruct Hkv|].
    apply andb_true_iff in H as [Hall Hs].
    destruct Hkv as [<-|Hkv]; [|apply (IH Hs); exact Hkv].
    rewrite forallb_forall in Hall. specialize (Hall (k, v) ltac:(apply in_or_app; right; left; reflexivity)).
    cbn [fst] in *. apply andb_true_iff in Hall as [A B]. apply negb_true_iff in B. split; assumption.
  Qed.

  Lemma bt_fold_sorted (l2 : list (K * V)) : forall l1 : list (K * V), bt_sorted ltb (l1 ++ l2) = true ->
    fold_left (fun acc (kv : K * V) => bt_insert ltb (fst kv) (snd kv) acc) l2 l1 = l1 ++ l2.
  Proof.
    induction l2 as [|[k v] r IH]; intros l1 H; cbn [fold_left fst snd].
    - rewrite app_nil_r. reflexivity.
    - rewrite bt_insert_last by (eapply bt_sorted_app_below; exact H).
      rewrite IH; rewrite <- app_assoc; [reflexivity|exact H].
  Qed.

  Lemma bt_of_list_sorted (l : list (K * V)) : bt_sorted ltb l = true -> bt_of_list ltb l = l.
  Proof. intro H. unfold bt_of_list. apply (bt_fold_sorted l []). exact H. Qed.
End BTreeProofs.


Lemma ok_map {K V} ltb (PK : K -> Prop) (PV : V -> Prop) ck cv :
  codec_ok PK ck -> codec_ok PV cv -> codec_ok (map_P ltb PK PV) (c_map ltb ck cv).
Proof.
  intros [Hk Wk] [Hv Wv]. split; intros l [Hs HF]; cbn [c_map enc dec untag wf].
  - erewrite mapM_map; [|intros x Hx; exact Hx|].
    + cbn [obind]. rewrite bt_of_list_sorted by exact Hs. reflexivity.
    + apply Forall_forall. intros [k v] Hin. rewrite Forall_forall in HF. destruct (HF _ Hin) as [A B].
      cbn [fst snd] in *. rewrite Hk, Hv by assumption. reflexivity.
  - induction HF as [|[k v] r [A B] _ IH]; cbn [map forallb fst snd]; [reflexivity|].
    cbn [bt_sorted] in Hs. apply andb_true_iff in Hs as [_ Hs].
    rewrite Wk, Wv by assumption. cbn. apply IH. exact Hs.
Qed.


Lemma ok_nemap {K V} ltb (PK : K -> Prop) (PV : V -> Prop) ck cv :
  codec_ok PK ck -> codec_ok PV cv -> codec_ok (nemap_P ltb PK PV) (c_nemap ltb ck cv).
Proof.
  intros Hk Hv. unfold c_nemap. eapply ok_weaken; [apply ok_guard, ok_map; eassumption|].
  intros l [H Hne]. split; [exact H|]. destruct l; [congruence|reflexivity].
Qed.

(* ---------- structs ---------- *)

Fixpoint nodupb (l : list bytes) : bool :=
  match l with
  | [] => true
  | n :: r => negb (existsb (bytes_eqb n) r) && nodupb r
  end.

Lemma find_all_absent name (fs : list fld) :
  existsb (bytes_eqb name) (map fst fs) = false -> find_all name (present fs) = [].
Proof.
  induction fs as [|[n ov] r IH]; cbn [map fst existsb present flat_map snd]; intro H; [reflexivity|].
  apply orb_false_iff in H as [H1 H2]. specialize (IH H2). unfold present in IH.
  destruct ov as [v|]; cbn [app find_all]; [rewrite H1|]; exact IH.
Qed.

Lemma get_field_present name ov (fs : list fld) :
  nodupb (map fst fs) = true -> In (name, ov) fs -> get_field name (present fs) = Some ov.
Proof.
  unfold get_field.
  induction fs as [|[n o] r IH]; cbn [map fst nodupb]; intros Hnd Hin; [destruct Hin|].
  apply andb_true_iff in Hnd as [Hn Hnd]. apply negb_true_iff in Hn.
  cbn [present flat_map snd fst]. fold (present r).
  destruct Hin as [E|Hin].
  - inversion E; subst n o. rewrite (find_all_absent name r Hn) in *.
    destruct ov as [v|]; cbn [app find_all].
    + rewrite bytes_eqb_refl, (find_all_absent name r Hn). reflexivity.
    + rewrite (find_all_absent name r Hn). reflexivity.
  - assert (Hne : bytes_eqb name n = false).
    { destruct (bytes_eqb name n) eqn:E; [|reflexivity]. apply bytes_eqb_eq in E. subst n.
      exfalso. assert (X : existsb (bytes_eqb name) (map fst r) = true).
      { apply existsb_exists. exists name. split; [|apply bytes_eqb_refl].
        change name with (fst (name, ov)). apply in_map. exact Hin. }
      congruence. }
    destruct o as [v|]; cbn [app find_all]; [rewrite Hne|]; apply IH; assumption.
Qed.

Fixpoint fields_P {T} (fs : fields T) : T -> Prop :=
  match fs in fields T return T -> Prop with
  | FNil => fun _ => True
  | FReq _ _ P rest => fun x => P (fst x) /\ fields_P rest (snd x)
  | FOpt _ _ P rest => fun x => opt_P P (fst x) /\ fields_P rest (snd x)
  end.

Fixpoint fields_good {T} (fs : fields T) : Prop :=
  match fs with
  | FNil => True
  | FReq _ c P rest => codec_ok P c /\ fields_good rest
  | FOpt _ c P rest => codec_ok P c /\ nonnull P c /\ fields_good rest
  end.

Definition name_ok (n : bytes) : bool := wf_bytes n && utf8_valid n.

Lemma dec_fields_enc {T} (fs : fields T) : fields_good fs -> forall (all : list fld) x,
  nodupb (map fst all) = true -> fields_P fs x -> incl (enc_fields fs x) all ->
  dec_fields fs (present all) = Some x.
Proof.
  induction fs as [|A B name c P rest IH|A B name c P rest IH]; intros Hg all x Hnd HP Hincl.
  - destruct x. reflexivity.
  - destruct x as [a r]. cbn [fields_good fields_P fst snd enc_fields dec_fields] in *.
    destruct Hg as [[Hrt _] Hg]. destruct HP as [Ha Hr].
    rewrite (get_field_present name (Some (enc c a)) all Hnd) by (apply Hincl; left; reflexivity).
    rewrite Hrt by exact Ha. cbn [obind].
    rewrite (IH Hg all r Hnd Hr) by (intros f Hf; apply Hincl; right; exact Hf). reflexivity.
  - destruct x as [oa r]. cbn [fields_good fields_P fst snd enc_fields dec_fields] in *.
    destruct Hg as [[Hrt _] [Hnn Hg]]. destruct HP as [Ha Hr].
    rewrite (get_field_present name (option_map (enc c) oa) all Hnd) by (apply Hincl; left; reflexivity).
    assert (IH' := IH Hg all r Hnd Hr ltac:(intros f Hf; apply Hincl; right; exact Hf)).
    destruct oa as [a|]; cbn [option_map opt_P] in *.
    + specialize (Hrt a Ha). specialize (Hnn a Ha).
      destruct (enc c a); try (rewrite Hrt; cbn [obind]; rewrite IH'; reflexivity). congruence.
    + rewrite IH'. reflexivity.
Qed.

Lemma struct_entries_cbor streaming (fs : list fld) :
  struct_entries streaming (struct_cbor fs) = Some (present fs).
Proof.
  unfold struct_entries, struct_cbor. cbn [untag].
  induction (present fs) as [|[n v] r IH]; cbn [map mapM fst snd]; [reflexivity|].
  unfold key_name at 1. cbn [untag obind]. rewrite IH. reflexivity.
Qed.

Lemma enc_fields_names {T} (fs : fields T) x : map fst (enc_fields fs x) = field_names fs.
Proof.
  induction fs as [|A B name c P rest IH|A B name c P rest IH]; cbn [enc_fields field_names map fst]; [reflexivity| |];
    rewrite IH; reflexivity.
Qed.

Lemma wf_fields {T} (fs : fields T) : fields_good fs -> forallb name_ok (field_names fs) = true ->
  forall x, fields_P fs x ->
  forallb (fun kv : cbor * cbor => let '(k, v) := kv in wf k && wf v)
          (map (fun nv => (CText (fst nv), snd nv)) (present (enc_fields fs x))) = true.
Proof.
  induction fs as [|A B name c P rest IH|A B name c P rest IH]; intros Hg Hn x HP.
  - reflexivity.
  - destruct x as [a r]. cbn [fields_good fields_P field_names forallb fst snd enc_fields] in *.
    destruct Hg as [[_ Hwf] Hg]. destruct HP as [Ha Hr]. apply andb_true_iff in Hn as [Hn1 Hn2].
    cbn [present flat_map snd fst app map forallb wf]. fold (present (enc_fields rest r)).
    unfold name_ok in Hn1. rewrite Hn1, (Hwf a Ha). cbn. apply IH; assumption.
  - destruct x as [oa r]. cbn [fields_good fields_P field_names forallb fst snd enc_fields] in *.
    destruct Hg as [[_ Hwf] [_ Hg]]. destruct HP as [Ha Hr]. apply andb_true_iff in Hn as [Hn1 Hn2].
    cbn [present flat_map snd fst]. fold (present (enc_fields rest r)).
    destruct oa as [a|]; cbn [option_map app map forallb wf fst snd opt_P] in *.
    + unfold name_ok in Hn1. rewrite Hn1, (Hwf a Ha). cbn. apply IH; assumption.
    + apply IH; assumption.
Qed.

Theorem ok_struct streaming {T} (fs : fields T) :
  fields_good fs -> nodupb (field_names fs) = true -> forallb name_ok (field_names fs) = true ->
  codec_ok (fields_P fs) (c_struct streaming fs).
Proof.
  intros Hg Hnd Hn. split; intros x HP; cbn [c_struct enc dec].
  - rewrite struct_entries_cbor. cbn [obind].
    apply dec_fields_enc; auto.
    + rewrite enc_fields_names. exact Hnd.
    + apply incl_refl.
  - unfold struct_cbor. cbn [wf]. apply wf_fields; assumption.
Qed.

(* ---------- enums ---------- *)

Lemma ok_unit_enum {T} eqb (names : list (T * bytes)) :
  (forall x, of_name names (name_of eqb names x) = Some x) ->
  (forall x, name_ok (name_of eqb names x) = true) ->
  codec_ok (fun _ => True) (c_unit_enum eqb names).
Proof.
  intros H1 H2. split; intros x _; cbn [c_unit_enum enc dec untag wf]; [apply H1|].
  specialize (H2 x). unfold name_ok in H2. exact H2.
Qed.

Lemma ok_code_enum {T} (to_code : T -> N) of_code :
  (forall x, of_code (to_code x) = Some x) -> (forall x, to_code x < two64) ->
  codec_ok (fun _ => True) (c_code_enum to_code of_code).
Proof.
  intros H1 H2. split; intros x _; cbn [c_code_enum c_uint enc dec untag wf].
  - replace (to_code x <? two64) with true by (symmetry; apply N.ltb_lt, H2). cbn [obind]. apply H1.
  - apply N.ltb_lt, H2.
Qed.

(* ---------- Tag24 and the byte level ---------- *)

Theorem bytes_rt {T} (P : T -> Prop) c x :
  codec_ok P c -> P x -> blen (to_bytes c x) < two64 -> from_bytes c (to_bytes c x) = Some x.
Proof.
  intros [Hrt Hwf] Hx Hlen. unfold from_bytes, to_bytes in *.
  pose proof (decode_first_encode (enc c x) [] (Hwf x Hx) (encode_short_len_ok _ Hlen)) as H.
  rewrite app_nil_r in H. rewrite H. apply Hrt, Hx.
Qed.

(* trailing bytes after the item are ignored by from_slice *)
Theorem bytes_rt_trailing {T} (P : T -> Prop) c x r :
  codec_ok P c -> P x -> blen (to_bytes c x) < two64 -> from_bytes c (to_bytes c x ++ r) = Some x.
Proof.
  intros [Hrt Hwf] Hx Hlen. unfold from_bytes, to_bytes in *.
  rewrite (decode_first_encode (enc c x) r (Hwf x Hx) (encode_short_len_ok _ Hlen)). apply Hrt, Hx.
Qed.

(* "encoding is a fixed point": re-encoding what was decoded reproduces the bytes *)
Theorem bytes_fixed_point {T} (P : T -> Prop) c x :
  codec_ok P c -> P x -> blen (to_bytes c x) < two64 ->
  exists y, from_bytes c (to_bytes c x) = Some y /\ to_bytes c y = to_bytes c x.
Proof. intros H Hx Hlen. exists x. split; [eapply bytes_rt; eauto|reflexivity]. Qed.

Theorem bytes_wf {T} (P : T -> Prop) c x : codec_ok P c -> P x -> wf_bytes (to_bytes c x) = true.
Proof. intros [_ Hwf] Hx. apply encode_wf_bytes, Hwf, Hx. Qed.

(* consistent Tag24 values: the stored bytes are bytes, and they parse to the stored value.  Every
   Tag24 that Rust code can hold satisfies the second part (Tag24::new for a round-tripping T,
   Tag24::from_bytes / deserialisation by construction). *)
Lemma ok_tag24 {T} (c : codec T) : codec_ok (tag24_P c) (c_tag24 c).
Proof.
  split; intros [x b] [Hb Hx]; cbn [c_tag24 enc dec t24_bytes t24_inner wf] in *.
  - rewrite Hx. reflexivity.
  - rewrite Hb. reflexivity.
Qed.

Lemma tag24_new_P {T} (P : T -> Prop) c x :
  codec_ok P c -> P x -> blen (to_bytes c x) < two64 -> tag24_P c (tag24_new c x).
Proof.
  intros H Hx Hlen. split; cbn [tag24_new t24_bytes t24_inner].
  - eapply bytes_wf; eauto.
  - eapply bytes_rt; eauto.
Qed.

(* ---------- nonnull ---------- *)

Lemma nn_uint {P} b : nonnull P (c_uint b). Proof. intros x _ H; discriminate H. Qed.
Lemma nn_uint_v {P} b : nonnull P (c_uint_v b). Proof. intros x _ H; discriminate H. Qed.
Lemma nn_int {P} lo hi : nonnull P (c_int lo hi).
Proof. intros x _. cbn [c_int enc]. unfold int_to_cbor. destruct (0 <=? x)%Z; discriminate. Qed.
Lemma nn_i128 {P} : nonnull P c_i128.
Proof.
  intros x _. cbn [c_i128 enc]. unfold i128_to_cbor.
  destruct (0 <=? x)%Z; [destruct (Z.to_N x <? two64)|destruct (Z.to_N (-1 - x) <? two64)]; discriminate.
Qed.
Lemma nn_text {P} : nonnull P c_text. Proof. intros x _ H; discriminate H. Qed.
Lemma nn_bool {P} : nonnull P c_bool. Proof. intros x _ H; discriminate H. Qed.
Lemma nn_bytestr {P} : nonnull P c_bytestr. Proof. intros x _ H; discriminate H. Qed.
Lemma nn_list {T P} (c : codec T) : nonnull P (c_list c). Proof. intros x _ H; discriminate H. Qed.
Lemma nn_nelist {T P} (c : codec T) : nonnull P (c_nelist c). Proof. intros x _ H; discriminate H. Qed.
Lemma nn_map {K V P} l (ck : codec K) (cv : codec V) : nonnull P (c_map l ck cv). Proof. intros x _ H; discriminate H. Qed.
Lemma nn_nemap {K V P} l (ck : codec K) (cv : codec V) : nonnull P (c_nemap l ck cv). Proof. intros x _ H; discriminate H. Qed.
Lemma nn_struct {T} {P : T -> Prop} s (fs : fields T) : nonnull P (c_struct s fs). Proof. intros x _ H; discriminate H. Qed.
Lemma nn_tuple2 {A B P} (a : codec A) (b : codec B) : nonnull P (c_tuple2 a b). Proof. intros x _ H; discriminate H. Qed.
Lemma nn_tuple3 {A B C P} (a : codec A) (b : codec B) (c : codec C) : nonnull P (c_tuple3 a b c).
Proof. intros x _ H; discriminate H. Qed.
Lemma nn_tag24 {T P} (c : codec T) : nonnull P (c_tag24 c). Proof. intros x _ H; discriminate H. Qed.
Lemma nn_code_enum {T P} (f : T -> N) g : nonnull P (c_code_enum f g). Proof. intros x _ H; discriminate H. Qed.
Lemma nn_unit_enum {T P} e (n : list (T * bytes)) : nonnull P (c_unit_enum e n). Proof. intros x _ H; discriminate H. Qed.
Lemma nn_iso_struct {T U P} (f : T -> U) g s (fs : fields U) : nonnull P (c_iso f g (c_struct s fs)).
Proof. intros x _ H; discriminate H. Qed.
Lemma nn_guard {T} (P : T -> Prop) (ok : T -> bool) c : nonnull P c -> nonnull P (c_guard ok c).
Proof. intros H x. apply H. Qed.
