(* Theorems about Model/Wire/Time.v: the emitted text denotes the same instant (to the second),
   has the fixed shape YYYY-MM-DDThh:mm:ssZ, and parses back to the UTC, fraction-free date-time.
   The calendar inversions are proved for all of Z: one 400-year era by a finite sweep
   (146 097 days), every other era by periodicity. *)
From Isomdl Require Import Lib.Bytes Lib.Utf8 Lib.Serde Model.Wire.Time Proofs.TimeSweep.
From Coq Require Import ZArith Lia.
Open Scope Z_scope.

(* ---------- periodicity ---------- *)

Lemma is_leap_shift y k : is_leap (y + 400 * k) = is_leap y.
Proof.
  unfold is_leap.
  replace ((y + 400 * k) mod 4) with (y mod 4) by (replace (y + 400 * k) with (y + (100 * k) * 4) by lia; rewrite Z.mod_add; lia).
  replace ((y + 400 * k) mod 100) with (y mod 100) by (replace (y + 400 * k) with (y + (4 * k) * 100) by lia; rewrite Z.mod_add; lia).
  replace ((y + 400 * k) mod 400) with (y mod 400) by (replace (y + 400 * k) with (y + k * 400) by lia; rewrite Z.mod_add; lia).
  reflexivity.
Qed.

Lemma valid_date_shift y k m d : valid_date (y + 400 * k) m d = valid_date y m d.
Proof. unfold valid_date, days_in_month. rewrite is_leap_shift. reflexivity. Qed.

Lemma dfc_shift y m d k : days_from_civil (y + 400 * k) m d = days_from_civil y m d + 146097 * k.
Proof.
  unfold days_from_civil.
  set (y0 := if m <=? 2 then y - 1 else y).
  replace (if m <=? 2 then y + 400 * k - 1 else y + 400 * k) with (y0 + k * 400)
    by (unfold y0; destruct (m <=? 2); lia).
  rewrite Z.div_add by lia. cbv zeta.
  replace (y0 + k * 400 - (y0 / 400 + k) * 400) with (y0 - y0 / 400 * 400) by lia. lia.
Qed.

Lemma cfd_shift z k :
  civil_from_days (z + 146097 * k) = let '(y, m, d) := civil_from_days z in (y + 400 * k, m, d).
Proof.
  unfold civil_from_days.
  replace (z + 146097 * k + 719468) with (z + 719468 + k * 146097) by lia.
  rewrite Z.div_add by lia. cbv zeta.
  replace (z + 719468 + k * 146097 - ((z + 719468) / 146097 + k) * 146097)
    with (z + 719468 - (z + 719468) / 146097 * 146097) by lia.
  set (doe := z + 719468 - (z + 719468) / 146097 * 146097).
  set (yoe := (doe - doe / 1460 + doe / 36524 - doe / 146096) / 365).
  set (mp := (5 * (doe - (365 * yoe + yoe / 4 - yoe / 100)) + 2) / 153).
  destruct ((if mp <? 10 then mp + 3 else mp - 9) <=? 2); f_equal; f_equal; lia.
Qed.

(* ---------- the two inversions, for every day / every valid date ---------- *)

Lemma sweep_days_at r : 0 <= r < 146097 -> chk_day (-719468 + r) = true.
Proof.
  intro Hr.
  assert (Hn : (Z.to_nat r < Z.to_nat 146097)%nat) by (apply Z2Nat.inj_lt; lia).
  pose proof (all_from_spec_nat _ _ _ sweep_days (Z.to_nat r) Hn) as H.
  rewrite Z2Nat.id in H by lia. exact H.
Qed.

Theorem cfd_sound z :
  let '(y, m, d) := civil_from_days z in days_from_civil y m d = z /\ valid_date y m d = true.
Proof.
  assert (Hex : exists q r, z = (-719468 + r) + 146097 * q /\ 0 <= r < 146097).
  { exists ((z + 719468) / 146097), ((z + 719468) mod 146097).
    split; [pose proof (Z.div_mod (z + 719468) 146097 ltac:(lia)); lia|apply Z.mod_pos_bound; lia]. }
  destruct Hex as (q & r & Hz & Hr). subst z.
  pose proof (sweep_days_at r Hr) as H.
  rewrite cfd_shift. unfold chk_day in H.
  destruct (civil_from_days (-719468 + r)) as [[y m] d].
  apply andb_true_iff in H as [H1 H2]. apply Z.eqb_eq in H1.
  rewrite dfc_shift, valid_date_shift. split; [lia|exact H2].
Qed.

Theorem cfd_dfc y m d : valid_date y m d = true -> civil_from_days (days_from_civil y m d) = (y, m, d).
Proof.
  intro Hv.
  assert (Hex : exists y0 q, y = y0 + 400 * q /\ 0 <= y0 < 400).
  { exists (y mod 400), (y / 400). split; [pose proof (Z.div_mod y 400 ltac:(lia)); lia|apply Z.mod_pos_bound; lia]. }
  destruct Hex as (y0 & q & Hy & Hy0).
  rewrite Hy in Hv |- *. rewrite valid_date_shift in Hv. rewrite dfc_shift, cfd_shift.
  assert (Hm : 1 <= m <= 12 /\ 1 <= d <= 31).
  { unfold valid_date in Hv. repeat (apply andb_true_iff in Hv as [Hv ?]).
    assert (days_in_month y0 m <= 31).
    { unfold days_in_month. destruct (m =? 2); [destruct (is_leap y0); lia|].
      destruct ((m =? 4) || (m =? 6) || (m =? 9) || (m =? 11)); lia. }
    lia. }
  pose proof (all_from_spec _ _ _ sweep_dates y0 ltac:(change (Z.of_nat 400) with 400; lia)) as H.
  cbn beta in H. rewrite Z.add_0_l in H.
  pose proof (all_from_spec _ _ _ H (m - 1) ltac:(change (Z.of_nat 12) with 12; lia)) as H'.
  cbn beta in H'. replace (1 + (m - 1)) with m in H' by lia.
  pose proof (all_from_spec _ _ _ H' (d - 1) ltac:(change (Z.of_nat 31) with 31; lia)) as H''.
  cbn beta in H''. replace (1 + (d - 1)) with d in H'' by lia.
  unfold chk_date in H''. rewrite Hv in H''.
  destruct (civil_from_days (days_from_civil y0 m d)) as [[y1 m1] d1].
  unfold triple_eqb in H''. repeat (apply andb_true_iff in H'' as [H'' ?]).
  apply Z.eqb_eq in H''. repeat match goal with E : (_ =? _) = true |- _ => apply Z.eqb_eq in E end.
  subst. reflexivity.
Qed.

(* ---------- time of day ---------- *)

Lemma tod_split r : 0 <= r < 86400 ->
  tod_secs (r / 3600) ((r mod 3600) / 60) (r mod 60) = r /\ valid_tod (r / 3600) ((r mod 3600) / 60) (r mod 60) = true.
Proof.
  intro Hr. unfold tod_secs, valid_tod.
  pose proof (Z.div_mod r 3600 ltac:(lia)). pose proof (Z.mod_pos_bound r 3600 ltac:(lia)).
  pose proof (Z.div_mod (r mod 3600) 60 ltac:(lia)). pose proof (Z.mod_pos_bound (r mod 3600) 60 ltac:(lia)).
  assert (E : r mod 60 = (r mod 3600) mod 60).
  { replace r with (r mod 3600 + (60 * (r / 3600)) * 60) at 1 by lia. rewrite Z.mod_add by lia. reflexivity. }
  assert (0 <= r / 3600 < 24) by (split; [apply Z.div_pos; lia|apply Z.div_lt_upper_bound; lia]).
  assert (0 <= (r mod 3600) / 60 < 60) by (split; [apply Z.div_pos; lia|apply Z.div_lt_upper_bound; lia]).
  split; [lia|].
  repeat (apply andb_true_iff; split); try apply Z.leb_le; try apply Z.ltb_lt; lia.
Qed.

Lemma tod_unique h mi s : valid_tod h mi s = true ->
  let r := tod_secs h mi s in 0 <= r < 86400 /\ r / 3600 = h /\ (r mod 3600) / 60 = mi /\ r mod 60 = s.
Proof.
  unfold valid_tod, tod_secs. intro H. repeat (apply andb_true_iff in H as [H ?]).
  repeat match goal with E : (_ <=? _) = true |- _ => apply Z.leb_le in E | E : (_ <? _) = true |- _ => apply Z.ltb_lt in E end.
  cbv zeta. split; [lia|].
  assert (E1 : (h * 3600 + mi * 60 + s) / 3600 = h) by (symmetry; apply (Z.div_unique _ _ h (mi * 60 + s)); lia).
  assert (E2 : (h * 3600 + mi * 60 + s) mod 3600 = mi * 60 + s) by (symmetry; apply (Z.mod_unique _ _ h (mi * 60 + s)); lia).
  split; [exact E1|]. rewrite E2. split.
  - symmetry; apply (Z.div_unique _ _ mi s); lia.
  - symmetry; apply (Z.mod_unique _ _ (h * 60 + mi) s); lia.
Qed.

(* ---------- the UTC, truncated date-time ---------- *)

Theorem utc_of_secs_instant t : instant (utc_of_secs t) = t.
Proof.
  unfold utc_of_secs. pose proof (cfd_sound (t / 86400)) as H.
  destruct (civil_from_days (t / 86400)) as [[y m] d]. destruct H as [H _].
  unfold instant, local_secs. cbn [o_year o_month o_day o_hour o_min o_sec o_offset].
  rewrite H. pose proof (Z.mod_pos_bound t 86400 ltac:(lia)) as Hr.
  destruct (tod_split _ Hr) as [E _]. rewrite E.
  pose proof (Z.div_mod t 86400 ltac:(lia)). lia.
Qed.

Theorem utc_of_secs_valid t :
  odt_valid (utc_of_secs t) = true /\ odt_normal (utc_of_secs t) = true.
Proof.
  unfold utc_of_secs. pose proof (cfd_sound (t / 86400)) as H.
  destruct (civil_from_days (t / 86400)) as [[y m] d]. destruct H as [_ H].
  pose proof (Z.mod_pos_bound t 86400 ltac:(lia)) as Hr. destruct (tod_split _ Hr) as [_ E].
  unfold odt_valid, odt_normal. cbn [o_year o_month o_day o_hour o_min o_sec o_nanos o_offset].
  rewrite H, E. split; reflexivity.
Qed.

(* "denoting the same instant to the second" *)
Theorem to_utc_trunc_instant x : instant (to_utc_trunc x) = instant x.
Proof. unfold to_utc_trunc. apply utc_of_secs_instant. Qed.

(* values already in emitted form are left alone *)
Theorem to_utc_trunc_normal x : odt_valid x = true -> odt_normal x = true -> to_utc_trunc x = x.
Proof.
  destruct x as [y m d h mi s ns off]. unfold odt_valid, odt_normal, to_utc_trunc, instant, local_secs.
  cbn [o_year o_month o_day o_hour o_min o_sec o_nanos o_offset]. intros Hv Hn.
  apply andb_true_iff in Hn as [Hns Hoff]. apply Z.eqb_eq in Hns, Hoff. subst ns off.
  apply andb_true_iff in Hv as [Hv _]. apply andb_true_iff in Hv as [Hv _].
  apply andb_true_iff in Hv as [Hd Ht].
  destruct (tod_unique h mi s Ht) as (Hr & E1 & E2 & E3).
  set (r := tod_secs h mi s) in *. set (dd := days_from_civil y m d).
  assert (Ed : (dd * 86400 + r - 0) / 86400 = dd) by (symmetry; apply (Z.div_unique _ _ dd r); lia).
  assert (Em : (dd * 86400 + r - 0) mod 86400 = r) by (symmetry; apply (Z.mod_unique _ _ dd r); lia).
  unfold utc_of_secs. rewrite Ed, Em. unfold dd. rewrite cfd_dfc by assumption.
  rewrite E1, E2, E3. reflexivity.
Qed.

Theorem to_utc_trunc_idem x : to_utc_trunc (to_utc_trunc x) = to_utc_trunc x.
Proof.
  destruct (utc_of_secs_valid (instant x)) as [H1 H2]. apply to_utc_trunc_normal; assumption.
Qed.

(* ---------- formatting and parsing ---------- *)

Lemma dval_digit z : 0 <= z <= 9 -> dval (digit z) = Some z.
Proof.
  intro H. unfold dval, digit.
  replace ((48 <=? Z.to_N (48 + z)) && (Z.to_N (48 + z) <=? 57))%N with true.
  - f_equal. lia.
  - symmetry. apply andb_true_iff. split; apply N.leb_le; lia.
Qed.

Lemma take2_pad2 z r : 0 <= z < 100 -> take2 (pad2 z ++ r) = Some (z, r).
Proof.
  intro H. unfold pad2, take2. cbn [app].
  rewrite dval_digit by (split; [apply Z.div_pos; lia|apply Z.lt_succ_r, Z.div_lt_upper_bound; lia]).
  rewrite dval_digit by (pose proof (Z.mod_pos_bound z 10 ltac:(lia)); lia).
  cbn [obind]. f_equal. f_equal. pose proof (Z.div_mod z 10 ltac:(lia)). lia.
Qed.

Lemma take4_pad4 z r : 0 <= z < 10000 -> take4 (pad4 z ++ r) = Some (z, r).
Proof.
  intro H. unfold take4, pad4. rewrite <- app_assoc.
  rewrite take2_pad2 by (split; [apply Z.div_pos; lia|apply Z.div_lt_upper_bound; lia]).
  cbn [obind]. rewrite take2_pad2 by (apply Z.mod_pos_bound; lia).
  cbn [obind]. f_equal. f_equal. pose proof (Z.div_mod z 100 ltac:(lia)). lia.
Qed.

Lemma expect_cons c r : expect c (c :: r) = Some r.
Proof. unfold expect. rewrite N.eqb_refl. reflexivity. Qed.

Lemma valid_date_bounds y m d : valid_date y m d = true -> 1 <= m <= 12 /\ 1 <= d <= 31.
Proof.
  unfold valid_date. intro Hv. repeat (apply andb_true_iff in Hv as [Hv ?]).
  assert (days_in_month y m <= 31).
  { unfold days_in_month. destruct (m =? 2); [destruct (is_leap y); lia|].
    destruct ((m =? 4) || (m =? 6) || (m =? 9) || (m =? 11)); lia. }
  lia.
Qed.

Lemma valid_tod_bounds h mi s : valid_tod h mi s = true -> 0 <= h < 24 /\ 0 <= mi < 60 /\ 0 <= s < 60.
Proof. unfold valid_tod. intro H. repeat (apply andb_true_iff in H as [H ?]). lia. Qed.

(* a UTC, fraction-free date-time with a four-digit year is read back exactly *)
Theorem parse_fmt x : odt_valid x = true -> odt_normal x = true -> 0 <= o_year x <= 9999 ->
  parse_rfc3339 (fmt_utc x) = Some x.
Proof.
  destruct x as [y m d h mi s ns off]. unfold odt_valid, odt_normal.
  cbn [o_year o_month o_day o_hour o_min o_sec o_nanos o_offset]. intros Hv Hn Hy.
  apply andb_true_iff in Hn as [Hns Hoff]. apply Z.eqb_eq in Hns, Hoff. subst ns off.
  apply andb_true_iff in Hv as [Hv _]. apply andb_true_iff in Hv as [Hv _].
  apply andb_true_iff in Hv as [Hd Ht].
  destruct (valid_date_bounds _ _ _ Hd) as [Bm Bd]. destruct (valid_tod_bounds _ _ _ Ht) as (Bh & Bmi & Bs).
  unfold parse_rfc3339, fmt_utc. cbn [o_year o_month o_day o_hour o_min o_sec].
  rewrite take4_pad4 by lia. cbn [obind]. rewrite expect_cons. cbn [obind].
  rewrite take2_pad2 by lia. cbn [obind]. rewrite expect_cons. cbn [obind].
  rewrite take2_pad2 by lia. cbn [obind]. unfold expect_sep. rewrite N.eqb_refl. cbn [orb obind].
  rewrite take2_pad2 by lia. cbn [obind]. rewrite expect_cons. cbn [obind].
  rewrite take2_pad2 by lia. cbn [obind]. rewrite expect_cons. cbn [obind].
  rewrite take2_pad2 by lia. cbn [obind].
  unfold take_fraction, take_offset. change (90 =? 90)%N with true. cbn [orb obind].
  rewrite Hd, Ht. reflexivity.
Qed.

(* shape of the emitted text: YYYY-MM-DDThh:mm:ssZ *)
Definition is_digit (b : N) : bool := ((48 <=? b) && (b <=? 57))%N.
Definition rfc3339_utc_shape (s : bytes) : bool :=
  match s with
  | [y1; y2; y3; y4; c1; m1; m2; c2; d1; d2; t; h1; h2; c3; i1; i2; c4; s1; s2; z] =>
    forallb is_digit [y1; y2; y3; y4; m1; m2; d1; d2; h1; h2; i1; i2; s1; s2]
    && (c1 =? 45)%N && (c2 =? 45)%N && (t =? 84)%N && (c3 =? 58)%N && (c4 =? 58)%N && (z =? 90)%N
  | _ => false
  end.

Lemma is_digit_digit z : 0 <= z <= 9 -> is_digit (digit z) = true.
Proof. intro H. unfold is_digit, digit. apply andb_true_iff. split; apply N.leb_le; lia. Qed.

Lemma pad2_digits z : 0 <= z < 100 -> forallb is_digit (pad2 z) = true.
Proof.
  intro H. unfold pad2. cbn [forallb].
  rewrite is_digit_digit by (split; [apply Z.div_pos; lia|apply Z.lt_succ_r, Z.div_lt_upper_bound; lia]).
  rewrite is_digit_digit by (pose proof (Z.mod_pos_bound z 10 ltac:(lia)); lia). reflexivity.
Qed.

Theorem fmt_shape x : odt_valid x = true -> 0 <= o_year x <= 9999 -> rfc3339_utc_shape (fmt_utc x) = true.
Proof.
  destruct x as [y m d h mi s ns off]. unfold odt_valid.
  cbn [o_year o_month o_day o_hour o_min o_sec o_nanos o_offset]. intros Hv Hy.
  apply andb_true_iff in Hv as [Hv _]. apply andb_true_iff in Hv as [Hv _].
  apply andb_true_iff in Hv as [Hd Ht].
  destruct (valid_date_bounds _ _ _ Hd) as [Bm Bd]. destruct (valid_tod_bounds _ _ _ Ht) as (Bh & Bmi & Bs).
  pose proof (pad2_digits (y / 100) ltac:(split; [apply Z.div_pos; lia|apply Z.div_lt_upper_bound; lia])) as P1.
  pose proof (pad2_digits (y mod 100) ltac:(apply Z.mod_pos_bound; lia)) as P2.
  pose proof (pad2_digits m ltac:(lia)) as P3. pose proof (pad2_digits d ltac:(lia)) as P4.
  pose proof (pad2_digits h ltac:(lia)) as P5. pose proof (pad2_digits mi ltac:(lia)) as P6.
  pose proof (pad2_digits s ltac:(lia)) as P7.
  unfold fmt_utc, pad4, pad2 in *. cbn [o_year o_month o_day o_hour o_min o_sec app rfc3339_utc_shape forallb] in *.
  repeat match goal with H : (_ && _) = true |- _ => apply andb_true_iff in H as [? ?] end.
  repeat match goal with H : is_digit _ = true |- _ => rewrite H; clear H end.
  reflexivity.
Qed.

(* ---------- what the serialiser emits ---------- *)

Lemma emit_ok_year x : emit_ok x = true -> 0 <= o_year (to_utc_trunc x) <= 9999.
Proof. unfold emit_ok. intro H. apply andb_true_iff in H as [A B]. lia. Qed.

Theorem emit_shape x : emit_ok x = true -> rfc3339_utc_shape (emit x) = true.
Proof.
  intro H. unfold emit. apply fmt_shape; [|apply emit_ok_year, H].
  apply (utc_of_secs_valid (instant x)).
Qed.

Theorem emit_parse x : emit_ok x = true -> parse_rfc3339 (emit x) = Some (to_utc_trunc x).
Proof.
  intro H. unfold emit. destruct (utc_of_secs_valid (instant x)) as [H1 H2].
  apply parse_fmt; [exact H1|exact H2|apply emit_ok_year, H].
Qed.

Theorem emit_normal x : odt_valid x = true -> odt_normal x = true -> emit x = fmt_utc x.
Proof. intros H1 H2. unfold emit. rewrite to_utc_trunc_normal by assumption. reflexivity. Qed.

Theorem emit_trunc x : emit (to_utc_trunc x) = emit x.
Proof. unfold emit. rewrite to_utc_trunc_idem. reflexivity. Qed.

(* ---------- the emitted text is ASCII, hence a valid CBOR text string ---------- *)

Lemma ascii_utf8 s : forall n, (List.length s <= n)%nat -> forallb (fun b => b <? 128)%N s = true -> utf8_valid_fuel n s = true.
Proof.
  induction s as [|b r IH]; intros n Hn H.
  - destruct n; reflexivity.
  - destruct n as [|n]; [cbn in Hn; lia|]. cbn [forallb] in H. apply andb_true_iff in H as [Hb Hr].
    cbn [utf8_valid_fuel]. rewrite Hb. apply IH; [cbn in Hn; lia|exact Hr].
Qed.

Lemma ascii_text_ok s : forallb (fun b => b <? 128)%N s = true -> wf_bytes s = true /\ utf8_valid s = true.
Proof.
  intro H. split.
  - unfold wf_bytes. rewrite forallb_forall in *. intros b Hb. specialize (H b Hb).
    unfold is_byte. apply N.ltb_lt in H. apply N.ltb_lt. lia.
  - unfold utf8_valid. apply ascii_utf8; [lia|exact H].
Qed.

Lemma is_digit_ascii b : is_digit b = true -> (b <? 128)%N = true.
Proof. unfold is_digit. intro H. apply andb_true_iff in H as [_ H]. apply N.leb_le in H. apply N.ltb_lt. lia. Qed.

Lemma shape_ascii s : rfc3339_utc_shape s = true -> forallb (fun b => b <? 128)%N s = true.
Proof.
  intro Hs. unfold rfc3339_utc_shape in Hs.
  destruct s as [|y1 [|y2 [|y3 [|y4 [|c1 [|m1 [|m2 [|c2 [|d1 [|d2 [|t [|h1 [|h2 [|c3 [|i1 [|i2 [|c4 [|s1 [|s2 [|z [|? ?]]]]]]]]]]]]]]]]]]]]];
    try discriminate Hs.
  cbn [forallb] in Hs.
  repeat match goal with H : (_ && _) = true |- _ => apply andb_true_iff in H as [? ?] end.
  repeat match goal with H : (_ =? _)%N = true |- _ => apply N.eqb_eq in H; subst end.
  repeat match goal with H : is_digit _ = true |- _ => apply is_digit_ascii in H end.
  cbn [forallb].
  repeat match goal with H : (_ <? 128)%N = true |- _ => rewrite H; clear H end.
  reflexivity.
Qed.

Theorem emit_text_ok x : emit_ok x = true -> wf_bytes (emit x) = true /\ utf8_valid (emit x) = true.
Proof. intro H. apply ascii_text_ok, shape_ascii, emit_shape, H. Qed.

(* ---------- the serialiser with explicit outcomes ---------- *)

Theorem emit_checked_total x : emit_checked x <> EmitPanic.
Proof.
  unfold emit_checked. destruct ((o_year (to_utc_trunc x) <? -9999) || (9999 <? o_year (to_utc_trunc x))); [discriminate|].
  destruct (o_year (to_utc_trunc x) <? 0); discriminate.
Qed.

Theorem emit_checked_ok x : emit_ok x = true -> emit_checked x = Emitted (emit x).
Proof.
  intro H. apply emit_ok_year in H. unfold emit_checked, emit.
  replace (o_year (to_utc_trunc x) <? -9999) with false by (symmetry; apply Z.ltb_ge; lia).
  replace (9999 <? o_year (to_utc_trunc x)) with false by (symmetry; apply Z.ltb_ge; lia).
  replace (o_year (to_utc_trunc x) <? 0) with false by (symmetry; apply Z.ltb_ge; lia). reflexivity.
Qed.

Theorem emit_checked_error x : emit_ok x = false -> exists e, emit_checked x = EmitError e.
Proof.
  unfold emit_ok, emit_checked. intro H.
  destruct (Z.ltb_spec (o_year (to_utc_trunc x)) (-9999)); [eexists; reflexivity|].
  destruct (Z.ltb_spec 9999 (o_year (to_utc_trunc x))); [eexists; reflexivity|]. cbn [orb].
  destruct (Z.ltb_spec (o_year (to_utc_trunc x)) 0); [eexists; reflexivity|].
  exfalso. apply andb_false_iff in H as [H|H]; [apply Z.leb_gt in H|apply Z.leb_gt in H]; lia.
Qed.

Lemma to_utc_trunc_valid x : odt_valid (to_utc_trunc x) = true /\ odt_normal (to_utc_trunc x) = true.
Proof. unfold to_utc_trunc. apply utc_of_secs_valid. Qed.

Lemma emit_ok_trunc x : emit_ok (to_utc_trunc x) = emit_ok x.
Proof. unfold emit_ok. rewrite to_utc_trunc_idem. reflexivity. Qed.
