(* C19: code tables.  A boolean well-formedness check, its meaning, and the finite sweep over every
   generated table (lifted by forallb_forall). *)
From Isomdl Require Import Lib.Bytes Lib.Cbor Lib.GenTypes Gen.Tables Model.FromJson Spec.MdlDataModel.
Open Scope N_scope.

Lemma assoc_b_In {A} k (l : list (bytes * A)) v : assoc_b k l = Some v -> In (k, v) l.
Proof.
  induction l as [|[k' v'] l IH]; cbn [assoc_b]; [discriminate|].
  destruct (bytes_eqb k k') eqn:E.
  - intro H; inversion H; subst. apply bytes_eqb_eq in E; subst. left; reflexivity.
  - intro H. right. apply IH, H.
Qed.

Lemma assoc_n_In {A} k (l : list (N * A)) v : assoc_n k l = Some v -> In (k, v) l.
Proof.
  induction l as [|[k' v'] l IH]; cbn [assoc_n]; [discriminate|].
  destruct (N.eqb_spec k k') as [->|].
  - intro H; inversion H; subst. left; reflexivity.
  - intro H. right. apply IH, H.
Qed.

Lemma mem_b_In x l : mem_b x l = true <-> In x l.
Proof.
  induction l as [|y l IH]; cbn [mem_b In]; [split; [discriminate|tauto]|].
  rewrite orb_true_iff, IH, bytes_eqb_eq. split; intros [H|H]; auto.
Qed.

Lemma mem_n_In x l : mem_n x l = true <-> In x l.
Proof.
  induction l as [|y l IH]; cbn [mem_n In]; [split; [discriminate|tauto]|].
  rewrite orb_true_iff, IH, N.eqb_eq. split; intros [H|H]; auto.
Qed.

Fixpoint nodup_b (l : list bytes) : bool :=
  match l with [] => true | x :: r => negb (mem_b x r) && nodup_b r end.
Fixpoint nodup_n (l : list N) : bool :=
  match l with [] => true | x :: r => negb (mem_n x r) && nodup_n r end.

Lemma nodup_b_NoDup l : nodup_b l = true -> NoDup l.
Proof.
  induction l as [|x l IH]; cbn [nodup_b]; intro H; [constructor|].
  apply andb_true_iff in H as [H1 H2]. constructor; [|apply IH, H2].
  intro Hin. apply mem_b_In in Hin. rewrite Hin in H1. discriminate.
Qed.
Lemma nodup_n_NoDup l : nodup_n l = true -> NoDup l.
Proof.
  induction l as [|x l IH]; cbn [nodup_n]; intro H; [constructor|].
  apply andb_true_iff in H as [H1 H2]. constructor; [|apply IH, H2].
  intro Hin. apply mem_n_In in Hin. rewrite Hin in H1. discriminate.
Qed.

Fixpoint list_bytes_eqb (a c : list bytes) : bool :=
  match a, c with
  | [], [] => true
  | x :: a', y :: c' => bytes_eqb x y && list_bytes_eqb a' c'
  | _, _ => false
  end.
Lemma list_bytes_eqb_eq a c : list_bytes_eqb a c = true -> a = c.
Proof.
  revert c; induction a as [|x a IH]; intros [|y c]; cbn [list_bytes_eqb]; try discriminate; [reflexivity|].
  intro H. apply andb_true_iff in H as [H1 H2]. apply bytes_eqb_eq in H1. apply IH in H2. congruence.
Qed.
Fixpoint list_n_eqb (a c : list N) : bool :=
  match a, c with
  | [], [] => true
  | x :: a', y :: c' => (x =? y) && list_n_eqb a' c'
  | _, _ => false
  end.
Lemma list_n_eqb_eq a c : list_n_eqb a c = true -> a = c.
Proof.
  revert c; induction a as [|x a IH]; intros [|y c]; cbn [list_n_eqb]; try discriminate; [reflexivity|].
  intro H. apply andb_true_iff in H as [H1 H2]. apply N.eqb_eq in H1. apply IH in H2. congruence.
Qed.

(* ---------- text tables ---------- *)

Definition opt_is (o : option bytes) (x : bytes) : bool :=
  match o with Some y => bytes_eqb y x | None => false end.

(* round trip of a table, both directions, plus: codes are in normal form *)
Definition str_table_rt (t : str_table) : bool :=
  forallb (fun r => opt_is (assoc_b (normalise (st_norm t) (snd r)) (st_from t)) (fst r)) (st_to t)
  && nodup_b (map snd (st_to t))
  && nodup_b (map fst (st_to t))
  && forallb (fun r => opt_is (assoc_b (snd r) (st_to t)) (fst r)) (st_from t)
  && forallb (fun r => bytes_eqb (normalise (st_norm t) (snd r)) (snd r)) (st_to t).

Definition str_table_ok (t : str_table) (codes : list bytes) (fold : norm_kind) : bool :=
  str_table_rt t && list_bytes_eqb (map snd (st_to t)) codes
  && match st_norm t, fold with
     | NormNone, NormNone | NormLower, NormLower | NormUpper, NormUpper => true
     | _, _ => false
     end.

Lemma opt_is_eq o x : opt_is o x = true -> o = Some x.
Proof. destruct o as [y|]; cbn; [|discriminate]. intro H. apply bytes_eqb_eq in H. congruence. Qed.

(* what the round-trip check means: the three clauses of C19_tables_roundtrip *)
Lemma str_table_rt_spec t : str_table_rt t = true ->
  (forall v c, In (v, c) (st_to t) -> assoc_b (normalise (st_norm t) c) (st_from t) = Some v) /\
  NoDup (map snd (st_to t)) /\
  (forall s v, assoc_b (normalise (st_norm t) s) (st_from t) = Some v ->
               assoc_b v (st_to t) = Some (normalise (st_norm t) s)).
Proof.
  unfold str_table_rt. intro H.
  apply andb_true_iff in H as [H Hnf]. apply andb_true_iff in H as [H Hfrom].
  apply andb_true_iff in H as [H Hnv]. apply andb_true_iff in H as [Hto Hnc].
  split; [|split].
  - intros v c Hin. rewrite forallb_forall in Hto. apply (Hto (v, c)) in Hin. cbn in Hin. apply opt_is_eq, Hin.
  - apply nodup_b_NoDup; assumption.
  - intros s v Hs. apply assoc_b_In in Hs. rewrite forallb_forall in Hfrom. apply Hfrom in Hs. cbn in Hs.
    apply opt_is_eq, Hs.
Qed.

Lemma str_table_code_spec t codes fold : str_table_ok t codes fold = true -> st_passthrough t = false ->
  forall s, match str_table_code t s with
            | Ok c => c = normalise fold s /\ mem_b c codes = true
            | Err _ => mem_b (normalise fold s) codes = false
            | Panic _ => False
            end.
Proof.
  unfold str_table_ok. intros H Hp s.
  apply andb_true_iff in H as [H Hn]. apply andb_true_iff in H as [Hrt Hc].
  assert (Hf : st_norm t = fold) by (destruct (st_norm t), fold; try discriminate; reflexivity).
  apply list_bytes_eqb_eq in Hc. subst codes fold.
  pose proof Hrt as Hrt'. unfold str_table_rt in Hrt'.
  apply andb_true_iff in Hrt' as [_ H].
  destruct (str_table_rt_spec t Hrt) as (H1 & H2 & H3).
  unfold str_table_code. destruct (assoc_b (normalise (st_norm t) s) (st_from t)) as [v|] eqn:E.
  - pose proof (H3 _ _ E) as E3. rewrite E3. split; [reflexivity|]. apply mem_b_In.
    apply assoc_b_In in E3. apply (in_map snd) in E3. exact E3.
  - rewrite Hp. destruct (mem_b (normalise (st_norm t) s) (map snd (st_to t))) eqn:M; [|reflexivity].
    exfalso. apply mem_b_In in M. apply in_map_iff in M as [[v c] [Hc Hin]]. cbn in Hc. subst c.
    pose proof (H1 _ _ Hin) as Hv.
    rewrite forallb_forall in H. apply H in Hin. cbn in Hin. apply bytes_eqb_eq in Hin.
    rewrite Hin in Hv. rewrite E in Hv. discriminate.
Qed.

(* a pass-through table renders every string as itself *)
Lemma str_table_code_passthrough t : str_table_rt t = true -> st_norm t = NormNone -> st_passthrough t = true ->
  forall s, str_table_code t s = Ok s.
Proof.
  intros Hrt Hn Hp s. destruct (str_table_rt_spec t Hrt) as (_ & _ & H3).
  unfold str_table_code. rewrite Hn in *. cbn [normalise] in *.
  destruct (assoc_b s (st_from t)) as [v|] eqn:E.
  - rewrite (H3 _ _ E). reflexivity.
  - rewrite Hp. reflexivity.
Qed.

(* ---------- integer tables ---------- *)

Definition opt_is_n (o : option N) (x : N) : bool := match o with Some y => y =? x | None => false end.

Definition int_table_rt (t : int_table) : bool :=
  forallb (fun r => opt_is (assoc_n (snd r) (it_from t)) (fst r)) (it_to t)
  && nodup_n (map snd (it_to t))
  && nodup_b (map fst (it_to t))
  && forallb (fun r => opt_is_n (assoc_b (snd r) (it_to t)) (fst r)) (it_from t).

Definition int_table_ok (t : int_table) (codes : list N) : bool :=
  int_table_rt t && list_n_eqb (map snd (it_to t)) codes.

Lemma opt_is_n_eq o x : opt_is_n o x = true -> o = Some x.
Proof. destruct o as [y|]; cbn; [|discriminate]. intro H. apply N.eqb_eq in H. congruence. Qed.

Lemma int_table_rt_spec t : int_table_rt t = true ->
  (forall v c, In (v, c) (it_to t) -> assoc_n c (it_from t) = Some v) /\
  NoDup (map snd (it_to t)) /\
  (forall x v, assoc_n x (it_from t) = Some v -> assoc_b v (it_to t) = Some x).
Proof.
  unfold int_table_rt. intro H.
  apply andb_true_iff in H as [H Hfrom]. apply andb_true_iff in H as [H Hnv]. apply andb_true_iff in H as [Hto Hnc].
  split; [|split].
  - intros v c Hin. rewrite forallb_forall in Hto. apply (Hto (v, c)) in Hin. cbn in Hin. apply opt_is_eq, Hin.
  - apply nodup_n_NoDup; assumption.
  - intros x v Hx. apply assoc_n_In in Hx. rewrite forallb_forall in Hfrom. apply Hfrom in Hx. cbn in Hx.
    apply opt_is_n_eq, Hx.
Qed.

Lemma int_table_code_spec t codes : int_table_ok t codes = true ->
  forall x, match int_table_code t x with
            | Ok c => c = x /\ mem_n c codes = true
            | Err _ => mem_n x codes = false
            | Panic _ => False
            end.
Proof.
  unfold int_table_ok. intros H x. apply andb_true_iff in H as [Hrt Hc].
  apply list_n_eqb_eq in Hc. subst codes.
  destruct (int_table_rt_spec t Hrt) as (H1 & H2 & H3).
  unfold int_table_code. destruct (assoc_n x (it_from t)) as [v|] eqn:E.
  - pose proof (H3 _ _ E) as E3. rewrite E3. split; [reflexivity|]. apply mem_n_In.
    apply assoc_b_In in E3. apply (in_map snd) in E3. exact E3.
  - destruct (mem_n x (map snd (it_to t))) eqn:M; [|reflexivity].
    exfalso. apply mem_n_In in M. apply in_map_iff in M as [[v c] [Hc Hin]]. cbn in Hc. subst c.
    rewrite (H1 _ _ Hin) in E. discriminate.
Qed.

(* ---------- the finite sweep over the generated tables ---------- *)

Lemma all_str_tables_rt : forall n, forallb (fun e => str_table_rt (snd e)) (str_tables n) = true.
Proof. intros []; vm_compute; reflexivity. Qed.

Lemma all_int_tables_rt : forall n, forallb (fun e => int_table_rt (snd e)) (int_tables n) = true.
Proof. intros []; vm_compute; reflexivity. Qed.

(* each generated table realises the code list of the standard it implements *)
Lemma alpha2_ok : str_table_ok tbl_mdl_Alpha2 iso3166_alpha2 NormNone = true. Proof. vm_compute. reflexivity. Qed.
Lemma eye_ok : str_table_ok tbl_mdl_EyeColour eye_colours NormLower = true. Proof. vm_compute. reflexivity. Qed.
Lemma hair_ok : str_table_ok tbl_mdl_HairColour hair_colours NormLower = true. Proof. vm_compute. reflexivity. Qed.
Lemma vcc_ok : str_table_ok tbl_mdl_VehicleCategoryCode vehicle_categories NormUpper = true. Proof. vm_compute. reflexivity. Qed.
Lemma unsign_rt : str_table_rt tbl_mdl_UNDistinguishingSign = true. Proof. vm_compute. reflexivity. Qed.
Lemma sex_ok : int_table_ok tbl_mdl_Sex sex_codes = true. Proof. vm_compute. reflexivity. Qed.
Lemma suffix_ok : str_table_ok tbl_aamva_NameSuffix aamva_name_suffixes NormNone = true. Proof. vm_compute. reflexivity. Qed.
Lemma trunc_ok : str_table_ok tbl_aamva_NameTruncation aamva_truncation NormNone = true. Proof. vm_compute. reflexivity. Qed.
Lemma race_ok : str_table_ok tbl_aamva_RaceAndEthnicity aamva_race NormNone = true. Proof. vm_compute. reflexivity. Qed.
Lemma dhs_ok : str_table_ok tbl_aamva_DHSCompliance aamva_dhs_compliance NormNone = true. Proof. vm_compute. reflexivity. Qed.
Lemma aamva_sex_ok : int_table_ok tbl_aamva_Sex aamva_sex_codes = true. Proof. vm_compute. reflexivity. Qed.
Lemma weight_ok : int_table_ok tbl_aamva_WeightRange aamva_weight_ranges = true. Proof. vm_compute. reflexivity. Qed.
Lemma edl_ok : int_table_ok tbl_aamva_EDLIndicator aamva_edl = true. Proof. vm_compute. reflexivity. Qed.
