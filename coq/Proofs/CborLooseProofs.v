(* The decoder of Lib/Cbor.v inverts EVERY encoding [encode_with c v] of Lib/CborLoose.v:
   whatever head widths, indefinite-length framing and chunking the producer chose.

     decode_encode_with_fuel   explicit fuel bound (twice the length of the encoding)
     decode_encode_with        with [fuel_for]
     decode_first_encode_with  corollary for [decode_first] (= cbor::from_slice)
     encode_with_default       the canonical choice tree gives the canonical encoder

   All closed under the global context. *)
From Isomdl Require Import Lib.Bytes Lib.Utf8 Lib.Cbor Lib.CborLoose Proofs.CborProofs.
From Coq Require Import Lia ZifyN ZifyNat ZifyBool.
Open Scope N_scope.

(* ------------------------------------------------------------------------------------------ *)
(** * Heads of any sufficient width *)

Definition class_ai (c n : N) : N := if c =? 0 then n else 23 + c.

Lemma loose_class_bounds w n : min_class n <= loose_class w n /\ loose_class w n <= 4.
Proof.
  unfold loose_class. pose proof (N.mod_upper_bound w 5). unfold min_class.
  repeat match goal with |- context [if ?c then _ else _] => destruct c end; lia.
Qed.

Lemma min_class_le c n : min_class n <= c ->
  (c = 0 -> n < 24) /\ (c = 1 -> n < 256) /\ (c = 2 -> n < 65536) /\ (c = 3 -> n < 4294967296).
Proof.
  unfold min_class.
  destruct (N.ltb_spec n 24); [lia|]. destruct (N.ltb_spec n 256); [lia|].
  destruct (N.ltb_spec n 65536); [lia|]. destruct (N.ltb_spec n 4294967296); lia.
Qed.

Lemma read_head_class major c n r : major < 8 -> n < two64 -> min_class n <= c -> c <= 4 ->
  read_head (head_class major c n ++ r) = DOk (major, class_ai c n, HVal n, r).
Proof.
  intros Hm Hn Hc Hc4. destruct (min_class_le c n Hc) as (H0 & H1 & H2 & H3).
  unfold head_class, class_ai, two64 in *.
  destruct (N.eqb_spec c 0) as [->|N0]; [cbn [app]; apply read_head_imm; lia|].
  destruct (N.eqb_spec c 1) as [->|N1]; [cbn [app]; apply read_head_24; lia|].
  destruct (N.eqb_spec c 2) as [->|N2].
  { cbn [app]. rewrite read_head_arg; [|lia|left; auto].
    rewrite be_value_be_bytes; [reflexivity|]. change (256 ^ N.of_nat 2) with 65536. lia. }
  destruct (N.eqb_spec c 3) as [->|N3].
  { cbn [app]. rewrite read_head_arg; [|lia|right; left; auto].
    rewrite be_value_be_bytes; [reflexivity|]. change (256 ^ N.of_nat 4) with 4294967296. lia. }
  assert (c = 4) as -> by lia.
  cbn [app]. rewrite read_head_arg; [|lia|right; right; auto].
  rewrite be_value_be_bytes; [reflexivity|]. change (256 ^ N.of_nat 8) with 18446744073709551616. lia.
Qed.

Lemma read_head_loose major w n r : major < 8 -> n < two64 ->
  read_head (loose_head major w n ++ r) = DOk (major, class_ai (loose_class w n) n, HVal n, r).
Proof.
  intros Hm Hn. destruct (loose_class_bounds w n). unfold loose_head. apply read_head_class; assumption.
Qed.

Lemma read_head_indef major r : major < 8 ->
  read_head ((major * 32 + 31) :: r) = DOk (major, 31, HIndef, r).
Proof.
  intros Hm. destruct (first_byte major 31) as (H1 & H2 & H3); [lia|lia|].
  cbn [read_head]. rewrite H2, H3. nb. reflexivity.
Qed.

Lemma head_class_first major c n : major <= 6 -> min_class n <= c ->
  exists b t, head_class major c n = b :: t /\ b < 224.
Proof.
  intros Hm Hc. destruct (min_class_le c n Hc) as (H0 & _). unfold head_class.
  destruct (N.eqb_spec c 0) as [->|N0]; [eexists; eexists; split; [reflexivity|]; specialize (H0 eq_refl); lia|].
  repeat match goal with |- context [if ?c then _ else _] => destruct c end;
    eexists; eexists; (split; [reflexivity|lia]).
Qed.

Lemma loose_head_first major w n : major <= 6 -> exists b t, loose_head major w n = b :: t /\ b < 224.
Proof. intro Hm. destruct (loose_class_bounds w n). apply head_class_first; assumption. Qed.

Lemma loose_head_length_pos major w n : (1 <= length (loose_head major w n))%nat.
Proof.
  unfold loose_head, head_class.
  repeat match goal with |- context [if ?c then _ else _] => destruct c end; cbn [length]; lia.
Qed.

(* the first byte of any encoding is never the break byte *)
Lemma encode_with_first c v : exists b t, encode_with c v = b :: t /\ b <> 255.
Proof.
  destruct v as [n|n|b|b|l|kvs|t x|[|]| |w bits]; cbn [encode_with encode].
  - destruct (loose_head_first 0 (ch_w c) n) as (b & t & -> & Hb); [lia|]. exists b, t. split; [reflexivity|lia].
  - destruct (loose_head_first 1 (ch_w c) n) as (b & t & -> & Hb); [lia|]. exists b, t. split; [reflexivity|lia].
  - destruct (ch_indef c); [eexists; eexists; split; [reflexivity|lia]|].
    destruct (loose_head_first 2 (ch_w c) (blen b)) as (b0 & t & -> & Hb); [lia|].
    exists b0, (t ++ b). split; [reflexivity|lia].
  - destruct (ch_indef c); [eexists; eexists; split; [reflexivity|lia]|].
    destruct (loose_head_first 3 (ch_w c) (blen b)) as (b0 & t & -> & Hb); [lia|].
    exists b0, (t ++ b). split; [reflexivity|lia].
  - destruct (ch_indef c); [eexists; eexists; split; [reflexivity|lia]|].
    destruct (loose_head_first 4 (ch_w c) (N.of_nat (length l))) as (b0 & t & -> & Hb); [lia|].
    eexists; eexists. split; [reflexivity|lia].
  - destruct (ch_indef c); [eexists; eexists; split; [reflexivity|lia]|].
    destruct (loose_head_first 5 (ch_w c) (N.of_nat (length kvs))) as (b0 & t & -> & Hb); [lia|].
    eexists; eexists. split; [reflexivity|lia].
  - destruct (loose_head_first 6 (ch_w c) t) as (b0 & t0 & -> & Hb); [lia|].
    eexists; eexists. split; [reflexivity|lia].
  - eexists; eexists. split; [reflexivity|lia].
  - eexists; eexists. split; [reflexivity|lia].
  - eexists; eexists. split; [reflexivity|lia].
  - eexists; eexists. split; [reflexivity|]. unfold float_ai.
    repeat match goal with |- context [if ?c then _ else _] => destruct c end; lia.
Qed.

Lemma encode_with_length_pos c v : (1 <= length (encode_with c v))%nat.
Proof. destruct (encode_with_first c v) as (b & t & -> & _). cbn [length]. lia. Qed.

(* ------------------------------------------------------------------------------------------ *)
(** * The break test of the "until" loops on a byte that is not 255 *)

Ltac not255 b H :=
  destruct b as [|p]; [reflexivity|];
  do 8 (try (destruct p as [p|p|]; try reflexivity)); exfalso; apply H; reflexivity.

Lemma decode_chunks_S_nb f major b t : b <> 255 ->
  decode_chunks (S f) major (b :: t) =
    '(m, _, a, r) <- read_head (b :: t) ;;
    if negb (m =? major) then DErr else
    match a with
    | HIndef => DErr
    | HVal n =>
      '(c, r') <- of_opt (split_at n r) ;;
      if (major =? 3) && negb (utf8_valid c) then DErr else
      '(cs, r'') <- decode_chunks f major r' ;;
      DOk (c ++ cs, r'')
    end.
Proof. intro H. rewrite decode_chunks_S. not255 b H. Qed.

Lemma decode_until_S_nb f b t : b <> 255 ->
  decode_until (S f) (b :: t) =
    '(v, r) <- decode f (b :: t) ;; '(vs, r') <- decode_until f r ;; DOk (v :: vs, r').
Proof. intro H. rewrite decode_until_S. not255 b H. Qed.

Lemma decode_pairs_until_S_nb f b t : b <> 255 ->
  decode_pairs_until (S f) (b :: t) =
    '(k, r) <- decode f (b :: t) ;; '(v, r') <- decode f r ;;
    '(kvs, r'') <- decode_pairs_until f r' ;; DOk ((k, v) :: kvs, r'').
Proof. intro H. rewrite decode_pairs_until_S. not255 b H. Qed.

Lemma decode_chunks_S_break f major r : decode_chunks (S f) major (255 :: r) = DOk ([], r).
Proof. reflexivity. Qed.
Lemma decode_until_S_break f r : decode_until (S f) (255 :: r) = DOk ([], r).
Proof. reflexivity. Qed.
Lemma decode_pairs_until_S_break f r : decode_pairs_until (S f) (255 :: r) = DOk ([], r).
Proof. reflexivity. Qed.

(* ------------------------------------------------------------------------------------------ *)
(** * Chunking *)

Lemma chunk_with_concat ok sp : forall b, concat (chunk_with ok sp b) = b.
Proof.
  induction sp as [|k ks IH]; intro b; cbn [chunk_with].
  - cbn [concat]. apply app_nil_r.
  - destruct (split_at k b) as [[c r]|] eqn:E; [|apply IH].
    destruct (ok c && ok r); [|apply IH].
    apply split_at_some in E as [-> _]. cbn [concat]. rewrite IH. reflexivity.
Qed.

Lemma chunk_with_ok ok sp : forall b, ok b = true -> Forall (fun c => ok c = true) (chunk_with ok sp b).
Proof.
  induction sp as [|k ks IH]; intros b Hb; cbn [chunk_with].
  - constructor; [exact Hb|constructor].
  - destruct (split_at k b) as [[c r]|] eqn:E; [|apply IH; exact Hb].
    destruct (ok c && ok r) eqn:O; [|apply IH; exact Hb].
    apply andb_true_iff in O as [Oc Or]. constructor; [exact Oc|apply IH; exact Or].
Qed.

Lemma chunk_with_len ok sp : forall b, Forall (fun c => (length c <= length b)%nat) (chunk_with ok sp b).
Proof.
  induction sp as [|k ks IH]; intros b; cbn [chunk_with].
  - constructor; [lia|constructor].
  - destruct (split_at k b) as [[c r]|] eqn:E; [|apply IH].
    destruct (ok c && ok r); [|apply IH].
    apply split_at_some in E as [-> _]. constructor; [rewrite app_length; lia|].
    eapply Forall_impl; [|apply IH]. cbn beta. intros a Ha. rewrite app_length. lia.
Qed.

Lemma decode_chunks_enc major : major = 2 \/ major = 3 ->
  forall chunks cs f r,
  Forall (fun c => blen c < two64) chunks ->
  (major = 3 -> Forall (fun c => utf8_valid c = true) chunks) ->
  (length (enc_chunks major cs chunks) + 1 <= f)%nat ->
  decode_chunks f major (enc_chunks major cs chunks ++ 255 :: r) = DOk (concat chunks, r).
Proof.
  intros Hm. induction chunks as [|c chunks IH]; intros cs f r Hlen Hutf Hf.
  - destruct f; [lia|]. cbn [enc_chunks app concat]. apply decode_chunks_S_break.
  - cbn [enc_chunks concat] in *. inversion Hlen as [|? ? Hc Hlen']; subst.
    rewrite !app_length in Hf. destruct f; [lia|].
    destruct (loose_head_first major (ch_w (hd ch_default cs)) (blen c)) as (b0 & t0 & E0 & Hb0); [lia|].
    rewrite <- !app_assoc.
    assert (E : exists b t, loose_head major (ch_w (hd ch_default cs)) (blen c)
                        ++ c ++ enc_chunks major (tl cs) chunks ++ 255 :: r = b :: t /\ b <> 255).
    { rewrite E0. eexists; eexists. split; [reflexivity|lia]. }
    destruct E as (b & t & E & Hb). rewrite E, decode_chunks_S_nb by exact Hb. rewrite <- E.
    rewrite read_head_loose by (unfold two64 in *; lia). cbn [dbind].
    rewrite N.eqb_refl. cbn [negb].
    rewrite split_at_app. cbn [of_opt dbind].
    assert (Hu : ((major =? 3) && negb (utf8_valid c)) = false).
    { destruct (N.eqb_spec major 3) as [E3|]; [|reflexivity].
      specialize (Hutf E3). inversion Hutf; subst. rewrite H1. reflexivity. }
    rewrite Hu. rewrite IH.
    + reflexivity.
    + exact Hlen'.
    + intro E3. specialize (Hutf E3). inversion Hutf; assumption.
    + pose proof (loose_head_length_pos major (ch_w (hd ch_default cs)) (blen c)). lia.
Qed.

(* ------------------------------------------------------------------------------------------ *)
(** * Round trip *)

Definition dec_ok_with (v : cbor) : Prop :=
  forall c, wf v = true -> len_ok v = true ->
  forall f r, (2 * length (encode_with c v) <= f)%nat -> decode f (encode_with c v ++ r) = DOk (v, r).

Lemma decode_n_enc l :
  Forall dec_ok_with l -> forallb wf l = true -> forallb len_ok l = true ->
  forall cs f r, (2 * length (enc_list encode_with cs l) + 1 <= f)%nat ->
  decode_n f (N.of_nat (length l)) (enc_list encode_with cs l ++ r) = DOk (l, r).
Proof.
  induction 1 as [|x l Hx Hl IH]; intros Hwf Hlen cs f r Hf.
  - destruct f; [lia|]. rewrite decode_n_S. cbn [length enc_list app]. nb. reflexivity.
  - cbn [forallb] in Hwf, Hlen.
    apply andb_true_iff in Hwf as [Hw1 Hw2]. apply andb_true_iff in Hlen as [Hl1 Hl2].
    cbn [enc_list length] in *. rewrite app_length in Hf.
    pose proof (encode_with_length_pos (hd ch_default cs) x).
    destruct f; [lia|]. rewrite decode_n_S. nb.
    rewrite <- app_assoc. rewrite (Hx _ Hw1 Hl1) by lia. cbn [dbind].
    replace (N.of_nat (S (length l)) - 1) with (N.of_nat (length l)) by lia.
    rewrite (IH Hw2 Hl2) by lia. reflexivity.
Qed.

Lemma decode_until_enc l :
  Forall dec_ok_with l -> forallb wf l = true -> forallb len_ok l = true ->
  forall cs f r, (2 * length (enc_list encode_with cs l) + 1 <= f)%nat ->
  decode_until f (enc_list encode_with cs l ++ 255 :: r) = DOk (l, r).
Proof.
  induction 1 as [|x l Hx Hl IH]; intros Hwf Hlen cs f r Hf.
  - destruct f; [lia|]. cbn [enc_list app]. apply decode_until_S_break.
  - cbn [forallb] in Hwf, Hlen.
    apply andb_true_iff in Hwf as [Hw1 Hw2]. apply andb_true_iff in Hlen as [Hl1 Hl2].
    cbn [enc_list length] in *. rewrite app_length in Hf.
    pose proof (encode_with_length_pos (hd ch_default cs) x).
    destruct f; [lia|]. rewrite <- app_assoc.
    destruct (encode_with_first (hd ch_default cs) x) as (b & t & E & Hb).
    assert (E' : exists t', encode_with (hd ch_default cs) x ++ enc_list encode_with (tl cs) l ++ 255 :: r = b :: t').
    { rewrite E. eexists. reflexivity. }
    destruct E' as (t' & E'). rewrite E', decode_until_S_nb by exact Hb. rewrite <- E'.
    rewrite (Hx _ Hw1 Hl1) by lia. cbn [dbind].
    rewrite (IH Hw2 Hl2) by lia. reflexivity.
Qed.

Lemma decode_pairs_n_enc kvs :
  Forall (fun kv => dec_ok_with (fst kv) /\ dec_ok_with (snd kv)) kvs ->
  forallb (fun kv => let '(k, x) := kv in wf k && wf x) kvs = true ->
  forallb (fun kv => let '(k, x) := kv in len_ok k && len_ok x) kvs = true ->
  forall cs f r, (2 * length (enc_pairs encode_with cs kvs) + 1 <= f)%nat ->
  decode_pairs_n f (N.of_nat (length kvs)) (enc_pairs encode_with cs kvs ++ r) = DOk (kvs, r).
Proof.
  induction 1 as [|[k x] l [Hk Hx] Hl IH]; intros Hwf Hlen cs f r Hf.
  - destruct f; [lia|]. rewrite decode_pairs_n_S. cbn [length enc_pairs app]. nb. reflexivity.
  - cbn [forallb] in Hwf, Hlen. cbn [fst snd] in Hk, Hx.
    apply andb_true_iff in Hwf as [Hw1 Hw2]. apply andb_true_iff in Hw1 as [Hw1 Hw3].
    apply andb_true_iff in Hlen as [Hl1 Hl2]. apply andb_true_iff in Hl1 as [Hl1 Hl3].
    cbn [enc_pairs length] in *. rewrite !app_length in Hf.
    pose proof (encode_with_length_pos (hd ch_default cs) k).
    pose proof (encode_with_length_pos (hd ch_default (tl cs)) x).
    destruct f; [lia|]. rewrite decode_pairs_n_S. nb.
    rewrite <- !app_assoc. rewrite (Hk _ Hw1 Hl1) by lia. cbn [dbind].
    rewrite (Hx _ Hw3 Hl3) by lia. cbn [dbind].
    replace (N.of_nat (S (length l)) - 1) with (N.of_nat (length l)) by lia.
    rewrite (IH Hw2 Hl2) by lia. reflexivity.
Qed.

Lemma decode_pairs_until_enc kvs :
  Forall (fun kv => dec_ok_with (fst kv) /\ dec_ok_with (snd kv)) kvs ->
  forallb (fun kv => let '(k, x) := kv in wf k && wf x) kvs = true ->
  forallb (fun kv => let '(k, x) := kv in len_ok k && len_ok x) kvs = true ->
  forall cs f r, (2 * length (enc_pairs encode_with cs kvs) + 1 <= f)%nat ->
  decode_pairs_until f (enc_pairs encode_with cs kvs ++ 255 :: r) = DOk (kvs, r).
Proof.
  induction 1 as [|[k x] l [Hk Hx] Hl IH]; intros Hwf Hlen cs f r Hf.
  - destruct f; [lia|]. cbn [enc_pairs app]. apply decode_pairs_until_S_break.
  - cbn [forallb] in Hwf, Hlen. cbn [fst snd] in Hk, Hx.
    apply andb_true_iff in Hwf as [Hw1 Hw2]. apply andb_true_iff in Hw1 as [Hw1 Hw3].
    apply andb_true_iff in Hlen as [Hl1 Hl2]. apply andb_true_iff in Hl1 as [Hl1 Hl3].
    cbn [enc_pairs length] in *. rewrite !app_length in Hf.
    pose proof (encode_with_length_pos (hd ch_default cs) k).
    pose proof (encode_with_length_pos (hd ch_default (tl cs)) x).
    destruct f; [lia|]. rewrite <- !app_assoc.
    destruct (encode_with_first (hd ch_default cs) k) as (b & t & E & Hb).
    assert (E' : exists t', encode_with (hd ch_default cs) k ++ encode_with (hd ch_default (tl cs)) x
                            ++ enc_pairs encode_with (tl (tl cs)) l ++ 255 :: r = b :: t').
    { rewrite E. eexists. reflexivity. }
    destruct E' as (t' & E'). rewrite E', decode_pairs_until_S_nb by exact Hb. rewrite <- E'.
    rewrite (Hk _ Hw1 Hl1) by lia. cbn [dbind].
    rewrite (Hx _ Hw3 Hl3) by lia. cbn [dbind].
    rewrite (IH Hw2 Hl2) by lia. reflexivity.
Qed.

Lemma Forall_blen_lt chunks b : blen b < two64 ->
  Forall (fun c => (length c <= length b)%nat) chunks -> Forall (fun c => blen c < two64) chunks.
Proof.
  intros Hb H. eapply Forall_impl; [|exact H]. cbn beta. intros a Ha. unfold blen in *. lia.
Qed.

Theorem decode_encode_with_fuel : forall v, dec_ok_with v.
Proof.
  induction v as [n|n|b|b|l H|kvs H|t x IH|b| |w bits] using cbor_ind';
    intros c Hwf Hlen f r Hf;
    pose proof (encode_with_length_pos c) as Hpos;
    match type of Hf with context [encode_with c ?v] => specialize (Hpos v) end.
  all: destruct f as [|f]; [lia|]; rewrite decode_S; cbn [encode_with wf len_ok] in *.
  - apply N.ltb_lt in Hwf. rewrite read_head_loose by lia. reflexivity.
  - apply N.ltb_lt in Hwf. rewrite read_head_loose by lia. reflexivity.
  - (* byte string *)
    apply N.ltb_lt in Hlen. destruct (ch_indef c).
    + cbn [app]. rewrite <- app_assoc. cbn [app].
      change 95 with (2 * 32 + 31). rewrite read_head_indef by lia. cbn [dbind].
      cbn [length] in Hf. rewrite app_length in Hf. cbn [length] in Hf.
      rewrite decode_chunks_enc.
      * cbn [dbind]. rewrite chunk_with_concat. reflexivity.
      * left; reflexivity.
      * apply (Forall_blen_lt _ b Hlen). apply chunk_with_len.
      * intro E; discriminate E.
      * lia.
    + rewrite <- app_assoc, read_head_loose by lia. cbn [dbind].
      rewrite split_at_app. reflexivity.
  - (* text string *)
    apply N.ltb_lt in Hlen. apply andb_true_iff in Hwf as [_ Hu]. destruct (ch_indef c).
    + cbn [app]. rewrite <- app_assoc. cbn [app].
      change 127 with (3 * 32 + 31). rewrite read_head_indef by lia. cbn [dbind].
      cbn [length] in Hf. rewrite app_length in Hf. cbn [length] in Hf.
      rewrite decode_chunks_enc.
      * cbn [dbind]. rewrite chunk_with_concat. reflexivity.
      * right; reflexivity.
      * apply (Forall_blen_lt _ b Hlen). apply chunk_with_len.
      * intros _. apply chunk_with_ok. exact Hu.
      * lia.
    + rewrite <- app_assoc, read_head_loose by lia. cbn [dbind].
      rewrite split_at_app. cbn [of_opt dbind]. rewrite Hu. reflexivity.
  - (* array *)
    apply andb_true_iff in Hlen as [Hn Hlen]. apply N.ltb_lt in Hn. destruct (ch_indef c).
    + cbn [app]. rewrite <- app_assoc. cbn [app].
      change 159 with (4 * 32 + 31). rewrite read_head_indef by lia. cbn [dbind].
      cbn [length] in Hf. rewrite app_length in Hf. cbn [length] in Hf.
      rewrite (decode_until_enc l H Hwf Hlen) by lia. reflexivity.
    + rewrite <- app_assoc, read_head_loose by lia. cbn [dbind].
      rewrite app_length in Hf. pose proof (loose_head_length_pos 4 (ch_w c) (N.of_nat (length l))).
      rewrite (decode_n_enc l H Hwf Hlen) by lia. reflexivity.
  - (* map *)
    apply andb_true_iff in Hlen as [Hn Hlen]. apply N.ltb_lt in Hn. destruct (ch_indef c).
    + cbn [app]. rewrite <- app_assoc. cbn [app].
      change 191 with (5 * 32 + 31). rewrite read_head_indef by lia. cbn [dbind].
      cbn [length] in Hf. rewrite app_length in Hf. cbn [length] in Hf.
      rewrite (decode_pairs_until_enc kvs H Hwf Hlen) by lia. reflexivity.
    + rewrite <- app_assoc, read_head_loose by lia. cbn [dbind].
      rewrite app_length in Hf. pose proof (loose_head_length_pos 5 (ch_w c) (N.of_nat (length kvs))).
      rewrite (decode_pairs_n_enc kvs H Hwf Hlen) by lia. reflexivity.
  - (* tag *)
    apply andb_true_iff in Hwf as [Hwf Hnt]. apply andb_true_iff in Hwf as [Ht Hx].
    apply N.ltb_lt in Ht.
    rewrite <- app_assoc, read_head_loose by lia. cbn [dbind].
    rewrite app_length in Hf. pose proof (loose_head_length_pos 6 (ch_w c) t).
    rewrite (IH _ Hx Hlen) by lia. cbn [dbind]. rewrite norm_tag_wf by exact Hnt. reflexivity.
  - (* bool, null, float: canonical; reuse the canonical round trip *)
    rewrite <- decode_S. apply (decode_encode_fuel (CBool b)); [reflexivity|reflexivity|exact Hf].
  - rewrite <- decode_S. apply (decode_encode_fuel CNull); [reflexivity|reflexivity|exact Hf].
  - rewrite <- decode_S. apply (decode_encode_fuel (CFloat w bits)); [exact Hwf|reflexivity|exact Hf].
Qed.

Lemma fuel_for_enough_with c v r : (2 * length (encode_with c v) <= fuel_for (encode_with c v ++ r))%nat.
Proof. unfold fuel_for. rewrite app_length. lia. Qed.

Theorem decode_encode_with : forall c v r, wf v = true -> len_ok v = true ->
  decode (fuel_for (encode_with c v ++ r)) (encode_with c v ++ r) = DOk (v, r).
Proof. intros c v r Hwf Hlen. apply decode_encode_with_fuel; auto using fuel_for_enough_with. Qed.

(* any fuel above the explicit bound works *)
Corollary decode_encode_with_enough : forall c v r, wf v = true -> len_ok v = true ->
  exists f0, forall f, (f0 <= f)%nat -> decode f (encode_with c v ++ r) = DOk (v, r).
Proof.
  intros c v r Hwf Hlen. exists (2 * length (encode_with c v))%nat. intros f Hf.
  apply decode_encode_with_fuel; assumption.
Qed.

Theorem decode_first_encode_with : forall c v r, wf v = true -> len_ok v = true ->
  decode_first (encode_with c v ++ r) = Some v.
Proof. intros c v r Hwf Hlen. unfold decode_first. rewrite decode_encode_with by assumption. reflexivity. Qed.

Theorem decode_all_encode_with : forall c v, wf v = true -> len_ok v = true ->
  decode_all (encode_with c v) = Some v.
Proof.
  intros c v Hwf Hlen. pose proof (decode_encode_with c v [] Hwf Hlen) as H. rewrite app_nil_r in H.
  unfold decode_all. rewrite H. reflexivity.
Qed.

(* ------------------------------------------------------------------------------------------ *)
(** * The canonical encoder is the instance "no choice made" *)

Lemma loose_head_default major n : loose_head major 0 n = head major n.
Proof.
  unfold loose_head, loose_class, head_class, head, min_class. change (0 mod 5) with 0.
  destruct (N.ltb_spec n 24); [reflexivity|].
  destruct (N.ltb_spec n 256); [reflexivity|].
  destruct (N.ltb_spec n 65536); [reflexivity|].
  destruct (N.ltb_spec n 4294967296); reflexivity.
Qed.

Theorem encode_with_default : forall v, encode_with ch_default v = encode v.
Proof.
  induction v as [n|n|b|b|l H|kvs H|t x IH|b| |w bits] using cbor_ind';
    cbn [encode_with encode ch_default ch_w ch_indef ch_sub hd]; rewrite ?loose_head_default; try reflexivity.
  - f_equal. induction H as [|x l Hx Hl IHl]; [reflexivity|].
    cbn [enc_list flat_map hd tl]. rewrite IHl. f_equal. exact Hx.
  - f_equal. induction H as [|[k x] l [Hk Hx] Hl IHl]; [reflexivity|].
    cbn [enc_pairs flat_map hd tl fst snd] in *. rewrite IHl, Hk, Hx. rewrite app_assoc. reflexivity.
  - f_equal. exact IH.
Qed.

(* ------------------------------------------------------------------------------------------ *)
(** * Non-vacuity: one value, three different valid encodings, all decoded to it *)

Example loose_example :
  let v := CMap [(CText [97], CArray [CUInt 1; CBytes [1; 2; 3]])] in
  let c1 := Ch 1 false [] [Ch 2 false [] []; Ch 3 false [] [Ch 4 false [] []; Ch 1 false [] []]] in
  let c2 := Ch 0 true [] [Ch 0 true [0] []; Ch 0 true [] [Ch 0 false [] []; Ch 0 true [1; 1] [Ch 1 false [] []]]] in
  encode v = [161; 97; 97; 130; 1; 67; 1; 2; 3] /\
  encode_with c1 v = [184; 1; 121; 0; 1; 97; 154; 0; 0; 0; 2; 27; 0; 0; 0; 0; 0; 0; 0; 1; 88; 3; 1; 2; 3] /\
  encode_with c2 v = [191; 127; 96; 97; 97; 255; 159; 1; 95; 88; 1; 1; 65; 2; 65; 3; 255; 255; 255] /\
  decode_first (encode_with c1 v) = Some v /\ decode_first (encode_with c2 v) = Some v.
Proof. vm_compute. repeat split; reflexivity. Qed.

Print Assumptions decode_encode_with.
Print Assumptions decode_first_encode_with.
Print Assumptions encode_with_default.
