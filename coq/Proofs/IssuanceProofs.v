(* C09: proofs about Model/Issuance.v (model-level structure theorems). *)
From Isomdl Require Import Lib.Bytes Lib.Utf8 Lib.Cbor Lib.Sha2 Proofs.CborProofs Model.Cose Spec.CoseRfc
     Proofs.CoseProofs Model.Issuance.
Open Scope N_scope.

(* ------------------------------------------------------------------------------------------ *)
(** * DigestId::new *)

Lemma in_i32_iff z : in_i32 z = true <-> (i32_min <= z <= i32_max)%Z.
Proof. unfold in_i32. rewrite andb_true_iff, !Z.leb_le. tauto. Qed.

Lemma wrap_i32_in z : in_i32 (wrap_i32 z) = true.
Proof.
  apply in_i32_iff. unfold wrap_i32, i32_min, i32_max.
  pose proof (Z.mod_pos_bound (z + 2147483648) 4294967296 ltac:(lia)). lia.
Qed.

Lemma wrap_i32_id z : in_i32 z = true -> wrap_i32 z = z.
Proof.
  intro H. apply in_i32_iff in H. unfold i32_min, i32_max in H. unfold wrap_i32.
  rewrite Z.mod_small by lia. lia.
Qed.

Lemma i32_of_word_in w : in_i32 (i32_of_word w) = true.
Proof. apply wrap_i32_in. Qed.

(* every i32 is the reinterpretation of some u32 word *)
Lemma i32_of_word_surj z : in_i32 z = true -> exists w, w < 4294967296 /\ i32_of_word w = z.
Proof.
  intro H. apply in_i32_iff in H. unfold i32_min, i32_max in H.
  exists (Z.to_N (z mod 4294967296)).
  pose proof (Z.mod_pos_bound z 4294967296 ltac:(lia)) as Hb. split; [lia|].
  unfold i32_of_word, wrap_i32. rewrite Z2N.id by lia.
  destruct (Z_lt_le_dec z 0).
  - replace (z mod 4294967296)%Z with (z + 4294967296)%Z.
    2:{ symmetry. rewrite <- (Z.mod_small (z + 4294967296) 4294967296) by lia.
        rewrite <- Z.add_mod_idemp_r by lia. rewrite Z.mod_same by lia. rewrite Z.add_0_r. reflexivity. }
    replace (z + 4294967296 + 2147483648)%Z with ((z + 2147483648) + 1 * 4294967296)%Z by lia.
    rewrite Z.mod_add by lia. rewrite Z.mod_small by lia. lia.
  - rewrite (Z.mod_small z) by lia. rewrite Z.mod_small by lia. lia.
Qed.

(* the constructor is min(|i|, 2^31-1) for every i32, in both build modes *)
Lemma digest_id_new_sat release i :
  in_i32 i = true -> digest_id_new release i = Z.min (Z.abs i) i32_max.
Proof.
  intros H. apply in_i32_iff in H. unfold i32_min, i32_max in *.
  unfold digest_id_new, saturating_abs_i32. destruct (Z.ltb_spec i 0).
  - destruct (in_i32 (- i)) eqn:Hin.
    + apply in_i32_iff in Hin. unfold i32_min, i32_max in Hin. lia.
    + assert (Hn : ~ (i32_min <= - i <= i32_max)%Z) by (rewrite <- in_i32_iff; congruence).
      unfold i32_min, i32_max in *. lia.
  - lia.
Qed.

Lemma digest_id_new_range release i :
  in_i32 i = true -> (0 <= digest_id_new release i < 2147483648)%Z.
Proof.
  intros H. rewrite (digest_id_new_sat release i H). apply in_i32_iff in H. unfold i32_min, i32_max in *. lia.
Qed.

(* at i32::MIN the id is i32::MAX (it used to panic in debug builds and be -2^31 in release builds) *)
Lemma digest_id_new_min release : digest_id_new release i32_min = i32_max.
Proof. reflexivity. Qed.

Lemma digest_id_new_build_mode i : digest_id_new true i = digest_id_new false i.
Proof. reflexivity. Qed.

(* ------------------------------------------------------------------------------------------ *)
(** * generate_digest_id *)

Lemma zmem_false_iff z l : zmem z l = false <-> ~ In z l.
Proof.
  unfold zmem. split.
  - intros H Hin. assert (existsb (Z.eqb z) l = true) by (apply existsb_exists; exists z; split; [exact Hin|apply Z.eqb_refl]).
    congruence.
  - intro H. destruct (existsb (Z.eqb z) l) eqn:E; [|reflexivity].
    apply existsb_exists in E as [x [Hx Hz]]. apply Z.eqb_eq in Hz. subst. contradiction.
Qed.

Definition id_from_draw (release : bool) (z : Z) : Prop :=
  exists w, digest_id_new release (i32_of_word w) = z.

Lemma gen_id_ok release used : forall draws z rest,
  gen_id release used draws = Ok (z, rest) ->
  ~ In z used /\ id_from_draw release z /\ exists pre, draws = pre ++ rest /\ pre <> [].
Proof.
  induction draws as [|w r IH]; intros z rest H; cbn [gen_id] in H; [discriminate|].
  cbv zeta in H. destruct (zmem (digest_id_new release (i32_of_word w)) used) eqn:M.
  - apply IH in H as [H1 [H2 [pre [H3 H4]]]]. split; [exact H1|]. split; [exact H2|].
    exists (w :: pre). split; [rewrite H3; reflexivity|discriminate].
  - inversion H; subst. split; [apply zmem_false_iff; exact M|]. split; [exists w; reflexivity|].
    exists [w]. split; [reflexivity|discriminate].
Qed.

Lemma id_from_draw_range release z : id_from_draw release z -> (0 <= z < 2147483648)%Z.
Proof. intros [w <-]. apply digest_id_new_range. apply i32_of_word_in. Qed.

(* ------------------------------------------------------------------------------------------ *)
(** * to_issuer_signed_items *)

Lemma bind_ok {A B} (r : res A) (f : A -> res B) b :
  bind r f = Ok b -> exists a, r = Ok a /\ f a = Ok b.
Proof. destruct r; cbn; intro H; try discriminate. exists a. split; [reflexivity|exact H]. Qed.

Lemma take_tape_ok n s a b : take_tape n s = Ok (a, b) -> s = a ++ b /\ length a = n.
Proof.
  unfold take_tape. destruct (take_drop n s) as [[x y]|] eqn:E; [|discriminate].
  intro H. inversion H; subst. apply take_drop_some. exact E.
Qed.

Lemma wf_bytes_app a b : wf_bytes (a ++ b) = wf_bytes a && wf_bytes b.
Proof. unfold wf_bytes. apply forallb_app. Qed.

Definition items_of (elems : list (bytes * cbor)) (its : list item) : Prop :=
  map (fun it => (it_ident it, it_value it)) its = elems.

Lemma make_items_ok release : forall elems used t its t',
  make_items release used elems t = Ok (its, t') ->
  items_of elems its /\
  NoDup (map it_id its) /\
  (forall z, In z (map it_id its) -> ~ In z used) /\
  Forall (fun it => length (it_random it) = salt_len) its /\
  Forall (fun it => id_from_draw release (it_id it)) its /\
  (wf_bytes (t_salt t) = true -> Forall (fun it => wf_bytes (it_random it) = true) its /\ wf_bytes (t_salt t') = true).
Proof.
  induction elems as [|[k v] r IH]; intros used t its t' H; cbn [make_items] in H.
  - inversion H; subst. unfold items_of. cbn. repeat split; try constructor; try tauto.
  - apply bind_ok in H as [[id ids'] [H1 H]]. apply bind_ok in H as [[salt salt'] [H2 H]].
    apply bind_ok in H as [[its0 t0] [H3 H]]. inversion H; subst. clear H.
    apply gen_id_ok in H1 as [Hfresh [Hdraw _]]. apply take_tape_ok in H2 as [Hs Hl].
    apply IH in H3 as [I1 [I2 [I3 [I4 [I5 I6]]]]]. unfold items_of in *. cbn [map it_id it_ident it_value it_random].
    split; [rewrite I1; reflexivity|].
    split; [constructor; [intro Hin; apply (I3 _ Hin); left; reflexivity|exact I2]|].
    split; [intros z [<-|Hin]; [exact Hfresh|intro Hu; apply (I3 _ Hin); right; exact Hu]|].
    split; [constructor; [exact Hl|exact I4]|].
    split; [constructor; [exact Hdraw|exact I5]|].
    intro Hwf. cbn [t_salt set_salt set_ids] in I6. rewrite Hs, wf_bytes_app in Hwf. apply andb_true_iff in Hwf as [Hw1 Hw2].
    destruct (I6 Hw2) as [J1 J2]. split; [constructor; [exact Hw1|exact J1]|exact J2].
Qed.

Lemma make_items_nil release used elems t t' : make_items release used elems t = Ok ([], t') -> elems = [].
Proof.
  destruct elems as [|[k v] r]; [reflexivity|]. cbn [make_items]. intro H.
  apply bind_ok in H as [[id ids'] [_ H]]. apply bind_ok in H as [[salt salt'] [_ H]].
  apply bind_ok in H as [[its0 t0] [_ H]]. discriminate.
Qed.

(* ------------------------------------------------------------------------------------------ *)
(** * to_issuer_namespaces *)

Definition ns_items_ok (release : bool) (inp : bytes * list (bytes * cbor)) (out : bytes * list item) : Prop :=
  fst out = fst inp /\ snd inp <> [] /\
  items_of (snd inp) (snd out) /\
  NoDup (map it_id (snd out)) /\
  Forall (fun it => length (it_random it) = salt_len) (snd out) /\
  Forall (fun it => id_from_draw release (it_id it)) (snd out).

Definition items_wf (out : bytes * list item) : Prop := Forall (fun it => wf_bytes (it_random it) = true) (snd out).

Lemma make_namespaces_ok release : forall nss t out t',
  make_namespaces release nss t = Ok (out, t') ->
  Forall2 (ns_items_ok release) nss out /\
  (wf_bytes (t_salt t) = true -> Forall items_wf out /\ wf_bytes (t_salt t') = true).
Proof.
  induction nss as [|[name elems] r IH]; intros t out t' H; cbn [make_namespaces] in H.
  - inversion H; subst. split; [constructor|]. intro Hw. split; [constructor|exact Hw].
  - apply bind_ok in H as [[its t1] [H1 H]]. destruct its as [|it its]; [discriminate|].
    apply bind_ok in H as [[rest t2] [H2 H]]. inversion H; subst. clear H.
    pose proof (make_items_ok _ _ _ _ _ _ H1) as [I1 [I2 [_ [I4 [I5 I6]]]]].
    apply IH in H2 as [J1 J2]. split.
    + constructor; [|exact J1]. unfold ns_items_ok. cbn [fst snd]. repeat split; try assumption.
      intro E. subst. unfold items_of in I1. discriminate.
    + intro Hw. destruct (I6 Hw) as [K1 K2]. destruct (J2 K2) as [L1 L2]. split; [constructor; [exact K1|exact L1]|exact L2].
Qed.

(* only the namespace checks and the authorisation check produce Err *)
Lemma gen_id_not_err release used draws e : gen_id release used draws <> Err e.
Proof.
  induction draws as [|w d IH]; cbn [gen_id]; [discriminate|].
  cbv zeta. destruct (zmem (digest_id_new release (i32_of_word w)) used); [exact IH|discriminate].
Qed.

Lemma take_tape_not_err n s e : take_tape n s <> Err e.
Proof. unfold take_tape. destruct (take_drop n s); discriminate. Qed.

Lemma take_decoy_not_err s e : take_decoy s <> Err e.
Proof.
  destruct s as [b|[|d r]]; cbn [take_decoy]; try discriminate.
  unfold take_tape. destruct (take_drop decoy_len b) as [[x y]|]; cbn; discriminate.
Qed.

Lemma make_items_not_err release : forall elems used t e, make_items release used elems t <> Err e.
Proof.
  induction elems as [|[k v] r IH]; intros used t e H; cbn [make_items] in H; [discriminate|].
  destruct (gen_id release used (t_ids t)) as [[id ids']|e0| |] eqn:G; cbn [bind] in H; try discriminate.
  - destruct (take_tape salt_len (t_salt t)) as [[s s']|e1| |] eqn:T; cbn [bind] in H; try discriminate.
    + destruct (make_items release (id :: used) r _) as [[its0 t0]|e2| |] eqn:M; cbn [bind] in H; try discriminate.
      inversion H; subst. eapply IH; exact M.
    + eapply take_tape_not_err; exact T.
  - eapply gen_id_not_err; exact G.
Qed.

Lemma gen_decoys_not_err release : forall n used t e, gen_decoys release n used t <> Err e.
Proof.
  induction n as [|n IH]; intros used t e H; cbn [gen_decoys] in H; [discriminate|].
  destruct (gen_id release used (t_ids t)) as [[id ids']|e0| |] eqn:G; cbn [bind] in H; try discriminate.
  - destruct (take_decoy (t_decoy t)) as [[s s']|e1| |] eqn:T; cbn [bind] in H; try discriminate.
    + destruct (gen_decoys release n (id :: used) _) as [[r0 t0]|e2| |] eqn:M; cbn [bind] in H; try discriminate.
      inversion H; subst. eapply IH; exact M.
    + eapply take_decoy_not_err; exact T.
  - eapply gen_id_not_err; exact G.
Qed.

Lemma digest_namespace_not_err release alg decoys its t e : digest_namespace release alg decoys its t <> Err e.
Proof.
  unfold digest_namespace. intro H.
  destruct (decoy_count decoys t) as [[n t1]|e0| |] eqn:Ec; cbn [bind] in H; try discriminate.
  - destruct (gen_decoys release n (map it_id its) t1) as [[ds t2]|e1| |] eqn:Eg; cbn [bind] in H; try discriminate.
    inversion H; subst. eapply gen_decoys_not_err; exact Eg.
  - unfold decoy_count in Ec. destruct decoys; [|discriminate]. destruct (t_counts t); discriminate.
Qed.

Lemma digest_namespaces_not_err release alg decoys : forall nss t e, digest_namespaces release alg decoys nss t <> Err e.
Proof.
  induction nss as [|[name its] r IH]; intros t e H; cbn [digest_namespaces] in H; [discriminate|].
  destruct (digest_namespace release alg decoys its t) as [[d t1]|e0| |] eqn:E1; cbn [bind] in H; try discriminate.
  - destruct (digest_namespaces release alg decoys r t1) as [[rest t2]|e1| |] eqn:E2; cbn [bind] in H; try discriminate.
    inversion H; subst. eapply IH; exact E2.
  - eapply digest_namespace_not_err; exact E1.
Qed.

(* make_namespaces fails with Err exactly at an empty namespace *)
Lemma make_namespaces_err release : forall nss t e,
  make_namespaces release nss t = Err e -> e = EEmptyNamespace /\ exists ns, In (ns, []) nss.
Proof.
  induction nss as [|[name elems] r IH]; intros t e H; cbn [make_namespaces] in H; [discriminate|].
  destruct (make_items release [] elems t) as [[its t1]| | |] eqn:E1; cbn [bind] in H; try discriminate.
  - destruct its as [|it its].
    + inversion H; subst. apply make_items_nil in E1. subst. split; [reflexivity|]. exists name. left. reflexivity.
    + destruct (make_namespaces release r t1) as [[rest t2]| | |] eqn:E2; cbn [bind] in H; try discriminate.
      inversion H; subst. apply IH in E2 as [-> [ns Hns]]. split; [reflexivity|]. exists ns. right. exact Hns.
  - exfalso. eapply make_items_not_err; exact E1.
Qed.

(* a namespace without elements makes make_namespaces stop: never Ok *)
Lemma make_namespaces_empty_not_ok release : forall nss t out t' ns,
  In (ns, []) nss -> make_namespaces release nss t <> Ok (out, t').
Proof.
  intros nss t out t' ns Hin H. apply make_namespaces_ok in H as [H _].
  revert out H. induction nss as [|x r IH]; intros out H; [contradiction|].
  inversion H; subst. destruct Hin as [->|Hin].
  - destruct H2 as [_ [Hne _]]. apply Hne. reflexivity.
  - eapply IH; eassumption.
Qed.

(* ------------------------------------------------------------------------------------------ *)
(** * BTreeMap<DigestId, ByteStr>::from_iter *)

Fixpoint zsorted (m : list (Z * bytes)) : Prop :=
  match m with
  | [] => True
  | (k, _) :: r => Forall (fun kv => (k < fst kv)%Z) r /\ zsorted r
  end.

Lemma zmap_insert_spec k v : forall m, zsorted m ->
  zsorted (zmap_insert k v m) /\
  (forall kv, In kv (zmap_insert k v m) <-> kv = (k, v) \/ (fst kv <> k /\ In kv m)).
Proof.
  induction m as [|[k' v'] r IH]; intro Hs; cbn [zmap_insert].
  - split; [cbn; auto|]. intros kv. cbn. split; [intros [<-|[]]; left; reflexivity|intros [->|[_ []]]; left; reflexivity].
  - cbn [zsorted] in Hs. destruct Hs as [Hlb Hs].
    destruct (Z.ltb_spec k k') as [Hlt|Hge].
    + split.
      * cbn [zsorted]. split; [|split; assumption]. constructor; [exact Hlt|].
        eapply Forall_impl; [|exact Hlb]. cbn. intros a Ha. lia.
      * intros kv. cbn [In]. split.
        -- intros [<-|[<-|Hin]]; [left; reflexivity|right; split; [cbn; lia|left; reflexivity]|].
           right. split; [|right; exact Hin]. rewrite Forall_forall in Hlb. specialize (Hlb _ Hin). lia.
        -- intros [->|[Hne [<-|Hin]]]; [left; reflexivity|right; left; reflexivity|right; right; exact Hin].
    + destruct (Z.eqb_spec k k') as [->|Hne].
      * split; [cbn [zsorted]; split; assumption|].
        intros kv. cbn [In]. split.
        -- intros [<-|Hin]; [left; reflexivity|]. right. rewrite Forall_forall in Hlb. specialize (Hlb _ Hin).
           split; [lia|right; exact Hin].
        -- intros [->|[Hne [<-|Hin]]]; [left; reflexivity|cbn in Hne; congruence|right; exact Hin].
      * destruct (IH Hs) as [I1 I2]. split.
        -- cbn [zsorted]. split; [|exact I1]. apply Forall_forall. intros kv Hin. apply I2 in Hin as [->|[_ Hin]]; [cbn; lia|].
           rewrite Forall_forall in Hlb. exact (Hlb _ Hin).
        -- intros kv. cbn [In]. rewrite I2. split.
           ++ intros [<-|[->|[Hn Hin]]]; [right; split; [cbn; lia|left; reflexivity]|left; reflexivity|right; split; [exact Hn|right; exact Hin]].
           ++ intros [->|[Hn [<-|Hin]]]; [right; left; reflexivity|left; reflexivity|right; right; split; assumption].
Qed.

Lemma zsorted_nodup m : zsorted m -> NoDup (map fst m).
Proof.
  induction m as [|[k v] r IH]; cbn [zsorted map fst]; [constructor|]. intros [Hlb Hs].
  constructor; [|apply IH; exact Hs]. intro Hin. apply in_map_iff in Hin as [[k' v'] [E Hin]]. cbn in E. subst.
  rewrite Forall_forall in Hlb. specialize (Hlb _ Hin). cbn in Hlb. lia.
Qed.

Lemma zmap_collect_gen : forall l m, zsorted m -> NoDup (map fst l) ->
  (forall k, In k (map fst l) -> ~ In k (map fst m)) ->
  let out := fold_left (fun m kv => zmap_insert (fst kv) (snd kv) m) l m in
  zsorted out /\ (forall kv, In kv out <-> In kv l \/ In kv m).
Proof.
  induction l as [|[k v] r IH]; intros m Hs Hnd Hdis; cbn [fold_left].
  - split; [exact Hs|]. intro kv. cbn. tauto.
  - cbn [map fst] in Hnd, Hdis. inversion Hnd as [|? ? Hk Hnd']; subst.
    destruct (zmap_insert_spec k v m Hs) as [S1 S2]. cbn [fst snd].
    assert (Hdis' : forall k0, In k0 (map fst r) -> ~ In k0 (map fst (zmap_insert k v m))).
    { intros k0 Hin Hin2. apply in_map_iff in Hin2 as [kv [E Hin2]]. apply S2 in Hin2 as [->|[_ Hin2]].
      - cbn in E. subst. contradiction.
      - apply (Hdis k0); [right; exact Hin|]. apply in_map_iff. exists kv. split; assumption. }
    destruct (IH _ S1 Hnd' Hdis') as [I1 I2]. split; [exact I1|].
    intro kv. rewrite I2, S2. cbn [In]. split.
    + intros [H|[->|[_ H]]]; [left; right; exact H|left; left; reflexivity|right; exact H].
    + intros [[<-|H]|H]; [right; left; reflexivity|left; exact H|].
      right. right. split; [|exact H]. intro E. apply (Hdis k); [left; reflexivity|].
      apply in_map_iff. exists kv. split; [exact E|exact H].
Qed.

Lemma zmap_collect_spec l : NoDup (map fst l) ->
  zsorted (zmap_collect l) /\ (forall kv, In kv (zmap_collect l) <-> In kv l).
Proof.
  intro H. destruct (zmap_collect_gen l [] I H (fun _ _ Hf => Hf)) as [H1 H2]. split; [exact H1|].
  intro kv. rewrite H2. cbn. tauto.
Qed.

(* ------------------------------------------------------------------------------------------ *)
(** * decoys *)

(* well-formedness of the decoy material: digests supplied as oracle answers are byte strings *)
Definition fill_wf (f : decoy_fill) : Prop := match f with FillBytes _ => True | FillDigest d => wf_bytes d = true end.
Definition stream_wf (s : decoy_stream) : Prop :=
  match s with DecoyBytes _ => True | DecoyDigests ds => Forall (fun d => wf_bytes d = true) ds end.

Lemma take_decoy_ok s f s' : take_decoy s = Ok (f, s') ->
  (stream_wf s -> fill_wf f /\ stream_wf s') /\
  match f with FillBytes b => length b = decoy_len | FillDigest _ => True end.
Proof.
  destruct s as [b|[|d r]]; cbn [take_decoy]; intro H.
  - apply bind_ok in H as [[x r] [H1 H]]. inversion H; subst. apply take_tape_ok in H1 as [_ Hl]. cbn. auto.
  - discriminate.
  - inversion H; subst. cbn. split; [|exact I]. intro Hw. inversion Hw; subst. auto.
Qed.

Lemma hash_wf alg x : wf_bytes (hash alg x) = true.
Proof. destruct alg; [apply sha256_wf|apply sha384_wf|apply sha512_wf]. Qed.

Lemma fill_digest_wf alg f : fill_wf f -> wf_bytes (fill_digest alg f) = true.
Proof. destruct f; cbn; [intros _; apply hash_wf|auto]. Qed.

Lemma gen_decoys_ok release : forall n used t ds t',
  gen_decoys release n used t = Ok (ds, t') ->
  length ds = n /\ NoDup (map fst ds) /\ (forall z, In z (map fst ds) -> ~ In z used) /\
  Forall (fun d => id_from_draw release (fst d)) ds /\
  Forall (fun d => match snd d with FillBytes b => length b = decoy_len | FillDigest _ => True end) ds /\
  (stream_wf (t_decoy t) -> Forall (fun d => fill_wf (snd d)) ds /\ stream_wf (t_decoy t')).
Proof.
  induction n as [|n IH]; intros used t ds t' H; cbn [gen_decoys] in H.
  - inversion H; subst. cbn. repeat split; try constructor; tauto.
  - apply bind_ok in H as [[id ids'] [H1 H]]. apply bind_ok in H as [[b d'] [H2 H]].
    apply bind_ok in H as [[r t0] [H3 H]]. inversion H; subst. clear H.
    apply gen_id_ok in H1 as [Hfresh [Hdraw _]]. apply take_decoy_ok in H2 as [Hw Hl].
    apply IH in H3 as [I1 [I2 [I3 [I4 [I5 I6]]]]]. cbn [length map fst snd].
    split; [rewrite I1; reflexivity|].
    split; [constructor; [intro Hin; apply (I3 _ Hin); left; reflexivity|exact I2]|].
    split; [intros z [<-|Hin]; [exact Hfresh|intro Hu; apply (I3 _ Hin); right; exact Hu]|].
    split; [constructor; assumption|]. split; [constructor; assumption|].
    intro Hs. destruct (Hw Hs) as [W1 W2]. cbn [t_decoy set_decoy set_ids] in I6. destruct (I6 W2) as [J1 J2].
    split; [constructor; assumption|exact J2].
Qed.

Lemma decoy_count_ok decoys t n t' : decoy_count decoys t = Ok (n, t') ->
  (decoys = false /\ n = O) \/ (decoys = true /\ (5 <= n <= 9)%nat).
Proof.
  unfold decoy_count. destruct decoys; [|intro H; inversion H; left; auto].
  destruct (t_counts t) as [|w r]; [discriminate|]. intro H. inversion H; subst. right. split; [reflexivity|].
  change decoy_lo with 5. change decoy_span with 5. pose proof (N.mod_lt w 5 ltac:(lia)). lia.
Qed.

(* what digest_namespace returns: exactly the items' entries and the decoys' entries *)
Definition digests_ok (release : bool) (alg : digest_alg) (decoys : bool) (its : list item) (vd : list (Z * bytes)) : Prop :=
  exists ds : list (Z * decoy_fill),
    (forall kv, In kv vd <-> In kv (map (item_entry alg) its) \/ In kv (map (decoy_entry alg) ds)) /\
    zsorted vd /\
    NoDup (map fst ds) /\
    (forall z, In z (map fst ds) -> ~ In z (map it_id its)) /\
    Forall (fun d => id_from_draw release (fst d)) ds /\
    ((decoys = false /\ ds = []) \/ (decoys = true /\ (5 <= length ds <= 9)%nat)).

Lemma nodup_app {A} (a b : list A) : NoDup a -> NoDup b -> (forall x, In x a -> ~ In x b) -> NoDup (a ++ b).
Proof.
  induction a as [|x a IH]; intros Ha Hb Hd; cbn [app]; [exact Hb|].
  inversion Ha; subst. constructor.
  - rewrite in_app_iff. intros [H|H]; [contradiction|]. apply (Hd x); [left; reflexivity|exact H].
  - apply IH; [assumption|exact Hb|]. intros y Hy. apply Hd. right. exact Hy.
Qed.

Lemma map_fst_item_entry alg its : map fst (map (item_entry alg) its) = map it_id its.
Proof. rewrite map_map. reflexivity. Qed.
Lemma map_fst_decoy_entry alg ds : map fst (map (decoy_entry alg) ds) = map fst ds.
Proof. rewrite map_map. reflexivity. Qed.

Lemma decoy_count_tape decoys t n t1 : decoy_count decoys t = Ok (n, t1) -> t_salt t1 = t_salt t /\ t_decoy t1 = t_decoy t.
Proof.
  unfold decoy_count. destruct decoys; [|intro H; inversion H; auto].
  destruct (t_counts t); [discriminate|]. intro H. inversion H; auto.
Qed.

Lemma gen_decoys_salt release : forall n used t ds t', gen_decoys release n used t = Ok (ds, t') -> t_salt t' = t_salt t.
Proof.
  induction n as [|n IH]; intros used t ds t' H; cbn [gen_decoys] in H; [inversion H; reflexivity|].
  apply bind_ok in H as [[id ids'] [_ H]]. apply bind_ok in H as [[b d'] [_ H]].
  apply bind_ok in H as [[r t0] [H3 H]]. inversion H; subst. apply IH in H3. rewrite H3. reflexivity.
Qed.

Lemma digest_namespace_ok release alg decoys its t vd t' :
  NoDup (map it_id its) ->
  digest_namespace release alg decoys its t = Ok (vd, t') ->
  digests_ok release alg decoys its vd /\ t_salt t' = t_salt t /\
  (stream_wf (t_decoy t) -> (forall kv, In kv vd -> wf_bytes (snd kv) = true) /\ stream_wf (t_decoy t')).
Proof.
  intros Hnd H. unfold digest_namespace in H.
  apply bind_ok in H as [[n t1] [H1 H]]. apply bind_ok in H as [[ds t2] [H2 H]]. inversion H; subst. clear H.
  pose proof (gen_decoys_ok _ _ _ _ _ _ H2) as [G1 [G2 [G3 [G4 [_ G6]]]]].
  assert (Hnd2 : NoDup (map fst (map (item_entry alg) its ++ map (decoy_entry alg) ds))).
  { rewrite map_app, map_fst_item_entry, map_fst_decoy_entry.
    apply nodup_app; [exact Hnd|exact G2|]. intros z Hz Hd. exact (G3 z Hd Hz). }
  destruct (zmap_collect_spec _ Hnd2) as [S1 S2].
  destruct (decoy_count_tape _ _ _ _ H1) as [E1 E2]. split; [|split].
  - exists ds. split; [intro kv; rewrite S2, in_app_iff; tauto|].
    split; [exact S1|]. split; [exact G2|]. split; [exact G3|]. split; [exact G4|].
    apply decoy_count_ok in H1 as [[-> ->]|[-> Hn]].
    + left. split; [reflexivity|]. destruct ds; [reflexivity|discriminate].
    + right. split; [reflexivity|]. rewrite G1. exact Hn.
  - rewrite (gen_decoys_salt _ _ _ _ _ _ H2). exact E1.
  - intro Hs. rewrite <- E2 in Hs. destruct (G6 Hs) as [W1 W2]. split; [|exact W2].
    intros kv Hkv. apply S2 in Hkv. apply in_app_iff in Hkv as [Hkv|Hkv]; apply in_map_iff in Hkv as [x [<- Hx]].
    + cbn [item_entry snd]. apply hash_wf.
    + cbn [decoy_entry snd]. apply fill_digest_wf. rewrite Forall_forall in W1. exact (W1 _ Hx).
Qed.

Definition ns_digests_ok (release : bool) (alg : digest_alg) (decoys : bool)
           (x : bytes * list item) (y : bytes * list (Z * bytes)) : Prop :=
  fst y = fst x /\ digests_ok release alg decoys (snd x) (snd y).

Definition vd_bytes_wf (y : bytes * list (Z * bytes)) : Prop := forall kv, In kv (snd y) -> wf_bytes (snd kv) = true.

Lemma digest_namespaces_ok release alg decoys : forall nss t vds t',
  Forall (fun x => NoDup (map it_id (snd x))) nss ->
  digest_namespaces release alg decoys nss t = Ok (vds, t') ->
  Forall2 (ns_digests_ok release alg decoys) nss vds /\
  (stream_wf (t_decoy t) -> Forall vd_bytes_wf vds).
Proof.
  induction nss as [|[name its] r IH]; intros t vds t' Hnd H; cbn [digest_namespaces] in H.
  - inversion H; subst. split; constructor.
  - apply bind_ok in H as [[d t1] [H1 H]]. apply bind_ok in H as [[rest t2] [H2 H]]. inversion H; subst. clear H.
    inversion Hnd; subst. cbn [snd] in *. apply digest_namespace_ok in H1 as [H1 [_ Hw]]; [|assumption].
    destruct (IH _ _ _ H4 H2) as [I1 I2]. split.
    + constructor; [split; [reflexivity|exact H1]|exact I1].
    + intro Hs. destruct (Hw Hs) as [W1 W2]. constructor; [exact W1|exact (I2 W2)].
Qed.

Lemma make_items_decoy release : forall elems used t its t', make_items release used elems t = Ok (its, t') -> t_decoy t' = t_decoy t.
Proof.
  induction elems as [|[k v] r IH]; intros used t its t' H; cbn [make_items] in H; [inversion H; reflexivity|].
  apply bind_ok in H as [[id ids'] [_ H]]. apply bind_ok in H as [[salt salt'] [_ H]].
  apply bind_ok in H as [[its0 t0] [H3 H]]. inversion H; subst. apply IH in H3. rewrite H3. reflexivity.
Qed.

Lemma make_namespaces_decoy release : forall nss t out t', make_namespaces release nss t = Ok (out, t') -> t_decoy t' = t_decoy t.
Proof.
  induction nss as [|[name elems] r IH]; intros t out t' H; cbn [make_namespaces] in H; [inversion H; reflexivity|].
  apply bind_ok in H as [[its t1] [H1 H]]. destruct its as [|it its]; [discriminate|].
  apply bind_ok in H as [[rest t2] [H2 H]]. inversion H; subst. apply IH in H2. apply make_items_decoy in H1. congruence.
Qed.

(* ------------------------------------------------------------------------------------------ *)
(** * Mdoc::prepare, PreparedMdoc::complete, Mdoc::issue *)

Definition auth_conflict (q : request) : option bytes :=
  match q_auth q with Some a => double_authorized a | None => None end.

Definition prepared_cose (q : request) (m : mso) : cose1 :=
  {| c_tagged := false; c_protected := protected_header (q_sig_alg q); c_unprotected := [];
     c_payload := Some (mso_payload m); c_sig := [] |}.

Lemma prepare_ok release q t p :
  prepare release q t = Ok p ->
  auth_conflict q = None /\ q_namespaces q <> [] /\
  Forall2 (ns_items_ok release) (q_namespaces q) (pm_namespaces p) /\
  Forall2 (ns_digests_ok release (q_alg q) (q_decoys q)) (pm_namespaces p) (mso_value_digests (pm_mso p)) /\
  mso_version (pm_mso p) = mso_version_1_0 /\ mso_alg (pm_mso p) = q_alg q /\
  mso_device_key_info (pm_mso p) = q_device_key_info q /\ mso_doc_type (pm_mso p) = q_doc_type q /\
  mso_validity (pm_mso p) = q_validity q /\
  pm_doc_type p = q_doc_type q /\
  pm_cose p = prepared_cose q (pm_mso p) /\
  pm_tbs p = tbs_structure ctx_sign1 (protected_header (q_sig_alg q)) [] (mso_payload (pm_mso p)) /\
  (wf_bytes (t_salt t) = true -> Forall items_wf (pm_namespaces p)) /\
  (stream_wf (t_decoy t) -> Forall vd_bytes_wf (mso_value_digests (pm_mso p))).
Proof.
  unfold prepare. fold (auth_conflict q). destruct (auth_conflict q) as [ns|]; [discriminate|]. intro H.
  apply bind_ok in H as [[nss t1] [H1 H]]. apply bind_ok in H as [[vd t2] [H2 H]].
  cbn [Cose.prepare select_payload c_payload aad_or_empty c_protected] in H. inversion H; subst. clear H.
  cbn [pm_namespaces pm_mso pm_doc_type pm_cose pm_tbs mso_version mso_alg mso_value_digests mso_device_key_info mso_doc_type mso_validity].
  unfold to_issuer_namespaces in H1. apply bind_ok in H1 as [[out t0] [H1 H]].
  destruct out as [|o outs]; [discriminate|]. inversion H; subst. clear H.
  pose proof (make_namespaces_decoy _ _ _ _ _ H1) as Hdec.
  apply make_namespaces_ok in H1 as [M1 M2].
  assert (Hnd : Forall (fun x => NoDup (map it_id (snd x))) (o :: outs)).
  { clear -M1. revert M1. generalize (o :: outs). generalize (q_namespaces q).
    induction l as [|x l IH]; intros l0 H; inversion H; subst; constructor; [|apply IH; assumption].
    destruct H2 as [_ [_ [_ [Hn _]]]]. exact Hn. }
  destruct (digest_namespaces_ok _ _ _ _ _ _ _ Hnd H2) as [D1 D2].
  split; [reflexivity|]. split; [intro E; rewrite E in M1; inversion M1|]. split; [exact M1|].
  split; [exact D1|].
  repeat (split; [reflexivity|]). split; [intro Hw; exact (proj1 (M2 Hw))|].
  intro Hs. apply D2. rewrite Hdec. exact Hs.
Qed.

Lemma issue_ok release q t x5 sign m :
  issue release q t x5 sign = Ok m ->
  exists p sg, prepare release q t = Ok p /\ sign (pm_tbs p) = Some sg /\ m = complete p x5 sg.
Proof.
  unfold issue. intro H. apply bind_ok in H as [p [H1 H]]. destruct (sign (pm_tbs p)) as [sg|] eqn:E; [|discriminate].
  inversion H; subst. exists p, sg. repeat split; assumption.
Qed.

(* direct signing is remote signing with the signer applied to the offered payload *)
Lemma issue_is_prepare_complete release q t x5 sign :
  issue release q t x5 sign =
  match prepare release q t with
  | Ok p => match sign (pm_tbs p) with Some sg => Ok (complete p x5 sg) | None => Err ESigning end
  | Err e => Err e | Panic => Panic | OutOfTape => OutOfTape
  end.
Proof. unfold issue. destruct (prepare release q t); reflexivity. Qed.

(* the i-th namespace of the document with its items and its valueDigests entry *)
Definition ns_of (m : mdoc) (ns : bytes) (its : list item) (vd : list (Z * bytes)) : Prop :=
  exists i, nth_error (m_namespaces m) i = Some (ns, its) /\
            nth_error (mso_value_digests (m_mso m)) i = Some (ns, vd).

Lemma Forall2_nth {A B} (R : A -> B -> Prop) l l' : Forall2 R l l' ->
  forall i a b, nth_error l i = Some a -> nth_error l' i = Some b -> R a b.
Proof.
  induction 1; intros [|i] a b Ha Hb; cbn in *; try discriminate.
  - inversion Ha; inversion Hb; subst. assumption.
  - eapply IHForall2; eassumption.
Qed.

Lemma Forall2_nth_l {A B} (R : A -> B -> Prop) l l' : Forall2 R l l' ->
  forall i b, nth_error l' i = Some b -> exists a, nth_error l i = Some a /\ R a b.
Proof.
  induction 1; intros [|i] b Hb; cbn in *; try discriminate.
  - inversion Hb; subst. eexists; split; [reflexivity|assumption].
  - eapply IHForall2; eassumption.
Qed.

Lemma Forall2_map_fst {A B C} (R : (A * B) -> (A * C) -> Prop) l l' :
  Forall2 R l l' -> (forall a b, R a b -> fst b = fst a) -> map fst l' = map fst l.
Proof. induction 1; intro Hf; cbn; [reflexivity|]. f_equal; [apply Hf; assumption|apply IHForall2; exact Hf]. Qed.

Section Issued.
  Variables (release : bool) (q : request) (t : tape) (x5 : cbor) (sign : bytes -> option bytes) (m : mdoc).
  Hypothesis Hissue : issue release q t x5 sign = Ok m.

  Lemma issued_namespaces :
    map fst (m_namespaces m) = map fst (q_namespaces q) /\
    map fst (mso_value_digests (m_mso m)) = map fst (q_namespaces q).
  Proof.
    destruct (issue_ok _ _ _ _ _ _ Hissue) as [p [sg [Hp [_ ->]]]]. apply prepare_ok in Hp as [_ [_ [H1 [H2 _]]]].
    cbn [complete m_namespaces m_mso].
    assert (E1 : map fst (pm_namespaces p) = map fst (q_namespaces q)).
    { eapply Forall2_map_fst; [exact H1|]. intros a b [E _]. exact E. }
    split; [exact E1|]. rewrite <- E1. eapply Forall2_map_fst; [exact H2|]. intros a b [E _]. exact E.
  Qed.

  (* every supplied element appears exactly once, in the supplied order, and nothing else *)
  Lemma issued_elements :
    map (fun x => (fst x, map (fun it => (it_ident it, it_value it)) (snd x))) (m_namespaces m) = q_namespaces q.
  Proof.
    destruct (issue_ok _ _ _ _ _ _ Hissue) as [p [sg [Hp [_ ->]]]]. apply prepare_ok in Hp as [_ [_ [H1 _]]].
    cbn [complete m_namespaces]. induction H1 as [|[n e] [n' i] l l' H H1 IH]; cbn [map]; [reflexivity|].
    f_equal; [|exact IH]. destruct H as [E [_ [Hi _]]]. cbn [fst snd] in *. unfold items_of in Hi. rewrite E, Hi. reflexivity.
  Qed.

  Lemma issued_items ns its : In (ns, its) (m_namespaces m) ->
    its <> [] /\ NoDup (map it_id its) /\
    Forall (fun it => length (it_random it) = 16%nat) its /\
    Forall (fun it => id_from_draw release (it_id it)) its.
  Proof.
    destruct (issue_ok _ _ _ _ _ _ Hissue) as [p [sg [Hp [_ ->]]]]. apply prepare_ok in Hp as [_ [_ [H1 _]]].
    cbn [complete m_namespaces]. intro Hin. apply In_nth_error in Hin as [i Hi].
    destruct (Forall2_nth_l _ _ _ H1 _ _ Hi) as [[n e] [_ [_ [Hne [Hio [Hnd [Hl Hd]]]]]]]. cbn [fst snd] in *.
    split; [|auto]. intro E. subst. unfold items_of in Hio. cbn in Hio. congruence.
  Qed.

  Lemma issued_digests ns its vd : ns_of m ns its vd ->
    In (ns, its) (m_namespaces m) /\ digests_ok release (q_alg q) (q_decoys q) its vd.
  Proof.
    destruct (issue_ok _ _ _ _ _ _ Hissue) as [p [sg [Hp [_ ->]]]]. apply prepare_ok in Hp as [_ [_ [_ [H2 _]]]].
    cbn [complete]. intros [i [Hi Hv]]. cbn [m_namespaces m_mso] in *.
    split; [eapply nth_error_In; exact Hi|]. destruct (Forall2_nth _ _ _ H2 _ _ _ Hi Hv) as [_ H]. exact H.
  Qed.

  Lemma issued_mso_fields :
    mso_version (m_mso m) = mso_version_1_0 /\ mso_alg (m_mso m) = q_alg q /\
    mso_device_key_info (m_mso m) = q_device_key_info q /\ mso_doc_type (m_mso m) = q_doc_type q /\
    mso_validity (m_mso m) = q_validity q /\ m_doc_type m = q_doc_type q.
  Proof.
    destruct (issue_ok _ _ _ _ _ _ Hissue) as [p [sg [Hp [_ ->]]]].
    apply prepare_ok in Hp as [_ [_ [_ [_ [H1 [H2 [H3 [H4 [H5 [H6 _]]]]]]]]]]. cbn [complete m_mso m_doc_type]. auto 10.
  Qed.

  Lemma issued_vd_wf : stream_wf (t_decoy t) -> Forall vd_bytes_wf (mso_value_digests (m_mso m)).
  Proof.
    destruct (issue_ok _ _ _ _ _ _ Hissue) as [p [sg [Hp [_ ->]]]]. apply prepare_ok in Hp.
    cbn [complete m_mso]. apply Hp.
  Qed.

  (* issuerAuth *)
  Lemma issued_auth :
    exists sg, sign (tbs_structure ctx_sign1 (protected_header (q_sig_alg q)) [] (mso_payload (m_mso m))) = Some sg /\
      m_issuer_auth m = {| c_tagged := false; c_protected := protected_header (q_sig_alg q);
                           c_unprotected := [(x5chain_label, x5)];
                           c_payload := Some (mso_payload (m_mso m)); c_sig := sg |}.
  Proof.
    destruct (issue_ok _ _ _ _ _ _ Hissue) as [p [sg [Hp [Hs ->]]]].
    apply prepare_ok in Hp as [_ [_ [_ [_ [_ [_ [_ [_ [_ [_ [Hc [Ht _]]]]]]]]]]]].
    exists sg. cbn [complete m_mso m_issuer_auth]. rewrite <- Ht. split; [exact Hs|]. rewrite Hc. reflexivity.
  Qed.
End Issued.

(* ------------------------------------------------------------------------------------------ *)
(** * Refusals *)

Lemma find_some_iff {A} (f : A -> bool) l : (exists x, find f l = Some x) <-> exists x, In x l /\ f x = true.
Proof.
  split.
  - intros [x H]. exists x. apply find_some in H. exact H.
  - intros [x [Hin Hf]]. destruct (find f l) eqn:E; [eexists; reflexivity|].
    exfalso. pose proof (find_none _ _ E x Hin). congruence.
Qed.

Lemma bmem_iff b l : bmem b l = true <-> In b l.
Proof.
  unfold bmem. rewrite existsb_exists. split.
  - intros [x [Hin E]]. apply bytes_eqb_eq in E. subst. exact Hin.
  - intro H. exists b. split; [exact H|apply bytes_eqb_refl].
Qed.

(* contradictory key authorisations: some namespace is authorised both wholly and per element *)
Definition contradictory_auth (q : request) : Prop :=
  exists a nss des ns, q_auth q = Some a /\ ka_namespaces a = Some nss /\ ka_elements a = Some des /\
                       In ns nss /\ In ns (map fst des).

Lemma auth_conflict_iff q : (exists ns, auth_conflict q = Some ns) <-> contradictory_auth q.
Proof.
  unfold auth_conflict, contradictory_auth, double_authorized. split.
  - intros [ns H]. destruct (q_auth q) as [a|]; [|discriminate].
    destruct (ka_elements a) as [des|] eqn:Ed; [|discriminate]. destruct (ka_namespaces a) as [nss|] eqn:En; [|discriminate].
    apply find_some in H as [H1 H2]. apply bmem_iff in H2. exists a, nss, des, ns. auto.
  - intros [a [nss [des [ns [-> [-> [-> [H1 H2]]]]]]]]. apply find_some_iff. exists ns. split; [exact H1|apply bmem_iff; exact H2].
Qed.

Definition refusal_case (q : request) : Prop :=
  contradictory_auth q \/ q_namespaces q = [] \/ exists ns, In (ns, []) (q_namespaces q).

(* prepare answers Err only in a refusal case (ECose never happens) *)
Lemma prepare_err release q t e : prepare release q t = Err e ->
  refusal_case q /\
  ((exists ns, e = EDoubleAuthorized ns /\ contradictory_auth q) \/
   (e = ENoNamespaces /\ q_namespaces q = []) \/
   (e = EEmptyNamespace /\ exists ns, In (ns, []) (q_namespaces q))).
Proof.
  unfold prepare. fold (auth_conflict q). destruct (auth_conflict q) as [ns|] eqn:Ea.
  - intro H. inversion H; subst. assert (Hc : contradictory_auth q) by (apply auth_conflict_iff; exists ns; exact Ea).
    split; [left; exact Hc|left; exists ns; auto].
  - unfold to_issuer_namespaces.
    destruct (make_namespaces release (q_namespaces q) t) as [[out t0]|e0| |] eqn:Em; cbn [bind]; try discriminate.
    + destruct out as [|o outs].
      * intro H. inversion H; subst. apply make_namespaces_ok in Em as [Em _]. inversion Em; subst.
        split; [right; left; auto|right; left; auto].
      * cbn [bind]. destruct (digest_namespaces release (q_alg q) (q_decoys q) (o :: outs) t0) as [[vd t2]|e1| |] eqn:Ed; cbn [bind]; try discriminate.
        exfalso. eapply digest_namespaces_not_err; exact Ed.
    + intro H. inversion H; subst. apply make_namespaces_err in Em as [-> Hex].
      split; [right; right; exact Hex|right; right; auto].
Qed.

(* in a refusal case nothing is prepared *)
Lemma prepare_refuses release q t p : refusal_case q -> prepare release q t <> Ok p.
Proof.
  intros Hr H. apply prepare_ok in H as [Ha [Hne [H1 _]]]. destruct Hr as [Hc|[He|[ns Hin]]].
  - apply auth_conflict_iff in Hc as [ns Hc]. congruence.
  - contradiction.
  - clear -H1 Hin. induction H1 as [|x y l l' H H1 IH]; [contradiction|]. destruct Hin as [->|Hin]; [|exact (IH Hin)].
    destruct H as [_ [Hne _]]. apply Hne. reflexivity.
Qed.

(* contradictory authorisations and an empty namespace map are refused before any randomness is used *)
Lemma prepare_refuses_auth release q t : contradictory_auth q -> exists ns, prepare release q t = Err (EDoubleAuthorized ns).
Proof.
  intro Hc. apply auth_conflict_iff in Hc as [ns Hc]. exists ns. unfold prepare. fold (auth_conflict q). rewrite Hc. reflexivity.
Qed.

Lemma prepare_refuses_no_namespace release q t : ~ contradictory_auth q -> q_namespaces q = [] -> prepare release q t = Err ENoNamespaces.
Proof.
  intros Hc He. unfold prepare. fold (auth_conflict q). destruct (auth_conflict q) as [ns|] eqn:E.
  - exfalso. apply Hc. apply auth_conflict_iff. exists ns. exact E.
  - rewrite He. reflexivity.
Qed.

(* ------------------------------------------------------------------------------------------ *)
(** * issuerAuth verifies *)

Lemma int_cbor_wf_i32 z : in_i32 z = true -> wf (int_cbor z) = true.
Proof.
  intro H. apply in_i32_iff in H. unfold i32_min, i32_max in H. unfold int_cbor.
  destruct (Z.ltb_spec z 0); cbn [wf]; apply N.ltb_lt; unfold two64; lia.
Qed.

Lemma z_of_int_cbor_int z : z_of_int_cbor (int_cbor z) = Some z.
Proof.
  unfold int_cbor. destruct (Z.ltb_spec z 0); cbn [z_of_int_cbor]; f_equal.
  - remember (-1 - z)%Z as x. rewrite Z2N.id by lia. lia.
  - rewrite Z2N.id by lia. reflexivity.
Qed.

(* the protected bucket {1: alg} names exactly the signer's algorithm *)
Lemma protected_alg z : in_i32 z = true -> alg_of_protected (protected_header z) = AlgInt z.
Proof.
  intro Hz. unfold alg_of_protected, protected_header.
  destruct (encode (CMap [(CUInt 1, int_cbor z)])) as [|b r] eqn:E; [exfalso; eapply encode_nonempty; exact E|].
  rewrite <- E. rewrite <- (app_nil_r (encode _)). rewrite decode_first_encode.
  - cbn [map_get]. change (cbor_eqb (CUInt 1) (CUInt 1)) with true. cbn iota.
    pose proof (z_of_int_cbor_int z) as Hi. destruct (int_cbor z); try (rewrite Hi; reflexivity).
    cbn in Hi. discriminate.
  - cbn [wf forallb]. rewrite (int_cbor_wf_i32 _ Hz). reflexivity.
  - cbn [len_ok forallb length]. unfold int_cbor. destruct (z <? 0)%Z; reflexivity.
Qed.

Lemma verify_same ctx v c c' det aad :
  c_protected c' = c_protected c -> c_payload c' = c_payload c -> c_sig c' = c_sig c ->
  verify ctx v c' det aad = verify ctx v c det aad.
Proof. intros H1 H2 H3. unfold verify. rewrite H1, H2, H3. reflexivity. Qed.

(* an ES256/ES384 verifier for the signer's key that accepts the signature over the offered
   structure accepts the issued issuerAuth (CoseProofs.honest_verifies on the prepared structure) *)
Lemma issued_verifies release q t x5 sign m (v : verifier) :
  issue release q t x5 sign = Ok m ->
  in_i32 (q_sig_alg q) = true -> v_alg v = q_sig_alg q ->
  v_parse v (c_sig (m_issuer_auth m)) = true ->
  v_check v (rfc_tbs_sign1 (c_protected (m_issuer_auth m)) [] (mso_payload (m_mso m))) (c_sig (m_issuer_auth m)) = true ->
  verify ctx_sign1 v (m_issuer_auth m) None None = VSuccess.
Proof.
  intros Hi Hz Hv Hp Hc. destruct (issued_auth _ _ _ _ _ _ Hi) as [sg [_ Ha]]. rewrite Ha in *.
  cbn [c_sig c_protected] in Hp, Hc.
  rewrite (verify_same ctx_sign1 v (finalize (prepared_cose q (m_mso m)) sg)); try reflexivity.
  eapply honest_verifies.
  - cbn [prepared_cose c_protected]. rewrite (protected_alg _ Hz). cbn [alg_gate]. rewrite Hv. apply Z.eqb_refl.
  - reflexivity.
  - exact Hp.
  - exact Hc.
Qed.

(* ------------------------------------------------------------------------------------------ *)
(** * No panic, and no dependence on the build mode (after the repair of DigestId::new) *)

Lemma gen_id_no_panic release used draws : gen_id release used draws <> Panic.
Proof.
  induction draws as [|w d IH]; cbn [gen_id]; [discriminate|].
  cbv zeta. destruct (zmem (digest_id_new release (i32_of_word w)) used); [exact IH|discriminate].
Qed.

Lemma take_tape_no_panic n s : take_tape n s <> Panic.
Proof. unfold take_tape. destruct (take_drop n s); discriminate. Qed.

Lemma take_decoy_no_panic s : take_decoy s <> Panic.
Proof.
  destruct s as [b|[|d r]]; cbn [take_decoy]; try discriminate.
  unfold take_tape. destruct (take_drop decoy_len b) as [[x y]|]; cbn; discriminate.
Qed.

Lemma make_items_no_panic release : forall elems used t, make_items release used elems t <> Panic.
Proof.
  induction elems as [|[k v] r IH]; intros used t H; cbn [make_items] in H; [discriminate|].
  destruct (gen_id release used (t_ids t)) as [[id ids']|e0| |] eqn:G; cbn [bind] in H; try discriminate.
  - destruct (take_tape salt_len (t_salt t)) as [[s s']|e1| |] eqn:T; cbn [bind] in H; try discriminate.
    + destruct (make_items release (id :: used) r _) as [[its0 t0]|e2| |] eqn:M; cbn [bind] in H; try discriminate.
      eapply IH; exact M.
    + eapply take_tape_no_panic; exact T.
  - eapply gen_id_no_panic; exact G.
Qed.

Lemma make_namespaces_no_panic release : forall nss t, make_namespaces release nss t <> Panic.
Proof.
  induction nss as [|[name elems] r IH]; intros t H; cbn [make_namespaces] in H; [discriminate|].
  destruct (make_items release [] elems t) as [[its t1]|e0| |] eqn:E1; cbn [bind] in H; try discriminate.
  - destruct its as [|it its]; [discriminate|].
    destruct (make_namespaces release r t1) as [[rest t2]|e1| |] eqn:E2; cbn [bind] in H; try discriminate.
    eapply IH; exact E2.
  - eapply make_items_no_panic; exact E1.
Qed.

Lemma gen_decoys_no_panic release : forall n used t, gen_decoys release n used t <> Panic.
Proof.
  induction n as [|n IH]; intros used t H; cbn [gen_decoys] in H; [discriminate|].
  destruct (gen_id release used (t_ids t)) as [[id ids']|e0| |] eqn:G; cbn [bind] in H; try discriminate.
  - destruct (take_decoy (t_decoy t)) as [[s s']|e1| |] eqn:T; cbn [bind] in H; try discriminate.
    + destruct (gen_decoys release n (id :: used) _) as [[r0 t0]|e2| |] eqn:M; cbn [bind] in H; try discriminate.
      eapply IH; exact M.
    + eapply take_decoy_no_panic; exact T.
  - eapply gen_id_no_panic; exact G.
Qed.

Lemma digest_namespace_no_panic release alg decoys its t : digest_namespace release alg decoys its t <> Panic.
Proof.
  unfold digest_namespace. intro H.
  destruct (decoy_count decoys t) as [[n t1]|e0| |] eqn:Ec; cbn [bind] in H; try discriminate.
  - destruct (gen_decoys release n (map it_id its) t1) as [[ds t2]|e1| |] eqn:Eg; cbn [bind] in H; try discriminate.
    eapply gen_decoys_no_panic; exact Eg.
  - unfold decoy_count in Ec. destruct decoys; [|discriminate]. destruct (t_counts t); discriminate.
Qed.

Lemma digest_namespaces_no_panic release alg decoys : forall nss t, digest_namespaces release alg decoys nss t <> Panic.
Proof.
  induction nss as [|[name its] r IH]; intros t H; cbn [digest_namespaces] in H; [discriminate|].
  destruct (digest_namespace release alg decoys its t) as [[d t1]|e0| |] eqn:E1; cbn [bind] in H; try discriminate.
  - destruct (digest_namespaces release alg decoys r t1) as [[rest t2]|e1| |] eqn:E2; cbn [bind] in H; try discriminate.
    eapply IH; exact E2.
  - eapply digest_namespace_no_panic; exact E1.
Qed.

Lemma prepare_no_panic release q t : prepare release q t <> Panic.
Proof.
  unfold prepare. destruct (match q_auth q with Some a => double_authorized a | None => None end); [discriminate|].
  unfold to_issuer_namespaces.
  destruct (make_namespaces release (q_namespaces q) t) as [[out t0]|e0| |] eqn:Em; cbn [bind]; try discriminate.
  - destruct out as [|o outs]; [discriminate|]. cbn [bind].
    destruct (digest_namespaces release (q_alg q) (q_decoys q) (o :: outs) t0) as [[vd t2]|e1| |] eqn:Ed; cbn [bind]; try discriminate.
    intros _. eapply digest_namespaces_no_panic; exact Ed.
  - intros _. eapply make_namespaces_no_panic; exact Em.
Qed.

Lemma issue_no_panic release q t x5 sign : issue release q t x5 sign <> Panic.
Proof.
  unfold issue. destruct (prepare release q t) as [p|e| |] eqn:E; cbn [bind]; try discriminate.
  - destruct (sign (pm_tbs p)); discriminate.
  - intros _. eapply prepare_no_panic; exact E.
Qed.

Lemma gen_id_build_mode used draws : gen_id true used draws = gen_id false used draws.
Proof. induction draws as [|w d IH]; cbn [gen_id]; [reflexivity|]. cbv zeta. unfold digest_id_new. rewrite IH. reflexivity. Qed.

Lemma make_items_build_mode : forall elems used t, make_items true used elems t = make_items false used elems t.
Proof.
  induction elems as [|[k v] r IH]; intros used t; cbn [make_items]; [reflexivity|].
  rewrite gen_id_build_mode. destruct (gen_id false used (t_ids t)) as [[id ids']| | |]; cbn [bind]; try reflexivity.
  destruct (take_tape salt_len (t_salt t)) as [[s s']| | |]; cbn [bind]; try reflexivity. rewrite IH. reflexivity.
Qed.

Lemma make_namespaces_build_mode : forall nss t, make_namespaces true nss t = make_namespaces false nss t.
Proof.
  induction nss as [|[name elems] r IH]; intros t; cbn [make_namespaces]; [reflexivity|].
  rewrite make_items_build_mode. destruct (make_items false [] elems t) as [[its t1]| | |]; cbn [bind]; try reflexivity.
  destruct its; [reflexivity|]. rewrite IH. reflexivity.
Qed.

Lemma gen_decoys_build_mode : forall n used t, gen_decoys true n used t = gen_decoys false n used t.
Proof.
  induction n as [|n IH]; intros used t; cbn [gen_decoys]; [reflexivity|].
  rewrite gen_id_build_mode. destruct (gen_id false used (t_ids t)) as [[id ids']| | |]; cbn [bind]; try reflexivity.
  destruct (take_decoy (t_decoy t)) as [[s s']| | |]; cbn [bind]; try reflexivity. rewrite IH. reflexivity.
Qed.

Lemma digest_namespaces_build_mode alg decoys : forall nss t,
  digest_namespaces true alg decoys nss t = digest_namespaces false alg decoys nss t.
Proof.
  induction nss as [|[name its] r IH]; intros t; cbn [digest_namespaces]; [reflexivity|].
  unfold digest_namespace. destruct (decoy_count decoys t) as [[n t1]| | |]; cbn [bind]; try reflexivity.
  rewrite gen_decoys_build_mode. destruct (gen_decoys false n (map it_id its) t1) as [[ds t2]| | |]; cbn [bind]; try reflexivity.
  rewrite IH. reflexivity.
Qed.

Lemma prepare_build_mode q t : prepare true q t = prepare false q t.
Proof.
  unfold prepare, to_issuer_namespaces. rewrite make_namespaces_build_mode.
  destruct (match q_auth q with Some a => double_authorized a | None => None end); [reflexivity|].
  destruct (make_namespaces false (q_namespaces q) t) as [[out t0]| | |]; cbn [bind]; try reflexivity.
  destruct out; [reflexivity|]. cbn [bind]. rewrite digest_namespaces_build_mode. reflexivity.
Qed.

Lemma issue_build_mode q t x5 sign : issue true q t x5 sign = issue false q t x5 sign.
Proof. unfold issue. rewrite prepare_build_mode. reflexivity. Qed.
