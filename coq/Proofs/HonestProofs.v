From Isomdl Require Import Lib.Bytes Model.Iv Model.Session Model.Honest Proofs.IvProofs Proofs.ChannelProofs Proofs.DeviceSMProofs.
Open Scope N_scope.

(* at round boundaries the two sides agree on keys and counters and the device awaits a request *)
Definition synced (s : sys) : Prop :=
  d_kr (s_dev s) = r_kr (s_rdr s) /\ d_kd (s_dev s) = r_kd (s_rdr s) /\
  d_recv (s_dev s) = r_send (s_rdr s) /\ d_send (s_dev s) = r_recv (s_rdr s) /\
  d_state (s_dev s) = Awaiting.

Lemma pop_nonempty {A} (l : list A) : l <> [] -> exists rest x, pop_last l = Some (rest, x) /\ l = rest ++ [x].
Proof.
  intro H. pose proof (pop_last_spec l) as Hp. destruct (pop_last l) as [[rest x]|].
  - exists rest, x. split; [reflexivity|tauto].
  - contradiction.
Qed.

Lemma pop_last_snoc {A} (rest : list A) x : pop_last (rest ++ [x]) = Some (rest, x).
Proof.
  induction rest as [|a rest IH]; [reflexivity|].
  change ((a :: rest) ++ [x]) with (a :: (rest ++ [x])).
  destruct (rest ++ [x]) as [|b l] eqn:E; [destruct rest; discriminate|].
  cbn [pop_last] in *. rewrite IH. reflexivity.
Qed.

Lemma submit_step d p sg rest id pay :
  d_state d = Signing p -> pr_prepared p = rest ++ [(id, pay)] ->
  dev_submit d sg =
  dev_finalize (set_state d (Signing {| pr_prepared := rest; pr_signed := pr_signed p ++ [(id, sg)];
                                        pr_doc_errors := pr_doc_errors p; pr_status := pr_status p |})).
Proof. intros Hs Hp. unfold dev_submit. rewrite Hs, Hp, pop_last_snoc. reflexivity. Qed.

Definition fold_submit (sigs : list bytes) (acc : dev * list emission) : dev * list emission :=
  fold_left (fun acc sg => let '(d', em) := dev_submit (fst acc) sg in (d', snd acc ++ em)) sigs acc.

Lemma submit_all_signing_gen : forall sigs d p em0,
  d_state d = Signing p -> length sigs = length (pr_prepared p) -> pr_prepared p <> [] ->
  let d' := fst (fold_submit sigs (d, em0)) in
  d_kr d' = d_kr d /\ d_kd d' = d_kd d /\ d_recv d' = d_recv d /\ d_send d' = incr (d_send d) /\
  d_state d' = Ready (WData (Enc (d_kd d) (iv Device (incr (d_send d)))
                      (PResponse {| rs_status := pr_status p;
                                    rs_docs := pr_signed p ++ combine (map fst (rev (pr_prepared p))) sigs;
                                    rs_doc_errors := pr_doc_errors p |}))).
Proof.
  induction sigs as [|sg sigs IH]; intros d p em0 Hs Hl Hne.
  - destruct (pr_prepared p); [contradiction|discriminate].
  - destruct (pop_nonempty (pr_prepared p) Hne) as [rest [[id pay] [_ Hprep]]].
    unfold fold_submit. cbn [fold_left fst snd]. rewrite (submit_step d p sg rest id pay Hs Hprep).
    destruct rest as [|x rest'].
    + (* last document: the response is finalised *)
      assert (sigs = []) as ->.
      { rewrite Hprep in Hl. cbn in Hl. destruct sigs; [reflexivity|discriminate]. }
      unfold dev_finalize, next_iv. cbn [set_state d_state pr_prepared fold_left fst snd d_kr d_kd d_send d_recv finalize pr_signed pr_status pr_doc_errors].
      rewrite Hprep. cbn [app rev map combine fst]. repeat split; reflexivity.
    + (* more documents to sign *)
      unfold dev_finalize. cbn [set_state d_state pr_prepared].
      set (p1 := {| pr_prepared := x :: rest'; pr_signed := pr_signed p ++ [(id, sg)];
                    pr_doc_errors := pr_doc_errors p; pr_status := pr_status p |}).
      set (d1 := {| d_kr := d_kr d; d_kd := d_kd d; d_send := d_send d; d_recv := d_recv d; d_state := Signing p1 |}).
      assert (Hl' : length sigs = length (pr_prepared p1)).
      { rewrite Hprep, app_length in Hl. cbn in Hl. cbn. lia. }
      pose proof (IH d1 p1 (em0 ++ []) eq_refl Hl' ltac:(discriminate)) as H. cbv zeta in H.
      unfold fold_submit in H. destruct H as [I1 [I2 [I3 [I4 I5]]]].
      cbv zeta. split; [exact I1|]. split; [exact I2|]. split; [exact I3|]. split; [exact I4|].
      etransitivity; [exact I5|].
      cbn [d_kd d_send d1 p1 pr_status pr_signed pr_prepared pr_doc_errors].
      rewrite Hprep, rev_app_distr. cbn [rev app map combine fst]. rewrite <- app_assoc. reflexivity.
Qed.

Lemma submit_all_eq d sigs : submit_all d sigs = fold_submit sigs (d, []).
Proof. reflexivity. Qed.

Theorem honest_round_ok s r :
  synced s -> r_send (s_rdr s) + 1 < two32 -> d_send (s_dev s) + 1 < two32 ->
  length (rn_sigs r) = length (rn_docs r) ->
  let '(s', o, _) := honest_round s r in
  synced s' /\
  ro_request o = RoRequest (rn_req r) /\ ro_ready o = true /\ ro_response o = RsResponse (expected_response r) /\
  r_send (s_rdr s') = r_send (s_rdr s) + 1 /\ d_send (s_dev s') = d_send (s_dev s) + 1.
Proof.
  intros [Hkr [Hkd [Hrecv [Hsend Hst]]]] Hb1 Hb2 Hlen.
  unfold honest_round, rdr_new_request, next_iv.
  destruct s as [d rd]. cbn [s_dev s_rdr] in *.
  (* the device receives the reader's request *)
  unfold dev_handle_request, next_iv. rewrite Hrecv, Hkr, decrypt_enc.
  set (d1 := {| d_kr := d_kr d; d_kd := d_kd d; d_send := d_send d; d_recv := incr (r_send rd); d_state := d_state d |}).
  (* prepare *)
  unfold dev_prepare.
  set (p0 := {| pr_prepared := rn_docs r; pr_signed := []; pr_doc_errors := rn_errs r; pr_status := status_ok |}).
  destruct (rn_docs r) as [|doc docs] eqn:Edocs.
  - (* nothing to sign: ready at once *)
    assert (rn_sigs r = []) as Hsig by (destruct (rn_sigs r); [reflexivity|discriminate]).
    unfold dev_finalize. cbn [set_state d_state pr_prepared p0]. unfold next_iv.
    rewrite Hsig. unfold submit_all. cbn [fold_left fst snd].
    unfold dev_ready, dev_retrieve. cbn [d_state set_state d_kr d_kd d_send d_recv d1].
    unfold rdr_handle_response, next_iv. cbn [r_kd r_recv r_kr r_send].
    rewrite <- Hkd, <- Hsend, decrypt_enc.
    cbn [s_dev s_rdr ro_request ro_ready ro_response d_kr d_kd d_send d_recv d_state r_kr r_kd r_send r_recv].
    unfold synced. cbn [s_dev s_rdr d_kr d_kd d_send d_recv d_state r_kr r_kd r_send r_recv].
    rewrite !incr_small by assumption.
    repeat split; try assumption; try reflexivity.
    unfold expected_response, finalize. rewrite Edocs, Hsig. reflexivity.
  - (* documents to sign *)
    unfold dev_finalize at 1. cbn [set_state d_state pr_prepared p0].
    rewrite submit_all_eq.
    match goal with |- context [fold_submit ?sg (?dd, [])] =>
      pose proof (submit_all_signing_gen sg dd p0 [] eq_refl) as H;
      cbn [pr_prepared p0] in H; specialize (H Hlen ltac:(discriminate)); cbv zeta in H;
      destruct (fold_submit sg (dd, [])) as [d3 em4]
    end.
    cbn [fst d_kr d_kd d_send d_recv] in H.
    destruct H as [I1 [I2 [I3 [I4 I5]]]].
    cbv beta iota zeta.
    unfold dev_ready, dev_retrieve. rewrite I5.
    unfold rdr_handle_response, next_iv. cbn [r_kd r_recv r_kr r_send].
    rewrite <- Hkd, <- Hsend, decrypt_enc.
    cbn [s_dev s_rdr ro_request ro_ready ro_response set_state d_kr d_kd d_send d_recv d_state r_kr r_kd r_send r_recv].
    unfold synced. cbn [s_dev s_rdr set_state d_kr d_kd d_send d_recv d_state r_kr r_kd r_send r_recv].
    rewrite I1, I2, I3, I4. rewrite !incr_small by assumption.
    repeat split; try assumption; try reflexivity.
    unfold expected_response. rewrite Edocs. reflexivity.
Qed.

(* every round of an honest session, however many, delivers: the request reaches the holder, the
   response becomes ready, the reader decrypts exactly the response that was prepared *)
Theorem honest_run_ok : forall rounds s,
  synced s ->
  r_send (s_rdr s) + N.of_nat (length rounds) < two32 -> d_send (s_dev s) + N.of_nat (length rounds) < two32 ->
  Forall (fun r => length (rn_sigs r) = length (rn_docs r)) rounds ->
  let '(s', os, _) := honest_run rounds s in
  synced s' /\
  Forall2 (fun r o => ro_request o = RoRequest (rn_req r) /\ ro_ready o = true /\ ro_response o = RsResponse (expected_response r)) rounds os.
Proof.
  induction rounds as [|r rounds IH]; intros s Hs Hb1 Hb2 Hl; cbn [honest_run].
  - split; [exact Hs|constructor].
  - inversion Hl as [|? ? Hr Hl']; subst. cbn [length] in Hb1, Hb2.
    pose proof (honest_round_ok s r Hs ltac:(lia) ltac:(lia) Hr) as H.
    destruct (honest_round s r) as [[s1 o] em]. destruct H as [Hs1 [H1 [H2 [H3 [H4 H5]]]]].
    specialize (IH s1 Hs1). rewrite H4, H5 in IH. specialize (IH ltac:(lia) ltac:(lia) Hl').
    destruct (honest_run rounds s1) as [[s2 os] ems]. destruct IH as [Hs2 Hf].
    split; [exact Hs2|]. constructor; [repeat split; assumption|exact Hf].
Qed.

Lemma fresh_synced kr kd : synced (fresh kr kd).
Proof. repeat split; reflexivity. Qed.
