(* C01: the model's prediction of what the reader reports (selection, then rendering of the first
   prepared mDL document) equals the specification's independent computation (filter the held
   elements of the mDL by requested && permitted, render, sorted insert) — for all held documents,
   requests and permitted maps.  The hypotheses are the map invariants of the Rust types; each of
   them is shown necessary by a counterexample at the end of the file. *)
From Isomdl Require Import Lib.Bytes Lib.Cbor Model.Select Model.Render Spec.SelectSpec Spec.SelectCheck
  Proofs.SelectProofs Proofs.C01Proofs Api.C01.
From Coq Require Import Sorted.
Open Scope N_scope.

(* ------------------------------------------------------------------------------------------ *)
(** * Hypotheses: the maps are maps *)

Definition keys_distinct {V} (l : list (key * V)) : Prop := NoDup (map fst l).

(* permitted : BTreeMap<DocType, BTreeMap<Namespace, Vec<Id>>> — element lists are arbitrary *)
Definition perm_wf (perm : permitted) : Prop :=
  keys_distinct perm /\ forall dt nss, In (dt, nss) perm -> keys_distinct nss.

(* request : Vec<ItemsRequest>, docTypes may repeat; ItemsRequest.namespaces : NonEmptyMap<Namespace, _> *)
Definition req_wf (req : request) : Prop :=
  forall dt nss, In (dt, nss) req -> keys_distinct nss.

(* the held mDL: in each namespace that a lookup finds, the items are keyed by their own identifier
   (From<Mdoc> for Document keys the BTreeMap by element_identifier) *)
Definition docs_wf (docs : list (key * document vitem)) : Prop :=
  forall d ns items, aget mdl docs = Some d -> aget ns (d_ns d) = Some items ->
    keys_distinct items /\ forall id it, In (id, it) items -> fst it = id.

(* the held mDL (if any) has a device key with a signature algorithm *)
Definition mdl_can_sign (docs : list (key * document vitem)) : Prop :=
  forall d, aget mdl docs = Some d -> d_can_sign d = true.

(* boolean checkers, for examples *)
Fixpoint nodup_keys (l : list key) : bool :=
  match l with [] => true | k :: r => negb (mem k r) && nodup_keys r end.

Definition perm_wf_b (perm : permitted) : bool :=
  nodup_keys (map fst perm) && forallb (fun e => nodup_keys (map fst (snd e))) perm.
Definition req_wf_b (req : request) : bool :=
  forallb (fun e => nodup_keys (map fst (snd e))) req.
Definition docs_wf_b (docs : list (key * document vitem)) : bool :=
  match aget mdl docs with
  | Some d => forallb (fun ne => nodup_keys (map fst (snd ne)) &&
                                 forallb (fun kit => bytes_eqb (fst (snd kit)) (fst kit)) (snd ne)) (d_ns d)
  | None => true
  end.
Definition mdl_can_sign_b (docs : list (key * document vitem)) : bool :=
  match aget mdl docs with Some d => d_can_sign d | None => true end.
Definition wf_b (docs : list (key * document vitem)) (req : request) (perm : permitted) : bool :=
  perm_wf_b perm && req_wf_b req && docs_wf_b docs && mdl_can_sign_b docs.

(* ------------------------------------------------------------------------------------------ *)
(** * Byte-string order (as in HoldersProofs / C19Struct) *)

Lemma bytes_ltb_irrefl a : bytes_ltb a a = false.
Proof.
  induction a as [|x a IH]; cbn [bytes_ltb]; [reflexivity|].
  replace (x <? x) with false by (symmetry; apply N.ltb_irrefl). exact IH.
Qed.

Lemma bytes_ltb_asym a : forall b, bytes_ltb a b = true -> bytes_ltb b a = false.
Proof.
  induction a as [|x a IH]; intros [|y b]; cbn [bytes_ltb]; try discriminate; try reflexivity.
  destruct (N.ltb_spec x y), (N.ltb_spec y x); try lia; try discriminate; try reflexivity; try apply IH.
Qed.

Lemma bytes_ltb_trans a : forall c d, bytes_ltb a c = true -> bytes_ltb c d = true -> bytes_ltb a d = true.
Proof.
  induction a as [|x a IH]; intros [|y c] [|z d]; cbn [bytes_ltb]; try discriminate; try reflexivity.
  destruct (N.ltb_spec x y), (N.ltb_spec y x), (N.ltb_spec y z), (N.ltb_spec z y), (N.ltb_spec x z), (N.ltb_spec z x);
    try lia; try discriminate; try reflexivity; try apply IH.
Qed.

Lemma bytes_trichotomy a : forall c, bytes_ltb a c = false -> bytes_eqb a c = false -> bytes_ltb c a = true.
Proof.
  induction a as [|x a IH]; intros [|y c]; cbn [bytes_ltb bytes_eqb]; try discriminate; try reflexivity.
  destruct (N.ltb_spec x y), (N.ltb_spec y x), (N.eqb_spec x y); try lia; try discriminate; try reflexivity;
  try (cbn [andb]; apply IH).
Qed.

Lemma bytes_eqb_sym a b : bytes_eqb a b = bytes_eqb b a.
Proof.
  destruct (bytes_eqb a b) eqn:E1, (bytes_eqb b a) eqn:E2; try reflexivity.
  - apply bytes_eqb_eq in E1. subst. rewrite bytes_eqb_refl in E2. discriminate.
  - apply bytes_eqb_eq in E2. subst. rewrite bytes_eqb_refl in E1. discriminate.
Qed.

(* ------------------------------------------------------------------------------------------ *)
(** * Canonical form of a rendered namespace *)

Definition klt (a b : bytes * cbor) : Prop := bytes_ltb (fst a) (fst b) = true.
Definition sorted : list (bytes * cbor) -> Prop := StronglySorted klt.

Lemma obj_insert_sorted k v l : sorted l -> sorted (obj_insert k v l).
Proof.
  induction l as [|[k0 v0] r IH]; intro Hs; cbn [obj_insert].
  - constructor; constructor.
  - inversion Hs as [|a l' Hr Hf]; subst.
    destruct (bytes_eqb k k0) eqn:E.
    + apply bytes_eqb_eq in E. subst k0. constructor; [exact Hr|].
      eapply Forall_impl; [|exact Hf]. intros a Ha. exact Ha.
    + destruct (bytes_ltb k k0) eqn:L.
      * constructor; [exact Hs|]. constructor; [exact L|].
        eapply Forall_impl; [|exact Hf]. intros a Ha. unfold klt in *. cbn [fst] in *.
        eapply bytes_ltb_trans; eassumption.
      * constructor; [apply IH; exact Hr|]. apply Forall_forall. intros [k' v'] Hin.
        apply obj_insert_in in Hin as [[-> ->]|Hin].
        -- unfold klt. cbn [fst]. apply bytes_trichotomy; assumption.
        -- rewrite Forall_forall in Hf. apply Hf. exact Hin.
Qed.

Lemma rendered_fold_sorted items : forall acc, sorted acc ->
  sorted (fold_left (fun acc it => match render (snd it) with Some v => obj_insert (fst it) v acc | None => acc end) items acc).
Proof.
  induction items as [|it items IH]; intros acc Hs; cbn [fold_left]; [exact Hs|].
  apply IH. destruct (render (snd it)); [apply obj_insert_sorted|]; exact Hs.
Qed.

Lemma rendered_items_sorted items : sorted (rendered_items items).
Proof. apply rendered_fold_sorted. constructor. Qed.

(* two strictly sorted association lists with the same members are equal *)
Lemma sorted_ext l1 : forall l2, sorted l1 -> sorted l2 -> (forall x, In x l1 <-> In x l2) -> l1 = l2.
Proof.
  induction l1 as [|a r1 IH]; intros [|b r2] H1 H2 Hm.
  - reflexivity.
  - exfalso. apply (proj2 (Hm b)). left. reflexivity.
  - exfalso. apply (proj1 (Hm a)). left. reflexivity.
  - inversion H1 as [|? ? Hs1 Hf1]; inversion H2 as [|? ? Hs2 Hf2]; subst.
    rewrite Forall_forall in Hf1, Hf2.
    assert (Hab : a = b).
    { destruct (proj1 (Hm a) (or_introl eq_refl)) as [E|Hin]; [symmetry; exact E|].
      destruct (proj2 (Hm b) (or_introl eq_refl)) as [E|Hin']; [exact E|]. exfalso.
      pose proof (Hf2 _ Hin) as L1. pose proof (Hf1 _ Hin') as L2. unfold klt in L1, L2.
      rewrite (bytes_ltb_asym _ _ L1) in L2. discriminate. }
    subst b. f_equal. apply IH; try assumption. intro x. split; intro Hx.
    + destruct (proj1 (Hm x) (or_intror Hx)) as [E|Hin]; [|exact Hin]. subst x. exfalso.
      pose proof (Hf1 _ Hx) as L. unfold klt in L. rewrite bytes_ltb_irrefl in L. discriminate.
    + destruct (proj2 (Hm x) (or_intror Hx)) as [E|Hin]; [|exact Hin]. subst x. exfalso.
      pose proof (Hf2 _ Hx) as L. unfold klt in L. rewrite bytes_ltb_irrefl in L. discriminate.
Qed.

(* an identifier always comes with the same value *)
Definition functional (l : list (bytes * cbor)) : Prop := forall k x y, In (k, x) l -> In (k, y) l -> x = y.

(* exactly the renderings of the items, when the items are functional *)
Lemma rendered_items_in items k v : functional items ->
  (In (k, v) (rendered_items items) <-> exists x, In (k, x) items /\ render x = Some v).
Proof.
  intro Hfun. split; [apply rendered_sound|]. intros [x [Hx Hr]].
  destruct (rendered_complete items k x Hx) as [v' Hv']; [congruence|].
  destruct (rendered_sound _ _ _ Hv') as [x' [Hx' Hr']].
  rewrite (Hfun k x x' Hx Hx') in Hr. rewrite Hr in Hr'. inversion Hr'; subst. exact Hv'.
Qed.

(* the rendered namespace depends only on the SET of disclosed items (order and repetitions of a
   functional list are irrelevant) *)
Theorem rendered_items_ext l1 l2 : functional l1 -> (forall it, In it l1 <-> In it l2) ->
  rendered_items l1 = rendered_items l2.
Proof.
  intros Hf1 Hm.
  assert (Hf2 : functional l2).
  { intros k x y Hx Hy. apply (Hf1 k); apply Hm; assumption. }
  apply sorted_ext; try apply rendered_items_sorted. intros [k v].
  rewrite (rendered_items_in l1 k v Hf1), (rendered_items_in l2 k v Hf2).
  split; intros [x [Hx Hr]]; exists x; (split; [apply Hm; exact Hx|exact Hr]).
Qed.

(* ------------------------------------------------------------------------------------------ *)
(** * Association lists with distinct keys *)

Lemma aget_in {V} k (l : list (key * V)) v : aget k l = Some v -> In (k, v) l.
Proof.
  induction l as [|[k' v'] r IH]; cbn [aget]; [discriminate|].
  destruct (bytes_eqb k k') eqn:E.
  - apply bytes_eqb_eq in E. subst k'. intro H. inversion H; subst. left. reflexivity.
  - intro H. right. apply IH. exact H.
Qed.

Lemma aget_none {V} k (l : list (key * V)) : ~ In k (map fst l) -> aget k l = None.
Proof.
  induction l as [|[k' v'] r IH]; cbn [aget map fst]; [reflexivity|]. intro Hn.
  destruct (bytes_eqb k k') eqn:E.
  - apply bytes_eqb_eq in E. subst k'. exfalso. apply Hn. left. reflexivity.
  - apply IH. intro H. apply Hn. right. exact H.
Qed.

Lemma in_aget {V} k (l : list (key * V)) v : keys_distinct l -> In (k, v) l -> aget k l = Some v.
Proof.
  unfold keys_distinct. induction l as [|[k' v'] r IH]; cbn [aget map fst]; intros Hnd Hin; [destruct Hin|].
  inversion Hnd as [|? ? Hni Hnd']; subst. destruct Hin as [Hin|Hin].
  - inversion Hin; subst. rewrite bytes_eqb_refl. reflexivity.
  - destruct (bytes_eqb k k') eqn:E.
    + apply bytes_eqb_eq in E. subst k'. exfalso. apply Hni. apply (in_map fst) in Hin. exact Hin.
    + apply IH; assumption.
Qed.

Lemma existsb_keyed {V} (p : V -> bool) k (l : list (key * V)) : keys_distinct l ->
  existsb (fun e => bytes_eqb (fst e) k && p (snd e)) l = match aget k l with Some v => p v | None => false end.
Proof.
  unfold keys_distinct. induction l as [|[k' v] r IH]; intro Hnd; cbn [existsb aget fst snd map]; [reflexivity|].
  cbn [map fst] in Hnd. inversion Hnd as [|? ? Hni Hnd']; subst.
  rewrite (bytes_eqb_sym k' k). destruct (bytes_eqb k k') eqn:E; cbn [andb orb].
  - apply bytes_eqb_eq in E. subst k'. rewrite (IH Hnd'), (aget_none k r Hni). apply orb_false_r.
  - apply IH. exact Hnd'.
Qed.

(* flat_map of a function that keeps at most one binding per key, under the same key *)
Lemma flat_map_keys {V W} (f : key * V -> list (key * W)) (g : key -> V -> option W) l k :
  (forall k v, f (k, v) = match g k v with Some w => [(k, w)] | None => [] end) ->
  In k (map fst (flat_map f l)) -> In k (map fst l).
Proof.
  intro Hf. induction l as [|[k' v] r IH]; cbn [flat_map map fst]; [intros []|].
  rewrite map_app, in_app_iff, Hf. destruct (g k' v); cbn [map fst In].
  - intros [[<-|[]]|H]; [left; reflexivity|right; apply IH; exact H].
  - intros [[]|H]. right. apply IH. exact H.
Qed.

Lemma flat_map_distinct {V W} (f : key * V -> list (key * W)) (g : key -> V -> option W) l :
  (forall k v, f (k, v) = match g k v with Some w => [(k, w)] | None => [] end) ->
  keys_distinct l -> keys_distinct (flat_map f l).
Proof.
  unfold keys_distinct. intro Hf. induction l as [|[k' v] r IH]; cbn [flat_map map fst]; intro Hnd; [constructor|].
  inversion Hnd as [|? ? Hni Hnd']; subst. rewrite map_app, Hf. destruct (g k' v); cbn [map fst app].
  - constructor; [|apply IH; exact Hnd']. intro H. apply Hni. eapply flat_map_keys; [exact Hf|exact H].
  - apply IH. exact Hnd'.
Qed.

Lemma aget_flat_map {V W} (f : key * V -> list (key * W)) (g : key -> V -> option W) l k :
  (forall k v, f (k, v) = match g k v with Some w => [(k, w)] | None => [] end) ->
  keys_distinct l ->
  aget k (flat_map f l) = match aget k l with Some v => g k v | None => None end.
Proof.
  unfold keys_distinct. intro Hf. induction l as [|[k' v] r IH]; intro Hnd; cbn [flat_map aget map fst]; [reflexivity|].
  cbn [map fst] in Hnd. inversion Hnd as [|? ? Hni Hnd']; subst. rewrite Hf.
  destruct (bytes_eqb k k') eqn:E.
  - apply bytes_eqb_eq in E. subst k'. destruct (g k v) as [w|]; cbn [app aget].
    + rewrite bytes_eqb_refl. reflexivity.
    + apply aget_none. intro H. apply Hni. eapply flat_map_keys; [exact Hf|exact H].
  - destruct (g k' v); cbn [app aget]; [rewrite E|]; apply IH; exact Hnd'.
Qed.

Lemma filter_false {X} (p : X -> bool) l : (forall x, In x l -> p x = false) -> filter p l = [].
Proof.
  induction l as [|x l IH]; intro H; cbn [filter]; [reflexivity|].
  rewrite (H x (or_introl eq_refl)). apply IH. intros y Hy. apply H. right. exact Hy.
Qed.

(* ------------------------------------------------------------------------------------------ *)
(** * The selection, as lookups *)

Lemma aget_filter_permitted req perm dt : keys_distinct perm ->
  aget dt (filter_permitted req perm) =
  match aget dt perm with
  | Some nss => match entries_of dt req with [] => None | es => Some (filter_ns es nss) end
  | None => None
  end.
Proof.
  intro Hnd. unfold filter_permitted.
  apply (aget_flat_map _ (fun dt nss => match entries_of dt req with [] => None | es => Some (filter_ns es nss) end)); [|exact Hnd].
  intros k v. destruct (entries_of k req); reflexivity.
Qed.

Lemma filter_ns_spec es :
  forall k v, (fun ne : key * list key => let '(ns, elems) := ne in
                 match req_elems_of ns es with
                 | [] => []
                 | res => [(ns, filter (fun e => existsb (mem e) res) elems)]
                 end) (k, v) =
              match (match req_elems_of k es with [] => None | res => Some (filter (fun e => existsb (mem e) res) v) end) with
              | Some w => [(k, w)] | None => [] end.
Proof. intros k v. cbn beta iota. destruct (req_elems_of k es); reflexivity. Qed.

Lemma aget_filter_ns es nss ns : keys_distinct nss ->
  aget ns (filter_ns es nss) =
  match aget ns nss with
  | Some elems => match req_elems_of ns es with [] => None | res => Some (filter (fun e => existsb (mem e) res) elems) end
  | None => None
  end.
Proof.
  intro Hnd. unfold filter_ns.
  apply (aget_flat_map _ (fun ns elems => match req_elems_of ns es with [] => None | res => Some (filter (fun e => existsb (mem e) res) elems) end)); [|exact Hnd].
  apply filter_ns_spec.
Qed.

Lemma filter_ns_distinct es nss : keys_distinct nss -> keys_distinct (filter_ns es nss).
Proof.
  intro Hnd. unfold filter_ns.
  apply (flat_map_distinct _ (fun ns elems => match req_elems_of ns es with [] => None | res => Some (filter (fun e => existsb (mem e) res) elems) end)); [|exact Hnd].
  apply filter_ns_spec.
Qed.

Definition ne_opt {X} (l : list X) : option (list X) := match l with [] => None | _ => Some l end.

Lemma aget_select_doc {A} (d : document A) dt fn ns : keys_distinct fn ->
  aget ns (pd_disclosed (select_doc d dt fn)) =
  match aget ns fn with
  | Some elems => match aget ns (d_ns d) with Some items => ne_opt (pick items elems) | None => None end
  | None => None
  end.
Proof.
  intro Hnd. cbn [select_doc pd_disclosed].
  apply (aget_flat_map _ (fun ns elems => match aget ns (d_ns d) with Some items => ne_opt (pick items elems) | None => None end)); [|exact Hnd].
  intros k v. unfold ne_opt. destruct (aget k (d_ns d)) as [items|]; [|reflexivity]. destruct (pick items v); reflexivity.
Qed.

(* the first prepared document of a docType: the held document, if it can sign, selected with the
   first entry of the filtered map for that docType *)
Lemma find_select_all {A} (docs : list (key * document A)) dt0 f :
  find (fun pd => bytes_eqb (pd_doc_type pd) dt0) (sel_docs (select_all docs f)) =
  match aget dt0 docs with
  | Some d => if d_can_sign d then match aget dt0 f with Some nss => Some (select_doc d dt0 nss) | None => None end else None
  | None => None
  end.
Proof.
  induction f as [|[dt nss] rest IH]; cbn [select_all aget].
  - cbn [sel_docs find]. destruct (aget dt0 docs) as [d|]; [destruct (d_can_sign d)|]; reflexivity.
  - destruct (aget dt docs) as [d'|] eqn:Ed.
    + destruct (d_can_sign d') eqn:Ec; cbn [sel_docs find].
      * cbn [select_doc pd_doc_type]. rewrite (bytes_eqb_sym dt dt0). destruct (bytes_eqb dt0 dt) eqn:E.
        -- apply bytes_eqb_eq in E. subst dt. rewrite Ed, Ec. reflexivity.
        -- exact IH.
      * rewrite IH. destruct (bytes_eqb dt0 dt) eqn:E; [|reflexivity].
        apply bytes_eqb_eq in E. subst dt. rewrite Ed, Ec. reflexivity.
    + cbn [sel_docs]. rewrite IH. destruct (bytes_eqb dt0 dt) eqn:E; [|reflexivity].
      apply bytes_eqb_eq in E. subst dt. rewrite Ed. reflexivity.
Qed.

(* ------------------------------------------------------------------------------------------ *)
(** * The boolean specification predicates, as lookups *)

Lemma permitted_b_lookup perm dt ns id : perm_wf perm ->
  permitted_b perm dt ns id =
  match aget dt perm with
  | Some nss => match aget ns nss with Some ids => mem id ids | None => false end
  | None => false
  end.
Proof.
  intros [Hnd Hin]. unfold permitted_b.
  pose proof (existsb_keyed (fun nss : list (key * list key) => existsb (fun n => bytes_eqb (fst n) ns && mem id (snd n)) nss) dt perm Hnd) as H.
  cbn beta in H. etransitivity; [exact H|]. clear H.
  destruct (aget dt perm) as [nss|] eqn:E; [|reflexivity].
  apply (existsb_keyed (fun ids => mem id ids)). apply (Hin dt). apply aget_in. exact E.
Qed.

Lemma requested_any_b_iff req dt ns id : req_wf req ->
  (requested_any_b req dt ns id = true <-> requested req dt ns id).
Proof.
  intro Hwf. unfold requested_any_b. rewrite existsb_exists. split.
  - intros [[dt' nss] [Hin H]]. cbn [fst snd] in H. apply andb_prop in H as [Hd H].
    apply bytes_eqb_eq in Hd. subst dt'.
    rewrite (existsb_keyed (fun ids => mem id ids) ns nss (Hwf _ _ Hin)) in H.
    destruct (aget ns nss) as [ids|] eqn:E; [|discriminate]. exists nss, ids. repeat split; assumption.
  - intros [nss [ids [Hin [E Hm]]]]. exists (dt, nss). split; [exact Hin|]. cbn [fst snd].
    rewrite bytes_eqb_refl. cbn [andb].
    rewrite (existsb_keyed (fun ids => mem id ids) ns nss (Hwf _ _ Hin)), E. exact Hm.
Qed.

Lemma requested_any_b_lookup req dt ns id : req_wf req ->
  requested_any_b req dt ns id = existsb (mem id) (req_elems_of ns (entries_of dt req)).
Proof.
  intro Hwf. apply Bool.eq_iff_eq_true. rewrite (requested_any_b_iff req dt ns id Hwf), requested_filter. reflexivity.
Qed.

(* ------------------------------------------------------------------------------------------ *)
(** * One namespace: pick over the filtered permitted list = filter over the held items *)

Lemma pick_vs_filter (items : list (key * vitem)) elems (R : key -> bool) :
  keys_distinct items ->
  forall it, In it (pick items (filter R elems)) <->
             In it (map snd (filter (fun kit => R (fst kit) && mem (fst kit) elems) items)).
Proof.
  intros Hnd it. rewrite pick_in, in_map_iff. split.
  - intros [id [Hid Hget]]. apply filter_In in Hid as [Hid HR]. exists (id, it). split; [reflexivity|].
    apply filter_In. split; [apply aget_in; exact Hget|]. cbn [fst]. rewrite HR, (proj2 (mem_In id elems) Hid). reflexivity.
  - intros [[id it'] [E Hin]]. cbn [snd] in E. subst it'. apply filter_In in Hin as [Hin Hb]. cbn [fst] in Hb.
    apply andb_prop in Hb as [HR Hm]. exists id. split.
    + apply filter_In. split; [apply mem_In; exact Hm|exact HR].
    + apply in_aget; assumption.
Qed.

Lemma picked_functional (items : list (key * vitem)) elems :
  (forall id it, In (id, it) items -> fst it = id) -> functional (pick items elems).
Proof.
  intros Hid k x y Hx Hy.
  apply pick_in in Hx as [i1 [_ G1]]. apply pick_in in Hy as [i2 [_ G2]].
  pose proof (Hid _ _ (aget_in _ _ _ G1)) as E1. pose proof (Hid _ _ (aget_in _ _ _ G2)) as E2.
  cbn [fst] in E1, E2. subst i1 i2. rewrite G1 in G2. inversion G2. reflexivity.
Qed.

(* the specification's fold over (key, item) pairs is the rendering of the items *)
Lemma spec_fold_rendered (chosen : list (key * vitem)) :
  (forall id it, In (id, it) chosen -> fst it = id) ->
  forall acc,
  fold_left (fun acc (it : key * vitem) => match render (snd (snd it)) with Some v => obj_insert (fst it) v acc | None => acc end) chosen acc =
  fold_left (fun acc (it : bytes * cbor) => match render (snd it) with Some v => obj_insert (fst it) v acc | None => acc end) (map snd chosen) acc.
Proof.
  induction chosen as [|[id it] r IH]; intros Hid acc; cbn [fold_left map fst snd]; [reflexivity|].
  rewrite (Hid id it (or_introl eq_refl)). apply IH. intros id' it' H. apply Hid. right. exact H.
Qed.

Lemma namespace_core (items : list (key * vitem)) elems (R : key -> bool) :
  keys_distinct items -> (forall id it, In (id, it) items -> fst it = id) ->
  option_map rendered_items (ne_opt (pick items (filter R elems))) =
  let chosen := filter (fun kit => R (fst kit) && mem (fst kit) elems) items in
  match chosen with
  | [] => None
  | _ => Some (fold_left (fun acc (it : key * vitem) => match render (snd (snd it)) with Some v => obj_insert (fst it) v acc | None => acc end) chosen [])
  end.
Proof.
  intros Hnd Hid.
  pose proof (pick_vs_filter items elems R Hnd) as Hm.
  pose proof (picked_functional items (filter R elems) Hid) as Hfun.
  assert (Hc : forall id it, In (id, it) (filter (fun kit => R (fst kit) && mem (fst kit) elems) items) -> fst it = id).
  { intros id it H. apply filter_In in H as [H _]. apply Hid. exact H. }
  pose proof (spec_fold_rendered _ Hc []) as Hfold. cbv zeta.
  set (sel := pick items (filter R elems)) in *.
  set (chosen := filter (fun kit => R (fst kit) && mem (fst kit) elems) items) in *.
  destruct chosen as [|c cs] eqn:Ec.
  - destruct sel as [|s ss]; [reflexivity|]. exfalso. apply (proj1 (Hm s)). left. reflexivity.
  - destruct sel as [|s ss] eqn:Es.
    + exfalso. apply (proj2 (Hm (snd c))). left. reflexivity.
    + cbn [ne_opt option_map]. f_equal. rewrite Hfold. apply rendered_items_ext; assumption.
Qed.

(* ------------------------------------------------------------------------------------------ *)
(** * Per namespace: the first prepared mDL document discloses exactly the specification's choice *)

Definition model_namespace (docs : list (key * document vitem)) (req : request) (perm : permitted) (ns : bytes) : option (list vitem) :=
  match find (fun pd => bytes_eqb (pd_doc_type pd) mdl) (sel_docs (prepare_response docs req perm)) with
  | Some pd => aget ns (pd_disclosed pd)
  | None => None
  end.

Lemma model_namespace_lookup docs req perm ns : perm_wf perm -> mdl_can_sign docs ->
  model_namespace docs req perm ns =
  match aget mdl docs with
  | Some d =>
    match aget mdl perm with
    | Some nss =>
      match aget ns nss with
      | Some elems =>
        match aget ns (d_ns d) with
        | Some items => ne_opt (pick items (filter (fun e => existsb (mem e) (req_elems_of ns (entries_of mdl req))) elems))
        | None => None
        end
      | None => None
      end
    | None => None
    end
  | None => None
  end.
Proof.
  intros [Hnd Hns] Hcs. unfold model_namespace, prepare_response. rewrite find_select_all.
  destruct (aget mdl docs) as [d|] eqn:Ed; [|reflexivity]. rewrite (Hcs d Ed).
  rewrite (aget_filter_permitted req perm mdl Hnd).
  destruct (aget mdl perm) as [nss|] eqn:Ep; [|reflexivity].
  assert (Hnss : keys_distinct nss) by (apply (Hns mdl), aget_in; exact Ep).
  destruct (entries_of mdl req) as [|e es] eqn:Ee.
  - destruct (aget ns nss) as [elems|]; [|reflexivity]. destruct (aget ns (d_ns d)) as [items|]; [|reflexivity].
    cbn [req_elems_of flat_map]. rewrite filter_false; [reflexivity|]. intros x _. reflexivity.
  - rewrite <- Ee. rewrite (aget_select_doc d mdl _ ns (filter_ns_distinct _ _ Hnss)).
    rewrite (aget_filter_ns _ nss ns Hnss).
    destruct (aget ns nss) as [elems|]; [|reflexivity].
    destruct (req_elems_of ns (entries_of mdl req)) as [|r rs] eqn:Er.
    + destruct (aget ns (d_ns d)) as [items|]; [|reflexivity].
      rewrite filter_false; [reflexivity|]. intros x _. reflexivity.
    + reflexivity.
Qed.

Theorem namespace_exact docs req perm ns :
  perm_wf perm -> req_wf req -> docs_wf docs -> mdl_can_sign docs ->
  option_map rendered_items (model_namespace docs req perm ns) = spec_namespace docs req perm ns.
Proof.
  intros Hp Hr Hd Hcs. rewrite (model_namespace_lookup docs req perm ns Hp Hcs). unfold spec_namespace.
  destruct (aget mdl docs) as [d|] eqn:Ed; [|reflexivity].
  destruct (aget ns (d_ns d)) as [items|] eqn:Ei.
  2:{ destruct (aget mdl perm) as [nss|]; [|reflexivity]. destruct (aget ns nss); reflexivity. }
  destruct (Hd d ns items Ed Ei) as [Hnd Hid].
  destruct (aget mdl perm) as [nss|] eqn:Ep.
  - destruct (aget ns nss) as [elems|] eqn:En.
    + assert (Hext : forall a : key * vitem,
                requested_any_b req mdl ns (fst a) && permitted_b perm mdl ns (fst a) =
                existsb (mem (fst a)) (req_elems_of ns (entries_of mdl req)) && mem (fst a) elems).
      { intro a. rewrite (requested_any_b_lookup req mdl ns (fst a) Hr), (permitted_b_lookup perm mdl ns (fst a) Hp), Ep, En. reflexivity. }
      rewrite (filter_ext _ _ Hext).
      apply (namespace_core items elems (fun e => existsb (mem e) (req_elems_of ns (entries_of mdl req))) Hnd Hid).
    + rewrite filter_false; [reflexivity|]. intros x _.
      rewrite (permitted_b_lookup perm mdl ns (fst x) Hp), Ep, En. apply andb_false_r.
  - rewrite filter_false; [reflexivity|]. intros x _.
    rewrite (permitted_b_lookup perm mdl ns (fst x) Hp), Ep. apply andb_false_r.
Qed.

(* ------------------------------------------------------------------------------------------ *)
(** * The whole report *)

Lemma reported_alt nss :
  reported nss =
  match option_map rendered_items (aget ns_core nss) with
  | Some core =>
    Some (obj_to_cbor ((ns_core, obj_to_cbor core) ::
                       match option_map rendered_items (aget ns_aamva nss) with
                       | Some a => [(ns_aamva, obj_to_cbor a)]
                       | None => []
                       end))
  | None => None
  end.
Proof.
  unfold reported. destruct (aget ns_core nss) as [core|]; [|reflexivity].
  destruct (aget ns_aamva nss) as [a|]; reflexivity.
Qed.

Theorem report_exact : forall (docs : list (key * document vitem)) (req : request) (perm : permitted),
  perm_wf perm -> req_wf req -> docs_wf docs -> mdl_can_sign docs ->
  expected_report docs req perm = spec_report docs req perm.
Proof.
  intros docs req perm Hp Hr Hd Hcs. unfold spec_report.
  rewrite <- (namespace_exact docs req perm ns_core Hp Hr Hd Hcs).
  rewrite <- (namespace_exact docs req perm ns_aamva Hp Hr Hd Hcs).
  unfold expected_report, model_namespace.
  destruct (find (fun pd => bytes_eqb (pd_doc_type pd) mdl) (sel_docs (prepare_response docs req perm))) as [pd|]; [|reflexivity].
  exact (reported_alt (pd_disclosed pd)).
Qed.

(* ------------------------------------------------------------------------------------------ *)
(** * The boolean checker implies the hypotheses *)

Lemma nodup_keys_ok l : nodup_keys l = true -> NoDup l.
Proof.
  induction l as [|k r IH]; cbn [nodup_keys]; intro H; [constructor|].
  apply andb_prop in H as [Hm Hr]. constructor; [|apply IH; exact Hr].
  intro Hin. apply mem_In in Hin. rewrite Hin in Hm. discriminate.
Qed.

Lemma perm_wf_b_ok perm : perm_wf_b perm = true -> perm_wf perm.
Proof.
  unfold perm_wf_b. intro H. apply andb_prop in H as [H1 H2]. rewrite forallb_forall in H2.
  split; [apply nodup_keys_ok; exact H1|]. intros dt nss Hin. apply nodup_keys_ok. apply (H2 _ Hin).
Qed.

Lemma req_wf_b_ok req : req_wf_b req = true -> req_wf req.
Proof.
  unfold req_wf_b. intro H. rewrite forallb_forall in H. intros dt nss Hin. apply nodup_keys_ok. apply (H _ Hin).
Qed.

Lemma docs_wf_b_ok docs : docs_wf_b docs = true -> docs_wf docs.
Proof.
  unfold docs_wf_b. intros H d ns items Ed Ei. rewrite Ed in H.
  rewrite forallb_forall in H. apply aget_in in Ei. apply H in Ei. cbn [snd] in Ei.
  apply andb_prop in Ei as [H1 H2]. split; [apply nodup_keys_ok; exact H1|].
  intros id it Hin. rewrite forallb_forall in H2. apply H2 in Hin. cbn [fst snd] in Hin.
  apply bytes_eqb_eq. exact Hin.
Qed.

Lemma mdl_can_sign_b_ok docs : mdl_can_sign_b docs = true -> mdl_can_sign docs.
Proof. unfold mdl_can_sign_b. intros H d Ed. rewrite Ed in H. exact H. Qed.

Lemma wf_b_ok docs req perm : wf_b docs req perm = true ->
  perm_wf perm /\ req_wf req /\ docs_wf docs /\ mdl_can_sign docs.
Proof.
  unfold wf_b. intro H. apply andb_prop in H as [H H4]. apply andb_prop in H as [H H3].
  apply andb_prop in H as [H1 H2].
  split; [apply perm_wf_b_ok; exact H1|]. split; [apply req_wf_b_ok; exact H2|].
  split; [apply docs_wf_b_ok; exact H3|apply mdl_can_sign_b_ok; exact H4].
Qed.

(* ------------------------------------------------------------------------------------------ *)
(** * Every hypothesis is needed: the other ones hold, the conclusion fails *)

Definition id_a : bytes := [97].
Definition id_b : bytes := [98].

(* the two definitions differ on a held mDL whose device key has no signature algorithm: the
   device lists the docType as a document error (the reader has nothing to report), the
   specification's computation does not look at the device key *)
Example can_sign_needed :
  let docs := [(mdl, {| d_can_sign := false; d_ns := [(ns_core, [(id_a, (id_a, CUInt 1))])] |})] in
  let req : request := [(mdl, [(ns_core, [id_a])])] in
  let perm : permitted := [(mdl, [(ns_core, [id_a])])] in
  perm_wf perm /\ req_wf req /\ docs_wf docs /\
  expected_report docs req perm = None /\
  spec_report docs req perm = Some (obj_to_cbor [(ns_core, obj_to_cbor [(id_a, CUInt 1)])]).
Proof.
  intros docs req perm.
  split; [apply perm_wf_b_ok; vm_compute; reflexivity|]. split; [apply req_wf_b_ok; vm_compute; reflexivity|].
  split; [apply docs_wf_b_ok; vm_compute; reflexivity|]. vm_compute. split; reflexivity.
Qed.

(* a permitted "map" naming the mDL twice: the device answers with the first entry, the
   specification's permitted_b looks at all of them *)
Example perm_doc_types_distinct_needed :
  let docs := [(mdl, {| d_can_sign := true; d_ns := [(ns_core, [(id_a, (id_a, CUInt 1))])] |})] in
  let req : request := [(mdl, [(ns_core, [id_a])])] in
  let perm : permitted := [(mdl, [(ns_core, [])]); (mdl, [(ns_core, [id_a])])] in
  (forall dt nss, In (dt, nss) perm -> keys_distinct nss) /\ req_wf req /\ docs_wf docs /\ mdl_can_sign docs /\
  expected_report docs req perm <> spec_report docs req perm.
Proof.
  intros docs req perm.
  split. { intros dt nss [H|[H|[]]]; inversion H; subst; apply nodup_keys_ok; vm_compute; reflexivity. }
  split; [apply req_wf_b_ok; vm_compute; reflexivity|]. split; [apply docs_wf_b_ok; vm_compute; reflexivity|].
  split; [apply mdl_can_sign_b_ok; vm_compute; reflexivity|]. vm_compute. discriminate.
Qed.

(* a permitted entry naming a namespace twice: the reader takes the first disclosed binding of the
   namespace, the specification's permitted_b looks at all of them *)
Example perm_namespaces_distinct_needed :
  let docs := [(mdl, {| d_can_sign := true; d_ns := [(ns_core, [(id_a, (id_a, CUInt 1)); (id_b, (id_b, CUInt 2))])] |})] in
  let req : request := [(mdl, [(ns_core, [id_a; id_b])])] in
  let perm : permitted := [(mdl, [(ns_core, [id_a]); (ns_core, [id_b])])] in
  keys_distinct perm /\ req_wf req /\ docs_wf docs /\ mdl_can_sign docs /\
  expected_report docs req perm <> spec_report docs req perm.
Proof.
  intros docs req perm.
  split; [apply nodup_keys_ok; vm_compute; reflexivity|].
  split; [apply req_wf_b_ok; vm_compute; reflexivity|]. split; [apply docs_wf_b_ok; vm_compute; reflexivity|].
  split; [apply mdl_can_sign_b_ok; vm_compute; reflexivity|]. vm_compute. discriminate.
Qed.

(* a request entry naming a namespace twice: filter_permitted looks the namespace up (first
   match), requested_any_b looks at every binding *)
Example req_wf_needed :
  let docs := [(mdl, {| d_can_sign := true; d_ns := [(ns_core, [(id_a, (id_a, CUInt 1)); (id_b, (id_b, CUInt 2))])] |})] in
  let req : request := [(mdl, [(ns_core, [id_a]); (ns_core, [id_b])])] in
  let perm : permitted := [(mdl, [(ns_core, [id_a; id_b])])] in
  perm_wf perm /\ docs_wf docs /\ mdl_can_sign docs /\
  expected_report docs req perm <> spec_report docs req perm.
Proof.
  intros docs req perm.
  split; [apply perm_wf_b_ok; vm_compute; reflexivity|]. split; [apply docs_wf_b_ok; vm_compute; reflexivity|].
  split; [apply mdl_can_sign_b_ok; vm_compute; reflexivity|]. vm_compute. discriminate.
Qed.

(* a held namespace with two items under one identifier: the device picks the first, the
   specification's filter keeps both and the later one overwrites *)
Example held_identifiers_distinct_needed :
  let docs := [(mdl, {| d_can_sign := true; d_ns := [(ns_core, [(id_a, (id_a, CUInt 1)); (id_a, (id_a, CUInt 2))])] |})] in
  let req : request := [(mdl, [(ns_core, [id_a])])] in
  let perm : permitted := [(mdl, [(ns_core, [id_a])])] in
  perm_wf perm /\ req_wf req /\ mdl_can_sign docs /\
  (forall d ns items id it, aget mdl docs = Some d -> aget ns (d_ns d) = Some items -> In (id, it) items -> fst it = id) /\
  expected_report docs req perm <> spec_report docs req perm.
Proof.
  intros docs req perm.
  split; [apply perm_wf_b_ok; vm_compute; reflexivity|]. split; [apply req_wf_b_ok; vm_compute; reflexivity|].
  split; [apply mdl_can_sign_b_ok; vm_compute; reflexivity|].
  split.
  { intros d ns items id it Ed Ei Hin. unfold docs in Ed. cbn [aget] in Ed. rewrite bytes_eqb_refl in Ed. inversion Ed; subst d. cbn [d_ns aget] in Ei.
    destruct (bytes_eqb ns ns_core); [|discriminate]. inversion Ei; subst items.
    destruct Hin as [H|[H|[]]]; inversion H; reflexivity. }
  vm_compute. discriminate.
Qed.

(* a held item stored under a key that is not its own identifier: the reader reports the item's
   identifier, the specification's computation the key *)
Example held_key_is_identifier_needed :
  let docs := [(mdl, {| d_can_sign := true; d_ns := [(ns_core, [(id_a, (id_b, CUInt 1))])] |})] in
  let req : request := [(mdl, [(ns_core, [id_a])])] in
  let perm : permitted := [(mdl, [(ns_core, [id_a])])] in
  perm_wf perm /\ req_wf req /\ mdl_can_sign docs /\
  (forall d ns items, aget mdl docs = Some d -> aget ns (d_ns d) = Some items -> keys_distinct items) /\
  expected_report docs req perm <> spec_report docs req perm.
Proof.
  intros docs req perm.
  split; [apply perm_wf_b_ok; vm_compute; reflexivity|]. split; [apply req_wf_b_ok; vm_compute; reflexivity|].
  split; [apply mdl_can_sign_b_ok; vm_compute; reflexivity|].
  split.
  { intros d ns items Ed Ei. unfold docs in Ed. cbn [aget] in Ed. rewrite bytes_eqb_refl in Ed. inversion Ed; subst d. cbn [d_ns aget] in Ei.
    destruct (bytes_eqb ns ns_core); [|discriminate]. inversion Ei; subst items.
    apply nodup_keys_ok. vm_compute. reflexivity. }
  vm_compute. discriminate.
Qed.
