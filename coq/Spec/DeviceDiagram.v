(* C13 reference machine: the documented device state diagram (README "Device perspective",
   src/lib.rs), written from the documentation and the property text, not from device.rs.

     AwaitingRequest --prepare_response--> Signing --submit (last signature)--> ReadyToRespond
     ReadyToRespond --retrieve_response--> AwaitingRequest
     Signing --submit (more documents left)--> Signing

   A prepared response with nothing to sign is complete and therefore ready at once; a request
   that decrypts but is not a DeviceRequest leads to a ready response with status 11 / 12. *)
From Isomdl Require Import Lib.Bytes Model.Iv Model.Session.
Open Scope N_scope.

Inductive rstate :=
| RAwaiting
| RSigning (unsigned : list pdoc) (signed : list sdoc) (errs : N) (status : N)   (* unsigned <> [] *)
| RReady (r : response).

(* what the holder sees of a delivered request *)
Inductive delivered :=
| DlNothing          (* undecryptable, garbage, or no data: nothing happens *)
| DlRequest (id : N)
| DlNotCbor
| DlNotRequest.

Inductive rop :=
| RHandle (d : delivered)
| RPrepare (docs : list pdoc) (errs : N)
| RNextPayload
| RSubmit (sg : bytes)
| RReadyQ
| RRetrieve.

Inductive rout :=
| ROHandled (d : delivered)
| ROPayload (p : option pdoc)
| ROBool (b : bool)
| RORetrieved (r : option response)
| ROUnit.

Definition complete (unsigned : list pdoc) (signed : list sdoc) (errs status : N) : rstate :=
  match unsigned with
  | [] => RReady {| rs_status := status; rs_docs := signed; rs_doc_errors := errs |}
  | _ => RSigning unsigned signed errs status
  end.

Definition rstep (s : rstate) (o : rop) : rstate * rout :=
  match o with
  | RHandle DlNotCbor => (complete [] [] 0 11, ROHandled DlNotCbor)
  | RHandle DlNotRequest => (complete [] [] 0 12, ROHandled DlNotRequest)
  | RHandle d => (s, ROHandled d)
  | RPrepare docs errs => (complete docs [] errs 0, ROUnit)
  | RNextPayload =>
    (s, ROPayload (match s with RSigning u _ _ _ => last_opt u | _ => None end))
  | RSubmit sg =>
    match s with
    | RSigning u sd errs st =>
      match pop_last u with
      | Some (rest, (id, _)) => (complete rest (sd ++ [(id, sg)]) errs st, ROUnit)
      | None => (s, ROUnit)
      end
    | _ => (s, ROUnit)
    end
  | RReadyQ => (s, ROBool (match s with RReady _ => true | _ => false end))
  | RRetrieve =>
    match s with
    | RReady r => (RAwaiting, RORetrieved (Some r))
    | _ => (s, RORetrieved None)
    end
  end.

Fixpoint rrun (ops : list rop) (s : rstate) : rstate * list rout :=
  match ops with
  | [] => (s, [])
  | o :: rest => let '(s', x) := rstep s o in let '(s'', xs) := rrun rest s' in (s'', x :: xs)
  end.
