(* C18 specification: structural validators for the messages of ISO/IEC 18013-5:2021, written
   from the CDDL of the standard (clause numbers given at each definition) and from RFC 8152 for
   the COSE structures -- NOT from the Rust code.  A validator takes a decoded CBOR item and answers
   [Ok] or [Fail rule], where [rule] names the first rule that does not hold.

   Conventions of the CDDL -> Gallina transcription:
     { "k" : T, ? "o" : U }         closed struct: only the listed keys, no key twice, required
                                    keys present, each present value of its type   (check_struct)
     { + tstr => T } / { * ... }    homogeneous map, non-empty for "+"             (check_map_of)
     [ + T ] / [ * T ]              array, non-empty for "+"                       (check_array_of)
     #6.24(bstr .cbor T)            tag 24 around a byte string that holds exactly one CBOR data
                                    item, which is validated as a T                (check_tag24)
   Text strings: the Gallina decoder only produces [CText] for valid UTF-8, so `tstr` is just
   the constructor test. *)
From Isomdl Require Import Lib.Bytes Lib.Cbor.
Open Scope N_scope.
Local Open Scope string_scope.

(* ---------- verdicts ---------- *)

Inductive verdict := Ok | Fail (rule : String.string).

Definition andv (a b : verdict) : verdict := match a with Ok => b | Fail r => Fail r end.
Infix "&>" := andv (at level 41, right associativity).

Definition req (b : bool) (rule : String.string) : verdict := if b then Ok else Fail rule.

Fixpoint allv {A} (f : A -> verdict) (l : list A) : verdict :=
  match l with
  | [] => Ok
  | x :: r => f x &> allv f r
  end.

Definition is_ok (v : verdict) : bool := match v with Ok => true | Fail _ => false end.

Notation "s +++ t" := (String.append s t) (at level 35, right associativity).

(* ---------- basic types ---------- *)

Definition is_tstr (c : cbor) : bool := match c with CText _ => true | _ => false end.
Definition is_bstr (c : cbor) : bool := match c with CBytes _ => true | _ => false end.
Definition is_uint (c : cbor) : bool := match c with CUInt _ => true | _ => false end.
Definition is_int (c : cbor) : bool := match c with CUInt _ | CNInt _ => true | _ => false end.
Definition is_bool (c : cbor) : bool := match c with CBool _ => true | _ => false end.
Definition is_map (c : cbor) : bool := match c with CMap _ => true | _ => false end.

Definition int_val (c : cbor) : option Z :=
  match c with
  | CUInt n => Some (Z.of_N n)
  | CNInt n => Some (- 1 - Z.of_N n)%Z
  | _ => None
  end.

Definition any (_ : cbor) : verdict := Ok.
Definition tstr (what : String.string) (c : cbor) : verdict := req (is_tstr c) (what +++ ": not a text string").
Definition bstr (what : String.string) (c : cbor) : verdict := req (is_bstr c) (what +++ ": not a byte string").
Definition uint (what : String.string) (c : cbor) : verdict := req (is_uint c) (what +++ ": not an unsigned integer").
Definition int (what : String.string) (c : cbor) : verdict := req (is_int c) (what +++ ": not an integer").
Definition boolean (what : String.string) (c : cbor) : verdict := req (is_bool c) (what +++ ": not a boolean").

Definition text_is (what : String.string) (lit : String.string) (c : cbor) : verdict :=
  match c with
  | CText b => req (bytes_eqb b (bytes_of_string lit)) (what +++ ": is not """ +++ lit +++ """")
  | _ => Fail (what +++ ": not a text string")
  end.

Definition uint_in (what : String.string) (allowed : list N) (c : cbor) : verdict :=
  match c with
  | CUInt n => req (existsb (N.eqb n) allowed) (what +++ ": value not in the defined set")
  | _ => Fail (what +++ ": not an unsigned integer")
  end.

Definition uint_range (what : String.string) (lo hi : N) (c : cbor) : verdict :=
  match c with
  | CUInt n => req ((lo <=? n) && (n <=? hi)) (what +++ ": value out of range")
  | _ => Fail (what +++ ": not an unsigned integer")
  end.

Definition bstr_len (what : String.string) (len : N) (c : cbor) : verdict :=
  match c with
  | CBytes b => req (blen b =? len) (what +++ ": wrong length")
  | _ => Fail (what +++ ": not a byte string")
  end.

(* ---------- maps ---------- *)

Definition mem_key (k : cbor) (ks : list cbor) : bool := existsb (cbor_eqb k) ks.

Fixpoint keys_nodupb (ks : list cbor) : bool :=
  match ks with
  | [] => true
  | k :: r => negb (mem_key k r) && keys_nodupb r
  end.

Record field := {
  f_name : String.string;          (* for messages *)
  f_key : cbor;
  f_req : bool;                    (* required (no "?" in the CDDL) *)
  f_val : cbor -> verdict
}.

Definition fld (name : String.string) (required : bool) (val : cbor -> verdict) : field :=
  {| f_name := name; f_key := ctext name; f_req := required; f_val := val |}.
Definition ifld (name : String.string) (key : cbor) (required : bool) (val : cbor -> verdict) : field :=
  {| f_name := name; f_key := key; f_req := required; f_val := val |}.

Fixpoint check_fields (what : String.string) (fields : list field) (kvs : list (cbor * cbor)) : verdict :=
  match fields with
  | [] => Ok
  | f :: r =>
    match map_get (f_key f) kvs with
    | Some x => f_val f x
    | None => req (negb (f_req f)) (what +++ ": required key " +++ f_name f +++ " is missing")
    end &> check_fields what r kvs
  end.

(* [extra k]: is a key outside the listed ones admitted (the CDDL's `* int => any` extension
   point)?  closed structs pass [fun _ => false]. *)
Definition check_struct (what : String.string) (extra : cbor -> bool) (fields : list field) (v : cbor) : verdict :=
  match v with
  | CMap kvs =>
    req (keys_nodupb (map fst kvs)) (what +++ ": a map key occurs twice") &>
    req (forallb (fun k => mem_key k (map f_key fields) || extra k) (map fst kvs))
        (what +++ ": map key that the definition does not have") &>
    check_fields what fields kvs
  | _ => Fail (what +++ ": not a map")
  end.

Definition closed (_ : cbor) : bool := false.

Definition check_map_of (what : String.string) (nonempty : bool) (key_ok : cbor -> bool)
           (val : cbor -> verdict) (v : cbor) : verdict :=
  match v with
  | CMap kvs =>
    req (negb nonempty || negb (match kvs with [] => true | _ => false end)) (what +++ ": empty map") &>
    req (keys_nodupb (map fst kvs)) (what +++ ": a map key occurs twice") &>
    req (forallb key_ok (map fst kvs)) (what +++ ": map key of the wrong type") &>
    allv val (map snd kvs)
  | _ => Fail (what +++ ": not a map")
  end.

Definition check_array_of (what : String.string) (nonempty : bool) (val : cbor -> verdict) (v : cbor) : verdict :=
  match v with
  | CArray l =>
    req (negb nonempty || negb (match l with [] => true | _ => false end)) (what +++ ": empty array") &>
    allv val l
  | _ => Fail (what +++ ": not an array")
  end.

(* #6.24(bstr .cbor T) *)
Definition check_tag24 (what : String.string) (inner : cbor -> verdict) (v : cbor) : verdict :=
  match v with
  | CTag 24 (CBytes b) =>
    match decode_all b with
    | Some x => inner x
    | None => Fail (what +++ ": tag-24 byte string does not hold exactly one CBOR data item")
    end
  | _ => Fail (what +++ ": not #6.24(bstr)")
  end.

Definition tag24_content (v : cbor) : option cbor :=
  match v with
  | CTag 24 (CBytes b) => decode_all b
  | _ => None
  end.

(* ---------- COSE_Key (RFC 8152 clauses 7 and 13; curves of the IANA COSE registry) ---------- *)

(* (kty, crv) -> coordinate length in bytes; None: not a curve of that key type *)
Definition ec2_coord_len (crv : Z) : option N :=
  if (crv =? 1)%Z then Some 32          (* P-256 *)
  else if (crv =? 2)%Z then Some 48     (* P-384 *)
  else if (crv =? 3)%Z then Some 66     (* P-521 *)
  else if (crv =? 8)%Z then Some 32     (* secp256k1 *)
  else if (crv =? 256)%Z then Some 32   (* brainpoolP256r1 *)
  else if (crv =? 257)%Z then Some 40   (* brainpoolP320r1 *)
  else if (crv =? 258)%Z then Some 48   (* brainpoolP384r1 *)
  else if (crv =? 259)%Z then Some 64   (* brainpoolP512r1 *)
  else None.

Definition okp_coord_len (crv : Z) : option N :=
  if (crv =? 4)%Z then Some 32          (* X25519 *)
  else if (crv =? 5)%Z then Some 56     (* X448 *)
  else if (crv =? 6)%Z then Some 32     (* Ed25519 *)
  else if (crv =? 7)%Z then Some 57     (* Ed448 *)
  else None.

Definition label_ok (k : cbor) : bool := is_int k || is_tstr k.

Definition kty_label := CUInt 1.
Definition crv_label := CNInt 0.    (* -1 *)
Definition x_label := CNInt 1.      (* -2 *)
Definition y_label := CNInt 2.      (* -3 *)

Definition cose_key (what : String.string) (v : cbor) : verdict :=
  match v with
  | CMap kvs =>
    req (keys_nodupb (map fst kvs)) (what +++ ": COSE_Key label occurs twice") &>
    req (forallb label_ok (map fst kvs)) (what +++ ": COSE_Key label is neither int nor tstr") &>
    match map_get kty_label kvs with
    | None => Fail (what +++ ": COSE_Key without kty (1)")
    | Some (CUInt 2) =>
      (* EC2: crv (-1), x (-2) : bstr, y (-3) : bstr / bool *)
      match map_get crv_label kvs, map_get x_label kvs, map_get y_label kvs with
      | Some c, Some (CBytes x), Some y =>
        match int_val c with
        | Some crv =>
          match ec2_coord_len crv with
          | Some len =>
            req (blen x =? len) (what +++ ": COSE_Key x has not the length of the curve") &>
            match y with
            | CBytes yb => req (blen yb =? len) (what +++ ": COSE_Key y has not the length of the curve")
            | CBool _ => Ok
            | _ => Fail (what +++ ": COSE_Key y (-3) is neither bstr nor bool")
            end
          | None => Fail (what +++ ": COSE_Key crv is not an EC2 curve")
          end
        | None => Fail (what +++ ": COSE_Key crv (-1) is not an integer")
        end
      | None, _, _ => Fail (what +++ ": EC2 COSE_Key without crv (-1)")
      | _, None, _ => Fail (what +++ ": EC2 COSE_Key without x (-2)")
      | _, Some _, None => Fail (what +++ ": EC2 COSE_Key without y (-3)")
      | _, Some _, _ => Fail (what +++ ": COSE_Key x (-2) is not a byte string")
      end
    | Some (CUInt 1) =>
      (* OKP: crv (-1), x (-2) : bstr *)
      match map_get crv_label kvs, map_get x_label kvs with
      | Some c, Some (CBytes x) =>
        match int_val c with
        | Some crv =>
          match okp_coord_len crv with
          | Some len => req (blen x =? len) (what +++ ": COSE_Key x has not the length of the curve")
          | None => Fail (what +++ ": COSE_Key crv is not an OKP curve")
          end
        | None => Fail (what +++ ": COSE_Key crv (-1) is not an integer")
        end
      | None, _ => Fail (what +++ ": OKP COSE_Key without crv (-1)")
      | _, None => Fail (what +++ ": OKP COSE_Key without x (-2)")
      | _, Some _ => Fail (what +++ ": COSE_Key x (-2) is not a byte string")
      end
    | Some _ => Fail (what +++ ": COSE_Key kty is neither EC2 (2) nor OKP (1)")
    end
  | _ => Fail (what +++ ": COSE_Key is not a map")
  end.

(* (kty, crv) of a COSE_Key *)
Definition cose_key_curve (v : cbor) : option (N * Z) :=
  match v with
  | CMap kvs =>
    match map_get kty_label kvs, map_get crv_label kvs with
    | Some (CUInt kty), Some c => match int_val c with Some crv => Some (kty, crv) | None => None end
    | _, _ => None
    end
  | _ => None
  end.

(* The signature algorithm that goes with a key: RFC 8152 8.1 / RFC 9053 2.1 (ES256 with P-256,
   ES384 with P-384, ES512 with P-521), RFC 8152 8.2 (EdDSA with Ed25519 / Ed448); ISO 18013-5
   9.1.3.6 uses exactly these for mdoc ECDSA / EdDSA authentication. *)
Definition alg_ES256 : Z := (-7)%Z.
Definition alg_ES384 : Z := (-35)%Z.
Definition alg_ES512 : Z := (-36)%Z.
Definition alg_EdDSA : Z := (-8)%Z.
Definition alg_HMAC256 : Z := 5%Z.

Definition spec_sig_alg (kty : N) (crv : Z) : option Z :=
  if (kty =? 2) && (crv =? 1)%Z then Some alg_ES256
  else if (kty =? 2) && (crv =? 2)%Z then Some alg_ES384
  else if (kty =? 2) && (crv =? 3)%Z then Some alg_ES512
  else if (kty =? 1) && (crv =? 6)%Z then Some alg_EdDSA
  else if (kty =? 1) && (crv =? 7)%Z then Some alg_EdDSA
  else None.

Definition signature_algs : list Z := [alg_ES256; alg_ES384; alg_ES512; alg_EdDSA].

(* ---------- COSE_Sign1 / COSE_Mac0 (RFC 8152 clauses 3, 4.2, 6.2) ---------- *)

Definition header_map (what : String.string) (kvs : list (cbor * cbor)) : verdict :=
  req (keys_nodupb (map fst kvs)) (what +++ ": header label occurs twice") &>
  req (forallb label_ok (map fst kvs)) (what +++ ": header label is neither int nor tstr") &>
  match map_get (CUInt 1) kvs with
  | Some a => req (is_int a || is_tstr a) (what +++ ": alg (1) is neither int nor tstr")
  | None => Ok
  end.

(* the protected bucket: a zero-length bstr or the encoding of one header map *)
Definition protected_map (p : bytes) : option (list (cbor * cbor)) :=
  match p with
  | [] => Some []
  | _ => match decode_all p with Some (CMap kvs) => Some kvs | _ => None end
  end.

Definition header_alg (kvs : list (cbor * cbor)) : option Z :=
  match map_get (CUInt 1) kvs with Some a => int_val a | None => None end.

(* x5chain (33): COSE_X509 = bstr / [ 2*certs: bstr ] *)
Definition x5chain_label := CUInt 33.
Definition cose_x509 (what : String.string) (v : cbor) : verdict :=
  match v with
  | CBytes _ => Ok
  | CArray l => req (2 <=? N.of_nat (length l)) (what +++ ": x5chain array with fewer than two certificates") &>
                req (forallb is_bstr l) (what +++ ": x5chain entry is not a byte string")
  | _ => Fail (what +++ ": x5chain is neither bstr nor array")
  end.

Inductive payload_rule := PayloadNil | PayloadBstr (inner : bytes -> verdict).

(* [tag]: 18 for COSE_Sign1, 17 for COSE_Mac0 (the tag is optional: COSE_Untagged_Message).
   [algs]: the admitted values of the protected alg.  [need_x5chain]: x5chain required in the
   unprotected bucket. *)
Definition cose1 (what : String.string) (tag : N) (algs : list Z) (need_x5chain : bool)
           (pl : payload_rule) (v : cbor) : verdict :=
  let body := match v with
              | CTag t b => if t =? tag then Some b else None
              | b => Some b
              end in
  match body with
  | Some (CArray [CBytes p; CMap u; payload; CBytes _]) =>
    match protected_map p with
    | Some ph =>
      header_map (what +++ " protected") ph &>
      header_map (what +++ " unprotected") u &>
      match header_alg ph with
      | Some a => req (existsb (Z.eqb a) algs) (what +++ ": protected alg is not one the standard admits here")
      | None => Fail (what +++ ": no integer alg (1) in the protected header")
      end &>
      match map_get x5chain_label u with
      | Some c => cose_x509 what c
      | None => req (negb need_x5chain) (what +++ ": no x5chain (33) in the unprotected header")
      end &>
      match pl, payload with
      | PayloadNil, CNull => Ok
      | PayloadNil, _ => Fail (what +++ ": payload is not nil (the content is detached)")
      | PayloadBstr inner, CBytes b => inner b
      | PayloadBstr _, _ => Fail (what +++ ": payload is not a byte string")
      end
    | None => Fail (what +++ ": protected is neither empty nor the encoding of one header map")
    end
  | Some _ => Fail (what +++ ": not [protected : bstr, unprotected : map, payload : bstr / nil, signature / tag : bstr]")
  | None => Fail (what +++ ": wrong CBOR tag on the COSE structure")
  end.

(* protected alg of a COSE_Sign1 / COSE_Mac0 (tagged or not) *)
Definition cose1_alg (v : cbor) : option Z :=
  let body := match v with CTag _ b => b | b => b end in
  match body with
  | CArray (CBytes p :: _) => match protected_map p with Some ph => header_alg ph | None => None end
  | _ => None
  end.

Definition cose1_payload (v : cbor) : option bytes :=
  let body := match v with CTag _ b => b | b => b end in
  match body with
  | CArray [_; _; CBytes b; _] => Some b
  | _ => None
  end.

(* ---------- 9.1.2.4 MobileSecurityObject ---------- *)

Definition is_digit (b : N) : bool := (48 <=? b) && (b <=? 57).

(* tdate = #6.0(tstr); 9.1.2.4: no fraction of seconds, UTC offset written "Z":  YYYY-MM-DDThh:mm:ssZ *)
Definition tdate (what : String.string) (v : cbor) : verdict :=
  match v with
  | CTag 0 (CText s) =>
    match s with
    | [y1; y2; y3; y4; d1; m1; m2; d2; a1; a2; t; h1; h2; c1; n1; n2; c2; s1; s2; z] =>
      req (forallb is_digit [y1; y2; y3; y4; m1; m2; a1; a2; h1; h2; n1; n2; s1; s2] &&
           (d1 =? 45) && (d2 =? 45) && (t =? 84) && (c1 =? 58) && (c2 =? 58) && (z =? 90))
          (what +++ ": date-time is not YYYY-MM-DDThh:mm:ssZ")
    | _ => Fail (what +++ ": date-time is not YYYY-MM-DDThh:mm:ssZ (no fraction, UTC as Z)")
    end
  | _ => Fail (what +++ ": not a tdate #6.0(tstr)")
  end.

Definition validity_info : cbor -> verdict :=
  check_struct "ValidityInfo" closed
    [fld "signed" true (tdate "ValidityInfo.signed");
     fld "validFrom" true (tdate "ValidityInfo.validFrom");
     fld "validUntil" true (tdate "ValidityInfo.validUntil");
     fld "expectedUpdate" false (tdate "ValidityInfo.expectedUpdate")].

Definition digest_len (alg : bytes) : option N :=
  if bytes_eqb alg (bytes_of_string "SHA-256") then Some 32
  else if bytes_eqb alg (bytes_of_string "SHA-384") then Some 48
  else if bytes_eqb alg (bytes_of_string "SHA-512") then Some 64
  else None.

Definition digest_algorithm (v : cbor) : verdict :=
  match v with
  | CText a => req (match digest_len a with Some _ => true | None => false end)
                   "MobileSecurityObject.digestAlgorithm: not SHA-256, SHA-384 or SHA-512"
  | _ => Fail "MobileSecurityObject.digestAlgorithm: not a text string"
  end.

(* DigestID = uint, smaller than 2^31 (9.1.2.4) *)
Definition digest_id_ok (k : cbor) : bool := match k with CUInt n => n <? 2147483648 | _ => false end.

(* ValueDigests = { + NameSpace => DigestIDs }, DigestIDs = { + DigestID => Digest }.  [len]: the
   digest length of the MSO's digestAlgorithm, when that is one of the three. *)
Definition value_digests (len : option N) : cbor -> verdict :=
  check_map_of "ValueDigests" true is_tstr
    (check_map_of "DigestIDs" true digest_id_ok
       (fun d => match d, len with
                 | CBytes b, Some n => req (blen b =? n) "Digest: length differs from the digestAlgorithm's output"
                 | CBytes _, None => Ok
                 | _, _ => Fail "Digest: not a byte string"
                 end)).

Definition authorized_namespaces : cbor -> verdict :=
  check_array_of "AuthorizedNameSpaces" true (tstr "AuthorizedNameSpaces entry").
Definition authorized_data_elements : cbor -> verdict :=
  check_map_of "AuthorizedDataElements" true is_tstr
    (check_array_of "DataElementsArray" true (tstr "DataElementsArray entry")).

(* 9.1.2.4: a namespace listed in nameSpaces shall not be a key of dataElements *)
Definition key_authorizations (v : cbor) : verdict :=
  check_struct "KeyAuthorizations" closed
    [fld "nameSpaces" false authorized_namespaces;
     fld "dataElements" false authorized_data_elements] v &>
  match v with
  | CMap kvs =>
    match map_get (ctext "nameSpaces") kvs, map_get (ctext "dataElements") kvs with
    | Some (CArray nss), Some (CMap des) =>
      req (negb (existsb (fun ns => mem_key ns (map fst des)) nss))
          "KeyAuthorizations: a namespace is in both nameSpaces and dataElements"
    | _, _ => Ok
    end
  | _ => Ok
  end.

Definition device_key_info : cbor -> verdict :=
  check_struct "DeviceKeyInfo" closed
    [fld "deviceKey" true (cose_key "DeviceKeyInfo.deviceKey");
     fld "keyAuthorizations" false key_authorizations;
     fld "keyInfo" false (check_map_of "KeyInfo" false is_int any)].

Definition mso (v : cbor) : verdict :=
  let len := match v with
             | CMap kvs => match map_get (ctext "digestAlgorithm") kvs with
                           | Some (CText a) => digest_len a
                           | _ => None
                           end
             | _ => None
             end in
  check_struct "MobileSecurityObject" closed
    [fld "version" true (text_is "MobileSecurityObject.version" "1.0");
     fld "digestAlgorithm" true digest_algorithm;
     fld "valueDigests" true (value_digests len);
     fld "deviceKeyInfo" true device_key_info;
     fld "docType" true (tstr "MobileSecurityObject.docType");
     fld "validityInfo" true validity_info] v.

(* the device key of an MSO *)
Definition mso_device_key (v : cbor) : option cbor :=
  match v with
  | CMap kvs =>
    match map_get (ctext "deviceKeyInfo") kvs with
    | Some (CMap dk) => map_get (ctext "deviceKey") dk
    | _ => None
    end
  | _ => None
  end.

(* ---------- 8.3.2.1.2.2 device retrieval mdoc response ---------- *)

(* IssuerSignedItem; 9.1.2.5: random of at least 16 bytes; digestID < 2^31 *)
Definition issuer_signed_item : cbor -> verdict :=
  check_struct "IssuerSignedItem" closed
    [fld "digestID" true (fun c => req (digest_id_ok c) "IssuerSignedItem.digestID: not an unsigned integer below 2^31");
     fld "random" true (fun c => match c with
                                 | CBytes b => req (16 <=? blen b) "IssuerSignedItem.random: shorter than 16 bytes"
                                 | _ => Fail "IssuerSignedItem.random: not a byte string"
                                 end);
     fld "elementIdentifier" true (tstr "IssuerSignedItem.elementIdentifier");
     fld "elementValue" true any].

Definition issuer_namespaces : cbor -> verdict :=
  check_map_of "IssuerNameSpaces" true is_tstr
    (check_array_of "IssuerNameSpaces entry" true (check_tag24 "IssuerSignedItemBytes" issuer_signed_item)).

(* IssuerAuth = COSE_Sign1 whose payload is MobileSecurityObjectBytes = #6.24(bstr .cbor MSO);
   9.1.2.4: alg in the protected header, x5chain in the unprotected header *)
Definition mso_bytes (payload : bytes) : verdict :=
  match decode_all payload with
  | Some t => check_tag24 "MobileSecurityObjectBytes" mso t
  | None => Fail "IssuerAuth: payload is not exactly one CBOR data item"
  end.

Definition issuer_auth : cbor -> verdict :=
  cose1 "IssuerAuth" 18 signature_algs true (PayloadBstr mso_bytes).

Definition issuer_signed : cbor -> verdict :=
  check_struct "IssuerSigned" closed
    [fld "nameSpaces" false issuer_namespaces;
     fld "issuerAuth" true issuer_auth].

(* the MSO inside an IssuerSigned, and its device key's (kty, crv) *)
Definition issuer_signed_mso (v : cbor) : option cbor :=
  match v with
  | CMap kvs =>
    match map_get (ctext "issuerAuth") kvs with
    | Some ia =>
      match cose1_payload ia with
      | Some p => match decode_all p with Some t => tag24_content t | None => None end
      | None => None
      end
    | None => None
    end
  | _ => None
  end.

Definition issuer_signed_key_curve (v : cbor) : option (N * Z) :=
  match issuer_signed_mso v with
  | Some m => match mso_device_key m with Some k => cose_key_curve k | None => None end
  | None => None
  end.

Definition device_namespaces : cbor -> verdict :=
  check_map_of "DeviceNameSpaces" false is_tstr
    (check_map_of "DeviceSignedItems" true is_tstr any).

(* 9.1.3.6 / 9.1.3.5: detached content, so the payload is nil *)
Definition device_signature : cbor -> verdict :=
  cose1 "DeviceSignature" 18 signature_algs false PayloadNil.
Definition device_mac : cbor -> verdict :=
  cose1 "DeviceMac" 17 [alg_HMAC256] false PayloadNil.

(* DeviceAuth = { "deviceSignature" : DeviceSignature // "deviceMac" : DeviceMac }: exactly one *)
Definition device_auth (v : cbor) : verdict :=
  check_struct "DeviceAuth" closed
    [fld "deviceSignature" false device_signature;
     fld "deviceMac" false device_mac] v &>
  match v with
  | CMap [_] => Ok
  | _ => Fail "DeviceAuth: not exactly one of deviceSignature and deviceMac"
  end.

Definition device_signed : cbor -> verdict :=
  check_struct "DeviceSigned" closed
    [fld "nameSpaces" true (check_tag24 "DeviceNameSpacesBytes" device_namespaces);
     fld "deviceAuth" true device_auth].

(* protected alg of the deviceSignature of a DeviceSigned, if it has one *)
Definition device_signed_sig_alg (v : cbor) : option (option Z) :=
  match v with
  | CMap kvs =>
    match map_get (ctext "deviceAuth") kvs with
    | Some (CMap da) =>
      match map_get (ctext "deviceSignature") da with
      | Some s => Some (cose1_alg s)
      | None => None
      end
    | _ => None
    end
  | _ => None
  end.

Definition error_code : cbor -> verdict := int "ErrorCode".
Definition errors : cbor -> verdict :=
  check_map_of "Errors" true is_tstr (check_map_of "ErrorItems" true is_tstr error_code).

(* cross-field rule: the algorithm of a device signature is the one of the device key's curve *)
Definition sig_alg_matches_key (issuer_signed_v device_signed_v : cbor) : verdict :=
  match device_signed_sig_alg device_signed_v with
  | None => Ok                              (* deviceMac *)
  | Some alg =>
    match issuer_signed_key_curve issuer_signed_v with
    | None => Fail "Document: no device key found in the MSO of issuerAuth"
    | Some (kty, crv) =>
      match spec_sig_alg kty crv, alg with
      | Some a, Some a' => req (Z.eqb a a') "Document: deviceSignature algorithm does not match the device key's curve"
      | None, _ => Fail "Document: the device key's curve has no signature algorithm"
      | _, None => Fail "Document: deviceSignature without integer alg"
      end
    end
  end.

Definition document (v : cbor) : verdict :=
  check_struct "Document" closed
    [fld "docType" true (tstr "Document.docType");
     fld "issuerSigned" true issuer_signed;
     fld "deviceSigned" true device_signed;
     fld "errors" false errors] v &>
  match v with
  | CMap kvs =>
    match map_get (ctext "issuerSigned") kvs, map_get (ctext "deviceSigned") kvs with
    | Some i, Some d => sig_alg_matches_key i d
    | _, _ => Ok
    end
  | _ => Ok
  end.

(* DocumentError = { DocType => ErrorCode }: one entry *)
Definition document_error (v : cbor) : verdict :=
  match v with
  | CMap [(k, c)] => tstr "DocumentError key" k &> error_code c
  | CMap _ => Fail "DocumentError: not a map with exactly one entry"
  | _ => Fail "DocumentError: not a map"
  end.

Definition response_status_codes : list N := [0; 10; 11; 12].   (* Table 8 *)

(* Table 8: with status 10, 11, 12 no data is returned *)
Definition device_response (v : cbor) : verdict :=
  check_struct "DeviceResponse" closed
    [fld "version" true (text_is "DeviceResponse.version" "1.0");
     fld "documents" false (check_array_of "DeviceResponse.documents" true document);
     fld "documentErrors" false (check_array_of "DeviceResponse.documentErrors" true document_error);
     fld "status" true (uint_in "DeviceResponse.status" response_status_codes)] v &>
  match v with
  | CMap kvs =>
    match map_get (ctext "status") kvs, map_get (ctext "documents") kvs with
    | Some (CUInt 0), _ => Ok
    | Some _, Some _ => Fail "DeviceResponse: documents returned together with an error status"
    | _, _ => Ok
    end
  | _ => Ok
  end.

(* ---------- 8.3.2.1.2.1 device retrieval mdoc request ---------- *)

Definition data_elements : cbor -> verdict :=
  check_map_of "DataElements" true is_tstr (boolean "IntentToRetain").
Definition request_namespaces : cbor -> verdict :=
  check_map_of "NameSpaces" true is_tstr data_elements.

Definition items_request : cbor -> verdict :=
  check_struct "ItemsRequest" closed
    [fld "docType" true (tstr "ItemsRequest.docType");
     fld "nameSpaces" true request_namespaces;
     fld "requestInfo" false (check_map_of "ItemsRequest.requestInfo" false is_tstr any)].

(* ReaderAuth = COSE_Sign1, 9.1.4.3: alg protected, x5chain unprotected, detached content *)
Definition reader_auth : cbor -> verdict :=
  cose1 "ReaderAuth" 18 signature_algs true PayloadNil.

Definition doc_request : cbor -> verdict :=
  check_struct "DocRequest" closed
    [fld "itemsRequest" true (check_tag24 "ItemsRequestBytes" items_request);
     fld "readerAuth" false reader_auth].

Definition device_request : cbor -> verdict :=
  check_struct "DeviceRequest" closed
    [fld "version" true (text_is "DeviceRequest.version" "1.0");
     fld "docRequests" true (check_array_of "DeviceRequest.docRequests" true doc_request)].

(* ---------- 9.1.1.4 session establishment and session data ---------- *)

Definition session_establishment : cbor -> verdict :=
  check_struct "SessionEstablishment" closed
    [fld "eReaderKey" true (check_tag24 "EReaderKeyBytes" (cose_key "EReaderKey"));
     fld "data" true (bstr "SessionEstablishment.data")].

Definition session_status_codes : list N := [10; 11; 20].   (* Table 20 *)

(* with status 10 (session encryption error) or 11 (CBOR decoding error) the message carries the
   status only; an empty map is no message *)
Definition session_data (v : cbor) : verdict :=
  check_struct "SessionData" closed
    [fld "data" false (bstr "SessionData.data");
     fld "status" false (uint_in "SessionData.status" session_status_codes)] v &>
  match v with
  | CMap kvs =>
    match map_get (ctext "data") kvs, map_get (ctext "status") kvs with
    | None, None => Fail "SessionData: neither data nor status"
    | Some _, Some (CUInt 20) => Ok
    | Some _, Some _ => Fail "SessionData: data present together with an error status"
    | _, _ => Ok
    end
  | _ => Ok
  end.

(* ---------- 8.2.1.1 device engagement ---------- *)

Definition wifi_options : cbor -> verdict :=
  check_struct "WifiOptions" closed
    [ifld "0" (CUInt 0) false (tstr "WifiOptions pass-phrase (0)");
     ifld "1" (CUInt 1) false (uint "WifiOptions operating class (1)");
     ifld "2" (CUInt 2) false (uint "WifiOptions channel number (2)");
     ifld "3" (CUInt 3) false (bstr "WifiOptions band info (3)")].

(* a mode that is announced as supported comes with its UUID (16 bytes) *)
Definition ble_options (v : cbor) : verdict :=
  check_struct "BleOptions" closed
    [ifld "0" (CUInt 0) true (boolean "BleOptions peripheral server mode (0)");
     ifld "1" (CUInt 1) true (boolean "BleOptions central client mode (1)");
     ifld "10" (CUInt 10) false (bstr_len "BleOptions peripheral server UUID (10)" 16);
     ifld "11" (CUInt 11) false (bstr_len "BleOptions central client UUID (11)" 16);
     ifld "20" (CUInt 20) false (bstr "BleOptions device address (20)")] v &>
  match v with
  | CMap kvs =>
    match map_get (CUInt 0) kvs, map_get (CUInt 10) kvs with
    | Some (CBool true), None => Fail "BleOptions: peripheral server mode without its UUID (10)"
    | _, _ => Ok
    end &>
    match map_get (CUInt 1) kvs, map_get (CUInt 11) kvs with
    | Some (CBool true), None => Fail "BleOptions: central client mode without its UUID (11)"
    | _, _ => Ok
    end
  | _ => Ok
  end.

(* 8.3.3.1.2 NOTE 2: command data field 255..65535, response data field 256..65536 *)
Definition nfc_options : cbor -> verdict :=
  check_struct "NfcOptions" closed
    [ifld "0" (CUInt 0) true (uint_range "NfcOptions max command data length (0)" 255 65535);
     ifld "1" (CUInt 1) true (uint_range "NfcOptions max response data length (1)" 256 65536)].

(* DeviceRetrievalMethod = [ type : uint, version : uint, RetrievalOptions ]; types 1 NFC, 2 BLE,
   3 Wi-Fi Aware; version 1; other types: any options *)
Definition device_retrieval_method (v : cbor) : verdict :=
  match v with
  | CArray [CUInt ty; CUInt ver; opts] =>
    req (ver =? 1) "DeviceRetrievalMethod: version is not 1" &>
    (if ty =? 1 then nfc_options opts
     else if ty =? 2 then ble_options opts
     else if ty =? 3 then wifi_options opts
     else Ok)
  | _ => Fail "DeviceRetrievalMethod: not [uint, uint, options]"
  end.

Definition server_method (what : String.string) (v : cbor) : verdict :=
  match v with
  | CArray [CUInt _; CText _; CText _] => Ok
  | _ => Fail (what +++ ": not [uint, tstr, tstr]")
  end.

Definition server_retrieval_methods : cbor -> verdict :=
  check_struct "ServerRetrievalMethods" closed
    [fld "webApi" false (server_method "WebApi");
     fld "oidc" false (server_method "Oidc")].

(* Security = [ int (cipher suite; 1 is the only one defined, 9.1.5.2), EDeviceKeyBytes ] *)
Definition security (v : cbor) : verdict :=
  match v with
  | CArray [suite; key] =>
    req (cbor_eqb suite (CUInt 1)) "Security: cipher suite identifier is not 1" &>
    check_tag24 "EDeviceKeyBytes" (cose_key "EDeviceKey") key
  | _ => Fail "Security: not [int, EDeviceKeyBytes]"
  end.

(* DeviceEngagement = { 0: tstr, 1: Security, ? 2: [+ DeviceRetrievalMethod], ? 3: ServerRetrievalMethods,
                        ? 4: ProtocolInfo, * int => any } *)
Definition device_engagement : cbor -> verdict :=
  check_struct "DeviceEngagement" is_int
    [ifld "0" (CUInt 0) true (text_is "DeviceEngagement version (0)" "1.0");
     ifld "1" (CUInt 1) true security;
     ifld "2" (CUInt 2) false (check_array_of "DeviceRetrievalMethods" true device_retrieval_method);
     ifld "3" (CUInt 3) false server_retrieval_methods;
     ifld "4" (CUInt 4) false any].

(* ---------- entry point on bytes ---------- *)

Inductive kind := KEngagement | KEstablishment | KSessionData | KDeviceRequest | KDeviceResponse | KMso
                | KIssuerSigned | KCoseKey | KDocument.

Definition validator (k : kind) : cbor -> verdict :=
  match k with
  | KEngagement => device_engagement
  | KEstablishment => session_establishment
  | KSessionData => session_data
  | KDeviceRequest => device_request
  | KDeviceResponse => device_response
  | KMso => mso
  | KIssuerSigned => issuer_signed
  | KCoseKey => cose_key "COSE_Key"
  | KDocument => document
  end.

(* the whole input must be exactly one CBOR data item *)
Definition validate_bytes (k : kind) (bs : bytes) : verdict :=
  match decode_all bs with
  | Some v => validator k v
  | None => Fail "not exactly one well-formed CBOR data item"
  end.
