(* WireSpec.v — the literals of the standards, written from ISO/IEC 18013-5:2021, RFC 8152 (COSE),
   RFC 7518 / 8037 / 8812 (JWK curve names) and NOT from the code, plus the comparison with the
   tables the translator copies from the source (Gen/WireTables.v). *)
From Isomdl Require Import Lib.Bytes Model.Wire.Tables Gen.WireTables.
From Coq Require Import ZArith String.
Open Scope Z_scope.
Local Open Scope string_scope.

Definition iso_tables : tables := {|
  (* 18013-5 9.1.1.4 table 20: SessionData status codes *)
  tb_session_status_to := [("SessionEncryptionError", 10); ("CborDecodingError", 11); ("SessionTermination", 20)];
  tb_session_status_of := [(10, "SessionEncryptionError"); (11, "CborDecodingError"); (20, "SessionTermination")];
  (* 18013-5 8.3.2.1.2.3 table 8: DeviceResponse status *)
  tb_response_status_to := [("OK", 0); ("GeneralError", 10); ("CborDecodingError", 11); ("CborValidationError", 12)];
  tb_response_status_of := [(0, "OK"); (10, "GeneralError"); (11, "CborDecodingError"); (12, "CborValidationError")];
  (* 18013-5 8.3.2.1.2.3 table 9: error code 0 = data not returned; negative = application specific; positive RFU *)
  tb_doc_error_to := [("DataNotReturned", 0)];
  tb_doc_error_of := [(0, "DataNotReturned")];
  (* RFC 8152 table 22 / RFC 8812: COSE elliptic curves *)
  tb_ec2_to := [("P256", 1); ("P384", 2); ("P521", 3); ("P256K", 8)];
  tb_ec2_of := [(1, "P256"); (2, "P384"); (3, "P521"); (8, "P256K")];
  tb_okp_to := [("X25519", 4); ("X448", 5); ("Ed25519", 6); ("Ed448", 7)];
  tb_okp_of := [(4, "X25519"); (5, "X448"); (6, "Ed25519"); (7, "Ed448")];
  (* RFC 7518 6.2.1.1, RFC 8812 3.1, RFC 8037 3.1: JWK "crv" values *)
  tb_ec2_jwk_to := [("P256", "P-256"); ("P384", "P-384"); ("P521", "P-521"); ("P256K", "secp256k1")];
  tb_ec2_jwk_of := [("P-256", "P256"); ("P-384", "P384"); ("P-521", "P521"); ("secp256k1", "P256K")];
  tb_okp_jwk_to := [("X25519", "X25519"); ("X448", "X448"); ("Ed25519", "Ed25519"); ("Ed448", "Ed448")];
  tb_okp_jwk_of := [("Ed25519", "Ed25519"); ("Ed448", "Ed448"); ("X25519", "X25519"); ("X448", "X448")];
  (* 18013-5 8.2.1.1 table 2: device retrieval method types, version 1 *)
  tb_transport_to := [("NFC", 1); ("BLE", 2); ("WIFI", 3)];
  tb_transport_of := [(1, 1, "NFC"); (2, 1, "BLE"); (3, 1, "WIFI")];
  tb_transport_version := 1;
  (* 18013-5 8.2.1.1: DeviceEngagement version "1.0" *)
  tb_engagement_version := "1.0";
  (* 18013-5 9.1.2.5: digestAlgorithm identifiers *)
  tb_digest_alg := [("SHA256", "SHA-256"); ("SHA384", "SHA-384"); ("SHA512", "SHA-512")];
  (* 18013-5 8.3.2.1.2.2: DeviceAuth = { "deviceSignature" : .. // "deviceMac" : .. } *)
  tb_device_auth := [("DeviceSignature", "deviceSignature"); ("DeviceMac", "deviceMac")];
  (* SessionTranscript handover: QRHandover = null, NFCHandover = [bstr, bstr / nil]; the OID4VP pair
     of text strings is isomdl's own; an array of byte strings must be read as the NFC variant *)
  tb_handover_order := ["QR"; "NFC"; "OID4VP"];
  (* 18013-5 8.3.3.1.2 note 2 *)
  tb_nfc_command_min := 255;  tb_nfc_command_max := 65535;
  tb_nfc_response_min := 256; tb_nfc_response_max := 65536
|}.

(* CDDL member names of 18013-5 (8.3.2.1.2.1, 8.3.2.1.2.2, 9.1.1.4, 9.1.2.4), in the order of the
   CDDL, with the optional members marked *)
Definition iso_fields : list (string * list (string * bool)) := [
  ("SessionEstablishment", [("eReaderKey", false); ("data", false)]);
  ("SessionData", [("data", true); ("status", true)]);
  ("DeviceRequest", [("version", false); ("docRequests", false)]);
  ("DocRequest", [("itemsRequest", false); ("readerAuth", true)]);
  ("ItemsRequest", [("docType", false); ("nameSpaces", false); ("requestInfo", true)]);
  ("DeviceResponse", [("version", false); ("documents", true); ("documentErrors", true); ("status", false)]);
  ("Document", [("docType", false); ("issuerSigned", false); ("deviceSigned", false); ("errors", true)]);
  ("Mso", [("version", false); ("digestAlgorithm", false); ("valueDigests", false); ("deviceKeyInfo", false);
           ("docType", false); ("validityInfo", false)]);
  ("DeviceKeyInfo", [("deviceKey", false); ("keyAuthorizations", true); ("keyInfo", true)]);
  ("KeyAuthorizations", [("nameSpaces", true); ("dataElements", true)]);
  ("IssuerSigned", [("nameSpaces", true); ("issuerAuth", false)]);
  ("IssuerSignedItem", [("digestID", false); ("random", false); ("elementIdentifier", false); ("elementValue", false)]);
  ("DeviceSigned", [("nameSpaces", false); ("deviceAuth", false)]);
  ("ServerRetrievalMethods", [("webApi", true); ("oidc", true)])].

Definition iso_validity_info_names : list string := ["signed"; "validFrom"; "validUntil"; "expectedUpdate"].

(* integer labels, in the order the conversions use them.
   COSE_Key (RFC 8152 7.1, 13.1, 13.2): kty = 1 (EC2 = 2, OKP = 1), crv = -1, x = -2, y = -3 *)
Definition iso_cose_key_labels_to : list Z := [1; 2; -1; -2; -3; 1; 1; -1; -2].
Definition iso_cose_key_labels_of : list Z := [1; -1; -2; -3].
(* DeviceEngagement (8.2.1.1): 0 version, 1 security, 2 device retrieval methods, 3 server retrieval methods, 4 protocol info *)
Definition iso_engagement_labels_to : list Z := [0; 1; 2; 3; 4].
Definition iso_engagement_labels_of : list Z := [0; 1; 2; 3; 4].
(* BleOptions (8.2.1.1 table 4): 0 peripheral server mode, 1 central client mode, 10 / 11 the UUIDs, 20 device address *)
Definition iso_ble_labels_to : list Z := [1; 11; 1; 0; 10; 20; 0].
Definition iso_ble_labels_of : list Z := [1; 11; 0; 10; 20].
(* WifiOptions (table 3): 0 pass-phrase, 1 operating class, 2 channel number, 3 band info;  NfcOptions (table 5): 0, 1 *)
Definition iso_wifi_labels : list Z := [0; 1; 2; 3].
Definition iso_nfc_labels : list Z := [0; 1].

(* ---- comparison ---- *)
Definition same_rows {A} (eqb : A -> A -> bool) (l1 l2 : list A) : bool :=
  forallb (fun r => existsb (eqb r) l2) l1 && forallb (fun r => existsb (eqb r) l1) l2.
Definition sz_eqb (a b : string * Z) : bool := String.eqb (fst a) (fst b) && (Z.eqb (snd a) (snd b)).
Definition zs_eqb (a b : Z * string) : bool := (Z.eqb (fst a) (fst b)) && String.eqb (snd a) (snd b).
Definition ss_eqb (a b : string * string) : bool := String.eqb (fst a) (fst b) && String.eqb (snd a) (snd b).
Definition zzs_eqb (a b : Z * Z * string) : bool :=
  (Z.eqb (fst (fst a)) (fst (fst b))) && (Z.eqb (snd (fst a)) (snd (fst b))) && String.eqb (snd a) (snd b).
Fixpoint list_eqb {A} (eqb : A -> A -> bool) (l1 l2 : list A) : bool :=
  match l1, l2 with
  | [], [] => true
  | x :: r, y :: r' => eqb x y && list_eqb eqb r r'
  | _, _ => false
  end.
Definition field_eqb (a b : string * bool) : bool := String.eqb (fst a) (fst b) && Bool.eqb (snd a) (snd b).
Definition struct_eqb (a b : string * list (string * bool)) : bool :=
  String.eqb (fst a) (fst b) && list_eqb field_eqb (snd a) (snd b).

(* the code tables are compared as sets of rows (arm order in a Rust `match` over literals is
   immaterial); names, orders and label sequences are compared as lists *)
Definition tables_agree (a b : tables) : bool :=
  same_rows sz_eqb (tb_session_status_to a) (tb_session_status_to b) && same_rows zs_eqb (tb_session_status_of a) (tb_session_status_of b)
  && same_rows sz_eqb (tb_response_status_to a) (tb_response_status_to b) && same_rows zs_eqb (tb_response_status_of a) (tb_response_status_of b)
  && same_rows sz_eqb (tb_doc_error_to a) (tb_doc_error_to b) && same_rows zs_eqb (tb_doc_error_of a) (tb_doc_error_of b)
  && same_rows sz_eqb (tb_ec2_to a) (tb_ec2_to b) && same_rows zs_eqb (tb_ec2_of a) (tb_ec2_of b)
  && same_rows sz_eqb (tb_okp_to a) (tb_okp_to b) && same_rows zs_eqb (tb_okp_of a) (tb_okp_of b)
  && same_rows ss_eqb (tb_ec2_jwk_to a) (tb_ec2_jwk_to b) && same_rows ss_eqb (tb_ec2_jwk_of a) (tb_ec2_jwk_of b)
  && same_rows ss_eqb (tb_okp_jwk_to a) (tb_okp_jwk_to b) && same_rows ss_eqb (tb_okp_jwk_of a) (tb_okp_jwk_of b)
  && same_rows sz_eqb (tb_transport_to a) (tb_transport_to b) && same_rows zzs_eqb (tb_transport_of a) (tb_transport_of b)
  && (Z.eqb (tb_transport_version a) (tb_transport_version b)) && String.eqb (tb_engagement_version a) (tb_engagement_version b)
  && same_rows ss_eqb (tb_digest_alg a) (tb_digest_alg b) && same_rows ss_eqb (tb_device_auth a) (tb_device_auth b)
  && list_eqb String.eqb (tb_handover_order a) (tb_handover_order b)
  && (Z.eqb (tb_nfc_command_min a) (tb_nfc_command_min b)) && (Z.eqb (tb_nfc_command_max a) (tb_nfc_command_max b))
  && (Z.eqb (tb_nfc_response_min a) (tb_nfc_response_min b)) && (Z.eqb (tb_nfc_response_max a) (tb_nfc_response_max b)).

Definition names_agree : bool :=
  list_eqb struct_eqb wire_fields iso_fields
  && list_eqb String.eqb validity_info_names_to iso_validity_info_names
  && list_eqb String.eqb validity_info_names_of iso_validity_info_names
  && String.eqb doc_error_app_specific_guard "i<0"
  && validity_info_normalises.

Definition labels_agree : bool :=
  list_eqb Z.eqb cose_key_labels_to iso_cose_key_labels_to && list_eqb Z.eqb cose_key_labels_of iso_cose_key_labels_of
  && list_eqb Z.eqb device_engagement_labels_to iso_engagement_labels_to
  && list_eqb Z.eqb device_engagement_labels_of iso_engagement_labels_of
  && list_eqb Z.eqb ble_options_labels_to iso_ble_labels_to && list_eqb Z.eqb ble_options_labels_of iso_ble_labels_of
  && list_eqb Z.eqb wifi_options_labels_to iso_wifi_labels && list_eqb Z.eqb wifi_options_labels_of iso_wifi_labels
  && list_eqb Z.eqb nfc_options_labels_to iso_nfc_labels && list_eqb Z.eqb nfc_options_labels_of iso_nfc_labels.
