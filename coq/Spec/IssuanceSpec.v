(* C09 specification, written from the property text, ISO 18013-5 9.1.2.4 (MobileSecurityObject,
   ValueDigests, DigestID, IssuerSignedItemBytes = #6.24(bstr .cbor IssuerSignedItem),
   digest = H(IssuerSignedItemBytes)), 8.3.2.1.2.2 (IssuerSignedItem: digestID, random >= 16 bytes,
   elementIdentifier, elementValue) and 9.1.2.4 / RFC 8152 for issuerAuth (COSE_Sign1, protected
   alg, x5chain = label 33 in the unprotected header, payload = MobileSecurityObjectBytes).
   Independent of the code: it talks about an *observed* issued document, given as bytes / CBOR,
   and about the issuance inputs.  Prop-level statement plus an executable checker. *)
From Isomdl Require Import Lib.Bytes Lib.Cbor Lib.Sha2 Spec.CoseRfc.
From Coq Require Import Permutation.
Open Scope N_scope.
Local Open Scope string_scope.

(* ---------- DigestID: an unsigned integer in 0 .. 2^31 - 1 ---------- *)

Definition digest_id_in_range (v : Z) : Prop := (0 <= v < 2147483648)%Z.
Definition digest_id_in_range_b (v : Z) : bool := ((0 <=? v) && (v <? 2147483648))%Z.

(* ---------- digest algorithms by their ISO names ---------- *)

Definition iso_hash (name : bytes) : option (bytes -> bytes) :=
  if bytes_eqb name (bytes_of_string "SHA-256") then Some sha256
  else if bytes_eqb name (bytes_of_string "SHA-384") then Some sha384
  else if bytes_eqb name (bytes_of_string "SHA-512") then Some sha512
  else None.

(* IssuerSignedItemBytes = #6.24(bstr .cbor IssuerSignedItem), as bytes *)
Definition item_bytes_tagged (item_encoding : bytes) : bytes := encode (CTag 24 (CBytes item_encoding)).

(* a CBOR integer *)
Definition cose_int (z : Z) : cbor :=
  if (z <? 0)%Z then CNInt (Z.to_N (- 1 - z)) else CUInt (Z.to_N z).

(* ---------- inputs and observation ---------- *)

Record issue_request := {
  r_doc_type : bytes;
  r_namespaces : list (bytes * list (bytes * cbor));   (* a map of maps, listed in key order *)
  r_validity : cbor;
  r_alg : bytes;                                        (* "SHA-256" | "SHA-384" | "SHA-512" *)
  r_device_key_info : cbor;
  r_auth_namespaces : option (list bytes);              (* KeyAuthorizations.nameSpaces *)
  r_auth_elements : option (list (bytes * list bytes)); (* KeyAuthorizations.dataElements *)
  r_decoys : bool;
  r_sig_alg : Z;                                        (* the signer's COSE algorithm *)
  r_x5chain : cbor                                      (* the signer's x5chain as a COSE header value *)
}.

(* what is observed of a returned Mdoc *)
Record issued := {
  o_doc_type : bytes;
  o_mso : bytes;                                 (* CBOR encoding of the returned MSO *)
  o_namespaces : list (bytes * list bytes);      (* per namespace: the IssuerSignedItem encodings (content of each #6.24 bstr), in key order *)
  o_protected : bytes;                           (* issuerAuth: protected bstr *)
  o_unprotected : list (cbor * cbor);            (* issuerAuth: unprotected header map *)
  o_payload : option bytes;                      (* issuerAuth: payload *)
  o_signature : bytes
}.

(* ---------- IssuerSignedItem ---------- *)

Record signed_item := { si_id : cbor; si_random : bytes; si_ident : bytes; si_value : cbor }.

Definition parse_item (enc : bytes) : option signed_item :=
  match decode_all enc with
  | Some (CMap kvs) =>
    match map_get (ctext "digestID") kvs, map_get (ctext "random") kvs,
          map_get (ctext "elementIdentifier") kvs, map_get (ctext "elementValue") kvs with
    | Some id, Some (CBytes r), Some (CText e), Some v =>
      Some {| si_id := id; si_random := r; si_ident := e; si_value := v |}
    | _, _, _, _ => None
    end
  | _ => None
  end.

Definition id_ok (c : cbor) : bool := match c with CUInt n => n <? 2147483648 | _ => false end.

Definition elem_of (s : signed_item) : bytes * cbor := (si_ident s, si_value s).

(* one namespace: supplied elements [els], observed item encodings [ibs], valueDigests[ns] = [vd] *)
Definition ns_ok (H : bytes -> bytes) (decoys : bool) (els : list (bytes * cbor)) (ibs : list bytes)
           (vd : list (cbor * cbor)) : Prop :=
  exists sis,
    map parse_item ibs = map Some sis /\
    (* every supplied element appears exactly once, and nothing else does *)
    Permutation (map elem_of sis) els /\
    (* at least 16 random bytes *)
    Forall (fun s => (16 <= length (si_random s))%nat) sis /\
    (* digestID within 0 .. 2^31-1 and unique within the namespace *)
    Forall (fun s => id_ok (si_id s) = true) sis /\
    NoDup (map si_id sis) /\
    (* valueDigests[ns][digestID] = H(IssuerSignedItemBytes) *)
    Forall2 (fun s ib => map_get (si_id s) vd = Some (CBytes (H (item_bytes_tagged ib)))) sis ibs /\
    (* all digest ids of the namespace, decoys included, are in range and distinct; an id that is
       no element's id (a decoy) exists only when decoys are enabled *)
    Forall (fun kv => id_ok (fst kv) = true) vd /\
    NoDup (map fst vd) /\
    (decoys = false -> forall k, In k (map fst vd) -> In k (map si_id sis)).

Definition ns_entry_ok (H : bytes -> bytes) (decoys : bool) (vds : list (cbor * cbor))
           (inp : bytes * list (bytes * cbor)) (obs : bytes * list bytes) : Prop :=
  fst obs = fst inp /\
  exists vd, map_get (CText (fst inp)) vds = Some (CMap vd) /\ ns_ok H decoys (snd inp) (snd obs) vd.

Section Spec.
  (* the signer's public key as a check: to-be-signed bytes -> signature -> accepted? *)
  Variable verify_sig : bytes -> bytes -> bool.

  Definition mso_payload_of (o : issued) : bytes := encode (CTag 24 (CBytes (o_mso o))).

  Definition issuer_auth_ok (req : issue_request) (o : issued) : Prop :=
    (* names the signer's algorithm in the protected header: exactly {1: alg} *)
    o_protected o = encode (CMap [(CUInt 1, cose_int (r_sig_alg req))]) /\
    (* carries the signer's x5chain in the unprotected header *)
    map_get (CUInt 33) (o_unprotected o) = Some (r_x5chain req) /\
    (* payload is the tag-24 MSO equal to the returned MSO *)
    o_payload o = Some (mso_payload_of o) /\
    (* verifies under the signer's key over the RFC 8152 Sig_structure *)
    verify_sig (rfc_tbs_sign1 (o_protected o) [] (mso_payload_of o)) (o_signature o) = true.

  Definition mso_ok (req : issue_request) (o : issued) : Prop :=
    exists H kvs vds,
      iso_hash (r_alg req) = Some H /\
      decode_all (o_mso o) = Some (CMap kvs) /\
      map_get (ctext "version") kvs = Some (ctext "1.0") /\
      map_get (ctext "digestAlgorithm") kvs = Some (CText (r_alg req)) /\
      map_get (ctext "docType") kvs = Some (CText (r_doc_type req)) /\
      map_get (ctext "validityInfo") kvs = Some (r_validity req) /\
      map_get (ctext "deviceKeyInfo") kvs = Some (r_device_key_info req) /\
      map_get (ctext "valueDigests") kvs = Some (CMap vds) /\
      map fst vds = map (fun x => CText (fst x)) (r_namespaces req) /\
      Forall2 (ns_entry_ok H (r_decoys req) vds) (r_namespaces req) (o_namespaces o).

  Definition issued_ok (req : issue_request) (o : issued) : Prop :=
    o_doc_type o = r_doc_type req /\ issuer_auth_ok req o /\ mso_ok req o.

  (* refusal: empty namespace map, a namespace without elements, or a namespace authorised both
     wholly and per element *)
  Definition contradictory (req : issue_request) : Prop :=
    exists nss des ns, r_auth_namespaces req = Some nss /\ r_auth_elements req = Some des /\
                       In ns nss /\ In ns (map fst des).
  Definition must_refuse (req : issue_request) : Prop :=
    r_namespaces req = [] \/ (exists ns, In (ns, []) (r_namespaces req)) \/ contradictory req.

  (* ---------- executable checker: None = conforms, Some why = does not ---------- *)

  Definition verdict := option String.string.
  Definition need (c : bool) (why : String.string) (k : verdict) : verdict := if c then k else Some why.

  Fixpoint remove_first {A} (eqb : A -> A -> bool) (x : A) (l : list A) : option (list A) :=
    match l with
    | [] => None
    | y :: r => if eqb x y then Some r
                else match remove_first eqb x r with Some r' => Some (y :: r') | None => None end
    end.
  Fixpoint perm_b {A} (eqb : A -> A -> bool) (l1 l2 : list A) : bool :=
    match l1 with
    | [] => match l2 with [] => true | _ => false end
    | x :: r => match remove_first eqb x l2 with Some l2' => perm_b eqb r l2' | None => false end
    end.
  Fixpoint nodup_b {A} (eqb : A -> A -> bool) (l : list A) : bool :=
    match l with
    | [] => true
    | x :: r => negb (existsb (eqb x) r) && nodup_b eqb r
    end.
  Definition elem_eqb (a b : bytes * cbor) : bool := bytes_eqb (fst a) (fst b) && cbor_eqb (snd a) (snd b).

  Fixpoint parse_items (ibs : list bytes) : option (list signed_item) :=
    match ibs with
    | [] => Some []
    | ib :: r => match parse_item ib, parse_items r with
                 | Some s, Some ss => Some (s :: ss)
                 | _, _ => None
                 end
    end.

  Definition opt_cbor_eqb (a : option cbor) (b : cbor) : bool :=
    match a with Some x => cbor_eqb x b | None => false end.

  Fixpoint digests_b (H : bytes -> bytes) (vd : list (cbor * cbor)) (sis : list signed_item) (ibs : list bytes) : bool :=
    match sis, ibs with
    | [], [] => true
    | s :: sr, ib :: ir =>
      opt_cbor_eqb (map_get (si_id s) vd) (CBytes (H (item_bytes_tagged ib))) && digests_b H vd sr ir
    | _, _ => false
    end.

  Definition ns_check (H : bytes -> bytes) (decoys : bool) (els : list (bytes * cbor)) (ibs : list bytes)
             (vd : list (cbor * cbor)) : verdict :=
    match parse_items ibs with
    | None => Some "an item is not an IssuerSignedItem (digestID, random bstr, elementIdentifier tstr, elementValue)"
    | Some sis =>
      need (perm_b elem_eqb (map elem_of sis) els) "the items are not exactly the supplied elements, each once" (
      need (forallb (fun s => (16 <=? length (si_random s))%nat) sis) "an item has fewer than 16 random bytes" (
      need (forallb (fun s => id_ok (si_id s)) sis) "an item's digestID is outside 0..2^31-1" (
      need (nodup_b cbor_eqb (map si_id sis)) "digestID repeated within a namespace" (
      need (digests_b H vd sis ibs) "valueDigests[ns][digestID] is not the declared hash of the IssuerSignedItemBytes" (
      need (forallb (fun kv => id_ok (fst kv)) vd) "a digest id in valueDigests is outside 0..2^31-1" (
      need (nodup_b cbor_eqb (map fst vd)) "digest id repeated in valueDigests[ns]" (
      need (decoys || forallb (fun k => existsb (cbor_eqb k) (map si_id sis)) (map fst vd))
           "valueDigests has an id that is no element's although decoys are disabled" None)))))))
    end.

  Fixpoint nss_check (H : bytes -> bytes) (decoys : bool) (vds : list (cbor * cbor))
           (inp : list (bytes * list (bytes * cbor))) (obs : list (bytes * list bytes)) : verdict :=
    match inp, obs with
    | [], [] => None
    | (ns, els) :: ir, (ns', ibs) :: or =>
      need (bytes_eqb ns' ns) "namespaces of the document differ from the supplied namespaces" (
      match map_get (CText ns) vds with
      | Some (CMap vd) =>
        match ns_check H decoys els ibs vd with
        | Some why => Some why
        | None => nss_check H decoys vds ir or
        end
      | _ => Some "valueDigests lacks a supplied namespace"
      end)
    | _, _ => Some "namespaces of the document differ from the supplied namespaces"
    end.

  Fixpoint cbor_list_eqb (a b : list cbor) : bool :=
    match a, b with
    | [], [] => true
    | x :: a', y :: b' => cbor_eqb x y && cbor_list_eqb a' b'
    | _, _ => false
    end.

  Definition opt_bytes_eqb (a : option bytes) (b : bytes) : bool :=
    match a with Some x => bytes_eqb x b | None => false end.

  Definition issued_check (req : issue_request) (o : issued) : verdict :=
    need (bytes_eqb (o_doc_type o) (r_doc_type req)) "Mdoc.doc_type is not the requested docType" (
    need (bytes_eqb (o_protected o) (encode (CMap [(CUInt 1, cose_int (r_sig_alg req))])))
         "protected header is not exactly {1: signer's algorithm}" (
    need (opt_cbor_eqb (map_get (CUInt 33) (o_unprotected o)) (r_x5chain req))
         "unprotected header does not carry the signer's x5chain under label 33" (
    need (opt_bytes_eqb (o_payload o) (mso_payload_of o)) "payload is not #6.24(bstr .cbor returned MSO)" (
    need (verify_sig (rfc_tbs_sign1 (o_protected o) [] (mso_payload_of o)) (o_signature o))
         "issuerAuth does not verify under the signer's key" (
    match iso_hash (r_alg req) with
    | None => Some "requested digest algorithm is not SHA-256 / SHA-384 / SHA-512"
    | Some H =>
      match decode_all (o_mso o) with
      | Some (CMap kvs) =>
        need (opt_cbor_eqb (map_get (ctext "version") kvs) (ctext "1.0")) "MSO version is not 1.0" (
        need (opt_cbor_eqb (map_get (ctext "digestAlgorithm") kvs) (CText (r_alg req))) "MSO digestAlgorithm is not the requested one" (
        need (opt_cbor_eqb (map_get (ctext "docType") kvs) (CText (r_doc_type req))) "MSO docType is not the requested docType" (
        need (opt_cbor_eqb (map_get (ctext "validityInfo") kvs) (r_validity req)) "MSO validityInfo is not the requested validity" (
        need (opt_cbor_eqb (map_get (ctext "deviceKeyInfo") kvs) (r_device_key_info req)) "MSO deviceKeyInfo is not the supplied one" (
        match map_get (ctext "valueDigests") kvs with
        | Some (CMap vds) =>
          need (cbor_list_eqb (map fst vds) (map (fun x => CText (fst x)) (r_namespaces req)))
               "valueDigests namespaces differ from the supplied namespaces" (
          nss_check H (r_decoys req) vds (r_namespaces req) (o_namespaces o))
        | _ => Some "MSO has no valueDigests map"
        end)))))
      | _ => Some "returned MSO is not a CBOR map"
      end
    end))))).

  (* refusal, decided *)
  Definition bmem_s (b : bytes) (l : list bytes) : bool := existsb (bytes_eqb b) l.
  Definition contradictory_b (req : issue_request) : bool :=
    match r_auth_namespaces req, r_auth_elements req with
    | Some nss, Some des => existsb (fun ns => bmem_s ns (map fst des)) nss
    | _, _ => false
    end.
  Definition must_refuse_b (req : issue_request) : bool :=
    match r_namespaces req with [] => true | _ => false end
    || existsb (fun x => match snd x with [] => true | _ => false end) (r_namespaces req)
    || contradictory_b req.
End Spec.

(* ---------- statistical side checks (not part of the Prop-level statement: "fresh" randomness and
   "a decoy digest is no element's digest" hold only with overwhelming probability) ---------- *)

Fixpoint all_randoms (nss : list (bytes * list bytes)) : list bytes :=
  match nss with
  | [] => []
  | (_, ibs) :: r =>
    flat_map (fun ib => match parse_item ib with Some s => [si_random s] | None => [] end) ibs ++ all_randoms r
  end.

Definition randoms_distinct_b (o : issued) : bool := nodup_b bytes_eqb (all_randoms (o_namespaces o)).

(* digest values within a namespace are pairwise distinct: in particular no decoy digest equals
   an element's digest *)
Definition digest_values_distinct_b (o : issued) : bool :=
  match decode_all (o_mso o) with
  | Some (CMap kvs) =>
    match map_get (ctext "valueDigests") kvs with
    | Some (CMap vds) =>
      forallb (fun nv => match snd nv with CMap vd => nodup_b cbor_eqb (map snd vd) | _ => false end) vds
    | _ => false
    end
  | _ => false
  end.
