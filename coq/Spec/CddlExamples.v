(* The validators of Spec/Cddl.v evaluated on the example vectors that ship with the repository
   (Spec/CddlVectors.v).  These Examples validate the VALIDATORS (they accept the ISO examples and
   say why they reject the repository's synthetic fixture); they are not part of the C18 claim. *)
From Isomdl Require Import Lib.Bytes Lib.Cbor Spec.Cddl Spec.CddlVectors.
Open Scope N_scope.
Local Open Scope string_scope.

Example ex_cose_key_p256 : validate_bytes KCoseKey vec_cose_key_p256 = Ok.
Proof. vm_compute. reflexivity. Qed.

(* ISO 18013-5 Annex D IssuerSigned: nameSpaces with tag-24 items, issuerAuth with x5chain and an
   MSO payload (SHA-256, 13 digests in two namespaces, P-256 device key, tdates) *)
Example ex_issuer_signed : validate_bytes KIssuerSigned vec_issuer_signed = Ok.
Proof. vm_compute. reflexivity. Qed.

Example ex_issuer_signed_mso :
  match decode_all vec_issuer_signed with
  | Some v => match issuer_signed_mso v with
              | Some m => mso m = Ok /\ validate_bytes KMso (encode m) = Ok /\
                          issuer_signed_key_curve v = Some (2, 1%Z)
              | None => False
              end
  | None => False
  end.
Proof. vm_compute. repeat split; reflexivity. Qed.

Example ex_session_establishment : validate_bytes KEstablishment vec_session_establishment = Ok.
Proof. vm_compute. reflexivity. Qed.

(* SessionTranscriptBytes = #6.24(bstr .cbor [DeviceEngagementBytes, EReaderKeyBytes, Handover]) *)
Example ex_engagement_in_transcript :
  match decode_all vec_session_transcript with
  | Some t => match tag24_content t with
              | Some (CArray [de; erk; _]) =>
                check_tag24 "DeviceEngagementBytes" device_engagement de = Ok /\
                check_tag24 "EReaderKeyBytes" (cose_key "EReaderKey") erk = Ok
              | _ => False
              end
  | None => False
  end.
Proof. vm_compute. split; reflexivity. Qed.

(* engagement with a BLE retrieval method (peripheral server mode with UUID, no central client) *)
Example ex_engagement_qr : validate_bytes KEngagement vec_engagement_qr = Ok.
Proof. vm_compute. reflexivity. Qed.

Example ex_device_request : validate_bytes KDeviceRequest vec_device_request = Ok.
Proof. vm_compute. reflexivity. Qed.

Example ex_doc_request :
  match decode_all vec_doc_request with Some v => doc_request v = Ok | None => False end.
Proof. vm_compute. reflexivity. Qed.

Example ex_items_request_bytes :
  match decode_all vec_items_request_bytes with
  | Some v => check_tag24 "ItemsRequestBytes" items_request v = Ok
  | None => False
  end.
Proof. vm_compute. reflexivity. Qed.

(* ISO D.5.1: the DeviceRequest inside the example SessionEstablishment, decrypted with the example
   SKReader (by the harness, aes-gcm): a DocRequest WITH readerAuth (x5chain, detached payload) *)
Example ex_device_request_with_reader_auth : validate_bytes KDeviceRequest vec_device_request_iso_d51 = Ok.
Proof. vm_compute. reflexivity. Qed.

(* generic COSE fixtures of the repository: well-formed COSE_Sign1 / COSE_Mac0 with attached content *)
Example ex_cose_sign1 :
  match decode_all vec_cose_sign1 with
  | Some v => cose1 "COSE_Sign1" 18 signature_algs false (PayloadBstr (fun _ => Ok)) v = Ok
  | None => False
  end.
Proof. vm_compute. reflexivity. Qed.

Example ex_cose_mac0 :
  match decode_all vec_cose_mac0 with
  | Some v => cose1 "COSE_Mac0" 17 [alg_HMAC256] false (PayloadBstr (fun _ => Ok)) v = Ok
  | None => False
  end.
Proof. vm_compute. reflexivity. Qed.

(* test/definitions/device_response.cbor is NOT an ISO example: a hand-made round-trip fixture with
   a one-byte `random`, an issuerAuth whose payload is the text "This is the content." and a
   deviceMac with attached content.  The validator says so (first rule hit): *)
Example ex_device_response_synthetic_rejected :
  validate_bytes KDeviceResponse vec_device_response_synthetic =
  Fail "IssuerSignedItem.random: shorter than 16 bytes".
Proof. vm_compute. reflexivity. Qed.

(* negative controls on the ISO examples: single-field alterations are rejected with the right rule *)
Definition replace_key (old new : String.string) (v : cbor) : cbor :=
  match v with
  | CMap kvs => CMap (map (fun kv => if cbor_eqb (fst kv) (ctext old) then (ctext new, snd kv) else kv) kvs)
  | _ => v
  end.

Example ex_neg_request_key_renamed :
  match decode_all vec_device_request with
  | Some v => device_request (replace_key "docRequests" "docrequests" v) =
              Fail "DeviceRequest: map key that the definition does not have"
  | None => False
  end.
Proof. vm_compute. reflexivity. Qed.

Example ex_neg_session_data :
  session_data (CMap [(ctext "data", CBytes [1]); (ctext "status", CUInt 10)]) =
    Fail "SessionData: data present together with an error status" /\
  session_data (CMap [(ctext "status", CUInt 10)]) = Ok /\
  session_data (CMap [(ctext "data", CBytes [1]); (ctext "status", CUInt 20)]) = Ok /\
  session_data (CMap [(ctext "status", CUInt 12)]) = Fail "SessionData.status: value not in the defined set" /\
  session_data (CMap []) = Fail "SessionData: neither data nor status".
Proof. vm_compute. repeat split; reflexivity. Qed.

Example ex_neg_response :
  device_response (CMap [(ctext "version", CText (bytes_of_string "1.1")); (ctext "status", CUInt 0)]) =
    Fail "DeviceResponse.version: is not ""1.0""" /\
  device_response (CMap [(ctext "version", CText (bytes_of_string "1.0")); (ctext "documents", CArray []); (ctext "status", CUInt 0)]) =
    Fail "DeviceResponse.documents: empty array" /\
  device_response (CMap [(ctext "version", CText (bytes_of_string "1.0")); (ctext "status", CUInt 13)]) =
    Fail "DeviceResponse.status: value not in the defined set" /\
  device_response (CMap [(ctext "version", CText (bytes_of_string "1.0")); (ctext "status", CUInt 11)]) = Ok.
Proof. vm_compute. repeat split; reflexivity. Qed.
