(* ISO/IEC 18013-5 9.1.1.5: IV = identifier (8 bytes) || message counter (4 bytes, big-endian);
   identifier 00..00 for the mdoc reader, 00..01 for the mdoc; counter starts at 1.
   Literals written from the standard, not taken from the code. *)
From Isomdl Require Import Lib.Bytes Model.Iv.
Open Scope N_scope.

Definition iso_identifier (r : role) : bytes :=
  match r with
  | Reader => [0; 0; 0; 0; 0; 0; 0; 0]
  | Device => [0; 0; 0; 0; 0; 0; 0; 1]
  end.

Definition iso_iv (r : role) (n : N) : bytes := iso_identifier r ++ be_bytes 4 n.
