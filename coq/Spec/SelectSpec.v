(* C02 specification, from the property text. *)
From Isomdl Require Import Lib.Bytes Model.Select.
Open Scope N_scope.

Section Spec.
  Context {A : Type}.

  (* the request being answered asks for (dt, ns, id) in one of its entries *)
  Definition requested (req : request) (dt ns id : key) : Prop :=
    exists nss ids, In (dt, nss) req /\ aget ns nss = Some ids /\ mem id ids = true.

  Definition is_permitted (perm : permitted) (dt ns id : key) : Prop :=
    exists nss ids, In (dt, nss) perm /\ In (ns, ids) nss /\ In id ids.

  Definition held (docs : list (key * document A)) (dt ns id : key) (it : A) : Prop :=
    exists d items, aget dt docs = Some d /\ aget ns (d_ns d) = Some items /\ aget id items = Some it.
  Definition not_held (docs : list (key * document A)) (d : document A) (ns id : key) : Prop :=
    match aget ns (d_ns d) with Some items => aget id items = None | None => True end.

  Definition disclosed (s : selection A) (dt ns : key) (it : A) : Prop :=
    exists pd items, In pd (sel_docs s) /\ pd_doc_type pd = dt /\ In (ns, items) (pd_disclosed pd) /\ In it items.
  Definition element_error (s : selection A) (dt ns id : key) : Prop :=
    exists pd ids, In pd (sel_docs s) /\ pd_doc_type pd = dt /\ In (ns, ids) (pd_errors pd) /\ In id ids.
  Definition document_error (s : selection A) (dt : key) : Prop := In dt (sel_doc_errors s).
End Spec.
