(* C12 specification: when is an (abstract) leaf certificate, presented with a trust anchor
   registry, conformant to ISO/IEC 18013-5 Annex B under one of the three rule sets.

   Written from the property text and from ISO/IEC 18013-5:2021 Annex B (tables B.1 IACA root,
   B.3 document signer, B.7 mdoc reader authentication; B.1.1 list of extensions that shall not
   be present) and RFC 5280 -- NOT from the code.  Only the data types of Model/X509.v are used.
   All literals below are typed in here from the standards; Proofs/X509Proofs.v proves the
   generated ones (copied from the source by the translator) equal to them. *)
From Isomdl Require Import Lib.Bytes Model.X509.
Open Scope N_scope.

(* ---------- literals (RFC 5280 / X.520 / ISO 18013-5) ---------- *)

Definition id_ce (n : N) : oid := [2; 5; 29; n].                 (* joint-iso-ccitt(2) ds(5) 29 *)
Definition oid_subject_key_identifier : oid := id_ce 14.
Definition oid_key_usage : oid := id_ce 15.
Definition oid_issuer_alt_name : oid := id_ce 18.
Definition oid_basic_constraints : oid := id_ce 19.
Definition oid_name_constraints : oid := id_ce 30.
Definition oid_crl_distribution_points : oid := id_ce 31.
Definition oid_policy_mappings : oid := id_ce 33.
Definition oid_authority_key_identifier : oid := id_ce 35.
Definition oid_policy_constraints : oid := id_ce 36.
Definition oid_ext_key_usage : oid := id_ce 37.
Definition oid_freshest_crl : oid := id_ce 46.
Definition oid_inhibit_any_policy : oid := id_ce 54.

Definition id_at (n : N) : oid := [2; 5; 4; n].
Definition at_country_name : oid := id_at 6.
Definition at_state_or_province_name : oid := id_at 8.

(* ISO 18013-5 B.1.4 / B.1.7: id-mdl-kp-mdlDS = 1.0.18013.5.1.2, id-mdl-kp-mdlReaderAuth = 1.0.18013.5.1.6 *)
Definition id_mdl_kp (n : N) : oid := [1; 0; 18013; 5; 1; n].
Definition eku_mdl_ds : oid := id_mdl_kp 2.
Definition eku_mdl_reader_auth : oid := id_mdl_kp 6.

(* RFC 5280 4.2.1.3 KeyUsage bit numbers; a usage set is the sum of 2^bit *)
Definition ku_bit (n : N) : N := 2 ^ n.
Definition ku_digital_signature_only : N := ku_bit 0.
Definition ku_key_cert_sign_and_crl_sign : N := ku_bit 5 + ku_bit 6.

(* ISO 18013-5 B.1.1: "the following extensions shall not be present" *)
Definition prohibited_extensions : list oid :=
  [oid_policy_mappings; oid_name_constraints; oid_policy_constraints; oid_inhibit_any_policy; oid_freshest_crl].

Inductive role := DocumentSigner | MdocReader | IacaRoot.

Definition leaf_role (rs : ruleset) : role :=
  match rs with Mdl | AamvaMdl => DocumentSigner | MdlReaderOneStep => MdocReader end.
Definition anchor_purpose (rs : ruleset) : purpose :=
  match rs with Mdl | AamvaMdl => Iaca | MdlReaderOneStep => ReaderCa end.

(* ---------- small observers ---------- *)

Definition exts_with (c : cert) (o : oid) : list ext := filter (fun e => oid_eqb (e_oid e) o) (c_exts c).

(* values of the subject attributes of type o, over all RDNs *)
Definition subject_attribute_values (c : cert) (o : oid) : list bytes :=
  map snd (filter (fun a : attr => oid_eqb (fst a) o) (concat (c_subject c))).

Section Spec.
Variable ski_of_key : bytes -> bytes.          (* SHA-1, RFC 5280 4.2.1.2 method (1) *)
Variable verifies : cert -> cert -> bool.      (* subject's signature verifies under issuer's key *)

(* ---------- required values ---------- *)

Definition ski_matches_key (c : cert) (d : decoded) : Prop := d = DSki (ski_of_key (c_key c)).
Definition ku_only (bits : N) (d : decoded) : Prop := d = DKeyUsage bits.
Definition eku_only (o : oid) (d : decoded) : Prop :=
  exists oids, d = DExtKeyUsage oids /\ oids <> [] /\ (forall x, In x oids -> x = o).
Definition bc_ca_pathlen0 (d : decoded) : Prop := d = DBasicConstraints true (Some 0).
Definition uri_point (p : dist_point) : Prop :=
  dp_reasons p = false /\ dp_crl_issuer p = false /\
  exists names, dp_name_of p = DpFullName names /\ In GnUri names.
Definition crl_uri (d : decoded) : Prop :=
  exists points, d = DCrlDp points /\ points <> [] /\ (forall p, In p points -> uri_point p).
Definition ian_contact (d : decoded) : Prop :=
  exists names, d = DIssuerAltName names /\ names <> [] /\ (forall g, In g names -> g = GnRfc822 \/ g = GnUri).

(* the certificate carries exactly one extension with this OID, and its value is as required *)
Definition carries (c : cert) (o : oid) (P : decoded -> Prop) : Prop :=
  exists e, exts_with c o = [e] /\ P (e_val e).

Definition requirements (r : role) (c : cert) : list (oid * (decoded -> Prop)) :=
  match r with
  | DocumentSigner =>
    [ (oid_subject_key_identifier, ski_matches_key c);
      (oid_key_usage, ku_only ku_digital_signature_only);
      (oid_ext_key_usage, eku_only eku_mdl_ds);
      (oid_crl_distribution_points, crl_uri);
      (oid_issuer_alt_name, ian_contact) ]
  | MdocReader =>
    [ (oid_subject_key_identifier, ski_matches_key c);
      (oid_key_usage, ku_only ku_digital_signature_only);
      (oid_ext_key_usage, eku_only eku_mdl_reader_auth);
      (oid_crl_distribution_points, crl_uri);
      (oid_issuer_alt_name, ian_contact) ]
  | IacaRoot =>
    [ (oid_subject_key_identifier, ski_matches_key c);
      (oid_key_usage, ku_only ku_key_cert_sign_and_crl_sign);
      (oid_basic_constraints, bc_ca_pathlen0);
      (oid_crl_distribution_points, crl_uri);
      (oid_issuer_alt_name, ian_contact) ]
  end.

(* the extension part of a profile: every required extension, no prohibited one, and nothing
   critical that the profile does not define *)
Definition profile (r : role) (c : cert) : Prop :=
  (forall o P, In (o, P) (requirements r c) -> carries c o P) /\
  (forall e, In e (c_exts c) -> ~ In (e_oid e) prohibited_extensions) /\
  (forall e, In e (c_exts c) -> e_crit e = true -> In (e_oid e) (map fst (requirements r c))).

Definition within_validity (now : Z) (c : cert) : Prop := (c_not_before c <= now <= c_not_after c)%Z.

(* the clock reads a time after the epoch that fits the implementation's i64 *)
Definition clock_ok (now : Z) : Prop := (0 <= now < 2 ^ 63)%Z.

(* the anchor carries a subject key identifier equal to the leaf's authority key identifier *)
Definition key_ids_match (leaf a : cert) : Prop :=
  exists id e_l e_a,
    In e_l (c_exts leaf) /\ e_oid e_l = oid_authority_key_identifier /\ e_val e_l = DAki (Some id) /\
    In e_a (c_exts a) /\ e_oid e_a = oid_subject_key_identifier /\ e_val e_a = DSki id.

Definition anchors (now : Z) (leaf a : cert) : Prop :=
  c_subject a = c_issuer leaf /\ key_ids_match leaf a /\ within_validity now a /\ verifies leaf a = true.

Definition same_subject_attribute (o : oid) (leaf a : cert) : Prop :=
  exists v, subject_attribute_values leaf o = [v] /\ subject_attribute_values a o = [v].
Definition no_subject_attribute (o : oid) (c : cert) : Prop := subject_attribute_values c o = [].

(* what an issuer chain requires of the IACA beyond anchoring the leaf *)
Definition issuer_chain_rules (rs : ruleset) (leaf a : cert) : Prop :=
  match rs with
  | MdlReaderOneStep => True
  | Mdl =>
    profile IacaRoot a /\ same_subject_attribute at_country_name leaf a /\
    (same_subject_attribute at_state_or_province_name leaf a \/
     (no_subject_attribute at_state_or_province_name leaf /\ no_subject_attribute at_state_or_province_name a))
  | AamvaMdl =>
    profile IacaRoot a /\ same_subject_attribute at_country_name leaf a /\
    same_subject_attribute at_state_or_province_name leaf a
  end.

Definition conformant (rs : ruleset) (now : Z) (leaf : cert) (reg : list anchor) : Prop :=
  within_validity now leaf /\
  profile (leaf_role rs) leaf /\
  exists a, In a reg /\ a_purpose a = anchor_purpose rs /\ anchors now leaf (a_cert a) /\
            issuer_chain_rules rs leaf (a_cert a).

(* ---------- single deviations from the profile ("any single deviation produces at least one
   error").  [deviation rs now leaf reg] lists, field by field, the ways in which the presented
   leaf / the registry can depart from [conformant]. ---------- *)

Definition ext_absent (c : cert) (o : oid) : Prop := forall e, In e (c_exts c) -> e_oid e <> o.

(* a required extension is absent *)
Definition ext_missing (r : role) (c : cert) : Prop :=
  exists o, In o (map fst (requirements r c)) /\ ext_absent c o.
(* some instance of a required extension does not have the required value *)
Definition ext_wrong (r : role) (c : cert) : Prop :=
  exists o P e, In (o, P) (requirements r c) /\ In e (c_exts c) /\ e_oid e = o /\ ~ P (e_val e).
Definition has_prohibited (c : cert) : Prop :=
  exists e, In e (c_exts c) /\ In (e_oid e) prohibited_extensions.
Definition has_unknown_critical (r : role) (c : cert) : Prop :=
  exists e, In e (c_exts c) /\ e_crit e = true /\ ~ In (e_oid e) (map fst (requirements r c)).
Definition profile_deviation (r : role) (c : cert) : Prop :=
  ext_missing r c \/ ext_wrong r c \/ has_prohibited c \/ has_unknown_critical r c.

Definition matching_anchor (rs : ruleset) (now : Z) (leaf : cert) (a : anchor) : Prop :=
  a_purpose a = anchor_purpose rs /\ anchors now leaf (a_cert a).

Inductive deviation (rs : ruleset) (now : Z) (leaf : cert) (reg : list anchor) : Prop :=
(* the leaf's validity period *)
| DevLeafNotYetValid : (now < c_not_before leaf)%Z -> deviation rs now leaf reg
| DevLeafExpired : (c_not_after leaf < now)%Z -> deviation rs now leaf reg
(* the leaf's extensions *)
| DevLeafExtMissing : ext_missing (leaf_role rs) leaf -> deviation rs now leaf reg
| DevLeafExtWrong : ext_wrong (leaf_role rs) leaf -> deviation rs now leaf reg
| DevLeafProhibited : has_prohibited leaf -> deviation rs now leaf reg
| DevLeafUnknownCritical : has_unknown_critical (leaf_role rs) leaf -> deviation rs now leaf reg
(* trust anchoring: no registry entry of the matching purpose anchors the leaf ... *)
| DevNoMatchingAnchor :
    (forall a, In a reg -> ~ matching_anchor rs now leaf a) -> deviation rs now leaf reg
(* ... spelt out cause by cause *)
| DevRegistryEmpty : reg = [] -> deviation rs now leaf reg
| DevOnlyOtherPurpose :
    (forall a, In a reg -> a_purpose a <> anchor_purpose rs) -> deviation rs now leaf reg
| DevIssuerNameUnknown :
    (forall a, In a reg -> a_purpose a = anchor_purpose rs -> c_subject (a_cert a) <> c_issuer leaf) ->
    deviation rs now leaf reg
| DevAkiAbsent : ext_absent leaf oid_authority_key_identifier -> deviation rs now leaf reg
| DevAkiWithoutKeyId :
    (forall e, In e (c_exts leaf) -> e_oid e = oid_authority_key_identifier -> forall id, e_val e <> DAki (Some id)) ->
    deviation rs now leaf reg
| DevKeyIdMismatch :
    (forall a, In a reg -> a_purpose a = anchor_purpose rs -> ~ key_ids_match leaf (a_cert a)) ->
    deviation rs now leaf reg
| DevBadSignature :
    (forall a, In a reg -> a_purpose a = anchor_purpose rs -> verifies leaf (a_cert a) = false) ->
    deviation rs now leaf reg
| DevAnchorOutOfValidity :
    (forall a, In a reg -> a_purpose a = anchor_purpose rs -> ~ within_validity now (a_cert a)) ->
    deviation rs now leaf reg
(* issuer chains: every registry entry that anchors the leaf departs from the IACA profile,
   or from the name rules *)
| DevIacaProfile :
    rs <> MdlReaderOneStep ->
    (forall a, In a reg -> matching_anchor rs now leaf a -> profile_deviation IacaRoot (a_cert a)) ->
    deviation rs now leaf reg
| DevCountry :
    rs <> MdlReaderOneStep ->
    (forall a, In a reg -> matching_anchor rs now leaf a -> ~ same_subject_attribute at_country_name leaf (a_cert a)) ->
    deviation rs now leaf reg
| DevStateAamva :
    rs = AamvaMdl ->
    (forall a, In a reg -> matching_anchor rs now leaf a ->
               ~ same_subject_attribute at_state_or_province_name leaf (a_cert a)) ->
    deviation rs now leaf reg
| DevStateMdl :
    rs = Mdl ->
    (forall a, In a reg -> matching_anchor rs now leaf a ->
               ~ (same_subject_attribute at_state_or_province_name leaf (a_cert a) \/
                  (no_subject_attribute at_state_or_province_name leaf /\
                   no_subject_attribute at_state_or_province_name (a_cert a)))) ->
    deviation rs now leaf reg.

(* ---------- executable form ---------- *)

Definition ski_matches_key_b (c : cert) (d : decoded) : bool :=
  match d with DSki id => bytes_eqb id (ski_of_key (c_key c)) | _ => false end.
Definition ku_only_b (bits : N) (d : decoded) : bool :=
  match d with DKeyUsage b => b =? bits | _ => false end.
Definition eku_only_b (o : oid) (d : decoded) : bool :=
  match d with DExtKeyUsage (x :: r) => forallb (fun y => oid_eqb y o) (x :: r) | _ => false end.
Definition bc_ca_pathlen0_b (d : decoded) : bool :=
  match d with DBasicConstraints true (Some n) => n =? 0 | _ => false end.
Definition uri_point_b (p : dist_point) : bool :=
  negb (dp_reasons p) && negb (dp_crl_issuer p) &&
  match dp_name_of p with DpFullName names => existsb (fun g => match g with GnUri => true | _ => false end) names | _ => false end.
Definition crl_uri_b (d : decoded) : bool :=
  match d with DCrlDp (p :: r) => forallb uri_point_b (p :: r) | _ => false end.
Definition ian_contact_b (d : decoded) : bool :=
  match d with
  | DIssuerAltName (g :: r) => forallb (fun g => match g with GnRfc822 | GnUri => true | GnOther => false end) (g :: r)
  | _ => false
  end.

Definition carries_b (c : cert) (o : oid) (P : decoded -> bool) : bool :=
  match exts_with c o with [e] => P (e_val e) | _ => false end.

Definition requirements_b (r : role) (c : cert) : list (oid * (decoded -> bool)) :=
  match r with
  | DocumentSigner =>
    [ (oid_subject_key_identifier, ski_matches_key_b c);
      (oid_key_usage, ku_only_b ku_digital_signature_only);
      (oid_ext_key_usage, eku_only_b eku_mdl_ds);
      (oid_crl_distribution_points, crl_uri_b);
      (oid_issuer_alt_name, ian_contact_b) ]
  | MdocReader =>
    [ (oid_subject_key_identifier, ski_matches_key_b c);
      (oid_key_usage, ku_only_b ku_digital_signature_only);
      (oid_ext_key_usage, eku_only_b eku_mdl_reader_auth);
      (oid_crl_distribution_points, crl_uri_b);
      (oid_issuer_alt_name, ian_contact_b) ]
  | IacaRoot =>
    [ (oid_subject_key_identifier, ski_matches_key_b c);
      (oid_key_usage, ku_only_b ku_key_cert_sign_and_crl_sign);
      (oid_basic_constraints, bc_ca_pathlen0_b);
      (oid_crl_distribution_points, crl_uri_b);
      (oid_issuer_alt_name, ian_contact_b) ]
  end.

Definition oid_in (o : oid) (l : list oid) : bool := existsb (oid_eqb o) l.

Definition profile_b (r : role) (c : cert) : bool :=
  forallb (fun op : oid * (decoded -> bool) => carries_b c (fst op) (snd op)) (requirements_b r c) &&
  forallb (fun e => negb (oid_in (e_oid e) prohibited_extensions)) (c_exts c) &&
  forallb (fun e => negb (e_crit e) || oid_in (e_oid e) (map fst (requirements_b r c))) (c_exts c).

Definition within_validity_b (now : Z) (c : cert) : bool :=
  ((c_not_before c <=? now) && (now <=? c_not_after c))%Z.

Definition key_ids_match_b (leaf a : cert) : bool :=
  existsb (fun e_l =>
    oid_eqb (e_oid e_l) oid_authority_key_identifier &&
    match e_val e_l with
    | DAki (Some id) =>
      existsb (fun e_a => oid_eqb (e_oid e_a) oid_subject_key_identifier &&
                          match e_val e_a with DSki id' => bytes_eqb id' id | _ => false end) (c_exts a)
    | _ => false
    end) (c_exts leaf).

Definition anchors_b (now : Z) (leaf a : cert) : bool :=
  name_eqb (c_subject a) (c_issuer leaf) && key_ids_match_b leaf a && within_validity_b now a && verifies leaf a.

Definition same_subject_attribute_b (o : oid) (leaf a : cert) : bool :=
  match subject_attribute_values leaf o, subject_attribute_values a o with
  | [v], [w] => bytes_eqb v w
  | _, _ => false
  end.
Definition no_subject_attribute_b (o : oid) (c : cert) : bool := is_nil (subject_attribute_values c o).

Definition issuer_chain_rules_b (rs : ruleset) (leaf a : cert) : bool :=
  match rs with
  | MdlReaderOneStep => true
  | Mdl =>
    profile_b IacaRoot a && same_subject_attribute_b at_country_name leaf a &&
    (same_subject_attribute_b at_state_or_province_name leaf a ||
     (no_subject_attribute_b at_state_or_province_name leaf && no_subject_attribute_b at_state_or_province_name a))
  | AamvaMdl =>
    profile_b IacaRoot a && same_subject_attribute_b at_country_name leaf a &&
    same_subject_attribute_b at_state_or_province_name leaf a
  end.

Definition conformant_b (rs : ruleset) (now : Z) (leaf : cert) (reg : list anchor) : bool :=
  within_validity_b now leaf &&
  profile_b (leaf_role rs) leaf &&
  existsb (fun a => purpose_eqb (a_purpose a) (anchor_purpose rs) && anchors_b now leaf (a_cert a) &&
                    issuer_chain_rules_b rs leaf (a_cert a)) reg.

(* ---------- the domain of the equivalence (see Props/C12.v).  [rfc5280_wf] delimits the
   certificates the property speaks about; [unambiguous_anchor] is there because the
   implementation deviates outside it (C12_iff_refuted_ambiguous_anchor). ---------- *)

(* RFC 5280 4.2: "A certificate MUST NOT include more than one instance of a particular
   extension".  The property text neither requires nor forbids accepting a certificate that
   repeats an extension, so such certificates are outside the domain: [conformant] asks for
   exactly one instance, the implementation is content when every instance validates
   (C12_iff_needs_unique_extensions shows the restriction is needed for the iff as stated). *)
Definition rfc5280_wf (c : cert) : Prop := NoDup (map e_oid (c_exts c)).

Fixpoint nodup_b (l : list oid) : bool :=
  match l with [] => true | x :: r => negb (oid_in x r) && nodup_b r end.
Definition rfc5280_wf_b (c : cert) : bool := nodup_b (map e_oid (c_exts c)).

(* the registry entries that anchor the leaf for this rule set *)
Definition anchoring_entries (rs : ruleset) (now : Z) (leaf : cert) (reg : list anchor) : list anchor :=
  filter (fun a => purpose_eqb (a_purpose a) (anchor_purpose rs) && anchors_b now leaf (a_cert a)) reg.

(* at most one registry entry anchors the leaf.  Only the issuer rule sets look at the anchor
   beyond anchoring, so for the reader rule set there is nothing to be ambiguous about. *)
Definition unambiguous_anchor (rs : ruleset) (now : Z) (leaf : cert) (reg : list anchor) : Prop :=
  match rs with
  | MdlReaderOneStep => True
  | _ => (length (anchoring_entries rs now leaf reg) <= 1)%nat
  end.
Definition unambiguous_anchor_b (rs : ruleset) (now : Z) (leaf : cert) (reg : list anchor) : bool :=
  match rs with
  | MdlReaderOneStep => true
  | _ => match anchoring_entries rs now leaf reg with _ :: _ :: _ => false | _ => true end
  end.

(* the restriction each direction of the equivalence needs *)
Definition inputs_wf (rs : ruleset) (leaf : cert) (reg : list anchor) : Prop :=
  rfc5280_wf leaf /\
  match rs with
  | MdlReaderOneStep => True
  | _ => forall a, In a reg -> a_purpose a = Iaca -> rfc5280_wf (a_cert a)
  end.
Definition inputs_wf_b (rs : ruleset) (leaf : cert) (reg : list anchor) : bool :=
  rfc5280_wf_b leaf &&
  match rs with
  | MdlReaderOneStep => true
  | _ => forallb (fun a => negb (purpose_eqb (a_purpose a) Iaca) || rfc5280_wf_b (a_cert a)) reg
  end.

End Spec.
