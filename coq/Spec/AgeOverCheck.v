(* C20: executable form of nearest_spec for items that are byte strings; this is what the
   correspondence harness evaluates on the implementation's answers. *)
From Isomdl Require Import Lib.Bytes Lib.Cbor Model.AgeOver Spec.AgeOverSpec.
Open Scope N_scope.

Definition bentry := @entry bytes.

Definition entry_eqb (a b : bentry) : bool :=
  bytes_eqb (fst a) (fst b) && cbor_eqb (fst (snd a)) (fst (snd b)) && bytes_eqb (snd (snd a)) (snd (snd b)).

Definition is_claim_b (e : bentry) : bool := contains age_over_infix (e_id e).
Definition age_b (e : bentry) : option N := match parse_age (e_id e) with AOk n => Some n | _ => None end.
Definition true_b (e : bentry) : bool := cbor_eqb (e_val e) (CBool true).
Definition false_b (e : bentry) : bool := cbor_eqb (e_val e) (CBool false).

Definition held_wf_b (held : list bentry) : bool :=
  forallb (fun e => negb (is_claim_b e) ||
                    (match age_b e with Some _ => true | None => false end && (true_b e || false_b e))) held.

(* every claim c' of the held set satisfies p (given its age) *)
Definition all_claims (held : list bentry) (p : bentry -> N -> bool) : bool :=
  forallb (fun e => negb (is_claim_b e) || match age_b e with Some n => p e n | None => true end) held.

Definition nearest_spec_b (nn : N) (held : list bentry) (r : option bentry) : bool :=
  match r with
  | Some c =>
    existsb (entry_eqb c) held && is_claim_b c &&
    match age_b c with
    | None => false
    | Some n =>
      if true_b c then
        (nn <=? n) && all_claims held (fun c' n' => negb (true_b c') || negb (nn <=? n') || (n <=? n'))
      else if false_b c then
        (n <=? nn)
        && all_claims held (fun c' n' => negb (true_b c') || (n' <? nn))
        && all_claims held (fun c' n' => negb (false_b c') || negb (n' <=? nn) || (n' <=? n))
      else false
    end
  | None =>
    all_claims held (fun c' n' => (negb (true_b c') || (n' <? nn)) && (negb (false_b c') || (nn <? n')))
  end.
