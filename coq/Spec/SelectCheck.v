(* C02: executable form of the specification (items are byte strings), evaluated by the harness on
   what the implementation actually put into the response. *)
From Isomdl Require Import Lib.Bytes Model.Select Spec.SelectSpec.
Open Scope N_scope.

Definition bdoc := document bytes.
Definition bsel := selection bytes.

Definition requested_any_b (req : request) (dt ns id : key) : bool :=
  existsb (fun e => bytes_eqb (fst e) dt &&
                    existsb (fun n => bytes_eqb (fst n) ns && mem id (snd n)) (snd e)) req.

Definition permitted_b (perm : permitted) (dt ns id : key) : bool :=
  existsb (fun e => bytes_eqb (fst e) dt &&
                    existsb (fun n => bytes_eqb (fst n) ns && mem id (snd n)) (snd e)) perm.

Definition held_item (docs : list (key * bdoc)) (dt ns id : key) : option bytes :=
  match aget dt docs with
  | Some d => match aget ns (d_ns d) with Some items => aget id items | None => None end
  | None => None
  end.

Definition disclosed_b (s : bsel) (dt ns : key) (it : bytes) : bool :=
  existsb (fun pd => bytes_eqb (pd_doc_type pd) dt &&
                     existsb (fun ni => bytes_eqb (fst ni) ns && mem it (snd ni)) (pd_disclosed pd)) (sel_docs s).
Definition element_error_b (s : bsel) (dt ns id : key) : bool :=
  existsb (fun pd => bytes_eqb (pd_doc_type pd) dt &&
                     existsb (fun ni => bytes_eqb (fst ni) ns && mem id (snd ni)) (pd_errors pd)) (sel_docs s).
Definition document_error_b (s : bsel) (dt : key) : bool := mem dt (sel_doc_errors s).

(* every disclosed item is a held item whose identifier was requested and permitted *)
Definition sound_b (docs : list (key * bdoc)) (req : request) (perm : permitted) (s : bsel) : bool :=
  forallb (fun pd =>
    forallb (fun ni =>
      forallb (fun it =>
        match aget (pd_doc_type pd) docs with
        | Some d =>
          match aget (fst ni) (d_ns d) with
          | Some items =>
            existsb (fun kv => bytes_eqb (snd kv) it &&
                               requested_any_b req (pd_doc_type pd) (fst ni) (fst kv) &&
                               permitted_b perm (pd_doc_type pd) (fst ni) (fst kv)) items
          | None => false
          end
        | None => false
        end) (snd ni)) (pd_disclosed pd)) (sel_docs s).

(* errors and document errors only for what was requested and permitted *)
Definition errors_sound_pd (req : request) (perm : permitted) (pd : prepared_doc bytes) : bool :=
  forallb (fun ni : key * list key =>
             forallb (fun id : key => requested_any_b req (pd_doc_type pd) (fst ni) id &&
                                      permitted_b perm (pd_doc_type pd) (fst ni) id) (snd ni)) (pd_errors pd).

Definition errors_sound_b (docs : list (key * bdoc)) (req : request) (perm : permitted) (s : bsel) : bool :=
  forallb (errors_sound_pd req perm) (sel_docs s) &&
  forallb (fun dt : key => existsb (fun e : key * list (key * list key) => bytes_eqb (fst e) dt) req &&
                           existsb (fun e : key * list (key * list key) => bytes_eqb (fst e) dt) perm)
    (sel_doc_errors s).

(* every requested (in entry list `reqs`) and permitted element is disclosed or listed *)
Definition complete_elem (docs : list (key * bdoc)) (reqs : request) (s : bsel) (dt ns id : key) : bool :=
  negb (requested_any_b reqs dt ns id) ||
  match aget dt docs with
  | None => document_error_b s dt
  | Some d =>
    if d_can_sign d then
      match held_item docs dt ns id with
      | Some it => disclosed_b s dt ns it
      | None => element_error_b s dt ns id
      end
    else document_error_b s dt
  end.

Definition complete_b (docs : list (key * bdoc)) (reqs : request) (perm : permitted) (s : bsel) : bool :=
  forallb (fun pe : key * list (key * list key) =>
    forallb (fun pn : key * list key =>
      forallb (fun id : key => complete_elem docs reqs s (fst pe) (fst pn) id) (snd pn)) (snd pe)) perm.

