(* C19 specification: the mDL data model of ISO/IEC 18013-5:2021 (7.2.1 Table 5, 7.2.4 driving
   privileges) and of the AAMVA mDL Implementation Guidelines 1.2 (namespace
   org.iso.18013.5.1.aamva), written from those documents and from RFC 3339 / RFC 8943 / ISO 3166-1,
   NOT from the code.  Each row: identifier, value class (what JSON value is in the domain and which
   CBOR value must come out), presence.

   The specification is executable (boolean); the Prop-level statement `faithful` at the end is what
   the theorems of Props/C19.v are about, and `*_b` functions are what the harness evaluates on
   the implementation's output. *)
From Isomdl Require Import Lib.Bytes Lib.Utf8 Lib.Cbor Lib.GenTypes Lib.Civil Gen.Constants Model.FromJson.
Open Scope N_scope.

(* ---------- value classes ---------- *)

Inductive vclass :=
| VText                                    (* tstr, any *)
| VLatin1                                  (* tstr, ISO 8859-1 printable, at most 150 characters *)
| VFullDate                                (* full-date = #6.1004(tstr), RFC 3339 full-date *)
| VTDate                                   (* tdate = #6.0(tstr), UTC, no fraction *)
| VTDateOrFullDate
| VBytes                                   (* bstr; supplied in JSON as base64 *)
| VUInt32                                  (* uint *)
| VBool
| VCodeText (codes : list bytes) (fold : norm_kind)   (* coded enumeration, text codes; case fold documented *)
| VCodeUInt (codes : list N)               (* coded enumeration, integer codes *)
| VFreeCode                                (* tstr: a listed code or an issuer-defined one (un_distinguishing_sign) *)
| VCounty                                  (* three decimal digits *)
| VPresent                                 (* the integer 1 *)
| VJurisdiction                            (* ISO 3166-2 code; must start with issuing_country *)
| VArray (c : vclass)
| VNonEmptyArray (c : vclass)
| VRecord (name : bytes).                  (* a map described by spec_struct *)

Inductive fam := FamTwoDigits | FamNonEmpty.
Inductive presence := Mandatory | Optional | Family (f : fam).

Record dm_row := { dm_id : bytes; dm_class : vclass; dm_presence : presence }.
Definition row (id : String.string) (c : vclass) (p : presence) : dm_row :=
  {| dm_id := b id; dm_class := c; dm_presence := p |}.
Arguments row id%string_scope c p.

(* ---------- code lists (from the standards) ---------- *)

Definition words (l : list String.string) : list bytes := map bytes_of_string l.

Local Open Scope string_scope.
(* ISO 3166-1 alpha-2, officially assigned code elements *)
Definition iso3166_alpha2 : list bytes := words [
 "AD";"AE";"AF";"AG";"AI";"AL";"AM";"AO";"AQ";"AR";"AS";"AT";"AU";"AW";"AX";"AZ";"BA";"BB";"BD";"BE";"BF";"BG";"BH";"BI";
 "BJ";"BL";"BM";"BN";"BO";"BQ";"BR";"BS";"BT";"BV";"BW";"BY";"BZ";"CA";"CC";"CD";"CF";"CG";"CH";"CI";"CK";"CL";"CM";"CN";
 "CO";"CR";"CU";"CV";"CW";"CX";"CY";"CZ";"DE";"DJ";"DK";"DM";"DO";"DZ";"EC";"EE";"EG";"EH";"ER";"ES";"ET";"FI";"FJ";"FK";
 "FM";"FO";"FR";"GA";"GB";"GD";"GE";"GF";"GG";"GH";"GI";"GL";"GM";"GN";"GP";"GQ";"GR";"GS";"GT";"GU";"GW";"GY";"HK";"HM";
 "HN";"HR";"HT";"HU";"ID";"IE";"IL";"IM";"IN";"IO";"IQ";"IR";"IS";"IT";"JE";"JM";"JO";"JP";"KE";"KG";"KH";"KI";"KM";"KN";
 "KP";"KR";"KW";"KY";"KZ";"LA";"LB";"LC";"LI";"LK";"LR";"LS";"LT";"LU";"LV";"LY";"MA";"MC";"MD";"ME";"MF";"MG";"MH";"MK";
 "ML";"MM";"MN";"MO";"MP";"MQ";"MR";"MS";"MT";"MU";"MV";"MW";"MX";"MY";"MZ";"NA";"NC";"NE";"NF";"NG";"NI";"NL";"NO";"NP";
 "NR";"NU";"NZ";"OM";"PA";"PE";"PF";"PG";"PH";"PK";"PL";"PM";"PN";"PR";"PS";"PT";"PW";"PY";"QA";"RE";"RO";"RS";"RU";"RW";
 "SA";"SB";"SC";"SD";"SE";"SG";"SH";"SI";"SJ";"SK";"SL";"SM";"SN";"SO";"SR";"SS";"ST";"SV";"SX";"SY";"SZ";"TC";"TD";"TF";
 "TG";"TH";"TJ";"TK";"TL";"TM";"TN";"TO";"TR";"TT";"TV";"TW";"TZ";"UA";"UG";"UM";"US";"UY";"UZ";"VA";"VC";"VE";"VG";"VI";
 "VN";"VU";"WF";"WS";"YE";"YT";"ZA";"ZM";"ZW"].

(* ISO 18013-5 Table 5 *)
Definition eye_colours : list bytes :=
  words ["black";"blue";"brown";"dichromatic";"grey";"green";"hazel";"maroon";"pink";"unknown"].
Definition hair_colours : list bytes :=
  words ["bald";"black";"blond";"brown";"grey";"red";"auburn";"sandy";"white";"unknown"].
(* ISO/IEC 5218 *)
Definition sex_codes : list N := [0; 1; 2; 9].
(* ISO 18013-5 7.2.4, vehicle categories of ISO 18013-1 / the Vienna convention *)
Definition vehicle_categories : list bytes :=
  words ["A";"B";"C";"D";"BE";"CE";"DE";"AM";"A1";"A2";"B1";"C1";"D1";"C1E";"D1E"].
(* AAMVA mDL Implementation Guidelines / AAMVA DL/ID Card Design Standard (D.12.x) *)
Definition aamva_name_suffixes : list bytes :=
  words ["JR";"SR";"1ST";"I";"2ND";"II";"3RD";"III";"4TH";"IV";"5TH";"V";"6TH";"VI";"7TH";"VII";"8TH";"VIII";"9TH";"IX"].
Definition aamva_truncation : list bytes := words ["T";"N";"U"].
Definition aamva_race : list bytes := words ["AI";"AP";"BK";"H";"O";"U";"W"].
Definition aamva_dhs_compliance : list bytes := words ["F";"N"].
Definition aamva_sex_codes : list N := [1; 2; 9].
Definition aamva_weight_ranges : list N := [0; 1; 2; 3; 4; 5; 6; 7; 8; 9].
Definition aamva_edl : list N := [1; 2].

(* ---------- the data models ---------- *)

Definition c_alpha2 := VCodeText iso3166_alpha2 NormNone.

(* ISO/IEC 18013-5:2021 Table 5, in the order of the table *)
Definition mdl_dm : list dm_row := [
  row "family_name" VLatin1 Mandatory;
  row "given_name" VLatin1 Mandatory;
  row "birth_date" VFullDate Mandatory;
  row "issue_date" VTDateOrFullDate Mandatory;
  row "expiry_date" VTDateOrFullDate Mandatory;
  row "issuing_country" c_alpha2 Mandatory;
  row "issuing_authority" VLatin1 Mandatory;
  row "document_number" VLatin1 Mandatory;
  row "portrait" VBytes Mandatory;
  row "driving_privileges" (VArray (VRecord (b "DrivingPrivilege"))) Mandatory;
  row "un_distinguishing_sign" VFreeCode Mandatory;
  row "administrative_number" VLatin1 Optional;
  row "sex" (VCodeUInt sex_codes) Optional;
  row "height" VUInt32 Optional;
  row "weight" VUInt32 Optional;
  row "eye_colour" (VCodeText eye_colours NormLower) Optional;
  row "hair_colour" (VCodeText hair_colours NormLower) Optional;
  row "birth_place" VLatin1 Optional;
  row "resident_address" VLatin1 Optional;
  row "portrait_capture_date" VTDate Optional;
  row "age_in_years" VUInt32 Optional;
  row "age_birth_year" VUInt32 Optional;
  row "age_over_" VBool (Family FamTwoDigits);              (* age_over_NN, NN = 00..99 *)
  row "issuing_jurisdiction" VJurisdiction Optional;
  row "nationality" c_alpha2 Optional;
  row "resident_city" VLatin1 Optional;
  row "resident_state" VLatin1 Optional;
  row "resident_postal_code" VLatin1 Optional;
  row "resident_country" c_alpha2 Optional;
  row "biometric_template_" VBytes (Family FamNonEmpty);    (* biometric_template_xx, xx a biometric type name *)
  row "family_name_national_character" VText Optional;
  row "given_name_national_character" VText Optional;
  row "signature_usual_mark" VBytes Optional
].

(* AAMVA mDL Implementation Guidelines 1.2, org.iso.18013.5.1.aamva *)
Definition aamva_dm : list dm_row := [
  row "domestic_driving_privileges" (VArray (VRecord (b "DomesticDrivingPrivilege"))) Mandatory;
  row "name_suffix" (VCodeText aamva_name_suffixes NormNone) Optional;
  row "organ_donor" VPresent Optional;
  row "veteran" VPresent Optional;
  row "family_name_truncation" (VCodeText aamva_truncation NormNone) Mandatory;
  row "given_name_truncation" (VCodeText aamva_truncation NormNone) Mandatory;
  row "aka_family_name.v2" VLatin1 Optional;
  row "aka_given_name.v2" VLatin1 Optional;
  row "aka_suffix" (VCodeText aamva_name_suffixes NormNone) Optional;
  row "weight_range" (VCodeUInt aamva_weight_ranges) Optional;
  row "race_ethnicity" (VCodeText aamva_race NormNone) Optional;
  row "EDL_credential" (VCodeUInt aamva_edl) Optional;
  row "sex" (VCodeUInt aamva_sex_codes) Mandatory;
  row "DHS_compliance" (VCodeText aamva_dhs_compliance NormNone) Mandatory;
  row "resident_county" VCounty Optional;
  row "hazmat_endorsement_expiration_date" VFullDate Optional;
  row "CDL_indicator" VPresent Optional;
  row "DHS_compliance_text" VText Optional;
  row "DHS_temporary_lawful_status" VPresent Optional
].

(* ISO 18013-5 7.2.4:
     DrivingPrivilege = { "vehicle_category_code": tstr, ? "issue_date": full-date,
                          ? "expiry_date": full-date, ? "codes": [+ Code] }
     Code = { "code": tstr, ? "sign": tstr, ? "value": tstr }                        *)
Definition dm_driving_privilege : list dm_row := [
  row "vehicle_category_code" (VCodeText vehicle_categories NormUpper) Mandatory;
  row "issue_date" VFullDate Optional;
  row "expiry_date" VFullDate Optional;
  row "codes" (VNonEmptyArray (VRecord (b "Code"))) Optional
].
Definition dm_code : list dm_row := [
  row "code" VText Mandatory;
  row "sign" VText Optional;
  row "value" VText Optional
].
(* AAMVA guidelines, domestic_driving_privileges *)
Definition dm_domestic_privilege : list dm_row := [
  row "domestic_vehicle_class" (VRecord (b "DomesticVehicleClass")) Optional;
  row "domestic_vehicle_restrictions" (VNonEmptyArray (VRecord (b "DomesticVehicleRestriction"))) Optional;
  row "domestic_vehicle_endorsements" (VNonEmptyArray (VRecord (b "DomesticVehicleEndorsement"))) Optional
].
Definition dm_domestic_class : list dm_row := [
  row "domestic_vehicle_class_code" VText Mandatory;
  row "domestic_vehicle_class_description" VText Mandatory;
  row "issue_date" VFullDate Optional;
  row "expiry_date" VFullDate Optional
].
Definition dm_domestic_restriction : list dm_row := [
  row "domestic_vehicle_restriction_code" VText Optional;
  row "domestic_vehicle_restriction_description" VText Mandatory
].
Definition dm_domestic_endorsement : list dm_row := [
  row "domestic_vehicle_endorsement_code" VText Optional;
  row "domestic_vehicle_endorsement_description" VText Mandatory
].
Local Close Scope string_scope.

Definition ns_dm (n : ns) : list dm_row := match n with Mdl => mdl_dm | Aamva => aamva_dm end.

Definition spec_structs (n : ns) : list (bytes * list dm_row) :=
  match n with
  | Mdl => [(b "DrivingPrivilege", dm_driving_privilege); (b "Code", dm_code)]
  | Aamva => [(b "DomesticDrivingPrivilege", dm_domestic_privilege);
              (b "DomesticVehicleClass", dm_domestic_class);
              (b "DomesticVehicleRestriction", dm_domestic_restriction);
              (b "DomesticVehicleEndorsement", dm_domestic_endorsement)]
  end.

Definition spec_struct (n : ns) (name : bytes) : list dm_row :=
  match assoc_b name (spec_structs n) with Some dm => dm | None => [] end.

(* ---------- scalar value domains ---------- *)

Fixpoint mem_b (x : bytes) (l : list bytes) : bool :=
  match l with [] => false | y :: r => bytes_eqb x y || mem_b x r end.
Fixpoint mem_n (x : N) (l : list N) : bool :=
  match l with [] => false | y :: r => (x =? y) || mem_n x r end.

(* ISO 8859-1 printable characters as Unicode scalars *)
Definition latin1_scalar (c : N) : bool := ((32 <=? c) && (c <=? 126)) || ((160 <=? c) && (c <=? 255)).

(* UTF-8 decoding restricted to scalars below U+0800 (anything else is not Latin-1 anyway) *)
Fixpoint utf8_scalars_lt_800 (s : bytes) : option (list N) :=
  match s with
  | [] => Some []
  | c :: r =>
    if c <? 128 then option_map (cons c) (utf8_scalars_lt_800 r)
    else if (194 <=? c) && (c <=? 223) then
      match r with
      | c2 :: r' => if (128 <=? c2) && (c2 <=? 191)
                    then option_map (cons ((c - 192) * 64 + (c2 - 128))) (utf8_scalars_lt_800 r')
                    else None
      | [] => None
      end
    else None
  end.

(* "tstr, max. 150 characters, Latin1" *)
Definition spec_latin1 (s : bytes) : bool :=
  match utf8_scalars_lt_800 s with
  | Some cs => forallb latin1_scalar cs && (N.of_nat (length cs) <=? 150)
  | None => false
  end.

(* RFC 3339 full-date: 4DIGIT "-" 2DIGIT "-" 2DIGIT, a date of the Gregorian calendar *)
Definition spec_full_date_fields (s : bytes) : option (Z * Z * Z) :=
  match s with
  | [y1; y2; y3; y4; c1; m1; m2; c2; d1; d2] =>
    if (c1 =? 45) && (c2 =? 45) then
      match digits4 y1 y2 y3 y4, digits2 m1 m2, digits2 d1 d2 with
      | Some y, Some m, Some d => if valid_date y m d then Some (y, m, d) else None
      | _, _, _ => None
      end
    else None
  | _ => None
  end.
Definition spec_full_date (s : bytes) : bool :=
  match spec_full_date_fields s with Some _ => true | None => false end.

(* RFC 3339 date-time.  The lexical split (tdate_fields) is shared with the model; everything
   that gives the fields a meaning is here: "T" (or "t", or the space RFC 3339 5.6 tolerates),
   valid calendar date, hour <= 23, minute <= 59, second <= 59 (a leap second 60 has no tdate
   rendering and is outside the domain), offset at most 23:59.  The value is the instant in whole
   seconds since 1970-01-01T00:00:00Z: the fraction is dropped (ISO 18013-5 7.2.1). *)
Definition spec_date_time_instant (s : bytes) : option Z :=
  match tdate_fields s with
  | Some (y, mo, d, h, mi, sec, off, sep) =>
    if ((sep =? 84) || (sep =? 116) || (sep =? 32)) &&
       (valid_date y mo d && (h <=? 23) && (mi <=? 59) && (sec <=? 59))%Z
    then Some (epoch_seconds y mo d h mi sec off) else None
  | None => None
  end.

(* instants a tdate can express: years 0000..9999 in UTC *)
Definition tdate_min : Z := epoch_seconds 0 1 1 0 0 0 0.
Definition tdate_max : Z := epoch_seconds 9999 12 31 23 59 59 0.
Definition spec_date_time (s : bytes) : option Z :=
  match spec_date_time_instant s with
  | Some i => if ((tdate_min <=? i) && (i <=? tdate_max))%Z then Some i else None
  | None => None
  end.

(* the one rendering ISO 18013-5 allows: YYYY-MM-DDThh:mm:ssZ *)
Definition spec_tdate_canonical (o : bytes) : option Z :=
  if (blen o =? 20) then
    match tdate_fields o with
    | Some (y, mo, d, h, mi, sec, off, sep) =>
      if (sep =? 84) && (nth 19 o 0 =? 90) &&
         (valid_date y mo d && (h <=? 23) && (mi <=? 59) && (sec <=? 59))%Z
      then Some (epoch_seconds y mo d h mi sec 0) else None
    | None => None
    end
  else None.

Definition spec_county (s : bytes) : bool :=
  match s with [a; c; d] => is_digit a && is_digit c && is_digit d | _ => false end.

(* ---------- records ---------- *)

Definition fam_ok (f : fam) (prefix k : bytes) : bool :=
  match strip_prefix prefix k with
  | Some sfx => match f with
                | FamTwoDigits => match sfx with [a; c] => is_digit a && is_digit c | _ => false end
                | FamNonEmpty => match sfx with [] => false | _ => true end
                end
  | None => false
  end.

Definition row_matches (r : dm_row) (k : bytes) : bool :=
  match dm_presence r with
  | Family f => fam_ok f (dm_id r) k
  | _ => bytes_eqb (dm_id r) k
  end.

Definition row_for (dm : list dm_row) (k : bytes) : option dm_row := find (fun r => row_matches r k) dm.

(* a field is supplied when its key is present with a non-null value (the code documents null as
   absent for optional fields); for a family, when the key is present *)
Definition supplied (kvs : list (bytes * json)) (k : bytes) : bool :=
  match jget k kvs with Some j => negb (is_null j) | None => false end.

Fixpoint strictly_sorted (l : list bytes) : bool :=
  match l with
  | a :: ((c :: _) as r) => bytes_ltb a c && strictly_sorted r
  | _ => true
  end.

Section Record.
  Variable den : vclass -> json -> cbor -> bool.
  Variable dom : vclass -> json -> bool.

  (* out is exactly the supplied fields of the data model, each with a value the class prescribes *)
  Definition record_den (dm : list dm_row) (kvs : list (bytes * json)) (out : list (bytes * cbor)) : bool :=
    strictly_sorted (map fst out) &&
    forallb (fun kv =>
      match row_for dm (fst kv) with
      | Some r => match jget (fst kv) kvs with
                  | Some j => den (dm_class r) j (snd kv)
                  | None => false
                  end
      | None => false
      end) out &&
    forallb (fun r =>
      match dm_presence r with
      | Mandatory => supplied kvs (dm_id r) && mem_b (dm_id r) (map fst out)
      | Optional => negb (supplied kvs (dm_id r)) || mem_b (dm_id r) (map fst out)
      | Family f => forallb (fun kj => negb (fam_ok f (dm_id r) (fst kj)) || mem_b (fst kj) (map fst out)) kvs
      end) dm.

  (* the record is in the domain: mandatory fields supplied, every supplied value in its domain *)
  Definition record_dom (dm : list dm_row) (kvs : list (bytes * json)) : bool :=
    forallb (fun r =>
      match dm_presence r with
      | Mandatory => match jget (dm_id r) kvs with Some j => dom (dm_class r) j | None => false end
      | Optional => match jget (dm_id r) kvs with
                    | Some j => is_null j || dom (dm_class r) j
                    | None => true
                    end
      | Family f => forallb (fun kj => negb (fam_ok f (dm_id r) (fst kj)) || dom (dm_class r) (snd kj)) kvs
      end) dm.
End Record.

Fixpoint untext (m : list (cbor * cbor)) : option (list (bytes * cbor)) :=
  match m with
  | [] => Some []
  | (CText k, v) :: r => option_map (cons (k, v)) (untext r)
  | _ => None
  end.

Fixpoint forall2b {A B} (f : A -> B -> bool) (l : list A) (l' : list B) : bool :=
  match l, l' with
  | [], [] => true
  | x :: r, y :: r' => f x y && forall2b f r r'
  | _, _ => false
  end.

Section WithBase64.
  Variable b64 : bytes -> option bytes.

  (* scalar classes.  den0 ctx c j v: the supplied JSON value j is in the domain of class c and v is
     the CBOR value the standard prescribes for it (ctx: the enclosing record, for
     issuing_jurisdiction) *)
  Definition den0 (ctx : list (bytes * json)) (c : vclass) (j : json) (v : cbor) : bool :=
    match c, j, v with
    | VText, JStr s, CText o => bytes_eqb s o
    | VLatin1, JStr s, CText o => spec_latin1 s && bytes_eqb s o
    | VFullDate, JStr s, CTag t (CText o) => (t =? 1004) && spec_full_date s && bytes_eqb s o
    | VTDate, JStr s, CTag t (CText o) =>
      (t =? 0) && match spec_date_time s, spec_tdate_canonical o with
                  | Some i, Some i' => (i =? i')%Z
                  | _, _ => false
                  end
    | VTDateOrFullDate, JStr s, CTag t (CText o) =>
      ((t =? 0) && match spec_date_time s, spec_tdate_canonical o with
                   | Some i, Some i' => (i =? i')%Z
                   | _, _ => false
                   end)
      || ((t =? 1004) && spec_full_date s && bytes_eqb s o)
    | VBytes, JStr s, CBytes o => match b64 s with Some x => bytes_eqb x o | None => false end
    | VUInt32, JNumU x, CUInt o => (x <? 4294967296) && (x =? o)
    | VBool, JBool x, CBool o => Bool.eqb x o
    | VCodeText codes fold, JStr s, CText o => mem_b o codes && bytes_eqb o (normalise fold s)
    | VCodeUInt codes, JNumU x, CUInt o => mem_n o codes && (x =? o)
    | VFreeCode, JStr s, CText o => bytes_eqb s o
    | VCounty, JStr s, CText o => spec_county s && bytes_eqb s o
    | VPresent, JNumU x, CUInt o => (x =? 1) && (o =? 1)
    | VJurisdiction, JStr s, CText o =>
      bytes_eqb s o && match jget (b "issuing_country") ctx with
                       | Some (JStr cc) => is_prefix cc s
                       | _ => false
                       end
    | _, _, _ => false
    end.

  (* arrays and records, to a bounded nesting depth *)
  Fixpoint den (fuel : nat) (n : ns) (ctx : list (bytes * json)) (c : vclass) (j : json) (v : cbor) {struct fuel} : bool :=
    match c with
    | VArray c' =>
      match fuel, j, v with
      | S f, JArr js, CArray vs => forall2b (den f n [] c') js vs
      | _, _, _ => false
      end
    | VNonEmptyArray c' =>
      match fuel, j, v with
      | S f, JArr (j0 :: js), CArray vs => forall2b (den f n [] c') (j0 :: js) vs
      | _, _, _ => false
      end
    | VRecord name =>
      match fuel, j, v with
      | S f, JObj kvs, CMap m =>
        match untext m with
        | Some out => record_den (den f n kvs) (spec_struct n name) kvs out
        | None => false
        end
      | _, _, _ => false
      end
    | _ => den0 ctx c j v
    end.

  (* dom: j is a value of the domain of class c *)
  Definition dom0 (ctx : list (bytes * json)) (c : vclass) (j : json) : bool :=
    match c, j with
    | VText, JStr _ => true
    | VLatin1, JStr s => spec_latin1 s
    | VFullDate, JStr s => spec_full_date s
    | VTDate, JStr s => match spec_date_time s with Some _ => true | None => false end
    | VTDateOrFullDate, JStr s =>
      match spec_date_time s with Some _ => true | None => spec_full_date s end
    | VBytes, JStr s => match b64 s with Some _ => true | None => false end
    | VUInt32, JNumU x => x <? 4294967296
    | VBool, JBool _ => true
    | VCodeText codes fold, JStr s => mem_b (normalise fold s) codes
    | VCodeUInt codes, JNumU x => mem_n x codes
    | VFreeCode, JStr _ => true
    | VCounty, JStr s => spec_county s
    | VPresent, JNumU x => x =? 1
    | VJurisdiction, JStr s =>
      match jget (b "issuing_country") ctx with Some (JStr cc) => is_prefix cc s | _ => false end
    | _, _ => false
    end.

  Fixpoint dom (fuel : nat) (n : ns) (ctx : list (bytes * json)) (c : vclass) (j : json) {struct fuel} : bool :=
    match c with
    | VArray c' =>
      match fuel, j with
      | S f, JArr js => forallb (dom f n [] c') js
      | _, _ => false
      end
    | VNonEmptyArray c' =>
      match fuel, j with
      | S f, JArr (j0 :: js) => forallb (dom f n [] c') (j0 :: js)
      | _, _ => false
      end
    | VRecord name =>
      match fuel, j with
      | S f, JObj kvs => record_dom (dom f n kvs) (spec_struct n name) kvs
      | _, _ => false
      end
    | _ => dom0 ctx c j
    end.

  Definition spec_fuel : nat := 8.

  (* a whole namespace record *)
  Definition ns_den (n : ns) (kvs : list (bytes * json)) (out : list (bytes * cbor)) : bool :=
    record_den (den spec_fuel n kvs) (ns_dm n) kvs out.

  Definition ns_dom (n : ns) (kvs : list (bytes * json)) : bool :=
    record_dom (dom spec_fuel n kvs) (ns_dm n) kvs.

  (* ---------- Prop-level statement ---------- *)

  (* the element identifiers the data model gives to a supplied record *)
  Definition expected_id (n : ns) (kvs : list (bytes * json)) (k : bytes) : Prop :=
    exists r, In r (ns_dm n) /\
      match dm_presence r with
      | Family f => fam_ok f (dm_id r) k = true /\ In k (map fst kvs)
      | _ => dm_id r = k /\ supplied kvs k = true
      end.

  (* faithfulness of an output for a supplied JSON object *)
  Definition faithful (n : ns) (kvs : list (bytes * json)) (out : list (bytes * cbor)) : Prop :=
    NoDup (map fst out) /\
    (forall k, In k (map fst out) <-> expected_id n kvs k) /\
    (forall k v, In (k, v) out ->
       exists r j, row_for (ns_dm n) k = Some r /\ jget k kvs = Some j /\
                   den spec_fuel n kvs (dm_class r) j v = true).
End WithBase64.

(* ---------- how the Rust types of the two namespaces are read ---------- *)
(* The value class each Rust type stands for.  C19_fields_iso states that, read this way, the field
   lists the translator copies from the source ARE the data-model tables above; the leaf theorems
   state that each type's conversion realises its class. *)

Local Open Scope string_scope.
Definition class_of_name (n : ns) (name : bytes) : option vclass :=
  let is (x : String.string) := bytes_eqb name (bytes_of_string x) in
  if is "String" then Some VText
  else if is "u32" then Some VUInt32
  else if is "Latin1" then Some VLatin1
  else if is "FullDate" then Some VFullDate
  else if is "TDate" then Some VTDate
  else if is "TDateOrFullDate" then Some VTDateOrFullDate
  else if is "ByteStr" then Some VBytes
  else match n with
  | Mdl =>
    if is "Alpha2" then Some c_alpha2
    else if is "UNDistinguishingSign" then Some VFreeCode
    else if is "EyeColour" then Some (VCodeText eye_colours NormLower)
    else if is "HairColour" then Some (VCodeText hair_colours NormLower)
    else if is "Sex" then Some (VCodeUInt sex_codes)
    else if is "VehicleCategoryCode" then Some (VCodeText vehicle_categories NormUpper)
    else if is "DrivingPrivileges" then Some (VArray (VRecord (b "DrivingPrivilege")))
    else if is "DrivingPrivilege" then Some (VRecord (b "DrivingPrivilege"))
    else if is "Codes" then Some (VNonEmptyArray (VRecord (b "Code")))
    else if is "Code" then Some (VRecord (b "Code"))
    else None
  | Aamva =>
    if is "CountyCode" then Some VCounty
    else if is "Present" then Some VPresent
    else if is "NameSuffix" then Some (VCodeText aamva_name_suffixes NormNone)
    else if is "NameTruncation" then Some (VCodeText aamva_truncation NormNone)
    else if is "RaceAndEthnicity" then Some (VCodeText aamva_race NormNone)
    else if is "DHSCompliance" then Some (VCodeText aamva_dhs_compliance NormNone)
    else if is "Sex" then Some (VCodeUInt aamva_sex_codes)
    else if is "WeightRange" then Some (VCodeUInt aamva_weight_ranges)
    else if is "EDLIndicator" then Some (VCodeUInt aamva_edl)
    else if is "DomesticDrivingPrivileges" then Some (VArray (VRecord (b "DomesticDrivingPrivilege")))
    else if is "DomesticDrivingPrivilege" then Some (VRecord (b "DomesticDrivingPrivilege"))
    else if is "DomesticVehicleClass" then Some (VRecord (b "DomesticVehicleClass"))
    else if is "DomesticVehicleRestrictions" then Some (VNonEmptyArray (VRecord (b "DomesticVehicleRestriction")))
    else if is "DomesticVehicleRestriction" then Some (VRecord (b "DomesticVehicleRestriction"))
    else if is "DomesticVehicleEndorsements" then Some (VNonEmptyArray (VRecord (b "DomesticVehicleEndorsement")))
    else if is "DomesticVehicleEndorsement" then Some (VRecord (b "DomesticVehicleEndorsement"))
    else None
  end.

Local Close Scope string_scope.

Fixpoint class_of_ty (n : ns) (t : rty) : option vclass :=
  match t with
  | TName x => class_of_name n x
  | TOption t' => class_of_ty n t'
  | TVec t' => option_map VArray (class_of_ty n t')
  | TNonEmptyVec t' => option_map VNonEmptyArray (class_of_ty n t')
  end.

(* the data-model row a field descriptor stands for.  Fields marked many / dynamic_parse are read
   from the whole object by hand-written FromJsonMap implementations; they stand for the two
   identifier families and for issuing_jurisdiction *)
Definition row_of_field (n : ns) (f : field_desc) : option dm_row :=
  if fd_many f || fd_dyn f then
    match n, fd_ty f with
    | Mdl, TName x =>
      if fd_many f && bytes_eqb x (b "AgeOver") then
        Some {| dm_id := Gen.Constants.c19_age_over_prefix; dm_class := VBool; dm_presence := Family FamTwoDigits |}
      else if fd_many f && bytes_eqb x (b "BiometricTemplate") then
        Some {| dm_id := Gen.Constants.c19_biometric_prefix; dm_class := VBytes; dm_presence := Family FamNonEmpty |}
      else None
    | Mdl, TOption (TName x) =>
      if negb (fd_many f) && bytes_eqb x (b "IssuingJurisdiction") then
        Some {| dm_id := fd_wire f; dm_class := VJurisdiction; dm_presence := Optional |}
      else None
    | _, _ => None
    end
  else
    match fd_ty f with
    | TName x => option_map (fun c => {| dm_id := fd_wire f; dm_class := c; dm_presence := Mandatory |}) (class_of_name n x)
    | TOption (TName x) => option_map (fun c => {| dm_id := fd_wire f; dm_class := c; dm_presence := Optional |}) (class_of_name n x)
    | _ => None      (* a Vec directly in a field does not occur; it would have to be given a class here *)
    end.

Definition rows_of_fields (n : ns) (fds : list field_desc) : list (option dm_row) := map (row_of_field n) fds.

(* every derived struct of a namespace, read as above, is the corresponding table *)
Definition struct_matches_spec (n : ns) (entry : bytes * struct_def) : Prop :=
  match snd entry with
  | SNamed fds =>
    rows_of_fields n fds =
    map Some (if bytes_eqb (fst entry) (ns_struct_name n) then ns_dm n else spec_struct n (fst entry))
    /\ (bytes_eqb (fst entry) (ns_struct_name n) = true \/ class_of_name n (fst entry) = Some (VRecord (fst entry)))
  | SNewtype t => class_of_ty n t = class_of_name n (fst entry) /\ class_of_ty n t <> None
  end.

(* ---------- the CBOR type the data model prescribes for a class (outer shape) ---------- *)

Definition cbor_type_ok (c : vclass) (v : cbor) : Prop :=
  match c with
  | VText | VLatin1 | VFreeCode | VJurisdiction => exists s, v = CText s
  | VCounty => exists s, v = CText s /\ spec_county s = true
  | VCodeText codes _ => exists s, v = CText s /\ In s codes
  | VFullDate => exists s, v = CTag 1004 (CText s) /\ spec_full_date s = true
  | VTDate => exists s i, v = CTag 0 (CText s) /\ spec_tdate_canonical s = Some i
  | VTDateOrFullDate =>
    (exists s i, v = CTag 0 (CText s) /\ spec_tdate_canonical s = Some i) \/
    (exists s, v = CTag 1004 (CText s) /\ spec_full_date s = true)
  | VBytes => exists x, v = CBytes x
  | VUInt32 => exists x, v = CUInt x /\ x < 4294967296
  | VCodeUInt codes => exists x, v = CUInt x /\ In x codes
  | VPresent => v = CUInt 1
  | VBool => exists x, v = CBool x
  | VArray _ | VNonEmptyArray _ => exists l, v = CArray l
  | VRecord _ => exists m out, v = CMap m /\ untext m = Some out
  end.
