(* C17 specification from RFC 8152 (4.4 Sig_structure, 6.3 MAC_structure, 4.2 / 6.2 layouts),
   independent of the code. *)
From Isomdl Require Import Lib.Bytes Lib.Cbor.
Open Scope N_scope.
Local Open Scope string_scope.

(* Sig_structure = [ context : "Signature1", body_protected : bstr, external_aad : bstr, payload : bstr ] *)
Definition rfc_sig_structure (protected aad payload : bytes) : cbor :=
  CArray [CText (bytes_of_string "Signature1"); CBytes protected; CBytes aad; CBytes payload].
(* MAC_structure = [ context : "MAC0", protected : bstr, external_aad : bstr, payload : bstr ] *)
Definition rfc_mac_structure (protected aad payload : bytes) : cbor :=
  CArray [CText (bytes_of_string "MAC0"); CBytes protected; CBytes aad; CBytes payload].

Definition rfc_tbs_sign1 (protected aad payload : bytes) : bytes := encode (rfc_sig_structure protected aad payload).
Definition rfc_tbs_mac0 (protected aad payload : bytes) : bytes := encode (rfc_mac_structure protected aad payload).

(* exactly one of attached and detached payload *)
Definition exactly_one (attached detached : option bytes) : option bytes :=
  match attached, detached with
  | Some p, None => Some p
  | None, Some p => Some p
  | _, _ => None
  end.
