(* C20 specification, written from the property text (not from the code). *)
From Isomdl Require Import Lib.Bytes Lib.Cbor Model.AgeOver.
Open Scope N_scope.

Section Spec.
  Context {A : Type}.
  Notation entry := (@entry A).

  (* the age a held identifier denotes; only meaningful for identifiers that parse *)
  Definition age_of (e : entry) (n : N) : Prop := parse_age (e_id e) = AOk n.
  Definition is_claim (e : entry) : Prop := contains age_over_infix (e_id e) = true.
  Definition claim_true (e : entry) : Prop := e_val e = CBool true.
  Definition claim_false (e : entry) : Prop := e_val e = CBool false.

  (* documented domain: every identifier mentioning age_over is age_over_<u8> with a boolean value *)
  Definition held_wf (held : list entry) : Prop :=
    forall e, In e held -> is_claim e ->
      (exists n, age_of e n) /\ (claim_true e \/ claim_false e).

  Definition answers (nn : N) (e : entry) : Prop :=
    exists n, age_of e n /\ ((claim_true e /\ nn <= n) \/ (claim_false e /\ n <= nn)).

  Definition nearest_spec (nn : N) (held : list entry) (r : option entry) : Prop :=
    match r with
    | Some c =>
      In c held /\ is_claim c /\ answers nn c /\
      (claim_true c ->
         forall c' n n', In c' held -> is_claim c' -> claim_true c' -> age_of c n -> age_of c' n' ->
                         nn <= n' -> n <= n') /\
      (claim_false c ->
         (forall c' n', In c' held -> is_claim c' -> claim_true c' -> age_of c' n' -> n' < nn) /\
         (forall c' n n', In c' held -> is_claim c' -> claim_false c' -> age_of c n -> age_of c' n' ->
                          n' <= nn -> n' <= n))
    | None =>
      forall c' n', In c' held -> is_claim c' -> age_of c' n' ->
                    (claim_true c' -> n' < nn) /\ (claim_false c' -> nn < n')
    end.
End Spec.
