(* C03 / C04 / C05 specification, from the property texts and ISO 18013-5 9.1.2.4 / 9.1.3.4 / 9.1.3.6,
   RFC 8152 — not from the code.  Executable (evaluated on the implementation's outcome). *)
From Isomdl Require Import Lib.Bytes Lib.Cbor Lib.Sha2 Spec.CoseRfc.
Open Scope N_scope.
Local Open Scope string_scope.

(* DeviceAuthentication = ["DeviceAuthentication", SessionTranscript, DocType, DeviceNameSpacesBytes]
   DeviceAuthenticationBytes = #6.24(bstr .cbor DeviceAuthentication) *)
Definition iso_device_authentication (de erk : bytes) (handover : cbor) (doc_type device_ns : bytes) : cbor :=
  CArray [CText (bytes_of_string "DeviceAuthentication");
          CArray [CTag 24 (CBytes de); CTag 24 (CBytes erk); handover];
          CText doc_type; CTag 24 (CBytes device_ns)].

Definition iso_device_authentication_bytes de erk handover doc_type device_ns : bytes :=
  encode (CTag 24 (CBytes (encode (iso_device_authentication de erk handover doc_type device_ns)))).

(* what the device key signs: Sig_structure with empty external_aad over the detached DeviceAuthenticationBytes *)
Definition iso_device_tbs (protected : bytes) de erk handover doc_type device_ns : bytes :=
  rfc_tbs_sign1 protected [] (iso_device_authentication_bytes de erk handover doc_type device_ns).

(* what the issuer signs: Sig_structure over the attached MobileSecurityObjectBytes *)
Definition iso_issuer_tbs (protected payload : bytes) : bytes := rfc_tbs_sign1 protected [] payload.

(* digest of an IssuerSignedItemBytes = H(#6.24(bstr item)) *)
Definition iso_item_digest (alg : N) (item_bytes : bytes) : bytes :=
  let tagged := encode (CTag 24 (CBytes item_bytes)) in
  if alg =? 256 then sha256 tagged else if alg =? 384 then sha384 tagged else sha512 tagged.

(* ISO 18013-5 9.1.4.3: ReaderAuthentication = ["ReaderAuthentication", SessionTranscript, ItemsRequestBytes],
   ReaderAuthenticationBytes = #6.24(bstr .cbor ReaderAuthentication), signed as detached payload *)
Definition iso_reader_authentication (de erk : bytes) (handover : cbor) (items : bytes) : cbor :=
  CArray [CText (bytes_of_string "ReaderAuthentication");
          CArray [CTag 24 (CBytes de); CTag 24 (CBytes erk); handover];
          CTag 24 (CBytes items)].
Definition iso_reader_tbs (protected : bytes) de erk handover items : bytes :=
  rfc_tbs_sign1 protected [] (encode (CTag 24 (CBytes (encode (iso_reader_authentication de erk handover items))))).
