(* ISO/IEC 18013-5 9.1.1.4 / 9.1.1.5 and 8.3.3.1.1.3, RFC 5869 — literals from the standard.

     SKReader = HKDF(IKM = Z_AB, salt = SHA-256(SessionTranscriptBytes), info = "SKReader", L = 32)
     SKDevice = HKDF(IKM = Z_AB, salt = SHA-256(SessionTranscriptBytes), info = "SKDevice", L = 32)
     SessionTranscriptBytes = #6.24(bstr .cbor SessionTranscript)
     SessionTranscript = [DeviceEngagementBytes, EReaderKeyBytes, Handover]
     BLE ident = HKDF(IKM = EDeviceKeyBytes, salt = (none), info = "BLEIdent", L = 16) *)
From Isomdl Require Import Lib.Bytes Lib.Cbor Lib.Sha2 Lib.Hkdf.
Open Scope N_scope.
Local Open Scope string_scope.

Definition iso_session_transcript (de_bytes erk_bytes : bytes) (handover : cbor) : cbor :=
  CArray [CTag 24 (CBytes de_bytes); CTag 24 (CBytes erk_bytes); handover].

Definition iso_session_transcript_bytes (st : cbor) : bytes := encode (CTag 24 (CBytes (encode st))).

Definition iso_sk_reader (zab : bytes) (st : cbor) : bytes :=
  hkdf_sha256 (sha256 (iso_session_transcript_bytes st)) zab (bytes_of_string "SKReader") 32.
Definition iso_sk_device (zab : bytes) (st : cbor) : bytes :=
  hkdf_sha256 (sha256 (iso_session_transcript_bytes st)) zab (bytes_of_string "SKDevice") 32.

Definition iso_ble_ident (e_device_key_bytes_tagged : bytes) : bytes :=
  hkdf_sha256 [] e_device_key_bytes_tagged (bytes_of_string "BLEIdent") 16.
