(* Types of the data the translator emits into Gen/Tables.v and Gen/Fields.v (C19). *)
From Isomdl Require Import Lib.Bytes.
Open Scope N_scope.

Definition b (s : String.string) : bytes := bytes_of_string s.
Arguments b s%string_scope.

(* normalisation applied to the input string before the `from` match *)
Inductive norm_kind := NormNone | NormLower | NormUpper.

(* a code table with text codes.  st_to: the arms of the variant -> code function;
   st_from: the arms of the code -> variant match, in source order (first match wins);
   st_passthrough: the wildcard arm keeps the input string (UNDistinguishingSign::NoneApplicable)
   instead of rejecting it *)
Record str_table := {
  st_to : list (bytes * bytes);
  st_from : list (bytes * bytes);
  st_norm : norm_kind;
  st_passthrough : bool
}.

Record int_table := {
  it_to : list (bytes * N);
  it_from : list (N * bytes)
}.

(* Rust type expressions as far as the derive macros look at them *)
Inductive rty :=
| TName (n : bytes)
| TOption (t : rty)
| TVec (t : rty)
| TNonEmptyVec (t : rty).

Record field_desc := {
  fd_rust : bytes;      (* Rust field name *)
  fd_wire : bytes;      (* identifier after #[isomdl(rename = "..")] *)
  fd_ty : rty;
  fd_many : bool;       (* #[isomdl(many)] *)
  fd_dyn : bool         (* #[isomdl(dynamic_parse)] *)
}.

Inductive struct_def :=
| SNamed (fields : list field_desc)     (* derive(FromJson, ToCbor) on a struct with named fields *)
| SNewtype (inner : rty).               (* derive(FromJson) on a one-field tuple struct *)
