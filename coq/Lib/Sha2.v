(* SHA-256 / SHA-384 / SHA-512 (FIPS 180-4) as executable Gallina over byte lists.

   Words are [N] values kept below 2^32 (resp. 2^64) by masking with [N.land] after every
   addition.  Design notes (performance under [vm_compute] and after extraction with
   ExtrOcamlBasic only, where [N] stays the binary inductive type):
     - the padded message is converted to a word list once, then consumed 16 words at a
       time by structural recursion ([blocks256] / [blocks512]);
     - the message schedule is a 16-word sliding window (a list whose head is W[t]; each
       round drops the head and appends W[t+16]), zipped against the round-constant list,
       so there is no [nth]/[firstn]/[length] inside the round loop;
     - Ch and Maj use the complement-free forms  z ^ (x & (y ^ z))  and
       (x & y) | (z & (x | y)), so no [lnot] on [N] is needed;
     - [N.shiftr]/[N.shiftl] are O(shift) constructor peeling/pushing, [land]/[lxor]/[add]
       are linear in the word size.
   Message length is counted directly in [N] ([nlen]); the only [nat] that appears is the
   number of zero pad bytes (< 128). *)
From Isomdl Require Import Lib.Bytes.
Import Coq.Strings.String.StringSyntax.
#[local] Arguments bytes_of_string s%string_scope.

(* ---------- small helpers ---------- *)

(* lower/upper-case hex string -> bytes (for readable test vectors) *)
Definition hex_digit (c : N) : N :=
  if c <? 58 then c - 48 else if c <? 71 then c - 55 else c - 87.
Fixpoint hex_pairs (cs : bytes) : bytes :=
  match cs with
  | a :: b :: r => (hex_digit a * 16 + hex_digit b) :: hex_pairs r
  | _ => []
  end.
Definition bytes_of_hex (s : String.string) : bytes := hex_pairs (bytes_of_string s).
Arguments bytes_of_hex s%string_scope.

(* length counted in N *)
Definition nlen (bs : bytes) : N := fold_left (fun a _ => N.succ a) bs 0.

Lemma nlen_blen bs : nlen bs = blen bs.
Proof.
  unfold nlen, blen.
  assert (H : forall a, fold_left (fun a (_ : N) => N.succ a) bs a = a + N.of_nat (length bs)).
  { induction bs as [|x bs IH]; intro a; cbn [fold_left length].
    - cbn. lia.
    - rewrite IH. lia. }
  rewrite H. lia.
Qed.

(* [nbytes k n acc] = the k low-order bytes of n, big-endian, consed onto acc *)
Fixpoint nbytes (k : nat) (n : N) (acc : bytes) : bytes :=
  match k with
  | O => acc
  | S k' => nbytes k' (N.shiftr n 8) (N.land n 255 :: acc)
  end.

Lemma nbytes_length k n acc : length (nbytes k n acc) = (k + length acc)%nat.
Proof.
  revert n acc; induction k as [|k IH]; intros n acc; cbn [nbytes]; [reflexivity|].
  rewrite IH. cbn [length]. lia.
Qed.

Lemma land_255_lt n : N.land n 255 < 256.
Proof. change 255 with (N.ones 8). rewrite N.land_ones. apply N.mod_lt. discriminate. Qed.

Lemma nbytes_wf k n acc : wf_bytes acc = true -> wf_bytes (nbytes k n acc) = true.
Proof.
  revert n acc; induction k as [|k IH]; intros n acc H; cbn [nbytes]; [exact H|].
  apply IH. unfold wf_bytes in *. cbn [forallb]. rewrite H. unfold is_byte.
  destruct (N.ltb_spec (N.land n 255) 256) as [_|Hc]; [reflexivity|].
  pose proof (land_255_lt n). lia.
Qed.

Lemma wf_bytes_firstn n l : wf_bytes l = true -> wf_bytes (firstn n l) = true.
Proof.
  unfold wf_bytes. revert l.
  induction n as [|n IH]; intros [|x l] H; cbn [firstn forallb] in *; try reflexivity.
  apply andb_true_iff in H as [H1 H2]. rewrite H1. cbn. apply IH. exact H2.
Qed.

Lemma wf_bytes_app a b : wf_bytes (a ++ b) = wf_bytes a && wf_bytes b.
Proof. apply forallb_app. Qed.

Definition st8 := (N * N * N * N * N * N * N * N)%type.

Definition ch (x y z : N) : N := N.lxor z (N.land x (N.lxor y z)).
Definition maj (x y z : N) : N := N.lor (N.land x y) (N.land z (N.lor x y)).

(* ================= SHA-256 ================= *)

Definition mask32 : N := 0xffffffff.
Definition rotr32 (x n : N) : N :=
  N.lor (N.shiftr x n) (N.land (N.shiftl x (32 - n)) mask32).

Definition bsig0_256 x := N.lxor (rotr32 x 2) (N.lxor (rotr32 x 13) (rotr32 x 22)).
Definition bsig1_256 x := N.lxor (rotr32 x 6) (N.lxor (rotr32 x 11) (rotr32 x 25)).
Definition ssig0_256 x := N.lxor (rotr32 x 7) (N.lxor (rotr32 x 18) (N.shiftr x 3)).
Definition ssig1_256 x := N.lxor (rotr32 x 17) (N.lxor (rotr32 x 19) (N.shiftr x 10)).

Definition K256 : list N :=
  [
   0x428a2f98; 0x71374491; 0xb5c0fbcf; 0xe9b5dba5; 0x3956c25b; 0x59f111f1; 0x923f82a4; 0xab1c5ed5;
   0xd807aa98; 0x12835b01; 0x243185be; 0x550c7dc3; 0x72be5d74; 0x80deb1fe; 0x9bdc06a7; 0xc19bf174;
   0xe49b69c1; 0xefbe4786; 0x0fc19dc6; 0x240ca1cc; 0x2de92c6f; 0x4a7484aa; 0x5cb0a9dc; 0x76f988da;
   0x983e5152; 0xa831c66d; 0xb00327c8; 0xbf597fc7; 0xc6e00bf3; 0xd5a79147; 0x06ca6351; 0x14292967;
   0x27b70a85; 0x2e1b2138; 0x4d2c6dfc; 0x53380d13; 0x650a7354; 0x766a0abb; 0x81c2c92e; 0x92722c85;
   0xa2bfe8a1; 0xa81a664b; 0xc24b8b70; 0xc76c51a3; 0xd192e819; 0xd6990624; 0xf40e3585; 0x106aa070;
   0x19a4c116; 0x1e376c08; 0x2748774c; 0x34b0bcb5; 0x391c0cb3; 0x4ed8aa4a; 0x5b9cca4f; 0x682e6ff3;
   0x748f82ee; 0x78a5636f; 0x84c87814; 0x8cc70208; 0x90befffa; 0xa4506ceb; 0xbef9a3f7; 0xc67178f2 ].

Definition H256 : st8 :=
  (0x6a09e667, 0xbb67ae85, 0x3c6ef372, 0xa54ff53a, 0x510e527f, 0x9b05688c, 0x1f83d9ab, 0x5be0cd19).

Definition round256 (s : st8) (k w : N) : st8 :=
  let '(a, b, c, d, e, f, g, h) := s in
  let t1 := h + bsig1_256 e + ch e f g + k + w in
  let t2 := bsig0_256 a + maj a b c in
  (N.land (t1 + t2) mask32, a, b, c, N.land (d + t1) mask32, e, f, g).

(* [w] is the window W[t] .. W[t+15]; one round per constant *)
Fixpoint rounds256 (ks : list N) (w : list N) (s : st8) : st8 :=
  match ks with
  | [] => s
  | k :: ks' =>
    match w with
    | w0 :: ((w1 :: _ :: _ :: _ :: _ :: _ :: _ :: _ :: w9 :: _ :: _ :: _ :: _ :: w14 :: _) as wt) =>
      rounds256 ks'
        (wt ++ [N.land (ssig1_256 w14 + w9 + ssig0_256 w1 + w0) mask32])
        (round256 s k w0)
    | _ => s
    end
  end.

Definition add_st32 (s t : st8) : st8 :=
  let '(a, b, c, d, e, f, g, h) := s in
  let '(a', b', c', d', e', f', g', h') := t in
  (N.land (a + a') mask32, N.land (b + b') mask32, N.land (c + c') mask32, N.land (d + d') mask32,
   N.land (e + e') mask32, N.land (f + f') mask32, N.land (g + g') mask32, N.land (h + h') mask32).

(* consume the word list 16 words (one 512-bit block) at a time *)
Fixpoint blocks256 (ws : list N) (s : st8) : st8 :=
  match ws with
  | w0 :: w1 :: w2 :: w3 :: w4 :: w5 :: w6 :: w7 :: w8 :: w9 :: w10 :: w11 :: w12 :: w13 :: w14 :: w15 :: r =>
    blocks256 r (add_st32 s (rounds256 K256 [w0; w1; w2; w3; w4; w5; w6; w7; w8; w9; w10; w11; w12; w13; w14; w15] s))
  | _ => s
  end.

(* big-endian bytes -> 32-bit words (trailing 1..3 bytes dropped; never happens after padding) *)
Fixpoint words32 (bs : bytes) : list N :=
  match bs with
  | a :: b :: c :: d :: r =>
    N.lor (N.shiftl a 24) (N.lor (N.shiftl b 16) (N.lor (N.shiftl c 8) d)) :: words32 r
  | _ => []
  end.

(* m ++ 0x80 ++ 0* ++ bitlength (8 bytes), total a multiple of 64 *)
Definition pad256 (m : bytes) : bytes :=
  let l := nlen m in
  m ++ 128 :: repeat 0 (N.to_nat ((119 - l mod 64) mod 64)) ++ nbytes 8 (l * 8) [].

Definition st8_bytes (wb : nat) (s : st8) : bytes :=
  let '(a, b, c, d, e, f, g, h) := s in
  nbytes wb a (nbytes wb b (nbytes wb c (nbytes wb d
    (nbytes wb e (nbytes wb f (nbytes wb g (nbytes wb h []))))))).

Definition sha256 (m : bytes) : bytes :=
  st8_bytes 4 (blocks256 (words32 (pad256 m)) H256).

(* ================= SHA-512 / SHA-384 ================= *)

Definition mask64 : N := 0xffffffffffffffff.
Definition rotr64 (x n : N) : N :=
  N.lor (N.shiftr x n) (N.land (N.shiftl x (64 - n)) mask64).

Definition bsig0_512 x := N.lxor (rotr64 x 28) (N.lxor (rotr64 x 34) (rotr64 x 39)).
Definition bsig1_512 x := N.lxor (rotr64 x 14) (N.lxor (rotr64 x 18) (rotr64 x 41)).
Definition ssig0_512 x := N.lxor (rotr64 x 1) (N.lxor (rotr64 x 8) (N.shiftr x 7)).
Definition ssig1_512 x := N.lxor (rotr64 x 19) (N.lxor (rotr64 x 61) (N.shiftr x 6)).

Definition K512 : list N :=
  [
   0x428a2f98d728ae22; 0x7137449123ef65cd; 0xb5c0fbcfec4d3b2f; 0xe9b5dba58189dbbc;
   0x3956c25bf348b538; 0x59f111f1b605d019; 0x923f82a4af194f9b; 0xab1c5ed5da6d8118;
   0xd807aa98a3030242; 0x12835b0145706fbe; 0x243185be4ee4b28c; 0x550c7dc3d5ffb4e2;
   0x72be5d74f27b896f; 0x80deb1fe3b1696b1; 0x9bdc06a725c71235; 0xc19bf174cf692694;
   0xe49b69c19ef14ad2; 0xefbe4786384f25e3; 0x0fc19dc68b8cd5b5; 0x240ca1cc77ac9c65;
   0x2de92c6f592b0275; 0x4a7484aa6ea6e483; 0x5cb0a9dcbd41fbd4; 0x76f988da831153b5;
   0x983e5152ee66dfab; 0xa831c66d2db43210; 0xb00327c898fb213f; 0xbf597fc7beef0ee4;
   0xc6e00bf33da88fc2; 0xd5a79147930aa725; 0x06ca6351e003826f; 0x142929670a0e6e70;
   0x27b70a8546d22ffc; 0x2e1b21385c26c926; 0x4d2c6dfc5ac42aed; 0x53380d139d95b3df;
   0x650a73548baf63de; 0x766a0abb3c77b2a8; 0x81c2c92e47edaee6; 0x92722c851482353b;
   0xa2bfe8a14cf10364; 0xa81a664bbc423001; 0xc24b8b70d0f89791; 0xc76c51a30654be30;
   0xd192e819d6ef5218; 0xd69906245565a910; 0xf40e35855771202a; 0x106aa07032bbd1b8;
   0x19a4c116b8d2d0c8; 0x1e376c085141ab53; 0x2748774cdf8eeb99; 0x34b0bcb5e19b48a8;
   0x391c0cb3c5c95a63; 0x4ed8aa4ae3418acb; 0x5b9cca4f7763e373; 0x682e6ff3d6b2b8a3;
   0x748f82ee5defb2fc; 0x78a5636f43172f60; 0x84c87814a1f0ab72; 0x8cc702081a6439ec;
   0x90befffa23631e28; 0xa4506cebde82bde9; 0xbef9a3f7b2c67915; 0xc67178f2e372532b;
   0xca273eceea26619c; 0xd186b8c721c0c207; 0xeada7dd6cde0eb1e; 0xf57d4f7fee6ed178;
   0x06f067aa72176fba; 0x0a637dc5a2c898a6; 0x113f9804bef90dae; 0x1b710b35131c471b;
   0x28db77f523047d84; 0x32caab7b40c72493; 0x3c9ebe0a15c9bebc; 0x431d67c49c100d4c;
   0x4cc5d4becb3e42b6; 0x597f299cfc657e2a; 0x5fcb6fab3ad6faec; 0x6c44198c4a475817 ].

Definition H512 : st8 :=
  (0x6a09e667f3bcc908, 0xbb67ae8584caa73b, 0x3c6ef372fe94f82b, 0xa54ff53a5f1d36f1,
   0x510e527fade682d1, 0x9b05688c2b3e6c1f, 0x1f83d9abfb41bd6b, 0x5be0cd19137e2179).

Definition H384 : st8 :=
  (0xcbbb9d5dc1059ed8, 0x629a292a367cd507, 0x9159015a3070dd17, 0x152fecd8f70e5939,
   0x67332667ffc00b31, 0x8eb44a8768581511, 0xdb0c2e0d64f98fa7, 0x47b5481dbefa4fa4).

Definition round512 (s : st8) (k w : N) : st8 :=
  let '(a, b, c, d, e, f, g, h) := s in
  let t1 := h + bsig1_512 e + ch e f g + k + w in
  let t2 := bsig0_512 a + maj a b c in
  (N.land (t1 + t2) mask64, a, b, c, N.land (d + t1) mask64, e, f, g).

Fixpoint rounds512 (ks : list N) (w : list N) (s : st8) : st8 :=
  match ks with
  | [] => s
  | k :: ks' =>
    match w with
    | w0 :: ((w1 :: _ :: _ :: _ :: _ :: _ :: _ :: _ :: w9 :: _ :: _ :: _ :: _ :: w14 :: _) as wt) =>
      rounds512 ks'
        (wt ++ [N.land (ssig1_512 w14 + w9 + ssig0_512 w1 + w0) mask64])
        (round512 s k w0)
    | _ => s
    end
  end.

Definition add_st64 (s t : st8) : st8 :=
  let '(a, b, c, d, e, f, g, h) := s in
  let '(a', b', c', d', e', f', g', h') := t in
  (N.land (a + a') mask64, N.land (b + b') mask64, N.land (c + c') mask64, N.land (d + d') mask64,
   N.land (e + e') mask64, N.land (f + f') mask64, N.land (g + g') mask64, N.land (h + h') mask64).

Fixpoint blocks512 (ws : list N) (s : st8) : st8 :=
  match ws with
  | w0 :: w1 :: w2 :: w3 :: w4 :: w5 :: w6 :: w7 :: w8 :: w9 :: w10 :: w11 :: w12 :: w13 :: w14 :: w15 :: r =>
    blocks512 r (add_st64 s (rounds512 K512 [w0; w1; w2; w3; w4; w5; w6; w7; w8; w9; w10; w11; w12; w13; w14; w15] s))
  | _ => s
  end.

Fixpoint words64 (bs : bytes) : list N :=
  match bs with
  | a :: b :: c :: d :: e :: f :: g :: h :: r =>
    N.lor (N.shiftl a 56) (N.lor (N.shiftl b 48) (N.lor (N.shiftl c 40) (N.lor (N.shiftl d 32)
      (N.lor (N.shiftl e 24) (N.lor (N.shiftl f 16) (N.lor (N.shiftl g 8) h)))))) :: words64 r
  | _ => []
  end.

(* m ++ 0x80 ++ 0* ++ bitlength (16 bytes), total a multiple of 128 *)
Definition pad512 (m : bytes) : bytes :=
  let l := nlen m in
  m ++ 128 :: repeat 0 (N.to_nat ((239 - l mod 128) mod 128)) ++ nbytes 16 (l * 8) [].

Definition sha512 (m : bytes) : bytes :=
  st8_bytes 8 (blocks512 (words64 (pad512 m)) H512).

Definition sha384 (m : bytes) : bytes :=
  firstn 48 (st8_bytes 8 (blocks512 (words64 (pad512 m)) H384)).

(* ================= output length / well-formedness ================= *)

Lemma st8_bytes_length wb s : length (st8_bytes wb s) = (8 * wb)%nat.
Proof.
  destruct s as [[[[[[[a b] c] d] e] f] g] h]. unfold st8_bytes.
  rewrite !nbytes_length. cbn [length]. lia.
Qed.

Lemma st8_bytes_wf wb s : wf_bytes (st8_bytes wb s) = true.
Proof.
  destruct s as [[[[[[[a b] c] d] e] f] g] h]. unfold st8_bytes.
  repeat apply nbytes_wf. reflexivity.
Qed.

Theorem sha256_length m : length (sha256 m) = 32%nat.
Proof. unfold sha256. apply st8_bytes_length. Qed.

Theorem sha512_length m : length (sha512 m) = 64%nat.
Proof. unfold sha512. apply st8_bytes_length. Qed.

Theorem sha384_length m : length (sha384 m) = 48%nat.
Proof.
  unfold sha384. rewrite firstn_length, st8_bytes_length. reflexivity.
Qed.

Theorem sha256_wf m : wf_bytes (sha256 m) = true.
Proof. apply st8_bytes_wf. Qed.

Theorem sha512_wf m : wf_bytes (sha512 m) = true.
Proof. apply st8_bytes_wf. Qed.

Theorem sha384_wf m : wf_bytes (sha384 m) = true.
Proof. unfold sha384. apply wf_bytes_firstn, st8_bytes_wf. Qed.

(* ================= test vectors (FIPS 180-4 examples; 1000 x 'a' checked against python hashlib) ================= *)

Definition msg56 : bytes := bytes_of_string "abcdbcdecdefdefgefghfghighijhijkijkljklmklmnlmnomnopnopq".
Definition msg112 : bytes := bytes_of_string "abcdefghbcdefghicdefghijdefghijkefghijklfghijklmghijklmnhijklmnoijklmnopjklmnopqklmnopqrlmnopqrsmnopqrstnopqrstu".
Definition msg_a1000 : bytes := repeat 97 (N.to_nat 1000).

Example sha256_empty :
  sha256 [] =
    bytes_of_hex "e3b0c44298fc1c149afbf4c8996fb92427ae41e4649b934ca495991b7852b855".
Proof. vm_compute. reflexivity. Qed.

Example sha256_abc :
  sha256 (bytes_of_string "abc") =
    bytes_of_hex "ba7816bf8f01cfea414140de5dae2223b00361a396177a9cb410ff61f20015ad".
Proof. vm_compute. reflexivity. Qed.

Example sha256_msg56 :
  sha256 msg56 =
    bytes_of_hex "248d6a61d20638b8e5c026930c3e6039a33ce45964ff2167f6ecedd419db06c1".
Proof. vm_compute. reflexivity. Qed.

Example sha256_a1000 :
  sha256 msg_a1000 =
    bytes_of_hex "41edece42d63e8d9bf515a9ba6932e1c20cbc9f5a5d134645adb5db1b9737ea3".
Proof. vm_compute. reflexivity. Qed.

Example sha384_empty :
  sha384 [] =
    bytes_of_hex "38b060a751ac96384cd9327eb1b1e36a21fdb71114be07434c0cc7bf63f6e1da" ++
    bytes_of_hex "274edebfe76f65fbd51ad2f14898b95b".
Proof. vm_compute. reflexivity. Qed.

Example sha384_abc :
  sha384 (bytes_of_string "abc") =
    bytes_of_hex "cb00753f45a35e8bb5a03d699ac65007272c32ab0eded1631a8b605a43ff5bed" ++
    bytes_of_hex "8086072ba1e7cc2358baeca134c825a7".
Proof. vm_compute. reflexivity. Qed.

Example sha384_two_block :
  sha384 msg112 =
    bytes_of_hex "09330c33f71147e83d192fc782cd1b4753111b173b3b05d22fa08086e3b0f712" ++
    bytes_of_hex "fcc7c71a557e2db966c3e9fa91746039".
Proof. vm_compute. reflexivity. Qed.

Example sha384_a1000 :
  sha384 msg_a1000 =
    bytes_of_hex "f54480689c6b0b11d0303285d9a81b21a93bca6ba5a1b4472765dca4da45ee32" ++
    bytes_of_hex "8082d469c650cd3b61b16d3266ab8ced".
Proof. vm_compute. reflexivity. Qed.

Example sha512_empty :
  sha512 [] =
    bytes_of_hex "cf83e1357eefb8bdf1542850d66d8007d620e4050b5715dc83f4a921d36ce9ce" ++
    bytes_of_hex "47d0d13c5d85f2b0ff8318d2877eec2f63b931bd47417a81a538327af927da3e".
Proof. vm_compute. reflexivity. Qed.

Example sha512_abc :
  sha512 (bytes_of_string "abc") =
    bytes_of_hex "ddaf35a193617abacc417349ae20413112e6fa4e89a97ea20a9eeee64b55d39a" ++
    bytes_of_hex "2192992a274fc1a836ba3c23a3feebbd454d4423643ce80e2a9ac94fa54ca49f".
Proof. vm_compute. reflexivity. Qed.

Example sha512_two_block :
  sha512 msg112 =
    bytes_of_hex "8e959b75dae313da8cf4f72814fc143f8f7779c6eb9f7fa17299aeadb6889018" ++
    bytes_of_hex "501d289e4900f7e4331b99dec4b5433ac7d329eeb6dd26545e96e55b874be909".
Proof. vm_compute. reflexivity. Qed.

Example sha512_a1000 :
  sha512 msg_a1000 =
    bytes_of_hex "67ba5535a46e3f86dbfbed8cbbaf0125c76ed549ff8b0b9e03e0c88cf90fa634" ++
    bytes_of_hex "fa7b12b47d77b694de488ace8d9a65967dc96df599727d3292a8d9d447709c97".
Proof. vm_compute. reflexivity. Qed.

