(* HKDF-SHA-256 (RFC 5869) over byte lists. *)
From Isomdl Require Import Lib.Bytes Lib.Sha2 Lib.Hmac.
Import Coq.Strings.String.StringSyntax.

(* PRK = HMAC(salt, IKM).  RFC 5869: an absent salt is HashLen zero bytes; HMAC's zero
   extension of the key to the block size makes the empty salt behave identically, so no
   special case is needed. *)
Definition hkdf_extract (salt ikm : bytes) : bytes := hmac_sha256 salt ikm.

(* T(i) = HMAC(PRK, T(i-1) ++ info ++ [i]),  T(0) = "" ; output T(1) ++ T(2) ++ ... cut to
   [need] bytes.  [fuel] bounds the number of blocks (the counter is a single byte, so at
   most 255); the recursion never converts [need] to a nat except for the final partial
   block (<= 32). *)
Fixpoint hkdf_expand_loop (fuel : nat) (prk info tprev : bytes) (ctr need : N) : bytes :=
  match fuel with
  | O => []
  | S fuel' =>
    if need =? 0 then []
    else
      let t := hmac_sha256 prk (tprev ++ info ++ [ctr]) in
      if need <=? 32 then firstn (N.to_nat need) t
      else t ++ hkdf_expand_loop fuel' prk info t (ctr + 1) (need - 32)
  end.

(* RFC 5869 requires len <= 255*32; beyond that this returns only the first 255*32 bytes. *)
Definition hkdf_expand (prk info : bytes) (len : N) : bytes :=
  hkdf_expand_loop 255 prk info [] 1 len.

Definition hkdf_sha256 (salt ikm info : bytes) (len : N) : bytes :=
  hkdf_expand (hkdf_extract salt ikm) info len.

Theorem hkdf_extract_length salt ikm : length (hkdf_extract salt ikm) = 32%nat.
Proof. apply hmac_sha256_length. Qed.

Lemma hkdf_expand_loop_length fuel prk info tprev ctr need :
  need <= 32 * N.of_nat fuel ->
  blen (hkdf_expand_loop fuel prk info tprev ctr need) = need.
Proof.
  revert tprev ctr need; induction fuel as [|fuel IH]; intros tprev ctr need Hn;
    cbn [hkdf_expand_loop].
  - cbn in *. lia.
  - destruct (N.eqb_spec need 0) as [->|Hz]; [reflexivity|].
    destruct (N.leb_spec need 32) as [Hle|Hgt]; unfold blen.
    + rewrite firstn_length, hmac_sha256_length. lia.
    + rewrite app_length, hmac_sha256_length.
      specialize (IH (hmac_sha256 prk (tprev ++ info ++ [ctr])) (ctr + 1) (need - 32)).
      unfold blen in IH. rewrite Nat2N.inj_add, IH; lia.
Qed.

Theorem hkdf_expand_length prk info len :
  len <= 255 * 32 -> blen (hkdf_expand prk info len) = len.
Proof. intro H. apply hkdf_expand_loop_length. cbn. lia. Qed.

Theorem hkdf_sha256_length salt ikm info len :
  len <= 255 * 32 -> blen (hkdf_sha256 salt ikm info len) = len.
Proof. intro H. unfold hkdf_sha256. apply hkdf_expand_length. exact H. Qed.

Lemma hkdf_expand_loop_wf fuel prk info tprev ctr need :
  wf_bytes (hkdf_expand_loop fuel prk info tprev ctr need) = true.
Proof.
  revert tprev ctr need; induction fuel as [|fuel IH]; intros tprev ctr need;
    cbn [hkdf_expand_loop]; [reflexivity|].
  destruct (need =? 0); [reflexivity|].
  pose proof (hmac_sha256_wf prk (tprev ++ info ++ [ctr])) as Hw.
  destruct (need <=? 32).
  - apply wf_bytes_firstn. exact Hw.
  - rewrite wf_bytes_app, Hw, IH. reflexivity.
Qed.

Theorem hkdf_expand_wf prk info len : wf_bytes (hkdf_expand prk info len) = true.
Proof. apply hkdf_expand_loop_wf. Qed.

(* ---------- RFC 5869 Appendix A test cases 1, 2, 3 ---------- *)

Example hkdf_rfc5869_tc1_prk :
  hkdf_extract (bytes_of_hex "000102030405060708090a0b0c") (repeat 0x0b 22) =
    bytes_of_hex "077709362c2e32df0ddc3f0dc47bba6390b6c73bb50f9c3122ec844ad7c2b3e5".
Proof. vm_compute. reflexivity. Qed.

Example hkdf_rfc5869_tc1 :
  hkdf_sha256 (bytes_of_hex "000102030405060708090a0b0c") (repeat 0x0b 22)
    (bytes_of_hex "f0f1f2f3f4f5f6f7f8f9") 42 =
    bytes_of_hex "3cb25f25faacd57a90434f64d0362f2a2d2d0a90cf1a5a4c5db02d56ecc4c5bf34007208d5b887185865".
Proof. vm_compute. reflexivity. Qed.

(* 80-byte ikm / salt / info, 82 bytes of output (three blocks) *)
Example hkdf_rfc5869_tc2 :
  hkdf_sha256
    (bytes_of_hex "606162636465666768696a6b6c6d6e6f707172737475767778797a7b7c7d7e7f808182838485868788898a8b8c8d8e8f909192939495969798999a9b9c9d9e9fa0a1a2a3a4a5a6a7a8a9aaabacadaeaf")
    (bytes_of_hex "000102030405060708090a0b0c0d0e0f101112131415161718191a1b1c1d1e1f202122232425262728292a2b2c2d2e2f303132333435363738393a3b3c3d3e3f404142434445464748494a4b4c4d4e4f")
    (bytes_of_hex "b0b1b2b3b4b5b6b7b8b9babbbcbdbebfc0c1c2c3c4c5c6c7c8c9cacbcccdcecfd0d1d2d3d4d5d6d7d8d9dadbdcdddedfe0e1e2e3e4e5e6e7e8e9eaebecedeeeff0f1f2f3f4f5f6f7f8f9fafbfcfdfeff")
    82 =
    bytes_of_hex "b11e398dc80327a1c8e7f78c596a49344f012eda2d4efad8a050cc4c19afa97c59045a99cac7827271cb41c65e590e09da3275600c2f09b8367793a9aca3db71cc30c58179ec3e87c14c01d5c1f3434f1d87".
Proof. vm_compute. reflexivity. Qed.

(* empty salt and info *)
Example hkdf_rfc5869_tc3_prk :
  hkdf_extract [] (repeat 0x0b 22) =
    bytes_of_hex "19ef24a32c717b167f33a91d6f648bdf96596776afdb6377ac434c1c293ccb04".
Proof. vm_compute. reflexivity. Qed.

Example hkdf_rfc5869_tc3 :
  hkdf_sha256 [] (repeat 0x0b 22) [] 42 =
    bytes_of_hex "8da4e775a563c18f715f802a063c5a31b8a11f5c5ee1879ec3454e5f3c738d2d9d201395faa4b61a96c8".
Proof. vm_compute. reflexivity. Qed.

(* empty salt = 32 zero bytes *)
Example hkdf_empty_salt_is_zero_salt :
  hkdf_extract (repeat 0 32) (repeat 0x0b 22) = hkdf_extract [] (repeat 0x0b 22).
Proof. vm_compute. reflexivity. Qed.

(* exact block boundary: 64 bytes = T(1) ++ T(2), no partial block *)
Example hkdf_two_full_blocks :
  hkdf_sha256 [] (repeat 0x0b 22) [] 64 =
    bytes_of_hex "8da4e775a563c18f715f802a063c5a31b8a11f5c5ee1879ec3454e5f3c738d2d" ++
    bytes_of_hex "9d201395faa4b61a96c8b2fb61057244b36c6ddd287f634795e7d80d5fe26bfc".
Proof. vm_compute. reflexivity. Qed.

Example hkdf_len0 : hkdf_sha256 [] (repeat 0x0b 22) [] 0 = [].
Proof. vm_compute. reflexivity. Qed.
