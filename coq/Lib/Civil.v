(* Proleptic Gregorian calendar arithmetic over Z (days since 1970-01-01), after H. Hinnant's
   days_from_civil / civil_from_days.  Used by the model of TDate (UTC normalisation) and by the
   C19 specification of date-time values.  The key theorem, days_from_civil (civil_from_days z) = z
   with a valid calendar date for EVERY z, is reduced by 400-year periodicity to a finite sweep
   over the 146097 days of one era. *)
From Coq Require Import ZArith Bool Lia List.
Open Scope Z_scope.

Definition is_leap (y : Z) : bool :=
  (y mod 4 =? 0) && (negb (y mod 100 =? 0) || (y mod 400 =? 0)).

Definition days_in_month (y m : Z) : Z :=
  if m =? 2 then (if is_leap y then 29 else 28)
  else if (m =? 4) || (m =? 6) || (m =? 9) || (m =? 11) then 30 else 31.

Definition valid_date (y m d : Z) : bool :=
  (1 <=? m) && (m <=? 12) && (1 <=? d) && (d <=? days_in_month y m).

(* day of era from year of era, month, day (March-based months) *)
Definition doe_of (yoe m d : Z) : Z :=
  let mp := if 2 <? m then m - 3 else m + 9 in
  yoe * 365 + yoe / 4 - yoe / 100 + (153 * mp + 2) / 5 + d - 1.

Definition days_from_civil (y m d : Z) : Z :=
  let y' := if m <=? 2 then y - 1 else y in
  (y' / 400) * 146097 + doe_of (y' mod 400) m d - 719468.

(* year of era, month, day from day of era *)
Definition split_doe (doe : Z) : Z * Z * Z :=
  let yoe := (doe - doe / 1460 + doe / 36524 - doe / 146096) / 365 in
  let doy := doe - (365 * yoe + yoe / 4 - yoe / 100) in
  let mp := (5 * doy + 2) / 153 in
  let d := doy - (153 * mp + 2) / 5 + 1 in
  let m := if mp <? 10 then mp + 3 else mp - 9 in
  (yoe, m, d).

Definition civil_from_days (z : Z) : Z * Z * Z :=
  let z := z + 719468 in
  let '(yoe, m, d) := split_doe (z mod 146097) in
  let y := yoe + (z / 146097) * 400 in
  (if m <=? 2 then y + 1 else y, m, d).

(* ---------- the finite sweep ---------- *)

Definition split_ok (doe : Z) : bool :=
  let '(yoe, m, d) := split_doe doe in
  (0 <=? yoe) && (yoe <? 400) && (doe_of yoe m d =? doe) &&
  valid_date (if m <=? 2 then yoe + 1 else yoe) m d &&
  (* the civil year changes between day 146036 (31 December) and 146037 (1 January) of the era *)
  (if 146037 <=? doe then (yoe =? 399) && (m <=? 2) else (if m <=? 2 then yoe + 1 else yoe) <=? 399).

Fixpoint all_upto (f : Z -> bool) (n : nat) (z : Z) : bool :=
  match n with
  | O => true
  | S k => f z && all_upto f k (z + 1)
  end.

Lemma all_upto_spec f n : forall z, all_upto f n z = true ->
  forall i, z <= i < z + Z.of_nat n -> f i = true.
Proof.
  induction n as [|n IH]; intros z H i Hi.
  - simpl in Hi. lia.
  - cbn [all_upto] in H. apply andb_true_iff in H as [H0 H1].
    destruct (Z.eq_dec i z) as [->|Hne]; [exact H0|].
    apply (IH (z + 1) H1). rewrite Nat2Z.inj_succ in Hi. lia.
Qed.

Lemma split_ok_sweep : all_upto split_ok (Z.to_nat 146097) 0 = true.
Proof. vm_compute. reflexivity. Qed.

Lemma split_ok_all doe : 0 <= doe < 146097 -> split_ok doe = true.
Proof.
  intro H. apply (all_upto_spec split_ok (Z.to_nat 146097) 0 split_ok_sweep).
  rewrite Z2Nat.id by lia. lia.
Qed.

(* ---------- leap years are 400-periodic ---------- *)

Lemma is_leap_period a e : is_leap (a + e * 400) = is_leap a.
Proof.
  unfold is_leap.
  replace (a + e * 400) with (a + (e * 100) * 4) at 1 by lia. rewrite Z_mod_plus_full.
  replace (a + e * 400) with (a + (e * 4) * 100) at 1 by lia. rewrite Z_mod_plus_full.
  rewrite Z_mod_plus_full. reflexivity.
Qed.

Lemma valid_date_period a e m d : valid_date (a + e * 400) m d = valid_date a m d.
Proof. unfold valid_date, days_in_month. rewrite is_leap_period. reflexivity. Qed.

(* ---------- main theorem ---------- *)

Theorem civil_from_days_spec z :
  let '(y, m, d) := civil_from_days z in
  valid_date y m d = true /\ days_from_civil y m d = z.
Proof.
  unfold civil_from_days.
  set (z' := z + 719468).
  assert (Hr : 0 <= z' mod 146097 < 146097) by (apply Z.mod_pos_bound; lia).
  pose proof (split_ok_all _ Hr) as Hok. unfold split_ok in Hok.
  destruct (split_doe (z' mod 146097)) as [[yoe m] d].
  apply andb_true_iff in Hok as [Hok _].
  repeat (apply andb_true_iff in Hok as [Hok ?]).
  apply Z.leb_le in Hok. apply Z.ltb_lt in H1. apply Z.eqb_eq in H0.
  set (era := z' / 146097) in *.
  split.
  - replace (if m <=? 2 then yoe + era * 400 + 1 else yoe + era * 400)
      with ((if m <=? 2 then yoe + 1 else yoe) + era * 400) by (destruct (m <=? 2); lia).
    rewrite valid_date_period. exact H.
  - unfold days_from_civil.
    replace (if m <=? 2 then (if m <=? 2 then yoe + era * 400 + 1 else yoe + era * 400) - 1
             else (if m <=? 2 then yoe + era * 400 + 1 else yoe + era * 400))
      with (yoe + era * 400) by (destruct (m <=? 2); lia).
    rewrite Z.div_add by lia. rewrite Z.mod_add by lia.
    rewrite (Z.div_small yoe 400) by lia. rewrite (Z.mod_small yoe 400) by lia.
    rewrite H0. pose proof (Z.div_mod z' 146097 ltac:(lia)). subst era. unfold z' in *. lia.
Qed.

(* years 0000..9999 are exactly the days from 0000-01-01 to 9999-12-31 *)
Theorem civil_year_range z :
  days_from_civil 0 1 1 <= z <= days_from_civil 9999 12 31 ->
  let '(y, _, _) := civil_from_days z in 0 <= y <= 9999.
Proof.
  replace (days_from_civil 0 1 1) with (-719528) by (vm_compute; reflexivity).
  replace (days_from_civil 9999 12 31) with 2932896 by (vm_compute; reflexivity).
  intro Hz. unfold civil_from_days.
  set (z' := z + 719468).
  assert (Hr : 0 <= z' mod 146097 < 146097) by (apply Z.mod_pos_bound; lia).
  pose proof (split_ok_all _ Hr) as Hok. unfold split_ok in Hok.
  pose proof (Z.div_mod z' 146097 ltac:(lia)) as Hdm.
  destruct (split_doe (z' mod 146097)) as [[yoe m] d].
  apply andb_true_iff in Hok as [Hok Hb].
  repeat (apply andb_true_iff in Hok as [Hok ?]).
  apply Z.leb_le in Hok. apply Z.ltb_lt in H1.
  set (era := z' / 146097) in *. set (doe := z' mod 146097) in *.
  assert (He : -1 <= era <= 24) by (unfold z' in *; nia).
  destruct (146037 <=? doe) eqn:Ed.
  - apply andb_true_iff in Hb as [Hy Hm]. apply Z.eqb_eq in Hy. rewrite Hm. apply Z.leb_le in Ed.
    assert (era <= 23) by (unfold z' in *; nia). lia.
  - apply Z.leb_gt in Ed. apply Z.leb_le in Hb.
    assert (0 <= era) by (unfold z' in *; nia).
    destruct (m <=? 2); nia.
Qed.

(* ... and conversely *)
Theorem civil_year_range_conv z :
  (let '(y, _, _) := civil_from_days z in 0 <= y <= 9999) ->
  days_from_civil 0 1 1 <= z <= days_from_civil 9999 12 31.
Proof.
  replace (days_from_civil 0 1 1) with (-719528) by (vm_compute; reflexivity).
  replace (days_from_civil 9999 12 31) with 2932896 by (vm_compute; reflexivity).
  unfold civil_from_days.
  set (z' := z + 719468).
  assert (Hr : 0 <= z' mod 146097 < 146097) by (apply Z.mod_pos_bound; lia).
  pose proof (split_ok_all _ Hr) as Hok. unfold split_ok in Hok.
  pose proof (Z.div_mod z' 146097 ltac:(lia)) as Hdm.
  destruct (split_doe (z' mod 146097)) as [[yoe m] d].
  apply andb_true_iff in Hok as [Hok Hb].
  repeat (apply andb_true_iff in Hok as [Hok ?]).
  apply Z.leb_le in Hok. apply Z.ltb_lt in H1.
  set (era := z' / 146097) in *. set (doe := z' mod 146097) in *.
  intro Hy.
  destruct (146037 <=? doe) eqn:Ed.
  - apply andb_true_iff in Hb as [Hyoe Hm]. apply Z.eqb_eq in Hyoe. rewrite Hm in Hy. apply Z.leb_le in Ed.
    assert (-1 <= era <= 23) by lia. unfold z' in *. nia.
  - apply Z.leb_gt in Ed. apply Z.leb_le in Hb.
    assert (0 <= era <= 24) by (destruct (m <=? 2); nia). unfold z' in *. nia.
Qed.

(* seconds since 1970-01-01T00:00:00Z of a civil date-time with an offset in seconds *)
Definition epoch_seconds (y m d h mi s off : Z) : Z :=
  days_from_civil y m d * 86400 + h * 3600 + mi * 60 + s - off.
