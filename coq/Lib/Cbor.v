(* CBOR (RFC 8949): abstract syntax, ciborium's encoder, and a fuelled decoder that accepts what
   ciborium 0.2.2 accepts when deserialising into ciborium::Value.  Executable definitions only;
   the theorems about them are in Proofs/CborProofs.v. *)
From Isomdl Require Import Lib.Bytes Lib.Utf8.
Open Scope N_scope.

Inductive cbor :=
| CUInt (n : N)                          (* major 0 *)
| CNInt (n : N)                          (* major 1: denotes -1 - n *)
| CBytes (b : bytes)                     (* major 2 *)
| CText (b : bytes)                      (* major 3, UTF-8 bytes *)
| CArray (l : list cbor)                 (* major 4 *)
| CMap (kvs : list (cbor * cbor))        (* major 5, entries in wire order *)
| CTag (t : N) (v : cbor)                (* major 6 *)
| CBool (b : bool)
| CNull
| CFloat (w : N) (bits : N).             (* w = 2, 4 or 8 bytes; IEEE bits, opaque *)

(* ---------- encoder: shortest head, definite lengths (what ciborium emits) ---------- *)

Definition head (major n : N) : bytes :=
  if n <? 24 then [major * 32 + n]
  else if n <? 256 then [major * 32 + 24; n]
  else if n <? 65536 then (major * 32 + 25) :: be_bytes 2 n
  else if n <? 4294967296 then (major * 32 + 26) :: be_bytes 4 n
  else (major * 32 + 27) :: be_bytes 8 n.

Definition float_ai (w : N) : N := if w =? 2 then 25 else if w =? 4 then 26 else 27.
Definition float_len (w : N) : nat := if w =? 2 then 2%nat else if w =? 4 then 4%nat else 8%nat.

Fixpoint encode (v : cbor) : bytes :=
  match v with
  | CUInt n => head 0 n
  | CNInt n => head 1 n
  | CBytes b => head 2 (blen b) ++ b
  | CText b => head 3 (blen b) ++ b
  | CArray l => head 4 (N.of_nat (length l)) ++ flat_map encode l
  | CMap kvs => head 5 (N.of_nat (length kvs))
                  ++ flat_map (fun kv => let '(k, x) := kv in encode k ++ encode x) kvs
  | CTag t x => head 6 t ++ encode x
  | CBool false => [244]
  | CBool true => [245]
  | CNull => [246]
  | CFloat w bits => (224 + float_ai w) :: be_bytes (float_len w) bits
  end.

(* ---------- decoder ---------- *)

Inductive dres (A : Type) := DOk (a : A) | DErr | DFuel.
Arguments DOk {A} a.
Arguments DErr {A}.
Arguments DFuel {A}.

Definition dbind {A B} (r : dres A) (f : A -> dres B) : dres B :=
  match r with DOk a => f a | DErr => DErr | DFuel => DFuel end.
Notation "x <- r ;; k" := (dbind r (fun x => k)) (at level 61, r at next level, right associativity).
Notation "' p <- r ;; k" := (dbind r (fun p => k)) (at level 61, p pattern, r at next level, right associativity).

Definition of_opt {A} (o : option A) : dres A := match o with Some a => DOk a | None => DErr end.

Inductive harg := HVal (n : N) | HIndef.

(* initial byte + argument: (major, additional info, argument, rest) *)
Definition read_head (bs : bytes) : dres (N * N * harg * bytes) :=
  match bs with
  | [] => DErr
  | b :: r =>
    if negb (b <? 256) then DErr else
    let major := b / 32 in
    let ai := b mod 32 in
    if ai <? 24 then DOk (major, ai, HVal ai, r)
    else if ai =? 24 then '(a, r') <- of_opt (take_drop 1 r) ;; DOk (major, ai, HVal (be_value a), r')
    else if ai =? 25 then '(a, r') <- of_opt (take_drop 2 r) ;; DOk (major, ai, HVal (be_value a), r')
    else if ai =? 26 then '(a, r') <- of_opt (take_drop 4 r) ;; DOk (major, ai, HVal (be_value a), r')
    else if ai =? 27 then '(a, r') <- of_opt (take_drop 8 r) ;; DOk (major, ai, HVal (be_value a), r')
    else if ai =? 31 then DOk (major, ai, HIndef, r)
    else DErr
  end.

(* chunks of an indefinite-length string: definite strings of the same major type until break *)
Fixpoint decode_chunks (fuel : nat) (major : N) (bs : bytes) : dres (bytes * bytes) :=
  match fuel with
  | O => DFuel
  | S f =>
    match bs with
    | 255 :: r => DOk ([], r)
    | _ =>
      '(m, _, a, r) <- read_head bs ;;
      if negb (m =? major) then DErr else
      match a with
      | HIndef => DErr
      | HVal n =>
        '(c, r') <- of_opt (split_at n r) ;;
        if (major =? 3) && negb (utf8_valid c) then DErr else
        '(cs, r'') <- decode_chunks f major r' ;;
        DOk (c ++ cs, r'')
      end
    end
  end.

(* ciborium turns tag 2 / tag 3 big numbers that fit 64 bits into plain integers *)
Definition norm_tag (t : N) (v : cbor) : cbor :=
  match v with
  | CBytes b =>
    if (t =? 2) && (be_value b <? 18446744073709551616) && (blen b <=? 16) then CUInt (be_value b)
    else if (t =? 3) && (be_value b <? 18446744073709551616) && (blen b <=? 16) then CNInt (be_value b)
    else CTag t v
  | _ => CTag t v
  end.

Fixpoint decode (fuel : nat) (bs : bytes) {struct fuel} : dres (cbor * bytes) :=
  match fuel with
  | O => DFuel
  | S f =>
    '(major, ai, a, r) <- read_head bs ;;
    match major, a with
    | 0, HVal n => DOk (CUInt n, r)
    | 1, HVal n => DOk (CNInt n, r)
    | 2, HVal n => '(b, r') <- of_opt (split_at n r) ;; DOk (CBytes b, r')
    | 2, HIndef => '(b, r') <- decode_chunks f 2 r ;; DOk (CBytes b, r')
    | 3, HVal n => '(b, r') <- of_opt (split_at n r) ;;
                   if utf8_valid b then DOk (CText b, r') else DErr
    | 3, HIndef => '(b, r') <- decode_chunks f 3 r ;; DOk (CText b, r')
    | 4, HVal n => '(l, r') <- decode_n f n r ;; DOk (CArray l, r')
    | 4, HIndef => '(l, r') <- decode_until f r ;; DOk (CArray l, r')
    | 5, HVal n => '(l, r') <- decode_pairs_n f n r ;; DOk (CMap l, r')
    | 5, HIndef => '(l, r') <- decode_pairs_until f r ;; DOk (CMap l, r')
    | 6, HVal t => '(v, r') <- decode f r ;; DOk (norm_tag t v, r')
    | 7, HVal n =>
      if ai =? 20 then DOk (CBool false, r)
      else if ai =? 21 then DOk (CBool true, r)
      else if ai =? 22 then DOk (CNull, r)
      else if ai =? 23 then DOk (CNull, r)
      else if ai =? 25 then DOk (CFloat 2 n, r)
      else if ai =? 26 then DOk (CFloat 4 n, r)
      else if ai =? 27 then DOk (CFloat 8 n, r)
      else DErr
    | _, _ => DErr
    end
  end
with decode_n (fuel : nat) (n : N) (bs : bytes) {struct fuel} : dres (list cbor * bytes) :=
  match fuel with
  | O => DFuel
  | S f =>
    if n =? 0 then DOk ([], bs) else
    '(v, r) <- decode f bs ;;
    '(vs, r') <- decode_n f (n - 1) r ;;
    DOk (v :: vs, r')
  end
with decode_until (fuel : nat) (bs : bytes) {struct fuel} : dres (list cbor * bytes) :=
  match fuel with
  | O => DFuel
  | S f =>
    match bs with
    | 255 :: r => DOk ([], r)
    | _ =>
      '(v, r) <- decode f bs ;;
      '(vs, r') <- decode_until f r ;;
      DOk (v :: vs, r')
    end
  end
with decode_pairs_n (fuel : nat) (n : N) (bs : bytes) {struct fuel} : dres (list (cbor * cbor) * bytes) :=
  match fuel with
  | O => DFuel
  | S f =>
    if n =? 0 then DOk ([], bs) else
    '(k, r) <- decode f bs ;;
    '(v, r') <- decode f r ;;
    '(kvs, r'') <- decode_pairs_n f (n - 1) r' ;;
    DOk ((k, v) :: kvs, r'')
  end
with decode_pairs_until (fuel : nat) (bs : bytes) {struct fuel} : dres (list (cbor * cbor) * bytes) :=
  match fuel with
  | O => DFuel
  | S f =>
    match bs with
    | 255 :: r => DOk ([], r)
    | _ =>
      '(k, r) <- decode f bs ;;
      '(v, r') <- decode f r ;;
      '(kvs, r'') <- decode_pairs_until f r' ;;
      DOk ((k, v) :: kvs, r'')
    end
  end.

(* fuel that always suffices: every recursive call consumes a byte or descends one list cell *)
Definition fuel_for (bs : bytes) : nat := (2 * length bs + 2)%nat.

(* from_slice: first complete item, trailing bytes ignored (ciborium::from_reader) *)
Definition decode_first (bs : bytes) : option cbor :=
  match decode (fuel_for bs) bs with DOk (v, _) => Some v | _ => None end.

(* strict: the whole input is one item *)
Definition decode_all (bs : bytes) : option cbor :=
  match decode (fuel_for bs) bs with DOk (v, []) => Some v | _ => None end.

(* ---------- well-formedness: the values for which decode (encode v) = v ---------- *)

Definition two64 : N := 18446744073709551616.

Fixpoint wf (v : cbor) : bool :=
  match v with
  | CUInt n | CNInt n => n <? two64
  | CBytes b => wf_bytes b
  | CText b => wf_bytes b && utf8_valid b
  | CArray l => forallb wf l
  | CMap kvs => forallb (fun kv => let '(k, x) := kv in wf k && wf x) kvs
  | CTag t x => (t <? two64) && wf x &&
                match x with
                | CBytes b => negb (((t =? 2) || (t =? 3)) && (be_value b <? two64) && (blen b <=? 16))
                | _ => true
                end
  | CBool _ | CNull => true
  | CFloat w bits => ((w =? 2) || (w =? 4) || (w =? 8)) && (bits <? 256 ^ w)
  end.

(* ---------- equality and small helpers used by models ---------- *)

Fixpoint cbor_eqb (a b : cbor) {struct a} : bool :=
  match a, b with
  | CUInt n, CUInt m | CNInt n, CNInt m => n =? m
  | CBytes x, CBytes y | CText x, CText y => bytes_eqb x y
  | CArray l, CArray l' =>
    (fix go (l l' : list cbor) : bool :=
       match l, l' with
       | [], [] => true
       | x :: r, y :: r' => cbor_eqb x y && go r r'
       | _, _ => false
       end) l l'
  | CMap l, CMap l' =>
    (fix go (l l' : list (cbor * cbor)) : bool :=
       match l, l' with
       | [], [] => true
       | (k, x) :: r, (k', y) :: r' => cbor_eqb k k' && cbor_eqb x y && go r r'
       | _, _ => false
       end) l l'
  | CTag t x, CTag t' y => (t =? t') && cbor_eqb x y
  | CBool x, CBool y => Bool.eqb x y
  | CNull, CNull => true
  | CFloat w x, CFloat w' y => (w =? w') && (x =? y)
  | _, _ => false
  end.

Definition ctext (s : String.string) : cbor := CText (bytes_of_string s).

(* first entry with the given key (serde's struct visitor sees keys in wire order) *)
Fixpoint map_get (k : cbor) (kvs : list (cbor * cbor)) : option cbor :=
  match kvs with
  | [] => None
  | (k', v) :: r => if cbor_eqb k k' then Some v else map_get k r
  end.

Definition tag24 (inner : bytes) : cbor := CTag 24 (CBytes inner).
