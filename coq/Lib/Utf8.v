(* UTF-8 well-formedness exactly as Rust's core::str::from_utf8 (Unicode Table 3-7). *)
From Isomdl Require Import Lib.Bytes.
Open Scope N_scope.

Definition in_range (lo hi b : N) : bool := (lo <=? b) && (b <=? hi).
Definition cont (b : N) : bool := in_range 128 191 b.

Fixpoint utf8_valid_fuel (fuel : nat) (bs : bytes) : bool :=
  match fuel with
  | O => match bs with [] => true | _ => false end
  | S f =>
    match bs with
    | [] => true
    | b0 :: r =>
      if b0 <? 128 then utf8_valid_fuel f r
      else if in_range 194 223 b0 then
        match r with b1 :: r' => cont b1 && utf8_valid_fuel f r' | _ => false end
      else if b0 =? 224 then
        match r with b1 :: b2 :: r' => in_range 160 191 b1 && cont b2 && utf8_valid_fuel f r' | _ => false end
      else if in_range 225 236 b0 || in_range 238 239 b0 then
        match r with b1 :: b2 :: r' => cont b1 && cont b2 && utf8_valid_fuel f r' | _ => false end
      else if b0 =? 237 then
        match r with b1 :: b2 :: r' => in_range 128 159 b1 && cont b2 && utf8_valid_fuel f r' | _ => false end
      else if b0 =? 240 then
        match r with b1 :: b2 :: b3 :: r' => in_range 144 191 b1 && cont b2 && cont b3 && utf8_valid_fuel f r' | _ => false end
      else if in_range 241 243 b0 then
        match r with b1 :: b2 :: b3 :: r' => cont b1 && cont b2 && cont b3 && utf8_valid_fuel f r' | _ => false end
      else if b0 =? 244 then
        match r with b1 :: b2 :: b3 :: r' => in_range 128 143 b1 && cont b2 && cont b3 && utf8_valid_fuel f r' | _ => false end
      else false
    end
  end.

Definition utf8_valid (bs : bytes) : bool := utf8_valid_fuel (length bs) bs.

(* number of Unicode scalar values in a valid UTF-8 string = number of non-continuation bytes *)
Definition utf8_chars (bs : bytes) : N :=
  N.of_nat (length (filter (fun b => negb (cont b)) bs)).

Definition is_ascii (bs : bytes) : bool := forallb (fun b => b <? 128) bs.
