(* Bytes: a byte is an N below 256; byte strings are lists.  Executable definitions only
   plus the handful of basic lemmas every other file needs. *)
From Coq Require Export List NArith ZArith Bool Lia.
Export ListNotations.
Open Scope N_scope.

Arguments N.add : simpl never.
Arguments N.sub : simpl never.
Arguments N.mul : simpl never.
Arguments N.div : simpl never.
Arguments N.modulo : simpl never.
Arguments N.eqb : simpl never.
Arguments N.ltb : simpl never.
Arguments N.leb : simpl never.
Arguments N.pow : simpl never.
Arguments N.shiftl : simpl never.
Arguments N.shiftr : simpl never.
Arguments N.land : simpl never.
Arguments N.lor : simpl never.
Arguments N.lxor : simpl never.

Definition byte := N.
Definition bytes := list N.

Definition is_byte (b : N) : bool := b <? 256.
Definition wf_bytes (bs : bytes) : bool := forallb is_byte bs.

(* length as an N (never as a large nat literal) *)
Definition blen (bs : bytes) : N := N.of_nat (length bs).

(* big-endian encoding of n on k bytes (most significant first); value taken mod 256^k *)
Fixpoint be_bytes (k : nat) (n : N) : bytes :=
  match k with
  | O => []
  | S k' => be_bytes k' (n / 256) ++ [n mod 256]
  end.

Fixpoint be_value_acc (acc : N) (bs : bytes) : N :=
  match bs with
  | [] => acc
  | b :: r => be_value_acc (acc * 256 + b) r
  end.
Definition be_value (bs : bytes) : N := be_value_acc 0 bs.

Definition be16 := be_bytes 2.
Definition be32 := be_bytes 4.
Definition be64 := be_bytes 8.

Fixpoint bytes_eqb (a b : bytes) : bool :=
  match a, b with
  | [], [] => true
  | x :: a', y :: b' => (x =? y) && bytes_eqb a' b'
  | _, _ => false
  end.

(* lexicographic order on byte strings = Rust's Ord for String / Vec<u8> *)
Fixpoint bytes_ltb (a b : bytes) : bool :=
  match a, b with
  | [], [] => false
  | [], _ :: _ => true
  | _ :: _, [] => false
  | x :: a', y :: b' => if x <? y then true else if y <? x then false else bytes_ltb a' b'
  end.

Fixpoint is_prefix (p s : bytes) : bool :=
  match p, s with
  | [], _ => true
  | x :: p', y :: s' => (x =? y) && is_prefix p' s'
  | _ :: _, [] => false
  end.

Fixpoint strip_prefix (p s : bytes) : option bytes :=
  match p, s with
  | [], _ => Some s
  | x :: p', y :: s' => if x =? y then strip_prefix p' s' else None
  | _ :: _, [] => None
  end.

(* s contains p as a contiguous substring (Rust str::contains) *)
Fixpoint contains (p s : bytes) : bool :=
  is_prefix p s ||
  match s with
  | [] => false
  | _ :: s' => contains p s'
  end.

(* ASCII string literal -> bytes *)
From Coq Require Ascii String.
Export String.StringSyntax.
Delimit Scope string_scope with string.
Fixpoint bytes_of_string (s : String.string) : bytes :=
  match s with
  | String.EmptyString => []
  | String.String c r => Ascii.N_of_ascii c :: bytes_of_string r
  end.

(* Vec::last / Vec::pop *)
Fixpoint last_opt {A} (l : list A) : option A :=
  match l with
  | [] => None
  | [x] => Some x
  | _ :: r => last_opt r
  end.

Fixpoint pop_last {A} (l : list A) : option (list A * A) :=
  match l with
  | [] => None
  | [x] => Some ([], x)
  | x :: r => match pop_last r with Some (r', y) => Some (x :: r', y) | None => None end
  end.

(* take / drop with an N count, total (short input => None) *)
Fixpoint take_drop (n : nat) (bs : bytes) : option (bytes * bytes) :=
  match n with
  | O => Some ([], bs)
  | S n' => match bs with
            | [] => None
            | b :: r => match take_drop n' r with
                        | Some (t, d) => Some (b :: t, d)
                        | None => None
                        end
            end
  end.

(* N-indexed split that never converts a huge N to nat: fails fast when n exceeds the length *)
Definition split_at (n : N) (bs : bytes) : option (bytes * bytes) :=
  if n <=? blen bs then take_drop (N.to_nat n) bs else None.

Lemma bytes_eqb_eq a b : bytes_eqb a b = true <-> a = b.
Proof.
  revert b; induction a as [|x a IH]; intros [|y b]; cbn [bytes_eqb]; split; intro H;
    try reflexivity; try discriminate.
  - apply andb_true_iff in H as [H1 H2]. apply N.eqb_eq in H1. apply IH in H2. congruence.
  - inversion H; subst. rewrite N.eqb_refl. cbn. apply IH. reflexivity.
Qed.

Lemma bytes_eqb_refl a : bytes_eqb a a = true.
Proof. apply bytes_eqb_eq; reflexivity. Qed.

Lemma strip_prefix_app p s : strip_prefix p (p ++ s) = Some s.
Proof. induction p as [|x p IH]; cbn [strip_prefix app]; [reflexivity|]. rewrite N.eqb_refl. exact IH. Qed.

Lemma strip_prefix_some p s r : strip_prefix p s = Some r -> s = p ++ r.
Proof.
  revert s; induction p as [|x p IH]; intros s H; cbn [strip_prefix] in H.
  - inversion H; reflexivity.
  - destruct s as [|y s]; [discriminate|]. destruct (N.eqb_spec x y) as [->|]; [|discriminate].
    cbn [app]. f_equal. apply IH; exact H.
Qed.

Lemma take_drop_app a b : take_drop (length a) (a ++ b) = Some (a, b).
Proof. induction a as [|x a IH]; cbn [take_drop length app]; [reflexivity|]. rewrite IH. reflexivity. Qed.

Lemma take_drop_some n bs t d : take_drop n bs = Some (t, d) -> bs = t ++ d /\ length t = n.
Proof.
  revert bs t d; induction n as [|n IH]; intros bs t d H; cbn [take_drop] in H.
  - inversion H; subst. split; reflexivity.
  - destruct bs as [|b r]; [discriminate|]. destruct (take_drop n r) as [[t' d']|] eqn:E; [|discriminate].
    inversion H; subst. apply IH in E as [-> <-]. split; reflexivity.
Qed.

Lemma split_at_app a b : split_at (blen a) (a ++ b) = Some (a, b).
Proof.
  unfold split_at, blen. rewrite app_length.
  destruct (N.leb_spec (N.of_nat (length a)) (N.of_nat (length a + length b))) as [_|H]; [|lia].
  rewrite Nat2N.id. apply take_drop_app.
Qed.

Lemma split_at_some n bs t d : split_at n bs = Some (t, d) -> bs = t ++ d /\ blen t = n.
Proof.
  unfold split_at. destruct (N.leb_spec n (blen bs)) as [Hle|]; [|discriminate].
  intro H. apply take_drop_some in H as [-> Hl]. split; [reflexivity|]. unfold blen. rewrite Hl. lia.
Qed.

Lemma be_bytes_length k n : length (be_bytes k n) = k.
Proof. revert n; induction k as [|k IH]; intro n; cbn [be_bytes]; [reflexivity|]. rewrite app_length, IH. cbn. lia. Qed.

Lemma be_bytes_wf k n : Forall (fun b => b < 256) (be_bytes k n).
Proof.
  revert n; induction k as [|k IH]; intro n; cbn [be_bytes]; [constructor|].
  apply Forall_app; split; [apply IH|]. constructor; [|constructor]. apply N.mod_lt. lia.
Qed.

Lemma be_value_acc_app acc a b : be_value_acc acc (a ++ b) = be_value_acc (be_value_acc acc a) b.
Proof. revert acc; induction a as [|x a IH]; intro acc; cbn [be_value_acc app]; [reflexivity|]. apply IH. Qed.

Lemma be_value_be_bytes k n : n < 256 ^ N.of_nat k -> be_value (be_bytes k n) = n.
Proof.
  unfold be_value. revert n; induction k as [|k IH]; intros n Hn.
  - cbn in *. change (256 ^ 0) with 1 in Hn. lia.
  - cbn [be_bytes]. rewrite be_value_acc_app. rewrite IH.
    + cbn [be_value_acc]. rewrite N.mul_comm. symmetry. apply N.div_mod. lia.
    + rewrite Nat2N.inj_succ, N.pow_succ_r' in Hn. apply N.div_lt_upper_bound; lia.
Qed.

Lemma be_bytes_inj k n m : n < 256 ^ N.of_nat k -> m < 256 ^ N.of_nat k -> be_bytes k n = be_bytes k m -> n = m.
Proof. intros Hn Hm E. rewrite <- (be_value_be_bytes k n Hn), <- (be_value_be_bytes k m Hm), E. reflexivity. Qed.
