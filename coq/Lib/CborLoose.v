(* A NON-canonical CBOR encoder: every encoding choice RFC 8949 leaves to the producer is taken
   from a choice tree.  [encode_with c v] is one of the (infinitely many) valid encodings of [v];
   Proofs/CborLooseProofs.v shows that the decoder of Lib/Cbor.v (= what ciborium accepts) maps
   every one of them back to [v].  Executable definitions only.

   Choices per node:
     w       requested head width class (taken mod 5): 0 immediate, 1 / 2 / 3 / 4 = 1 / 2 / 4 / 8
             argument bytes; the class actually used is max (w mod 5, shortest class of the argument),
             i.e. ANY width that can hold the argument can be requested
     indef   indefinite-length framing for byte strings, text strings, arrays and maps
     splits  for an indefinite-length string: requested chunk lengths, consumed left to right;
             a requested length is honoured when the remaining string is at least that long and
             (text strings only) both the chunk and the remainder are valid UTF-8, otherwise the
             request is skipped; what remains after the last request is the last chunk
             (zero-length chunks are possible: request 0)
     sub     choices of the children, positionally: array element i -> sub[i]; map entry i ->
             key sub[2i], value sub[2i+1]; tag content -> sub[0]; chunk i of an indefinite string
             -> the width class of sub[i].  Missing children default to the canonical choice. *)
From Isomdl Require Import Lib.Bytes Lib.Utf8 Lib.Cbor.
Open Scope N_scope.

Inductive choices := Ch (w : N) (indef : bool) (splits : list N) (sub : list choices).

Definition ch_default : choices := Ch 0 false [] [].
Definition ch_w (c : choices) : N := let '(Ch w _ _ _) := c in w.
Definition ch_indef (c : choices) : bool := let '(Ch _ i _ _) := c in i.
Definition ch_splits (c : choices) : list N := let '(Ch _ _ s _) := c in s.
Definition ch_sub (c : choices) : list choices := let '(Ch _ _ _ s) := c in s.

(* shortest width class able to hold n *)
Definition min_class (n : N) : N :=
  if n <? 24 then 0 else if n <? 256 then 1 else if n <? 65536 then 2
  else if n <? 4294967296 then 3 else 4.

(* head with width class c (the caller guarantees min_class n <= c <= 4) *)
Definition head_class (major c n : N) : bytes :=
  if c =? 0 then [major * 32 + n]
  else if c =? 1 then [major * 32 + 24; n]
  else if c =? 2 then (major * 32 + 25) :: be_bytes 2 n
  else if c =? 3 then (major * 32 + 26) :: be_bytes 4 n
  else (major * 32 + 27) :: be_bytes 8 n.

Definition loose_class (w n : N) : N := N.max (w mod 5) (min_class n).
Definition loose_head (major w n : N) : bytes := head_class major (loose_class w n) n.

(* chunking of a string; ok = the per-chunk validity the decoder insists on *)
Fixpoint chunk_with (ok : bytes -> bool) (splits : list N) (b : bytes) : list bytes :=
  match splits with
  | [] => [b]
  | k :: ks =>
    match split_at k b with
    | Some (c, r) => if ok c && ok r then c :: chunk_with ok ks r else chunk_with ok ks b
    | None => chunk_with ok ks b
    end
  end.

(* chunks as definite strings of the same major type, each with its own head width *)
Fixpoint enc_chunks (major : N) (cs : list choices) (chunks : list bytes) : bytes :=
  match chunks with
  | [] => []
  | c :: r => loose_head major (ch_w (hd ch_default cs)) (blen c) ++ c ++ enc_chunks major (tl cs) r
  end.

Definition enc_list (enc : choices -> cbor -> bytes) : list choices -> list cbor -> bytes :=
  fix go (cs : list choices) (l : list cbor) : bytes :=
    match l with
    | [] => []
    | x :: r => enc (hd ch_default cs) x ++ go (tl cs) r
    end.

Definition enc_pairs (enc : choices -> cbor -> bytes) : list choices -> list (cbor * cbor) -> bytes :=
  fix go (cs : list choices) (l : list (cbor * cbor)) : bytes :=
    match l with
    | [] => []
    | (k, x) :: r => enc (hd ch_default cs) k ++ enc (hd ch_default (tl cs)) x ++ go (tl (tl cs)) r
    end.

Definition all_true (_ : bytes) : bool := true.

Fixpoint encode_with (c : choices) (v : cbor) {struct v} : bytes :=
  match v with
  | CUInt n => loose_head 0 (ch_w c) n
  | CNInt n => loose_head 1 (ch_w c) n
  | CBytes b =>
    if ch_indef c then 95 :: enc_chunks 2 (ch_sub c) (chunk_with all_true (ch_splits c) b) ++ [255]
    else loose_head 2 (ch_w c) (blen b) ++ b
  | CText b =>
    if ch_indef c then 127 :: enc_chunks 3 (ch_sub c) (chunk_with utf8_valid (ch_splits c) b) ++ [255]
    else loose_head 3 (ch_w c) (blen b) ++ b
  | CArray l =>
    if ch_indef c then 159 :: enc_list encode_with (ch_sub c) l ++ [255]
    else loose_head 4 (ch_w c) (N.of_nat (length l)) ++ enc_list encode_with (ch_sub c) l
  | CMap kvs =>
    if ch_indef c then 191 :: enc_pairs encode_with (ch_sub c) kvs ++ [255]
    else loose_head 5 (ch_w c) (N.of_nat (length kvs)) ++ enc_pairs encode_with (ch_sub c) kvs
  | CTag t x => loose_head 6 (ch_w c) t ++ encode_with (hd ch_default (ch_sub c)) x
  | CBool _ | CNull | CFloat _ _ => encode v
  end.

(* ---------- choice trees from a flat list of small numbers (what a random generator supplies) ----------
   [choices_of fuel v tape] walks [v] and consumes numbers from [tape] deterministically: per node
   one number x: w = x mod 5, indef = (x / 5) odd; for strings additionally (x / 10) mod 4 split
   requests, each one number.  When the tape runs out the canonical choice is used. *)
Definition pop (tape : list N) : N * list N :=
  match tape with [] => (0, []) | x :: r => (x, r) end.

Fixpoint take_n (k : nat) (tape : list N) : list N * list N :=
  match k with
  | O => ([], tape)
  | S k' => let '(x, t1) := pop tape in let '(xs, t2) := take_n k' t1 in (x :: xs, t2)
  end.

Fixpoint choices_of (v : cbor) (tape : list N) {struct v} : choices * list N :=
  let '(x, t0) := pop tape in
  let w := x mod 5 in
  let indef := N.odd (x / 5) in
  match v with
  | CBytes b | CText b =>
    let '(sp, t1) := take_n (N.to_nat ((x / 10) mod 4)) t0 in
    (* split requests are taken modulo (length + 1) so that most of them are honoured *)
    let sp' := List.map (fun s => s mod (blen b + 1)) sp in
    let '(ws, t2) := take_n (length sp') t1 in
    (Ch w indef sp' (List.map (fun y => Ch y false [] []) ws ++ [Ch (x / 40) false [] []]), t2)
  | CArray l =>
    let '(cs, t1) :=
      (fix go (l : list cbor) (tp : list N) : list choices * list N :=
         match l with
         | [] => ([], tp)
         | y :: r => let '(c, tp1) := choices_of y tp in let '(cs, tp2) := go r tp1 in (c :: cs, tp2)
         end) l t0 in
    (Ch w indef [] cs, t1)
  | CMap kvs =>
    let '(cs, t1) :=
      (fix go (l : list (cbor * cbor)) (tp : list N) : list choices * list N :=
         match l with
         | [] => ([], tp)
         | (k, y) :: r =>
           let '(ck, tp1) := choices_of k tp in
           let '(cy, tp2) := choices_of y tp1 in
           let '(cs, tp3) := go r tp2 in (ck :: cy :: cs, tp3)
         end) kvs t0 in
    (Ch w indef [] cs, t1)
  | CTag _ y => let '(c, t1) := choices_of y t0 in (Ch w false [] [c], t1)
  | _ => (Ch w false [] [], t0)
  end.

(* the same, but map KEYS keep definite-length framing (a serde struct visitor over ciborium
   rejects indefinite-length keys; see Model/Tag24.v) *)
Definition definite (c : choices) : choices := let '(Ch w _ sp sub) := c in Ch w false sp sub.

Fixpoint keys_definite_choices (v : cbor) (c : choices) {struct v} : choices :=
  let '(Ch w indef sp sub) := c in
  match v with
  | CArray l =>
    Ch w indef sp
      ((fix go (l : list cbor) (cs : list choices) : list choices :=
          match l with
          | [] => []
          | y :: r => keys_definite_choices y (hd ch_default cs) :: go r (tl cs)
          end) l sub)
  | CMap kvs =>
    Ch w indef sp
      ((fix go (l : list (cbor * cbor)) (cs : list choices) : list choices :=
          match l with
          | [] => []
          | (k, y) :: r =>
            definite (hd ch_default cs) :: keys_definite_choices y (hd ch_default (tl cs)) :: go r (tl (tl cs))
          end) kvs sub)
  | CTag _ y => Ch w indef sp [keys_definite_choices y (hd ch_default sub)]
  | _ => c
  end.

(* additionally every TEXT string keeps definite-length framing (any head width): serde enums over
   ciborium (e.g. the MSO's digestAlgorithm) refuse an indefinite-length variant name *)
Fixpoint texts_definite_choices (v : cbor) (c : choices) {struct v} : choices :=
  let '(Ch w indef sp sub) := c in
  match v with
  | CText _ => Ch w false sp sub
  | CArray l =>
    Ch w indef sp
      ((fix go (l : list cbor) (cs : list choices) : list choices :=
          match l with
          | [] => []
          | y :: r => texts_definite_choices y (hd ch_default cs) :: go r (tl cs)
          end) l sub)
  | CMap kvs =>
    Ch w indef sp
      ((fix go (l : list (cbor * cbor)) (cs : list choices) : list choices :=
          match l with
          | [] => []
          | (k, y) :: r =>
            definite (texts_definite_choices k (hd ch_default cs))
              :: texts_definite_choices y (hd ch_default (tl cs)) :: go r (tl (tl cs))
          end) kvs sub)
  | CTag _ y => Ch w indef sp [texts_definite_choices y (hd ch_default sub)]
  | _ => c
  end.
