(* HMAC-SHA-256 (RFC 2104 / FIPS 198-1) over byte lists. *)
From Isomdl Require Import Lib.Bytes Lib.Sha2.
Import Coq.Strings.String.StringSyntax.
#[local] Arguments bytes_of_string s%string_scope.

(* first n bytes of k, zero-extended on the right to exactly n bytes *)
Fixpoint zero_pad_to (n : nat) (k : bytes) : bytes :=
  match n with
  | O => []
  | S n' => match k with
            | [] => 0 :: zero_pad_to n' []
            | x :: r => x :: zero_pad_to n' r
            end
  end.

(* block-sized key K0: keys longer than the 64-byte block are hashed first *)
Definition hmac_key_block (key : bytes) : bytes :=
  zero_pad_to 64 (if 64 <? nlen key then sha256 key else key).

Definition hmac_sha256 (key msg : bytes) : bytes :=
  let k0 := hmac_key_block key in
  sha256 (map (N.lxor 0x5c) k0 ++ sha256 (map (N.lxor 0x36) k0 ++ msg)).

Theorem hmac_sha256_length key msg : length (hmac_sha256 key msg) = 32%nat.
Proof. apply sha256_length. Qed.

Theorem hmac_sha256_wf key msg : wf_bytes (hmac_sha256 key msg) = true.
Proof. apply sha256_wf. Qed.

(* ---------- RFC 4231 test cases 1, 2, 3, 6, 7 ---------- *)

Example hmac_rfc4231_tc1 :
  hmac_sha256 (repeat 0x0b 20) (bytes_of_string "Hi There") =
    bytes_of_hex "b0344c61d8db38535ca8afceaf0bf12b881dc200c9833da726e9376c2e32cff7".
Proof. vm_compute. reflexivity. Qed.

Example hmac_rfc4231_tc2 :
  hmac_sha256 (bytes_of_string "Jefe") (bytes_of_string "what do ya want for nothing?") =
    bytes_of_hex "5bdcc146bf60754e6a042426089575c75a003f089d2739839dec58b964ec3843".
Proof. vm_compute. reflexivity. Qed.

Example hmac_rfc4231_tc3 :
  hmac_sha256 (repeat 0xaa 20) (repeat 0xdd 50) =
    bytes_of_hex "773ea91e36800e46854db8ebd09181a72959098b3ef8c122d9635514ced565fe".
Proof. vm_compute. reflexivity. Qed.

(* 131-byte key: hashed first *)
Example hmac_rfc4231_tc6 :
  hmac_sha256 (repeat 0xaa 131)
    (bytes_of_string "Test Using Larger Than Block-Size Key - Hash Key First") =
    bytes_of_hex "60e431591ee0b67f0d8a26aacbf5b77f8e0bc6213728c5140546040f0ee37f54".
Proof. vm_compute. reflexivity. Qed.

Example hmac_rfc4231_tc7 :
  hmac_sha256 (repeat 0xaa 131)
    (bytes_of_string "This is a test using a larger than block-size key and a larger than block-size data. The key needs to be hashed before being used by the HMAC algorithm.") =
    bytes_of_hex "9b09ffa71b942fcb27635fbcd5b0e944bfdc63644f0713938a7f51535c3a35e2".
Proof. vm_compute. reflexivity. Qed.
