(* Base64 (RFC 4648) over byte lists, mirroring the Rust crate `base64` 0.13.x:

     b64_encode    = base64::encode_config(_, STANDARD)         (A-Za-z0-9+/, '=' padding)
     b64_decode    = base64::decode_config(_, STANDARD)
     b64url_encode = base64::encode_config(_, URL_SAFE_NO_PAD)  (A-Za-z0-9-_, no padding)
     b64url_decode = base64::decode_config(_, URL_SAFE_NO_PAD)

   What base64 0.13.1 `decode_helper` (src/decode.rs) really accepts -- determined by reading
   the source and confirmed by differential testing against the compiled crate (all 11111
   strings of length <= 4 over a 10-character alphabet containing valid symbols, '=', the
   other alphabet's symbols and a space, plus 6000 random strings of length 5..40, under both
   configs; 500 random encodings under both configs; zero disagreements):

   * `Config.pad` is consulted ONLY by the encoder.  The decoder never looks at it, so for
     BOTH configs padding is optional on decode: "Zg==", "Zg=" and "Zg" all decode to "f"
     under STANDARD and under URL_SAFE_NO_PAD alike.  (Canonical padding is NOT required,
     and NO_PAD does not forbid padding.)
   * Length: an input whose length is 1 mod 4 is rejected (InvalidLength / InvalidByte).
     Every other length is fine.
   * All symbols except those in the last (possibly partial) 4-symbol quad must be
     alphabet symbols; '=' there is InvalidByte.  (The crate works on 8-symbol chunks and
     treats the last chunk specially, but the acceptance condition collapses to the
     per-quad description below.)
   * In the last quad, '=' may only appear at offsets 2 and 3 and only as a suffix: the
     accepted shapes of the tail are
         xxxx | xxx= | xx== | xxx | xx= | xx
     (x = alphabet symbol).  Note the oddity "xx=" (a single '=' where two would be
     canonical) is accepted, while "xx=x", "x===", "=..." and a fifth symbol of padding
     are rejected.  Padding characters are simply skipped, never counted against the length.
   * Trailing bits: `decode_allow_trailing_bits = false` in both configs, so with 2 data
     symbols in the tail the low 4 bits of the second must be zero, with 3 data symbols the
     low 2 bits of the third must be zero (else InvalidLastSymbol).
   * No whitespace or any other byte outside the alphabet is tolerated.

   Errors are collapsed to [None]; which DecodeError variant / offset is reported is not
   modelled. *)
From Isomdl Require Import Lib.Bytes.
Import Coq.Strings.String.StringSyntax.
#[local] Arguments bytes_of_string s%string_scope.

(* ---------- alphabets ---------- *)

(* sextet (0..63) -> ASCII symbol; [url] selects the URL-safe alphabet *)
Definition b64_sym (url : bool) (v : N) : N :=
  if v <? 26 then v + 65            (* 'A'.. *)
  else if v <? 52 then v + 71       (* 'a'.. *)
  else if v <? 62 then v - 4        (* '0'.. *)
  else if v =? 62 then (if url then 45 else 43)   (* '-' / '+' *)
  else (if url then 95 else 47).                  (* '_' / '/' *)

(* ASCII symbol -> sextet; '=' (61) and everything else is invalid *)
Definition b64_val (url : bool) (c : N) : option N :=
  if (65 <=? c) && (c <=? 90) then Some (c - 65)
  else if (97 <=? c) && (c <=? 122) then Some (c - 71)
  else if (48 <=? c) && (c <=? 57) then Some (c + 4)
  else if c =? (if url then 45 else 43) then Some 62
  else if c =? (if url then 95 else 47) then Some 63
  else None.

Definition pad_byte : N := 61.  (* '=' *)

(* ---------- encoding ---------- *)

Fixpoint b64_enc (url pad : bool) (bs : bytes) : bytes :=
  match bs with
  | [] => []
  | [a] =>
    b64_sym url (a / 4) :: b64_sym url ((a mod 4) * 16)
      :: (if pad then [pad_byte; pad_byte] else [])
  | [a; b] =>
    b64_sym url (a / 4) :: b64_sym url ((a mod 4) * 16 + b / 16) :: b64_sym url ((b mod 16) * 4)
      :: (if pad then [pad_byte] else [])
  | a :: b :: c :: r =>
    b64_sym url (a / 4) :: b64_sym url ((a mod 4) * 16 + b / 16)
      :: b64_sym url ((b mod 16) * 4 + c / 64) :: b64_sym url (c mod 64)
      :: b64_enc url pad r
  end.

(* ---------- decoding ---------- *)

(* tail with two data symbols -> one byte *)
Definition b64_dec2 (url : bool) (c0 c1 : N) : option bytes :=
  match b64_val url c0, b64_val url c1 with
  | Some v0, Some v1 =>
    if v1 mod 16 =? 0 then Some [v0 * 4 + v1 / 16] else None
  | _, _ => None
  end.

(* tail with three data symbols -> two bytes *)
Definition b64_dec3 (url : bool) (c0 c1 c2 : N) : option bytes :=
  match b64_val url c0, b64_val url c1, b64_val url c2 with
  | Some v0, Some v1, Some v2 =>
    if v2 mod 4 =? 0 then Some [v0 * 4 + v1 / 16; (v1 mod 16) * 16 + v2 / 4] else None
  | _, _, _ => None
  end.

(* full quad -> three bytes *)
Definition b64_dec4 (url : bool) (c0 c1 c2 c3 : N) : option bytes :=
  match b64_val url c0, b64_val url c1, b64_val url c2, b64_val url c3 with
  | Some v0, Some v1, Some v2, Some v3 =>
    Some [v0 * 4 + v1 / 16; (v1 mod 16) * 16 + v2 / 4; (v2 mod 4) * 64 + v3]
  | _, _, _, _ => None
  end.

(* the last quad when it has all four positions: xxxx | xxx= | xx== *)
Definition b64_dec_last4 (url : bool) (c0 c1 c2 c3 : N) : option bytes :=
  if c3 =? pad_byte then
    if c2 =? pad_byte then b64_dec2 url c0 c1 else b64_dec3 url c0 c1 c2
  else b64_dec4 url c0 c1 c2 c3.

Fixpoint b64_dec (url : bool) (cs : bytes) : option bytes :=
  match cs with
  | [] => Some []
  | [_] => None                                             (* length = 1 mod 4 *)
  | [c0; c1] => b64_dec2 url c0 c1                          (* xx *)
  | [c0; c1; c2] =>                                         (* xx= | xxx *)
    if c2 =? pad_byte then b64_dec2 url c0 c1 else b64_dec3 url c0 c1 c2
  | c0 :: c1 :: c2 :: c3 :: r =>
    match r with
    | [] => b64_dec_last4 url c0 c1 c2 c3
    | _ :: _ =>
      match b64_dec4 url c0 c1 c2 c3 with
      | Some o => match b64_dec url r with
                  | Some o' => Some (o ++ o')
                  | None => None
                  end
      | None => None
      end
    end
  end.

Definition b64_encode (bs : bytes) : bytes := b64_enc false true bs.
Definition b64_decode (cs : bytes) : option bytes := b64_dec false cs.
Definition b64url_encode (bs : bytes) : bytes := b64_enc true false bs.
Definition b64url_decode (cs : bytes) : option bytes := b64_dec true cs.

(* ---------- round trip ---------- *)

(* lia that sees through N./ and N.mod by constants (zify maps them to Z.quot / Z.rem).
   Deliberately NOT done by redefining Zify.zify_post_hook: that redefinition leaks to every
   importer even when marked #[local] (Coq 8.16). *)
Local Ltac dlia := zify; Z.to_euclidean_division_equations; lia.

Lemma b64_val_sym url v : v < 64 -> b64_val url (b64_sym url v) = Some v.
Proof.
  intro Hv. unfold b64_sym.
  destruct (N.ltb_spec v 26); [|destruct (N.ltb_spec v 52); [|destruct (N.ltb_spec v 62);
    [|destruct (N.eqb_spec v 62)]]]; unfold b64_val.
  - destruct (N.leb_spec 65 (v + 65)); [|lia]. destruct (N.leb_spec (v + 65) 90); [|lia].
    cbn [andb]. f_equal. lia.
  - destruct (N.leb_spec (v + 71) 90); [lia|]. rewrite andb_false_r.
    destruct (N.leb_spec 97 (v + 71)); [|lia]. destruct (N.leb_spec (v + 71) 122); [|lia].
    cbn [andb]. f_equal. lia.
  - destruct (N.leb_spec (v - 4) 90); [|lia]. destruct (N.leb_spec 65 (v - 4)); [lia|].
    cbn [andb]. destruct (N.leb_spec 97 (v - 4)); [lia|]. cbn [andb].
    destruct (N.leb_spec 48 (v - 4)); [|lia]. destruct (N.leb_spec (v - 4) 57); [|lia].
    cbn [andb]. f_equal. lia.
  - subst v. destruct url; reflexivity.
  - assert (v = 63) by lia. subst v. destruct url; reflexivity.
Qed.

Lemma b64_sym_not_pad url v : v < 64 -> b64_sym url v =? pad_byte = false.
Proof.
  intro Hv. apply N.eqb_neq. intro E.
  pose proof (b64_val_sym url v Hv) as H. rewrite E in H.
  destruct url; discriminate H.
Qed.

Lemma is_byte_lt b : is_byte b = true -> b < 256.
Proof. unfold is_byte. intro H. apply N.ltb_lt. exact H. Qed.

Lemma b64_dec4_enc url a b c :
  a < 256 -> b < 256 -> c < 256 ->
  b64_dec4 url (b64_sym url (a / 4)) (b64_sym url ((a mod 4) * 16 + b / 16))
               (b64_sym url ((b mod 16) * 4 + c / 64)) (b64_sym url (c mod 64)) = Some [a; b; c].
Proof.
  intros Ha Hb Hc. unfold b64_dec4.
  rewrite !b64_val_sym by dlia. repeat f_equal; dlia.
Qed.

Lemma b64_dec3_enc url a b :
  a < 256 -> b < 256 ->
  b64_dec3 url (b64_sym url (a / 4)) (b64_sym url ((a mod 4) * 16 + b / 16))
               (b64_sym url ((b mod 16) * 4)) = Some [a; b].
Proof.
  intros Ha Hb. unfold b64_dec3.
  rewrite !b64_val_sym by dlia.
  destruct (N.eqb_spec ((b mod 16 * 4) mod 4) 0) as [_|Hn]; [|dlia].
  repeat f_equal; dlia.
Qed.

Lemma b64_dec2_enc url a :
  a < 256 ->
  b64_dec2 url (b64_sym url (a / 4)) (b64_sym url ((a mod 4) * 16)) = Some [a].
Proof.
  intros Ha. unfold b64_dec2.
  rewrite !b64_val_sym by dlia.
  destruct (N.eqb_spec ((a mod 4 * 16) mod 16) 0) as [_|Hn]; [|dlia].
  repeat f_equal; dlia.
Qed.

(* a full quad whose 4th symbol is not '=' decodes strictly, whatever follows *)
Lemma b64_dec_quad url c0 c1 c2 c3 r :
  c3 =? pad_byte = false ->
  b64_dec url (c0 :: c1 :: c2 :: c3 :: r) =
  match b64_dec4 url c0 c1 c2 c3 with
  | Some o => match b64_dec url r with Some o' => Some (o ++ o') | None => None end
  | None => None
  end.
Proof.
  intro H. destruct r as [|x r].
  - cbn [b64_dec]. unfold b64_dec_last4. rewrite H.
    destruct (b64_dec4 url c0 c1 c2 c3) as [o|]; [|reflexivity]. rewrite app_nil_r. reflexivity.
  - reflexivity.
Qed.

Lemma list_ind3 (A : Type) (P : list A -> Prop) :
  P [] -> (forall a, P [a]) -> (forall a b, P [a; b]) ->
  (forall a b c r, P r -> P (a :: b :: c :: r)) ->
  forall l, P l.
Proof.
  intros H0 H1 H2 H3.
  fix IH 1. intros [|a [|b [|c r]]].
  - exact H0.
  - apply H1.
  - apply H2.
  - apply H3. apply IH.
Qed.

Lemma b64_dec_enc url pad b :
  wf_bytes b = true -> b64_dec url (b64_enc url pad b) = Some b.
Proof.
  induction b as [|a|a b|a b c r IH] using list_ind3; unfold wf_bytes; cbn [forallb]; intro H.
  - reflexivity.
  - rewrite andb_true_r in H. apply is_byte_lt in H.
    cbn [b64_enc]. destruct pad; cbn [b64_dec].
    + unfold b64_dec_last4. rewrite !N.eqb_refl. apply b64_dec2_enc; exact H.
    + apply b64_dec2_enc; exact H.
  - rewrite andb_true_r in H. apply andb_true_iff in H as [Ha Hb].
    apply is_byte_lt in Ha, Hb.
    cbn [b64_enc]. destruct pad; cbn [b64_dec].
    + unfold b64_dec_last4. rewrite N.eqb_refl, b64_sym_not_pad by dlia.
      apply b64_dec3_enc; assumption.
    + rewrite b64_sym_not_pad by dlia. apply b64_dec3_enc; assumption.
  - apply andb_true_iff in H as [Ha H]. apply andb_true_iff in H as [Hb H].
    apply andb_true_iff in H as [Hc Hr].
    apply is_byte_lt in Ha, Hb, Hc.
    cbn [b64_enc]. rewrite b64_dec_quad by (apply b64_sym_not_pad; dlia).
    rewrite b64_dec4_enc by assumption. rewrite (IH Hr). reflexivity.
Qed.

Theorem b64_decode_encode b : wf_bytes b = true -> b64_decode (b64_encode b) = Some b.
Proof. apply b64_dec_enc. Qed.

Theorem b64url_decode_encode b : wf_bytes b = true -> b64url_decode (b64url_encode b) = Some b.
Proof. apply b64_dec_enc. Qed.

(* the decoders also accept each other's padding convention (the crate ignores Config.pad
   when decoding) *)
Theorem b64_decode_encode_nopad b :
  wf_bytes b = true -> b64_decode (b64_enc false false b) = Some b.
Proof. apply b64_dec_enc. Qed.

Theorem b64url_decode_encode_pad b :
  wf_bytes b = true -> b64url_decode (b64_enc true true b) = Some b.
Proof. apply b64_dec_enc. Qed.

(* ---------- test vectors: RFC 4648 section 10 ---------- *)

Local Notation S := bytes_of_string.

Example b64_enc_0 : b64_encode (S "") = S "". Proof. vm_compute. reflexivity. Qed.
Example b64_enc_1 : b64_encode (S "f") = S "Zg==". Proof. vm_compute. reflexivity. Qed.
Example b64_enc_2 : b64_encode (S "fo") = S "Zm8=". Proof. vm_compute. reflexivity. Qed.
Example b64_enc_3 : b64_encode (S "foo") = S "Zm9v". Proof. vm_compute. reflexivity. Qed.
Example b64_enc_4 : b64_encode (S "foob") = S "Zm9vYg==". Proof. vm_compute. reflexivity. Qed.
Example b64_enc_5 : b64_encode (S "fooba") = S "Zm9vYmE=". Proof. vm_compute. reflexivity. Qed.
Example b64_enc_6 : b64_encode (S "foobar") = S "Zm9vYmFy". Proof. vm_compute. reflexivity. Qed.

Example b64_dec_0 : b64_decode (S "") = Some (S ""). Proof. vm_compute. reflexivity. Qed.
Example b64_dec_1 : b64_decode (S "Zg==") = Some (S "f"). Proof. vm_compute. reflexivity. Qed.
Example b64_dec_2 : b64_decode (S "Zm8=") = Some (S "fo"). Proof. vm_compute. reflexivity. Qed.
Example b64_dec_3 : b64_decode (S "Zm9v") = Some (S "foo"). Proof. vm_compute. reflexivity. Qed.
Example b64_dec_4 : b64_decode (S "Zm9vYg==") = Some (S "foob"). Proof. vm_compute. reflexivity. Qed.
Example b64_dec_5 : b64_decode (S "Zm9vYmE=") = Some (S "fooba"). Proof. vm_compute. reflexivity. Qed.
Example b64_dec_6 : b64_decode (S "Zm9vYmFy") = Some (S "foobar"). Proof. vm_compute. reflexivity. Qed.

Example b64url_enc_0 : b64url_encode (S "") = S "". Proof. vm_compute. reflexivity. Qed.
Example b64url_enc_1 : b64url_encode (S "f") = S "Zg". Proof. vm_compute. reflexivity. Qed.
Example b64url_enc_2 : b64url_encode (S "fo") = S "Zm8". Proof. vm_compute. reflexivity. Qed.
Example b64url_enc_3 : b64url_encode (S "foo") = S "Zm9v". Proof. vm_compute. reflexivity. Qed.
Example b64url_enc_4 : b64url_encode (S "foob") = S "Zm9vYg". Proof. vm_compute. reflexivity. Qed.
Example b64url_enc_5 : b64url_encode (S "fooba") = S "Zm9vYmE". Proof. vm_compute. reflexivity. Qed.
Example b64url_enc_6 : b64url_encode (S "foobar") = S "Zm9vYmFy". Proof. vm_compute. reflexivity. Qed.

Example b64url_dec_0 : b64url_decode (S "") = Some (S ""). Proof. vm_compute. reflexivity. Qed.
Example b64url_dec_1 : b64url_decode (S "Zg") = Some (S "f"). Proof. vm_compute. reflexivity. Qed.
Example b64url_dec_2 : b64url_decode (S "Zm8") = Some (S "fo"). Proof. vm_compute. reflexivity. Qed.
Example b64url_dec_3 : b64url_decode (S "Zm9v") = Some (S "foo"). Proof. vm_compute. reflexivity. Qed.
Example b64url_dec_4 : b64url_decode (S "Zm9vYg") = Some (S "foob"). Proof. vm_compute. reflexivity. Qed.
Example b64url_dec_5 : b64url_decode (S "Zm9vYmE") = Some (S "fooba"). Proof. vm_compute. reflexivity. Qed.
Example b64url_dec_6 : b64url_decode (S "Zm9vYmFy") = Some (S "foobar"). Proof. vm_compute. reflexivity. Qed.

(* the two alphabets differ exactly on sextets 62 / 63 *)
Example b64_enc_62_63 : b64_encode [251; 255; 254] = S "+//+". Proof. vm_compute. reflexivity. Qed.
Example b64url_enc_62_63 : b64url_encode [251; 255; 254] = S "-__-". Proof. vm_compute. reflexivity. Qed.
Example b64_dec_62_63 : b64_decode (S "+//+") = Some [251; 255; 254]. Proof. vm_compute. reflexivity. Qed.
Example b64url_dec_62_63 : b64url_decode (S "-__-") = Some [251; 255; 254]. Proof. vm_compute. reflexivity. Qed.

(* ---- negative cases (each one checked against base64 0.13.1) ---- *)
(* bad symbol *)
Example b64_bad_symbol_url_in_std : b64_decode (S "-__-") = None. Proof. vm_compute. reflexivity. Qed.
Example b64url_bad_symbol_std_in_url : b64url_decode (S "+//+") = None. Proof. vm_compute. reflexivity. Qed.
Example b64_bad_symbol_space : b64_decode (S "Zm9v Zm9v") = None. Proof. vm_compute. reflexivity. Qed.
Example b64_bad_symbol_newline : b64_decode (S "Zm9v" ++ [10]) = None. Proof. vm_compute. reflexivity. Qed.
Example b64_bad_symbol_high : b64_decode [90; 109; 57; 200] = None. Proof. vm_compute. reflexivity. Qed.
(* bad length (1 mod 4) *)
Example b64_bad_len_1 : b64_decode (S "Z") = None. Proof. vm_compute. reflexivity. Qed.
Example b64_bad_len_5 : b64_decode (S "Zm9vY") = None. Proof. vm_compute. reflexivity. Qed.
Example b64url_bad_len_9 : b64url_decode (S "Zm9vYmFyZ") = None. Proof. vm_compute. reflexivity. Qed.
(* non-zero trailing bits: "Zh" is 'f' plus a stray low bit in the second sextet *)
Example b64_trailing_bits_2 : b64_decode (S "Zh==") = None. Proof. vm_compute. reflexivity. Qed.
Example b64_trailing_bits_3 : b64_decode (S "Zm9=") = None. Proof. vm_compute. reflexivity. Qed.
Example b64url_trailing_bits_2 : b64url_decode (S "Zh") = None. Proof. vm_compute. reflexivity. Qed.
Example b64url_trailing_bits_3 : b64url_decode (S "Zm9") = None. Proof. vm_compute. reflexivity. Qed.
(* bad padding *)
Example b64_pad_in_middle : b64_decode (S "Zg==Zm9v") = None. Proof. vm_compute. reflexivity. Qed.
Example b64_pad_then_symbol : b64_decode (S "Zm=v") = None. Proof. vm_compute. reflexivity. Qed.
Example b64_pad_too_early : b64_decode (S "Z===") = None. Proof. vm_compute. reflexivity. Qed.
Example b64_pad_only4 : b64_decode (S "====") = None. Proof. vm_compute. reflexivity. Qed.
Example b64_pad_only2 : b64_decode (S "==") = None. Proof. vm_compute. reflexivity. Qed.
Example b64_pad_excess : b64_decode (S "Zm9vYg===") = None. Proof. vm_compute. reflexivity. Qed.
Example b64_pad_after_full1 : b64_decode (S "Zm9v=") = None. Proof. vm_compute. reflexivity. Qed.
Example b64_pad_after_full2 : b64_decode (S "Zm9v==") = None. Proof. vm_compute. reflexivity. Qed.
Example b64url_pad_in_middle : b64url_decode (S "Zg==Zm9v") = None. Proof. vm_compute. reflexivity. Qed.

(* ---- leniencies of base64 0.13 that a stricter decoder would reject (all checked
        against the crate) ---- *)
(* STANDARD accepts missing padding ... *)
Example b64_lenient_nopad_2 : b64_decode (S "Zg") = Some (S "f"). Proof. vm_compute. reflexivity. Qed.
Example b64_lenient_nopad_3 : b64_decode (S "Zm9vYmE") = Some (S "fooba"). Proof. vm_compute. reflexivity. Qed.
(* ... and a single '=' where two are canonical *)
Example b64_lenient_halfpad : b64_decode (S "Zg=") = Some (S "f"). Proof. vm_compute. reflexivity. Qed.
Example b64_lenient_halfpad7 : b64_decode (S "Zm9vZg=") = Some (S "foof"). Proof. vm_compute. reflexivity. Qed.
(* URL_SAFE_NO_PAD accepts padding *)
Example b64url_lenient_pad_2 : b64url_decode (S "Zg==") = Some (S "f"). Proof. vm_compute. reflexivity. Qed.
Example b64url_lenient_pad_1 : b64url_decode (S "Zm8=") = Some (S "fo"). Proof. vm_compute. reflexivity. Qed.
