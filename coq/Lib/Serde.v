(* Serde.v — how serde-derive output lands in ciborium 0.2.2, as combinators over Lib/Cbor.
   Executable definitions only; the round-trip lemma of every combinator is in
   Proofs/SerdeProofs.v.  Every behaviour modelled here was observed on the real crates (see the
   C16 report / DESIGN appendix):

   * a typed (non-Value) deserialisation skips any number of tags in front of the item
     ([untag]); deserialising into ciborium::Value (ByteStr, Tag24, CoseKey, ValidityInfo, ... all
     go through Value first) keeps tags;
   * struct  -> map with text keys in declaration order; `skip_serializing_if = is_none` omits;
     decode: keys are read with deserialize_identifier (text, or — streaming deserialiser only —
     a byte string with the same bytes), any other key type is an error, unknown keys are
     ignored (even when repeated), a repeated known field is an error, `null` for an Option
     field is None, an absent Option field is None, an absent non-Option field is an error;
   * tuple struct / tuple (n >= 2) -> array; decode reads the first n elements and does not
     look at the rest (top-level and Value-mode behaviour; see report for the nested case);
   * newtype -> inner;  Option -> value / null;
   * externally tagged enum: unit variant -> text, newtype variant -> one-entry map;
   * Vec<T> -> array;  Vec<u8> / [u8; N] without serde_bytes -> array of unsigned integers
     (a byte string is also accepted on decode);
   * BTreeMap -> map in ascending key order (byte-lexicographic for String, numeric for integer
     keys, negatives first); decode inserts entry by entry, a repeated key keeps the last value;
   * `try_from = "u64"` enums: unsigned integer, then the hand-written table. *)
From Isomdl Require Import Lib.Bytes Lib.Utf8 Lib.Cbor.
Open Scope N_scope.

Definition obind {A B} (o : option A) (f : A -> option B) : option B :=
  match o with Some a => f a | None => None end.
Notation "x <-? o ;; k" := (obind o (fun x => k)) (at level 61, o at next level, right associativity).
Notation "' p <-? o ;; k" := (obind o (fun p => k)) (at level 61, p pattern, o at next level, right associativity).

Fixpoint mapM {A B} (f : A -> option B) (l : list A) : option (list B) :=
  match l with
  | [] => Some []
  | x :: r => y <-? f x ;; ys <-? mapM f r ;; Some (y :: ys)
  end.

(* typed deserialisers skip tags *)
Fixpoint untag (v : cbor) : cbor := match v with CTag _ x => untag x | _ => v end.

(* Content buffering (untagged enums) cannot represent tags: any tag anywhere is an error *)
Fixpoint tag_free (v : cbor) : bool :=
  match v with
  | CTag _ _ => false
  | CArray l => forallb tag_free l
  | CMap kvs => forallb (fun kv => tag_free (fst kv) && tag_free (snd kv)) kvs
  | _ => true
  end.

Record codec (T : Type) := Codec { enc : T -> cbor; dec : cbor -> option T }.
Arguments Codec {T} enc dec.
Arguments enc {T} c x.
Arguments dec {T} c v.

(* ---------- integers ---------- *)

(* u8 / u16 / u32 / u64: an unsigned integer below [bound] (<= 2^64) *)
Definition c_uint (bound : N) : codec N :=
  Codec CUInt (fun v => match untag v with CUInt n => if n <? bound then Some n else None | _ => None end).

(* the same, read out of a ciborium::Value by Value::deserialized (no tag skipping for integers) *)
Definition c_uint_v (bound : N) : codec N :=
  Codec CUInt (fun v => match v with CUInt n => if n <? bound then Some n else None | _ => None end).

Definition int_to_cbor (z : Z) : cbor :=
  if (0 <=? z)%Z then CUInt (Z.to_N z) else CNInt (Z.to_N (- 1 - z)).
Definition int_of_cbor (v : cbor) : option Z :=
  match v with
  | CUInt n => Some (Z.of_N n)
  | CNInt n => Some (- 1 - Z.of_N n)%Z
  | _ => None
  end.

(* i8 .. i64: lo <= z < hi *)
Definition c_int (lo hi : Z) : codec Z :=
  Codec int_to_cbor
        (fun v => z <-? int_of_cbor (untag v) ;; if ((lo <=? z) && (z <? hi))%Z then Some z else None).

(* i128 (serialize_i128 / deserialize_i128): integers outside the 64-bit heads travel as
   tag 2 / tag 3 big numbers with the minimal big-endian magnitude *)
Definition nbytes (n : N) : nat := N.to_nat (N.log2 n / 8 + 1).
Definition be_min (n : N) : bytes := be_bytes (nbytes n) n.
Definition two127 : N := 170141183460469231731687303715884105728.
Definition i128_to_cbor (z : Z) : cbor :=
  if (0 <=? z)%Z then
    let n := Z.to_N z in if n <? two64 then CUInt n else CTag 2 (CBytes (be_min n))
  else
    let n := Z.to_N (- 1 - z) in if n <? two64 then CNInt n else CTag 3 (CBytes (be_min n)).
(* tags other than 2 / 3 in front are skipped; tag 2 / 3 must be followed by a byte string whose
   magnitude fits i128 *)
Fixpoint i128_of_cbor (v : cbor) : option Z :=
  match v with
  | CUInt n => Some (Z.of_N n)
  | CNInt n => Some (- 1 - Z.of_N n)%Z
  | CTag t x =>
    if t =? 2 then
      match x with CBytes b => if be_value b <? two127 then Some (Z.of_N (be_value b)) else None | _ => None end
    else if t =? 3 then
      match x with CBytes b => if be_value b <? two127 then Some (- 1 - Z.of_N (be_value b))%Z else None | _ => None end
    else i128_of_cbor x
  | _ => None
  end.
Definition c_i128 : codec Z := Codec i128_to_cbor i128_of_cbor.

(* ---------- scalars ---------- *)

Definition c_text : codec bytes :=
  Codec CText (fun v => match untag v with CText b => Some b | _ => None end).
Definition c_bool : codec bool :=
  Codec CBool (fun v => match untag v with CBool b => Some b | _ => None end).
(* helpers::ByteStr (try_from Value): exactly a byte string, no tag skipping *)
Definition c_bytestr : codec bytes :=
  Codec CBytes (fun v => match v with CBytes b => Some b | _ => None end).
(* ciborium::Value field *)
Definition c_value : codec cbor := Codec (fun v => v) (fun v => Some v).

(* Option<T> as a value (not as a struct field): value / null *)
Definition c_option {T} (c : codec T) : codec (option T) :=
  Codec (fun o => match o with Some x => enc c x | None => CNull end)
        (fun v => match v with CNull => Some None | _ => option_map Some (dec c v) end).

(* newtype struct / any bijective re-packaging of a Rust type *)
Definition c_iso {T U} (f : T -> U) (g : U -> T) (c : codec U) : codec T :=
  Codec (fun x => enc c (f x)) (fun v => option_map g (dec c v)).

(* a decoder-side validity check (TryFrom that can fail after a successful inner decode) *)
Definition c_guard {T} (ok : T -> bool) (c : codec T) : codec T :=
  Codec (enc c) (fun v => x <-? dec c v ;; if ok x then Some x else None).

(* ---------- sequences ---------- *)

Definition c_list {T} (c : codec T) : codec (list T) :=
  Codec (fun l => CArray (map (enc c) l))
        (fun v => match untag v with CArray l => mapM (dec c) l | _ => None end).

(* helpers::NonEmptyVec<T>  (try_from = "Vec<T>") *)
Definition nonempty {A} (l : list A) : bool := match l with [] => false | _ => true end.
Definition c_nelist {T} (c : codec T) : codec (list T) := c_guard nonempty (c_list c).

(* Vec<u8> / [u8; N] without serde_bytes: array of unsigned integers; decode also accepts a bstr *)
Definition c_u8seq : codec bytes :=
  Codec (fun b => CArray (map CUInt b))
        (fun v => match untag v with
                  | CArray l => mapM (dec (c_uint 256)) l
                  | CBytes b => Some b
                  | _ => None
                  end).
Definition c_u8array (n : nat) : codec bytes :=
  c_guard (fun b => Nat.eqb (length b) n)
          (Codec (enc c_u8seq)
                 (fun v => match untag v with
                           | CArray l => mapM (dec (c_uint 256)) (firstn n l)
                           | CBytes b => Some (firstn n b)
                           | _ => None
                           end)).

(* tuples / tuple structs: the first n elements, the rest is not looked at *)
Definition c_tuple2 {A B} (a : codec A) (b : codec B) : codec (A * B) :=
  Codec (fun p => CArray [enc a (fst p); enc b (snd p)])
        (fun v => match untag v with
                  | CArray (x :: y :: _) => x' <-? dec a x ;; y' <-? dec b y ;; Some (x', y')
                  | _ => None
                  end).
Definition c_tuple3 {A B C} (a : codec A) (b : codec B) (c : codec C) : codec (A * B * C) :=
  Codec (fun p => CArray [enc a (fst (fst p)); enc b (snd (fst p)); enc c (snd p)])
        (fun v => match untag v with
                  | CArray (x :: y :: z :: _) =>
                    x' <-? dec a x ;; y' <-? dec b y ;; z' <-? dec c z ;; Some (x', y', z')
                  | _ => None
                  end).

(* ---------- BTreeMap ---------- *)

Section BTree.
  Context {K V : Type}.
  Variable ltb : K -> K -> bool.

  (* BTreeMap::insert on the sorted association list *)
  Fixpoint bt_insert (k : K) (v : V) (l : list (K * V)) : list (K * V) :=
    match l with
    | [] => [(k, v)]
    | (k', v') :: r =>
      if ltb k k' then (k, v) :: l
      else if ltb k' k then (k', v') :: bt_insert k v r
      else (k', v) :: r
    end.
  Definition bt_of_list (l : list (K * V)) : list (K * V) :=
    fold_left (fun acc kv => bt_insert (fst kv) (snd kv) acc) l [].

  (* strictly ascending: every key is below every later key (iteration order of a BTreeMap) *)
  Fixpoint bt_sorted (l : list (K * V)) : bool :=
    match l with
    | [] => true
    | (k, _) :: r => forallb (fun kv => ltb k (fst kv) && negb (ltb (fst kv) k)) r && bt_sorted r
    end.

  Fixpoint bt_get (eqb : K -> K -> bool) (k : K) (l : list (K * V)) : option V :=
    match l with
    | [] => None
    | (k', v) :: r => if eqb k k' then Some v else bt_get eqb k r
    end.
End BTree.

Definition c_map {K V} (ltb : K -> K -> bool) (ck : codec K) (cv : codec V) : codec (list (K * V)) :=
  Codec (fun l => CMap (map (fun kv => (enc ck (fst kv), enc cv (snd kv))) l))
        (fun v => match untag v with
                  | CMap kvs =>
                    l <-? mapM (fun kv => k <-? dec ck (fst kv) ;; x <-? dec cv (snd kv) ;; Some (k, x)) kvs ;;
                    Some (bt_of_list ltb l)
                  | _ => None
                  end).
(* helpers::NonEmptyMap<K, V>  (try_from = "BTreeMap<K, V>") *)
Definition c_nemap {K V} (ltb : K -> K -> bool) (ck : codec K) (cv : codec V) : codec (list (K * V)) :=
  c_guard nonempty (c_map ltb ck cv).

Definition zltb (a b : Z) : bool := (a <? b)%Z.

(* ---------- structs ---------- *)

(* field identifier: text; the streaming deserialiser also takes a byte string *)
Definition key_name (streaming : bool) (k : cbor) : option bytes :=
  match untag k with
  | CText b => Some b
  | CBytes b => if streaming then Some b else None
  | _ => None
  end.

Definition struct_entries (streaming : bool) (v : cbor) : option (list (bytes * cbor)) :=
  match untag v with
  | CMap kvs => mapM (fun kv => n <-? key_name streaming (fst kv) ;; Some (n, snd kv)) kvs
  | _ => None
  end.

Fixpoint find_all (name : bytes) (l : list (bytes * cbor)) : list cbor :=
  match l with
  | [] => []
  | (n, v) :: r => if bytes_eqb name n then v :: find_all name r else find_all name r
  end.
(* None: the field occurs twice (error);  Some None: absent;  Some (Some v): present once *)
Definition get_field (name : bytes) (l : list (bytes * cbor)) : option (option cbor) :=
  match find_all name l with
  | [] => Some None
  | [v] => Some (Some v)
  | _ => None
  end.

(* what the serialiser emits for a list of (name, value if not skipped) *)
Definition fld := (bytes * option cbor)%type.
Definition present (fs : list fld) : list (bytes * cbor) :=
  flat_map (fun f => match snd f with Some v => [(fst f, v)] | None => [] end) fs.
Definition struct_cbor (fs : list fld) : cbor :=
  CMap (map (fun nv => (CText (fst nv), snd nv)) (present fs)).

(* descriptor of a struct: fields in declaration order.  FReq: a field of a non-Option type;
   FOpt: Option<A> with skip_serializing_if = "Option::is_none".  The predicate is the field's
   documented domain (used only by the theorems; erased by extraction). *)
Inductive fields : Type -> Type :=
| FNil : fields unit
| FReq {A B} (name : bytes) (c : codec A) (P : A -> Prop) (rest : fields B) : fields (A * B)
| FOpt {A B} (name : bytes) (c : codec A) (P : A -> Prop) (rest : fields B) : fields (option A * B).

Fixpoint enc_fields {T} (fs : fields T) : T -> list fld :=
  match fs in fields T return T -> list fld with
  | FNil => fun _ => []
  | FReq name c _ rest => fun x => (name, Some (enc c (fst x))) :: enc_fields rest (snd x)
  | FOpt name c _ rest => fun x => (name, option_map (enc c) (fst x)) :: enc_fields rest (snd x)
  end.

Fixpoint dec_fields {T} (fs : fields T) (l : list (bytes * cbor)) : option T :=
  match fs in fields T return option T with
  | FNil => Some tt
  | FReq name c _ rest =>
    match get_field name l with
    | Some (Some v) => a <-? dec c v ;; r <-? dec_fields rest l ;; Some (a, r)
    | _ => None
    end
  | FOpt name c _ rest =>
    match get_field name l with
    | Some None => r <-? dec_fields rest l ;; Some (None, r)
    | Some (Some CNull) => r <-? dec_fields rest l ;; Some (None, r)
    | Some (Some v) => a <-? dec c v ;; r <-? dec_fields rest l ;; Some (Some a, r)
    | None => None
    end
  end.

Fixpoint field_names {T} (fs : fields T) : list bytes :=
  match fs with
  | FNil => []
  | FReq name _ _ rest => name :: field_names rest
  | FOpt name _ _ rest => name :: field_names rest
  end.

Definition c_struct (streaming : bool) {T} (fs : fields T) : codec T :=
  Codec (fun x => struct_cbor (enc_fields fs x))
        (fun v => l <-? struct_entries streaming v ;; dec_fields fs l).

(* ---------- enums ---------- *)

(* externally tagged enum with unit variants only (e.g. DigestAlgorithm): the variant name as
   text.  [names] lists (value, wire name). *)
Fixpoint name_of {T} (eqb : T -> T -> bool) (names : list (T * bytes)) (x : T) : bytes :=
  match names with
  | [] => []
  | (y, n) :: r => if eqb x y then n else name_of eqb r x
  end.
Fixpoint of_name {T} (names : list (T * bytes)) (n : bytes) : option T :=
  match names with
  | [] => None
  | (y, m) :: r => if bytes_eqb n m then Some y else of_name r n
  end.
Definition c_unit_enum {T} (eqb : T -> T -> bool) (names : list (T * bytes)) : codec T :=
  Codec (fun x => CText (name_of eqb names x))
        (fun v => match untag v with CText n => of_name names n | _ => None end).

(* newtype variant  Name(inner)  ->  { "name": inner } ; [variant_entry] reads the single entry *)
Definition variant_cbor (name : bytes) (inner : cbor) : cbor := CMap [(CText name, inner)].
Definition variant_entry (streaming : bool) (v : cbor) : option (bytes * cbor) :=
  match untag v with
  | CMap [(k, x)] => n <-? key_name streaming k ;; Some (n, x)
  | _ => None
  end.

(* `try_from = "u64", into = "u64"` enums: [to_code] / [of_code] are the hand-written tables *)
Definition c_code_enum {T} (to_code : T -> N) (of_code : N -> option T) : codec T :=
  Codec (fun x => CUInt (to_code x))
        (fun v => n <-? dec (c_uint two64) v ;; of_code n).

(* ---------- Tag24<T> ---------- *)

(* cbor::from_slice::<T>: first complete item, trailing bytes ignored *)
Definition from_bytes {T} (c : codec T) (bs : bytes) : option T :=
  match decode_first bs with Some v => dec c v | None => None end.
Definition to_bytes {T} (c : codec T) (x : T) : bytes := encode (enc c x).

Record tag24 (T : Type) := Tag24 { t24_inner : T; t24_bytes : bytes }.
Arguments Tag24 {T} t24_inner t24_bytes.
Arguments t24_inner {T} t.
Arguments t24_bytes {T} t.

(* Tag24::new *)
Definition tag24_new {T} (c : codec T) (x : T) : tag24 T := Tag24 x (to_bytes c x).

(* serialises the stored bytes verbatim; deserialises through Value, requires tag 24 around a
   byte string, parses the bytes with from_slice and keeps them *)
Definition c_tag24 {T} (c : codec T) : codec (tag24 T) :=
  Codec (fun t => CTag 24 (CBytes (t24_bytes t)))
        (fun v => match v with
                  | CTag 24 (CBytes b) => x <-? from_bytes c b ;; Some (Tag24 x b)
                  | _ => None
                  end).

(* ---------- documented domains of the combinators (used by the theorems only) ---------- *)

Definition two64z : Z := 18446744073709551616%Z.
Definition two127z : Z := 170141183460469231731687303715884105728%Z.
Definition uint_P (bound : N) (n : N) : Prop := n < bound.
Definition int_P (lo hi : Z) (z : Z) : Prop := (lo <= z < hi)%Z.
(* String: UTF-8 bytes;  Vec<u8>: bytes;  ciborium::Value: a value the CBOR layer round-trips *)
Definition text_ok (b : bytes) : Prop := wf_bytes b = true /\ utf8_valid b = true.
Definition bytes_ok (b : bytes) : Prop := wf_bytes b = true.
Definition value_ok (v : cbor) : Prop := wf v = true.
Definition any_P {T} (x : T) : Prop := True.
Definition opt_P {T} (P : T -> Prop) (o : option T) : Prop := match o with Some x => P x | None => True end.
Definition ne_P {T} (P : T -> Prop) (l : list T) : Prop := Forall P l /\ l <> [].
Definition tuple2_P {A B} (PA : A -> Prop) (PB : B -> Prop) (p : A * B) : Prop := PA (fst p) /\ PB (snd p).
Definition tuple3_P {A B C} (PA : A -> Prop) (PB : B -> Prop) (PC : C -> Prop) (p : A * B * C) : Prop :=
  PA (fst (fst p)) /\ PB (snd (fst p)) /\ PC (snd p).
Definition map_P {K V} (ltb : K -> K -> bool) (PK : K -> Prop) (PV : V -> Prop) (l : list (K * V)) : Prop :=
  bt_sorted ltb l = true /\ Forall (fun kv => PK (fst kv) /\ PV (snd kv)) l.
Definition nemap_P {K V} (ltb : K -> K -> bool) (PK : K -> Prop) (PV : V -> Prop) (l : list (K * V)) : Prop :=
  map_P ltb PK PV l /\ l <> [].
(* consistent Tag24 values: the stored bytes are bytes, and they parse to the stored value.  Every
   Tag24 that Rust code can hold satisfies the second part (Tag24::new for a round-tripping T,
   Tag24::from_bytes / deserialisation by construction). *)
Definition tag24_P {T} (c : codec T) (t : tag24 T) : Prop :=
  wf_bytes (t24_bytes t) = true /\ from_bytes c (t24_bytes t) = Some (t24_inner t).
