(* runner commands for C14: the Gallina model of Stringify applied to real stringified states *)
From Isomdl Require Import Lib.Bytes Lib.Cbor Model.SessionSer Model.Session Api.Session.
Open Scope N_scope.
Local Open Scope string_scope.

Definition state_view (st : state_ser) : cbor :=
  match st with
  | SAwaiting => CArray [CUInt 0]
  | SSigning p => CArray [CUInt 1; CUInt (N.of_nat (length (ps_prepared p))); CUInt (N.of_nat (length (ps_signed p)))]
  | SReady m => CArray [CUInt 2; CBytes m]
  end.

Definition api_c14 (cmd : bytes) (args : list cbor) : option cbor :=
  if bytes_eqb cmd (bytes_of_string "c14.device") then
    match args with
    | [CBytes str] =>
      Some (match dev_parse str with
            | None => CArray [CBool false]
            | Some d => CArray [CBool true;
                                CArray [CUInt (ds_device_ctr d); CUInt (ds_reader_ctr d); state_view (ds_state d);
                                        CBytes (ds_sk_device d); CBytes (ds_sk_reader d)];
                                CBool (bytes_eqb (dev_stringify d) str)]
            end)
    | _ => None
    end
  else if bytes_eqb cmd (bytes_of_string "c14.reader") then
    match args with
    | [CBytes str] =>
      Some (match rdr_parse str with
            | None => CArray [CBool false]
            | Some r => CArray [CBool true;
                                CArray [CUInt (rs_device_ctr r); CUInt (rs_reader_ctr r); CBytes (rs_sk_device r); CBytes (rs_sk_reader r)];
                                CBool (bytes_eqb (rdr_stringify r) str)]
            end)
    | _ => None
    end
  else if bytes_eqb cmd (bytes_of_string "c14.engaged") then
    match args with
    | [CBool h; CBytes str] =>
      Some (match engaged_parse h str with
            | None => CArray [CBool false]
            | Some e => CArray [CBool true; CBytes (es_e_device_key e); CBool (bytes_eqb (engaged_stringify e) str)]
            end)
    | _ => None
    end
  else if bytes_eqb cmd (bytes_of_string "c14.spec_same") then
    (* the observation is whether restored and untouched object behaved identically *)
    match args with
    | [CBool true] => Some (ctext "ok")
    | _ => Some (ctext "fail:a restored session object behaves differently from the object it was serialised from")
    end
  else if bytes_eqb cmd (bytes_of_string "c14.transparent") then
    (* ops with restore steps: does the model run with them equal the run without them? *)
    match args with
    | [CUInt kr; CUInt kd; CArray ops] =>
      match ops_of ops with
      | Some o =>
        let '(s1, outs1, ems1) := run o (fresh kr kd) in
        let '(s2, outs2, ems2) := run (filter (fun x => match x with ORestoreDevice | ORestoreReader => false | _ => true end) o) (fresh kr kd) in
        Some (CBool (cbor_eqb (cbor_of_sys s1) (cbor_of_sys s2) &&
                     cbor_eqb (CArray (map cbor_of_emission ems1)) (CArray (map cbor_of_emission ems2))))
      | None => None
      end
    | _ => None
    end
  else None.
