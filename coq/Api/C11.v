(* runner commands for C11 *)
From Isomdl Require Import Lib.Bytes Lib.Cbor Model.Cose Model.KeySchedule Model.ReaderAuth Model.DeviceReaderAuth
  Spec.CoseRfc Spec.ReaderAuthSpec Api.ReaderAuth.
Open Scope N_scope.
Local Open Scope string_scope.

Definition docreq_of (c : cbor) : option docreq :=
  match c with
  | CArray [CBytes items; ra; CUInt x; CBool cv; CBool ko; v] =>
    let rao := match ra with
               | CNull => Some None
               | CBytes e => option_map Some (cose_of_bytes e)
               | _ => None end in
    match rao, oracle_verifier (-7)%Z v with
    | Some r, Some ver =>
      Some {| dr_items := items; dr_reader_auth := r;
              dr_x5 := if x =? 0 then X5Missing else if x =? 1 then X5Unparsable else X5Chain;
              dr_chain_valid := cv; dr_key_ok := ko; dr_verifier := ver |}
    | _, _ => None
    end
  | _ => None
  end.

Fixpoint docreqs_of (l : list cbor) : option (list docreq) :=
  match l with
  | [] => Some []
  | c :: r => match docreq_of c, docreqs_of r with Some d, Some r' => Some (d :: r') | _, _ => None end
  end.

Definition authentic_b (de erk : bytes) (ho : cbor) (r : docreq) : bool :=
  match dr_reader_auth r with
  | Some c =>
    match c_payload c, dr_x5 r with
    | None, X5Chain =>
      dr_chain_valid r && dr_key_ok r &&
      match alg_of_protected (c_protected c) with AlgAbsent => true | AlgInt z => Z.eqb z (-7) | _ => false end &&
      v_parse (dr_verifier r) (c_sig c) &&
      v_check (dr_verifier r) (iso_reader_tbs (c_protected c) de erk ho (dr_items r)) (c_sig c)
    | _, _ => false
    end
  | None => false
  end.

Definition api_c11 (cmd : bytes) (args : list cbor) : option cbor :=
  if bytes_eqb cmd (bytes_of_string "c11.tbs") then
    match args with
    | [CBytes de; CBytes erk; ho; CBytes items; CBytes ra] =>
      match cose_of_bytes ra with
      | Some c => Some (match prepare ctx_sign1 c (Some (reader_authentication_bytes de erk ho items)) None with
                        | POk t => CBytes t | PErr _ => CNull end)
      | None => Some CNull
      end
    | _ => None
    end
  else if bytes_eqb cmd (bytes_of_string "c11.status") then
    match args with
    | [CBytes de; CBytes erk; ho; CArray reqs] =>
      match docreqs_of reqs with
      | Some rs => Some (CUInt (status_code (request_status de erk ho rs)))
      | None => Some (ctext "undecodable arguments")
      end
    | _ => None
    end
  else if bytes_eqb cmd (bytes_of_string "c11.spec") then
    match args with
    | [CBytes de; CBytes erk; ho; CArray reqs; CUInt st] =>
      match docreqs_of reqs with
      | Some rs =>
        let all_ok := match rs with [] => false | _ => forallb (authentic_b de erk ho) rs end in
        Some (if (st =? 2) && negb all_ok then
                ctext "fail:reader authentication Valid although not every document request carries a verified, trusted reader authentication"
              else if negb (st =? 2) && all_ok then ctext "fail:valid reader authentication not reported Valid"
              else ctext "ok")
      | None => None
      end
    | [_; _; _; _; _] => Some (ctext "fail:request handling did not return an outcome")
    | _ => None
    end
  else None.
