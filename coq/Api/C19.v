(* runner commands for C19 *)
From Isomdl Require Import Lib.Bytes Lib.Cbor Lib.GenTypes Gen.Tables Gen.Fields Model.FromJson Spec.MdlDataModel.
Open Scope N_scope.
Local Open Scope string_scope.

Definition s19 (x : String.string) : bytes := bytes_of_string x.

(* JSON travels as CBOR: null, bool, text, array, map with text keys; a u64 number as uint, any
   other number as a negative integer or a float *)
Fixpoint json_of_cbor (c : cbor) : option json :=
  match c with
  | CNull => Some JNull
  | CBool x => Some (JBool x)
  | CUInt n => Some (JNumU n)
  | CNInt _ | CFloat _ _ => Some JNumOther
  | CText t => Some (JStr t)
  | CArray l =>
    option_map JArr
      ((fix go (l : list cbor) : option (list json) :=
          match l with
          | [] => Some []
          | x :: r => match json_of_cbor x, go r with
                      | Some a, Some r' => Some (a :: r')
                      | _, _ => None
                      end
          end) l)
  | CMap kvs =>
    option_map JObj
      ((fix go (l : list (cbor * cbor)) : option (list (bytes * json)) :=
          match l with
          | [] => Some []
          | (CText k, x) :: r => match json_of_cbor x, go r with
                                 | Some a, Some r' => Some ((k, a) :: r')
                                 | _, _ => None
                                 end
          | _ => None
          end) kvs)
  | _ => None
  end.

Definition ns_of (n : N) : option ns := if n =? 0 then Some Mdl else if n =? 1 then Some Aamva else None.

(* the part of a FromJsonError that is a property-level observable: which fields are reported,
   and whether as missing *)
Definition is_missing (e : jerr) : bool := match e with EMissing => true | _ => false end.
Definition err_entry (e : jerr) : list cbor :=
  match e with
  | EWithContext f e' => [CArray [CText f; CBool (is_missing e')]]
  | _ => []
  end.
Definition err_obs (e : jerr) : cbor :=
  match e with
  | EMultiple l => CArray (flat_map err_entry l)
  | _ => CArray (err_entry e)
  end.

Definition elements_obs (r : res (list (bytes * cbor))) : cbor :=
  match r with
  | Ok out => CArray [CUInt 0; CArray (map (fun kv => CArray [CText (fst kv); snd kv]) out)]
  | Err e => CArray [CUInt 1; err_obs e]
  | Panic _ => CArray [CUInt 2]
  end.

Definition leaf_obs (r : res cbor) : cbor :=
  match r with
  | Ok v => CArray [CUInt 0; v]
  | Err _ => CArray [CUInt 1]
  | Panic _ => CArray [CUInt 2]
  end.

Fixpoint out_of_cbor (l : list cbor) : option (list (bytes * cbor)) :=
  match l with
  | [] => Some []
  | CArray [CText k; v] :: r => option_map (cons (k, v)) (out_of_cbor r)
  | _ => None
  end.

(* verdict on an implementation observation: tag 0 = Ok (den_ok: the output is the prescribed
   encoding), 1 = Err, 2 = panic; dom_ok: the input is in the domain.  There is no excused class:
   the eight defect classes once recorded for C19 are fixed, any of them returning is a failure. *)
Definition verdict (tag : N) (den_ok dom_ok : bool) : cbor :=
  if tag =? 0 then
    if den_ok then ctext "ok"
    else if dom_ok then ctext "fail:accepted, but the output is not the prescribed encoding of the supplied values"
    else ctext "fail:out-of-domain or incomplete record accepted"
  else if tag =? 1 then
    if dom_ok then ctext "fail:record in the domain rejected" else ctext "ok"
  else ctext "fail:panic".

(* table rows as CBOR, for the row-by-row cross-check against the running code *)
Definition norm_code (k : norm_kind) : N := match k with NormNone => 0 | NormLower => 1 | NormUpper => 2 end.
Definition str_table_cbor (nsn : N) (e : bytes * str_table) : cbor :=
  let t := snd e in
  CArray [CUInt nsn; CText (fst e); CUInt 0;
          CArray (map (fun r => CArray [CText (fst r); CText (snd r)]) (st_to t));
          CArray (map (fun r => CArray [CText (fst r); CText (snd r)]) (st_from t));
          CUInt (norm_code (st_norm t)); CBool (st_passthrough t)].
Definition int_table_cbor (nsn : N) (e : bytes * int_table) : cbor :=
  let t := snd e in
  CArray [CUInt nsn; CText (fst e); CUInt 1;
          CArray (map (fun r => CArray [CText (fst r); CUInt (snd r)]) (it_to t));
          CArray (map (fun r => CArray [CUInt (fst r); CText (snd r)]) (it_from t));
          CUInt 0; CBool false].

Definition api_c19 (cmd : bytes) (args : list cbor) : option cbor :=
  if bytes_eqb cmd (s19 "c19.from_json") then
    match args with
    | [CUInt nn; cj] =>
      match ns_of nn, json_of_cbor cj with
      | Some n, Some j => Some (elements_obs (ns_elements b64_decode n j))
      | _, _ => None
      end
    | _ => None
    end
  else if bytes_eqb cmd (s19 "c19.leaf") then
    match args with
    | [CUInt nn; CText ty; cj] =>
      match ns_of nn, json_of_cbor cj with
      | Some n, Some j => Some (leaf_obs (name_leaf b64_decode top_fuel n ty j))
      | _, _ => None
      end
    | _ => None
    end
  else if bytes_eqb cmd (s19 "c19.spec") then
    match args with
    | [CUInt nn; cj; CArray (CUInt tag :: rest) as obs] =>
      match ns_of nn, json_of_cbor cj with
      | Some n, Some j =>
        match j with
        | JObj kvs =>
          let dom_ok := ns_dom b64_decode n kvs in
          if tag =? 0 then
            match rest with
            | [CArray l] =>
              match out_of_cbor l with
              | Some out => Some (verdict 0 (ns_den b64_decode n kvs out) dom_ok)
              | None => Some (ctext "fail:malformed observation")
              end
            | _ => Some (ctext "fail:malformed observation")
            end
          else Some (verdict tag false dom_ok)
        | _ => Some (if tag =? 1 then ctext "ok" else ctext "fail:a JSON value that is not an object was not rejected")
        end
      | _, _ => None
      end
    | _ => None
    end
  else if bytes_eqb cmd (s19 "c19.spec_leaf") then
    match args with
    | [CUInt nn; CText ty; cj; CArray (CUInt tag :: rest) as obs] =>
      match ns_of nn, json_of_cbor cj with
      | Some n, Some j =>
        match class_of_name n ty with
        | None => Some (ctext "n/a:type without a value class")
        | Some c =>
          let dom_ok := dom b64_decode spec_fuel n [] c j in
          if tag =? 0 then
            match rest with
            | [v] => Some (verdict 0 (den b64_decode spec_fuel n [] c j v) dom_ok)
            | _ => Some (ctext "fail:malformed observation")
            end
          else Some (verdict tag false dom_ok)
        end
      | _, _ => None
      end
    | _ => None
    end
  else if bytes_eqb cmd (s19 "c19.tables") then
    Some (CArray (map (str_table_cbor 0) str_tables_mdl ++ map (int_table_cbor 0) int_tables_mdl ++
                  map (str_table_cbor 1) str_tables_aamva ++ map (int_table_cbor 1) int_tables_aamva))
  else if bytes_eqb cmd (s19 "c19.table") then
    (* [ns, table, direction, input]: 0 = to (variant name -> code), 1 = from (input -> code the
       value is then rendered with, as the model's leaf does; null when rejected) *)
    match args with
    | [CUInt nn; CText name; CUInt dir; input] =>
      match ns_of nn with
      | None => None
      | Some n =>
        match assoc_b name (str_tables n), assoc_b name (int_tables n), input with
        | Some t, _, CText x =>
          Some (if dir =? 0 then match assoc_b x (st_to t) with Some c => CText c | None => CNull end
                else match str_table_code t x with Ok c => CText c | _ => CNull end)
        | _, Some t, CText x =>
          Some (if dir =? 0 then match assoc_b x (it_to t) with Some c => CUInt c | None => CNull end else CNull)
        | _, Some t, CUInt x =>
          Some (if dir =? 0 then CNull else match int_table_code t x with Ok c => CUInt c | _ => CNull end)
        | _, _, _ => Some CNull
        end
      end
    | _ => None
    end
  else if bytes_eqb cmd (s19 "c19.fields") then
    (* wire identifiers of a namespace struct, in declaration order, with optional / many flags *)
    match args with
    | [CUInt nn] =>
      match ns_of nn with
      | Some n => Some (CArray (map (fun f => CArray [CText (fd_wire f); CBool (is_option (fd_ty f)); CBool (fd_many f)]) (ns_fields n)))
      | None => None
      end
    | _ => None
    end
  else None.
