(* runner commands for C09 *)
From Isomdl Require Import Lib.Bytes Lib.Cbor Model.Cose Spec.CoseRfc Model.Issuance Spec.IssuanceSpec Model.IssuanceObs.
Open Scope N_scope.
Local Open Scope string_scope.

Definition s9 (x : String.string) : bytes := bytes_of_string x.

Definition int_of_cbor (c : cbor) : option Z :=
  match c with
  | CUInt n => Some (Z.of_N n)
  | CNInt n => Some (- 1 - Z.of_N n)%Z
  | _ => None
  end.

Fixpoint texts_of_cbor (l : list cbor) : option (list bytes) :=
  match l with
  | [] => Some []
  | CText b :: r => match texts_of_cbor r with Some r' => Some (b :: r') | None => None end
  | _ => None
  end.

Fixpoint byte_strings_of_cbor (l : list cbor) : option (list bytes) :=
  match l with
  | [] => Some []
  | CBytes b :: r => match byte_strings_of_cbor r with Some r' => Some (b :: r') | None => None end
  | _ => None
  end.

Fixpoint uints_of_cbor (l : list cbor) : option (list N) :=
  match l with
  | [] => Some []
  | CUInt n :: r => match uints_of_cbor r with Some r' => Some (n :: r') | None => None end
  | _ => None
  end.

Fixpoint elems_of_cbor (l : list cbor) : option (list (bytes * cbor)) :=
  match l with
  | [] => Some []
  | CArray [CText k; v] :: r => match elems_of_cbor r with Some r' => Some ((k, v) :: r') | None => None end
  | _ => None
  end.

Fixpoint namespaces_of_cbor (l : list cbor) : option (list (bytes * list (bytes * cbor))) :=
  match l with
  | [] => Some []
  | CArray [CText ns; CArray es] :: r =>
    match elems_of_cbor es, namespaces_of_cbor r with
    | Some es', Some r' => Some ((ns, es') :: r')
    | _, _ => None
    end
  | _ => None
  end.

Fixpoint data_elements_of_cbor (l : list cbor) : option (list (bytes * list bytes)) :=
  match l with
  | [] => Some []
  | CArray [CText ns; CArray ids] :: r =>
    match texts_of_cbor ids, data_elements_of_cbor r with
    | Some ids', Some r' => Some ((ns, ids') :: r')
    | _, _ => None
    end
  | _ => None
  end.

(* null | [nameSpaces: null | [text...], dataElements: null | [[ns, [text...]]...]] *)
Definition auth_of_cbor (c : cbor) : option (option key_auth) :=
  match c with
  | CNull => Some None
  | CArray [n; d] =>
    match match n with CNull => Some None | CArray l => option_map Some (texts_of_cbor l) | _ => None end,
          match d with CNull => Some None | CArray l => option_map Some (data_elements_of_cbor l) | _ => None end with
    | Some n', Some d' => Some (Some {| ka_namespaces := n'; ka_elements := d' |})
    | _, _ => None
    end
  | _ => None
  end.

Definition alg_of_code (n : N) : option digest_alg :=
  if n =? 0 then Some SHA256 else if n =? 1 then Some SHA384 else if n =? 2 then Some SHA512 else None.

(* [docType, [[ns, [[id, value]...]]...], validityInfo, alg code, deviceKeyInfo, key authorisations, signature alg, decoys?] *)
Definition request_of_cbor (c : cbor) : option request :=
  match c with
  | CArray [CText dt; CArray nss; validity; CUInt alg; dki; auth; salg; CBool decoys] =>
    match namespaces_of_cbor nss, alg_of_code alg, auth_of_cbor auth, int_of_cbor salg with
    | Some nss', Some alg', Some auth', Some salg' =>
      Some {| q_doc_type := dt; q_namespaces := nss'; q_validity := validity; q_alg := alg';
              q_device_key_info := dki; q_auth := auth'; q_sig_alg := salg'; q_decoys := decoys |}
    | _, _, _, _ => None
    end
  | _ => None
  end.

(* [[id words], salt bytes, [count words], decoy bytes | [decoy digests]] *)
Definition tape_of_cbor (c : cbor) : option tape :=
  match c with
  | CArray [CArray ids; CBytes salt; CArray counts; decoy] =>
    match uints_of_cbor ids, uints_of_cbor counts,
          match decoy with
          | CBytes b => Some (DecoyBytes b)
          | CArray l => option_map DecoyDigests (byte_strings_of_cbor l)
          | _ => None
          end with
    | Some ids', Some counts', Some d => Some {| t_ids := ids'; t_salt := salt; t_counts := counts'; t_decoy := d |}
    | _, _, _ => None
    end
  | _ => None
  end.

Definition opt_bytes_cbor (o : option bytes) : cbor := match o with Some b => CBytes b | None => CNull end.

(* the observation of a document, as the harness builds it from a real Mdoc *)
Definition issued_to_cbor (o : issued) : cbor :=
  CArray [CText (o_doc_type o); CBytes (o_mso o);
          CArray (map (fun x => CArray [CText (fst x); CArray (map CBytes (snd x))]) (o_namespaces o));
          CBytes (o_protected o); CMap (o_unprotected o); opt_bytes_cbor (o_payload o); CBytes (o_signature o)].

Fixpoint obs_namespaces_of_cbor (l : list cbor) : option (list (bytes * list bytes)) :=
  match l with
  | [] => Some []
  | CArray [CText ns; CArray ibs] :: r =>
    match byte_strings_of_cbor ibs, obs_namespaces_of_cbor r with
    | Some ibs', Some r' => Some ((ns, ibs') :: r')
    | _, _ => None
    end
  | _ => None
  end.

Definition issued_of_cbor (c : cbor) : option issued :=
  match c with
  | CArray [CText dt; CBytes mso; CArray nss; CBytes prot; CMap unprot; payload; CBytes sg] =>
    match obs_namespaces_of_cbor nss,
          match payload with CBytes b => Some (Some b) | CNull => Some None | _ => None end with
    | Some nss', Some pl =>
      Some {| o_doc_type := dt; o_mso := mso; o_namespaces := nss'; o_protected := prot; o_unprotected := unprot;
              o_payload := pl; o_signature := sg |}
    | _, _ => None
    end
  | _ => None
  end.

Definition msg (pre : String.string) (why : String.string) : cbor := CText (s9 pre ++ s9 why).

Definition api_c09 (cmd : bytes) (args : list cbor) : option cbor :=
  if bytes_eqb cmd (s9 "c09.digest_id_new") then
    (* i32, release? -> [0, value]  (the model's constructor cannot panic; an implementation panic is observed as [1]) *)
    match args with
    | [i; CBool release] =>
      match int_of_cbor i with
      | Some z => Some (if in_i32 z then
                          CArray [CUInt 0; int_cbor (digest_id_new release z)]
                        else CArray [CUInt 9])
      | None => None
      end
    | _ => None
    end
  else if bytes_eqb cmd (s9 "c09.spec_id") then
    (* i32, observed outcome [0, value] | [1] *)
    match args with
    | [i; obs] =>
      match int_of_cbor i with
      | Some z =>
        Some (match obs with
              | CArray [CUInt 0; v] =>
                match int_of_cbor v with
                | Some v' => if digest_id_in_range_b v' then ctext "ok"
                             else ctext "fail:digest id outside 0..2^31-1"
                | None => ctext "fail:digest id is not an integer"
                end
              | _ => ctext "fail:digest id constructor panicked"
              end)
      | None => None
      end
    | _ => None
    end
  else if bytes_eqb cmd (s9 "c09.sweep_expect") then
    (* what a sweep of all 2^32 inputs of a release build must find, by C09_digest_id_range:
       [inputs, number outside 0..2^31-1, the inputs outside] -- none *)
    match args with
    | [] => Some (CArray [CUInt 4294967296; CUInt 0; CArray []])
    | _ => None
    end
  else if bytes_eqb cmd (s9 "c09.issue") then
    (* release?, request, tape, x5chain header value, signature (bytes) | null (signer failed)
       -> [tbs, 0, document] | [null, 1] refused | [null, 2] panic | [null, 3] out of tape.
       = issue with the signer (fun _ => signature), by C09_issue_is_prepare_complete *)
    match args with
    | [CBool release; rq; tp; x5; sg] =>
      match request_of_cbor rq, tape_of_cbor tp with
      | Some q, Some t =>
        Some (match prepare release q t with
              | Ok p =>
                match sg with
                | CBytes sig => CArray [CBytes (pm_tbs p); CUInt 0; issued_to_cbor (observe (complete p x5 sig))]
                | _ => CArray [CNull; CUInt 1]
                end
              | Err _ => CArray [CNull; CUInt 1]
              | Panic => CArray [CNull; CUInt 2]
              | OutOfTape => CArray [CNull; CUInt 3]
              end)
      | _, _ => Some (CArray [ctext "error"; ctext "c09.issue: undecodable request or tape"])
      end
    | _ => None
    end
  else if bytes_eqb cmd (s9 "c09.spec_tbs") then
    (* RFC 8152 Sig_structure over the observed protected bytes and payload, for the harness to check the signature *)
    match args with
    | [CBytes prot; CBytes payload] => Some (CBytes (rfc_tbs_sign1 prot [] payload))
    | _ => None
    end
  else if bytes_eqb cmd (s9 "c09.spec") then
    (* request, x5chain, does the signature verify under the signer's key over c09.spec_tbs?, observation *)
    match args with
    | [rq; x5; CBool authentic; CArray obs] =>
      match request_of_cbor rq with
      | Some q =>
        let req := request_of q x5 in
        let obs' := match obs with CBytes _ :: r => r | CNull :: r => r | _ => obs end in
        Some (match obs' with
              | [CUInt 1] => if must_refuse_b req then ctext "ok" else ctext "fail:issuance refused although the inputs are valid"
              | [CUInt 0; d] =>
                if must_refuse_b req then ctext "fail:issued although the inputs must be refused (empty namespace(s) or contradictory key authorisations)"
                else match issued_of_cbor d with
                     | None => ctext "fail:observation is not a document"
                     | Some o =>
                       match issued_check (fun _ _ => authentic) req o with
                            | Some why => msg "fail:" why
                            | None =>
                              if negb (randoms_distinct_b o) then ctext "fail:random values repeat within the document (not fresh)"
                              else if negb (digest_values_distinct_b o) then ctext "fail:two digests of a namespace coincide (a decoy digest equals an element's digest)"
                              else ctext "ok"
                            end
                     end
              | _ => ctext "fail:issuance panicked"
              end)
      | None => Some (ctext "fail:undecodable request")
      end
    | _ => None
    end
  else None.
