(* runner commands for C16.
   c16.decode_encode <type> <bytes>      model (tables copied from the source): [1, re-encoded bytes, typed view] | [0, null, null]
   c16.spec <type> <view of the original value> <bytes> <implementation's observation>
                                         executable specification, run with the standards' tables (Spec/WireSpec.iso_tables)
   c16.time [y, m, d, h, mi, s, ns, off] / c16.spec_time      what a validity date is emitted as
   c16.jwk <COSE_Key bytes> / c16.spec_jwk                    CoseKey -> JWK -> CoseKey *)
From Isomdl Require Import Lib.Bytes Lib.Cbor Lib.Serde Model.Wire.Time Model.Wire.Tables Model.Wire.CoseKey
  Model.Wire.Engagement Model.Wire.Session Model.Wire.Cose Model.Wire.Request Model.Wire.Mso Model.Wire.Signed
  Model.Wire.Response Spec.WireSpec Proofs.TimeProofs.
From Coq Require Import ZArith String.
Open Scope N_scope.

Definition s (x : String.string) : bytes := bytes_of_string x.
Definition vtext (x : String.string) : cbor := CText (bytes_of_string x).
Definition vopt {T} (f : T -> cbor) (o : option T) : cbor := match o with Some x => f x | None => CNull end.
Definition vlist {T} (f : T -> cbor) (l : list T) : cbor := CArray (map f l).

(* ---------- typed views (what the harness builds from the Rust value's public fields) ---------- *)

Definition view_date (d : odt) : cbor :=
  CArray [vtext "dt"; int_to_cbor (instant d); CUInt (Z.to_N (o_nanos d)); int_to_cbor (o_offset d)].
(* what a round trip does to a date in a view: UTC, no fraction, same instant *)
Fixpoint norm_view (v : cbor) : cbor :=
  match v with
  | CArray l =>
    match l with
    | [CText t; a; _; _] => if bytes_eqb t (s "dt") then CArray [CText t; a; CUInt 0; CUInt 0] else CArray (map norm_view l)
    | _ => CArray (map norm_view l)
    end
  | CMap kvs => CMap (map (fun kv => (fst kv, norm_view (snd kv))) kvs)
  | CTag t x => CTag t (norm_view x)
  | _ => v
  end.

Definition view_cose_key (k : cose_key) : cbor :=
  match k with
  | EC2 crv x y => CArray [vtext "EC2"; vtext (ec2_curve_name crv); CBytes x; y_to_cbor y]
  | OKP crv x => CArray [vtext "OKP"; vtext (okp_curve_name crv); CBytes x]
  end.
Definition view_t24 {T} (t : tag24 T) : cbor := CBytes (t24_bytes t).
Definition view_session_data (x : session_data) : cbor :=
  CArray [vopt CBytes (sd_data x); vopt (fun st => vtext (session_status_name st)) (sd_status x)].
Definition view_session_establishment (x : session_establishment) : cbor :=
  CArray [view_cose_key (t24_inner (se_reader_key x)); view_t24 (se_reader_key x); CBytes (se_data x)].
Definition view_handover (h : handover) : cbor :=
  match h with
  | HQr => CArray [vtext "QR"]
  | HNfc a b => CArray [vtext "NFC"; CBytes a; vopt CBytes b]
  | HOid4vp a b => CArray [vtext "OID4VP"; CText a; CText b]
  end.
Definition view_ble (o : ble_options) : cbor :=
  CArray [vopt (fun p => CArray [CBytes (fst p); vopt CBytes (snd p)]) (ble_peripheral o); vopt CBytes (ble_central o)].
(* WifiOptions, NfcOptions and ServerRetrievalMethods have private fields: nothing to read on the Rust side *)
Definition view_method (m : retrieval_method) : cbor :=
  match m with
  | RBle o => CArray [vtext "BLE"; view_ble o]
  | RNfc _ => CArray [vtext "NFC"]
  | RWifi _ => CArray [vtext "WIFI"]
  end.
Definition view_engagement (e : device_engagement) : cbor :=
  CArray [CText (de_version e); CUInt (sec_cipher_suite (de_security e)); view_cose_key (t24_inner (sec_key (de_security e)));
          view_t24 (sec_key (de_security e)); vopt (vlist view_method) (de_methods e);
          CBool (match de_server e with Some _ => true | None => false end); vopt (fun v => v) (de_protocol_info e)].
Definition view_transcript (x : session_transcript) : cbor :=
  CArray [view_t24 (st_engagement x); view_t24 (st_reader_key x); view_handover (st_handover x)].
Definition view_namespaces (n : namespaces) : cbor :=
  vlist (fun e => CArray [CText (fst e); vlist (fun d => CArray [CText (fst d); CBool (snd d)]) (snd e)]) n.
Definition view_items_request (x : items_request) : cbor :=
  CArray [CText (ir_doc_type x); view_namespaces (ir_namespaces x);
          vopt (vlist (fun e => CArray [CText (fst e); snd e])) (ir_request_info x)].
Definition view_doc_request (x : @doc_request cbor) : cbor :=
  CArray [view_items_request (t24_inner (dr_items_request x)); view_t24 (dr_items_request x); vopt (fun v => v) (dr_reader_auth x)].
Definition view_device_request (x : @device_request cbor) : cbor :=
  CArray [CText (dq_version x); vlist view_doc_request (dq_doc_requests x)].
Definition view_validity (v : validity_info) : cbor :=
  CArray [view_date (vi_signed v); view_date (vi_valid_from v); view_date (vi_valid_until v); vopt view_date (vi_expected_update v)].
Definition view_key_auth (k : key_authorizations) : cbor :=
  CArray [vopt (vlist CText) (ka_namespaces k);
          vopt (vlist (fun e => CArray [CText (fst e); vlist CText (snd e)])) (ka_data_elements k)].
Definition view_dki (k : device_key_info) : cbor :=
  CArray [view_cose_key (dk_device_key k); vopt view_key_auth (dk_key_authorizations k);
          vopt (vlist (fun e => CArray [i128_to_cbor (fst e); snd e])) (dk_key_info k)].
Definition view_digest_ids (d : digest_ids) : cbor := vlist (fun e => CArray [int_to_cbor (fst e); CBytes (snd e)]) d.
Definition view_mso (m : mso) : cbor :=
  CArray [CText (mso_version m); vtext (digest_alg_name (mso_digest_algorithm m));
          vlist (fun e => CArray [CText (fst e); view_digest_ids (snd e)]) (mso_value_digests m);
          view_dki (mso_device_key_info m); CText (mso_doc_type m); view_validity (mso_validity_info m)].
Definition view_item (x : issuer_signed_item) : cbor :=
  CArray [int_to_cbor (isi_digest_id x); CBytes (isi_random x); CText (isi_element_identifier x); isi_element_value x].
Definition view_issuer_signed (x : @issuer_signed cbor) : cbor :=
  CArray [vopt (vlist (fun e => CArray [CText (fst e); vlist (fun t => CArray [view_item (t24_inner t); view_t24 t]) (snd e)])) (is_namespaces x);
          is_issuer_auth x].
Definition view_device_auth (a : @device_auth cbor cbor) : cbor :=
  match a with
  | DeviceSignature x => CArray [vtext "DeviceSignature"; x]
  | DeviceMac x => CArray [vtext "DeviceMac"; x]
  end.
Definition view_device_signed (x : @device_signed cbor cbor) : cbor :=
  CArray [view_t24 (ds_namespaces x); view_device_auth (ds_device_auth x)].
Definition view_error_code (c : doc_error_code) : cbor :=
  match c with DataNotReturned => vtext "DataNotReturned" | ApplicationSpecific z => i128_to_cbor z end.
Definition view_document_error (d : document_error) : cbor := vlist (fun e => CArray [CText (fst e); view_error_code (snd e)]) d.
Definition view_errors (e : errors) : cbor := vlist (fun n => CArray [CText (fst n); view_document_error (snd n)]) e.
Definition view_document (d : @document cbor cbor) : cbor :=
  CArray [CText (doc_doc_type d); view_issuer_signed (doc_issuer_signed d); view_device_signed (doc_device_signed d);
          vopt view_errors (doc_errors d)].
Definition view_response (r : @device_response cbor cbor) : cbor :=
  CArray [CText (rsp_version r); vopt (vlist view_document) (rsp_documents r);
          vopt (vlist view_document_error) (rsp_document_errors r); vtext (response_status_name (rsp_status r))].

(* ---------- one entry per wire type ---------- *)

Definition is_name (name : bytes) (n : String.string) : bool := bytes_eqb name (s n).

Section WithTables.
  Variable tb : tables.
  Let S1 := cose_shallow_P 18.
  Let M0 := cose_shallow_P 17.

  Definition with_type {R} (name : bytes) (k : forall T : Type, codec T -> (T -> cbor) -> R) : option R :=
    if is_name name "SessionData" then Some (k _ (c_session_data tb) view_session_data)
    else if is_name name "SessionEstablishment" then Some (k _ (c_session_establishment tb) view_session_establishment)
    else if is_name name "Handover" then Some (k _ (c_handover tb) view_handover)
    else if is_name name "SessionTranscript" then Some (k _ (c_session_transcript tb) view_transcript)
    else if is_name name "CoseKey" then Some (k _ (c_cose_key tb) view_cose_key)
    else if is_name name "DeviceEngagement" then Some (k _ (c_engagement tb) view_engagement)
    else if is_name name "DeviceRetrievalMethod" then Some (k _ (c_method tb) view_method)
    else if is_name name "BleOptions" then Some (k _ (Codec ble_to_cbor ble_of_cbor) view_ble)
    else if is_name name "WifiOptions" then Some (k _ (Codec wifi_to_cbor wifi_of_cbor) (fun _ => CNull))
    else if is_name name "NfcOptions" then Some (k _ (Codec nfc_to_cbor (nfc_of_cbor tb)) (fun _ => CNull))
    else if is_name name "Security" then Some (k _ (c_security tb) (fun x => CArray [CUInt (sec_cipher_suite x); view_t24 (sec_key x)]))
    else if is_name name "ItemsRequest" then Some (k _ c_items_request view_items_request)
    else if is_name name "DocRequest" then Some (k _ (c_doc_request c_sign1_shallow S1) view_doc_request)
    else if is_name name "DeviceRequest" then Some (k _ (c_device_request c_sign1_shallow S1) view_device_request)
    else if is_name name "ValidityInfo" then Some (k _ c_validity_info view_validity)
    else if is_name name "KeyAuthorizations" then Some (k _ c_key_authorizations view_key_auth)
    else if is_name name "DeviceKeyInfo" then Some (k _ (c_device_key_info tb) view_dki)
    else if is_name name "DigestIds" then Some (k _ c_digest_ids view_digest_ids)
    else if is_name name "Mso" then Some (k _ (c_mso tb) view_mso)
    else if is_name name "IssuerSignedItem" then Some (k _ c_issuer_signed_item view_item)
    else if is_name name "IssuerSigned" then Some (k _ (c_issuer_signed c_sign1_shallow S1) view_issuer_signed)
    else if is_name name "DeviceAuth" then Some (k _ (c_device_auth tb c_sign1_shallow c_mac0_shallow) view_device_auth)
    else if is_name name "DeviceSigned" then Some (k _ (c_device_signed tb c_sign1_shallow c_mac0_shallow S1 M0) view_device_signed)
    else if is_name name "Document" then Some (k _ (c_document tb c_sign1_shallow c_mac0_shallow S1 M0) view_document)
    else if is_name name "DeviceResponse" then Some (k _ (c_device_response tb c_sign1_shallow c_mac0_shallow S1 M0) view_response)
    else if is_name name "DocumentErrorCode" then Some (k _ (c_doc_error_code tb) view_error_code)
    else if is_name name "DocumentError" then Some (k _ (c_document_error tb) view_document_error)
    else if is_name name "Errors" then Some (k _ (c_errors tb) view_errors)
    else if is_name name "SessionStatus" then Some (k _ (c_session_status tb) (fun x => vtext (session_status_name x)))
    else if is_name name "ResponseStatus" then Some (k _ (c_response_status tb) (fun x => vtext (response_status_name x)))
    else if is_name name "DigestAlgorithm" then Some (k _ (c_digest_alg tb) (fun x => vtext (digest_alg_name x)))
    else None.

  Definition run_decode_encode (T : Type) (c : codec T) (view : T -> cbor) (bs : bytes) : cbor :=
    match from_bytes c bs with
    | Some x => CArray [CUInt 1; CBytes (to_bytes c x); view x]
    | None => CArray [CUInt 0; CNull; CNull]
    end.

  Definition run_spec (orig : cbor) (bs : bytes) (obs : cbor) (T : Type) (c : codec T) (view : T -> cbor) : cbor :=
    match from_bytes c bs with
    | None => vtext "fail:the encoding does not decode with the standard's member names and codes"
    | Some x =>
      if negb (cbor_eqb (view x) (norm_view orig)) then vtext "fail:read with the standard's names and codes, the encoding denotes another value"
      else if negb (bytes_eqb (to_bytes c x) bs) then vtext "fail:not the stable encoding (optional member not omitted, time not normalised, other order or width)"
      else if cbor_eqb obs (CArray [CUInt 1; CBytes bs; norm_view orig]) then vtext "ok"
      else vtext "fail:the implementation's decode of its own encoding failed, changed the value or re-encodes to other bytes"
    end.
End WithTables.

(* a decoded value whose encoding returns an error: only ValidityInfo (and an Mso holding one) can,
   when a date's UTC year is outside 0000..9999 *)
Definition decoded_encodable (tb : tables) (ty : bytes) (bs : bytes) : bool :=
  if is_name ty "ValidityInfo" then match from_bytes c_validity_info bs with Some v => validity_encodable v | None => true end
  else if is_name ty "Mso" then match from_bytes (c_mso tb) bs with Some m => validity_encodable (mso_validity_info m) | None => true end
  else true.

(* ---------- time ---------- *)
Definition odt_of_args (l : list cbor) : option odt :=
  match mapM int_of_cbor l with
  | Some [y; m; d; h; mi; sec; ns; off] => Some (ODT y m d h mi sec ns off)
  | _ => None
  end.

(* ---------- JWK ---------- *)
Definition view_jwk (j : jwk) : cbor :=
  match j with
  | JwkEC crv x y => CArray [vtext "EC"; vopt CText crv; vopt CBytes x; vopt CBytes y]
  | JwkOKP crv x => CArray [vtext "OKP"; CText crv; CBytes x]
  | JwkOther => CNull
  end.
Definition run_jwk (tb : tables) (bs : bytes) : cbor :=
  match from_bytes (c_cose_key tb) bs with
  | None => CNull
  | Some k =>
    match cose_to_jwk tb k with
    | None => CArray [CNull; CNull]
    | Some j => CArray [view_jwk j; vopt view_cose_key (jwk_to_cose tb j)]
    end
  end.

Definition api_c16 (cmd : bytes) (args : list cbor) : option cbor :=
  if bytes_eqb cmd (s "c16.decode_encode") then
    match args with
    | [CText ty; CBytes bs] =>
      if decoded_encodable gen_tables ty bs then with_type gen_tables ty (fun T c view => run_decode_encode T c view bs)
      else Some (CArray [CUInt 3; vtext "decoded value does not encode"; CNull])
    | _ => None
    end
  else if bytes_eqb cmd (s "c16.spec") then
    match args with
    | [CText ty; orig; CBytes bs; obs] =>
      with_type iso_tables ty (run_spec orig bs obs)
    | _ => None
    end
  else if bytes_eqb cmd (s "c16.time") then
    match args with
    | [CArray l] =>
      match odt_of_args l with
      | Some x => Some (if odt_valid x && emit_ok x then CArray [CUInt 1; CText (emit x)] else CArray [CUInt 0; CNull])
      | None => None
      end
    | _ => None
    end
  else if bytes_eqb cmd (s "c16.spec_time") then
    (* the implementation's text must have the fixed shape and denote the same instant to the second *)
    match args with
    | [CArray l; obs] =>
      match odt_of_args l with
      | Some x =>
        Some (if negb (odt_valid x) then vtext "n/a:not a valid date-time"
              else if negb (emit_ok x) then
                (* C16_validity_encode_total: an error, never a panic *)
                match obs with
                | CArray [CUInt 0; _] => vtext "ok"
                | CArray (CUInt 2 :: _) => vtext "fail:encoding a date whose UTC year is outside 0000..9999 panicked"
                | _ => vtext "fail:a date whose UTC year is outside 0000..9999 was emitted"
                end
              else match obs with
                   | CArray [CUInt 1; CText t] =>
                     if negb (rfc3339_utc_shape t) then vtext "fail:emitted text is not YYYY-MM-DDThh:mm:ssZ"
                     else match parse_rfc3339 t with
                          | Some u => if (instant u =? instant x)%Z && (o_offset u =? 0)%Z && (o_nanos u =? 0)%Z then vtext "ok"
                                      else vtext "fail:emitted text denotes another instant"
                          | None => vtext "fail:emitted text is not a date-time"
                          end
                   | _ => vtext "fail:a valid date-time was not emitted"
                   end)
      | None => None
      end
    | _ => None
    end
  else if bytes_eqb cmd (s "c16.jwk") then
    match args with [CBytes bs] => Some (run_jwk gen_tables bs) | _ => None end
  else if bytes_eqb cmd (s "c16.spec_jwk") then
    (* CoseKey -> JWK -> CoseKey gives the same key back, the JWK carries the standard's curve name and the
       same coordinates; a sign-bit y is refused *)
    match args with
    | [CBytes bs; obs] =>
      Some (match from_bytes (c_cose_key iso_tables) bs with
            | None => vtext "n/a:not a COSE_Key"
            | Some k =>
              match k, obs with
              | EC2 _ _ (YSign _), CArray [CNull; CNull] => vtext "ok"
              | EC2 _ _ (YSign _), _ => vtext "fail:a key without explicit y was converted"
              | _, CArray [j; back] =>
                if negb (cbor_eqb back (view_cose_key k)) then vtext "fail:CoseKey -> JWK -> CoseKey changed curve or coordinates"
                else if cbor_eqb j (vopt view_jwk (cose_to_jwk iso_tables k)) then vtext "ok"
                else vtext "fail:JWK does not carry the standard curve name and the same coordinates"
              | _, _ => vtext "fail:conversion failed"
              end
            end)
    | _ => None
    end
  else None.
